"""Property monitors on recorded runs of the real library (violation search / witness confirmation).
Each monitor returns None or (signature dict, text)."""
import math

from .common import unhex
from .swrap import kvs

SUCCESS_CODES = {1, 2, 3, 4, 5, 6}
ROUNDOFF = -4
FORCED = -5


def hl(s):
    if s in ("", "_", "-", None):
        return []
    return [unhex(t) for t in s.split(",")]


def bits(s):
    return [] if s in ("", "_", "-", None) else s.split(",")


class RunInfo:
    """decoded view of a Run"""

    def __init__(self, run, algs):
        self.run = run
        self.sp = kvs(run.spec)
        self.alg = int(self.sp.get("alg", -1))
        self.name = algs.name(self.alg)
        self.n = int(self.sp.get("n", 0))
        pre = run.pre or {}
        self.lb = hl(pre.get("lb"))
        self.ub = hl(pre.get("ub"))
        self.maximize = self.sp.get("max") == "1"
        self.ret = int(run.R["ret"]) if run.R and "ret" in run.R else None
        self.optf = unhex(run.R["optf"]) if self.ret is not None else None
        self.x = hl(run.R.get("x")) if self.ret is not None else None
        self.xbits = bits(run.R.get("x")) if self.ret is not None else None
        self.objcalls = [c for c in run.calls if c.kind == "f"]
        self.maxeval = int(self.sp.get("maxeval", 0))
        self.local = int(self.sp["local"].split(":")[0]) if "local" in self.sp else None
        self.local_name = algs.name(self.local) if self.local is not None else None
        # the unconstrained-only original NEWUOA ignores bounds (also as a subsidiary optimizer)
        self.unbounded = self.name == "NLOPT_LN_NEWUOA" or self.local_name == "NLOPT_LN_NEWUOA"


def in_box(x, lb, ub):
    for v, a, b in zip(x, lb, ub):
        if not (a <= v <= b):      # false for NaN
            return False
    return True


def mon_in_box(ri):
    """C01: every point handed to a callback is inside the box, fixed coordinates exactly on the bound"""
    if ri.unbounded:
        return None
    for k, c in enumerate(ri.run.calls):
        x = hl(c.x)
        if len(x) != len(ri.lb):
            continue
        for i, (v, a, b) in enumerate(zip(x, ri.lb, ri.ub)):
            if not (a <= v <= b):
                cause = "nan" if v != v else ("below" if v < a else "above")
                ulps = None
                try:
                    ref = a if v < a else b
                    ulps = abs(v - ref) / (math.ulp(ref) or 5e-324)
                except Exception:
                    pass
                ref = a if v < a else b
                rel = abs(v - ref) / max(1.0, abs(ref)) if v == v else float("inf")
                kind = "rounding" if ulps is not None and ulps <= 4 else ("within 1e-7 relative" if rel <= 1e-7 else "far")
                return ({"alg": ri.name, "cause": "callback point outside bounds (%s)" % (cause if cause == "nan" else kind)},
                        "%s: callback %d (%s) got x[%d]=%r outside [%r,%r]" % (ri.name, k + 1, c.kind, i, v, a, b))
            if a == b and v != a:
                return ({"alg": ri.name, "cause": "fixed coordinate not on its bound"}, "%s: fixed coordinate %d passed as %r, bound %r" % (ri.name, i, v, a))
    return None


def mon_returned_point(ri):
    """C02: on success / ROUNDOFF_LIMITED the returned x is an evaluated point inside the box with its value"""
    if ri.ret is None or not (ri.ret in SUCCESS_CODES or ri.ret == ROUNDOFF) or not ri.objcalls:
        return None
    if not in_box(ri.x, ri.lb, ri.ub) and not ri.unbounded:
        return ({"alg": ri.name, "cause": "returned x outside bounds"}, "%s: returned x=%r outside the box" % (ri.name, ri.x))
    key = ",".join(ri.xbits)
    hits = [c for c in ri.objcalls if c.x == key]
    if not hits:
        # how far from the nearest evaluated point?  (a few units in the last place = the algorithm re-derived the point arithmetically)
        best = float("inf")
        for c in ri.objcalls:
            xe = hl(c.x)
            if len(xe) == len(ri.x):
                d = max((abs(a - b) / max(abs(a), abs(b), 1e-300) if a != b else 0.0) for a, b in zip(xe, ri.x)) if xe else 0.0
                best = min(best, d)
        sig = {"alg": ri.name, "cause": "returned x was never evaluated", "distance": "rounding (<= 1e-14 relative)" if best <= 1e-14 else "more than rounding",
               "constrained": ("ineq" in ri.sp or "eq" in ri.sp)}
        return (sig, "%s: returned x is not bit-for-bit one of the %d evaluated points (nearest differs by %.3g relative, ret=%d)" % (ri.name, len(ri.objcalls), best, ri.ret))
    vals = [unhex(c.val) for c in hits]
    if not any((v == ri.optf) or (v != v and ri.optf != ri.optf) for v in vals):
        sig = {"alg": ri.name, "cause": "opt_f differs from the objective value at the returned x"}
        if abs(ri.optf) == float("inf"):
            sig["detail"] = "opt_f infinite, ROUNDOFF_LIMITED" if ri.ret == -4 else "opt_f infinite%s" % (", constrained" if ("ineq" in ri.sp or "eq" in ri.sp) else "")
        return (sig, "%s: opt_f=%r but f(returned x)=%r (ret=%d)" % (ri.name, ri.optf, vals[0], ri.ret))
    if ri.ret == 2 and "stopval" in ri.sp:
        sv = unhex(ri.sp["stopval"])
        ok = ri.optf >= sv if ri.maximize else ri.optf <= sv
        if not ok:
            return ({"alg": ri.name, "cause": "STOPVAL_REACHED without reaching stopval"}, "%s: STOPVAL_REACHED with opt_f=%r, stopval=%r" % (ri.name, ri.optf, sv))
    return None


BEST_ALGS = {"NLOPT_GN_DIRECT", "NLOPT_GN_DIRECT_L", "NLOPT_GN_DIRECT_L_RAND", "NLOPT_GN_DIRECT_NOSCAL", "NLOPT_GN_DIRECT_L_NOSCAL",
             "NLOPT_GN_DIRECT_L_RAND_NOSCAL", "NLOPT_GN_ORIG_DIRECT", "NLOPT_GN_ORIG_DIRECT_L", "NLOPT_GN_CRS2_LM", "NLOPT_GN_ISRES",
             "NLOPT_GN_ESCH", "NLOPT_GD_STOGO", "NLOPT_GD_STOGO_RAND", "NLOPT_LN_NELDERMEAD", "NLOPT_LN_SBPLX", "NLOPT_LN_PRAXIS",
             "NLOPT_LN_BOBYQA", "NLOPT_LN_NEWUOA", "NLOPT_LN_NEWUOA_BOUND", "NLOPT_LN_COBYLA", "NLOPT_LD_TNEWTON",
             "NLOPT_LD_TNEWTON_RESTART", "NLOPT_LD_TNEWTON_PRECOND", "NLOPT_LD_TNEWTON_PRECOND_RESTART"}


def mon_best(ri):
    """C05: opt_f is the best value among in-bounds evaluated points (no nonlinear constraints)"""
    if ri.name not in BEST_ALGS or "ineq" in ri.sp or "eq" in ri.sp:
        return None
    if ri.ret is None or not (ri.ret in SUCCESS_CODES or ri.ret == ROUNDOFF) or not ri.objcalls:
        return None
    vals = []
    for c in ri.objcalls:
        x = hl(c.x)
        v = unhex(c.val)
        if v == v and (ri.name == "NLOPT_LN_NEWUOA" or in_box(x, ri.lb, ri.ub)):
            vals.append(v)
    if not vals:
        return None
    best = max(vals) if ri.maximize else min(vals)
    if ri.optf != best:
        worse = ri.optf < best if ri.maximize else ri.optf > best
        return ({"alg": ri.name, "cause": "opt_f is not the best evaluated value" if worse else "opt_f better than any evaluated value"},
                "%s: opt_f=%r, best in-bounds evaluated value=%r (%d evaluations, ret=%d)" % (ri.name, ri.optf, best, len(vals), ri.ret))
    return None


def mon_args(ri, deriv_free):
    """C13: documented arguments"""
    if ri.run.asserts:
        return ({"alg": ri.name, "cause": "callback argument"}, "%s: %s" % (ri.name, ri.run.asserts[0]))
    if ri.name in deriv_free:
        for k, c in enumerate(ri.run.calls):
            if c.g:
                return ({"alg": ri.name, "cause": "gradient requested by derivative-free algorithm"},
                        "%s: callback %d received a non-NULL gradient" % (ri.name, k + 1))
    return None


def mon_counts(ri):
    """C03 (iv): nlopt_get_numevals equals the number of objective evaluations"""
    if ri.ret is None:
        return None
    ne = int(ri.run.R.get("numevals", -1))
    oc = int(ri.run.R.get("objcalls", -1))
    if ne != oc and ri.ret != -2:
        return ({"alg": ri.name, "cause": "numevals differs from the number of objective evaluations"},
                "%s: nlopt_get_numevals=%d, objective evaluations=%d" % (ri.name, ne, oc))
    return None
