"""Shared machinery of the /verif checks: paths, repo build (hooks on), lake build, axiom audit,
forbidden-token scan, evidence, known findings, violation reporting."""
import fcntl
import hashlib
import json
import os
import re
import shutil
import subprocess
import sys
import time

VERIF = os.path.dirname(os.path.dirname(os.path.abspath(__file__)))
REPO = os.environ.get("VERIF_REPO", "/repo")
LEAN = os.path.join(VERIF, "lean")
CACHE = os.environ.get("VERIF_CACHE", "/var/tmp/nlopt-verif-cache")
REPLAYS = os.path.join(VERIF, "replays")
EVIDENCE = os.path.join(VERIF, "evidence")
NCPU = os.cpu_count() or 4

STD_AXIOMS = {"propext", "Classical.choice", "Quot.sound"}
FORBIDDEN = re.compile(
    r"\bsorry\b|\badmit\b|^\s*axiom\s|\bnative_decide\b|\bbv_decide\b|\bimplemented_by\b|\bunsafe\s|maxHeartbeats\s+0\b",
    re.M)


def sh(cmd, cwd=None, timeout=None, env=None, input=None):
    """run, return (rc, stdout+stderr) with the conda warning line filtered"""
    p = subprocess.run(cmd, cwd=cwd, shell=isinstance(cmd, str), stdout=subprocess.PIPE,
                       stderr=subprocess.STDOUT, timeout=timeout, env=env, input=input)
    out = p.stdout.decode("utf-8", "replace") if isinstance(p.stdout, bytes) else p.stdout
    out = "\n".join(l for l in out.split("\n") if "conda.cli.condarc" not in l)
    return p.returncode, out


class Lock:
    def __init__(self, path):
        self.path = path

    def __enter__(self):
        os.makedirs(os.path.dirname(self.path), exist_ok=True)
        self.f = open(self.path, "w")
        fcntl.flock(self.f, fcntl.LOCK_EX)
        return self

    def __exit__(self, *a):
        fcntl.flock(self.f, fcntl.LOCK_UN)
        self.f.close()


# ----------------------------------------------------------------------------------------
# repo build

def repo_tree_hash():
    h = hashlib.sha256()
    roots = [os.path.join(REPO, "src"), os.path.join(REPO, "cmake")]
    files = [os.path.join(REPO, "CMakeLists.txt"), os.path.join(REPO, "nlopt_config.h.in")]
    for r in roots:
        for d, dn, fn in os.walk(r):
            dn.sort()
            for f in sorted(fn):
                files.append(os.path.join(d, f))
    for f in files:
        try:
            with open(f, "rb") as fh:
                h.update(f.encode())
                h.update(b"\0")
                h.update(fh.read())
        except OSError:
            pass
    return h.hexdigest()[:16]


VARIANTS = {
    # name: (c flags, build type)
    "hooks": ("-DNLOPT_VERIF", "RelWithDebInfo"),
    "asan": ("-DNLOPT_VERIF -fsanitize=address,undefined -fno-sanitize-recover=undefined -fno-omit-frame-pointer -O1", "RelWithDebInfo"),
    "tsan": ("-DNLOPT_VERIF -fsanitize=thread -O1", "RelWithDebInfo"),
    "nohooks": ("", "RelWithDebInfo"),
    "cov": ("-DNLOPT_VERIF --coverage -O0", "Debug"),
}


def build_repo(variant="hooks"):
    """Build /repo's CURRENT working tree as a static library with the given flags.
    Returns (dir, ok, log).  Cached by content hash of the sources; rebuilt when absent."""
    flags, btype = VARIANTS[variant]
    h = repo_tree_hash()
    os.makedirs(CACHE, exist_ok=True)
    d = os.path.join(CACHE, "%s-%s" % (h, variant))
    with Lock(os.path.join(CACHE, "lock-%s" % variant)):
        if os.path.exists(os.path.join(d, "OK")):
            os.utime(d)
            return d, True, "cached"
        shutil.rmtree(d, ignore_errors=True)
        # prune: keep the 2 most recent other builds of this variant
        olds = sorted((x for x in os.listdir(CACHE) if x.endswith("-" + variant)),
                      key=lambda x: os.path.getmtime(os.path.join(CACHE, x)))
        for x in olds[:-2]:
            shutil.rmtree(os.path.join(CACHE, x), ignore_errors=True)
        cmd = ["cmake", "-G", "Ninja", "-S", REPO, "-B", d, "-DCMAKE_BUILD_TYPE=" + btype,
               "-DCMAKE_C_FLAGS=" + flags, "-DCMAKE_CXX_FLAGS=" + flags,
               "-DBUILD_SHARED_LIBS=OFF", "-DNLOPT_PYTHON=OFF", "-DNLOPT_OCTAVE=OFF",
               "-DNLOPT_MATLAB=OFF", "-DNLOPT_GUILE=OFF", "-DNLOPT_SWIG=OFF", "-DNLOPT_JAVA=OFF",
               "-DNLOPT_TESTS=OFF"]
        rc, out = sh(cmd)
        if rc == 0:
            rc, out2 = sh(["cmake", "--build", d, "-j", str(NCPU)])
            out += out2
        if rc != 0:
            return d, False, out[-4000:]
        open(os.path.join(d, "OK"), "w").write("ok\n")
        return d, True, out[-500:]


def algdirs():
    base = os.path.join(REPO, "src", "algs")
    return [os.path.join(base, x) for x in sorted(os.listdir(base))]


def build_harness(name, bdir, variant="hooks", cxx=False, extra=()):
    """compile harness/<name>.c against the library in bdir; returns (exe, ok, log)"""
    src = os.path.join(VERIF, "harness", name + (".cc" if cxx else ".c"))
    exe = os.path.join(bdir, "h_" + name)
    dep = [src, os.path.join(VERIF, "harness", "hcommon.h"), os.path.join(bdir, "libnlopt.a")]
    if os.path.exists(exe) and all(os.path.getmtime(exe) > os.path.getmtime(x) for x in dep if os.path.exists(x)):
        return exe, True, "cached"
    flags = VARIANTS[variant][0].split()
    inc = ["-I" + bdir, "-I" + os.path.join(REPO, "src", "api"), "-I" + os.path.join(REPO, "src", "util"),
           "-I" + os.path.join(VERIF, "harness")] + ["-I" + a for a in algdirs()]
    cmd = ["g++" if cxx else "gcc", "-g", "-O1"] + flags + inc + ["-o", exe + ".tmp%d" % os.getpid(), src] + list(extra) + \
          [os.path.join(bdir, "libnlopt.a"), "-lstdc++", "-lm", "-lpthread"]
    rc, out = sh(cmd)
    if rc == 0:
        os.replace(exe + ".tmp%d" % os.getpid(), exe)
    return exe, rc == 0, out[-3000:]


# ----------------------------------------------------------------------------------------
# Lean side

def write_if_changed(path, content):
    try:
        if open(path).read() == content:
            return False
    except OSError:
        pass
    os.makedirs(os.path.dirname(path), exist_ok=True)
    with open(path, "w") as f:
        f.write(content)
    return True


def lake_build(targets=("NloptModel", "nlopt_model")):
    with Lock(os.path.join(LEAN, ".verif-lake.lock")):
        t0 = time.time()
        rc, out = sh(["lake", "build"] + list(targets), cwd=LEAN)
        return rc == 0, out, time.time() - t0


def strip_lean_comments(s):
    # remove block comments (nested) and line comments
    out = []
    i, depth, n = 0, 0, len(s)
    while i < n:
        if s.startswith("/-", i):
            depth += 1
            i += 2
        elif depth and s.startswith("-/", i):
            depth -= 1
            i += 2
        elif depth:
            if s[i] == "\n":
                out.append("\n")
            i += 1
        elif s.startswith("--", i):
            while i < n and s[i] != "\n":
                i += 1
        else:
            out.append(s[i])
            i += 1
    return "".join(out)


def forbidden_scan():
    """scan all Lean sources of the library for forbidden tokens outside comments"""
    hits = []
    for d, dn, fn in os.walk(LEAN):
        if ".lake" in d:
            continue
        for f in fn:
            if f.endswith(".lean"):
                p = os.path.join(d, f)
                body = strip_lean_comments(open(p).read())
                for m in FORBIDDEN.finditer(body):
                    line = body.count("\n", 0, m.start()) + 1
                    hits.append("%s:%d:%s" % (os.path.relpath(p, LEAN), line, m.group(0).strip()))
    return hits


def theorems_of(path):
    """fully qualified names of the theorems declared in a Lean file (namespace tracking)"""
    body = strip_lean_comments(open(path).read())
    ns, names = [], []
    for line in body.split("\n"):
        m = re.match(r"\s*namespace\s+(\S+)", line)
        if m:
            ns.append(m.group(1))
            continue
        m = re.match(r"\s*end\s+(\S+)\s*$", line)
        if m and ns and ns[-1] == m.group(1):
            ns.pop()
            continue
        m = re.match(r"\s*(?:@\[[^\]]*\]\s*)?(?:private\s+|protected\s+)?theorem\s+([^\s:({\[]+)", line)
        if m:
            names.append(".".join(ns + [m.group(1)]))
    return names


def audit_props(files):
    """#print axioms for every theorem of the given Props files.
    returns (list of (thm, axioms or None-if-missing), raw output)"""
    thms, imports = [], []
    for f in files:
        flt = None
        if ":" in f:
            f, flt = f.split(":", 1)
        sub = "Props"
        if "/" in f:
            sub, f = f.split("/", 1)
        p = os.path.join(LEAN, "NloptModel", sub, f + ".lean")
        if not os.path.exists(p):
            continue
        imports.append("import NloptModel.%s.%s" % (sub, f))
        names = theorems_of(p)
        if flt:
            names = [t for t in names if re.search(flt, t.split(".")[-1])]
        thms += names
    if not thms:
        return [], "no Props files"
    src = "\n".join(imports) + "\n" + "\n".join("#print axioms %s" % t for t in thms) + "\n"
    ap = os.path.join(LEAN, ".audit-%d.lean" % os.getpid())
    open(ap, "w").write(src)
    try:
        rc, out = sh(["lake", "env", "lean", ap], cwd=LEAN, timeout=600)
    finally:
        os.unlink(ap)
    res = {}
    # outputs: "'name' depends on axioms: [a, b]"  or "'name' does not depend on any axioms"
    for m in re.finditer(r"'(\S+)' depends on axioms: \[([^\]]*)\]", out, re.S):
        res[m.group(1)] = [x.strip() for x in m.group(2).replace("\n", " ").split(",") if x.strip()]
    for m in re.finditer(r"'(\S+)' does not depend on any axioms", out):
        res[m.group(1)] = []
    return [(t, res.get(t)) for t in thms], out


# ----------------------------------------------------------------------------------------
# model driver

def model_exe():
    return os.path.join(LEAN, ".lake", "build", "bin", "nlopt_model")


def run_model(stream, text, timeout=600):
    """pipe `text` (lines) to the compiled model driver; returns list of output lines"""
    for attempt in range(3):
        p = subprocess.run([model_exe(), stream], input=text.encode(), stdout=subprocess.PIPE,
                           stderr=subprocess.PIPE, timeout=timeout)
        if p.returncode >= 0:
            break               # killed by a signal (host memory pressure): not an answer of the model, run it again
    if p.returncode != 0:
        raise RuntimeError("model driver failed rc=%d: %s" % (p.returncode, p.stderr.decode()[-500:]))
    return p.stdout.decode().split("\n")


# ----------------------------------------------------------------------------------------
# known findings

def load_known():
    p = os.path.join(VERIF, "known_findings.jsonl")
    out = []
    if os.path.exists(p):
        for l in open(p):
            l = l.strip()
            if l and not l.startswith("#"):
                out.append(json.loads(l))
    return out


def hexd(x):
    import struct
    return "%016x" % struct.unpack("<Q", struct.pack("<d", x))[0]


_HEX16 = re.compile(r"(?<![0-9a-f])([0-9a-f]{16})(?![0-9a-f])")


def canon_nan(line):
    """NaN payload / sign is not compared (Lean's Float.toBits canonicalises NaNs): every NaN bit
    pattern in a line is replaced by the canonical quiet NaN"""
    def f(m):
        v = int(m.group(1), 16)
        return "7ff8000000000000" if (v & 0x7fffffffffffffff) > 0x7ff0000000000000 else m.group(1)
    return _HEX16.sub(f, line)


def unhex(s):
    import struct
    return struct.unpack("<d", struct.pack("<Q", int(s, 16)))[0]


# ----------------------------------------------------------------------------------------
# the check context

class Ctx:
    def __init__(self, prop, tier, seed):
        self.prop, self.tier, self.seed = prop, tier, seed
        self.t0 = time.time()
        self.violations = []        # dicts: sig, what, replay
        self.obligations = []       # (theorem, axioms)
        self.discharged = 0
        self.cov = {}
        self.assumptions = []
        self.notes = []
        self.broken = []            # names of theorems / correspondences that no longer check
        self.corr = {}              # correspondence name -> dict(cases=, disagreements=)
        self.samples = []
        self.evaluations = 0
        self.nontrivial = set()
        self.known = load_known()
        os.makedirs(REPLAYS, exist_ok=True)
        os.makedirs(EVIDENCE, exist_ok=True)

    @property
    def thorough(self):
        return self.tier == "thorough"

    def log(self, *a):
        print("[%s %6.1fs]" % (self.prop, time.time() - self.t0), *a, file=sys.stderr, flush=True)

    def violation(self, sig, what, replay):
        """a concrete failing input/history on the real code (or a broken obligation)"""
        self.violations.append({"sig": sig, "what": what, "replay": replay})

    def broke(self, name, detail):
        """a theorem or correspondence that no longer checks"""
        self.broken.append({"name": name, "detail": detail[-3000:]})

    def sample(self, s, cap=12):
        if len(self.samples) < cap:
            self.samples.append(s)

    def case(self, key, nontrivial=True):
        self.evaluations += 1
        if nontrivial:
            self.nontrivial.add(key if isinstance(key, str) else json.dumps(key, sort_keys=True))

    # -- common steps -------------------------------------------------------------------
    def lean_stage(self, props_files, translators=()):
        """regenerate Generated/, build, scan, audit.  Fills obligations; records broken proofs.
        ALL translators run on every check (the lake build covers the whole library, so every generated file must
        reflect the current /repo), the property-specific ones passed in are run in addition."""
        from . import translators as _tr
        allt = list(_tr.ALL)
        for t in translators:
            if getattr(t, "__name__", None) not in [getattr(x, "__name__", None) for x in allt]:
                allt.append(t)
        for t in allt:
            try:
                info = t(self)
                if info:
                    self.cov.setdefault("translator_extracts", {}).update(info)
            except Exception as e:   # translator failed loudly
                self.broke("translator:%s" % getattr(t, "__name__", "?"), repr(e))
        ok, out, dt = lake_build()
        self.cov["lake_build_s"] = round(dt, 1)
        if not ok:
            errs = re.findall(r"error: (\S+\.lean):(\d+):\d+: (.*)", out)
            names = sorted(set("%s:%s" % (f, l) for f, l, _ in errs))[:20]
            self.broke("lake build", out[-3000:])
            self.cov["lake_errors"] = names
            self.log("lake build FAILED", names[:5])
            # fall back: try to build only the model driver so that the correspondence can still run
            ok2, out2, _ = lake_build(targets=("nlopt_model",))
            self.cov["model_driver_built"] = ok2
            return False
        hits = forbidden_scan()
        if hits:
            self.broke("forbidden tokens in Lean sources", "\n".join(hits))
        aud, raw = audit_props(props_files)
        for t, ax in aud:
            self.obligations.append((t, ax))
            if ax is not None and set(ax) <= STD_AXIOMS:
                self.discharged += 1
            else:
                self.broke("theorem %s" % t, "axioms: %r" % (ax,))
        if not aud:
            self.broke("no property theorems found for %s" % self.prop, raw[-1000:])
        self.log("lean ok: %d/%d theorems, %.1fs" % (self.discharged, len(self.obligations), dt))
        return not hits

    def repo_stage(self, variant="hooks"):
        d, ok, log = build_repo(variant)
        if not ok:
            self.broke("repo build (%s)" % variant, log)
            self.log("repo build failed")
            return None
        return d

    # -- finish ---------------------------------------------------------------------------
    def finish(self, level="proof", explanation=None, extra_cov=None):
        wall = time.time() - self.t0
        known_lines, viol_lines = [], []
        known_examples = []
        nviol = 0
        # 1. concrete violations
        concrete = []
        for v in self.violations:
            k = self.match_known(v["sig"])
            if k:
                line = "KNOWN-FINDING: property=%s %s" % (self.prop, k.get("what", v["what"]))
                if line not in known_lines:
                    known_lines.append(line)
                    known_examples.append({"finding": k.get("what", "")[:120], "observed": v["what"][:300], "replay": v["replay"]})
            else:
                concrete.append(v)
        # 2. broken obligations / correspondences
        if concrete:
            # group by signature, one replay per signature
            seen = {}
            for v in concrete:
                key = json.dumps(v["sig"], sort_keys=True)
                seen.setdefault(key, v)
            for key, v in seen.items():
                rp = self.write_replay(v["replay"], v["sig"], v["what"], broken=self.broken)
                viol_lines.append("VIOLATION property=%s replay=%s" % (self.prop, rp))
                self.log("violation:", v["what"])
                nviol += 1
        elif self.broken:
            rp = self.write_replay({"kind": "no-failing-input-found", "broken": self.broken},
                                   {"broken": [b["name"] for b in self.broken]},
                                   "proof obligation or correspondence no longer checks")
            viol_lines.append("VIOLATION property=%s replay=%s no-failing-input-found" % (self.prop, rp))
            for b in self.broken:
                self.log("broken:", b["name"], "|", b["detail"][-400:].replace("\n", " / "))
            nviol += 1
        cov = {
            "obligations": len(self.obligations),
            "discharged": self.discharged,
            "checker_cmd": "cd /verif/lean && lake build NloptModel && lake env lean <audit: #print axioms of every theorem in Props>",
            "trusted_base": [
                "Lean 4.33 kernel (lake build; axioms per theorem restricted to propext, Classical.choice, Quot.sound; no native_decide/bv_decide/sorry)",
                "translators under /verif/translate and the correspondence harness under /verif/harness (differential runs of the Lean model driver against the library rebuilt from /repo with -DNLOPT_VERIF)",
                "C compiler, libm, and the identity 'Lean Float op = C double op' on this machine (executable side of the correspondence only)",
            ],
            "theorems": [{"name": t, "axioms": ax} for t, ax in self.obligations],
            "evaluations": self.evaluations,
            "distinct_nontrivial": len(self.nontrivial),
            "samples": self.samples or ["(no sampled cases in this run)"],
            "correspondence": self.corr,
            "broken": [b["name"] for b in self.broken],
            "known_findings_seen": known_lines,
            "known_findings_examples": known_examples,
        }
        cov.update(self.cov)
        if extra_cov:
            cov.update(extra_cov)
        if explanation:
            cov["explanation"] = explanation
        ev = {"property_id": self.prop, "tier": self.tier, "seed": self.seed, "level": level,
              "coverage": cov, "assumptions": self.assumptions, "wall_s": round(wall, 2),
              "violations": nviol}
        with open(os.path.join(EVIDENCE, self.prop + ".json"), "w") as f:
            json.dump(ev, f, indent=1, sort_keys=True)
        for l in known_lines:
            print(l)
        for l in viol_lines:
            print(l)
        print("%s %s: %d theorems (%d discharged), %d cases, %d violations, %d known, %.1fs" % (
            self.prop, self.tier, len(self.obligations), self.discharged, self.evaluations, nviol,
            len(known_lines), wall))
        rep = getattr(self, "replay", None)
        if rep is not None:
            want = rep.get("signature")
            hit = [v for v in self.violations if v["sig"] == want]
            if not hit and isinstance(want, dict) and "broken" in want:
                hit = [b for b in self.broken if b["name"] in want["broken"]]
            print("REPLAY %s: %s" % (self.prop, ("reproduced: " + str(hit[0].get("what", hit[0].get("name")))[:300]) if hit else "not reproduced on the current tree"))
            sys.stdout.flush()
            return 1 if hit else 0
        sys.stdout.flush()
        return 1 if nviol else 0

    def match_known(self, sig):
        for k in self.known:
            if k.get("status") == "known" and k.get("property") == self.prop and k.get("signature") == sig:
                return k
        return None

    def write_replay(self, replay, sig, what, broken=None):
        body = {"property": self.prop, "signature": sig, "what": what, "replay": replay,
                "seed": self.seed, "tier": self.tier}
        if broken:
            body["broken_obligations"] = [b["name"] for b in broken]
        h = hashlib.sha1(json.dumps(body, sort_keys=True).encode()).hexdigest()[:10]
        p = os.path.join(REPLAYS, "%s-%s.json" % (self.prop, h))
        with open(p, "w") as f:
            json.dump(body, f, indent=1, sort_keys=True)
        return p
