"""Driver-level correspondence: recorded runs of the real library replayed through the Lean control-flow models of the
NLopt-authored drivers (Model/CrsDriver.lean, IsresDriver.lean, EschDriver.lean, NmDriver.lean).

The models consume the sequence of evaluations (point, value, 'stop raised here') as the ALGORITHM sees it -- after the wrapper
layers of optimize.c: fixed coordinates eliminated, a maximised objective negated -- and decide after each one whether the driver
goes on or returns, with which code, x and minf.  The problem the algorithm was given is read from hook event 10 (entry of
nlopt_optimize_), its answer from event 11; the evaluations are the user callbacks of the run, mapped through the wrappers."""
from .common import run_model

SIGN = 1 << 63


def neg(h):
    return "%016x" % (int(h, 16) ^ SIGN)


def inner_view(ri):
    """(cfg dict of event 10, events, inner result) or None.  An event = {"x": [hex], "f": hex, "stop": k, "cons": [(role, i, [hex])]}
    where stop = 0 (no stop raised during this evaluation), 1 (raised in the objective callback), 1 + j (in its j-th constraint callback)"""
    r = ri.run
    if r.e10 is None or r.e11 is None:
        return None
    fixed = [i for i, (a, b) in enumerate(zip(ri.lb, ri.ub)) if a == b]
    n_in = int(r.e10["n"])
    if n_in != ri.n - len(fixed):
        if n_in != ri.n:
            return None
        fixed = []
    stopat = int(ri.sp["stopat"]) if "stopat" in ri.sp else None
    evs, cur = [], None
    for idx, c in enumerate(r.calls):
        xb = c.x.split(",") if c.x else []
        xin = [h for i, h in enumerate(xb) if i not in fixed]
        if c.kind == "f":
            cur = {"x": xin, "f": neg(c.val) if ri.maximize else c.val, "stop": 0, "cons": []}
            evs.append(cur)
            if stopat is not None and idx + 1 == stopat:
                cur["stop"] = 1
        elif cur is not None:
            cur["cons"].append((c.role, c.i, c.val.split(",")))
            if stopat is not None and idx + 1 == stopat:
                cur["stop"] = 1 + len(cur["cons"])
    res = {"ret": int(r.e11["ret"]), "minf": r.e11["minf"], "x": r.e11["x"], "numevals": int(r.e11["numevals"])}
    return r.e10, evs, res


def usable(ri):
    """runs the driver models speak about: no time limit, no injected NaN/Inf values, not rejected before the algorithm started"""
    if ri is None or ri.ret is None or ri.run.e10 is None or ri.run.e11 is None:
        return False
    sp = ri.sp
    if "inj" in sp or "injc" in sp or "maxtime" in sp or "pre" in sp or "munge" in sp or "failalloc" in sp:
        return False
    if ri.run.e10.get("maxtime", "0000000000000000") not in ("0000000000000000", "8000000000000000"):
        return False
    return True


def _tols(dump):
    """'[1:s:hex;2:v:hex,hex]' -> 'hex;hex,hex' ('-' if there are no constraints)"""
    body = dump.strip("[]")
    if not body:
        return "-"
    return ";".join(it.split(":", 2)[2] or "-" for it in body.split(";"))


def _vec(xs):
    return ",".join(xs) if xs else "-"


def esch_text(cfg, evs):
    lines = ["cfg n=%s pop=%s maxeval=%s stopval=%s x0=%s" % (cfg["n"], cfg["pop"], cfg["maxeval"], cfg["stopval"], cfg["x"] or "-")]
    lines += ["ev %s %s %d" % (_vec(e["x"]), e["f"], 1 if e["stop"] else 0) for e in evs]
    return lines + ["end"]


def isres_text(cfg, evs):
    lines = ["cfg n=%s pop=%s maxeval=%s stopval=%s ftol_rel=%s ftol_abs=%s xtol_rel=%s xtol_abs=%s xw=%s x0=%s lb=%s ub=%s gtol=%s htol=%s" % (
        cfg["n"], cfg["pop"], cfg["maxeval"], cfg["stopval"], cfg["ftol_rel"], cfg["ftol_abs"], cfg["xtol_rel"], cfg["xtol_abs"] or "-",
        cfg["xw"] or "-", cfg["x"] or "-", cfg["lb"] or "-", cfg["ub"] or "-", _tols(cfg["fc"]), _tols(cfg["h"]))]
    for e in evs:
        gs = ";".join(",".join(v) for role, _, v in e["cons"] if role == 1) or "-"
        hs = ";".join(",".join(v) for role, _, v in e["cons"] if role == 2) or "-"
        lines.append("ev %s %s %d %s %s" % (_vec(e["x"]), e["f"], e["stop"], gs, hs))
    return lines + ["end"]


def crs_text(cfg, evs):
    lines = ["cfg n=%s pop=%s maxeval=%s stopval=%s ftol_rel=%s ftol_abs=%s xtol_rel=%s xtol_abs=%s xw=%s x0=%s" % (
        cfg["n"], cfg["pop"], cfg["maxeval"], cfg["stopval"], cfg["ftol_rel"], cfg["ftol_abs"], cfg["xtol_rel"], cfg["xtol_abs"] or "-",
        cfg["xw"] or "-", cfg["x"] or "-")]
    lines += ["ev %s %s %d" % (_vec(e["x"]), e["f"], 1 if e["stop"] else 0) for e in evs]
    return lines + ["end"]


def nm_text(cfg, evs):
    lines = ["cfg n=%s maxeval=%s stopval=%s ftol_rel=%s ftol_abs=%s xtol_rel=%s xtol_abs=%s xw=%s x0=%s" % (
        cfg["n"], cfg["maxeval"], cfg["stopval"], cfg["ftol_rel"], cfg["ftol_abs"], cfg["xtol_rel"], cfg["xtol_abs"] or "-",
        cfg["xw"] or "-", cfg["x"] or "-")]
    lines += ["ev %s %s %d" % (_vec(e["x"]), e["f"], 1 if e["stop"] else 0) for e in evs]
    # two answers: all proposals regular / the proposal after the last evaluation degenerate (reflectpt returned 0: not modelled arithmetic)
    return lines + ["end", "end 1"]


def nm_judge(outs, want, res, nev):
    if outs[0] == want:
        return True, outs[0]
    f = outs[0].split(" ")
    if len(f) == 5 and f[4] == "1" and f[1] == str(nev) and res["ret"] in (4, -1) and outs[1] == want:
        return True, outs[1]
    return False, outs[0]


AUGLAG = ("NLOPT_AUGLAG", "NLOPT_AUGLAG_EQ", "NLOPT_LN_AUGLAG", "NLOPT_LD_AUGLAG", "NLOPT_LN_AUGLAG_EQ", "NLOPT_LD_AUGLAG_EQ")


def auglag_build(ri):
    """segments an AUGLAG run into the outer loop's own evaluations and the subsidiary runs (N 10 / N 11 markers at depth 2).
    returns (lines, want line, number of events) or None"""
    r = ri.run
    iv = inner_view(ri)
    if iv is None:
        return None
    cfg, _, res = iv
    if int(cfg["n"]) == 0:
        return None
    fixed = [i for i, (a, b) in enumerate(zip(ri.lb, ri.ub)) if a == b] if int(cfg["n"]) != ri.n else []
    stopat = int(ri.sp["stopat"]) if "stopat" in ri.sp else None
    marks = [(k, at, d) for (k, at, d) in r.nest if d.get("d") == "2"]
    segs, open_at = [], None
    for k, at, d in marks:
        if k == 10:
            open_at = (at, d)
        elif k == 11 and open_at is not None:
            segs.append((open_at[0], at, open_at[1], d))
            open_at = None
    if open_at is not None:
        return None                                     # a subsidiary run that never returned (crash / hang): not replayable
    eq_variant = ri.name.endswith("_EQ")
    lines = ["cfg n=%s maxeval=%s stopval=%s ftol_rel=%s ftol_abs=%s xtol_rel=%s xtol_abs=%s xw=%s x0=%s htol=%s gtol=%s" % (
        cfg["n"], cfg["maxeval"], cfg["stopval"], cfg["ftol_rel"], cfg["ftol_abs"], cfg["xtol_rel"], cfg["xtol_abs"] or "-",
        cfg["xw"] or "-", cfg["x"] or "-", _tols(cfg["h"]), "-" if eq_variant else _tols(cfg["fc"]))]
    nev, pos, calls = 0, 0, r.calls

    def own(a, b):
        """own evaluations in calls[a:b]: objective call followed by its constraint calls"""
        out, cur = [], None
        for idx in range(a, b):
            c = calls[idx]
            xin = [h for i, h in enumerate(c.x.split(",")) if i not in fixed]
            if c.kind == "f":
                cur = {"x": xin, "f": neg(c.val) if ri.maximize else c.val, "stop": 0, "h": [], "g": [], "n": 0}
                out.append(cur)
            elif cur is None:
                return None
            else:
                cur["n"] += 1
                cur["h" if c.role == 2 else "g"].append(c.val)
            if stopat is not None and idx + 1 == stopat and cur is not None:
                cur["stop"] = 1 + cur["n"]
        return out

    budgets = []
    for a, b, d10, d11 in segs + [(len(calls), len(calls), None, None)]:
        evs = own(pos, a)
        if evs is None:
            return None
        for e in evs:
            lines.append("eval %s %s %d %s %s" % (_vec(e["x"]), e["f"], e["stop"], ";".join(e["h"]) or "-", ";".join(e["g"]) or "-"))
            nev += 1
        if d10 is not None:
            used = sum(1 for c in calls[a:b] if c.kind == "f")
            forced = 1 if (stopat is not None and a < stopat <= b) else 0
            lines.append("sub %s %s %s %d %d" % (d11["ret"], d11["x"] or "-", d11["minf"], used, forced))
            budgets.append(d10["maxeval"])
            nev += 1
        pos = b
    lines += ["end", "budgets"]
    total = sum(1 for c in calls if c.kind == "f")
    want = "%d %d %s %s 0 0" % (res["ret"], total, res["x"] or "-", res["minf"])
    local_me = ri.sp.get("local", "0:0").split(":")[1] if "local" in ri.sp else "0"
    return lines, want, nev, (",".join(budgets) or "-") if local_me in ("0", "-1") else None


MLSL = ("NLOPT_GN_MLSL", "NLOPT_GN_MLSL_LDS", "NLOPT_GD_MLSL", "NLOPT_GD_MLSL_LDS", "NLOPT_G_MLSL", "NLOPT_G_MLSL_LDS")


def mlsl_build(ri):
    """segments an MLSL run into its own sample evaluations and the local searches (nested markers); (lines, want, events, budgets)"""
    r = ri.run
    iv = inner_view(ri)
    if iv is None:
        return None
    cfg, _, res = iv
    if int(cfg["n"]) == 0 or "ineq" in ri.sp or "eq" in ri.sp:
        return None
    fixed = [i for i, (a, b) in enumerate(zip(ri.lb, ri.ub)) if a == b] if int(cfg["n"]) != ri.n else []
    stopat = int(ri.sp["stopat"]) if "stopat" in ri.sp else None
    segs, open_at = [], None
    for k, at, d in r.nest:
        if d.get("d") != "2":
            continue
        if k == 10:
            open_at = (at, d)
        elif k == 11 and open_at is not None:
            segs.append((open_at[0], at, open_at[1], d))
            open_at = None
    if open_at is not None:
        return None
    lines = ["cfg n=%s pop=%s maxeval=%s stopval=%s x0=%s lb=%s ub=%s" % (cfg["n"], cfg["pop"], cfg["maxeval"], cfg["stopval"], cfg["x"] or "-",
                                                                      cfg["lb"] or "-", cfg["ub"] or "-")]
    calls, pos, nev, budgets = r.calls, 0, 0, []
    for a, b, d10, d11 in segs + [(len(calls), len(calls), None, None)]:
        for idx in range(pos, a):
            c = calls[idx]
            if c.kind != "f":
                return None
            xin = [h for i, h in enumerate(c.x.split(",")) if i not in fixed]
            lines.append("eval %s %s %d" % (_vec(xin), neg(c.val) if ri.maximize else c.val, 1 if (stopat is not None and idx + 1 == stopat) else 0))
            nev += 1
        if d10 is not None:
            used = sum(1 for c in calls[a:b] if c.kind == "f")
            forced = 1 if (stopat is not None and a < stopat <= b) else 0
            lines.append("sub %s %s %s %s %d %d" % (d11["ret"], d10["x"] or "-", d11["x"] or "-", d11["minf"], used, forced))
            budgets.append(d10["maxeval"])
            nev += 1
        pos = b
    lines += ["end", "budgets"]
    total = sum(1 for c in calls if c.kind == "f")
    want = "%d %d %s %s 0 0" % (res["ret"], total, res["x"] or "-", res["minf"])
    local_me = ri.sp["local"].split(":")[1] if "local" in ri.sp else "0"
    legacy = "legacy" in ri.sp or "glocal" in ri.sp
    return lines, want, nev, (",".join(budgets) or "-") if (local_me in ("0", "-1") and not legacy) else None


def mma_build(ri):
    """MMA / CCSAQ: one event per evaluation (objective + constraint callbacks); the conservativity booleans of the dual solve
    are not observable, so the model is asked whether SOME assignment of them reproduces the result (`endsearch`)"""
    iv = inner_view(ri)
    if iv is None:
        return None
    cfg, evs, res = iv
    if int(cfg["n"]) == 0 or not evs or "eq" in ri.sp or len(evs) > 400:
        return None
    tol = _tols(cfg["fc"])
    flat = ",".join(t for t in tol.replace(";", ",").split(",") if t and t != "-") or "-"
    nobj = 0 if tol == "-" else len(tol.split(";"))
    inner = "0"
    for it in cfg.get("params", "[]").strip("[]").split(";"):
        if it.startswith("inner_maxeval:"):
            from .common import unhex
            inner = str(int(unhex(it.split(":")[1])))
    lines = ["cfg alg=%s n=%s x0=%s tol=%s mfc=%d inner_maxeval=%s maxeval=%s stopval=%s ftol_rel=%s ftol_abs=%s xtol_rel=%s xtol_abs=%s xw=%s" % (
        "mma" if ri.name == "NLOPT_LD_MMA" else "ccsa", cfg["n"], cfg["x"] or "-", flat, nobj, inner, cfg["maxeval"], cfg["stopval"],
        cfg["ftol_rel"], cfg["ftol_abs"], cfg["xtol_rel"], cfg["xtol_abs"] or "-", cfg["xw"] or "-")]
    for e in evs:
        g = ",".join(",".join(v) for _, _, v in e["cons"]) or "-"
        lines.append("ev %s %s %d %s" % (_vec(e["x"]), e["f"], e["stop"], g))
    lines.append("endsearch %d %d %s %s" % (res["ret"], len(evs), res["x"] or "-", res["minf"]))
    return lines, "ok", len(evs), None


MODELS = {"NLOPT_GN_ESCH": ("esch", esch_text, 1, None), "NLOPT_GN_ISRES": ("isres", isres_text, 1, None),
          "NLOPT_GN_CRS2_LM": ("crs", crs_text, 1, None), "NLOPT_LN_NELDERMEAD": ("nm", nm_text, 2, nm_judge)}
POSINF = "7ff0000000000000"


def _canon(l):
    f = l.split(" ")
    if len(f) >= 5 and f[3] == "-":
        f[3] = POSINF
    return " ".join(f)


def correspond(ctx, batch, label):
    """replays every usable run of a modelled driver through its Lean control-flow model: the model, given the evaluations the run
    made, must return exactly where the driver returned, with the same code, x and minf"""
    by_stream = {}
    for _, r, ri in batch:
        if not usable(ri):
            continue
        special = ("auglag", auglag_build, 2) if ri.name in AUGLAG else ("mlsl", mlsl_build, 2) if ri.name in MLSL else \
                  ("mma", mma_build, 1) if ri.name in ("NLOPT_LD_MMA", "NLOPT_LD_CCSAQ") else None
        if special:
            try:
                b = special[1](ri)
            except Exception:
                b = None
            if b is None or b[2] == 0:
                continue            # no event at all: a set-up call on the subsidiary object failed before the loop (not modelled)
            lines, want, nev, budgets = b
            by_stream.setdefault(special[0], []).append((r, ri, lines, nev, {"ret": ri.run.e11["ret"]}, want, special[2], budgets))
            continue
        if ri.name not in MODELS:
            continue
        iv = inner_view(ri)
        if iv is None or not iv[1]:
            continue
        stream, mk, nout, judge = MODELS[ri.name]
        cfg, evs, res = iv
        if int(cfg["n"]) == 0 or any(len(e["x"]) != int(cfg["n"]) for e in evs):
            continue            # n = 0 after elimination: nlopt_optimize_ answers itself, no driver runs
        want = "%d %d %s %s 0" % (res["ret"], len(evs), res["x"] or "-", res["minf"])
        by_stream.setdefault(stream, []).append((r, ri, mk(cfg, evs), len(evs), res, want, nout, judge))
    for stream, todo in by_stream.items():
        text = "\n".join(l for t in todo for l in t[2]) + "\n"
        import time
        t0 = time.time()
        try:
            out = [l for l in run_model(stream, text, timeout=1200) if l.strip()]
        except Exception as e:
            ctx.broke("driver model %s: executable" % stream, repr(e))
            continue
        st = ctx.corr.setdefault("driver model " + stream, {"runs_replayed": 0, "events_replayed": 0, "disagreements": 0, "return_codes": {}})
        st["model_seconds"] = round(st.get("model_seconds", 0) + time.time() - t0, 1)
        if len(out) != sum(t[6] for t in todo):
            ctx.broke("correspondence driver model %s (%s): output" % (stream, label), "%d result lines for %d runs: %s" % (len(out), len(todo), out[:2]))
            continue
        k = 0
        for (r, ri, _, nev, res, want, nout, judge) in todo:
            outs = [_canon(l) for l in out[k:k + nout]]
            k += nout
            st["runs_replayed"] += 1
            st["events_replayed"] += nev
            st["return_codes"][str(res["ret"])] = st["return_codes"].get(str(res["ret"]), 0) + 1
            if stream == "mma":
                ok, got = out[k - 1].startswith("ok"), out[k - 1]
            elif stream in ("auglag", "mlsl"):
                ok, got = outs[0] == want, outs[0]
                if ok and judge is not None and outs[1] != judge:
                    ok, got = False, "budgets handed to the subsidiary runs: model %s, implementation %s" % (outs[1], judge)
                if judge is not None:
                    st["budget_lists_compared"] = st.get("budget_lists_compared", 0) + 1
            elif judge is not None:
                ok, got = judge(outs, want, res, nev)
            else:
                ok, got = outs[0] == want, outs[0]
            if not ok:
                st["disagreements"] += 1
                if st["disagreements"] == 1:
                    ctx.broke("correspondence driver model %s (%s): model vs implementation" % (stream, label),
                              "implementation (ret nevals x minf short): %s\n model: %s\n spec: %s" % (want, got, r.spec))
                    ctx.cov.setdefault("first_driver_disagreement", {"spec": r.spec, "model": got, "implementation": want})
