"""Driver-level correspondence: recorded runs of the real library replayed through the Lean control-flow models of the
NLopt-authored drivers (Model/CrsDriver.lean, IsresDriver.lean, EschDriver.lean, NmDriver.lean).

The models consume the sequence of evaluations (point, value, 'stop raised here') as the ALGORITHM sees it -- after the wrapper
layers of optimize.c: fixed coordinates eliminated, a maximised objective negated -- and decide after each one whether the driver
goes on or returns, with which code, x and minf.  The problem the algorithm was given is read from hook event 10 (entry of
nlopt_optimize_), its answer from event 11; the evaluations are the user callbacks of the run, mapped through the wrappers."""
from .common import run_model

SIGN = 1 << 63


def neg(h):
    return "%016x" % (int(h, 16) ^ SIGN)


def inner_view(ri):
    """(cfg dict of event 10, events, inner result) or None.  An event = {"x": [hex], "f": hex, "stop": k, "cons": [(role, i, [hex])]}
    where stop = 0 (no stop raised during this evaluation), 1 (raised in the objective callback), 1 + j (in its j-th constraint callback)"""
    r = ri.run
    if r.e10 is None or r.e11 is None:
        return None
    fixed = [i for i, (a, b) in enumerate(zip(ri.lb, ri.ub)) if a == b]
    n_in = int(r.e10["n"])
    if n_in != ri.n - len(fixed):
        if n_in != ri.n:
            return None
        fixed = []
    stopat = int(ri.sp["stopat"]) if "stopat" in ri.sp else None
    evs, cur = [], None
    for idx, c in enumerate(r.calls):
        xb = c.x.split(",") if c.x else []
        xin = [h for i, h in enumerate(xb) if i not in fixed]
        if c.kind == "f":
            cur = {"x": xin, "f": neg(c.val) if ri.maximize else c.val, "stop": 0, "cons": []}
            evs.append(cur)
            if stopat is not None and idx + 1 == stopat:
                cur["stop"] = 1
        elif cur is not None:
            cur["cons"].append((c.role, c.i, c.val.split(",")))
            if stopat is not None and idx + 1 == stopat:
                cur["stop"] = 1 + len(cur["cons"])
    res = {"ret": int(r.e11["ret"]), "minf": r.e11["minf"], "x": r.e11["x"], "numevals": int(r.e11["numevals"])}
    return r.e10, evs, res


def usable(ri):
    """runs the driver models speak about: no time limit, no injected NaN/Inf values, not rejected before the algorithm started"""
    if ri is None or ri.ret is None or ri.run.e10 is None or ri.run.e11 is None:
        return False
    sp = ri.sp
    if "inj" in sp or "injc" in sp or "maxtime" in sp or "setforce" in sp or "pre" in sp or "munge" in sp or "failalloc" in sp:
        return False
    if ri.run.e10.get("maxtime", "0000000000000000") not in ("0000000000000000", "8000000000000000"):
        return False
    return True
