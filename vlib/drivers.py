"""Driver-level correspondence: recorded runs of the real library replayed through the Lean control-flow models of the
NLopt-authored drivers (Model/CrsDriver.lean, IsresDriver.lean, EschDriver.lean, NmDriver.lean).

The models consume the sequence of evaluations (point, value, 'stop raised here') as the ALGORITHM sees it -- after the wrapper
layers of optimize.c: fixed coordinates eliminated, a maximised objective negated -- and decide after each one whether the driver
goes on or returns, with which code, x and minf.  The problem the algorithm was given is read from hook event 10 (entry of
nlopt_optimize_), its answer from event 11; the evaluations are the user callbacks of the run, mapped through the wrappers."""
from .common import run_model

SIGN = 1 << 63


def neg(h):
    return "%016x" % (int(h, 16) ^ SIGN)


def inner_view(ri):
    """(cfg dict of event 10, events, inner result) or None.  An event = {"x": [hex], "f": hex, "stop": k, "cons": [(role, i, [hex])]}
    where stop = 0 (no stop raised during this evaluation), 1 (raised in the objective callback), 1 + j (in its j-th constraint callback)"""
    r = ri.run
    if r.e10 is None or r.e11 is None:
        return None
    fixed = [i for i, (a, b) in enumerate(zip(ri.lb, ri.ub)) if a == b]
    n_in = int(r.e10["n"])
    if n_in != ri.n - len(fixed):
        if n_in != ri.n:
            return None
        fixed = []
    stopat = int(ri.sp["stopat"]) if "stopat" in ri.sp else None
    evs, cur = [], None
    for idx, c in enumerate(r.calls):
        xb = c.x.split(",") if c.x else []
        xin = [h for i, h in enumerate(xb) if i not in fixed]
        if c.kind == "f":
            cur = {"x": xin, "f": neg(c.val) if ri.maximize else c.val, "stop": 0, "cons": []}
            evs.append(cur)
            if stopat is not None and idx + 1 == stopat:
                cur["stop"] = 1
        elif cur is not None:
            cur["cons"].append((c.role, c.i, c.val.split(",")))
            if stopat is not None and idx + 1 == stopat:
                cur["stop"] = 1 + len(cur["cons"])
    res = {"ret": int(r.e11["ret"]), "minf": r.e11["minf"], "x": r.e11["x"], "numevals": int(r.e11["numevals"])}
    return r.e10, evs, res


def usable(ri):
    """runs the driver models speak about: no time limit, no injected NaN/Inf values, not rejected before the algorithm started"""
    if ri is None or ri.ret is None or ri.run.e10 is None or ri.run.e11 is None:
        return False
    sp = ri.sp
    if "inj" in sp or "injc" in sp or "maxtime" in sp or "pre" in sp or "munge" in sp or "failalloc" in sp:
        return False
    if ri.run.e10.get("maxtime", "0000000000000000") not in ("0000000000000000", "8000000000000000"):
        return False
    return True


def _tols(dump):
    """'[1:s:hex;2:v:hex,hex]' -> 'hex;hex,hex' ('-' if there are no constraints)"""
    body = dump.strip("[]")
    if not body:
        return "-"
    return ";".join(it.split(":", 2)[2] or "-" for it in body.split(";"))


def _vec(xs):
    return ",".join(xs) if xs else "-"


def esch_text(cfg, evs):
    lines = ["cfg n=%s pop=%s maxeval=%s stopval=%s x0=%s" % (cfg["n"], cfg["pop"], cfg["maxeval"], cfg["stopval"], cfg["x"] or "-")]
    lines += ["ev %s %s %d" % (_vec(e["x"]), e["f"], 1 if e["stop"] else 0) for e in evs]
    return lines + ["end"]


def isres_text(cfg, evs):
    lines = ["cfg n=%s pop=%s maxeval=%s stopval=%s ftol_rel=%s ftol_abs=%s xtol_rel=%s xtol_abs=%s xw=%s x0=%s lb=%s ub=%s gtol=%s htol=%s" % (
        cfg["n"], cfg["pop"], cfg["maxeval"], cfg["stopval"], cfg["ftol_rel"], cfg["ftol_abs"], cfg["xtol_rel"], cfg["xtol_abs"] or "-",
        cfg["xw"] or "-", cfg["x"] or "-", cfg["lb"] or "-", cfg["ub"] or "-", _tols(cfg["fc"]), _tols(cfg["h"]))]
    for e in evs:
        gs = ";".join(",".join(v) for role, _, v in e["cons"] if role == 1) or "-"
        hs = ";".join(",".join(v) for role, _, v in e["cons"] if role == 2) or "-"
        lines.append("ev %s %s %d %s %s" % (_vec(e["x"]), e["f"], e["stop"], gs, hs))
    return lines + ["end"]


def crs_text(cfg, evs):
    lines = ["cfg n=%s pop=%s maxeval=%s stopval=%s ftol_rel=%s ftol_abs=%s xtol_rel=%s xtol_abs=%s xw=%s x0=%s" % (
        cfg["n"], cfg["pop"], cfg["maxeval"], cfg["stopval"], cfg["ftol_rel"], cfg["ftol_abs"], cfg["xtol_rel"], cfg["xtol_abs"] or "-",
        cfg["xw"] or "-", cfg["x"] or "-")]
    lines += ["ev %s %s %d" % (_vec(e["x"]), e["f"], 1 if e["stop"] else 0) for e in evs]
    return lines + ["end"]


MODELS = {"NLOPT_GN_ESCH": ("esch", esch_text), "NLOPT_GN_ISRES": ("isres", isres_text), "NLOPT_GN_CRS2_LM": ("crs", crs_text)}
POSINF = "7ff0000000000000"


def correspond(ctx, batch, label):
    """replays every usable run of a modelled driver through its Lean control-flow model: the model, given the evaluations the run
    made, must return exactly where the driver returned, with the same code, x and minf"""
    by_stream = {}
    for _, r, ri in batch:
        if not usable(ri) or ri.name not in MODELS:
            continue
        iv = inner_view(ri)
        if iv is None or not iv[1]:
            continue
        stream, mk = MODELS[ri.name]
        cfg, evs, res = iv
        if int(cfg["n"]) == 0 or any(len(e["x"]) != int(cfg["n"]) for e in evs):
            continue            # n = 0 after elimination: nlopt_optimize_ answers itself, no driver runs
        by_stream.setdefault(stream, []).append((r, ri, mk(cfg, evs), len(evs), res))
    for stream, todo in by_stream.items():
        text = "\n".join(l for t in todo for l in t[2]) + "\n"
        try:
            out = [l for l in run_model(stream, text, timeout=1200) if l.strip()]
        except Exception as e:
            ctx.broke("driver model %s: executable" % stream, repr(e))
            continue
        st = ctx.corr.setdefault("driver model " + stream, {"runs_replayed": 0, "evaluations_replayed": 0, "disagreements": 0, "return_codes": {}})
        if len(out) != len(todo):
            import os
            dbg = "/var/tmp/drv_debug_%s.txt" % stream
            open(dbg, "w").write(text)
            ctx.broke("correspondence driver model %s (%s): output" % (stream, label), "%d result lines for %d runs: %s" % (len(out), len(todo), out[:2]))
            continue
        for (r, ri, _, nev, res), l in zip(todo, out):
            st["runs_replayed"] += 1
            st["evaluations_replayed"] += nev
            st["return_codes"][str(res["ret"])] = st["return_codes"].get(str(res["ret"]), 0) + 1
            f = l.split(" ")
            want = "%d %d %s %s 0" % (res["ret"], nev, res["x"] or "-", res["minf"])
            got = "%s %s %s %s %s" % (f[0], f[1], f[2], POSINF if f[3] == "-" else f[3], f[4]) if len(f) == 5 else l
            if got != want:
                st["disagreements"] += 1
                if st["disagreements"] == 1:
                    ctx.broke("correspondence driver model %s (%s): model vs implementation" % (stream, label),
                              "implementation (ret nevals x minf short): %s\n model: %s\n spec: %s" % (want, got, r.spec))
                    ctx.cov.setdefault("first_driver_disagreement", {"spec": r.spec, "model": got, "implementation": want})
