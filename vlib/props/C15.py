"""C15: every callback-data pointer handed to an object is released exactly once.

proof:          Props/C15.lean: conservation law over data ids (held + released = handed in) for every API function,
                destroy/copy/local-optimizer theorems, history theorem
correspondence: S-api with the munge hooks installed: hook events (destroy d / copy d -> d') are part of the compared
                event list after every call
monitor:        accounting ledger on the real event stream: every non-NULL data id handed to a live hooked object, and
                every id returned by the copy hook, is passed to the destroy hook exactly once by the time everything
                is destroyed; never twice"""
import random
import re

from .. import sapi


def hooked_history(rng, nops):
    H = sapi.Hist(rng)
    ops = []
    while len(ops) < nops:
        op = H.gen_op()
        if not op or op.startswith("set_munge"):
            continue
        ops.append(op)
        if op.startswith("create"):
            ops.append("set_munge %s 1 1" % op.split()[1])
    return ops


DATA_ARG = {"set_min": 3, "set_max": 3, "set_pmin": 4, "set_pmax": 4, "add_ineq": 3, "add_eq": 3, "add_pineq": 4, "add_peq": 4,
            "add_ineqm": 4, "add_eqm": 4}


def run(ctx):
    from translate import alglists
    ctx.lean_stage(["C15", "C15History"])
    bdir = ctx.repo_stage()
    if bdir and getattr(ctx, "alg", None):
        rng = random.Random(ctx.seed)
        hists = [hooked_history(rng, rng.choice([6, 12, 25, 50])) for _ in range(5000 if ctx.thorough else 600)]
        # fixed scenarios: empty/failed registrations, replacement, removal, copy, local optimizer, optimize-free destroy
        h = sapi.hexd
        hists += [
            ["create o0 25 2", "set_munge o0 1 1", "set_min o0 1 5", "set_min o0 2 6", "add_ineq o0 4 7 %s" % h(0.0),
             "add_ineqm o0 0 1 8 -", "add_ineq o0 4 9 %s" % h(-1.0), "add_eqm o0 2 0 10 -", "rm_ineq o0", "copy o0 o1", "set_local o0 o1", "destroy o0"],
            ["create o0 28 2", "set_munge o0 1 1", "add_ineq o0 4 5 %s" % h(0.0), "set_max o0 1 6", "copy o0 o1", "copy o1 o2", "destroy o1"],
            ["create o0 40 3", "set_munge o0 1 1", "set_min o0 1 5", "add_eq o0 5 6 %s" % h(0.0), "add_ineqm o0 2 2 7 -", "set_local o0 o0", "set_local o0 o0", "rm_eq o0"],
        ]
        hi = sapi.run_histories(ctx, bdir, ctx.alg, hists, "C15", "hooked histories")
        # ledger: handed-in ids vs destroy events
        nh = nd = 0
        for idx, ops in enumerate(hists):
            if idx >= len(hi):
                break
            lines = hi[idx][1:]
            handed, released = {}, {}
            hooked = {}
            bad = None
            for k, op in enumerate(ops):
                if k >= len(lines) or lines[k].startswith("CRASH"):
                    break
                t = op.split()
                snaps = sapi.snapshots_of(lines[k - 1]) if k else {}
                if t[0] in DATA_ARG and t[1] != "null":
                    s_ = int(t[1][1:])
                    d = int(t[DATA_ARG[t[0]]])
                    if d and s_ in snaps and " munge=1" in snaps[s_]:
                        handed[d] = handed.get(d, 0) + 1
                for e in sapi.events_of(lines[k]):
                    if e.startswith("MC"):
                        a, b = e[2:].split(">")
                        if int(b):
                            handed[int(b)] = handed.get(int(b), 0) + 1
                    elif e.startswith("MD") and int(e[2:]):
                        released[int(e[2:])] = released.get(int(e[2:]), 0) + 1
            endl = lines[len(ops)] if len(lines) > len(ops) else ""
            for e in sapi.events_of(endl):
                if e.startswith("MD") and int(e[2:]):
                    released[int(e[2:])] = released.get(int(e[2:]), 0) + 1
            nh += len(handed)
            nd += sum(released.values())
            if not endl.startswith("end"):
                continue
            for d, c in handed.items():
                r = released.get(d, 0)
                if r != c:
                    bad = (d, c, r)
                    break
            for d, r in released.items():
                if d not in handed and bad is None:
                    bad = (d, 0, r)
            if bad:
                d, c, r = bad
                ctx.violation({"api": "munge ledger", "cause": "released %s" % ("twice" if r > c else "never" if r == 0 else "unexpectedly")},
                              "user data d%d: handed in %d time(s), passed to the destroy hook %d time(s)" % (d, c, r),
                              {"stream": "api", "ops": ops})
                break
        ctx.cov["ledger"] = {"data_ids_handed": nh, "destroy_hook_calls": nd}
        # nlopt_optimize with the hooks installed: the internal temporary objects (maximize / memoize / elimination wrappers, default
        # and copied local optimizers, MMA dual) must never invoke the user's hooks, and after destroying everything each pointer
        # handed in (and each clone returned by the copy hook) has been released exactly once
        from .. import problems, swrap
        A = problems.Algs(ctx.alg)
        rng2 = random.Random(ctx.seed * 97 + 15)
        ps = []
        for nm in problems.ALL:
            for rep in range(6 if ctx.thorough else 2):
                p = problems.gen_problem(rng2, A, alg_name=nm, box=rng2.choice(["fixed", "fixed", "finite"]), maxeval=rng2.choice([5, 20]), with_constraints=(rep % 2 == 0))
                p["munge"] = 1
                if rep == 1 and p["box"] == "fixed":
                    # a rejected call (start off a fixed coordinate), maximizing: the wrappers' temporaries must not stay in the object
                    fixed = [i for i, (a, b) in enumerate(zip(p["lb"], p["ub"])) if a == b]
                    if fixed:
                        p["x0"] = list(p["x0"])
                        p["x0"][fixed[0]] = p["lb"][fixed[0]] + 0.5
                        p["max"] = 1
                if rng2.random() < 0.5:
                    p["copy"] = 1
                if rng2.random() < 0.3:
                    p["runs"] = 2
                ps.append(p)
        runs, _ = swrap.run_specs(bdir, [problems.to_line(p) for p in ps])
        seen = set()
        nled = 0
        for r in runs:
            led = getattr(r, "ledger", None)
            if getattr(r, "part", 1) == 1:
                ctx.case(r.spec)
            if not led:
                continue
            nled += 1
            alg = A.name(int(swrap.kvs(r.spec).get("alg", -1)))
            for key, cause in (("hook_calls_inside_optimize", "user hook invoked by an internal copy during nlopt_optimize"),
                               ("unreleased", "data pointer never released"), ("released_too_often", "data pointer released more than once"),
                               ("unknown_released", "destroy hook called with a pointer that was never handed in")):
                if int(led.get(key, "0")) != 0 and (alg, key) not in seen:
                    seen.add((alg, key))
                    ctx.violation({"alg": alg, "cause": cause}, "%s: %s (%s=%s; %s)" % (alg, cause, key, led.get(key), " ".join("%s=%s" % kv for kv in led.items())),
                                  {"stream": "run", "spec": r.spec})
        ctx.corr["nlopt_optimize with hooks installed"] = {"runs_with_ledger": nled}
        ctx.sample({"history": hists[-1]})
        ctx.sample({"history": hists[0][:12]})
    ctx.assumptions += ["hooks are installed right after creation and stay installed (the property's premise); a failing copy hook is outside C15's quantifier (covered as a fault in C18)",
                        "the ledger of the optimize runs is kept by the harness (harness/run.c, spec key munge=1)"]
    return ctx.finish(level="proof", extra_cov={"rule": "a case = one API call of a hooked history; distinct by op text"})
