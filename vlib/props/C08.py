"""C08: maximizing f is exactly minimizing -f.

proof:          Props/Wrap.lean max_is_min_neg: for EVERY algorithm machine, user and layer stack the two calls hand the
                algorithm the same problem and indistinguishable callbacks (simulation lemma runAlg_sim), hence equal
                evaluation points, x and code, opt_f exact negation, and the object still reports the maximization
                settings (optimize_preserves_settings, neg_neg'); Props/C14b setter_stores_setObjective (default stopval switch)
correspondence: S-wrap replay of both runs of every pair (f_max events 40/41: negated value and gradient seen by the algorithm)
monitor:        pair runs (max f, stopval s) vs (min -f, stopval -s): bitwise equal evaluation sequence, x, code; opt_f negated"""
import random

from .. import runcheck, problems, swrap


def relate(a, b):
    ta, tb = runcheck.obj_trace(a), runcheck.obj_trace(b)
    if len(ta) != len(tb) or len(a.calls) != len(b.calls):
        return "number of evaluations differs: %d vs %d objective calls" % (len(ta), len(tb))
    for k, (p, q) in enumerate(zip(ta, tb)):
        if p[0] != q[0] or p[1] != q[1]:
            return "evaluation %d at a different point / gradient flag" % (k + 1)
        if runcheck.flip(p[2]) != q[2] and not (p[2][:3] in ("7ff", "fff") and int(p[2], 16) & 0xfffffffffffff):
            return "objective value %d is not the negation" % (k + 1)
    ra, rb = runcheck.result_of(a), runcheck.result_of(b)
    if ra[0] != rb[0]:
        return "return code %s vs %s" % (ra[0], rb[0])
    if ra[1] != rb[1]:
        return "returned x differs"
    if ra[2] is not None and rb[2] is not None and runcheck.flip(ra[2]) != rb[2]:
        return "opt_f %s is not the exact negation of %s" % (ra[2], rb[2])
    if a.post and (a.post.get("max") != "1" or a.post.get("stopval") != a.pre.get("stopval")):
        return "object no longer reports the maximization settings"
    return None


def run(ctx):
    bdir, A = runcheck.setup(ctx, ["Wrap:max_is_min_neg|optimize_preserves", "C14b:setter_stores_setObjective", "C08"])
    if bdir:
        ctx.algnames = A.names
        rng = random.Random(ctx.seed * 17 + 8)
        pa, pb = [], []
        for k in range(3000 if ctx.thorough else 700):
            p = problems.gen_problem(rng, A, allow_max=False)
            p["max"] = 1
            if rng.random() < 0.4:
                p["stopval"] = rng.choice([-1.0, 0.5, 3.0, 50.0])
            q = dict(p)
            del q["max"]
            q["negobj"] = 1
            if "stopval" in p:
                q["stopval"] = -p["stopval"]
            pa.append(p)
            pb.append(q)
        ba = runcheck.run_batch(ctx, bdir, A, pa, [], "max f", blame_crash=False)
        bb = runcheck.run_batch(ctx, bdir, A, pb, [], "min -f", blame_crash=False)
        runcheck.compare_pairs(ctx, [r for _, r, _ in ba], [r for _, r, _ in bb], relate, "pairs (max f | min -f)", {"cause": "max f differs from min -f"})
        # preconditioned objective (nlopt_set_precond_max_objective): the wrapper must hand the algorithm the NEGATED preconditioner
        # of f, i.e. the same thing as the preconditioner of -f.  (Preconditioners are not part of the Lean wrapper model: pair runs only.)
        pc, pd = [], []
        for k in range(200 if ctx.thorough else 40):
            p = problems.gen_problem(rng, A, alg_name="NLOPT_LD_CCSAQ", allow_max=False, maxeval=rng.choice([10, 30, 60]),
                                     box=rng.choice(["finite", "finite", "offset", "half_lo", "half_hi", "infinite", "tight", "opt_outside", "big"]))
            p["obj"] = rng.choice([0, 1, 3])
            p["max"] = 1
            p["pre"] = 1
            q = dict(p)
            del q["max"]
            q["negobj"] = 1
            if "stopval" in p:
                q["stopval"] = -p["stopval"]
            pc.append(p)
            pd.append(q)
        bc = runcheck.run_batch(ctx, bdir, A, pc, [], "max f with preconditioner", replay=False, blame_crash=False)
        bd = runcheck.run_batch(ctx, bdir, A, pd, [], "min -f with negated preconditioner", replay=False, blame_crash=False)

        def relate_pre(a, b):
            d = relate(a, b)
            if d:
                return d
            pa_, pb_ = [l for l in getattr(a, "precond", []) if l.startswith("P ")], [l for l in getattr(b, "precond", []) if l.startswith("P ")]
            if len(pa_) != len(pb_):
                return "number of preconditioner calls differs: %d vs %d" % (len(pa_), len(pb_))
            return None
        runcheck.compare_pairs(ctx, [r for _, r, _ in bc], [r for _, r, _ in bd], relate_pre, "pairs with preconditioner (max f | min -f)", {"cause": "max f differs from min -f", "preconditioner": True})
        ctx.cov["preconditioner_calls_seen"] = sum(len(getattr(r, "precond", [])) for _, r, _ in bc)
        # correspondence for pre_max: hook event 42 (what the algorithm receives) against the model applied to the user's result
        from ..common import run_model
        ops, want = [], []
        for _, r, _ in bc:
            pl = getattr(r, "precond", [])
            for a, b in zip(pl, pl[1:]):
                if a.startswith("P ") and b.startswith("Q "):
                    ops.append("premax " + swrap.kvs(a)["vpre"])
                    want.append((swrap.kvs(b)["vpre"], r.spec))
        if ops:
            try:
                got = [l for l in run_model("glue", "\n".join(ops) + "\n") if l.strip()]
                bad = [(g, w) for g, (w, _) in zip(got, want) if g != w]
                ctx.corr["pre_max (model vs optimize.c)"] = {"calls": len(ops), "disagreements": len(bad) + abs(len(got) - len(want))}
                if bad or len(got) != len(want):
                    ctx.broke("correspondence pre_max: model vs optimize.c", "model %s, implementation handed the algorithm %s" % (bad[0] if bad else ("?", "?")))
            except Exception as e:
                ctx.broke("glue model driver", repr(e))
        else:
            ctx.broke("correspondence pre_max: no preconditioner call observed", "hook event 42 missing")
        ctx.sample({"spec_max": ba[0][1].spec, "spec_min": bb[0][1].spec})
    ctx.assumptions += ["the user's -f is computed by exact sign flips of value and gradient (IEEE negation is exact)"]
    return ctx.finish(level="proof", extra_cov={"rule": "a case = one run (each pair contributes two); distinct by spec"})
