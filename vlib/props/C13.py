"""C13: callbacks receive exactly the documented arguments.

proof:          Props/Wrap.lean wrappers_forward_trace / wrappers_forward_args (every user invocation has the creation-time
                dimension, the same function, gradient requested iff the algorithm requested it — except vector constraints
                under elimination —, exactly one user invocation per algorithm query, none after the algorithm returned),
                stop_request_forwarded
correspondence: S-wrap replay: (function, gradient flag, point) of every user invocation reproduced by the model
monitor:        every callback checks n, its own data pointer, m and the result buffer of vector constraints (harness
                assertions); gradient pointer NULL for every derivative-free algorithm, also as subsidiary optimizer"""
from .. import runcheck, monitors, problems


def run(ctx):
    bdir, A = runcheck.setup(ctx, ["Wrap:wrappers_forward|stop_request"])
    if bdir:
        rng, ps = runcheck.gen(ctx, A, 5000 if ctx.thorough else 1200)
        for nm in problems.ALL:
            ps.append(problems.gen_problem(rng, A, alg_name=nm, with_constraints=True))
            ps.append(problems.gen_problem(rng, A, alg_name=nm, box="fixed"))
        # every kind of callback (objective, scalar / vector inequality, scalar / vector equality), each with its own data record,
        # with and without fixed coordinates (elimination wrapper) and as a subsidiary problem (AUGLAG / MLSL)
        from ..common import hexd
        for nm in problems.ALL:
            aid = A.id(nm)
            if aid not in ctx.alg["ineq"]:
                continue
            for rep in range(8 if ctx.thorough else 3):
                p = problems.gen_problem(rng, A, alg_name=nm, n=4, with_constraints=False, box=("fixed" if rep % 3 != 2 else "finite"), maxeval=rng.choice([20, 60]))
                if nm == "NLOPT_GN_AGS":
                    p["ineq"] = "s:1:%s:%s:0;s:0:%s:%s:1" % (hexd(0.0), hexd(rng.uniform(1, 3)), hexd(1e-6), hexd(rng.uniform(1, 3)))
                else:
                    p["ineq"] = "s:1:%s:%s:0;v:2:0:%s:%s:1" % (hexd(0.0), hexd(rng.uniform(1, 3)), problems.hl([1e-6, 0.0]), hexd(rng.uniform(1, 3)))
                if aid in ctx.alg["eq"]:
                    p["eq"] = "s:0:%s:%s:5;v:2:2:-:%s:6" % (hexd(1e-6), hexd(rng.uniform(-0.3, 0.3)), hexd(rng.uniform(-0.2, 0.2)))
                ps.append(p)
        batch = runcheck.run_batch(ctx, bdir, A, ps, [lambda ri: monitors.mon_args(ri, runcheck.DERIV_FREE)], "all algorithms and nestings")
        ctx.sample({"spec": batch[0][1].spec})
        ctx.cov["unproved"] = ["gradient buffer sizes inside the numeric cores (sanitizer builds of C10 observe them)"]
    return ctx.finish(level="proof", extra_cov={"rule": "a case = one run; distinct by spec; every callback invocation of it is checked"})
