"""C13: callbacks receive exactly the documented arguments.

proof:          Props/Wrap.lean wrappers_forward_trace / wrappers_forward_args (every user invocation has the creation-time
                dimension, the same function, gradient requested iff the algorithm requested it — except vector constraints
                under elimination —, exactly one user invocation per algorithm query, none after the algorithm returned),
                stop_request_forwarded
correspondence: S-wrap replay: (function, gradient flag, point) of every user invocation reproduced by the model
monitor:        every callback checks n, its own data pointer, m and the result buffer of vector constraints (harness
                assertions); gradient pointer NULL for every derivative-free algorithm, also as subsidiary optimizer"""
from .. import runcheck, monitors, problems


def run(ctx):
    bdir, A = runcheck.setup(ctx, ["Wrap:wrappers_forward|stop_request"])
    if bdir:
        rng, ps = runcheck.gen(ctx, A, 5000 if ctx.thorough else 1200)
        for nm in problems.ALL:
            ps.append(problems.gen_problem(rng, A, alg_name=nm, with_constraints=True))
            ps.append(problems.gen_problem(rng, A, alg_name=nm, box="fixed"))
        batch = runcheck.run_batch(ctx, bdir, A, ps, [lambda ri: monitors.mon_args(ri, runcheck.DERIV_FREE)], "all algorithms and nestings")
        ctx.sample({"spec": batch[0][1].spec})
        ctx.cov["unproved"] = ["gradient buffer sizes inside the numeric cores (sanitizer builds of C10 observe them)"]
    return ctx.finish(level="proof", extra_cov={"rule": "a case = one run; distinct by spec; every callback invocation of it is checked"})
