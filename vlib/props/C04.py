"""C04: a forced stop halts the optimization promptly with NLOPT_FORCED_STOP.

proof:          Props/Wrap.lean: stop_request_forwarded (every wrapper passes the stop request to the algorithm unchanged),
                wrappers_pass_result (FORCED_STOP or any other code of the algorithm is returned as is; no wrapper swallows it),
                optimize_preserves_settings_exact (the stop value a callback set is what nlopt_get_force_stop reads afterwards;
                the flag is cleared at entry of the next call), Props/C03.lean stop_forced_iff
correspondence: S-wrap replay with the stop raised inside callback k (objective or constraint), value readable afterwards
monitor:        for every algorithm and nesting, every k in 1..K: number of further callback invocations <= bound(family), code
                FORCED_STOP, value readable, x inside the bounds, and a second run on the same object starts with the flag cleared"""
import random
from ..common import hexd

from .. import runcheck, monitors, problems, swrap

# further callback invocations allowed after the stop was raised (derived from the position of the test after each call)
POST = {"default": 0}
for a in ("NLOPT_GN_DIRECT", "NLOPT_GN_DIRECT_L", "NLOPT_GN_DIRECT_L_RAND", "NLOPT_GN_DIRECT_NOSCAL", "NLOPT_GN_DIRECT_L_NOSCAL", "NLOPT_GN_DIRECT_L_RAND_NOSCAL"):
    POST[a] = 1
for a in ("NLOPT_LD_TNEWTON", "NLOPT_LD_TNEWTON_RESTART", "NLOPT_LD_TNEWTON_PRECOND", "NLOPT_LD_TNEWTON_PRECOND_RESTART", "NLOPT_LD_LBFGS", "NLOPT_LD_VAR1", "NLOPT_LD_VAR2"):
    POST[a] = 25                         # Luksan: flag examined once per iteration; a line search makes up to ~20 evaluations
POST["NLOPT_GN_AGS"] = 8
POST["NLOPT_LN_PRAXIS"] = 2


def post_bound(ri):
    b = POST.get(ri.name, 0)
    if ri.name in problems.MLSL or ri.name in problems.AUGLAG:
        b += 1 + (POST.get(ri.local_name, 0) if ri.local_name else 0)
    return b


def mon_forced(ri):
    r = ri.run
    if ri.ret is None or "stopat" not in ri.sp or getattr(r, "part", 1) != 1:
        return None
    k = int(ri.sp["stopat"])
    raised = any(c.stop for c in r.calls)
    if not raised:
        return None
    after = len(r.calls) - k
    fv = int(ri.sp.get("forceval", 1)) if ri.sp.get("setforce") == "1" else 1
    if ri.ret != -5:
        if all(a == b for a, b in zip(ri.lb, ri.ub)):
            return ({"cause": "forced stop not reported", "detail": "problem without free variables (single evaluation, no stop test)"},
                    "%s: all coordinates fixed: the stop raised in the only evaluation is not reported (ret=%d)" % (ri.name, ri.ret))
        return ({"alg": ri.name, "cause": "forced stop not reported", "ret": str(ri.ret) if ri.ret < 0 else "success code"},
                "%s: stop raised in callback %d but nlopt_optimize returned %d after %d further callbacks" % (ri.name, k, ri.ret, after))
    b = post_bound(ri)
    if b is not None and after > b:
        return ({"alg": ri.name, "cause": "callbacks continue after forced stop"}, "%s: %d callback invocations after the stop was raised (allowed %d)" % (ri.name, after, b))
    if int(r.R.get("fstop", 0)) != fv:
        return ({"alg": ri.name, "cause": "force-stop value not readable"}, "%s: nlopt_get_force_stop=%s, expected %d" % (ri.name, r.R.get("fstop"), fv))
    if not monitors.in_box(ri.x, ri.lb, ri.ub) and not ri.unbounded:
        return ({"alg": ri.name, "cause": "x outside bounds after forced stop"}, "%s: x=%r outside the box after a forced stop" % (ri.name, ri.x))
    return None


def run(ctx):
    bdir, A = runcheck.setup(ctx, ["Wrap:stop_request|wrappers_pass|optimize_preserves_settings", "C03:stop_forced"] + runcheck.drv("forced|^t2_|^T2$"))
    if bdir:
        ctx.algnames = A.names
        rng = random.Random(ctx.seed * 67 + 4)
        ps = []
        ks = list(range(1, 31)) if ctx.thorough else [1, 2, 3, 4, 5, 7, 9, 12, 17, 25]
        for nm in problems.ALL:
            for k in ks:
                p = problems.gen_problem(rng, A, alg_name=nm, maxeval=rng.choice([60, 200]), with_constraints=(rng.random() < 0.5))
                p["stopat"] = k
                if rng.random() < 0.4:
                    p["setforce"] = 1
                    p["forceval"] = rng.choice([1, 7, -3])
                p["runs"] = 2
                p["reseed"] = 1
                p.pop("maxtime", None)
                p.pop("clockq", None)
                p.pop("clock0", None)
                ps.append(p)
        # stops raised late: after the initial population / interpolation set, in the middle of trial, local-search or shrink phases
        for nm in problems.ALL:
            for k in ([30, 41, 55, 75, 100, 130, 180] if ctx.thorough else [33, 58, 91, 140]):
                p = problems.gen_problem(rng, A, alg_name=nm, maxeval=400, with_constraints=(rng.random() < 0.3), box="finite" if rng.random() < 0.7 else None)
                for kk in ("maxtime", "clockq", "clock0", "stopval", "ftol_rel", "xtol_rel", "xtol_abs"):
                    p.pop(kk, None)
                p["obj"] = rng.choice([1, 3])
                p["stopat"] = k
                p["runs"] = 2
                p["reseed"] = 1
                ps.append(p)
        # the "abort idiom": the callback raises the stop and returns NaN (or Inf) from the same call
        for nm in problems.ALL:
            for k in ([1, 2, 3, 5, 8, 13, 21, 34] if ctx.thorough else [2, 4, 9, 17]):
                p = problems.gen_problem(rng, A, alg_name=nm, maxeval=200, with_constraints=False)
                for kk in ("maxtime", "clockq", "clock0", "stopval"):
                    p.pop(kk, None)
                p["stopat"] = k
                p["inj"] = "%d:%s" % (k, rng.choice(["7ff8000000000000", "7ff8000000000000", "7ff0000000000000"]))
                p["runs"] = 2
                p["reseed"] = 1
                ps.append(p)
        # the stop raised by exactly the evaluation that also exhausts maxeval: FORCED_STOP must win
        for nm in problems.ALL:
            for k in ([2, 3, 4, 5, 6, 8, 11, 16, 23] if ctx.thorough else [2, 3, 5, 8]):
                p = problems.gen_problem(rng, A, alg_name=nm, maxeval=k, with_constraints=False)
                p["stopat"] = k
                p["runs"] = 2
                p["reseed"] = 1
                p.pop("maxtime", None)
                p.pop("clockq", None)
                p.pop("clock0", None)
                p.pop("stopval", None)
                ps.append(p)
        import os
        env = dict(os.environ)
        env["HRUN_TIMEOUT"] = "10"
        # two-stage family: a converging run first (its number of callbacks T), then the stop raised in callback T, T-1, T-2 —
        # the final extra evaluations of model-based methods, the last vertex of a simplex, the last local search ...
        conv = []
        for nm in problems.ALL:
            for rep in range(3 if ctx.thorough else 1):
                p = problems.gen_problem(rng, A, alg_name=nm, maxeval=1500, with_constraints=False, box="finite", allow_max=False)
                for kk in ("maxtime", "clockq", "clock0", "stopval", "xtol_abs", "ftol_rel"):
                    p.pop(kk, None)
                p["xtol_rel"] = rng.choice([1e-3, 1e-6])
                p["obj"] = rng.choice([0, 1])
                p["quietx"] = 1
                conv.append(p)
        # the same with constraints: the last callbacks of a converging (or stopval-reaching) constrained run are CONSTRAINT callbacks
        # (inequalities, then equalities); a stop raised inside one of them during the run's final evaluation must still win
        nconv0 = len(conv)
        for nm in problems.ALL:
            aid = A.id(nm)
            if aid not in A.d["ineq"] and aid not in A.d["eq"]:
                continue
            for rep in range(6 if ctx.thorough else 3):
                n = rng.choice([2, 3])
                p = problems.gen_problem(rng, A, alg_name=nm, n=n, maxeval=(1500 if nm not in problems.GLOBAL else 400), with_constraints=True, box="finite", allow_max=False)
                for kk in ("maxtime", "clockq", "clock0", "stopval", "xtol_abs", "ftol_rel", "xw", "inj", "injc"):
                    p.pop(kk, None)
                if aid in A.d["eq"] and rep != 1:
                    p["eq"] = "s:0:%s:%s:%d" % (hexd(rng.choice([0.0, 1e-6])), hexd(rng.uniform(-0.3, 0.3)), 7)
                    if rep == 2:
                        p.pop("ineq", None)
                p["xtol_rel"] = rng.choice([1e-3, 1e-6])
                if rep == 0:
                    p["stopval"] = 1e30        # every value meets it: the run ends at the first point the algorithm judges feasible
                p["obj"] = rng.choice([0, 1])
                p["quietx"] = 1
                conv.append(p)
        cruns, _ = swrap.run_specs(bdir, [problems.to_line(p) for p in conv], env=env)
        for p, r in zip(conv, cruns):
            T = len(r.calls)
            if r.status != "ok" or r.R is None or T < 3 or r.R.get("ret") not in ("1", "2", "3", "4"):
                continue
            for k in ((T, T - 1, T - 2) if not ("ineq" in p or "eq" in p) else (T, T - 1, T - 2, T - 3, T - 4)):
                if k < 1:
                    continue
                q = dict(p)
                q.pop("quietx", None)
                q["stopat"] = k
                q["runs"] = 2
                q["reseed"] = 1
                ps.append(q)
        # the stop raised by exactly the evaluation that also reaches stopval (a new best value): FORCED_STOP must win.  Two stages:
        # a reference run gives the trace; stopval is then placed between the k-th value and the best value before it
        from ..common import unhex
        refs = []
        for nm in problems.ALL:
            for rep in range(4 if ctx.thorough else 2):
                p = problems.gen_problem(rng, A, alg_name=nm, maxeval=rng.choice([80, 150]), with_constraints=False, box="finite", allow_max=False)
                for kk in ("maxtime", "clockq", "clock0", "stopval", "xtol_abs", "ftol_rel", "xtol_rel", "ftol_abs", "xw"):
                    p.pop(kk, None)
                p["obj"] = rng.choice([0, 1, 3])
                refs.append(p)
        rruns, _ = swrap.run_specs(bdir, [problems.to_line(p) for p in refs], env=env)
        for p, r in zip(refs, rruns):
            if r.status != "ok" or r.R is None or len(r.calls) < 4:
                continue
            vals = [unhex(c.val) for c in r.calls]
            best, cand = vals[0], []
            for k in range(1, len(vals)):
                if vals[k] == vals[k] and vals[k] < best:
                    if k >= 2:
                        cand.append((k + 1, 0.5 * (vals[k] + best)))
                    best = vals[k]
            for k, sv in (rng.sample(cand, 3) if len(cand) > 3 else cand):
                q = dict(p)
                q["stopval"] = sv
                q["stopat"] = k
                q["runs"] = 2
                q["reseed"] = 1
                ps.append(q)
        lines = [problems.to_line(p) for p in ps]
        runs, _ = swrap.run_specs(bdir, lines, env=env)
        n1 = n2 = unrelated = 0
        worst = {}
        for r in runs:
            ctx.case(r.spec + "#%d" % getattr(r, "part", 1))
            if r.status != "ok" and not any(c.stop for c in r.calls):
                # crash / hang of a run in which no stop had been requested yet: not a statement about forced stops (C03, C10)
                unrelated += 1
                continue
            if r.status != "ok":
                alg = A.name(int(swrap.kvs(r.spec).get("alg", -1)))
                ctx.violation({"alg": alg, "cause": "crash" if r.status.startswith("CRASH") else "no termination within the watchdog time"},
                              "%s: %s with a forced stop" % (alg, r.status), {"stream": "run", "spec": r.spec})
                continue
            ri = monitors.RunInfo(r, A)
            if getattr(r, "part", 1) == 1:
                n1 += 1
                v = mon_forced(ri)
                if v:
                    ctx.violation(v[0], v[1], {"stream": "run", "spec": r.spec})
                if any(c.stop for c in r.calls):
                    worst[ri.name] = max(worst.get(ri.name, 0), len(r.calls) - int(ri.sp["stopat"]))
            else:
                n2 += 1
                # history: the run after a stopped run starts with the flag cleared
                if ri.ret == -5:
                    ctx.violation({"alg": ri.name, "cause": "flag not cleared for the next run"}, "%s: the run after a forced stop returned FORCED_STOP again without a new request" % ri.name,
                                  {"stream": "run", "spec": r.spec})
        ctx.corr["forced stops"] = {"first_runs": n1, "second_runs_on_same_object": n2, "crash_or_hang_before_any_stop_request (see C03/C10)": unrelated, "max_further_callbacks_seen": worst}
        try:
            from .. import drivers
            drivers.correspond(ctx, [(None, r, monitors.RunInfo(r, A)) for r in runs if r.status == "ok" and r.R and getattr(r, "part", 1) == 1], "forced stops")
        except Exception as e:
            ctx.broke("driver model correspondence", repr(e))
        try:
            firsts = [r for r in runs if getattr(r, "part", 1) == 1]
            res = swrap.replay_all(firsts, swrap.wrap_caps_line(ctx.alg))
            bad = [(r, d) for r, d in res if d]
            ctx.corr["forced stops"].update({"replayed_through_wrapper_model": len(res), "disagreements": len(bad)})
            if bad:
                ctx.broke("correspondence wrap (forced stops): model vs optimize.c", "%s\n spec: %s" % ("; ".join(bad[0][1][:4]), bad[0][0].spec))
        except Exception as e:
            ctx.broke("wrap model driver", repr(e))
        ctx.sample({"spec": runs[0].spec})
        ctx.cov["unproved"] = ["the position of the forced-stop test inside each algorithm (monitor with per-family bounds; not theorems)", "C++ exception path of nlopt.hpp"]
    return ctx.finish(level="proof", extra_cov={"rule": "a case = one run (first: stop raised at callback k; second: next run on the same object); distinct by spec"})
