"""C01: callbacks are never evaluated outside the bound constraints.

proof:          Props/C01.lean (comparison-clamp sites of COBYLA, BOBYQA, bounded NEWUOA, Nelder-Mead/Sbplx, PRAXIS:
                in box for every box and every non-NaN proposal, any arithmetic; fixed coordinates written from lb
                under dimension elimination), Props/Wrap.lean (elim_equiv, wrappers_forward_args)
correspondence: S-wrap (wrapper stack vs optimize.c on every run) and S-glue: the proposal recorded by the site
                hooks (pre-clamp / pre-transform point) is mapped by the Lean glue model to the point the user saw
                S-util rescale stream: rescale.c (nlopt_compute_rescaling / nlopt_rescale / nlopt_new_rescaled / nlopt_unscale /
                nlopt_reorder_bounds, the scaling layer of COBYLA and BOBYQA) against Model/Rescale.lean, bit for bit
                (Props/C01Rescale.lean: scale vector, re-ordered scaled box never inverted, delivered point in the box)
monitor:        in-box test of every callback invocation of every algorithm (also nested ones)"""
import subprocess

from .. import runcheck, monitors, swrap, problems
from ..common import model_exe, canon_nan, build_harness, run_model, sh, hexd

GLUE_ALGS = {"NLOPT_LN_COBYLA": 102, "NLOPT_LN_BOBYQA": 103, "NLOPT_LN_NEWUOA_BOUND": 104, "NLOPT_LN_NEWUOA": 105, "NLOPT_LN_PRAXIS": 101,
             "NLOPT_GN_DIRECT": 107, "NLOPT_GN_DIRECT_L": 107, "NLOPT_GN_DIRECT_L_RAND": 107,
             "NLOPT_GN_ORIG_DIRECT": 108, "NLOPT_GN_ORIG_DIRECT_L": 108}


def glue_correspondence(ctx, batch):
    lines, expect = [], []
    for p, r, ri in batch:
        if ri is None or ri.name not in GLUE_ALGS or r.e10 is None:
            continue
        lb, ub = r.e10.get("lb", "-"), r.e10.get("ub", "-")
        if lb in ("-", ""):
            continue
        for idx, l in r.sites:
            if not l.startswith("S ") or idx >= len(r.calls):
                continue
            d = swrap.kvs(l)
            if d.get("d") != "1":
                continue
            sid = int(l.split(" ")[1])
            if sid == 104 and ri.name == "NLOPT_LN_NEWUOA":
                sid = 105
            c = r.calls[idx]
            pre = dict(c.pre)
            seen = pre[20]["x"] if 20 in pre else c.x          # the reduced point when elimination is active
            lines.append("site %d %s %s %s" % (sid, lb, ub, d.get("x", "_")))
            expect.append((seen, r.spec, l))
    if not lines:
        ctx.corr["glue"] = {"sites": 0}
        return
    q = subprocess.run([model_exe(), "glue"], input=("\n".join(lines) + "\n").encode(), stdout=subprocess.PIPE, stderr=subprocess.PIPE, timeout=600)
    out = q.stdout.decode().split("\n")
    bad = 0
    for k, (seen, spec, l) in enumerate(expect):
        m = out[k] if k < len(out) else "<missing>"
        if canon_nan(m) != canon_nan(seen or "_"):
            bad += 1
            if bad == 1:
                ctx.broke("correspondence glue (site model vs evaluation-site code)", "%s\n delivered: impl=%s model=%s\n spec: %s" % (l[:200], seen, m, spec))
    ctx.corr["glue"] = {"sites": len(lines), "disagreements": bad}


def rescale_stream(ctx, bdir, rng):
    """rescale.c vs Model/Rescale.lean on the same arguments: equal / unequal / negative / zero / infinite / NaN steps, boxes with
    infinite and equal bounds, scale vectors with negative entries (the bounds flip and are re-ordered)"""
    exe, ok, log = build_harness("util", bdir)
    if not ok:
        ctx.broke("util harness build", log)
        return
    steps = [1.0, 1.0, 1.0, 0.5, 2.0, -1.0, -0.25, 0.3, 0.27, 0.95, 1e-200, 1e200, 3.0, 0.1, -0.0, 0.0, float("inf"), 5e-324]
    vals = [0.0, -0.0, 1.0, -1.0, 0.89, 3.5, -2.1, 0.83, 1e-8, 1e300, -1e300, float("inf"), float("-inf"), 5e-324, 2.7, -1.3, 0.37, 1.91]
    nanp = lambda: "7ff8000000000000"
    def lst(pool, n, pnan=0.03):
        return ",".join(nanp() if rng.random() < pnan else hexd(rng.choice(pool) if rng.random() < 0.6 else rng.uniform(-4, 4)) for _ in range(n))
    ops, kinds = [], {}
    for _ in range(6000 if ctx.thorough else 1200):
        n = rng.choice([1, 1, 2, 2, 3, 4, 7])
        k = rng.randrange(6)
        if k == 0:
            if rng.random() < 0.35:
                d = hexd(rng.choice(steps))
                dx = ",".join([d] * n)                                  # equal steps: no rescaling
                if rng.random() < 0.3 and n > 1:                         # ... except one entry, at a random place
                    l = dx.split(","); l[rng.randrange(n)] = hexd(rng.choice(steps)); dx = ",".join(l)
            else:
                dx = lst(steps, n)
            ops.append("cr " + dx)
        elif k == 1:
            ops.append("rs %s %s" % (rng.choice(["-", lst(steps, n)]), lst(vals, n)))
        elif k == 2:
            ops.append("us %s %s" % (rng.choice(["-", lst(steps, n)]), lst(vals, n)))
        elif k == 3:
            ops.append("rb %s %s" % (lst(vals, n), lst(vals, n)))
        else:
            lo = [rng.choice(vals) if rng.random() < 0.5 else rng.uniform(-4, 4) for _ in range(n)]
            hi = [a if rng.random() < 0.15 else (a + abs(rng.choice(vals)) if rng.random() < 0.8 else float("inf")) for a in lo]
            ops.append("sb %s %s %s" % (lst(steps, n, 0.01), ",".join(hexd(a) for a in lo), ",".join(hexd(a) for a in hi)))
        kinds[ops[-1][:2]] = kinds.get(ops[-1][:2], 0) + 1
    text = "\n".join(ops) + "\n"
    rc, out = sh([exe, "rescale"], input=text.encode())
    impl = out.split("\n")
    try:
        model = run_model("rescale", text)
    except Exception as e:
        ctx.broke("rescale model driver", repr(e))
        return
    bad = 0
    for i, op in enumerate(ops):
        a = canon_nan(impl[i]) if i < len(impl) else "?"
        b = canon_nan(model[i]) if i < len(model) else "?"
        if a != b:
            bad += 1
            if bad == 1:
                ctx.broke("correspondence rescale (model vs rescale.c)", "%s: impl=%s model=%s" % (op, a, b))
    ctx.corr["rescale.c"] = {"ops": len(ops), "kinds": kinds, "disagreements": bad}


def run(ctx):
    bdir, A = runcheck.setup(ctx, ["C01", "C01Rescale", "Wrap:elim_equiv|wrappers_forward"])
    if bdir:
        import random
        rescale_stream(ctx, bdir, random.Random(ctx.seed * 7919 + 17))
        rng, ps = runcheck.gen(ctx, A, 6000 if ctx.thorough else 1500)
        # boundary-aimed problems: unequal steps, offset boxes, starts on faces, every glue algorithm
        for nm in list(GLUE_ALGS) + ["NLOPT_LN_NELDERMEAD", "NLOPT_LN_SBPLX", "NLOPT_GN_CRS2_LM", "NLOPT_GN_ISRES", "NLOPT_GN_ESCH", "NLOPT_LD_MMA", "NLOPT_LD_CCSAQ"]:
            for box in ("offset", "fixed", "opt_outside", "tight", "half_lo"):
                for _ in range(6 if ctx.thorough else 2):
                    ps.append(problems.gen_problem(rng, A, alg_name=nm, box=box))
        # CCSAQ with a user preconditioner: the preconditioned inner subproblem has its own trust-region box (pre_lb / pre_ub),
        # intersected with the user's bounds; optimum beyond a face, start near that face, either side
        for rep in range(24 if ctx.thorough else 8):
            n = rng.choice([1, 2, 3])
            p = problems.gen_problem(rng, A, alg_name="NLOPT_LD_CCSAQ", n=n, box="finite", with_constraints=(rep % 4 == 3), maxeval=60)
            for k in ("stopval", "maxtime", "clockq", "clock0", "ftol_rel", "xtol_abs", "xtol_rel", "xw", "inj"):
                p.pop(k, None)
            lo = [rng.uniform(-3, 3) for _ in range(n)]
            w = [10.0 ** rng.uniform(-1, 1) for _ in range(n)]
            p["lb"], p["ub"] = lo, [a + b for a, b in zip(lo, w)]
            side = [rng.random() < 0.5 for _ in range(n)]           # True: optimum below lb, start near lb
            p["x0"] = [(a + b * rng.uniform(0.02, 0.3)) if sd else (a + b * rng.uniform(0.7, 0.98)) for a, b, sd in zip(lo, w, side)]
            p["obj"] = 0
            p["oc"] = [(a - b * rng.uniform(0.5, 4.0)) if sd else (a + b + b * rng.uniform(0.5, 4.0)) for a, b, sd in zip(lo, w, side)]
            p["pre"] = 1
            p["quietx"] = 0
            ps.append(p)
        # long runs with the optimum ON a bound (or outside the box): subdivision / trust-region / simplex sizes shrink to rounding level
        # next to the bound, which is where "x + step" rounds past it
        for nm in problems.ALL:
            if nm == "NLOPT_LN_NEWUOA":
                continue
            for rep in range(6 if ctx.thorough else 2):
                p = problems.gen_problem(rng, A, alg_name=nm, box="opt_outside", with_constraints=False, maxeval=(3000 if nm in problems.GLOBAL else 600), n=rng.choice([1, 2, 3]) if nm not in ("NLOPT_LN_NEWUOA_BOUND", "NLOPT_LN_BOBYQA") else 2)
                for k in ("stopval", "maxtime", "clockq", "clock0", "ftol_rel", "xtol_abs"):
                    p.pop(k, None)
                p["xtol_rel"] = rng.choice([1e-3, 1e-10])
                p["obj"] = rng.choice([0, 1, 3])
                p["quietx"] = 0
                ps.append(p)
        # every coordinate has its own bounds (widths from 1e-2 to 1e2, different offsets) and the unconstrained optimum lies beyond the
        # box in every coordinate: code that gathers / permutes / rescales coordinates must keep each bound with its coordinate
        for nm in problems.ALL:
            if nm == "NLOPT_LN_NEWUOA":
                continue
            for rep in range(6 if ctx.thorough else 2):
                n = rng.choice([3, 4, 5])
                p = problems.gen_problem(rng, A, alg_name=nm, n=n, box="finite", with_constraints=False, maxeval=(800 if nm in problems.GLOBAL else 300))
                for k in ("stopval", "maxtime", "clockq", "clock0", "ftol_rel", "xtol_abs", "xtol_rel", "xw", "dx"):
                    p.pop(k, None)
                widths = [10.0 ** rng.uniform(-2, 2) for _ in range(n)]
                lo = [rng.uniform(-3, 3) for _ in range(n)]
                p["lb"], p["ub"] = lo, [a + w for a, w in zip(lo, widths)]
                p["x0"] = [a + w * rng.uniform(0.2, 0.8) for a, w in zip(lo, widths)]
                p["obj"] = 0
                p["oc"] = [(b + rng.uniform(0.5, 2.0) * w) if rng.random() < 0.7 else (a - rng.uniform(0.5, 2.0) * w) for a, b, w in zip(p["lb"], p["ub"], widths)]
                p["quietx"] = 0
                ps.append(p)
        batch = runcheck.run_batch(ctx, bdir, A, ps, [monitors.mon_in_box], "all algorithms")
        glue_correspondence(ctx, batch)
        ctx.sample({"spec": batch[0][1].spec})
        ctx.sample({"spec": batch[-1][1].spec})
        ctx.cov["unproved_sites"] = ["SLSQP line search / iterates", "Luksan (LBFGS, VAR1/2, TNEWTON*) projection with tolerance", "original DIRECT unscaling",
                                      "cDIRECT / CRS / ISRES / ESCH / MLSL affine sampling lb+(ub-lb)*t (exact-arithmetic lemma only, C20)", "StoGO", "AGS",
                                      "MMA/CCSA dual clamp (same clamp shape, not hooked)"]
    ctx.assumptions += ["the proposal of a numeric core is an arbitrary non-NaN vector (cores not modelled); NaN proposals are outside the theorems and are seen only by the monitor",
                        "original NEWUOA (unconstrained) is excluded, also as a subsidiary optimizer, as the property states"]
    return ctx.finish(level="proof", extra_cov={"rule": "a case = one nlopt_optimize run; non-trivial when it made more than one callback; distinct by full spec"})
