"""C14: the optimizer object stores what was set, validates atomically and copies deeply.

proof:          Props/C14.lean over Model/Api.lean + Model/ApiOps.lean (options.c transcribed on an ownership heap)
correspondence: S-api: random and exhaustive-short API histories over several live objects executed on the real
                library (malloc/free interposed) and on the model; return codes, allocator/hook events and full object
                snapshots compared after every call
monitor:        failed call leaves all snapshots unchanged; algorithm/dimension immutable; copy == source; no
                double free; no leak after destroying everything"""
import itertools
import random

from .. import sapi
from ..common import hexd


def exhaustive_short(length):
    """all histories of `length` ops over a small alphabet on one 2-dimensional object (+ a second object for copy/local)"""
    h = hexd
    alpha = [
        "set_lb o0 %s,%s" % (h(0.0), h(1.0)), "set_ub o0 %s,%s" % (h(1.0), h(1.0)), "set_ub o0 %s,%s" % (h(1e-310), h(2.0)),
        "set_lb1 o0 %s" % h(0.5), "set_ubi o0 1 %s" % h(0.5), "set_lbi o0 7 %s" % h(0.5),
        "set_xtol_abs1 o0 %s" % h(0.1), "set_xtol_abs o0 -", "set_xw o0 %s,%s" % (h(1.0), h(-1.0)), "set_xw1 o0 %s" % h(2.0),
        "set_dx o0 %s,%s" % (h(0.1), h(0.0)), "set_dx1 o0 %s" % h(0.3), "set_dx o0 -", "get_dx o0 %s,%s" % (h(0.2), h(0.9)),
        "add_ineq o0 4 11 %s" % h(1e-8), "add_eqm o0 2 1 12 -", "add_ineqm o0 0 1 13 -", "add_ineq o0 4 14 %s" % h(-1.0), "rm_ineq o0",
        "set_param o0 tolg %s" % h(0.5), "set_param o0 null %s" % h(0.5), "set_min o0 1 15", "set_max o0 2 16",
        "set_stopval o0 %s" % h(3.0), "set_maxeval o0 7", "copy o0 o1", "set_local o0 o0", "set_local o0 null", "destroy o1",
        "set_munge o0 1 1", "get_lb o0", "get_xw_null o0",
    ]
    out = []
    for combo in itertools.product(range(len(alpha)), repeat=length):
        ops, o1 = ["create o0 25 2"], False
        for i in combo:
            op = alpha[i]
            if op == "copy o0 o1":
                if o1:
                    ops.append("destroy o1")
                o1 = True
            elif op == "destroy o1":
                o1 = False
            ops.append(op)
        out.append(ops)
    return out, len(alpha)


def run(ctx):
    from translate import alglists
    ctx.lean_stage(["C14", "C14b", "C14Wf"])
    bdir = ctx.repo_stage()
    if bdir and getattr(ctx, "alg", None):
        rng = random.Random(ctx.seed)
        ex, na = exhaustive_short(3 if ctx.thorough else 2)
        hists = list(ex)
        for _ in range(6000 if ctx.thorough else 700):
            hists.append(sapi.Hist(rng).build(rng.choice([5, 10, 20, 40, 60])))
        # tiny-gap collapse (bounds closer than the smallest normal number): every one of the six bound setters, the other bound
        # stored first, gap = 1 / 3 / 2^40 subnormal units and exactly the smallest normal; which side moves is part of C14
        h = sapi.hexd
        import struct
        def up(x, k):
            return struct.unpack(">d", struct.pack(">q", struct.unpack(">q", struct.pack(">d", x))[0] + k))[0]
        for base in (0.0, 1e-300, 2.0 ** -1000):
            for k in (1, 3, 2 ** 40, 2 ** 52):
                lo, hi = base, up(base, k)
                for first, second in ((("set_lb", lo), ("set_ub", hi)), (("set_ub", hi), ("set_lb", lo))):
                    for form in ("", "1", "i"):
                        def op(nm, v, form=form):
                            if form == "":
                                return "%s o0 %s,%s" % (nm, h(v), h(v))
                            if form == "1":
                                return "%s1 o0 %s" % (nm, h(v))
                            return "%si o0 1 %s" % (nm, h(v))
                        hists.append(["create o0 25 2", "set_lb o0 %s,%s" % (h(-5.0), h(-5.0)), "set_ub o0 %s,%s" % (h(5.0), h(5.0)),
                                      op(first[0], first[1]) if first[0] == "set_lb" else "set_ub o0 %s,%s" % (h(first[1]), h(first[1])),
                                      op(second[0], second[1]), "get_lb o0", "destroy o0"])
                        hists.append(["create o0 25 2", "set_lb o0 %s,%s" % (h(-5.0), h(-5.0)), "set_ub o0 %s,%s" % (h(5.0), h(5.0)),
                                      "%s o0 %s,%s" % (first[0], h(first[1]), h(first[1])), op(second[0], second[1]), "destroy o0"])
        sapi.run_histories(ctx, bdir, ctx.alg, hists, "C14", "random+exhaustive")
        ctx.cov["exhaustive_short_histories"] = {"length": 3 if ctx.thorough else 2, "alphabet": na, "histories": len(ex)}
        ctx.sample({"history": hists[-1][:10]})
        ctx.sample({"history": ex[17]})
    ctx.assumptions += ["user callbacks/data are opaque ids; nlopt_munge_data and the f77 API are not modelled",
                        "'equal in optimization behaviour' of a copy rests on equality of every field read by nlopt_optimize (snapshot) plus C07"]
    return ctx.finish(level="proof", extra_cov={"rule": "a case = one API call inside a history; distinct by op text; getters count as trivial"})
