"""C12: a vector-valued constraint equals the same constraints added one by one.

proof:          Props/C12.lean: the shared evaluators and storage treat both layouts alike (count = sum of m, flattened
                values/tolerances/gradient rows of a vector constraint = those of its components, for every mix and every n);
                Props/C14b setter_stores_addCon (tolerance copy; NULL tolerances = zeros), C14 failed_call_changes_nothing
translator:     AlgLists.lean (which algorithms accept inequality / equality constraints)
correspondence: S-api (constraint storage), S-wrap replay of both runs of every pair
monitor:        pair runs (one m-dimensional constraint | its m components as scalar constraints, same order and tolerances):
                bitwise equal objective evaluation sequence, x, opt_f, code; AGS and unsupported algorithms reject"""
import random

from .. import runcheck, problems, swrap
from ..common import hexd


def scalarize(spec):
    """v:m:ck:tols:b:j0 -> m scalar items"""
    out = []
    for it in spec.split(";"):
        f = it.split(":")
        if f[0] == "v":
            m, ck, tols, b, j0 = int(f[1]), f[2], f[3], f[4], int(f[5])
            from ..common import unhex
            tl = tols.split(",") if tols not in ("-", "_") else ["0000000000000000"] * m
            bv = unhex(b)
            for j in range(m):
                out.append("s:%s:%s:%s:%d" % (ck, tl[j], hexd(bv + 0.1 * j), j0 + j))
        else:
            out.append(it)
    return ";".join(out)


def relate(a, b):
    ta, tb = runcheck.obj_trace(a), runcheck.obj_trace(b)
    if len(ta) != len(tb):
        return "number of objective evaluations differs: %d vs %d" % (len(ta), len(tb))
    for k, (p, q) in enumerate(zip(ta, tb)):
        if p[:3] != q[:3]:
            return "objective evaluation %d differs (point or value)" % (k + 1)
    ra, rb = runcheck.result_of(a), runcheck.result_of(b)
    if ra[:3] != rb[:3]:
        return "result differs: %s vs %s" % (ra[:3], rb[:3])
    return None


def run(ctx):
    bdir, A = runcheck.setup(ctx, ["C12", "C14b:setter_stores_addCon"])
    if bdir:
        ctx.algnames = A.names
        rng = random.Random(ctx.seed * 43 + 12)
        pa, pb = [], []
        names = [A.name(i) for i in ctx.alg["ineq"]]
        for nm in names:
            for rep in range(25 if ctx.thorough else 6):
                p = problems.gen_problem(rng, A, alg_name=nm, with_constraints=False, box="finite" if rng.random() < 0.7 else None)
                # the virtual clock advances once per callback: one vector call vs m scalar calls read different times, so a time
                # limit is not part of the compared behaviour
                p.pop("maxtime", None)
                p.pop("clockq", None)
                p.pop("clock0", None)
                n = p["n"]
                items, j = [], 0
                for _ in range(rng.choice([1, 1, 2])):
                    m = rng.choice([1, 2, 3, 4])
                    tols = [rng.choice([0.0, 1e-8, 1e-2]) for _ in range(m)]
                    items.append("v:%d:%d:%s:%s:%d" % (m, rng.choice([0, 1, 2]), problems.hl(tols) if rng.random() < 0.8 else "-", hexd(rng.uniform(0.5, 3.0)), j))
                    j += m
                    if rng.random() < 0.3:
                        items.append("s:%d:%s:%s:%d" % (rng.choice([0, 1]), hexd(1e-6), hexd(rng.uniform(1, 3)), j))
                        j += 1
                p["ineq"] = ";".join(items)
                if A.id(nm) in ctx.alg["eq"] and rng.random() < 0.4:
                    p["eq"] = "v:%d:0:%s:%s:%d" % (2, problems.hl([1e-6, 0.0]), hexd(rng.uniform(-0.3, 0.3)), 9)
                q = dict(p)
                q["ineq"] = scalarize(p["ineq"])
                if "eq" in p:
                    q["eq"] = scalarize(p["eq"])
                pa.append(p)
                pb.append(q)
        # constraints that are active at the optimum, some components active and some not (multipliers differ per component),
        # enough evaluations for multiplier / penalty updates to matter
        for nm in names:
            if nm == "NLOPT_GN_AGS":
                continue
            for rep in range(16 if ctx.thorough else 4):
                n = rng.choice([2, 2, 3])
                p = problems.gen_problem(rng, A, alg_name=nm, n=n, with_constraints=False, box="finite", maxeval=rng.choice([60, 150, 300]), allow_max=(rep % 4 == 3))
                for k in ("maxtime", "clockq", "clock0", "stopval", "xtol_abs", "xw"):
                    p.pop(k, None)
                p["lb"], p["ub"] = [-3.0] * n, [3.0] * n
                p["x0"] = [rng.uniform(-0.3, 0.3) for _ in range(n)]
                p["obj"] = 0
                d = [rng.gauss(0, 1) for _ in range(n)]
                nd = sum(t * t for t in d) ** 0.5 or 1.0
                p["oc"] = [rng.uniform(1.8, 2.6) * t / nd for t in d]
                m = rng.choice([2, 3])
                # ball constraints with radii b + 0.1*j: the smallest is active, the others may be slack; plus a slack half-space
                p["ineq"] = "v:%d:1:%s:%s:0;v:2:0:-:%s:%d" % (m, problems.hl([0.0] * m), hexd(rng.uniform(0.5, 1.5)), hexd(rng.uniform(3.0, 6.0)), m)
                q = dict(p)
                q["ineq"] = scalarize(p["ineq"])
                pa.append(p)
                pb.append(q)
        # tolerance layout: a stopval that every objective value meets ends the run at the first point the algorithm judges feasible,
        # so each component's tolerance must be applied to that component's rows; starts sit inside the band of the loose
        # components only (equality constraints where supported: some cores keep +h and -h rows apart)
        for nm in names:
            if nm == "NLOPT_GN_AGS":
                continue
            eqcap = A.id(nm) in ctx.alg["eq"]
            for rep in range((48 if eqcap else 24) if ctx.thorough else (16 if eqcap else 8)):
                n = 3
                p = problems.gen_problem(rng, A, alg_name=nm, n=n, with_constraints=False, box="finite", maxeval=rng.choice([40, 100]), allow_max=False)
                for k in ("maxtime", "clockq", "clock0", "stopval", "xtol_abs", "xw", "ftol_rel", "xtol_rel"):
                    p.pop(k, None)
                p["lb"], p["ub"] = [-3.0] * n, [3.0] * n
                p["obj"] = 0
                b = rng.uniform(0.3, 1.0)
                loose, tight = rng.choice([1e-2, 5e-2, 0.1]), rng.choice([0.0, 1e-8, 1e-4])
                m = rng.choice([2, 3])
                tols = [tight] * m
                for k in rng.sample(range(m), rng.choice([1, m - 1])):
                    tols[k] = loose
                if rep % 4 < 2:     # feasible start: every loose component off by a part of its tolerance (either sign), tight ones exact
                    offs = [rng.choice([-1, 1]) * rng.uniform(0.2, 0.9) * loose if tols[j] == loose else 0.0 for j in range(m)]
                else:               # infeasible start: a tight component off by less than the loose tolerance
                    offs = [rng.choice([0.0, rng.choice([-1, 1]) * rng.uniform(0.2, 0.9) * loose]) if tols[j] == loose
                            else rng.choice([-1, 1]) * rng.choice([0.0, 0.3, 0.6]) * loose for j in range(m)]
                p["x0"] = [(b + 0.1 * j + offs[j]) if j < m else rng.uniform(-0.3, 0.3) for j in range(n)]
                p["oc"] = [b + 0.1 * j + rng.uniform(0.5, 1.5) for j in range(n)]
                role = "eq" if (eqcap and rep % 8 < 6) else "ineq"
                p[role] = "v:%d:2:%s:%s:0" % (m, problems.hl(tols), hexd(b))
                p["stopval"] = 1e6
                q = dict(p)
                q[role] = scalarize(p[role])
                pa.append(p)
                pb.append(q)
        # a PRECONDITIONED scalar constraint registered after a vector constraint (CCSAQ keeps one preconditioner slot per flattened
        # component): whether any constraint has a preconditioner must be decided over the flattened components
        if "NLOPT_LD_CCSAQ" in names:
            for rep in range(24 if ctx.thorough else 8):
                n = rng.choice([2, 3])
                p = problems.gen_problem(rng, A, alg_name="NLOPT_LD_CCSAQ", n=n, with_constraints=False, box="finite", maxeval=rng.choice([20, 40]), allow_max=False)
                for k in ("maxtime", "clockq", "clock0", "stopval", "xtol_abs", "xw"):
                    p.pop(k, None)
                p["lb"], p["ub"] = [-3.0] * n, [3.0] * n
                p["x0"] = [rng.uniform(-0.3, 0.3) for _ in range(n)]
                p["obj"] = 0
                d = [rng.gauss(0, 1) for _ in range(n)]
                nd = sum(t * t for t in d) ** 0.5 or 1.0
                p["oc"] = [rng.uniform(1.8, 2.6) * t / nd for t in d]
                m = rng.choice([2, 3])
                vec = "v:%d:1:%s:%s:0" % (m, problems.hl([0.0] * m), hexd(rng.uniform(0.8, 1.5)))
                pre = "p:1:%s:%s:%d" % (hexd(0.0), hexd(rng.uniform(0.5, 1.2)), m)
                p["ineq"] = (vec + ";" + pre) if rep % 4 != 3 else (pre + ";" + vec)
                q = dict(p)
                q["ineq"] = scalarize(p["ineq"])
                pa.append(p)
                pb.append(q)
        def has_big_vector(p):
            return any(it.startswith("v:") and int(it.split(":")[1]) > 1 for it in (p.get("ineq", "") + ";" + p.get("eq", "")).split(";") if it)
        ba = runcheck.run_batch(ctx, bdir, A, pa, [], "vector constraints", blame_crash=False)
        bb = runcheck.run_batch(ctx, bdir, A, pb, [], "scalar components", blame_crash=False)
        # AGS cannot handle constraints of dimension > 1: it must reject them (checked below), so those pairs are not comparable
        keep = [k for k, (p, _, _) in enumerate(ba) if not (A.name(p["alg"]) == "NLOPT_GN_AGS" and has_big_vector(p))]
        runcheck.compare_pairs(ctx, [ba[k][1] for k in keep], [bb[k][1] for k in keep], relate, "pairs (vector | scalars)",
                               {"cause": "vector constraint differs from its scalar components"})
        # algorithms that cannot take vector constraints must reject them
        rej = 0
        for (p, r, ri) in ba:
            if A.name(p["alg"]) == "NLOPT_GN_AGS" and has_big_vector(p) and r.R and r.R.get("ret") not in ("-2",):
                ctx.violation({"alg": "NLOPT_GN_AGS", "cause": "vector constraint not rejected"}, "AGS ran with a vector-valued constraint (ret=%s)" % r.R.get("ret"),
                              {"stream": "run", "spec": r.spec})
            if r.R and r.R.get("ret") == "-2":
                rej += 1
        ctx.cov["rejected_runs"] = rej
        ctx.sample({"vector": ba[0][1].spec, "scalars": bb[0][1].spec})
    ctx.assumptions += ["a numeric core reads constraints only through the flattened arrays NLopt fills (stated assumption; the pair runs observe it)"]
    return ctx.finish(level="proof", extra_cov={"rule": "a case = one run (each pair contributes two); distinct by spec"})
