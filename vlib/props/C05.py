"""C05: bound-constrained runs return the best point they evaluated.

proof:          Props/Wrap.lean memo_returns_best_evaluated (COBYLA and the truncated-Newton family, for every algorithm
                machine: opt_f is the minimum over the in-box evaluations, first minimiser), wrappers_pass_result
correspondence: S-wrap replay (incumbent of the memo wrapper via hook 31, result bitwise)
monitor:        running minimum over the in-bounds trace versus opt_f for all listed incumbent-keeping algorithms"""
from .. import runcheck, monitors, problems


def run(ctx):
    bdir, A = runcheck.setup(ctx, ["Wrap:memo_returns|wrappers_pass"])
    if bdir:
        rng = __import__("random").Random(ctx.seed * 31 + 5)
        ps = []
        names = sorted(monitors.BEST_ALGS)
        for _ in range(40 if ctx.thorough else 9):
            for nm in names:
                p = problems.gen_problem(rng, A, alg_name=nm, with_constraints=False)
                p["obj"] = rng.choice([0, 1, 2, 3, 4])
                ps.append(p)
        batch = runcheck.run_batch(ctx, bdir, A, ps, [monitors.mon_best], "incumbent-keeping algorithms")
        ctx.sample({"spec": batch[0][1].spec})
        ctx.cov["unproved"] = ["incumbent bookkeeping inside BOBYQA/NEWUOA (kopt), DIRECT, CRS, ISRES, ESCH, StoGO, NM/Sbplx, PRAXIS: monitor only"]
    ctx.assumptions += ["NaN objective values are skipped by the C comparisons and by the monitor"]
    return ctx.finish(level="proof", extra_cov={"rule": "a case = one run of a listed algorithm without nonlinear constraints; distinct by spec"})
