"""C05: bound-constrained runs return the best point they evaluated.

proof:          Props/Wrap.lean memo_returns_best_evaluated (COBYLA and the truncated-Newton family, for every algorithm
                machine: opt_f is the minimum over the in-box evaluations, first minimiser), wrappers_pass_result
correspondence: S-wrap replay (incumbent of the memo wrapper via hook 31, result bitwise)
monitor:        running minimum over the in-bounds trace versus opt_f for all listed incumbent-keeping algorithms"""
from .. import runcheck, monitors, problems


def run(ctx):
    bdir, A = runcheck.setup(ctx, ["Wrap:memo_returns|wrappers_pass", "C05", "C05Crs"] + runcheck.drv("best_|returned_pair|^t4_|^T4"))
    if bdir:
        rng = __import__("random").Random(ctx.seed * 31 + 5)
        ps = []
        names = sorted(monitors.BEST_ALGS)
        for _ in range(40 if ctx.thorough else 9):
            for nm in names:
                p = problems.gen_problem(rng, A, alg_name=nm, with_constraints=False)
                p["obj"] = rng.choice([0, 1, 2, 3, 4])
                ps.append(p)
        # budget sweep: the evaluation that exhausts maxeval is the classical place to lose a new best point, and the initial
        # sampling phases (BOBYQA/NEWUOA 2n+1 points, CRS / ISRES / ESCH populations) are only cut short by small budgets
        for nm in names:
            for rep in range(4 if ctx.thorough else (6 if nm in ("NLOPT_LN_BOBYQA", "NLOPT_LN_NEWUOA", "NLOPT_LN_NEWUOA_BOUND", "NLOPT_LN_COBYLA") else 1)):
                base = problems.gen_problem(rng, A, alg_name=nm, with_constraints=False, box="finite", allow_max=(rep == 2),
                                            n=(3 if nm == "NLOPT_LN_PRAXIS" else None))
                for k in ("stopval", "ftol_rel", "xtol_rel", "xtol_abs", "maxtime", "clockq", "clock0"):
                    base.pop(k, None)
                base["obj"] = rng.choice([0, 1, 3])
                if any(abs(v) > 1e300 for v in base["lb"] + base["ub"]):
                    base.pop("max", None)      # maximizing a bowl over an unbounded box has no solution (values overflow to Inf/NaN)
                if rep >= 1 and rep % 2 == 1:
                    # start in the middle of the box, optimum on a chosen side of every coordinate (both probe directions of the
                    # initial interpolation set are then ranked in every order over the repetitions)
                    base["x0"] = [(a + b) / 2 for a, b in zip(base["lb"], base["ub"])]
                    base["oc"] = [x + rng.choice([-1, -1, 1]) * rng.uniform(0.2, 0.45) * (b - a) for x, a, b in zip(base["x0"], base["lb"], base["ub"])]
                    base["obj"] = 0
                    base.pop("dx", None)
                top = 400 if ctx.thorough else (160 if nm in ("NLOPT_GN_CRS2_LM", "NLOPT_GN_ISRES", "NLOPT_GN_ESCH") else 60)
                if nm == "NLOPT_LN_PRAXIS":
                    # PRAXIS takes extra random steps only in its ill-conditioned mode: non-smooth valley, longer budgets
                    base["obj"] = rng.choice([2, 4, 2])
                    top = 1200 if ctx.thorough else 500
                for N in range(1, top + 1):
                    q = dict(base)
                    q["maxeval"] = N
                    ps.append(q)
        # runs that CONVERGE (tolerance reached, final extra steps of the model-based methods), not only budget-limited ones
        for nm in names:
            model_based = nm in ("NLOPT_LN_BOBYQA", "NLOPT_LN_NEWUOA", "NLOPT_LN_NEWUOA_BOUND", "NLOPT_LN_COBYLA")
            for rep in range((400 if model_based else 12) if ctx.thorough else (120 if model_based else 4)):
                p = problems.gen_problem(rng, A, alg_name=nm, with_constraints=False, box=rng.choice(["finite", "big"]), maxeval=3000, allow_max=False)
                for k in ("stopval", "ftol_rel", "xtol_abs", "maxtime", "clockq", "clock0", "xw"):
                    p.pop(k, None)
                p["obj"] = rng.choice([0, 1, 1, 3])
                p["xtol_rel"] = rng.choice([1e-3, 1e-5, 1e-7])
                p["quietx"] = 0
                ps.append(p)
        # the drivers with a Lean control-flow model (Props/Drv*.lean): small populations / dimensions so that every phase (initial
        # population, trials, generations, shrinks) and every stopping test (stopval, ftol, xtol, maxeval) decides some runs
        from ..common import hexd
        for nm in ("NLOPT_GN_CRS2_LM", "NLOPT_GN_ESCH", "NLOPT_GN_ISRES", "NLOPT_LN_NELDERMEAD", "NLOPT_LN_SBPLX"):
            for rep in range(60 if ctx.thorough else 16):
                n = rng.choice([1, 2, 2, 3])
                p = problems.gen_problem(rng, A, alg_name=nm, n=n, with_constraints=False, box="finite", maxeval=rng.choice([30, 120, 400]))
                for k in ("stopval", "ftol_rel", "ftol_abs", "xtol_rel", "xtol_abs", "maxtime", "clockq", "clock0", "xw", "pop"):
                    p.pop(k, None)
                p["obj"] = rng.choice([0, 0, 1, 3])
                if nm.startswith("NLOPT_GN") and rng.random() < 0.7:
                    p["pop"] = rng.choice([n + 1, n + 2, 4, 6, 9])
                kind = rep % 4
                if kind == 0:
                    p["ftol_rel"] = rng.choice([1e-1, 1e-2, 1e-4])
                elif kind == 1:
                    p["xtol_rel"] = rng.choice([1e-1, 1e-2, 1e-4])
                    if rng.random() < 0.4:
                        p["xw"] = [rng.choice([1.0, 0.5, 2.0]) for _ in range(n)]
                elif kind == 2:
                    p["xtol_abs"] = [rng.choice([1e-1, 1e-2, 1e-3]) for _ in range(n)]
                    if rng.random() < 0.5:
                        p["ftol_abs"] = rng.choice([1e-1, 1e-3])
                else:
                    p["stopval"] = rng.choice([0.05, 0.5, 2.0]) * (-1 if p.get("max") else 1)
                p["quietx"] = 0
                ps.append(p)
        batch = runcheck.run_batch(ctx, bdir, A, ps, [monitors.mon_best], "incumbent-keeping algorithms")
        # correspondence for the CRS population rule (Model/Crs.lean, Props/C05Crs.lean): the objective values of every CRS run are
        # replayed through the model (first N = initial population, rest = trials); the model's best value must be opt_f
        from ..common import run_model, hexd, unhex
        text, todo = [], []
        for p, r, ri in batch:
            if ri is None or ri.name != "NLOPT_GN_CRS2_LM" or ri.ret is None or ri.ret not in (1, 2, 3, 4, 5, 6) or r.e10 is None:
                continue
            try:
                n_inner = int(r.e10.get("n", ri.n))
                pop = int(r.e10.get("pop", "0"))
            except ValueError:
                continue
            N = pop if pop > 0 else 10 * (n_inner + 1)
            vals = [unhex(c.val) for c in ri.objcalls]
            if ri.maximize:
                vals = [-v for v in vals]
            if not vals or any(v != v for v in vals):
                continue
            text += ["reset"] + ["%s %s" % ("ci" if k < N else "ct", hexd(v)) for k, v in enumerate(vals)] + ["end c"]
            todo.append((r, ri))
        if todo:
            try:
                out = [l for l in run_model("inc", "\n".join(text) + "\n") if l.strip()]
                bad = 0
                for (r, ri), l in zip(todo, out):
                    got = -ri.optf if ri.maximize else ri.optf
                    if unhex(l.split(" ")[0]) != got:
                        bad += 1
                        if bad == 1:
                            ctx.broke("correspondence CRS population rule: model vs crs.c", "model best %s, returned opt_f %r\n spec: %s" % (l, got, r.spec))
                ctx.corr["CRS population rule"] = {"runs_replayed": len(todo), "disagreements": bad + abs(len(out) - len(todo))}
            except Exception as e:
                ctx.broke("inc model driver", repr(e))
        ctx.sample({"spec": batch[0][1].spec})
        ctx.cov["unproved"] = ["incumbent bookkeeping inside BOBYQA/NEWUOA (kopt), DIRECT, CRS, ISRES, ESCH, StoGO, NM/Sbplx, PRAXIS: monitor only"]
    ctx.assumptions += ["NaN objective values are skipped by the C comparisons and by the monitor"]
    return ctx.finish(level="proof", extra_cov={"rule": "a case = one run of a listed algorithm without nonlinear constraints; distinct by spec"})
