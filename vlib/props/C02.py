"""C02: the returned optimum is a point that was actually evaluated, inside the bounds.

proof:          Props/Wrap.lean: memo_returns_best_evaluated (COBYLA, TNEWTON*: for EVERY algorithm machine the returned
                (x, opt_f) is bit-for-bit the first best in-box evaluation, sign restored), wrappers_pass_result (no
                wrapper alters x / minf of the algorithm beyond expand + sign), rejected_* (x untouched on rejection),
                zero_dim_single_eval; Props/C01.lean elimdim_fixed_exact
correspondence: S-wrap replay of every recorded run through the wrapper model (x, opt_f, code bitwise)
monitor:        on success / ROUNDOFF_LIMITED: x bit-for-bit in the objective trace, opt_f the value there, x in the box,
                STOPVAL_REACHED only when stopval was reached; early exits (maxeval 1.., virtual maxtime, stopval)"""
from .. import runcheck, monitors, problems


def run(ctx):
    bdir, A = runcheck.setup(ctx, ["Wrap:memo_returns|wrappers_pass|rejected|zero_dim|ill_posed", "C01:elimdim"])
    if bdir:
        rng, ps = runcheck.gen(ctx, A, 6000 if ctx.thorough else 1500)
        for nm in problems.ALL:
            for me in (1, 2, 3, 7):
                p = problems.gen_problem(rng, A, alg_name=nm, maxeval=me)
                ps.append(p)
            p = problems.gen_problem(rng, A, alg_name=nm)
            p["stopval"] = rng.choice([1.0, 10.0, 0.1]) * (-1 if p.get("max") else 1)
            ps.append(p)
        batch = runcheck.run_batch(ctx, bdir, A, ps, [monitors.mon_returned_point], "all algorithms, early exits")
        ctx.sample({"spec": batch[0][1].spec})
        ctx.sample({"spec": batch[-1][1].spec})
        ctx.cov["unproved"] = ["that an f2c core's own incumbent (BOBYQA/NEWUOA kopt, SLSQP, Luksan last iterate, DIRECT minpos, StoGO, AGS) is an evaluated point: observed by the monitor, not modelled"]
    return ctx.finish(level="proof", extra_cov={"rule": "a case = one nlopt_optimize run; non-trivial when it made more than one callback; distinct by spec"})
