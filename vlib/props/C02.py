"""C02: the returned optimum is a point that was actually evaluated, inside the bounds.

proof:          Props/Wrap.lean: memo_returns_best_evaluated (COBYLA, TNEWTON*: for EVERY algorithm machine the returned
                (x, opt_f) is bit-for-bit the first best in-box evaluation, sign restored), wrappers_pass_result (no
                wrapper alters x / minf of the algorithm beyond expand + sign), rejected_* (x untouched on rejection),
                zero_dim_single_eval; Props/C01.lean elimdim_fixed_exact
correspondence: S-wrap replay of every recorded run through the wrapper model (x, opt_f, code bitwise)
monitor:        on success / ROUNDOFF_LIMITED: x bit-for-bit in the objective trace, opt_f the value there, x in the box,
                STOPVAL_REACHED only when stopval was reached; early exits (maxeval 1.., virtual maxtime, stopval)"""
from .. import runcheck, monitors, problems


def run(ctx):
    bdir, A = runcheck.setup(ctx, ["Wrap:memo_returns|wrappers_pass|rejected|zero_dim|ill_posed", "C01:elimdim"] + runcheck.drv("returned_pair|stopval|ret_codes|^t3_|^T3$|^t5_|^T5$"))
    if bdir:
        rng, ps = runcheck.gen(ctx, A, 6000 if ctx.thorough else 1500)
        for nm in problems.ALL:
            for me in (1, 2, 3, 7):
                p = problems.gen_problem(rng, A, alg_name=nm, maxeval=me)
                ps.append(p)
            p = problems.gen_problem(rng, A, alg_name=nm)
            p["stopval"] = rng.choice([1.0, 10.0, 0.1]) * (-1 if p.get("max") else 1)
            ps.append(p)
        # stopval reached in the middle of a run (also by a member of an initial population / interpolation set)
        for nm in problems.ALL:
            for _ in range(12 if ctx.thorough else 3):
                p = problems.gen_problem(rng, A, alg_name=nm, box="finite", with_constraints=False, maxeval=rng.choice([100, 300]))
                for k in ("ftol_rel", "xtol_rel", "xtol_abs", "maxtime", "clockq", "clock0"):
                    p.pop(k, None)
                p["obj"] = 0
                # value of the bowl at the start, then a threshold that a fraction of the box (but not the start) reaches
                w = [1 + 0.5 * i for i in range(p["n"])]
                f0 = sum(wi * (x - c) ** 2 for wi, x, c in zip(w, p["x0"], p["oc"]))
                sv = f0 * rng.choice([0.9, 0.6, 0.3, 0.1])
                p["stopval"] = -sv if p.get("max") else sv
                ps.append(p)
        # initial steps wider than the box, start on or next to a bound (initial simplex / interpolation set has to be repaired
        # against both bounds)
        for nm in problems.DERIV_FREE_LOCAL:
            for _ in range(20 if ctx.thorough else 6):
                p = problems.gen_problem(rng, A, alg_name=nm, box=rng.choice(["finite", "tight"]), with_constraints=False)
                if nm == "NLOPT_LN_NEWUOA":
                    continue
                wd = [b - a for a, b in zip(p["lb"], p["ub"])]
                p["x0"] = [rng.choice([a, b, b - 0.05 * d, a + 0.05 * d]) for a, b, d in zip(p["lb"], p["ub"], wd)]
                p["dx"] = [rng.choice([1.5, 3.0, -1.5, 0.6]) * d for d in wd]
                p["oc"] = [rng.choice([a - d, b + d, (a + b) / 2]) for a, b, d in zip(p["lb"], p["ub"], wd)]
                p["obj"] = 0
                ps.append(p)
        # simplex methods run down to the floating-point floor (no tolerance can fire): the inner Nelder-Mead of Subplex then ends
        # with "simplex too small" in one subspace, an exit on which x has to be restored from the subspace incumbent
        for nm in ("NLOPT_LN_SBPLX", "NLOPT_LN_NELDERMEAD"):
            for rep in range(6 if ctx.thorough else 3):
                p = problems.gen_problem(rng, A, alg_name=nm, n=rng.choice([3, 4]), box=rng.choice(["infinite", "big"]), with_constraints=False, maxeval=4000, allow_max=False)
                for k in ("ftol_rel", "xtol_rel", "xtol_abs", "xw", "stopval", "maxtime", "clockq", "clock0"):
                    p.pop(k, None)
                p["obj"] = 0
                p["x0"] = [c + rng.uniform(-1, 1) for c in p["oc"]]
                p["dx"] = [rng.choice([0.5, 1.0]) for _ in range(p["n"])]
                if rep % 3 == 2:
                    p["dx"][rng.randrange(p["n"])] = 1e-13
                p["quietx"] = 0
                ps.append(p)
        # budget sweep (every N from 1 up): exits taken while the initial interpolation set / population is still being built
        for nm in problems.ALL:
            base = problems.gen_problem(rng, A, alg_name=nm, with_constraints=False, box="finite")
            for k in ("stopval", "ftol_rel", "xtol_rel", "xtol_abs", "maxtime", "clockq", "clock0"):
                base.pop(k, None)
            for N in range(1, (60 if ctx.thorough else 30) + 1):
                q = dict(base)
                q["maxeval"] = N
                ps.append(q)
        # long runs with the optimum on a bound (sizes shrink to rounding level next to the bound: the returned point must still be
        # the evaluated one, bit for bit)
        for nm in problems.GLOBAL + ["NLOPT_LN_NELDERMEAD", "NLOPT_LN_SBPLX", "NLOPT_LN_PRAXIS", "NLOPT_LN_COBYLA", "NLOPT_LN_BOBYQA"]:
            scaled = nm in ("NLOPT_GN_DIRECT", "NLOPT_GN_DIRECT_L", "NLOPT_GN_DIRECT_L_RAND", "NLOPT_GN_ORIG_DIRECT", "NLOPT_GN_ORIG_DIRECT_L")
            for rep in range((30 if scaled else 4) if ctx.thorough else (8 if scaled else 2)):     # unit-cube variants: the back-map rounds
                p = problems.gen_problem(rng, A, alg_name=nm, box="opt_outside", with_constraints=False, maxeval=(4000 if nm in problems.GLOBAL else 800),
                                         n=rng.choice([1, 2]) if nm not in ("NLOPT_LN_BOBYQA",) else 2)
                for k in ("stopval", "maxtime", "clockq", "clock0", "ftol_rel", "xtol_abs", "xtol_rel"):
                    p.pop(k, None)
                p["obj"] = rng.choice([0, 3])
                if scaled and rep % 2 == 1:
                    # decimal bounds, optimum beyond a bound: lb + t*(ub - lb) with t -> 1 is where the back-map of the unit cube rounds
                    lb, ub = problems.gen_box(rng, p["n"], "decimal")
                    p["lb"], p["ub"] = lb, ub
                    p["x0"] = [(a + b) / 2 for a, b in zip(lb, ub)]
                    p["oc"] = [b + 0.7 if rng.random() < 0.7 else a - 0.7 for a, b in zip(lb, ub)]
                    p["obj"] = 0
                    p.pop("max", None)
                    p["maxeval"] = 1500
                ps.append(p)
        for nm in ("NLOPT_GN_DIRECT", "NLOPT_GN_DIRECT_L", "NLOPT_GN_DIRECT_L_RAND", "NLOPT_GN_ORIG_DIRECT", "NLOPT_GN_ORIG_DIRECT_L"):
            for rep in range(40 if ctx.thorough else 14):
                n = 1 if rep % 3 else 2
                p = problems.gen_problem(rng, A, alg_name=nm, n=n, box="decimal", with_constraints=False, maxeval=(1500 if n == 1 else 3000), allow_max=False)
                for k in ("stopval", "maxtime", "clockq", "clock0", "ftol_rel", "xtol_abs", "xtol_rel"):
                    p.pop(k, None)
                p["x0"] = [(a + b) / 2 for a, b in zip(p["lb"], p["ub"])]
                p["oc"] = [b + 0.7 if rng.random() < 0.75 else a - 0.7 for a, b in zip(p["lb"], p["ub"])]
                p["obj"] = 0
                ps.append(p)
        batch = runcheck.run_batch(ctx, bdir, A, ps, [monitors.mon_returned_point], "all algorithms, early exits")
        # two-stage stopval family with a NON-CONVEX feasible set (outside of a ball): first the run without stopval, then the same
        # problem with a stopval just below / just above the value reached: STOPVAL_REACHED must come with an opt_f that reached it
        from ..common import hexd, unhex
        base = []
        for aid in ctx.alg["ineq"]:
            nm = A.name(aid)
            if nm == "NLOPT_GN_AGS":
                continue
            for rep in range(4 if ctx.thorough else 2):
                n = rng.choice([2, 3])
                p = problems.gen_problem(rng, A, alg_name=nm, n=n, box="finite", with_constraints=False, maxeval=rng.choice([100, 250]), allow_max=False)
                for k in ("ftol_rel", "xtol_rel", "xtol_abs", "xw", "stopval", "maxtime", "clockq", "clock0", "dx"):
                    p.pop(k, None)
                p["lb"], p["ub"] = [-3.0] * n, [3.0] * n
                p["obj"] = 0
                p["oc"] = [rng.uniform(-0.3, 0.3) for _ in range(n)]                      # unconstrained minimum inside the excluded ball
                p["x0"] = [rng.choice([-1, 1]) * rng.uniform(1.2, 2.0) for _ in range(n)]   # feasible start
                p["ineq"] = "s:3:%s:%s:0" % (hexd(0.0), hexd(rng.uniform(0.6, 1.2)))
                p["xtol_rel"] = 1e-6
                if rep % 2 == 1:
                    # wavy constraint, linear objective, feasible start (the convex approximations of MMA / CCSA / SLSQP are
                    # regularly not conservative here: infeasible trial points with a much lower objective are produced)
                    p["obj"] = 6
                    p["oc"] = [0.0] * n
                    p["ineq"] = "s:4:%s:%s:0" % (hexd(1e-8), hexd(rng.uniform(0.15, 0.4)))
                    p["x0"] = [1.9, 0.3] + [0.0] * (n - 2)
                    p["maxeval"] = 400
                base.append(p)
        b1 = runcheck.run_batch(ctx, bdir, A, base, [monitors.mon_returned_point], "non-convex constraint, no stopval", replay=False)
        stage2 = []
        for p, r, ri in b1:
            if ri is None or ri.ret is None or ri.ret <= 0 or ri.optf != ri.optf or abs(ri.optf) == float("inf"):
                continue
            for d in (-0.01, -0.2, 0.01):
                q = dict(p)
                q["stopval"] = ri.optf + d * (1 + abs(ri.optf))
                stage2.append(q)
        if stage2:
            runcheck.run_batch(ctx, bdir, A, stage2, [monitors.mon_returned_point], "non-convex constraint, stopval around the reached value", replay=False)
        ctx.sample({"spec": batch[0][1].spec})
        ctx.sample({"spec": batch[-1][1].spec})
        ctx.cov["unproved"] = ["that an f2c core's own incumbent (BOBYQA/NEWUOA kopt, SLSQP, Luksan last iterate, DIRECT minpos, StoGO, AGS) is an evaluated point: observed by the monitor, not modelled"]
    return ctx.finish(level="proof", extra_cov={"rule": "a case = one nlopt_optimize run; non-trivial when it made more than one callback; distinct by spec"})
