"""C11: fixing variables by equal bounds is equivalent to removing them.

proof:          Props/Wrap.lean elim_equiv: for EVERY algorithm machine of the elimination list, every dimension and every
                non-empty subset of fixed coordinates the algorithm receives the same problem as for the hand-reduced object
                (lb, ub, xtol_abs, x_weights, dx shrunk) and indistinguishable callbacks (simulation), hence the free
                coordinates follow the same evaluation sequence; user callbacks see the fixed coordinates bit-for-bit on the
                bound; x = expand(x_reduced), equal opt_f / code / evaluation count; Props/C01.lean elimdim_fixed_exact
translator:     AlgLists.lean: the elimination list is regenerated from elimdim_wrapcheck's switch
correspondence: S-wrap replay: inner (reduced) problem dump at nlopt_optimize_ entry vs. the model's innerView; elimdim events
monitor:        pair runs (full problem with fixed coordinates | hand-reduced problem whose callbacks embed the free
                coordinates into the full point): bitwise equal free coordinates, values, x, opt_f, code, numevals;
                n up to 6 (8 thorough), every subset of fixed coordinates for small n"""
import itertools
import random

from .. import runcheck, problems, swrap, monitors
from ..common import hexd


def reduce_problem(p, fixed):
    n = p["n"]
    free = [i for i in range(n) if i not in fixed]
    q = dict(p)
    q["n"] = len(free)
    for k in ("lb", "ub", "x0", "xtol_abs", "xw", "dx"):
        if k in p and p[k] is not None:
            q[k] = [p[k][i] for i in free]
    q["full_n"] = n
    q["fix"] = ",".join("%d:%s" % (i, hexd(p["lb"][i])) for i in sorted(fixed))
    return q


def relate_factory(fixed_of):
    def relate(a, b):
        fixed, n, lbv = fixed_of[a.spec]
        free = [i for i in range(n) if i not in fixed]
        if len(a.calls) != len(b.calls):
            return "number of callbacks differs: full %d vs reduced %d" % (len(a.calls), len(b.calls))
        for k, (p, q) in enumerate(zip(a.calls, b.calls)):
            xa = p.x.split(",") if p.x not in ("", "_") else []
            xb = q.x.split(",") if q.x not in ("", "_") else []
            if (p.kind, p.g, p.val) != (q.kind, q.g, q.val):
                return "callback %d: kind/gradient flag/value differs" % (k + 1)
            if [xa[i] for i in free] != xb:
                return "callback %d: free coordinates differ from the reduced run" % (k + 1)
            for i in fixed:
                if xa[i] != lbv[i]:
                    return "callback %d: fixed coordinate %d passed as %s, bound %s" % (k + 1, i, xa[i], lbv[i])
        ra, rb = runcheck.result_of(a), runcheck.result_of(b)
        if (ra[0], ra[2], ra[3]) != (rb[0], rb[2], rb[3]):
            return "result differs: full (ret,optf,numevals)=%s reduced %s" % ((ra[0], ra[2], ra[3]), (rb[0], rb[2], rb[3]))
        xa = ra[1].split(",") if ra[1] not in ("", "_", None) else []
        xb = rb[1].split(",") if rb[1] not in ("", "_", None) else []
        if [xa[i] for i in free] != xb or any(xa[i] != lbv[i] for i in fixed):
            return "returned x is not the expansion of the reduced result"
        return None
    return relate


DOCUMENTED = ["NLOPT_GN_DIRECT", "NLOPT_GN_DIRECT_L", "NLOPT_GN_DIRECT_L_RAND", "NLOPT_GN_DIRECT_NOSCAL", "NLOPT_GN_DIRECT_L_NOSCAL",
              "NLOPT_GN_DIRECT_L_RAND_NOSCAL", "NLOPT_GN_ORIG_DIRECT", "NLOPT_GN_ORIG_DIRECT_L", "NLOPT_GD_STOGO", "NLOPT_GD_STOGO_RAND",
              "NLOPT_LN_PRAXIS", "NLOPT_GN_CRS2_LM", "NLOPT_LN_COBYLA", "NLOPT_LN_NEWUOA", "NLOPT_LN_NEWUOA_BOUND", "NLOPT_LN_NELDERMEAD",
              "NLOPT_LN_SBPLX", "NLOPT_LN_BOBYQA", "NLOPT_GN_ISRES", "NLOPT_GN_ESCH", "NLOPT_GN_AGS"]


def run(ctx):
    bdir, A = runcheck.setup(ctx, ["Wrap:elim_equiv", "C01:elimdim", "C11"])
    if bdir:
        ctx.algnames = A.names
        rng = random.Random(ctx.seed * 41 + 11)
        # the algorithms the property names (Props/C11.lean pins the regenerated switch of elimdim_wrapcheck to this list; the pair
        # runs use the documented list, not the regenerated one, so that a dropped case label shows up as a failing pair)
        elim = [nm for nm in DOCUMENTED if nm in A.idx]
        pa, pb, fixed_of = [], [], {}
        maxn = 8 if ctx.thorough else 6
        for nm in elim:
            for rep in range(12 if ctx.thorough else 3):
                n = rng.choice([1, 2, 3, 4, maxn]) if nm not in ("NLOPT_GN_AGS",) else rng.choice([1, 2, 3])
                if nm in ("NLOPT_LN_NEWUOA", "NLOPT_LN_NEWUOA_BOUND", "NLOPT_LN_BOBYQA"):
                    n = max(n, 3)
                p = problems.gen_problem(rng, A, alg_name=nm, n=n, box="finite", with_constraints=(rng.random() < 0.3))
                subsets = []
                if n <= 3:
                    for r_ in range(1, n + 1):
                        subsets += list(itertools.combinations(range(n), r_))
                else:
                    subsets = [tuple(sorted(rng.sample(range(n), rng.randrange(1, n + 1)))) for _ in range(3)] + [(0,), (n - 1,), tuple(range(n))]
                for fx in subsets:
                    q = dict(p)
                    q["ub"] = list(p["ub"])
                    q["x0"] = list(p["x0"])
                    for i in fx:
                        q["ub"][i] = p["lb"][i]
                        q["x0"][i] = p["lb"][i]
                    if rng.random() < 0.5:
                        q["dx"] = [rng.choice([0.27, 0.95, 0.1, 0.5]) for _ in range(n)]
                    if rng.random() < 0.4:
                        q["xtol_abs"] = [rng.choice([0.0, 1e-3, 1e-2]) for _ in range(n)]
                        q["xtol_rel"] = 1e-3
                    if rng.random() < 0.4:
                        q["xw"] = [rng.choice([1.0, 1000.0, 1e-3, 2.0]) for _ in range(n)]
                        q["xtol_rel"] = 1e-3
                    pa.append(q)
                    pb.append(reduce_problem(q, set(fx)))
                    fixed_of[problems.to_line(q)] = (set(fx), n, [hexd(v) for v in q["lb"]])
        ba = runcheck.run_batch(ctx, bdir, A, pa, [monitors.mon_in_box], "full problems with fixed coordinates", blame_crash=False)
        bb = runcheck.run_batch(ctx, bdir, A, pb, [], "hand-reduced problems", replay=False, blame_crash=False)
        runcheck.compare_pairs(ctx, [r for _, r, _ in ba], [r for _, r, _ in bb], relate_factory(fixed_of), "pairs (full | reduced)",
                               {"cause": "fixed-coordinate problem differs from the reduced problem"})
        ctx.sample({"full": ba[0][1].spec, "reduced": bb[0][1].spec})
        ctx.cov["subsets"] = "every non-empty subset for n <= 3; sampled subsets incl. first/last/all for larger n"
    ctx.assumptions += ["the hand-reduced problem's callbacks embed the free coordinates into the full point with the fixed values (harness); the algorithm never requests gradients of vector constraints (true for the elimination list)"]
    return ctx.finish(level="proof", extra_cov={"rule": "a case = one run (each pair contributes two); distinct by spec"})
