"""C03: evaluation and time limits are honoured and the optimizer terminates.

proof:          Props/C03.lean (stop.c predicates: stop_evals_iff / mono / fires_by, maxeval_reached_sound, stop_time_mono under
                the named hypothesis SubMono, maxtime_reached_sound; nlopt_optimize_limited's override rule incl. the
                zero-budget hazard), Props/Wrap.lean wrappers_pass_result (nlopt_get_numevals is the algorithm's counter, for
                every algorithm machine), zero_dim_single_eval
correspondence: S-util stop stream (predicates on random and boundary arguments, virtual clock through the timer hook),
                S-wrap replay of every run (counter, code)
monitor:        for every algorithm incl. nested ones, maxeval = N from 1 upward and virtual maxtime: evaluations <= N +
                overshoot(family); MAXEVAL_REACHED only with >= N evaluations; MAXTIME_REACHED only when T elapsed; numevals =
                number of objective calls; termination under a watchdog; NaN/Inf objective values"""
import math
import random

from .. import runcheck, monitors, problems, swrap
from ..common import hexd, sh, build_harness, run_model, canon_nan

# evaluations an algorithm may make beyond maxeval (derived from where its driver tests the limit; calibrated, see DESIGN)
OVERSHOOT = {"default": 0}
for a in ("NLOPT_GN_DIRECT", "NLOPT_GN_DIRECT_L", "NLOPT_GN_DIRECT_L_RAND", "NLOPT_GN_DIRECT_NOSCAL", "NLOPT_GN_DIRECT_L_NOSCAL", "NLOPT_GN_DIRECT_L_RAND_NOSCAL"):
    OVERSHOOT[a] = 1                     # the first function_eval is not followed by a limit test
for a in ("NLOPT_LN_AUGLAG", "NLOPT_LD_AUGLAG", "NLOPT_LN_AUGLAG_EQ", "NLOPT_LD_AUGLAG_EQ", "NLOPT_AUGLAG", "NLOPT_AUGLAG_EQ"):
    OVERSHOOT[a] = 2                     # one evaluation after each subsidiary run (+1 when the subsidiary itself overshoots by one)
for a in ("NLOPT_LD_TNEWTON", "NLOPT_LD_TNEWTON_RESTART", "NLOPT_LD_TNEWTON_PRECOND", "NLOPT_LD_TNEWTON_PRECOND_RESTART", "NLOPT_LD_LBFGS", "NLOPT_LD_VAR1", "NLOPT_LD_VAR2"):
    OVERSHOOT[a] = 25                    # Luksan: limits tested once per iteration; a line search makes up to ~20 evaluations
OVERSHOOT["NLOPT_GN_AGS"] = 2
OVERSHOOT["NLOPT_GN_CRS2_LM"] = 0       # (was 2 before the CRS limit fix c405d08)
# one batch of samples per iteration (the property allows it): 2 per dimension and selected rectangle
BATCH = ("NLOPT_GN_ORIG_DIRECT", "NLOPT_GN_ORIG_DIRECT_L")


def allowed(ri):
    n = ri.n
    if ri.name in BATCH:
        return None
    if ri.name == "NLOPT_LN_PRAXIS":
        return 12 + 8 * n                # flin_ records the limit, the line search acts on it later
    b = OVERSHOOT.get(ri.name, 0)
    if ri.name in problems.MLSL or ri.name in problems.AUGLAG:
        # + the overshoot of the subsidiary optimizer (explicit one, or the default MMA / COBYLA)
        b += 2 + (OVERSHOOT.get(ri.local_name, 0) if ri.local_name else 0)
        if ri.local_name == "NLOPT_LN_PRAXIS":
            b += 12 + 8 * n
    return b


def mon_limits(ri):
    if ri.ret is None:
        return None
    oc = len(ri.objcalls)
    N = ri.maxeval
    if N > 0:
        b = allowed(ri)
        if b is not None and oc > N + b:
            return ({"alg": ri.name, "cause": "evaluation limit exceeded", "by": "unbounded" if oc > 3 * N + 50 else "more than the family's overshoot"},
                    "%s: maxeval=%d but %d objective evaluations (allowed overshoot %d)" % (ri.name, N, oc, b))
        if ri.ret == 5 and oc < N:
            return ({"alg": ri.name, "cause": "MAXEVAL_REACHED before maxeval evaluations", "constrained": ("ineq" in ri.sp or "eq" in ri.sp)}, "%s: MAXEVAL_REACHED after %d < %d evaluations" % (ri.name, oc, N))
    if "maxtime" in ri.sp and "clockq" in ri.sp:
        from ..common import unhex
        T, q = unhex(ri.sp["maxtime"]), unhex(ri.sp["clockq"])
        allc = len(ri.run.calls)
        if ri.ret == 6 and allc * q < T * (1 - 1e-9):
            return ({"alg": ri.name, "cause": "MAXTIME_REACHED before maxtime elapsed"}, "%s: MAXTIME_REACHED at virtual time %g < %g" % (ri.name, allc * q, T))
        b = allowed(ri)
        if q > 0 and T > 0 and b is not None and N <= 0 and oc > math.ceil(T / q) + b + 1:
            return ({"alg": ri.name, "cause": "time limit exceeded", "by": "unbounded" if oc > 3 * math.ceil(T / q) + 50 else "more than the family's overshoot"},
                    "%s: maxtime=%g elapsed after %d evaluations but %d were made" % (ri.name, T, math.ceil(T / q), oc))
    return None


def stop_stream(ctx, bdir, rng):
    exe, ok, log = build_harness("util", bdir)
    if not ok:
        ctx.broke("util harness build", log)
        return
    vals = [0.0, 1.0, -1.0, 1e-8, 0.5, 2.0, 1e300, float("inf"), float("-inf"), 5e-324, 3.0, 1e-3]
    h = lambda: hexd(rng.choice(vals)) if rng.random() > 0.05 else "7ff8000000000000"
    ops = []
    for me in (-1, 0, 1, 2, 5, 2147483647):
        for ne in (0, 1, 2, 4, 5, 6, 2147483647):
            ops.append("evals %d %d" % (me, ne))
    for _ in range(3000 if ctx.thorough else 400):
        k = rng.randrange(7)
        n = rng.choice([1, 2, 3])
        lst = lambda: ",".join(h() for _ in range(n))
        if k == 0:
            ops.append("time %s %s %s" % (h(), h(), h()))
        elif k == 1:
            ops.append("evalstime %d %d %s %s %s" % (rng.choice([0, 1, 5]), rng.choice([0, 4, 5, 9]), h(), h(), h()))
        elif k == 2:
            ops.append("forced %d" % rng.choice([0, 1, -3]))
        elif k == 3:
            ops.append("ftol %s %s %s %s" % (h(), h(), h(), h()))
        elif k == 4:
            ops.append("f %s %s %s %s %s" % (h(), h(), h(), h(), h()))
        elif k == 5:
            ops.append("x %s %s %s %s %s" % (h(), rng.choice(["-", lst()]), rng.choice(["-", lst()]), lst(), lst()))
        else:
            ops.append("dx %s %s %s %s %s" % (h(), rng.choice(["-", lst()]), rng.choice(["-", lst()]), lst(), lst()))
    # classification of doubles (nlopt_isinf / isfinite / istiny / isnan vs the bit-pattern predicates every model uses)
    edge = [0x0, 0x1, 0x000FFFFFFFFFFFFF, 0x0010000000000000, 0x0010000000000001, 0x3FF0000000000000, 0x7FEFFFFFFFFFFFFF,
            0x7FF0000000000000, 0x7FF0000000000001, 0x7FF8000000000000, 0x7FFFFFFFFFFFFFFF, 0x7FE0000000000000, 0x7FEFAE147AE147AE]
    for b in edge:
        for sgn in (0, 1 << 63):
            ops.append("cls %016x" % (b | sgn))
    for _ in range(2000 if ctx.thorough else 300):
        e = rng.choice([0, 1, 2, 1022, 1023, 1024, 2045, 2046, 2047, rng.randrange(2048)])
        ops.append("cls %016x" % ((rng.randrange(2) << 63) | (e << 52) | (rng.getrandbits(52) if rng.random() < 0.8 else rng.choice([0, 1, (1 << 52) - 1]))))
    # nlopt_optimize_limited: the limits in force during the nested call and the limits restored afterwards
    for sme in (0, -1, 1, 7, 100):
        for me in (0, -3, 1, 5, 7, 8, 1000):
            for smt in (0.0, -1.0, 2.5, 1e9):
                for mt in (0.0, -2.0, 1.0, 2.5, 3.0, 1e12):
                    ops.append("limited %d %d %s %s" % (sme, me, hexd(smt), hexd(mt)))
    text = "\n".join(ops) + "\n"
    rc, out = sh([exe, "stop"], input=text.encode())
    impl = out.split("\n")
    try:
        model = run_model("stop", text)
    except Exception as e:
        ctx.broke("stop model driver", repr(e))
        return
    bad = 0
    for i, op in enumerate(ops):
        if (impl[i] if i < len(impl) else "?") != (model[i] if i < len(model) else "?"):
            bad += 1
            if bad == 1:
                ctx.broke("correspondence stop (model vs stop.c)", "%s: impl=%s model=%s" % (op, impl[i] if i < len(impl) else "?", model[i] if i < len(model) else "?"))
    ctx.corr["stop predicates"] = {"ops": len(ops), "disagreements": bad}


def run(ctx):
    bdir, A = runcheck.setup(ctx, ["C03", "F64Class", "Wrap:wrappers_pass|zero_dim"] + runcheck.drv("budget|maxeval|runs_forever|^t1_|^T1$|nevals_eq_costs"))
    if bdir:
        rng = random.Random(ctx.seed * 61 + 3)
        stop_stream(ctx, bdir, rng)
        ps = []
        reps = 6 if ctx.thorough else 1
        for nm in problems.ALL:
            for N in ([1, 2, 3, 5, 8, 13, 21, 40, 100] if not ctx.thorough else list(range(1, 41)) + [100, 1000]):
                for _ in range(reps):
                    p = problems.gen_problem(rng, A, alg_name=nm, maxeval=N)
                    p.pop("maxtime", None)
                    p.pop("clockq", None)
                    p.pop("clock0", None)
                    p["obj"] = rng.choice([0, 1, 2, 3, 4, 5])
                    if nm == "NLOPT_LD_CCSAQ" and rng.random() < 0.4:
                        p["pre"] = 1
                    if rng.random() < 0.15:
                        p["inj"] = "%d:%s" % (rng.randrange(1, N + 2), rng.choice(["7ff8000000000000", "7ff0000000000000", "fff0000000000000", hexd(1e300)]))
                    ps.append(p)
            for _ in range(2 * reps):
                p = problems.gen_problem(rng, A, alg_name=nm, maxeval=0)
                p["maxtime"] = rng.choice([0.5, 3.0, 10.0])
                p["clockq"] = rng.choice([0.1, 1.0])
                if rng.random() < 0.5:
                    p["clock0"] = rng.choice([8.0, 1024.0])
                p.pop("stopval", None)
                p["ftol_rel"] = 0.0
                p.pop("xtol_rel", None)
                ps.append(p)
        # budget sweep: every N from 1 up on one problem per algorithm (the evaluation that exhausts the budget may be an accepted
        # trial, a new best point, the last point of a population, the final extra step ... each has its own limit test)
        for nm in problems.ALL:
            base = problems.gen_problem(rng, A, alg_name=nm, with_constraints=False, box="finite", maxeval=1)
            for k in ("maxtime", "clockq", "clock0", "stopval", "ftol_rel", "xtol_rel", "xtol_abs", "inj"):
                base.pop(k, None)
            base["obj"] = rng.choice([1, 3])
            pop_alg = nm in ("NLOPT_GN_CRS2_LM", "NLOPT_GN_ISRES", "NLOPT_GN_ESCH") or nm in problems.MLSL
            top = (400 if pop_alg else 150) if ctx.thorough else (220 if pop_alg else 70)
            for N in range(1, top + 1):
                q = dict(base)
                q["maxeval"] = N
                ps.append(q)
        # the nested optimizers of MMA / CCSAQ (the dual solve) and of AUGLAG / MLSL (the local searches) with limits of their OWN
        # (algorithm parameters dual_maxeval / inner_maxeval, a maxeval on the local optimizer): a limit reached inside must not be
        # reported as the outer limit, and the outer limit must still hold
        for nm in ("NLOPT_LD_MMA", "NLOPT_LD_CCSAQ"):
            for rep in range(40 if ctx.thorough else 12):
                n = rng.choice([2, 3])
                p = problems.gen_problem(rng, A, alg_name=nm, n=n, with_constraints=False, box="finite", maxeval=rng.choice([10, 25, 60]), allow_max=(rep % 4 == 3))
                for k in ("maxtime", "clockq", "clock0", "stopval", "ftol_rel", "xtol_rel", "xtol_abs", "inj", "xw"):
                    p.pop(k, None)
                p["lb"], p["ub"] = [-3.0] * n, [3.0] * n
                p["x0"] = [rng.uniform(-0.3, 0.3) for _ in range(n)]
                p["obj"] = 0
                d = [rng.gauss(0, 1) for _ in range(n)]
                nd = sum(t * t for t in d) ** 0.5 or 1.0
                p["oc"] = [rng.uniform(1.8, 2.6) * t / nd for t in d]
                p["ineq"] = "s:1:%s:%s:0;s:0:%s:%s:1" % (hexd(0.0), hexd(rng.uniform(0.5, 1.5)), hexd(1e-8), hexd(rng.uniform(2.0, 4.0)))
                pars = []
                if rep % 3 != 2:
                    pars.append("dual_maxeval:%s" % hexd(float(rng.choice([1, 2, 4, 10]))))
                if rep % 3 != 0:
                    pars.append("inner_maxeval:%s" % hexd(float(rng.choice([1, 2, 5]))))
                p["params"] = ",".join(pars)
                ps.append(p)
        for nm in list(problems.MLSL) + ["NLOPT_AUGLAG", "NLOPT_AUGLAG_EQ", "NLOPT_LN_AUGLAG", "NLOPT_LD_AUGLAG"]:
            for rep in range(12 if ctx.thorough else 4):
                p = problems.gen_problem(rng, A, alg_name=nm, with_constraints=("AUGLAG" in nm), box="finite", maxeval=rng.choice([30, 80, 200]))
                for k in ("maxtime", "clockq", "clock0", "inj"):
                    p.pop(k, None)
                if "local" in p:
                    f = str(p["local"]).split(":")
                    if len(f) >= 2:
                        f[1] = str(rng.choice([3, 7, 15]))
                        p["local"] = ":".join(f)
                ps.append(p)
        # non-finite objective values INSIDE the budget, for every algorithm: one, and a short burst of consecutive ones (NaN, +Inf, -Inf)
        # early in the run; the evaluation counter and the limit test must not depend on the value the objective returned
        for nm in problems.ALL:
            for rep in range(6 if ctx.thorough else 3):
                N = rng.choice([6, 12, 30])
                p = problems.gen_problem(rng, A, alg_name=nm, maxeval=N, box="finite")
                for k in ("maxtime", "clockq", "clock0", "stopval", "inj"):
                    p.pop(k, None)
                k0 = rng.randrange(1, min(N, 6) + 1)
                burst = 1 if rep == 0 else rng.choice([1, 2, 3])
                v = rng.choice(["7ff8000000000000", "7ff0000000000000", "fff0000000000000"]) if rep else "7ff8000000000000"
                p["inj"] = ",".join("%d:%s" % (k0 + j, v) for j in range(burst))
                ps.append(p)
        # converged runs (no small budget): paths that only exist near convergence — PRAXIS's random step out of a stalled iteration,
        # final extra steps, restarts — have their own evaluation sites, each of which must count and test the limits
        for nm in problems.ALL:
            if nm in problems.GLOBAL:
                continue
            for rep in range(6 if ctx.thorough else 2):
                p = problems.gen_problem(rng, A, alg_name=nm, with_constraints=False, box="finite", maxeval=(rng.choice([1500, 3000]) if ctx.thorough else 800), n=rng.choice([2, 3]))
                for k in ("maxtime", "clockq", "clock0", "stopval", "inj", "xtol_abs", "xw"):
                    p.pop(k, None)
                p["obj"] = [0, 1, 3][rep % 3]
                p["xtol_rel"] = 1e-6
                p["ftol_rel"] = 0.0
                ps.append(p)
        import os
        env = dict(os.environ)
        env["HRUN_TIMEOUT"] = "10"
        batch = runcheck.run_batch(ctx, bdir, A, ps, [mon_limits, monitors.mon_counts], "limits, all algorithms", env=env)
        # history: an ordinary run, then every coordinate fixed at the result and a second run on the SAME object:
        # the counter must be exactly the evaluations of the second run (one, for the algorithms that eliminate fixed coordinates)
        hs = []
        for nm in problems.ALL:
            for _ in range(4 if ctx.thorough else 1):
                p = problems.gen_problem(rng, A, alg_name=nm, maxeval=rng.choice([5, 20, 40]), with_constraints=False, box="finite")
                for k in ("maxtime", "clockq", "clock0", "stopval"):
                    p.pop(k, None)
                p["runs"] = 2
                p["reseed"] = 1
                p["fixall2"] = 1
                hs.append(p)
        hruns, _ = swrap.run_specs(bdir, [problems.to_line(p) for p in hs], env=env)
        nh = 0
        for r in hruns:
            if r.status != "ok" or r.R is None or "ret" not in r.R:
                continue
            ri = monitors.RunInfo(r, A)
            nh += 1
            ctx.case(r.spec + "#%d" % getattr(r, "part", 1))
            v = monitors.mon_counts(ri)
            if v:
                v[0]["history"] = "second run after all coordinates were fixed" if getattr(r, "part", 1) == 2 else "first run"
                ctx.violation(v[0], v[1] + " (run %d of the history)" % getattr(r, "part", 1), {"stream": "run", "spec": r.spec})
        ctx.corr["history: run, fix all coordinates, run again"] = {"runs": nh}
        worst = {}
        for p, r, ri in batch:
            if ri is not None and ri.maxeval > 0:
                worst[ri.name] = max(worst.get(ri.name, 0), len(ri.objcalls) - ri.maxeval)
        ctx.cov["max_overshoot_seen"] = worst
        ctx.sample({"spec": batch[0][1].spec})
        ctx.sample({"spec": batch[-1][1].spec})
        ctx.cov["unproved"] = ["evaluation-free stretches inside f2c / third-party cores (termination is observed by the watchdog, not proved)",
                               "per-family overshoot constants are derived from the position of the limit tests in each driver and calibrated on runs; they are not theorems"]
    ctx.assumptions += ["time is the virtual clock of the timer hook, advanced by the objective", "the named hypothesis SubMono (monotone rounded subtraction) in stop_time_mono"]
    return ctx.finish(level="proof", extra_cov={"rule": "a case = one run with a limit; distinct by spec"})
