"""C06: constrained runs return the best feasible point they evaluated.

proof:          Props/C06.lean over Model/Slsqp.lean (the NLopt-authored "update best point so far" rule of nlopt_slsqp as a fold
                over ANY sequence of evaluated points): with equal tolerances (hypothesis Separated) the returned point is
                feasible as soon as a feasible point was evaluated, is an evaluated point with its value, and no feasible
                evaluated point is better (slsqp_best_feasible_partial); the full statement is FALSE of the rule for unequal
                tolerances (slsqp_best_feasible_full_false, decide witness); feasible-only rules (DIRECT/ISRES style):
                feasOnly_best
correspondence: S-wrap replay of every constrained run (constraints pass the wrapper stack unchanged)
monitor:        per evaluated point feasibility (registered tolerance; zero for the original DIRECT) and objective versus the
                returned (x, opt_f); STOPVAL_REACHED only for a feasible point (SLSQP, ISRES, DIRECT, COBYLA)"""
import random

from .. import runcheck, monitors, problems
from ..common import unhex, hexd

ALGS = ["NLOPT_LD_SLSQP", "NLOPT_GN_ISRES", "NLOPT_GN_ORIG_DIRECT", "NLOPT_GN_ORIG_DIRECT_L"]
STOPVAL_ALGS = ALGS + ["NLOPT_LN_COBYLA"]


def tolerances(spec_item_list):
    """returns list per constraint of tolerance lists"""
    out = []
    for it in spec_item_list.split(";"):
        f = it.split(":")
        if f[0] == "s":
            out.append([unhex(f[2])])
        else:
            m = int(f[1])
            out.append([unhex(t) for t in f[3].split(",")] if f[3] not in ("-", "_") else [0.0] * m)
    return out


def mon_feasible(ri):
    if ri.ret is None or ri.name not in STOPVAL_ALGS or ("ineq" not in ri.sp and "eq" not in ri.sp):
        return None
    if not (ri.ret in monitors.SUCCESS_CODES or ri.ret == monitors.ROUNDOFF):
        return None
    zero_tol = ri.name.startswith("NLOPT_GN_ORIG_DIRECT")
    itol = tolerances(ri.sp["ineq"]) if "ineq" in ri.sp else []
    etol = tolerances(ri.sp["eq"]) if "eq" in ri.sp else []
    ncons = len(itol) + len(etol)
    pts = {}
    order = []
    for c in ri.run.calls:
        e = pts.setdefault(c.x, {"f": None, "c": {}})
        if c.kind == "f":
            e["f"] = unhex(c.val)
            order.append(c.x)
        else:
            vals = [unhex(v) for v in c.val.split(",")]
            e["c"][(c.role, c.i)] = vals

    def feasible(e):
        if len(e["c"]) < ncons:
            return None if not any(bad(k, v) for k, v in e["c"].items()) else False
        return not any(bad(k, v) for k, v in e["c"].items())

    def bad(k, vals):
        role, i = k
        tols = (itol if role == 1 else etol)[i]
        for v, t in zip(vals, tols):
            t = 0.0 if zero_tol else t
            if v != v:
                return True
            if role == 1 and v > t:
                return True
            if role == 2 and abs(v) > t:
                return True
        return False

    feas = [(x, pts[x]["f"]) for x in order if pts[x]["f"] is not None and pts[x]["f"] == pts[x]["f"] and feasible(pts[x]) is True]
    key = ",".join(ri.xbits)
    ret_e = pts.get(key)
    if ri.ret == 2:
        if ret_e is None or feasible(ret_e) is not True:
            return ({"alg": ri.name, "cause": "STOPVAL_REACHED for a point that is not feasible"},
                    "%s: STOPVAL_REACHED with opt_f=%r at a point that is not feasible within tolerance" % (ri.name, ri.optf))
    if ri.name not in ALGS or not feas:
        return None
    if ret_e is None or feasible(ret_e) is not True:
        return ({"alg": ri.name, "cause": "infeasible point returned although a feasible one was evaluated"},
                "%s: %d feasible points were evaluated but the returned x is not feasible within tolerance (ret=%d)" % (ri.name, len(feas), ri.ret))
    best = max(f for _, f in feas) if ri.maximize else min(f for _, f in feas)
    better = best > ri.optf if ri.maximize else best < ri.optf
    if better:
        return ({"alg": ri.name, "cause": "a feasible evaluated point is better than the returned one"},
                "%s: opt_f=%r but a feasible evaluated point has %r (ret=%d)" % (ri.name, ri.optf, best, ri.ret))
    return None


def run(ctx):
    bdir, A = runcheck.setup(ctx, ["C06"])
    if bdir:
        rng = random.Random(ctx.seed * 71 + 6)
        ps = []
        for nm in STOPVAL_ALGS:
            for _ in range(60 if ctx.thorough else 14):
                p = problems.gen_problem(rng, A, alg_name=nm, with_constraints=False, box="finite", maxeval=rng.choice([20, 60, 150]))
                n = p["n"]
                items, j = [], 0
                for _ in range(rng.choice([1, 2, 3])):
                    tol = rng.choice([0.0, 1e-8, 1e-2])
                    if rng.random() < 0.5:
                        m = rng.choice([1, 2, 3])
                        items.append("v:%d:%d:%s:%s:%d" % (m, rng.choice([0, 1, 2]), problems.hl([rng.choice([0.0, 1e-8, 1e-2]) for _ in range(m)]), hexd(rng.uniform(0.2, 4.0)), j))
                        j += m
                    else:
                        items.append("s:%d:%s:%s:%d" % (rng.choice([0, 1, 2]), hexd(tol), hexd(rng.uniform(0.2, 4.0)), j))
                        j += 1
                p["ineq"] = ";".join(items)
                if nm in ("NLOPT_LD_SLSQP", "NLOPT_LN_COBYLA") and rng.random() < 0.3:   # ISRES: the property covers inequality constraints only
                    p["eq"] = "s:0:%s:%s:%d" % (hexd(rng.choice([0.0, 1e-6, 1e-2])), hexd(rng.uniform(-0.5, 0.5)), 9)
                if rng.random() < 0.4:
                    p["stopval"] = rng.choice([0.5, 2.0, 10.0]) * (-1 if p.get("max") else 1)
                ps.append(p)
        batch = runcheck.run_batch(ctx, bdir, A, ps, [mon_feasible], "constrained runs")
        nfe = sum(1 for _, r, ri in batch if ri is not None and ri.ret is not None and ri.ret > 0)
        ctx.cov["successful_constrained_runs"] = nfe
        ctx.sample({"spec": batch[0][1].spec})
        ctx.cov["unproved"] = ["ISRES's penalty ranking and DIRECT's flag bookkeeping are monitor-only (only the feasible-only comparison rule is a theorem)",
                               "the unequal-tolerance counterexample of the SLSQP rule is a model-level witness (decide); the monitor reports it when the real SLSQP produces such a sequence"]
    ctx.assumptions += ["feasibility of an evaluated point is judged from the constraint callbacks made at bit-identical x; points whose constraints were not all evaluated (DIRECT stops at the first violated one) count as infeasible when a violation was seen, unknown otherwise"]
    return ctx.finish(level="proof", extra_cov={"rule": "a case = one constrained run; distinct by spec"})
