"""C06: constrained runs return the best feasible point they evaluated.

proof:          Props/C06.lean over Model/Slsqp.lean (the NLopt-authored "update best point so far" rule of nlopt_slsqp as a fold
                over ANY sequence of evaluated points): with equal tolerances (hypothesis Separated) the returned point is
                feasible as soon as a feasible point was evaluated, is an evaluated point with its value, and no feasible
                evaluated point is better (slsqp_best_feasible_partial); the full statement is FALSE of the rule for unequal
                tolerances (slsqp_best_feasible_full_false, decide witness); feasible-only rules (DIRECT/ISRES style):
                feasOnly_best
correspondence: S-wrap replay of every constrained run (constraints pass the wrapper stack unchanged)
monitor:        per evaluated point feasibility (registered tolerance; zero for the original DIRECT) and objective versus the
                returned (x, opt_f); STOPVAL_REACHED only for a feasible point (SLSQP, ISRES, DIRECT, COBYLA)"""
import random

from .. import runcheck, monitors, problems
from ..common import unhex, hexd, run_model, build_harness, sh

ALGS = ["NLOPT_LD_SLSQP", "NLOPT_GN_ISRES", "NLOPT_GN_ORIG_DIRECT", "NLOPT_GN_ORIG_DIRECT_L"]
STOPVAL_ALGS = ALGS + ["NLOPT_LN_COBYLA"]


def tolerances(spec_item_list):
    """returns list per constraint of tolerance lists"""
    out = []
    for it in spec_item_list.split(";"):
        f = it.split(":")
        if f[0] == "s":
            out.append([unhex(f[2])])
        else:
            m = int(f[1])
            out.append([unhex(t) for t in f[3].split(",")] if f[3] not in ("-", "_") else [0.0] * m)
    return out


def cvals(item, x):
    """harness/run.c cval for the constraint kinds whose arithmetic Python reproduces exactly (sums of products, left to right)"""
    f = item.split(":")
    if f[0] == "s":
        m, ck, b0, j0 = 1, int(f[1]), unhex(f[3]), int(f[4])
    else:
        m, ck, b0, j0 = int(f[1]), int(f[2]), unhex(f[4]), int(f[5])
    n, out = len(x), []
    for jj in range(m):
        b, j = (b0 + 0.1 * jj) if f[0] == "v" else b0, j0 + jj
        if ck == 0:
            v = 0.0
            for i in range(n):
                v += (float(((i + j) % 3) - 1) + 0.5) * x[i]
            out.append(v - b)
        elif ck in (1, 3):
            v = 0.0
            for i in range(n):
                t = x[i] - 0.1 * j
                v += t * t
            out.append(v - b if ck == 1 else b - v)
        elif ck == 2:
            out.append(x[j % n] - b)
        else:
            return None
    return out


def mon_feasible(ri):
    if ri.ret is None or ri.name not in STOPVAL_ALGS or ("ineq" not in ri.sp and "eq" not in ri.sp):
        return None
    if not (ri.ret in monitors.SUCCESS_CODES or ri.ret == monitors.ROUNDOFF or (ri.ret == -5 and "stopat" in ri.sp)):
        return None
    zero_tol = ri.name.startswith("NLOPT_GN_ORIG_DIRECT")
    itol = tolerances(ri.sp["ineq"]) if "ineq" in ri.sp else []
    etol = tolerances(ri.sp["eq"]) if "eq" in ri.sp else []
    ncons = len(itol) + len(etol)
    pts = {}
    order = []
    stopat = int(ri.sp["stopat"]) if "stopat" in ri.sp else None
    for idx, c in enumerate(ri.run.calls):
        e = pts.setdefault(c.x, {"f": None, "c": {}})
        if stopat is not None and idx + 1 >= stopat:
            # the evaluation during which the stop is raised is interrupted: the library may discard it (the original DIRECT marks
            # it invalid, ISRES returns before ranking it), so it is not one of the points the result is measured against
            e["cut"] = True
        if c.kind == "f":
            e["f"] = unhex(c.val)
            order.append(c.x)
        else:
            vals = [unhex(v) for v in c.val.split(",")]
            e["c"][(c.role, c.i)] = vals

    def feasible(e):
        if len(e["c"]) < ncons:
            return None if not any(bad(k, v) for k, v in e["c"].items()) else False
        return not any(bad(k, v) for k, v in e["c"].items())

    def bad(k, vals):
        role, i = k
        tols = (itol if role == 1 else etol)[i]
        for v, t in zip(vals, tols):
            t = 0.0 if zero_tol else t
            if v != v:
                return True
            if role == 1 and v > t:
                return True
            if role == 2 and abs(v) > t:
                return True
        return False

    feas = [(x, pts[x]["f"]) for x in order if pts[x]["f"] is not None and pts[x]["f"] == pts[x]["f"] and feasible(pts[x]) is True
            and not pts[x].get("cut")]
    key = ",".join(ri.xbits)
    ret_e = pts.get(key)
    if ret_e is not None and ret_e.get("cut") and feasible(ret_e) is None:
        # the interrupted point came back: its remaining constraints are computed here with the harness's formulas
        ret_e = dict(ret_e, c=dict(ret_e["c"]))
        xs = [unhex(h) for h in ri.xbits]
        for role, spec in ((1, ri.sp.get("ineq")), (2, ri.sp.get("eq"))):
            for i, it in enumerate(spec.split(";") if spec else []):
                if (role, i) not in ret_e["c"]:
                    vals = cvals(it, xs)
                    if vals is not None:
                        ret_e["c"][(role, i)] = vals
    if ri.ret == 2:
        if ret_e is None or feasible(ret_e) is not True:
            return ({"alg": ri.name, "cause": "STOPVAL_REACHED for a point that is not feasible"},
                    "%s: STOPVAL_REACHED with opt_f=%r at a point that is not feasible within tolerance" % (ri.name, ri.optf))
    if ri.name not in ALGS or not feas:
        return None
    if ret_e is None or feasible(ret_e) is not True:
        return ({"alg": ri.name, "cause": "infeasible point returned although a feasible one was evaluated"},
                "%s: %d feasible points were evaluated but the returned x is not feasible within tolerance (ret=%d)" % (ri.name, len(feas), ri.ret))
    best = max(f for _, f in feas) if ri.maximize else min(f for _, f in feas)
    better = best > ri.optf if ri.maximize else best < ri.optf
    if better:
        return ({"alg": ri.name, "cause": "a feasible evaluated point is better than the returned one"},
                "%s: opt_f=%r but a feasible evaluated point has %r (ret=%d)" % (ri.name, ri.optf, best, ri.ret))
    return None


def incumbent_events(ri):
    """the sequence of evaluated points as the incumbent rules of slsqp.c / isres.c see it (algorithm-level sign)"""
    itol = tolerances(ri.sp["ineq"]) if "ineq" in ri.sp else []
    etol = tolerances(ri.sp["eq"]) if "eq" in ri.sp else []
    evs, cur = [], None
    for c in ri.run.calls:
        if c.kind == "f":
            v = unhex(c.val)
            cur = {"f": -v if ri.maximize else v, "x": c.x, "ineq": {}, "eq": {}}
            evs.append(cur)
        elif cur is not None and c.x == cur["x"]:
            cur["ineq" if c.role == 1 else "eq"][c.i] = [unhex(t) for t in c.val.split(",")]
    isres = ri.name == "NLOPT_GN_ISRES"
    lines = []
    for e in evs:
        f = e["f"]
        if isres:
            feas, pen = 1, 0.0
            for i, tols in enumerate(itol):
                for g, t in zip(e["ineq"].get(i, []), tols):
                    if g > t:
                        feas = 0
                    if g < 0:
                        g = 0.0
                    pen += g * g
            gpen = pen
            for i, tols in enumerate(etol):
                for h, t in zip(e["eq"].get(i, []), tols):
                    if abs(h) > t:
                        feas = 0
                    pen += h * h
            lines.append("i %s %d %s %s" % (hexd(f), feas, hexd(pen), hexd(gpen)))
        else:
            feas, inf = 1, 0.0
            if f == f and abs(f) != float("inf"):
                for i, tols in enumerate(etol):
                    for h, t in zip(e["eq"].get(i, []), tols):
                        inf = inf if inf > abs(h) else abs(h)
                        feas = 1 if (feas and abs(h) <= t) else 0
                for i, tols in enumerate(itol):
                    for g, t in zip(e["ineq"].get(i, []), tols):
                        inf = inf if inf > g else g
                        feas = 1 if (feas and g <= t) else 0
            lines.append("s %s %d %s" % (hexd(f), feas, hexd(inf)))
    return evs, lines


def incumbent_correspondence(ctx, batch):
    """replays the evaluated points of every SLSQP / ISRES run through the Lean incumbent rules (Model/Slsqp.lean, Model/Isres.lean)
    and compares the model's incumbent with the returned (x, opt_f)"""
    text, todo = [], []
    for p, r, ri in batch:
        if ri is None or ri.ret is None or ri.name not in ("NLOPT_LD_SLSQP", "NLOPT_GN_ISRES") or "stopat" in ri.sp or "inj" in ri.sp:
            continue
        if ri.ret in (-1, -2, -3, -5):
            continue
        evs, lines = incumbent_events(ri)
        if not evs:
            continue
        text += ["reset"] + lines + ["end i" if ri.name == "NLOPT_GN_ISRES" else "end s"]
        todo.append((r, ri, evs))
    if not todo:
        return
    out = [l for l in run_model("inc", "\n".join(text) + "\n") if l.strip()]
    n = bad = fallback = 0
    if len(out) != len(todo):
        ctx.broke("correspondence incumbent rules: model driver output", "%d lines for %d runs" % (len(out), len(todo)))
        return
    for (r, ri, evs), l in zip(todo, out):
        minf_h, pt, _ = l.split(" ")
        minf = unhex(minf_h)
        if pt == "-" or abs(minf) == float("inf"):
            fallback += 1          # nothing accepted: slsqp.c returns the last / previous point (not part of the modelled rule)
            continue
        n += 1
        got_f = -ri.optf if ri.maximize else ri.optf
        want_x = evs[int(pt)]["x"]
        ok = (hexd(got_f) == minf_h or (got_f != got_f and minf != minf)) and ",".join(ri.xbits) == want_x
        if not ok:
            bad += 1
            if bad == 1:
                ctx.broke("correspondence incumbent rule (%s): model vs implementation" % ri.name,
                          "model incumbent: evaluation #%d f=%r; returned opt_f=%r x=%s\n spec: %s" % (int(pt) + 1, minf, got_f, ",".join(ri.xbits), r.spec))
                ctx.cov.setdefault("first_incumbent_disagreement", {"spec": r.spec, "model": l})
    ctx.corr["incumbent rules (SLSQP, ISRES)"] = {"runs_replayed": n, "disagreements": bad, "nothing_accepted_fallback_not_modelled": fallback}


def run(ctx):
    bdir, A = runcheck.setup(ctx, ["C06", "C06Isres", "DrvIsres:best_feasible|no_better_feasible|isres_minf_le|agrees_with|stopval"])
    if bdir:
        rng = random.Random(ctx.seed * 71 + 6)
        ps = []
        for nm in STOPVAL_ALGS:
            for _ in range(60 if ctx.thorough else 14):
                p = problems.gen_problem(rng, A, alg_name=nm, with_constraints=False, box="finite", maxeval=rng.choice([20, 60, 150]))
                n = p["n"]
                items, j = [], 0
                for _ in range(rng.choice([1, 2, 3])):
                    tol = rng.choice([0.0, 1e-8, 1e-2])
                    if rng.random() < 0.5:
                        m = rng.choice([1, 2, 3])
                        items.append("v:%d:%d:%s:%s:%d" % (m, rng.choice([0, 1, 2]), problems.hl([rng.choice([0.0, 1e-8, 1e-2]) for _ in range(m)]), hexd(rng.uniform(0.2, 4.0)), j))
                        j += m
                    else:
                        items.append("s:%d:%s:%s:%d" % (rng.choice([0, 1, 2]), hexd(tol), hexd(rng.uniform(0.2, 4.0)), j))
                        j += 1
                p["ineq"] = ";".join(items)
                if nm in ("NLOPT_LD_SLSQP", "NLOPT_LN_COBYLA") and rng.random() < 0.3:   # ISRES: the property covers inequality constraints only
                    p["eq"] = "s:0:%s:%s:%d" % (hexd(rng.choice([0.0, 1e-6, 1e-2])), hexd(rng.uniform(-0.5, 0.5)), 9)
                if rng.random() < 0.4:
                    p["stopval"] = rng.choice([0.5, 2.0, 10.0]) * (-1 if p.get("max") else 1)
                ps.append(p)
        # constraints that are ACTIVE at the optimum, with unequal per-component tolerances (loose first / loose last) and nonzero
        # scalar tolerances: the incumbent rules only matter when points inside the tolerance band are produced
        for nm in STOPVAL_ALGS:
            for _ in range(80 if ctx.thorough else 16):
                n = rng.choice([2, 2, 3])
                p = problems.gen_problem(rng, A, alg_name=nm, n=n, with_constraints=False, box="finite", maxeval=rng.choice([60, 150, 400]), allow_max=False)
                for k in ("stopval", "ftol_rel", "xtol_rel", "xtol_abs", "xw", "maxtime", "clockq"):
                    p.pop(k, None)
                p["lb"], p["ub"] = [-3.0] * n, [3.0] * n
                p["x0"] = [rng.uniform(-0.3, 0.3) for _ in range(n)]
                p["obj"] = 0
                d = [rng.gauss(0, 1) for _ in range(n)]
                nd = sum(t * t for t in d) ** 0.5 or 1.0
                r = rng.uniform(2.0, 2.8)
                p["oc"] = [r * t / nd for t in d]
                loose, tight = rng.choice([1e-2, 5e-2, 0.1]), rng.choice([0.0, 1e-8, 1e-6])
                if rng.random() < 0.7:
                    m = rng.choice([2, 3])
                    tols = [tight] * m
                    tols[rng.choice([0, 0, m - 1])] = loose
                    ck = rng.choice([1, 1, 0])
                    p["ineq"] = "v:%d:%d:%s:%s:%d" % (m, ck, problems.hl(tols), hexd(rng.uniform(0.5, 1.5)), 0)
                else:
                    p["ineq"] = "s:1:%s:%s:0;s:0:%s:%s:1" % (hexd(loose), hexd(rng.uniform(0.5, 1.5)), hexd(tight), hexd(rng.uniform(0.3, 1.0)))
                ps.append(p)
        # population methods need several generations before the incumbent rule (replace only by a better feasible point) is
        # exercised by points inside the tolerance band
        for nm in ("NLOPT_GN_ISRES",):
            for _ in range(40 if ctx.thorough else 10):
                n = 2
                p = problems.gen_problem(rng, A, alg_name=nm, n=n, with_constraints=False, box="finite", maxeval=rng.choice([1000, 2000]), allow_max=False)
                for k in ("stopval", "ftol_rel", "xtol_rel", "xtol_abs", "xw", "maxtime", "clockq", "pop"):
                    p.pop(k, None)
                p["lb"], p["ub"] = [-2.0] * n, [2.0] * n
                p["x0"] = [0.0] * n
                p["obj"] = 0
                ang = rng.uniform(0, 6.28)
                import math
                p["oc"] = [2.5 * math.cos(ang), 2.5 * math.sin(ang)]
                p["ineq"] = "s:1:%s:%s:0" % (hexd(rng.choice([0.05, 0.1, 0.2])), hexd(1.0))
                p["quietx"] = 0
                ps.append(p)
        # stopval that every objective value meets: the run ends at the first evaluated point the algorithm judges feasible, so the
        # verdict on a point inside the band of a loose tolerance but outside a tight one decides the result; starts are placed in
        # such bands (component order loose-first and loose-last, scalar and vector constraints)
        for nm in STOPVAL_ALGS:
            for _ in range(80 if ctx.thorough else 20):
                n = 3
                p = problems.gen_problem(rng, A, alg_name=nm, n=n, with_constraints=False, box="finite", maxeval=rng.choice([40, 100]), allow_max=False)
                for k in ("stopval", "ftol_rel", "xtol_rel", "xtol_abs", "xw", "maxtime", "clockq"):
                    p.pop(k, None)
                p["lb"], p["ub"] = [-3.0] * n, [3.0] * n
                p["obj"] = 0
                b = rng.uniform(0.3, 1.0)
                loose, tight = rng.choice([1e-2, 5e-2, 0.1]), rng.choice([0.0, 1e-8, 1e-4])
                m = rng.choice([2, 3])
                tols = [tight] * m
                for k in rng.sample(range(m), rng.choice([1, m - 1])):
                    tols[k] = loose
                # component j: x[j] - (b + 0.1 j) <= 0; offsets inside the loose band, some below the tight tolerance, some not
                offs = [rng.choice([0.0, -0.2, rng.uniform(0.2, 0.9) * loose, rng.uniform(0.05, 0.2) * loose]) for _ in range(m)]
                if rng.random() < 0.5:      # the largest violation is a tolerated one, a smaller one is not tolerated
                    offs = [rng.uniform(0.5, 0.9) * loose if tols[j] == loose else rng.uniform(0.05, 0.4) * loose for j in range(m)]
                p["x0"] = [(b + 0.1 * j + offs[j]) if j < m else rng.uniform(-0.3, 0.3) for j in range(n)]
                p["oc"] = [b + 0.1 * j + rng.uniform(0.5, 1.5) for j in range(n)]
                if nm in ("NLOPT_LD_SLSQP", "NLOPT_LN_COBYLA") and rng.random() < 0.4:
                    offs = [o if (o <= 0 or rng.random() < 0.5) else -o for o in offs]
                    p["x0"] = [(b + 0.1 * j + offs[j]) if j < m else p["x0"][j] for j in range(n)]
                    p["eq"] = "v:%d:2:%s:%s:0" % (m, problems.hl(tols), hexd(b))
                elif rng.random() < 0.5:
                    p["ineq"] = "v:%d:2:%s:%s:0" % (m, problems.hl(tols), hexd(b))
                else:
                    p["ineq"] = ";".join("s:2:%s:%s:%d" % (hexd(tols[j]), hexd(b + 0.1 * j), j) for j in range(m))
                p["stopval"] = 1e6
                ps.append(p)
        # the objective signals a domain error (+Inf) at some trial points while the incumbent is still infeasible and already below
        # stopval: the stopval test must look at the feasibility of the INCUMBENT, not of the point just evaluated
        for nm in STOPVAL_ALGS:
            for _ in range(60 if ctx.thorough else 16):
                n = rng.choice([2, 3])
                p = problems.gen_problem(rng, A, alg_name=nm, n=n, with_constraints=False, box="finite", maxeval=rng.choice([40, 100]), allow_max=False)
                for k in ("stopval", "ftol_rel", "xtol_rel", "xtol_abs", "xw", "maxtime", "clockq"):
                    p.pop(k, None)
                p["lb"], p["ub"] = [-3.0] * n, [3.0] * n
                p["obj"] = 0
                d = [rng.gauss(0, 1) for _ in range(n)]
                nd = sum(t * t for t in d) ** 0.5 or 1.0
                p["oc"] = [2.5 * t / nd for t in d]            # unconstrained optimum outside the feasible ball
                r = rng.uniform(0.5, 1.0)
                p["ineq"] = "s:1:%s:%s:0" % (hexd(rng.choice([0.0, 1e-8])), hexd(r * r))
                p["x0"] = [1.6 * t / nd for t in d]            # infeasible start, closer to the unconstrained optimum than any feasible point
                dist = 2.5 - r                                 # distance of the constrained optimum from the centre of the bowl
                p["stopval"] = 1.05 * (dist * dist) * (1 + 0.5 * (n - 1))   # above the constrained optimum's value (weights 1 + i/2 at most)
                p["inj"] = "%d:7ff0000000000000" % rng.choice([2, 3, 4, 5, 7])
                ps.append(p)
        # forced stops: the returned x of the algorithms of the first clause is still the best feasible evaluated point
        for nm in ALGS:
            for _ in range(40 if ctx.thorough else 10):
                n = 2
                p = problems.gen_problem(rng, A, alg_name=nm, n=n, with_constraints=False, box="finite", maxeval=200, allow_max=False)
                for k in ("stopval", "ftol_rel", "xtol_rel", "xtol_abs", "xw", "maxtime", "clockq"):
                    p.pop(k, None)
                p["lb"], p["ub"] = [-1.0] * n, [1.0] * n
                p["x0"] = [rng.uniform(-0.2, 0.2) for _ in range(n)]
                p["obj"] = 0
                p["oc"] = [rng.choice([-2.0, 2.0]), rng.uniform(-0.5, 0.5)]
                p["ineq"] = "s:2:%s:%s:0;s:1:%s:%s:1" % (hexd(0.0), hexd(rng.uniform(0.0, 0.4)), hexd(0.0), hexd(rng.uniform(1.0, 2.0)))
                p["stopat"] = rng.randrange(2, 40)
                ps.append(p)
        batch = runcheck.run_batch(ctx, bdir, A, ps, [mon_feasible], "constrained runs")
        try:
            incumbent_correspondence(ctx, batch)
        except Exception as e:
            ctx.broke("incumbent model driver", repr(e))
        # the model-level counterexample of the ISRES rule (penalty underflow), replayed on the library
        exe, ok, log = build_harness("wit_isres", bdir)
        if ok:
            rc, out = sh([exe])
            ctx.cov["isres_underflow_witness"] = out.strip()[-200:]
            if rc == 1:
                ctx.violation({"alg": "NLOPT_GN_ISRES", "cause": "squared violation underflows to 0: infeasible incumbent kept"},
                              "NLOPT_GN_ISRES returned an infeasible point although feasible points were evaluated: " + out.strip()[-160:],
                              {"stream": "witness", "program": "harness/wit_isres.c", "lean_witness": "Nlopt.C06Isres.isres_best_feasible_full_false"})
        else:
            ctx.broke("harness wit_isres.c does not build", log)
        exe, ok, log = build_harness("wit_slsqp", bdir)
        if ok:
            rc, out = sh([exe])
            ctx.cov["slsqp_unequal_tolerance_witness"] = out.strip()[-200:]
            if rc == 1:
                ctx.violation({"alg": "NLOPT_LD_SLSQP", "cause": "unequal tolerances: infeasible incumbent shadows feasible points"},
                              "NLOPT_LD_SLSQP returned an infeasible point although feasible points were evaluated: " + out.strip()[-160:],
                              {"stream": "witness", "program": "harness/wit_slsqp.c", "lean_witness": "Nlopt.C06.slsqp_best_feasible_full_false"})
        else:
            ctx.broke("harness wit_slsqp.c does not build", log)
        nfe = sum(1 for _, r, ri in batch if ri is not None and ri.ret is not None and ri.ret > 0)
        ctx.cov["successful_constrained_runs"] = nfe
        ctx.sample({"spec": batch[0][1].spec})
        ctx.cov["unproved"] = ["ISRES's penalty ranking and DIRECT's flag bookkeeping are monitor-only (only the feasible-only comparison rule is a theorem)",
                               "the unequal-tolerance counterexample of the SLSQP rule is a model-level witness (decide); the monitor reports it when the real SLSQP produces such a sequence"]
    ctx.assumptions += ["feasibility of an evaluated point is judged from the constraint callbacks made at bit-identical x; points whose constraints were not all evaluated (DIRECT stops at the first violated one) count as infeasible when a violation was seen, unknown otherwise"]
    return ctx.finish(level="proof", extra_cov={"rule": "a case = one constrained run; distinct by spec"})
