"""C20: random and quasi-random samples stay in range and follow their sequences.

proof:          Props/C20MT.lean (mt_impl_eq_spec: the in-place block generator = the MT19937 recurrence,
                all seeds, all positions; iurand/res53 ranges; exact-arithmetic range of urand; nrand's
                s >= 2^-104) and Props/C20Sobol.lean (table + direction numbers well-formed, state invariant,
                strict interior, stratification of every aligned block)
translator:     MTConsts.lean from mt19937ar.c, SobolTables.lean from soboldata.h (regenerated each run)
correspondence: S-util mt stream (raw words per seed vs. model impl AND vs. model spec AND vs. an independent
                pure-Python MT19937), samplers bitwise (hardware arithmetic), forced raw extremes through
                the RNG hook; S-util sobol stream (raw state x[i], b[i], direction numbers, all dimensions)
monitor:        urand in [a,b], iurand in 0..n-1, nrand finite, Sobol' coordinates strictly inside (0,1) /
                the box, one point per subinterval in aligned blocks"""
import os
import random
import struct
import subprocess

from ..common import sh, build_harness, run_model, hexd, unhex, canon_nan, LEAN, VERIF


def ref_mt(seed, k):
    """independent MT19937 (written from the published algorithm), init_genrand seeding"""
    mt = [0] * 624
    mt[0] = seed & 0xffffffff
    for i in range(1, 624):
        mt[i] = (1812433253 * (mt[i - 1] ^ (mt[i - 1] >> 30)) + i) & 0xffffffff
    out = []
    idx = 624
    while len(out) < k:
        if idx >= 624:
            for i in range(624):
                y = (mt[i] & 0x80000000) | (mt[(i + 1) % 624] & 0x7fffffff)
                mt[i] = mt[(i + 397) % 624] ^ (y >> 1) ^ (0x9908b0df if y & 1 else 0)
            idx = 0
        y = mt[idx]
        idx += 1
        y ^= y >> 11
        y ^= (y << 7) & 0x9d2c5680
        y ^= (y << 15) & 0xefc60000
        y ^= y >> 18
        out.append(y)
    return out


def tr_mtconsts(ctx):
    rc, out = sh(["python3", os.path.join(VERIF, "translate", "mtconsts.py"),
                  os.path.join(os.environ.get("VERIF_REPO", "/repo"), "src/util/mt19937ar.c"),
                  os.path.join(LEAN, "NloptModel", "Generated", "MTConsts.lean")])
    if rc != 0:
        raise RuntimeError("mtconsts translator: " + out[-500:])
    return {"MTConsts": out.strip().split("\n")[0][:400]}


def tr_sobol(ctx):
    p = os.path.join(VERIF, "translate", "sobol.py")
    if not os.path.exists(p):
        return {}
    rc, out = sh(["python3", p, os.environ.get("VERIF_REPO", "/repo"),
                  os.path.join(LEAN, "NloptModel", "Generated", "SobolTables.lean")])
    if rc != 0:
        raise RuntimeError("sobol translator: " + out[-500:])
    return {"SobolTables": out.strip()[-300:]}


def fin(x):
    return x == x and abs(x) != float("inf")


def run(ctx):
    from translate import alglists
    props = ["C20MT"] + (["C20Sobol"] if os.path.exists(os.path.join(LEAN, "NloptModel", "Props", "C20Sobol.lean")) else [])
    ctx.lean_stage(props)
    bdir = ctx.repo_stage()
    exe = None
    if bdir:
        exe, ok, log = build_harness("util", bdir)
        if not ok:
            ctx.broke("util harness build", log)
            exe = None
    rng = random.Random(ctx.seed)
    if exe:
        # ---------------------------------------------------------------- raw streams
        nseeds = 400 if ctx.thorough else 48
        K = 6000 if ctx.thorough else 1500
        seeds = [0, 1, 5489, 2 ** 32 - 1, 2 ** 32 + 7, 19650218] + [rng.randrange(2 ** 40) for _ in range(nseeds)]
        lines, kinds = [], []
        for s in seeds:
            lines += ["seed %d" % s, "nextn %d" % K]
            kinds += [("seed", s), ("stream", s)]
        text = "\n".join(lines) + "\n"
        rc, out = sh([exe, "mt"], input=text.encode(), timeout=3000)
        impl = out.split("\n")
        model = []
        try:
            model = run_model("mt", text, timeout=3000)
        except Exception as e:
            ctx.broke("mt model driver", repr(e))
        # spec positions (model only): sampled positions incl. block boundaries
        spec_pos = [0, 1, 226, 227, 396, 397, 622, 623, 624, 625, 1247, 1248, K - 1] + [rng.randrange(K) for _ in range(8)]
        spec_lines = ["spec %d %d" % (s, i) for s in seeds[:16] for i in spec_pos]
        spec_out = []
        try:
            spec_out = run_model("mt", "\n".join(spec_lines) + "\n", timeout=3000)
        except Exception as e:
            ctx.broke("mt model driver (spec)", repr(e))
        dis = refdis = specdis = 0
        streams = {}
        for i, (kind, s) in enumerate(kinds):
            a = impl[i] if i < len(impl) else "<missing>"
            b = model[i] if i < len(model) else "<missing>"
            if a != b:
                dis += 1
                if dis == 1:
                    ctx.broke("correspondence mt (raw stream, model impl vs mt19937ar.c)", "seed %d: %s.. vs %s.." % (s, a[:60], b[:60]))
            if kind == "stream":
                words = a.split()
                streams[s] = words
                ref = ref_mt(s, min(K, 1400))
                got = [int(w, 16) for w in words[:len(ref)]] if all(len(w) == 8 for w in words[:5]) else []
                ctx.case("mtstream:%d" % s)
                if got != ref:
                    refdis += 1
                    j = next((k for k in range(min(len(got), len(ref))) if got[k] != ref[k]), 0)
                    ctx.violation({"api": "mt19937", "what": "stream"},
                                  "pseudo-random stream differs from reference MT19937 (seed %d, position %d)" % (s, j),
                                  {"stream": "mt", "ops": ["seed %d" % s, "nextn %d" % (j + 1)], "expected_word": "%08x" % ref[j] if ref else None})
        k = 0
        for s in seeds[:16]:
            for i in spec_pos:
                m = spec_out[k] if k < len(spec_out) else "<missing>"
                k += 1
                w = streams.get(s, [])
                if i < len(w) and w[i] != m:
                    specdis += 1
                    if specdis == 1:
                        ctx.broke("correspondence mt (model SPEC vs mt19937ar.c)", "seed %d pos %d: %s vs %s" % (s, i, w[i], m))
        ctx.corr["mt_raw"] = {"seeds": len(seeds), "words_per_seed": K, "disagreements_model_impl": dis,
                              "disagreements_python_reference": refdis, "spec_positions_checked": k, "disagreements_model_spec": specdis}
        # ---------------------------------------------------------------- samplers
        big = 1.7976931348623157e308
        ivals = [(0.0, 1.0), (-1.0, 1.0), (1.0, 1.0), (1e6, 1e6 + 1), (-3.5, 7.25), (1e-310, 3e-310), (0.0, 5e-324),
                 (-1e300, 1e300), (1e15, 1e15 + 2), (0.1, 0.3), (-big, 0.0), (0.0, big), (-big / 2, big / 2), (-big, big)]
        ops = ["seed %d" % (ctx.seed + 7)]
        for _ in range(3000 if ctx.thorough else 300):
            a, b = rng.choice(ivals)
            r = rng.random()
            if r < 0.5:
                ops.append("urand %s %s" % (hexd(a), hexd(b)))
            elif r < 0.7:
                ops.append("iurand %d" % rng.choice([1, 2, 3, 7, 10, 1000, 2 ** 31 - 1, 65536]))
            else:
                ops.append("nrand %s %s" % (hexd(rng.choice([0.0, 1.5, -2.0])), hexd(rng.choice([1.0, 2.0, 0.5]))))
        # forced raw extremes
        ext = ["00000000", "ffffffff", "80000000", "7fffffff", "0000001f", "ffffffe0", "0000003f", "ffffffc0"]
        for a, b in ivals:
            for w1 in ext:
                for w2 in ("00000000", "ffffffff"):
                    ops.append("force %s,%s" % (w1, w2))
                    ops.append("urand %s %s" % (hexd(a), hexd(b)))
        for n in (1, 2, 3, 10, 2 ** 31 - 1):
            for w in ext:
                ops.append("force %s" % w)
                ops.append("iurand %d" % n)
        # nrand: s == 0 exactly (raw words 80000000,0 twice), s tiny, rejection then accept
        ops += ["force 80000000,00000000,80000000,00000000", "nrand %s %s" % (hexd(1.5), hexd(2.0))]
        ops += ["force 80000000,00000040,80000000,00000000", "nrand %s %s" % (hexd(0.0), hexd(1.0))]
        ops += ["force ffffffff,ffffffff,ffffffff,ffffffff,80000000,00000040,80000000,00000040", "nrand %s %s" % (hexd(0.0), hexd(1.0))]
        text = "\n".join(ops) + "\n"
        rc, out = sh([exe, "mt"], input=text.encode(), timeout=600)
        impl = out.split("\n")
        try:
            model = run_model("mt", text, timeout=600)
        except Exception as e:
            ctx.broke("mt model driver (samplers)", repr(e))
            model = []
        sdis = 0
        for i, op in enumerate(ops):
            a = canon_nan(impl[i]) if i < len(impl) else "<missing>"
            b = canon_nan(model[i]) if i < len(model) else "<missing>"
            if a != b:
                sdis += 1
                if sdis == 1:
                    ctx.broke("correspondence mt (samplers, model vs mt19937ar.c)", "%s: impl=%s model=%s (prev op %s)" % (op, a, b, ops[i - 1]))
            t = op.split()
            prev = ops[i - 1] if i and ops[i - 1].startswith("force") else None
            if t[0] == "urand":
                lo, hi = unhex(t[1]), unhex(t[2])
                v = unhex(a) if len(a) == 16 else float("nan")
                ctx.case("urand:%s:%s:%s" % (t[1], t[2], prev))
                if not (lo <= v <= hi):
                    width_overflows = not fin(hi - lo)
                    ctx.violation({"api": "nlopt_urand", "cause": "b-a overflows" if width_overflows else "rounding"},
                                  "nlopt_urand(%r,%r) returned %r outside [a,b]" % (lo, hi, v),
                                  {"stream": "mt", "ops": ([prev] if prev else ["seed %d" % (ctx.seed + 7)] + ops[1:i]) + [op], "answer": a})
            elif t[0] == "iurand":
                n = int(t[1])
                ctx.case("iurand:%d:%s" % (n, prev))
                if not (a.lstrip("-").isdigit() and 0 <= int(a) < n):
                    ctx.violation({"api": "nlopt_iurand"}, "nlopt_iurand(%d) returned %s" % (n, a),
                                  {"stream": "mt", "ops": ([prev] if prev else []) + [op], "answer": a})
            elif t[0] == "nrand":
                v = unhex(a) if len(a) == 16 else float("nan")
                ctx.case("nrand:%s:%s:%s" % (t[1], t[2], prev))
                if not fin(v):
                    ctx.violation({"api": "nlopt_nrand"}, "nlopt_nrand returned a non-finite value",
                                  {"stream": "mt", "ops": ([prev] if prev else []) + [op], "answer": a})
        ctx.corr["mt_samplers"] = {"ops": len(ops), "disagreements": sdis}
        ctx.sample({"ops": ops[:6]})
        # ---------------------------------------------------------------- sobol
        if "C20Sobol" in props:
            run_sobol(ctx, exe, rng)
    ctx.assumptions += [
        "float-level range of nlopt_urand / nlopt_sobol_next is proved in exact arithmetic and under the named hypothesis ScaleWithin; the bitwise sampler correspondence and the [a,b] monitor cover the rounded values",
        "libm log/sqrt used by nlopt_nrand are the machine's (bitwise agreement between Lean's Float and C is observed, not proved)"]
    return ctx.finish(level="proof", extra_cov={"rule": "a case = one sampler call (distinct by arguments and forced raw words) or one seed's stream; all are non-trivial"})


def run_sobol(ctx, exe, rng):
    dims = [1, 2, 3, 7, 40, 1111] + ([rng.randrange(1, 1112) for _ in range(6)] if ctx.thorough else [rng.randrange(1, 1112)])
    npts = 4096 if ctx.thorough else 1024
    tot = dis = 0
    for sd in dims:
        n = npts if sd < 200 else 256
        ops = ["init %d" % sd] + ["next"] * n
        ops += ["m %d %d" % (rng.randrange(sd), j) for j in range(32)]
        text = "\n".join(ops) + "\n"
        rc, out = sh([exe, "sobol"], input=text.encode(), timeout=1200)
        impl = out.split("\n")
        try:
            model = run_model("sobol", text, timeout=1200)
        except Exception as e:
            ctx.broke("sobol model driver", repr(e))
            return
        for i, op in enumerate(ops):
            tot += 1
            a = impl[i] if i < len(impl) else "<missing>"
            b = model[i] if i < len(model) else "<missing>"
            if a != b:
                dis += 1
                if dis == 1:
                    ctx.broke("correspondence sobol (model vs sobolseq.c)", "sdim %d op %d %s: impl=%s model=%s" % (sd, i, op, a[:80], b[:80]))
        # monitor: strict interior and stratification on the real outputs (x / 2^(b+1))
        pts = []
        for i in range(1, n + 1):
            cells = impl[i].split()
            row = []
            for c in cells:
                xh, bb = c.split(":")
                row.append((int(xh, 16), int(bb)))
            pts.append(row)
        for d in range(min(sd, 1111)):
            if d > 12 and d not in (sd - 1,):
                continue
            fr = [x * (1 << (31 - b)) for (x, b) in (p[d] for p in pts)]   # 32-bit fractions
            ctx.case("sobol:%d:%d" % (sd, d))
            if any(not (0 < f < (1 << 32)) for f in fr):
                ctx.violation({"api": "sobol", "what": "interior"}, "Sobol' coordinate not strictly inside (0,1)",
                              {"stream": "sobol", "ops": ["init %d" % sd], "dim": d})
                return
            seq = [0] + fr      # index from the omitted origin
            for k in range(1, 11):
                blk = 1 << k
                for start in range(0, len(seq) - blk + 1, blk):
                    cellset = set(f >> (32 - k) for f in seq[start:start + blk])
                    if len(cellset) != blk:
                        ctx.violation({"api": "sobol", "what": "stratification"},
                                      "aligned block of 2^%d Sobol' points does not hit every subinterval (dim %d)" % (k, d),
                                      {"stream": "sobol", "ops": ["init %d" % sd], "dim": d, "block_start": start, "k": k})
                        return
    # nlopt_sobol_skip(n): the number of skipped points (largest power of two below n; one point for n <= 2) is visible in the
    # state of the next point; counts at and around every power of two, plus random ones
    ns = sorted(set([0, 1, 2, 3, 5, 6, 7] + [v for e in range(2, 15) for v in ((1 << e) - 1, 1 << e, (1 << e) + 1)] + [rng.randrange(1, 20000) for _ in range(12)]))
    ops = []
    for n in ns:
        ops += ["init %d" % rng.choice([1, 2, 5]), "skip %d" % n, "next", "next"]
    text = "\n".join(ops) + "\n"
    rc, out = sh([exe, "sobol"], input=text.encode(), timeout=600)
    impl = out.split("\n")
    try:
        model = run_model("sobol", text, timeout=600)
    except Exception as e:
        ctx.broke("sobol model driver", repr(e))
        return
    sk = 0
    for i, op in enumerate(ops):
        tot += 1
        a = impl[i] if i < len(impl) else "<missing>"
        b = model[i] if i < len(model) else "<missing>"
        if a != b:
            dis += 1
            sk += 1
            if sk == 1:
                ctx.broke("correspondence sobol skip (model vs sobolseq.c)", "%s then op %d %s: impl=%s model=%s" % (ops[i - i % 4 + 1], i, op, a[:80], b[:80]))
    ctx.cov["sobol_skip_counts_compared"] = len(ns)
    ctx.corr["sobol"] = {"dimensions": dims, "ops": tot, "disagreements": dis}
    # scaled values: nlopt_sobol_next01 doubles strictly inside (0,1)
    ops = ["init 5"] + ["nextv"] * 300
    rc, out = sh([exe, "sobol"], input=("\n".join(ops) + "\n").encode())
    for l in out.split("\n")[1:301]:
        for h in l.split(","):
            if len(h) == 16:
                v = unhex(h)
                if not (0.0 < v < 1.0):
                    ctx.violation({"api": "sobol", "what": "value"}, "nlopt_sobol_next01 returned %r" % v, {"stream": "sobol", "ops": ops[:3]})
                    return
