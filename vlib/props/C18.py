"""C18: running out of memory while configuring is reported, not fatal.

proof:          Props/C18.lean: ownership invariant over all API histories x every failing allocation index
                (no double free, no leak, failed create/copy restore the heap), failure reported, settings kept
                (with Props/C14.lean failed_call_changes_nothing)
correspondence: S-api with the allocation oracle: for every scenario and every allocation index k of every call the
                run in which exactly that allocation fails; return codes, allocator events (incl. the failing request)
                and snapshots compared with the model
monitor:        no crash, no double free, failure reported (NULL / negative code), snapshots unchanged by the failing
                call, later use and destruction clean, zero live library blocks at the end"""
import random
import re

from .. import sapi


SCENARIOS = None


def scenarios(rng, n):
    h = sapi.hexd
    fixed = [
        ["create o0 25 2", "set_min o0 1 5", "set_lb o0 %s,%s" % (h(0.0), h(0.0)), "set_xtol_abs1 o0 %s" % h(0.1), "set_xw1 o0 %s" % h(2.0),
         "set_dx1 o0 %s" % h(0.5), "add_ineq o0 4 6 %s" % h(0.0), "add_ineq o0 5 7 %s" % h(0.0), "add_ineq o0 6 8 %s" % h(0.0),
         "add_eqm o0 2 1 9 -", "set_param o0 tolg %s" % h(1.0), "set_param o0 verbosity %s" % h(1.0), "copy o0 o1", "set_local o0 o1",
         "set_local o0 o0", "get_dx o1 %s,%s" % (h(0.5), h(0.5)), "set_default_dx o1 %s,%s" % (h(0.5), h(0.5)), "set_lbi o0 9 %s" % h(0.0),
         "set_xw o0 %s,%s" % (h(1.0), h(-1.0)), "set_dx o1 %s,%s" % (h(1.0), h(2.0)), "copy o0 o2"],
        ["create o0 40 3", "set_munge o0 1 1", "set_max o0 2 5", "add_eq o0 4 6 %s" % h(0.0), "add_ineqm o0 3 2 7 %s,%s,%s" % (h(0.1), h(0.2), h(0.3)),
         "set_param o0 a_rather_long_parameter_name_0123456789 %s" % h(1.0), "set_xtol_abs o0 %s,%s,%s" % (h(0.1), h(0.2), h(0.3)),
         "create o1 11 3", "set_local o0 o1", "copy o0 o2", "set_local o2 o0", "set_param null x %s" % h(1.0), "add_ineq o0 4 8 %s" % h(-1.0)],
    ]
    out = list(fixed)
    for _ in range(n):
        out.append(sapi.Hist(rng).build(rng.choice([8, 14, 20])))
    return out


def alloc_requests(line):
    return sum(1 for e in sapi.events_of(line) if e[0] in "AX" or e.startswith("R"))


def run(ctx):
    from translate import alglists
    ctx.lean_stage(["C18"])
    bdir = ctx.repo_stage()
    if bdir and getattr(ctx, "alg", None):
        rng = random.Random(ctx.seed)
        scen = scenarios(rng, 150 if ctx.thorough else 18)
        # fault-free pass to learn how many allocation requests each call makes
        impl, _ = sapi.run_both(bdir, "".join("history %d\n%s\n" % (i, "\n".join(h)) for i, h in enumerate(scen)), sapi.caps_line(ctx.alg))
        hi = sapi.split_histories(impl)
        faulted = []
        for idx, ops in enumerate(scen):
            lines = hi[idx][1:] if idx < len(hi) else []
            for j, op in enumerate(ops):
                if j >= len(lines):
                    break
                na = alloc_requests(lines[j])
                for k in range(1, na + 2):        # k = na+1: oracle armed but never fires
                    if k == na + 1 and rng.random() < 0.8:
                        continue
                    h = ops[:j] + ["oracle %d" % k, op]
                    # afterwards: read everything back, use the objects, continue the scenario
                    h += ["get_lb o0", "get_scalars o0", "get_dx o0 -"] if op.split()[0] != "destroy" else []
                    h += ops[j + 1:j + 4]
                    faulted.append(h)
        ctx.cov["fault_points"] = len(faulted)
        ctx.cov["scenarios"] = len(scen)
        sapi.run_histories(ctx, bdir, ctx.alg, faulted, "C18", "every k-th allocation failing")
        ctx.sample({"history": faulted[len(faulted) // 2]})
        ctx.sample({"history": faulted[3]})
    ctx.assumptions += ["exactly one allocation fails per run (the property's quantifier); the error-message allocation is best effort: when only it fails the call still returns its error code",
                        "allocation failures during nlopt_optimize are outside C18 (configuration calls only)"]
    return ctx.finish(level="proof", extra_cov={"rule": "a case = one API call in a faulted history; distinct by op text"})
