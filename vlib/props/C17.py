"""C17: the legacy one-call interface is the object interface with the same settings.

proof:          Props/C17.lean over Model/Legacy.lean (deprecated.c as a fold of object-API transitions): the object handed to
                nlopt_optimize is exactly the result of the documented sequence of setters (constraint i with data base + i*stride,
                inequality tolerance 0, equality tolerance htol_abs, NULL xtol_abs = no call); an early return is the code of the
                first refusing setter; negative n/m/p rejected; with C07 (determinism) equal traces follow
correspondence: the object built inside nlopt_minimize_econstrained (hook at nlopt_optimize entry) is compared field by field with
                the hand-built object's dump; S-wrap replay of the object run
monitor:        pair runs (legacy call | hand-built object): bitwise equal evaluation sequence, x, minimum, code; legacy global
                defaults (stochastic population) used exactly when the object has no explicit setting"""
import random

from .. import runcheck, problems, swrap
from ..common import hexd, unhex

DUMP_KEYS = ("alg", "n", "max", "hasf", "lb", "ub", "stopval", "ftol_rel", "ftol_abs", "xtol_rel", "xtol_abs", "xw", "dx", "maxeval",
             "maxtime", "pop", "vs", "m", "p", "fc", "h")


def relate(a, b):
    if b.R is not None and "raw" in b.R and "constraint-rejected" in b.R["raw"]:
        # the object API refused a constraint (algorithm without constraint support): the legacy call must return that error
        ra = runcheck.result_of(a)
        return None if (ra[0] == "-2" and not a.calls) else "object API refused a constraint but the legacy call returned %s after %d callbacks" % (ra[0], len(a.calls))
    if a.e1 is not None and b.e1 is not None:
        for k in DUMP_KEYS:
            if a.e1.get(k) != b.e1.get(k):
                return "the object built by the legacy call differs from the hand-built one in %s: %s vs %s" % (k, a.e1.get(k), b.e1.get(k))
    elif (a.e1 is None) != (b.e1 is None):
        return "only one of the two calls reached nlopt_optimize"
    if len(a.calls) != len(b.calls):
        return "number of callbacks differs: %d vs %d" % (len(a.calls), len(b.calls))
    for k, (p, q) in enumerate(zip(a.calls, b.calls)):
        if (p.kind, p.role, p.i, p.x, p.g, p.val) != (q.kind, q.role, q.i, q.x, q.g, q.val):
            return "callback %d differs" % (k + 1)
    ra, rb = runcheck.result_of(a), runcheck.result_of(b)
    if ra[:3] != rb[:3]:
        return "result differs: %s vs %s" % (ra[:3], rb[:3])
    return None


POP_ALGS = ["NLOPT_GN_CRS2_LM", "NLOPT_GN_ISRES", "NLOPT_GN_ESCH", "NLOPT_GD_STOGO_RAND", "NLOPT_GN_MLSL", "NLOPT_GN_MLSL_LDS", "NLOPT_GD_MLSL", "NLOPT_GD_MLSL_LDS"]


def run(ctx):
    bdir, A = runcheck.setup(ctx, ["C17"])
    if bdir:
        ctx.algnames = A.names
        rng = random.Random(ctx.seed * 73 + 17)
        pa, pb = [], []
        names = [n for n in problems.ALL if n not in ("NLOPT_AUGLAG", "NLOPT_AUGLAG_EQ", "NLOPT_G_MLSL", "NLOPT_G_MLSL_LDS")]
        for nm in names:
            for _ in range(10 if ctx.thorough else 3):
                p = problems.gen_problem(rng, A, alg_name=nm, with_constraints=False, allow_max=False)
                for k in ("xw", "dx", "pop", "vs", "local"):
                    p.pop(k, None)
                htol = rng.choice([0.0, 1e-6, 1e-2])
                if A.id(nm) in ctx.alg["ineq"] and nm != "NLOPT_GN_AGS" and rng.random() < 0.6:
                    j, items = 0, []
                    for _ in range(rng.choice([1, 2, 3])):
                        items.append("s:%d:%s:%s:%d" % (rng.choice([0, 1, 2]), hexd(0.0), hexd(rng.uniform(0.5, 3.0)), j))
                        j += 1
                    p["ineq"] = ";".join(items)
                    if A.id(nm) in ctx.alg["eq"] and rng.random() < 0.4:
                        p["eq"] = ";".join("s:0:%s:%s:%d" % (hexd(htol), hexd(rng.uniform(-0.3, 0.3)), 8 + k) for k in range(rng.choice([1, 2])))
                elif rng.random() < 0.15:
                    p["ineq"] = "s:0:%s:%s:0" % (hexd(0.0), hexd(1.0))     # constraints on an algorithm that may refuse them
                if rng.random() < 0.3:
                    g = rng.choice([5, 12, 30])
                    p["gpop"] = g
                if rng.random() < 0.3:
                    p["glocal"] = "%d:%d:%d" % (A.id(rng.choice(["NLOPT_LD_MMA", "NLOPT_LD_LBFGS", "NLOPT_LD_SLSQP"])),
                                                A.id(rng.choice(["NLOPT_LN_COBYLA", "NLOPT_LN_NELDERMEAD", "NLOPT_LN_BOBYQA"])), rng.choice([-1, 15, 40]))
                q = dict(p)
                p["legacy"] = 1
                pa.append(p)
                pb.append(q)
        ba = runcheck.run_batch(ctx, bdir, A, pa, [], "legacy calls", replay=False, blame_crash=False)
        bb = runcheck.run_batch(ctx, bdir, A, pb, [], "hand-built objects", blame_crash=False)
        runcheck.compare_pairs(ctx, [r for _, r, _ in ba], [r for _, r, _ in bb], relate, "pairs (legacy | object)", {"cause": "legacy call differs from the object API"})
        # legacy global population is used exactly when the object has no explicit population
        pc, pd = [], []
        for nm in POP_ALGS:
            for _ in range(6 if ctx.thorough else 2):
                p = problems.gen_problem(rng, A, alg_name=nm, with_constraints=False, maxeval=rng.choice([150, 300]))   # several generations
                p.pop("pop", None)
                g = rng.choice([7, 16, 33])
                q = dict(p)
                p["gpop"] = g           # global default, object unset
                q["pop"] = g            # explicit object setting, global default untouched
                pc.append(p)
                pd.append(q)
                r_ = dict(p)
                r_["pop"] = g + 5       # explicit setting must win over the global
                s_ = dict(q)
                s_["pop"] = g + 5
                pc.append(r_)
                pd.append(s_)
        bc = runcheck.run_batch(ctx, bdir, A, pc, [], "global population default", replay=False, blame_crash=False)
        bd = runcheck.run_batch(ctx, bdir, A, pd, [], "explicit population", replay=False, blame_crash=False)

        def rel2(a, b):
            if len(a.calls) != len(b.calls):
                return "number of callbacks differs: %d vs %d" % (len(a.calls), len(b.calls))
            for k, (p, q) in enumerate(zip(a.calls, b.calls)):
                if (p.kind, p.x, p.val) != (q.kind, q.x, q.val):
                    return "callback %d differs" % (k + 1)
            return None if runcheck.result_of(a)[:3] == runcheck.result_of(b)[:3] else "result differs"
        runcheck.compare_pairs(ctx, [r for _, r, _ in bc], [r for _, r, _ in bd], rel2, "pairs (global default | explicit setting)",
                               {"cause": "legacy population default not equivalent to the explicit setting"})
        # the default subsidiary optimizer built from the legacy globals (nlopt_set_local_search_algorithm) is the explicit local
        # optimizer with the documented settings: algorithm by derivative class, the parent's ftol_rel / xtol_rel, the global maxeval
        pe, pf = [], []
        for nm in ("NLOPT_LN_AUGLAG", "NLOPT_LD_AUGLAG", "NLOPT_LN_AUGLAG_EQ", "NLOPT_LD_AUGLAG_EQ", "NLOPT_GN_MLSL", "NLOPT_GD_MLSL", "NLOPT_GN_MLSL_LDS", "NLOPT_GD_MLSL_LDS"):
            for _ in range(16 if ctx.thorough else 6):
                p = problems.gen_problem(rng, A, alg_name=nm, with_constraints=(("AUGLAG" in nm) and rng.random() < 0.7), maxeval=rng.choice([40, 120, 300]))
                for k in ("xtol_abs", "xw", "local", "pop", "maxtime", "clockq", "clock0"):
                    p.pop(k, None)
                gd = rng.choice(["NLOPT_LD_MMA", "NLOPT_LD_LBFGS", "NLOPT_LD_SLSQP"])
                gn = rng.choice(["NLOPT_LN_COBYLA", "NLOPT_LN_NELDERMEAD", "NLOPT_LN_SBPLX"])
                gm = rng.choice([-1, 7, 25])
                deriv = "_LD_" in nm or "_GD_" in nm
                eff_d, eff_n = gd, gn
                if "MLSL" in nm and rng.random() < 0.4:
                    # the legacy default is itself an MLSL variant: MLSL must not call itself, the documented fallback is
                    # COBYLA (derivative-free parents) / MMA (gradient-based parents)
                    gd = rng.choice(["NLOPT_GD_MLSL", "NLOPT_GD_MLSL_LDS", "NLOPT_GN_MLSL"])
                    gn = rng.choice(["NLOPT_GN_MLSL", "NLOPT_GN_MLSL_LDS", "NLOPT_GD_MLSL_LDS"])
                    eff_d, eff_n = "NLOPT_LD_MMA", "NLOPT_LN_COBYLA"
                q = dict(p)
                p["glocal"] = "%d:%d:%d" % (A.id(gd), A.id(gn), gm)
                q["local"] = "%d:%d:%x:%x" % (A.id(eff_d if deriv else eff_n), gm, int(hexd(p.get("ftol_rel", 0.0)), 16), int(hexd(p.get("xtol_rel", 0.0)), 16))
                pe.append(p)
                pf.append(q)
        be = runcheck.run_batch(ctx, bdir, A, pe, [], "default local optimizer from the legacy globals", replay=False, blame_crash=False)
        bf = runcheck.run_batch(ctx, bdir, A, pf, [], "explicit local optimizer", replay=False, blame_crash=False)
        runcheck.compare_pairs(ctx, [r for _, r, _ in be], [r for _, r, _ in bf], rel2, "pairs (legacy default local optimizer | explicit local optimizer)",
                               {"cause": "default local optimizer differs from the explicit one with the documented settings"})
        ctx.sample({"legacy": ba[0][1].spec, "object": bb[0][1].spec})
        ctx.cov["unproved"] = ["the default subsidiary optimizer built from the legacy globals inside MLSL/AUGLAG/MMA is compared only through pair runs with the same globals in effect (no hand-built equivalent)"]
    ctx.assumptions += ["nlopt_minimize and nlopt_minimize_constrained are thin wrappers of nlopt_minimize_econstrained (read off the source; the harness drives the latter)"]
    return ctx.finish(level="proof", extra_cov={"rule": "a case = one run (each pair contributes two); distinct by spec"})
