"""C10: no configuration or objective value can make the library corrupt memory.  (partial — see Props/C10.lean)

proof:          Generated/Partitions.lean (regenerated from the malloc size expressions and pointer partitions of MMA, CCSA, ISRES,
                Subplex, AUGLAG, PRAXIS): every work-space segment fits, for every n, m, population;  Props/C10.lean: row / point index
                arithmetic of the population methods
correspondence: translator `partitions` (fails loudly when the allocation or the partition chain is no longer recognised)
exploration:    harness/run.c linked against an AddressSanitizer+UndefinedBehaviorSanitizer build of the current tree, one forked
                child per run with a leak check at the end: all algorithms x n in 1..12 x population / vector storage from 1 x random
                tolerances / limits / constraints x subsidiary optimizers x NaN/+Inf/-Inf/huge injections into objective and
                constraints; a sanitizer report, a crash or an undocumented result code is a violation (hangs belong to C03)"""
import collections
import concurrent.futures
import os
import random
import re
import subprocess

from .. import runcheck, problems, swrap
from ..common import build_repo, build_harness, hexd

DOCUMENTED = set(["1", "2", "3", "4", "5", "6", "-1", "-2", "-3", "-4", "-5"])
SPECIAL = ["7ff8000000000000", "7ff0000000000000", "fff0000000000000", hexd(1e300), hexd(-1e300), hexd(1.7e308), hexd(5e-324)]
ENV = {"ASAN_OPTIONS": "detect_leaks=1:exitcode=23:abort_on_error=0:allocator_may_return_null=1:detect_stack_use_after_return=0",
       "UBSAN_OPTIONS": "print_stacktrace=1:halt_on_error=1:exitcode=24", "LSAN_OPTIONS": "exitcode=25"}


def gen(rng, A, count):
    out = []
    names = [n for n in problems.ALL if n in A.idx]
    for k in range(count):
        nm = names[k % len(names)] if k < 2 * len(names) else rng.choice(names)
        n = rng.choice([1, 2, 3, 4, 5, 6, 7, 8, 9, 10, 11, 12])
        if nm in ("NLOPT_LN_NEWUOA", "NLOPT_LN_NEWUOA_BOUND", "NLOPT_LN_BOBYQA"):
            n = max(n, 2)
        if nm == "NLOPT_GN_AGS":
            n = min(n, 5)
        p = problems.gen_problem(rng, A, alg_name=nm, n=n, maxeval=rng.choice([3, 10, 30, 80, 200]))
        if rng.random() < 0.5:
            p["pop"] = rng.choice([1, 1, 2, 3, n + 1, n + 2, 2 * n + 3, 50])
        if rng.random() < 0.4:
            p["vs"] = rng.choice([1, 1, 2, 3, 10, 100])
        r = rng.random()
        N = p["maxeval"]
        if r < 0.55:
            p["inj"] = ",".join("%d:%s" % (rng.randrange(1, N + 2), rng.choice(SPECIAL)) for _ in range(rng.choice([1, 1, 2, 4])))
        if "ineq" in p and rng.random() < 0.4:
            p["injc"] = ",".join("%d:%s" % (rng.randrange(1, 2 * N + 2), rng.choice(SPECIAL)) for _ in range(rng.choice([1, 2])))
        if rng.random() < 0.1:
            p["stopat"] = rng.randrange(1, N + 1)
        if p["alg"] in A.d["eq"] and rng.random() < 0.5:
            # vector-valued equality constraints (their TOTAL dimension sizes several work arrays)
            m = rng.choice([2, 3, 5, 8])
            if nm != "NLOPT_LD_SLSQP" or m <= n:
                p["eq"] = "v:%d:%d:%s:%s:5" % (m, rng.choice([0, 2]), rng.choice(["-", problems.hl([1e-6] * m)]), hexd(rng.uniform(-0.3, 0.3)))
        out.append(p)
    # every algorithm with NaN (and pairs of infinities, whose difference is NaN) at several early evaluations
    for nm in names:
        for rep in range(max(2, count // 160)):
            n = rng.choice([2, 3, 4, 5])
            if nm == "NLOPT_GN_AGS":
                n = rng.choice([2, 3])
            p = problems.gen_problem(rng, A, alg_name=nm, n=n, maxeval=rng.choice([40, 120]), box="finite")
            ks = sorted(rng.sample(range(2, 36), 3))
            v = rng.choice(["7ff8000000000000", "7ff0000000000000", "fff0000000000000"])
            p["inj"] = ",".join("%d:%s" % (k, v) for k in ks + [ks[0] + 1])
            out.append(p)
    # extreme configurations: initial steps whose ratios overflow / underflow (the rescaling layer of COBYLA / BOBYQA rejects them on its
    # own return path), huge and tiny steps, steps far wider than the box — every rejection path must free its workspace
    for nm in names:
        for rep in range(max(2, count // 200)):
            n = rng.choice([2, 3, 5, 12])
            if nm == "NLOPT_GN_AGS":
                n = rng.choice([2, 3])
            p = problems.gen_problem(rng, A, alg_name=nm, n=n, maxeval=rng.choice([10, 40]), box="finite")
            kind = rep % 3
            if kind == 0:
                dx = [1e-200] * n
                dx[rng.randrange(n)] = 1e200
                if rng.random() < 0.5:
                    dx = [1e200 if v == 1e-200 else 1e-200 for v in dx]
            elif kind == 1:
                dx = [rng.choice([1e300, 1e-300, 5e-324, 1e155, -1e200]) for _ in range(n)]
            else:
                dx = [rng.choice([1e3, 1e6, -1e4]) * (1 + i) for i in range(n)]
            p["dx"] = dx
            out.append(p)
    return out


def run_chunk(exe, lines, tmo):
    e = dict(os.environ)
    e.update(ENV)
    e["HRUN_TIMEOUT"] = str(tmo)
    p = subprocess.run([exe], input=("\n".join(lines) + "\n").encode(), stdout=subprocess.PIPE, stderr=subprocess.DEVNULL, env=e)
    return swrap.parse_records(p.stdout.decode("utf-8", "replace"))


def classify(exe, spec, tmo):
    """re-run one spec alone to capture the sanitizer report"""
    e = dict(os.environ)
    e.update(ENV)
    e["HRUN_TIMEOUT"] = str(tmo)
    try:
        p = subprocess.run([exe], input=(spec + "\n").encode(), stdout=subprocess.PIPE, stderr=subprocess.PIPE, env=e, timeout=tmo + 30)
    except subprocess.TimeoutExpired:
        return "no report (timeout)", "", ""
    err = p.stderr.decode("utf-8", "replace")
    kind, where = "crash without sanitizer report", ""
    mu = re.search(r"runtime error: ([^\n]+)", err)
    ma = re.search(r"ERROR: AddressSanitizer: ([\w-]+)", err)
    if mu:
        kind = "undefined behaviour: " + re.sub(r"-?\d+(\.\d+)?(e[-+]?\d+)?", "N", mu.group(1))[:80]
    elif ma:
        kind = ma.group(1)
    elif p.returncode == 0 and "CRASH exit=25" in p.stdout.decode("utf-8", "replace") or "LeakSanitizer: detected memory leaks" in err:
        kind = "memory leak"
    fr = re.findall(r"#\d+ 0x[0-9a-f]+ in (\S+) (?:\S*/repo/)(\S+?):(\d+)", err)
    if fr:
        where = "%s (%s)" % (fr[0][0], os.path.basename(fr[0][1]))
    return kind, where, err[-2500:]


def run(ctx):
    bdir, A = runcheck.setup(ctx, ["C10", "Generated/Partitions"])
    if bdir:
        adir, ok, log = build_repo("asan")
        if not ok:
            ctx.broke("asan build of /repo failed", log[-800:])
        else:
            exe, ok, log = build_harness("run", adir, variant="asan")
            if not ok:
                ctx.broke("asan harness does not build", log)
            else:
                rng = random.Random(ctx.seed * 977 + 10)
                plist = gen(rng, A, 4000 if ctx.thorough else 640)
                lines = [problems.to_line(p) for p in plist]
                tmo = 8
                nchunk = 16
                chunks = [list(range(i, len(lines), nchunk)) for i in range(nchunk)]
                with concurrent.futures.ThreadPoolExecutor(nchunk) as ex:
                    res = list(ex.map(lambda idx: run_chunk(exe, [lines[i] for i in idx], tmo), chunks))
                st = collections.Counter()
                codes = collections.Counter()
                inj_seen = collections.Counter()
                bad = []
                for idx, runs in zip(chunks, res):
                    if len(runs) != len(idx):
                        ctx.broke("asan harness output incomplete", "%d of %d records" % (len(runs), len(idx)))
                        continue
                    for i, r in zip(idx, runs):
                        p = plist[i]
                        ctx.case(r.spec, nontrivial=len(r.calls) > 1)
                        s = r.status.split(" ")[0]
                        st[s] += 1
                        if "inj" in p or "injc" in p:
                            inj_seen["runs with injected non-finite/huge values"] += 1
                        if r.status == "ok":
                            ret = (r.R or {}).get("ret")
                            codes[str(ret)] += 1
                            if ret is not None and str(ret) not in DOCUMENTED:
                                ctx.violation({"alg": p["name"], "cause": "undocumented result code %s" % ret}, "%s returned %s" % (p["name"], ret),
                                              {"stream": "run-asan", "spec": r.spec})
                        elif r.status.startswith("CRASH"):
                            bad.append((p, r))
                seen = set()
                for p, r in bad[:200]:
                    kind, where, rep = classify(exe, r.spec, tmo)
                    sig = {"alg": p["name"], "cause": kind, "where": where}
                    key = (p["name"], kind, where)
                    if key in seen:
                        continue
                    seen.add(key)
                    ctx.violation(sig, "%s: %s at %s (%s)" % (p["name"], kind, where, r.status), {"stream": "run-asan", "spec": r.spec, "report": rep})
                ctx.corr["sanitizer runs (ASan+UBSan+LSan)"] = {"runs": len(lines), "status": dict(st), "return_codes": dict(codes), **inj_seen,
                                                                "dimensions": "1..12", "algorithms": len(set(p["alg"] for p in plist)),
                                                                "callbacks": sum(len(r.calls) for runs in res for r in runs),
                                                                "timeouts_not_counted_here": st.get("TIMEOUT", 0)}
                ctx.sample({"spec": lines[0]})
    ctx.cov["unproved"] = ["memory safety of the f2c-translated codes (Luksan, SLSQP, BOBYQA, NEWUOA, COBYLA, DIRECT), of AGS/StoGO (C++) and the absence of leaks "
                           "and undefined arithmetic are explored with sanitizers, not proved; the proved part is the work-space arithmetic listed in Props/C10.lean"]
    ctx.assumptions += ["the required length of each work-space segment (PARTITIONS in vlib/translators.py) is read off the algorithm's use of it by hand"]
    return ctx.finish(level="other", explanation="PARTIAL: Lean theorems (regenerated from the malloc / partition source text) prove that every work-space segment of MMA, CCSA, ISRES, Subplex, AUGLAG and PRAXIS fits its allocation for every n, m, population, plus the row/point index arithmetic of the population methods; memory safety of the numeric cores, leaks and undefined arithmetic are NOT proved but explored by AddressSanitizer+UBSan+LeakSanitizer runs of every algorithm with NaN/Inf/huge injections (sampling, not proof).", extra_cov={"rule": "a case = one sanitizer run; distinct by spec"})
