"""C16: optimizations on distinct objects in different threads do not interfere.  (partial: a Lean model cannot express data
races; the schedule-level theorem is proved, its footprint premise is regenerated from the build, and the runtime part is explored
with real threads and ThreadSanitizer)

proof:          Props/C16.lean: for EVERY interleaving, a thread whose steps touch only its own component ends in the state of its
                solo run (interleaving_noninterference, schedules_agree); the footprint premise = Generated/Globals.lean, the table of
                writable process-wide symbols of the fresh build (nm/readelf): no unlisted writable global, generator and clock are TLS
correspondence: translator `globals` (symbol table of libnlopt.a from the current tree) on every run
monitor:        harness/threads.c: the same jobs (own object, own srand) run on 1 thread and on K threads with several K; every job's
                evaluation sequence, x, minimum and code must be bitwise equal; the K-thread run is repeated under ThreadSanitizer and
                every reported race inside the library is a violation"""
import collections
import os
import random
import re
import subprocess

from .. import runcheck, problems
from ..common import build_repo, build_harness, hexd

EXCLUDE = set()


def gen_jobs(rng, A, per_alg):
    jobs = []
    for nm in problems.ALL:
        if nm not in A.idx or nm in ("NLOPT_AUGLAG", "NLOPT_AUGLAG_EQ", "NLOPT_G_MLSL", "NLOPT_G_MLSL_LDS", "NLOPT_LN_AUGLAG", "NLOPT_LD_AUGLAG",
                                      "NLOPT_LN_AUGLAG_EQ", "NLOPT_LD_AUGLAG_EQ"):
            continue
        for _ in range(per_alg):
            n = rng.choice([2, 2, 3])
            lb = [rng.uniform(-3, -1) for _ in range(n)]
            ub = [rng.uniform(1, 3) for _ in range(n)]
            x0 = [rng.uniform(-0.9, 0.9) for _ in range(n)]
            oc = [rng.uniform(-0.8, 0.8) for _ in range(n)]
            j = {"alg": A.id(nm), "name": nm, "n": n, "seed": rng.randrange(1, 10 ** 6), "maxeval": rng.choice([30, 80, 150]),
                 "obj": rng.choice([0, 1, 3]), "lb": lb, "ub": ub, "x0": x0, "oc": oc}
            if nm in problems.MLSL:
                j["local"] = A.id("NLOPT_LD_LBFGS" if "_GD_" in nm else "NLOPT_LN_NELDERMEAD")
            jobs.append(j)
    rng.shuffle(jobs)
    return jobs


def line(j):
    s = "alg=%d n=%d seed=%d maxeval=%d obj=%d" % (j["alg"], j["n"], j["seed"], j["maxeval"], j["obj"])
    for k in ("lb", "ub", "x0", "oc"):
        s += " %s=%s" % (k, problems.hl(j[k]))
    if "local" in j:
        s += " local=%d" % j["local"]
    return s


def run_h(exe, lines, K, env=None, timeout=600):
    e = dict(os.environ)
    e.update(env or {})
    try:
        p = subprocess.run([exe, str(K)], input=("\n".join(lines) + "\n").encode(), stdout=subprocess.PIPE, stderr=subprocess.PIPE, timeout=timeout, env=e)
    except subprocess.TimeoutExpired:
        return None, "timeout", -1
    out = p.stdout.decode("utf-8", "replace")
    jobs = collections.OrderedDict()
    cur = None
    for l in out.split("\n"):
        if l.startswith("JOB "):
            cur = int(l[4:])
            jobs[cur] = []
        elif cur is not None and l:
            jobs[cur].append(l)
    return jobs, p.stderr.decode("utf-8", "replace"), p.returncode


def tsan_races(err):
    """list of (kind, frames-in-library) per ThreadSanitizer report"""
    res = []
    for blk in err.split("=================="):
        if "WARNING: ThreadSanitizer" not in blk:
            continue
        m = re.search(r"WARNING: ThreadSanitizer: ([^\(\n]+)", blk)
        kind = m.group(1).strip() if m else "?"
        loc = re.search(r"Location is global '([^']+)'", blk)
        files = re.findall(r"#\d+ (\S+) (?:/repo/|\S*/repo/)?(\S+?):\d+", blk)
        fn = [f for f, _ in files if f not in ("objective", "worker", "run_job", "main")]
        src = [os.path.basename(s) for _, s in files]
        res.append((kind, loc.group(1) if loc else "", fn[:2], sorted(set(src))[:3], blk.strip()[:1500]))
    return res


def run(ctx):
    bdir, A = runcheck.setup(ctx, ["C16"])
    if bdir:
        rng = random.Random(ctx.seed * 131 + 16)
        jobs = gen_jobs(rng, A, 6 if ctx.thorough else 2)
        lines = [line(j) for j in jobs]
        exe, ok, log = build_harness("threads", bdir)
        if not ok:
            ctx.broke("harness threads.c does not build", log)
        else:
            ref, err, rc = run_h(exe, lines, 1)
            if ref is None or rc != 0 or len(ref) != len(jobs):
                ctx.broke("sequential reference run failed", "rc=%s %s" % (rc, (err or "")[-500:]))
            else:
                tot = collections.Counter()
                for K in ([2, 5, 16, 16, 16, 32] if ctx.thorough else [3, 16, 16]):
                    par, err, rc = run_h(exe, lines, K)
                    if par is None or rc != 0 or len(par) != len(jobs):
                        ctx.violation({"cause": "crash or hang with concurrent optimizations", "threads": "any"},
                                      "run with %d threads ended with rc=%s %s" % (K, rc, (err or "")[-300:]), {"stream": "threads", "K": K, "jobs": lines})
                        continue
                    for i, j in enumerate(jobs):
                        tot["jobs"] += 1
                        ctx.case("K=%d %s" % (K, lines[i]), nontrivial=len(ref[i]) > 2)
                        if par[i] != ref[i]:
                            k = next((t for t, (a, b) in enumerate(zip(par[i], ref[i])) if a != b), min(len(par[i]), len(ref[i])))
                            ctx.violation({"alg": j["name"], "cause": "result differs when other optimizations run concurrently"},
                                          "%s: with %d threads line %d of the job's trace differs from the solo run (%d vs %d lines)" %
                                          (j["name"], K, k + 1, len(par[i]), len(ref[i])), {"stream": "threads", "K": K, "job": i, "jobs": lines})
                ctx.corr["threads (solo | concurrent)"] = {"jobs": len(jobs), "comparisons": tot["jobs"], "algorithms": len(set(j["alg"] for j in jobs)),
                                                           "evaluations_per_reference_run": sum(len(v) - 1 for v in ref.values())}
                ctx.sample({"job": lines[0], "trace_lines": len(ref[0])})
        # ThreadSanitizer
        tdir, ok, log = build_repo("tsan")
        if not ok:
            ctx.broke("tsan build of /repo failed", log[-800:])
        else:
            exe_t, ok, log = build_harness("threads", tdir, variant="tsan")
            if not ok:
                ctx.broke("tsan harness does not build", log)
            else:
                sub = lines if ctx.thorough else lines[:60]
                seen = collections.Counter()
                for K in ([4, 16] if ctx.thorough else [8]):
                    par, err, rc = run_h(exe_t, sub, K, env={"TSAN_OPTIONS": "halt_on_error=0 report_signal_unsafe=0 exitcode=0 history_size=4"}, timeout=1500)
                    if par is None:
                        ctx.broke("tsan run timed out", "")
                        continue
                    for kind, loc, fn, src, blk in tsan_races(err):
                        key = (kind, loc or ",".join(src))
                        seen[key] += 1
                        if seen[key] > 1:
                            continue
                        ctx.violation({"cause": "ThreadSanitizer: " + kind, "where": loc or ",".join(src)},
                                      "ThreadSanitizer: %s at %s (%s)" % (kind, loc or ",".join(src), ",".join(fn)), {"stream": "tsan", "K": K, "jobs": sub, "report": blk})
                ctx.corr["ThreadSanitizer"] = {"jobs": len(sub), "distinct_reports": len(seen), "reports": sum(seen.values())}
    ctx.cov["unproved"] = ["data races and the C memory model are outside the Lean model: the per-thread footprint premise is established from the symbol table "
                           "(writable globals) and explored with ThreadSanitizer, not proved for heap objects reachable from two nlopt_opt (which the API never creates: C15)"]
    ctx.assumptions += ["user callbacks touch only their own data", "nlopt_srand is called by each thread for itself (thread-local generator)"]
    return ctx.finish(level="other", explanation="PARTIAL: Lean proves schedule-level non-interference (every interleaving, any thread count) under the footprint premise, and the premise is re-derived on every run from the symbol table of the fresh build (no unlisted writable global, allow-listed globals never assigned, generator and clock thread-local); data races and the C memory model are NOT provable in the model and are explored with real threads (bitwise solo-vs-concurrent comparison) and ThreadSanitizer (sampling, not proof).", extra_cov={"rule": "a case = one job under one thread count; distinct by (K, job line)"})
