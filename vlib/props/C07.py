"""C07: runs are reproducible and do not alter the optimizer object.

proof:          Props/Wrap.lean optimize_preserves_settings(_exact/_fields): for EVERY algorithm machine, user, return path the
                object's user-visible settings after nlopt_optimize equal those before (only numevals / force-stop value change;
                maximize flip, stopval sign, memo and elimination swaps are undone; unset dx stays unset);
                determinism: `optimize` is a function of (object, x0, user machine, algorithm machine) — its content for the
                code is the generated table of writable globals (Generated/Globals.lean: no_hidden_state)
translator:     Globals.lean regenerated from `nm` of the freshly built library: every writable non-TLS symbol must be on the
                allow-list (verbosity flags, legacy defaults, AGS/StoGO tuning constants); RNG and timer state must be TLS
correspondence: S-wrap replay (object after the call, field by field)
monitor:        same problem twice in two processes / twice on one object (reseeded) / on a copy: bitwise equal traces and
                results; getter snapshot before == after for every return path"""
import random
import re
import subprocess
import os

from .. import monitors, runcheck, problems, swrap
from ..common import LEAN, write_if_changed


def same(a, b):
    if len(a.calls) != len(b.calls):
        return "number of callbacks differs: %d vs %d" % (len(a.calls), len(b.calls))
    for k, (p, q) in enumerate(zip(a.calls, b.calls)):
        if (p.kind, p.x, p.g, p.val) != (q.kind, q.x, q.g, q.val):
            return "callback %d differs" % (k + 1)
    if runcheck.result_of(a)[:3] != runcheck.result_of(b)[:3]:
        return "result differs: %s vs %s" % (runcheck.result_of(a)[:3], runcheck.result_of(b)[:3])
    return None


SETTINGS = ("alg", "n", "max", "hasf", "haspre", "lb", "ub", "stopval", "ftol_rel", "ftol_abs", "xtol_rel", "xtol_abs", "xw", "dx",
            "maxeval", "maxtime", "pop", "vs", "m", "p", "fc", "h", "params")


def mon_settings(ri):
    r = ri.run
    if r.pre is None or r.post is None:
        return None
    for k in SETTINGS:
        if r.pre.get(k) != r.post.get(k):
            return ({"alg": ri.name, "cause": "setting changed by nlopt_optimize", "field": k},
                    "%s: getter %s was %s before and %s after nlopt_optimize (ret=%s)" % (ri.name, k, r.pre.get(k), r.post.get(k), ri.ret))
    return None


def run(ctx):
    from translate import alglists
    ctx.bdir = ctx.repo_stage()
    ctx.lean_stage(["Wrap:optimize_preserves|optimize_nof", "Generated/Globals"])
    # the generated theorems
    from ..common import audit_props
    bdir = ctx.bdir
    if bdir and getattr(ctx, "alg", None):
        A = problems.Algs(ctx.alg)
        ctx.algnames = A.names
        rng = random.Random(ctx.seed * 29 + 7)
        ps = [problems.gen_problem(rng, A) for _ in range(2500 if ctx.thorough else 600)]
        # the seed value 0 is a seed like any other (nlopt_srand(0) must make the run reproducible)
        for nm in problems.GLOBAL + problems.MLSL + ["NLOPT_LN_PRAXIS"]:
            p = problems.gen_problem(rng, A, alg_name=nm, box="finite", with_constraints=False)
            p["seed"] = 0
            ps.append(p)
        # error paths too
        for nm in problems.ALL[:20]:
            p = problems.gen_problem(rng, A, alg_name=nm)
            p["x0"] = [v + 1e6 for v in p["x0"]]
            ps.append(p)
        # rejected calls: the start violates a FIXED coordinate (checked on a different path than ordinary bound violations)
        for nm in problems.ALL:
            p = problems.gen_problem(rng, A, alg_name=nm, box="fixed")
            fixed = [i for i, (a, b) in enumerate(zip(p["lb"], p["ub"])) if a == b]
            if not fixed:
                continue
            p["x0"] = list(p["x0"])
            p["x0"][fixed[0]] = p["lb"][fixed[0]] + rng.choice([0.5, -0.5])
            if rng.random() < 0.7:
                p["max"] = 1
            ps.append(p)
        # failure return paths of the cores: a box that is only a few ulps wide in one coordinate (lb != ub, so the coordinate is
        # NOT eliminated) with the DEFAULT initial step — degenerate simplices, zero trust regions, roundoff exits; whatever code comes
        # back, the object must report the settings it reported before (an unset initial step stays unset)
        import math
        for nm in problems.ALL:
            for rep in range(4 if ctx.thorough else 2):
                n = rng.choice([2, 3])
                p = problems.gen_problem(rng, A, alg_name=nm, n=n, box="finite", with_constraints=False, maxeval=rng.choice([40, 200]))
                for k in ("dx", "maxtime", "clockq", "clock0", "inj", "stopval"):
                    p.pop(k, None)
                i = rng.randrange(n)
                lo = rng.choice([1.0, -1.0, 0.75, 1024.0, -3.5])
                hi = lo
                for _ in range(rng.choice([1, 2, 40, 180])):
                    hi = math.nextafter(hi, math.inf)
                p["lb"], p["ub"], p["x0"] = list(p["lb"]), list(p["ub"]), list(p["x0"])
                p["lb"][i], p["ub"][i] = lo, hi
                p["x0"][i] = rng.choice([lo, hi, lo])
                ps.append(p)
        b1 = runcheck.run_batch(ctx, bdir, A, ps, [mon_settings], "first process", blame_crash=False)
        b2 = runcheck.run_batch(ctx, bdir, A, ps, [], "second process", replay=False, blame_crash=False)
        runcheck.compare_pairs(ctx, [r for _, r, _ in b1], [r for _, r, _ in b2], same, "two processes", {"cause": "two equal runs differ"})
        # twice on the same object (generator reseeded) and on a copy
        ps2 = []
        for p in ps[:len(ps) // 2]:
            q = dict(p)
            q["runs"] = 2
            q["reseed"] = 1
            ps2.append(q)
        # nested configurations keep a subsidiary object inside the user's object between calls: explicit local optimizer,
        # constraints handed down (AUGLAG_EQ), population / vector storage settings
        for nm in problems.AUGLAG + problems.MLSL:
            for _ in range(6 if ctx.thorough else 2):
                p = problems.gen_problem(rng, A, alg_name=nm, with_constraints=("AUGLAG" in nm), box="finite", maxeval=rng.choice([30, 80]))
                deriv = "_LD_" in nm or "_GD_" in nm
                loc = rng.choice(["NLOPT_LD_SLSQP", "NLOPT_LD_MMA", "NLOPT_LD_LBFGS"] if deriv else ["NLOPT_LN_COBYLA", "NLOPT_LN_NELDERMEAD", "NLOPT_LN_SBPLX"])
                if "AUGLAG" in nm and "ineq" in p and not deriv and "_EQ" in nm:
                    loc = "NLOPT_LN_COBYLA"          # the subsidiary optimizer must accept the inequality constraints handed down
                if "AUGLAG" in nm and deriv and "_EQ" in nm:
                    loc = rng.choice(["NLOPT_LD_SLSQP", "NLOPT_LD_MMA"])
                p["local"] = "%d:%d:%x:%x" % (A.id(loc), rng.choice([0, 20]), 0x3f50624dd2f1a9fc, 0x3f50624dd2f1a9fc)
                p["runs"] = 3
                p["reseed"] = 1
                ps2.append(p)
        # preconditioned objectives (CCSAQ), minimised and maximised: the wrapper installed around the user's preconditioner for
        # the duration of a maximising call must be gone afterwards (the second run on the same object would wrap it again)
        for rep in range(12 if ctx.thorough else 4):
            p = problems.gen_problem(rng, A, alg_name="NLOPT_LD_CCSAQ", with_constraints=(rep % 2 == 1), box="finite", maxeval=rng.choice([15, 40]), allow_max=False)
            if rep % 4 < 3:
                p["max"] = 1
            p["pre"] = 1
            p["runs"] = 2
            p["reseed"] = 1
            ps2.append(p)
        lines = [problems.to_line(p) for p in ps2]
        runs, _ = swrap.run_specs(bdir, lines)
        firsts = [r for r in runs if getattr(r, "part", 1) == 1]
        thirds = []
        seconds = {}
        for i, r in enumerate(runs):
            if getattr(r, "part", 1) == 2:
                seconds[id(runs[i - 1])] = r
            elif getattr(r, "part", 1) == 3 and i >= 2:
                thirds.append((runs[i - 2], r))
        for r in firsts:
            if not r.R:
                continue                # the first run itself did not complete: not a statement about repeated runs (C03 / C10)
            ri1 = monitors.RunInfo(r, A)
            v = mon_settings(ri1) if r.post else None
            if v:
                ctx.violation(v[0], v[1], {"stream": "run", "spec": r.spec})
            if r.status != "ok" and id(r) not in seconds:
                # the first run returned, the process died in a later run on the same object
                ctx.violation({"alg": ri1.name, "cause": "a later run on the same object crashed or hung after a first run that returned"},
                              "%s: first run returned %s, then %s in a following run on the same object" % (ri1.name, r.R.get("ret"), r.status),
                              {"stream": "run", "spec": r.spec})
        pa = [r for r in firsts if id(r) in seconds]
        pb = [seconds[id(r)] for r in pa]
        runcheck.compare_pairs(ctx, pa, pb, same, "twice on the same object", {"cause": "second run on the same object differs"})
        if thirds:
            runcheck.compare_pairs(ctx, [a for a, _ in thirds], [b for _, b in thirds], same, "three times on the same object", {"cause": "third run on the same object differs"})
        ps3 = [dict(p, copy=1) for p in ps[:len(ps) // 2]]
        b3 = runcheck.run_batch(ctx, bdir, A, ps3, [], "on a copy", replay=False, blame_crash=False)
        runcheck.compare_pairs(ctx, [r for _, r, _ in b1][:len(ps3)], [r for _, r, _ in b3], same, "original vs nlopt_copy", {"cause": "copy optimizes differently"})
        # every return path includes the out-of-memory exits of nlopt_optimize itself: the k-th allocation made inside the call
        # fails (malloc interposed), for maximization / memoized / dimension-eliminated / nested configurations
        from ..common import build_harness
        exe, ok, log = build_harness("run_oom", bdir, extra=["-fno-builtin", "-Wl,--wrap=malloc,--wrap=calloc,--wrap=realloc"])
        if not ok:
            ctx.broke("harness run_oom.c does not build", log)
        else:
            po = []
            for nm in problems.ALL:
                if nm in ("NLOPT_GN_AGS", "NLOPT_GD_STOGO", "NLOPT_GD_STOGO_RAND"):
                    continue          # C++ cores allocate with operator new (not interposed)
                base = problems.gen_problem(rng, A, alg_name=nm, box=rng.choice(["fixed", "fixed", "finite"]), maxeval=rng.choice([5, 15]))
                if rng.random() < 0.6:
                    base["max"] = 1
                    if "stopval" in base:
                        base["stopval"] = abs(base["stopval"])
                for k in (range(1, 25) if ctx.thorough else (1, 2, 3, 4, 5, 6, 8, 11, 15)):
                    q = dict(base)
                    q["failalloc"] = k
                    po.append(q)
            env = dict(os.environ)
            env["HRUN_TIMEOUT"] = "10"
            pr = subprocess.run([exe], input=("\n".join(problems.to_line(p) for p in po) + "\n").encode(), stdout=subprocess.PIPE, stderr=subprocess.PIPE, env=env)
            oruns = swrap.parse_records(pr.stdout.decode("utf-8", "replace"))
            fired = crashed = 0
            for p, r in zip(po, oruns):
                ctx.case(r.spec)
                name = A.name(p["alg"])
                if r.status != "ok":
                    # a crash is not a return path: none of the 20 properties quantifies over allocation failures inside
                    # nlopt_optimize (C18 covers the configuration calls), so this is recorded as an observation, not a violation
                    crashed += 1
                    ctx.cov.setdefault("observations_outside_the_property_list", []).append("%s: %s when allocation %d inside nlopt_optimize fails" % (name, r.status, p["failalloc"]))
                    continue
                if getattr(r, "oom", {}).get("fired") == "1":
                    fired += 1
                ri = monitors.RunInfo(r, A)
                v = mon_settings(ri)
                if v:
                    v[0]["path"] = "allocation failure inside nlopt_optimize"
                    ctx.violation(v[0], v[1] + " [allocation %d failed]" % p["failalloc"], {"stream": "run_oom", "spec": r.spec})
            ctx.corr["allocation failures inside nlopt_optimize"] = {"runs": len(oruns), "runs_in_which_the_fault_fired": fired, "crashes": crashed}
        ctx.sample({"spec": b1[0][1].spec})
    ctx.assumptions += ["determinism of the numeric cores beyond the global-symbol table (e.g. reads of uninitialised memory) is not modelled",
                        "separate processes share the machine's libm and FPU settings"]
    return ctx.finish(level="proof", extra_cov={"rule": "a case = one run; distinct by spec"})
