"""C19: the red-black tree behind the global algorithms is a balanced sorted multiset.

proof:          Props/C19.lean (model Model/RBTree.lean mirrors redblack.c step for step)
correspondence: S-util rb stream: operation histories executed on the C tree and on the model; shape
                dump (preorder of colour, key id, value), element count, nlopt_rb_tree_check and every
                query answer compared after each op; exhaustive short histories + long random ones
monitor:        sorted-multiset reference in Python on the C answers (violation search)"""
import itertools
import random

from ..common import sh, build_harness, run_model


def gen_random(rng, nops, vals, maxlive):
    ops, live, nxt = [], {}, 0
    for _ in range(nops):
        k = rng.random()
        if (k < 0.45 and len(live) < maxlive) or not live:
            v = rng.randrange(vals)
            live[nxt] = v
            ops.append("ins %d %d" % (nxt, v))
            nxt += 1
        elif k < 0.65:
            kid = rng.choice(sorted(live))
            del live[kid]
            ops.append("rem %d" % kid)
        elif k < 0.85:
            kid = rng.choice(sorted(live))
            v = rng.randrange(vals)
            live[kid] = v
            ops.append("rekey %d %d" % (kid, v))
        else:
            ops.append("rem %d" % (nxt + 5))   # absent
        q = rng.randrange(9)
        probe = rng.randrange(-1, vals + 1)
        anyk = rng.choice(sorted(live)) if live else 0
        ops.append("dump")
        ops.append(["min", "max", "succ %d" % anyk, "pred %d" % anyk, "find %d" % probe,
                    "find_le %d" % probe, "find_lt %d" % probe, "find_gt %d" % probe, "n"][q])
        ops.append("check")
    return ops


def all_queries(kids, vals):
    q = ["dump", "min", "max", "n", "check"]
    for k in kids:
        q += ["succ %d" % k, "pred %d" % k]
    for v in range(-1, vals + 1):
        q += ["find %d" % v, "find_le %d" % v, "find_lt %d" % v, "find_gt %d" % v]
    return q


def gen_exhaustive(length, vals):
    """every history of `length` ops over ins(v)/rem(kid)/rekey(kid,v) with a small alphabet; all queries after each op"""
    hists = []

    def rec(prefix, live, nxt):
        if len(prefix) == length:
            hists.append(list(prefix))
            return
        for v in range(vals):
            rec(prefix + ["ins %d %d" % (nxt, v)], {**live, nxt: v}, nxt + 1)
        for kid in sorted(live):
            l2 = dict(live)
            del l2[kid]
            rec(prefix + ["rem %d" % kid], l2, nxt)
            for v in range(vals):
                if v != live[kid]:
                    rec(prefix + ["rekey %d %d" % (kid, v)], {**live, kid: v}, nxt)
    rec([], {}, 0)
    return hists


class RefMultiset:
    """sorted-multiset oracle for the monitor (keys = (val, kid)); checks the C answers"""

    def __init__(self):
        self.k = {}

    def apply(self, op):
        t = op.split()
        if t[0] == "ins":
            self.k[int(t[1])] = int(t[2])
        elif t[0] == "rem":
            self.k.pop(int(t[1]), None)
        elif t[0] == "rekey" and int(t[1]) in self.k:
            self.k[int(t[1])] = int(t[2])

    def check(self, op, ans, inorder):
        """inorder: list of (kid,val) parsed from the C dump (in-order); returns error text or None"""
        t = op.split()
        vals = sorted(self.k.values())
        got = None if ans == "nil" else ans
        def val_of(a):
            return self.k.get(int(a)) if a is not None else None
        if t[0] == "min":
            return None if (val_of(got) == (vals[0] if vals else None)) else "min"
        if t[0] == "max":
            return None if (val_of(got) == (vals[-1] if vals else None)) else "max"
        if t[0] == "n":
            return None if int(ans) == len(self.k) else "count"
        if t[0] == "check":
            return None if ans == "1" else "structural check failed"
        if t[0] == "find":
            v = int(t[1])
            return None if ((got is None and v not in vals) or (got is not None and val_of(got) == v)) else "find"
        if t[0] == "find_le":
            c = [x for x in vals if x <= int(t[1])]
            return None if val_of(got) == (c[-1] if c else None) else "find_le"
        if t[0] == "find_lt":
            c = [x for x in vals if x < int(t[1])]
            return None if val_of(got) == (c[-1] if c else None) else "find_lt"
        if t[0] == "find_gt":
            c = [x for x in vals if x > int(t[1])]
            return None if val_of(got) == (c[0] if c else None) else "find_gt"
        if t[0] in ("succ", "pred") and inorder is not None:
            kid = int(t[1])
            pos = [i for i, (k, _) in enumerate(inorder) if k == kid]
            if not pos:
                return None if got is None else t[0]
            j = pos[0] + (1 if t[0] == "succ" else -1)
            exp = inorder[j][0] if 0 <= j < len(inorder) else None
            return None if (None if got is None else int(got)) == exp else t[0]
        return None


def parse_dump(d):
    """in-order list of (kid, val) and max depth from the preorder dump text"""
    toks = d.replace("(", " ( ").replace(")", " ) ").split()
    pos = 0
    out = []
    maxd = 0

    def node(depth):
        nonlocal pos, maxd
        if toks[pos] == ".":
            pos += 1
            return
        assert toks[pos] == "("
        pos += 1
        pos += 1                      # colour
        kid, val = toks[pos].split(":")
        pos += 1
        maxd = max(maxd, depth)
        node(depth + 1)
        out.append((int(kid), int(val)))
        node(depth + 1)
        assert toks[pos] == ")"
        pos += 1
    node(1)
    return out, maxd


def run(ctx):
    from translate import alglists  # noqa: F401  (keeps Generated/ in step for the shared lake build)
    ctx.lean_stage(["C19"])
    bdir = ctx.repo_stage()
    if bdir:
        exe, ok, log = build_harness("util", bdir)
        if not ok:
            ctx.broke("util harness build", log)
            bdir = None
    if bdir:
        rng = random.Random(ctx.seed)
        hists = []
        # corpus + exhaustive short histories
        L = 4 if ctx.thorough else 3
        ex = gen_exhaustive(L, 2)
        kids = list(range(L))
        for h in ex:
            ops = ["reset"]
            for o in h:
                ops.append(o)
                ops += all_queries(kids, 2)
            hists.append(("exh", ops))
        nrand = 200 if ctx.thorough else 24
        for i in range(nrand):
            nops = rng.choice([50, 200, 600, 2000 if ctx.thorough else 800])
            vals = rng.choice([1, 2, 3, 10, 1000])
            hists.append(("rnd", ["reset"] + gen_random(rng, nops, vals, rng.choice([4, 30, 400]))))
        text = "\n".join("\n".join(o) for _, o in hists) + "\n"
        rc, out = sh([exe, "rb"], input=text.encode(), timeout=3000)
        impl = out.split("\n")
        try:
            model = run_model("rb", text, timeout=3000)
        except Exception as e:
            ctx.broke("rb model driver", repr(e))
            model = []
        allops = [o for _, ops in hists for o in ops]
        ndis = 0
        first = None
        for i, op in enumerate(allops):
            a = impl[i] if i < len(impl) else "<missing>"
            b = model[i] if i < len(model) else "<missing>"
            if a != b:
                ndis += 1
                if first is None:
                    first = i
        ctx.corr["rb"] = {"ops": len(allops), "histories": len(hists), "exhaustive_histories": len(ex),
                          "exhaustive_length": L, "disagreements": ndis}
        if ndis:
            j = first
            start = max(k for k in range(j + 1) if allops[k] == "reset")
            ctx.broke("correspondence rb (model vs redblack.c)", "first at op %d: %s  impl=%s model=%s" % (
                j, allops[j], impl[j][:200] if j < len(impl) else "?", model[j][:200] if j < len(model) else "?"))
            ctx.cov["rb_first_disagreement_history"] = allops[start:j + 1][-60:]
        # monitor on the real answers
        ref = None
        inorder = None
        lastdump = ""
        hist_ops = []
        maxratio = 0.0
        import math
        for i, op in enumerate(allops):
            ans = impl[i] if i < len(impl) else ""
            if op == "reset":
                ref = RefMultiset()
                inorder = []
                hist_ops = []
                continue
            hist_ops.append(op)
            ref.apply(op)
            t = op.split()[0]
            err = None
            if t == "dump":
                lastdump = ans
                try:
                    inorder, depth = parse_dump(ans)
                    vs = [v for _, v in inorder]
                    if vs != sorted(vs):
                        err = "in-order sequence not sorted"
                    elif sorted(inorder) != sorted((k, v) for k, v in ref.k.items()):
                        err = "contents differ from the multiset"
                    elif depth > 2 * math.floor(math.log2(len(inorder) + 1)) and inorder:
                        err = "height %d exceeds 2*log2(N+1)" % depth
                    if inorder:
                        maxratio = max(maxratio, depth / max(1.0, math.log2(len(inorder) + 1)))
                except Exception as e:
                    err = "unparsable dump %r" % (e,)
            elif t in ("ins", "rem", "rekey"):
                pass
            else:
                err = ref.check(op, ans, inorder)
            ctx.case(str(hash((lastdump, op))), nontrivial=len(ref.k) > 2)
            if err:
                mut = [o for o in hist_ops if o.split()[0] in ("ins", "rem", "rekey")]
                ctx.violation({"api": "redblack", "query": err}, "red-black tree disagrees with the sorted multiset: " + err,
                              {"stream": "rb", "ops": mut[-400:] + [op], "answer": ans})
                break
        ctx.cov["max_height_over_log2"] = round(maxratio, 3)
        ctx.sample({"history": hists[-1][1][:12]})
        ctx.sample({"history": hists[0][1][:8]})
    ctx.assumptions += ["keys compared through the comparator as integers (the C harness stores them as doubles holding integers)",
                        "node storage / malloc failure not modelled"]
    return ctx.finish(level="proof", extra_cov={"rule": "a case = one query or dump after an operation; non-trivial when the tree holds > 2 keys; distinct by (tree shape dump, query)"})
