"""C09: ill-posed calls are rejected without side effects.

proof:          Props/Wrap.lean ill_posed_rejected + rejected_* (every algorithm machine: INVALID_ARGS, no user callback, x
                unchanged — the exact hypothesis StartExact and its -0.0 / NaN witnesses are part of the file),
                Props/C09.lean null_handle_rejected (every nlopt_result-returning configuration function, NULL handle),
                Props/C14.lean failed_call_changes_nothing (invalid arguments on a live handle change no getter)
correspondence: S-wrap replay of every rejected run; S-api histories with NULL handles and out-of-domain arguments
monitor:        for every algorithm x violation kind x otherwise valid random configuration: return code INVALID_ARGS, zero
                callback invocations, x bitwise unchanged, no crash (each run in its own child process)"""
import random

from .. import runcheck, problems, swrap, sapi
from ..common import hexd

KINDS = ["noobj", "nullf", "nullopt", "x0_outside", "x0_fixed", "lb_gt_ub", "infinite_global", "missing_local", "dimension", "population", "step_too_wide", "nullx", "too_many_eq"]


def violate(rng, A, p, kind, algd):
    q = dict(p)
    n = p["n"]
    name = A.name(p["alg"])
    if kind == "noobj":
        q["noobj"] = 1
    elif kind == "nullf":
        q["nullf"] = 1
    elif kind == "nullopt":
        q["nullopt"] = 1
    elif kind == "nullx":
        q["nullx"] = 1
    elif kind == "too_many_eq":
        # more equality constraints (counted by components) than variables: SLSQP must refuse before any callback
        if name != "NLOPT_LD_SLSQP":
            return None
        q.pop("ineq", None)
        if rng.random() < 0.5:
            q["eq"] = ";".join("s:0:%s:%s:%d" % (hexd(0.0), hexd(rng.uniform(-0.3, 0.3)), 3 + k) for k in range(n + 1))
        else:
            q["eq"] = "v:%d:0:-:%s:3" % (n + rng.choice([1, 2]), hexd(rng.uniform(-0.3, 0.3)))
    elif kind == "x0_outside":
        i = rng.randrange(n)
        free = [k for k in range(n) if p["lb"][k] != p["ub"][k]]
        if not free:
            return None
        i = rng.choice(free)
        q["x0"] = list(p["x0"])
        if p["ub"][i] < 1e300 and (rng.random() < 0.5 or p["lb"][i] < -1e300):
            q["x0"][i] = p["ub"][i] + rng.choice([1e-9, 1.0, abs(p["ub"][i]) * 1e-15 + 1e-300])
            if q["x0"][i] == p["ub"][i]:
                q["x0"][i] = p["ub"][i] + 1.0
        elif p["lb"][i] > -1e300:
            q["x0"][i] = p["lb"][i] - rng.choice([1e-9, 1.0])
            if q["x0"][i] == p["lb"][i]:
                q["x0"][i] = p["lb"][i] - 1.0
        else:
            return None
    elif kind == "x0_fixed":
        q["ub"] = list(p["ub"])
        q["x0"] = list(p["x0"])
        i = rng.randrange(n)
        q["ub"][i] = p["lb"][i]
        if p["lb"][i] < -1e300:
            return None
        q["x0"][i] = p["lb"][i] + rng.choice([0.5, -0.5, 1e-9])
        if q["x0"][i] == p["lb"][i]:
            q["x0"][i] = p["lb"][i] + max(1.0, abs(p["lb"][i])) * 0.5
    elif kind == "lb_gt_ub":
        i = rng.randrange(n)
        if p["ub"][i] > 1e300 or p["lb"][i] < -1e300:
            return None
        q["lb"] = list(p["lb"])
        q["ub"] = list(p["ub"])
        q["lb"][i], q["ub"][i] = p["ub"][i] + 0.5, p["lb"][i]
        q["x0"] = list(p["x0"])
    elif kind == "infinite_global":
        if p["alg"] not in algd["finite"]:
            return None
        q["ub"] = list(p["ub"])
        q["lb"] = list(p["lb"])
        i = rng.randrange(n)
        if rng.random() < 0.5:
            q["ub"][i] = float("inf")
        else:
            q["lb"][i] = float("-inf")
    elif kind == "missing_local":
        if p["alg"] not in algd["needlocal"]:
            return None
        q.pop("local", None)
    elif kind == "dimension":
        if name not in ("NLOPT_LN_NEWUOA", "NLOPT_LN_NEWUOA_BOUND"):
            return None
        for k in ("lb", "ub", "x0", "oc", "dx", "xtol_abs", "xw"):
            if k in q and q[k] is not None:
                q[k] = list(q[k])[:1]
        q["n"] = 1
    elif kind == "step_too_wide":
        # rejected inside the numeric core before any evaluation: the initial step does not fit twice between the bounds of a
        # LATER coordinate (earlier coordinates have room, so a coordinate-by-coordinate repair of x would already have run)
        if name != "NLOPT_LN_BOBYQA" or n < 2:
            return None
        q["lb"] = [0.0] * n
        q["ub"] = [10.0] * (n - 1) + [1.0]
        q["x0"] = [rng.choice([0.5, 0.25, 9.75]) for _ in range(n - 1)] + [0.5]
        q["dx"] = [1.0] * n
        q.pop("xw", None)
    elif kind == "population":
        if name not in ("NLOPT_GN_CRS2_LM",):
            return None
        if n < 2:
            return None
        q["pop"] = rng.choice([1, n - 1, n, n])          # CRS needs at least n + 1 points (a simplex)
    q["_kind"] = kind
    return q


def check_rejected(ctx, A, p, r):
    name = A.name(p["alg"])
    kind = p["_kind"]
    if r.status != "ok":
        return ({"alg": name, "cause": "crash on ill-posed call", "kind": kind}, "%s: %s on %s" % (name, r.status, kind))
    R = r.R or {}
    if R.get("ret") != "-2":
        return ({"alg": name, "cause": "ill-posed call not rejected", "kind": kind}, "%s: %s returned %s instead of NLOPT_INVALID_ARGS" % (name, kind, R.get("ret")))
    if r.calls:
        return ({"alg": name, "cause": "callback invoked on a rejected call", "kind": kind}, "%s: %s made %d callback invocations" % (name, kind, len(r.calls)))
    x0 = problems.hl(p["x0"]) if p["n"] else "_"
    if (R.get("x") or "_") != x0:
        return ({"alg": name, "cause": "x modified by a rejected call", "kind": kind}, "%s: %s changed x from %s to %s" % (name, kind, x0, R.get("x")))
    return None


def run(ctx):
    bdir, A = runcheck.setup(ctx, ["Wrap:rejected|ill_posed|zero_dim|startExact", "C09", "C14:failed_call"])
    if bdir:
        rng = random.Random(ctx.seed * 53 + 9)
        ps = []
        reps = 6 if ctx.thorough else 2
        for nm in problems.ALL:
            for kind in KINDS:
                for _ in range(reps):
                    # boxes with fixed coordinates only where the rejection does not depend on the number of free variables
                    # (a problem whose coordinates are ALL fixed is a valid zero-dimensional problem for every algorithm)
                    boxes = ["finite", "finite", "offset", "big"] + (["fixed"] if kind in ("noobj", "nullf", "nullopt", "nullx") else [])
                    base = problems.gen_problem(rng, A, alg_name=nm, box=rng.choice(boxes))
                    q = violate(rng, A, base, kind, ctx.alg)
                    if q:
                        ps.append(q)
        for _ in range(12 if ctx.thorough else 6):       # population = n, n - 1, 1 for several n
            base = problems.gen_problem(rng, A, alg_name="NLOPT_GN_CRS2_LM", box="finite", n=rng.choice([2, 3, 4]))
            q = violate(rng, A, base, "population", ctx.alg)
            if q:
                ps.append(q)
        for _ in range(12 if ctx.thorough else 5):       # both variants (n+1 scalars | one vector of dimension > n), several n
            base = problems.gen_problem(rng, A, alg_name="NLOPT_LD_SLSQP", box="finite")
            q = violate(rng, A, base, "too_many_eq", ctx.alg)
            if q:
                ps.append(q)
        lines = [problems.to_line(p) for p in ps]
        runs, _ = swrap.run_specs(bdir, lines)
        import collections
        kinds = collections.Counter()
        for p, r in zip(ps, runs):
            kinds[p["_kind"]] += 1
            ctx.case(r.spec)
            v = check_rejected(ctx, A, p, r)
            if v:
                ctx.violation(v[0], v[1], {"stream": "run", "spec": r.spec})
        ctx.corr["ill-posed optimize calls"] = {"runs": len(runs), "by_kind": dict(kinds)}
        try:
            res = swrap.replay_all(runs, swrap.wrap_caps_line(ctx.alg))
            bad = [(r, d) for r, d in res if d]
            ctx.corr["ill-posed optimize calls"].update({"replayed_through_wrapper_model": len(res), "disagreements": len(bad)})
            if bad:
                ctx.broke("correspondence wrap (rejections): model vs optimize.c", "%s\n spec: %s" % ("; ".join(bad[0][1][:4]), bad[0][0].spec))
        except Exception as e:
            ctx.broke("wrap model driver", repr(e))
        # API functions: NULL handle and out-of-domain arguments
        h = hexd
        nullops = ["set_min null 1 5", "set_max null 1 5", "set_pmin null 1 1 5", "set_lb null %s" % h(0.0), "set_ub null -", "set_lb1 null %s" % h(0.0),
                   "set_ub1 null %s" % h(0.0), "set_lbi null 0 %s" % h(0.0), "set_ubi null 0 %s" % h(0.0), "get_lb null", "get_ub null", "get_xtol_abs null",
                   "add_ineq null 4 5 %s" % h(0.0), "add_eq null 4 5 %s" % h(0.0), "add_pineq null 4 1 5 %s" % h(0.0), "add_ineqm null 2 1 5 -", "add_eqm null 2 1 5 -",
                   "add_ineqm null 0 1 5 -", "add_eqm null 0 0 5 -", "rm_ineq null", "rm_eq null", "set_stopval null %s" % h(0.0), "set_ftol_rel null %s" % h(0.0),
                   "set_ftol_abs null %s" % h(0.0), "set_xtol_rel null %s" % h(0.0), "set_xtol_abs null %s" % h(0.0), "set_xtol_abs1 null %s" % h(0.0), "set_xw null %s" % h(1.0),
                   "set_xw1 null %s" % h(1.0), "set_maxeval null 5", "set_maxtime null %s" % h(1.0), "set_force_stop null 1", "force_stop null", "set_local null null",
                   "set_pop null 5", "set_vs null 5", "set_dx null %s" % h(1.0), "set_dx1 null %s" % h(1.0), "set_default_dx null %s" % h(1.0), "get_dx null %s" % h(1.0),
                   "set_param null tolg %s" % h(1.0), "destroy null", "copy null o3", "set_munge null 1 1"]
        hists = [["create o0 25 2"] + nullops + ["get_scalars o0"]]
        invalid = ["set_lb o0 -", "set_lbi o0 -1 %s" % h(0.0), "set_lbi o0 2 %s" % h(0.0), "set_ubi o0 99 %s" % h(0.0), "set_xw o0 %s,%s" % (h(1.0), h(-1.0)), "set_xw1 o0 %s" % h(-2.0),
                   "set_dx o0 %s,%s" % (h(0.0), h(1.0)), "set_dx1 o0 %s" % h(0.0), "add_ineq o0 0 5 %s" % h(0.0), "add_ineq o0 4 5 %s" % h(-1.0), "add_ineqm o0 2 0 5 -",
                   "add_ineqm o0 2 1 5 %s,%s" % (h(0.1), h(-0.1)), "set_param o0 null %s" % h(1.0), "set_param_long o0 %s" % h(1.0), "get_lb_null o0", "get_xw_null o0",
                   "set_default_dx o0 -", "get_dx o0 -", "create o1 11 3", "set_local o0 o1", "create o2 -1 2", "create o3 44 2", "create o2 11 2", "add_ineq o2 4 5 %s" % h(0.0),
                   "add_eq o2 4 5 %s" % h(0.0)]
        hists.append(["create o0 25 2"] + invalid + ["get_scalars o0"])
        for _ in range(400 if ctx.thorough else 60):
            H = sapi.Hist(rng)
            ops = H.build(rng.choice([10, 25]))
            hists.append([o.replace(" o0", " null", 1) if rng.random() < 0.25 and not o.startswith(("create", "copy", "get_scalars", "get_param", "nth_param")) else o for o in ops])
        sapi.run_histories(ctx, bdir, ctx.alg, hists, "C09", "NULL handles and invalid arguments")
        ctx.sample({"spec": runs[0].spec, "kind": ps[0]["_kind"]})
        ctx.sample({"history": hists[1][:12]})
    ctx.assumptions += ["'x unchanged' is compared bitwise; starts that equal a fixed bound only up to the sign of zero (-0.0 vs +0.0) are excluded by the generator (exact statement and witness: Props/Wrap.lean startExact_cannot_be_dropped_negzero)",
                        "getters that do not return nlopt_result (nlopt_get_stopval(NULL) ...) are outside the property"]
    return ctx.finish(level="proof", extra_cov={"rule": "a case = one ill-posed nlopt_optimize call or one API call of a history; distinct by spec / op text"})
