"""S-api stream: API histories executed on the real library (harness/api.c) and on the Lean model
(nlopt_model api); outputs compared line by line; property monitors run on the real outputs."""
import random
import re
import subprocess

from .common import hexd, sh, build_harness, model_exe, canon_nan

WRAP = ["-fno-builtin", "-Wl,--wrap=malloc,--wrap=calloc,--wrap=realloc,--wrap=free"]

ALGS = [25, 40, 28, 24, 35, 11, 0, 30, 38, 43, 41, 6, 19]
BAD_ALGS = [-1, 44, 100]
NAN = "7ff8000000000000"
DOUBLES = [0.0, -0.0, 1.0, -1.0, 0.5, 2.0, -3.5, 1e-310, 5e-324, 3e-310, 2.2250738585072014e-308,
           float("inf"), float("-inf"), 1e300, -1e300, 1e-8, 0.25, 7.0]


def hx(rng, pool=None):
    if rng.random() < 0.04:
        return NAN
    return hexd(rng.choice(pool or DOUBLES))


def hlist(rng, n, pool=None, null_p=0.1):
    if rng.random() < null_p:
        return "-"
    if n == 0:
        return "_"
    return ",".join(hx(rng, pool) for _ in range(n))


POS = [0.0, 1.0, 0.5, 2.0, 1e-8, 1e-310, 7.0, float("inf")]
STEPS = [1.0, -1.0, 0.5, 2.0, 1e-8, 0.0, 7.0, 1e300]
NAMES = ["inner_maxeval", "verbosity", "rho_init", "dual_ftol_rel", "tolg", "x", "a_rather_long_parameter_name_0123456789"]


class Hist:
    """generator state: which slots are (probably) live and their dimension, to keep ops mostly valid"""

    def __init__(self, rng):
        self.rng = rng
        self.n = {}
        self.next_data = 1
        self.ops = []

    def data(self):
        if self.rng.random() < 0.15:
            return 0
        self.next_data += 1
        return self.next_data

    def slot(self, live=True):
        r = self.rng
        if r.random() < 0.03:
            return "null"
        if live and self.n:
            if r.random() < 0.95:
                return "o%d" % r.choice(sorted(self.n))
        return "o%d" % r.randrange(4)

    def gen_op(self):
        r = self.rng
        if not self.n or r.random() < 0.06:
            s = r.randrange(4)
            if s in self.n:
                return None
            alg = r.choice(BAD_ALGS) if r.random() < 0.08 else r.choice(ALGS)
            n = r.choice([0, 1, 2, 2, 3])
            if 0 <= alg < 44:
                self.n[s] = n
            return "create o%d %d %d" % (s, alg, n)
        t = self.slot()
        n = self.n.get(int(t[1:]), 2) if t != "null" else 2
        k = r.randrange(48)
        if k == 0:
            if t != "null":
                self.n.pop(int(t[1:]), None)
            return "destroy %s" % t
        if k == 1:
            d = r.randrange(4)
            if d in self.n or t == "null" or int(t[1:]) not in self.n:
                return None
            self.n[d] = n
            return "copy %s o%d" % (t, d)
        if k == 2:
            return "%s %s %d %d" % (r.choice(["set_min", "set_max"]), t, r.choice([0, 1, 2, 3]), self.data())
        if k == 3:
            return "%s %s %d %d %d" % (r.choice(["set_pmin", "set_pmax"]), t, r.choice([1, 2]), r.choice([0, 1, 2]), self.data())
        if k in (4, 5):
            return "%s %s %s" % (r.choice(["set_lb", "set_ub"]), t, hlist(r, n))
        if k == 6:
            return "%s %s %s" % (r.choice(["set_lb1", "set_ub1"]), t, hx(r))
        if k == 7:
            return "%s %s %d %s" % (r.choice(["set_lbi", "set_ubi"]), t, r.choice([-1, 0, 0, 1, 1, 2, 5]), hx(r))
        if k == 8:
            if t == "null" or int(t[1:]) not in self.n:
                return "%s %s" % (r.choice(["get_lb", "get_ub", "get_xtol_abs"]), t)
            return "%s %s" % (r.choice(["get_lb", "get_ub", "get_xtol_abs", "get_xw", "get_scalars"]), t)
        if k == 9:
            return "%s %s" % (r.choice(["get_lb_null", "get_ub_null", "get_xtol_abs_null", "get_xw_null"]), t) if t != "null" else None
        if k in (10, 11):
            return "%s %s %d %d %s" % (r.choice(["add_ineq", "add_eq"]), t, r.choice([0, 4, 5, 6]), self.data(), hx(r, POS + [-1.0]))
        if k == 12:
            return "%s %s %d %d %d %s" % (r.choice(["add_pineq", "add_peq"]), t, r.choice([4, 5]), r.choice([0, 1, 2]), self.data(), hx(r, POS))
        if k in (13, 14):
            m = r.choice([0, 1, 2, 3])
            return "%s %s %d %d %d %s" % (r.choice(["add_ineqm", "add_eqm"]), t, m, r.choice([0, 1, 2, 3]), self.data(),
                                         hlist(r, m, POS + [-0.5], null_p=0.3) if m else r.choice(["-", "_"]))
        if k == 15:
            return "%s %s" % (r.choice(["rm_ineq", "rm_eq"]), t)
        if k == 16:
            return "%s %s %s" % (r.choice(["set_stopval", "set_ftol_rel", "set_ftol_abs", "set_xtol_rel", "set_maxtime"]), t, hx(r))
        if k == 17:
            return "set_xtol_abs %s %s" % (t, hlist(r, n))
        if k == 18:
            return "set_xtol_abs1 %s %s" % (t, hx(r))
        if k == 19:
            return "set_xw %s %s" % (t, hlist(r, n, POS + [-1.0]))
        if k == 20:
            return "set_xw1 %s %s" % (t, hx(r, POS + [-1.0]))
        if k == 21:
            return "set_maxeval %s %d" % (t, r.choice([0, 1, -1, 100, 2147483647]))
        if k == 22:
            return "%s %s %d" % (r.choice(["set_pop", "set_vs"]), t, r.choice([0, 1, 10, 1000]))
        if k == 23:
            return "set_force_stop %s %d" % (t, r.choice([0, 1, -5, 7]))
        if k == 24:
            return "force_stop %s" % t
        if k in (25, 26):
            return "set_dx %s %s" % (t, hlist(r, n, STEPS))
        if k == 27:
            return "set_dx1 %s %s" % (t, hx(r, STEPS))
        if k == 28:
            return "set_default_dx %s %s" % (t, hlist(r, n, DOUBLES[:9]))
        if k in (29, 30):
            return "get_dx %s %s" % (t, hlist(r, n, DOUBLES[:9], null_p=0.05))
        if k == 31:
            return "set_munge %s %d %d" % (t, r.random() < 0.7, r.random() < 0.7)
        if k in (32, 33, 34):
            return "set_param %s %s %s" % (t, "null" if r.random() < 0.05 else r.choice(NAMES), hx(r))
        if k == 35:
            return "set_param_long %s %s" % (t, hx(r)) if r.random() < 0.3 else None
        if k == 36:
            return "get_param %s %s %s" % (t, r.choice(NAMES + ["null"]), hx(r)) if t != "null" else None
        if k == 37:
            return "nth_param %s %d" % (t, r.choice([0, 1, 2, 9])) if t != "null" else None
        if k in (38, 39, 40):
            l = self.slot()
            if r.random() < 0.1:
                l = "null"
            return "set_local %s %s" % (t, l)
        return None

    def build(self, nops, oracle_p=0.0):
        while len(self.ops) < nops:
            op = self.gen_op()
            if not op:
                continue
            if oracle_p and self.rng.random() < oracle_p and not op.startswith(("get_param", "nth_param", "get_scalars")):
                self.ops.append("oracle %d" % self.rng.choice([1, 1, 2, 2, 3, 4, 5, 6, 8]))
            self.ops.append(op)
        return self.ops


def run_both(bdir, text, caps_line):
    """returns (impl_lines, model_lines)"""
    exe, ok, log = build_harness("api", bdir, extra=WRAP)
    if not ok:
        raise RuntimeError("api harness build failed: " + log)
    p = subprocess.run([exe], input=text.encode(), stdout=subprocess.PIPE, stderr=subprocess.PIPE, timeout=1200)
    impl = p.stdout.decode().split("\n")
    # model input: sizes line (from impl), caps line, then the same ops with an explicit "end" before each new history
    mt = [impl[0], caps_line]
    first = True
    for l in text.split("\n"):
        if l.startswith("history"):
            if not first:
                mt.append("end")
            first = False
        mt.append(l)
    mt.append("end")
    q = subprocess.run([model_exe(), "api"], input="\n".join(mt).encode(), stdout=subprocess.PIPE, stderr=subprocess.PIPE, timeout=1200)
    if q.returncode != 0:
        raise RuntimeError("model driver failed: " + q.stderr.decode()[-400:])
    return impl[1:], q.stdout.decode().split("\n")


def split_histories(lines):
    out, cur = [], None
    for l in lines:
        if l.startswith("history"):
            cur = [l]
            out.append(cur)
        elif cur is not None and l != "":
            cur.append(l)
    return out


def compare(impl, model):
    """line-by-line comparison per history; returns list of (history header, index, impl line, model line)"""
    hi, hm = split_histories(impl), split_histories(model)
    dis = []
    for a, b in zip(hi, hm):
        for k in range(max(len(a), len(b))):
            x = canon_nan(a[k]) if k < len(a) else "<missing>"
            y = canon_nan(b[k]) if k < len(b) else "<missing>"
            if x != y:
                dis.append((a[0], k, x, y))
                break
    if len(hi) != len(hm):
        dis.append(("history count", 0, str(len(hi)), str(len(hm))))
    return dis


EV_RE = re.compile(r" ev=\[([^\]]*)\]")


def events_of(line):
    m = EV_RE.search(line)
    if not m or not m.group(1):
        return []
    return m.group(1).split(",")


def snapshots_of(line):
    """dict slot -> snapshot text"""
    out = {}
    for m in re.finditer(r" \|o(\d)=(\{.*?\})(?= \|o\d=|$)", line):
        out[int(m.group(1))] = m.group(2)
    return out
