"""S-api stream: API histories executed on the real library (harness/api.c) and on the Lean model
(nlopt_model api); outputs compared line by line; property monitors run on the real outputs."""
import random
import re
import subprocess

from .common import hexd, sh, build_harness, model_exe, canon_nan

WRAP = ["-fno-builtin", "-Wl,--wrap=malloc,--wrap=calloc,--wrap=realloc,--wrap=free"]

ALGS = [25, 40, 28, 24, 35, 11, 0, 30, 38, 43, 41, 6, 19]
BAD_ALGS = [-1, 44, 100]
NAN = "7ff8000000000000"
DOUBLES = [0.0, -0.0, 1.0, -1.0, 0.5, 2.0, -3.5, 1e-310, 5e-324, 3e-310, 2.2250738585072014e-308,
           float("inf"), float("-inf"), 1e300, -1e300, 1e-8, 0.25, 7.0]


def hx(rng, pool=None):
    if rng.random() < 0.04:
        return NAN
    return hexd(rng.choice(pool or DOUBLES))


def hlist(rng, n, pool=None, null_p=0.1):
    if rng.random() < null_p:
        return "-"
    if n == 0:
        return "_"
    return ",".join(hx(rng, pool) for _ in range(n))


POS = [0.0, 1.0, 0.5, 2.0, 1e-8, 1e-310, 7.0, float("inf")]
STEPS = [1.0, -1.0, 0.5, 2.0, 1e-8, 0.0, 7.0, 1e300]
# includes names that are proper prefixes of each other (a prefix-matching lookup must not confuse them)
NAMES = ["inner_maxeval", "verbosity", "rho_init", "rho", "dual_ftol_rel", "dual_ftol", "tolg", "tol", "x", "xtol", "a_rather_long_parameter_name_0123456789"]


class Hist:
    """generator state: which slots are (probably) live and their dimension, to keep ops mostly valid"""

    def __init__(self, rng):
        self.rng = rng
        self.n = {}
        self.next_data = 1
        self.ops = []

    def data(self):
        if self.rng.random() < 0.15:
            return 0
        self.next_data += 1
        return self.next_data

    def slot(self, live=True):
        r = self.rng
        if r.random() < 0.03:
            return "null"
        if live and self.n:
            if r.random() < 0.95:
                return "o%d" % r.choice(sorted(self.n))
        return "o%d" % r.randrange(4)

    def gen_op(self):
        r = self.rng
        if not self.n or r.random() < 0.06:
            s = r.randrange(4)
            if s in self.n:
                return None
            alg = r.choice(BAD_ALGS) if r.random() < 0.08 else r.choice(ALGS)
            n = r.choice([0, 1, 2, 2, 3])
            if 0 <= alg < 44:
                self.n[s] = n
            return "create o%d %d %d" % (s, alg, n)
        t = self.slot()
        n = self.n.get(int(t[1:]), 2) if t != "null" else 2
        k = r.randrange(48)
        if k == 0:
            if t != "null":
                self.n.pop(int(t[1:]), None)
            return "destroy %s" % t
        if k == 1:
            d = r.randrange(4)
            if d in self.n or t == "null" or int(t[1:]) not in self.n:
                return None
            self.n[d] = n
            return "copy %s o%d" % (t, d)
        if k == 2:
            return "%s %s %d %d" % (r.choice(["set_min", "set_max"]), t, r.choice([0, 1, 2, 3]), self.data())
        if k == 3:
            return "%s %s %d %d %d" % (r.choice(["set_pmin", "set_pmax"]), t, r.choice([1, 2]), r.choice([0, 1, 2]), self.data())
        if k in (4, 5):
            return "%s %s %s" % (r.choice(["set_lb", "set_ub"]), t, hlist(r, n))
        if k == 6:
            return "%s %s %s" % (r.choice(["set_lb1", "set_ub1"]), t, hx(r))
        if k == 7:
            return "%s %s %d %s" % (r.choice(["set_lbi", "set_ubi"]), t, r.choice([-1, 0, 0, 1, 1, 2, 5]), hx(r))
        if k == 8:
            if t == "null" or int(t[1:]) not in self.n:
                return "%s %s" % (r.choice(["get_lb", "get_ub", "get_xtol_abs"]), t)
            return "%s %s" % (r.choice(["get_lb", "get_ub", "get_xtol_abs", "get_xw", "get_scalars"]), t)
        if k == 9:
            return "%s %s" % (r.choice(["get_lb_null", "get_ub_null", "get_xtol_abs_null", "get_xw_null"]), t) if t != "null" else None
        if k in (10, 11):
            return "%s %s %d %d %s" % (r.choice(["add_ineq", "add_eq"]), t, r.choice([0, 4, 5, 6]), self.data(), hx(r, POS + [-1.0]))
        if k == 12:
            return "%s %s %d %d %d %s" % (r.choice(["add_pineq", "add_peq"]), t, r.choice([4, 5]), r.choice([0, 1, 2]), self.data(), hx(r, POS))
        if k in (13, 14):
            m = r.choice([0, 1, 2, 3])
            return "%s %s %d %d %d %s" % (r.choice(["add_ineqm", "add_eqm"]), t, m, r.choice([0, 1, 2, 3]), self.data(),
                                         hlist(r, m, POS + [-0.5], null_p=0.3) if m else r.choice(["-", "_"]))
        if k == 15:
            return "%s %s" % (r.choice(["rm_ineq", "rm_eq"]), t)
        if k == 16:
            return "%s %s %s" % (r.choice(["set_stopval", "set_ftol_rel", "set_ftol_abs", "set_xtol_rel", "set_maxtime"]), t, hx(r))
        if k == 17:
            return "set_xtol_abs %s %s" % (t, hlist(r, n))
        if k == 18:
            return "set_xtol_abs1 %s %s" % (t, hx(r))
        if k == 19:
            return "set_xw %s %s" % (t, hlist(r, n, POS + [-1.0]))
        if k == 20:
            return "set_xw1 %s %s" % (t, hx(r, POS + [-1.0]))
        if k == 21:
            return "set_maxeval %s %d" % (t, r.choice([0, 1, -1, 100, 2147483647]))
        if k == 22:
            return "%s %s %d" % (r.choice(["set_pop", "set_vs"]), t, r.choice([0, 1, 10, 1000]))
        if k == 23:
            return "set_force_stop %s %d" % (t, r.choice([0, 1, -5, 7]))
        if k == 24:
            return "force_stop %s" % t
        if k in (25, 26):
            return "set_dx %s %s" % (t, hlist(r, n, STEPS))
        if k == 27:
            return "set_dx1 %s %s" % (t, hx(r, STEPS))
        if k == 28:
            return "set_default_dx %s %s" % (t, hlist(r, n, DOUBLES[:9]))
        if k in (29, 30):
            return "get_dx %s %s" % (t, hlist(r, n, DOUBLES[:9], null_p=0.05))
        if k == 31:
            return "set_munge %s %d %d" % (t, r.random() < 0.7, r.random() < 0.7)
        if k in (32, 33, 34):
            return "set_param %s %s %s" % (t, "null" if r.random() < 0.05 else r.choice(NAMES), hx(r))
        if k == 35:
            return "set_param_long %s %s" % (t, hx(r)) if r.random() < 0.3 else None
        if k == 36:
            return "get_param %s %s %s" % (t, r.choice(NAMES + ["null"]), hx(r)) if t != "null" else None
        if k == 37:
            return "nth_param %s %d" % (t, r.choice([0, 1, 2, 9])) if t != "null" else None
        if k in (38, 39, 40):
            l = self.slot()
            if r.random() < 0.1:
                l = "null"
            return "set_local %s %s" % (t, l)
        return None

    def build(self, nops, oracle_p=0.0):
        while len(self.ops) < nops:
            op = self.gen_op()
            if not op:
                continue
            if oracle_p and self.rng.random() < oracle_p and not op.startswith(("get_param", "nth_param", "get_scalars")):
                self.ops.append("oracle %d" % self.rng.choice([1, 1, 2, 2, 3, 4, 5, 6, 8]))
            self.ops.append(op)
        return self.ops


def run_both(bdir, text, caps_line):
    """returns (impl_lines, model_lines)"""
    exe, ok, log = build_harness("api", bdir, extra=WRAP)
    if not ok:
        raise RuntimeError("api harness build failed: " + log)
    p = subprocess.run([exe], input=text.encode(), stdout=subprocess.PIPE, stderr=subprocess.PIPE, timeout=1200)
    impl = p.stdout.decode().split("\n")
    # model input: sizes line (from impl), caps line, then the same ops with an explicit "end" before each new history
    mt = [impl[0], caps_line]
    first = True
    for l in text.split("\n"):
        if l.startswith("history"):
            if not first:
                mt.append("end")
            first = False
        mt.append(l)
    mt.append("end")
    q = subprocess.run([model_exe(), "api"], input="\n".join(mt).encode(), stdout=subprocess.PIPE, stderr=subprocess.PIPE, timeout=1200)
    if q.returncode != 0:
        raise RuntimeError("model driver failed: " + q.stderr.decode()[-400:])
    return impl[1:], q.stdout.decode().split("\n")


def split_histories(lines):
    out, cur = [], None
    for l in lines:
        if l.startswith("history"):
            cur = [l]
            out.append(cur)
        elif cur is not None and l != "":
            cur.append(l)
    return out


def compare(impl, model):
    """line-by-line comparison per history; returns list of (history header, index, impl line, model line)"""
    hi, hm = split_histories(impl), split_histories(model)
    dis = []
    for a, b in zip(hi, hm):
        for k in range(max(len(a), len(b))):
            x = canon_nan(a[k]) if k < len(a) else "<missing>"
            y = canon_nan(b[k]) if k < len(b) else "<missing>"
            if x != y:
                dis.append((a[0], k, x, y))
                break
    if len(hi) != len(hm):
        dis.append(("history count", 0, str(len(hi)), str(len(hm))))
    return dis


EV_RE = re.compile(r" ev=\[([^\]]*)\]")


def events_of(line):
    m = EV_RE.search(line)
    if not m or not m.group(1):
        return []
    return m.group(1).split(",")


def snapshots_of(line):
    """dict slot -> snapshot text"""
    out = {}
    for m in re.finditer(r" \|o(\d)=(\{.*?\})(?= \|o\d=|$)", line):
        out[int(m.group(1))] = m.group(2)
    return out


# ----------------------------------------------------------------------------------------
# shared check logic for the properties that live in options.c (C14 C15 C18 C09-API)

def caps_line(alg):
    return "caps %d %s %s" % (alg["num"], ",".join(map(str, alg["ineq"])), ",".join(map(str, alg["eq"])))


def strip_err(snap):
    return re.sub(r" err=\d", "", snap)


def strip_data(snap):
    return re.sub(r"/\d+\[", "[", re.sub(r"\bd=\d+|:d\d+:", "D", re.sub(r" munge=\d\d", "", snap)))


def head_of(line):
    return line.split(" ev=")[0]


def view_part(line):
    """return code + snapshots with allocation bookkeeping removed (what getters can see)"""
    h = head_of(line)
    snaps = snapshots_of(line)
    return h + "".join(" |o%d=%s" % (k, re.sub(r"/\d+\[", "[", v)) for k, v in sorted(snaps.items()))


def classify_disagreement(x, y):
    """visible (return code / getter-visible state) or internal (events, allocation bookkeeping)"""
    if x.startswith(("CRASH", "<missing>")) or y.startswith("<missing>"):
        return "crash"
    if view_part(x) != view_part(y):
        return "visible"
    return "internal"


def monitor_history(prop, ops, lines, ctx, hid):
    """property monitors on the REAL library's output for one history.  ops: op lines (no 'history');
    lines: impl output lines for them (+ 'end' line, possibly CRASH)."""
    prev = {}
    slot_ident = {}
    given = {}          # data id -> count of MD events (C15 ledger)
    hooks_on = set()
    oracle_armed = False
    for k, op in enumerate(ops):
        if k >= len(lines):
            break
        line = lines[k]
        t = op.split()
        if line.startswith("CRASH"):
            sig = {"api": t[0], "cause": "crash", "null": "null" in t[1:3]}
            ctx.violation(sig, "%s crashed (%s)" % (t[0], line), {"stream": "api", "ops": ops[:k + 1]})
            return
        if t[0] in ("oracle", "mcfail"):
            oracle_armed = True
            continue
        head = head_of(line)
        evs = events_of(line)
        snaps = snapshots_of(line)
        ret = head.split(" ")[0]
        if "BADFREE" in evs:
            ctx.violation({"api": t[0], "cause": "bad free"}, "%s freed a block that is not live (double free)" % t[0],
                          {"stream": "api", "ops": ops[:k + 1]})
            return
        # --- C14 / C18: a failing call leaves every object as it was
        failed = ret.lstrip("-").isdigit() and int(ret) < 0 or ret == "null"
        if failed and t[0] not in ("copy", "create"):
            for s_, v in prev.items():
                if s_ in snaps and strip_err(snaps[s_]) != strip_err(v) and prop in ("C14", "C18", "C09"):
                    ctx.violation({"api": t[0], "cause": "failed call modified object", "oom": oracle_armed},
                                  "%s returned %s but changed object o%d" % (t[0], ret, s_),
                                  {"stream": "api", "ops": ops[:k + 1], "before": v[:300], "after": snaps[s_][:300]})
                    return
        if prop == "C18" and oracle_armed:
            nofault_ok = ret in ("null", "-3") or "X" not in evs and not any(e.startswith("RX") for e in evs)
            if not nofault_ok and not (ret.lstrip("-").isdigit() and int(ret) < 0):
                # an allocation failed but the call reports success: acceptable only for best-effort diagnostics
                ctx.violation({"api": t[0], "cause": "allocation failure not reported"},
                              "%s: an allocation failed but the call returned %s" % (t[0], ret),
                              {"stream": "api", "ops": ops[:k + 1]})
                return
        # --- C14: algorithm and dimension never change; a copy equals its source
        for s_, v in snaps.items():
            m = re.match(r"\{alg=(-?\d+) n=(\d+)", v)
            if m:
                if s_ in prev and s_ in slot_ident and slot_ident[s_] != m.groups() and t[0] not in ("create", "copy", "destroy"):
                    ctx.violation({"api": t[0], "cause": "algorithm or dimension changed"}, "%s changed algorithm/dimension of o%d" % (t[0], s_),
                                  {"stream": "api", "ops": ops[:k + 1]})
                    return
                slot_ident[s_] = m.groups()
        if t[0] == "copy" and ret == "ptr" and prop == "C14":
            src, dst = int(t[1][1:]) if t[1] != "null" else None, int(t[2][1:])
            if src in snaps and dst in snaps and strip_data(strip_err(snaps[src])) != strip_data(strip_err(snaps[dst])):
                ctx.violation({"api": "nlopt_copy", "cause": "copy differs from source"}, "nlopt_copy: the copy differs from its source in a getter-visible field",
                              {"stream": "api", "ops": ops[:k + 1], "src": snaps[src][:400], "dst": snaps[dst][:400]})
                return
        # --- C15 ledger
        if prop == "C15":
            for e in evs:
                if e.startswith("MD"):
                    d = int(e[2:])
                    if d:
                        given[d] = given.get(d, 0) + 1
                        if given[d] > 1:
                            ctx.violation({"api": t[0], "cause": "data released twice"}, "user data d%d passed to the destroy hook twice" % d,
                                          {"stream": "api", "ops": ops[:k + 1]})
                            return
                elif e.startswith("MC"):
                    a, b = e[2:].split(">")
                    given.setdefault(int(b), 0)
        oracle_armed = False
        prev = snaps
    endl = lines[len(ops)] if len(lines) > len(ops) else ""
    if endl.startswith("CRASH"):
        ctx.violation({"api": "nlopt_destroy", "cause": "crash"}, "crash while destroying the objects of the history", {"stream": "api", "ops": ops})
        return
    if endl.startswith("end"):
        m = re.match(r"end leaks=(\d+)", endl)
        if m and int(m.group(1)) and prop in ("C18", "C14", "C15"):
            ctx.violation({"api": "history", "cause": "leak"}, "%s library blocks still allocated after every object was destroyed" % m.group(1),
                          {"stream": "api", "ops": ops})
            return
        if "BADFREE" in endl:
            ctx.violation({"api": "nlopt_destroy", "cause": "bad free"}, "double free while destroying", {"stream": "api", "ops": ops})
            return
        if prop == "C15":
            for e in events_of(endl):
                if e.startswith("MD") and int(e[2:]):
                    d = int(e[2:])
                    given[d] = given.get(d, 0) + 1
            return given
    return given if prop == "C15" else None


def run_histories(ctx, bdir, alg, histories, prop, name):
    """histories: list of op lists.  Runs both sides, records correspondence, runs monitors."""
    text = "".join("history %d\n%s\n" % (i, "\n".join(h)) for i, h in enumerate(histories))
    impl, model = run_both(bdir, text, caps_line(alg))
    hi, hm = split_histories(impl), split_histories(model)
    vis = internal = 0
    first = None
    for idx, (a, b) in enumerate(zip(hi, hm)):
        for k in range(1, max(len(a), len(b))):
            x = canon_nan(a[k]) if k < len(a) else "<missing>"
            y = canon_nan(b[k]) if k < len(b) else "<missing>"
            if x != y:
                kind = classify_disagreement(x, y)
                if kind == "internal":
                    internal += 1
                else:
                    vis += 1
                if first is None:
                    first = (idx, k, x, y, kind)
                break
    ctx.corr[name] = {"histories": len(histories), "ops": sum(len(h) for h in histories),
                      "disagreements_visible": vis, "disagreements_internal": internal}
    if first:
        idx, k, x, y, kind = first
        ops = histories[idx][:k]
        ctx.broke("correspondence api (%s): model vs options.c" % name,
                  "history %d op %d (%s) [%s]\n impl : %s\n model: %s" % (idx, k, ops[-1] if ops else "?", kind, x[:700], y[:700]))
        ctx.cov.setdefault("first_disagreement", {"ops": ops[-40:], "impl": x[:600], "model": y[:600], "kind": kind})
        if kind in ("visible", "crash") and not x.startswith("CRASH"):
            # the proved model says what the getters must show: a visible difference is a failing history
            ctx.violation({"api": ops[-1].split()[0] if ops else "?", "cause": "getter-visible state differs from the specification model"},
                          "after %s the object state / return value differs from the verified model" % (ops[-1] if ops else "?"),
                          {"stream": "api", "ops": ops, "impl": x[:600], "model": y[:600]})
    # monitors on the real output
    for idx, h in enumerate(histories):
        if idx < len(hi):
            monitor_history(prop, h, hi[idx][1:], ctx, idx)
        for op in h:
            ctx.case(op, nontrivial=not op.startswith(("get_", "nth_")))
    return hi
