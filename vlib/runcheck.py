"""Common machinery of the checks that observe nlopt_optimize runs (harness/run.c)."""
import collections
import random

from . import drivers, swrap, problems, monitors
from .common import hexd

DERIV_FREE = set(problems.DERIV_FREE_LOCAL + [g for g in problems.GLOBAL if "_GN_" in g] +
                 ["NLOPT_GN_MLSL", "NLOPT_GN_MLSL_LDS", "NLOPT_LN_AUGLAG", "NLOPT_LN_AUGLAG_EQ"])


DRIVER_MODULES = ["DrvEsch", "DrvIsres", "DrvCrs", "DrvNm", "DrvAuglag", "DrvMlsl", "DrvMma", "E2EEsch", "E2ECrs", "E2ENm", "E2EIsres"]


def drv(regex):
    """the theorems of the driver control-flow models (Props/Drv*.lean) that bear on a property, selected by name"""
    return ["%s:%s" % (m, regex) for m in DRIVER_MODULES]


def setup(ctx, props, extra_translators=()):
    """lean stage + repo build; returns (bdir, Algs) or (None, None)"""
    ctx.driver_models = any(p.split(":")[0] in DRIVER_MODULES for p in props)
    ctx.bdir = ctx.repo_stage()
    ctx.lean_stage(props, translators=list(extra_translators))
    bdir = ctx.bdir
    if not bdir or not getattr(ctx, "alg", None):
        return None, None
    return bdir, problems.Algs(ctx.alg)


def run_batch(ctx, bdir, A, plist, mons, name, replay=True, variant="hooks", env=None, blame_crash=True):
    """runs the problems, replays them through the wrapper model (correspondence), applies the monitors.
    returns list of (problem dict, Run, RunInfo or None)"""
    lines = [problems.to_line(p) for p in plist]
    runs, err = swrap.run_specs(bdir, lines, variant=variant, env=env)
    out = []
    st = collections.Counter()
    for p, r in zip(plist, runs):
        ri = None
        st[r.status.split(" ")[0].split("=")[0]] += 1
        if r.status != "ok" and not blame_crash:
            # pair / equivalence properties: a crash or hang is not a statement about the compared behaviour (C03 and C10 own those)
            st["not_blamed_here"] += 1
        elif r.status != "ok":
            sig = {"alg": A.name(p["alg"]), "cause": "crash" if r.status.startswith("CRASH") else "no termination within the watchdog time"}
            if "inj" in p or "injc" in p:
                sig["objective"] = "returned Inf/NaN at some evaluation"
            if "pre" in p:
                sig["preconditioner"] = True
            ctx.violation(sig, "%s: %s (%d callbacks recorded)" % (A.name(p["alg"]), r.status, len(r.calls)), {"stream": "run", "spec": r.spec})
        else:
            ri = monitors.RunInfo(r, A)
            for m in mons:
                v = m(ri)
                if v:
                    ctx.violation(v[0], v[1], {"stream": "run", "spec": r.spec})
        ctx.case(r.spec, nontrivial=len(r.calls) > 1)
        out.append((p, r, ri))
    c = {"runs": len(runs), "status": dict(st), "callbacks": sum(len(r.calls) for r in runs),
         "algorithms": len(set(p["alg"] for p in plist)),
         "return_codes": dict(collections.Counter(str(ri.ret) for _, _, ri in out if ri is not None))}
    if replay:
        try:
            res = swrap.replay_all(runs, swrap.wrap_caps_line(ctx.alg))
            bad = [(r, d) for r, d in res if d]
            c["replayed_through_wrapper_model"] = len(res)
            c["disagreements"] = len(bad)
            if bad:
                r, d = bad[0]
                ctx.broke("correspondence wrap (%s): model vs optimize.c" % name, "%s\n spec: %s" % ("; ".join(d[:4]), r.spec))
                ctx.cov.setdefault("first_disagreement", {"spec": r.spec, "diffs": d[:6]})
        except Exception as e:
            ctx.broke("wrap model driver", repr(e))
    ctx.corr[name] = c
    if getattr(ctx, "driver_models", False) and variant == "hooks":
        try:
            drivers.correspond(ctx, out, name)
        except Exception as e:
            ctx.broke("driver model correspondence", repr(e))
    return out


def gen(ctx, A, n, **kw):
    rng = random.Random(ctx.seed * 7919 + 13)
    return rng, [problems.gen_problem(rng, A, **kw) for _ in range(n)]


def one_per_algorithm(rng, A, **kw):
    return [problems.gen_problem(rng, A, alg_name=nm, **kw) for nm in problems.ALL if nm in A.idx]


# ----------------------------------------------------------------------------------------
# pair runs

def flip(h):
    """hex of the negated double"""
    return "%016x" % (int(h, 16) ^ 0x8000000000000000)


def flip_list(s):
    if s in ("", "_", "-", None):
        return s
    return ",".join(flip(t) for t in s.split(","))


def obj_trace(run):
    return [(c.x, c.g, c.val, c.grad) for c in run.calls if c.kind == "f"]


def result_of(run):
    R = run.R or {}
    return (R.get("ret"), R.get("x"), R.get("optf"), R.get("numevals"))


def compare_pairs(ctx, runs_a, runs_b, relate, name, sigbase):
    """relate(run_a, run_b) -> None or text of the first difference"""
    n = bad = 0
    for a, b in zip(runs_a, runs_b):
        n += 1
        if a.status != "ok" and b.status != "ok":
            continue                      # both crashed / hung alike: owned by C03 / C10
        if a.status != "ok" or b.status != "ok":
            d = "one run ended with %s, the other with %s" % (a.status, b.status)
        else:
            d = relate(a, b)
        if d:
            bad += 1
            from .swrap import kvs
            alg = int(kvs(a.spec).get("alg", -1))
            sig = dict(sigbase)
            sig["alg"] = ctx.algnames[alg] if 0 <= alg < len(ctx.algnames) else str(alg)
            ctx.violation(sig, "%s: %s" % (sig["alg"], d), {"stream": "run-pair", "spec_a": a.spec, "spec_b": b.spec})
    ctx.corr[name] = {"pairs": n, "differing": bad}
