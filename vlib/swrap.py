"""S-wrap stream: runs of the real nlopt_optimize recorded by harness/run.c (outer view: user callbacks,
result, getters; inner view through the optimize.c hooks) and replayed through the Lean wrapper model."""
import re
import subprocess

from .common import build_harness, model_exe, canon_nan, unhex


_LOCAL = re.compile(r"local=\{[^}]*\}")


def kvs(s):
    s = _LOCAL.sub("local=L", s)
    return dict(t.split("=", 1) for t in s.split(" ") if "=" in t)


class Call:
    """one user callback invocation with the wrapper-layer events around it"""
    __slots__ = ("kind", "role", "i", "g", "x", "val", "grad", "pre", "post", "stop")

    def __init__(self):
        self.pre, self.post, self.stop = [], [], None
        self.grad = None


class Run:
    def __init__(self, spec):
        self.spec = spec
        self.lines = []
        self.calls = []
        self.pre = self.post = None      # getter snapshots (G pre / G post) as dicts
        self.e1 = self.e10 = self.e11 = self.e2 = None
        self.R = None
        self.status = "ok"
        self.creation = []
        self.asserts = []
        self.sites = []                  # S / F hook lines with the index of the next user call
        self.nested = []                 # E 10 lines at depth >= 2 (sub-optimizer problems)
        self.nest = []                   # N 10 / N 11 markers of every subsidiary run: (10|11, number of user calls before it, fields)


def run_specs(bdir, lines, variant="hooks", timeout=3000, env=None):
    exe, ok, log = build_harness("run", bdir, variant=variant)
    if not ok:
        raise RuntimeError("run harness build failed: " + log)
    p = subprocess.run([exe], input=("\n".join(lines) + "\n").encode(), stdout=subprocess.PIPE, stderr=subprocess.PIPE,
                       timeout=timeout, env=env)
    return parse_records(p.stdout.decode("utf-8", "replace")), p.stderr.decode("utf-8", "replace")


def parse_records(text):
    runs, cur = [], None
    last = None
    for l in text.split("\n"):
        if l.startswith("RUN "):
            cur = Run(l[4:])
            runs.append(cur)
            last = None
            continue
        if cur is None or not l:
            continue
        m = re.search(r"(CRASH (?:sig|exit)=\d+|TIMEOUT)$", l)
        if m:
            cur.status = m.group(1)
            continue
        if l == "END":
            continue
        t = l[0]
        if t == "U":
            c = Call()
            parts = l.split(" ")
            c.kind = parts[1]
            d = kvs(l)
            c.role = int(d.get("role", 0))
            c.i = int(d.get("i", 0))
            c.g = d.get("g") == "1"
            c.x = d.get("x", "")
            c.val = d.get("val", "")
            c.grad = d.get("grad")
            c.pre = cur._pending if hasattr(cur, "_pending") else []
            cur._pending = []
            cur.calls.append(c)
            last = c
        elif t == "E" and l[1:2] == " " and l.split(" ")[1].lstrip("-").isdigit():
            parts = l.split(" ")
            eid = int(parts[1])
            d = kvs(l)
            depth = int(d.get("d", 0))
            if eid == 1 and depth == 0:
                cur.e1 = d
            elif eid == 2 and depth == 0:
                cur.e2 = d
            elif eid == 10:
                if depth == 1 and cur.e10 is None:
                    cur.e10 = d
                elif depth >= 2:
                    cur.nested.append(d)
            elif eid == 11 and depth == 1:
                cur.e11 = d
            elif depth == 1 and eid in (20, 22, 30):
                if not hasattr(cur, "_pending"):
                    cur._pending = []
                cur._pending.append((eid, d))
                last = None
            elif ((depth == 1 and eid in (21, 31)) or (depth >= 1 and eid in (40, 41))) and last is not None:
                last.post.append((eid, d))
        elif t == "N":
            parts = l.split(" ")
            cur.nest.append((int(parts[1]), len(cur.calls), kvs(l)))
        elif t == "O":
            cur.oom = kvs(l)
        elif t == "H":
            cur.ledger = kvs(l)
        elif t == "P" or t == "Q":
            cur.precond = getattr(cur, "precond", []) + [l]
        elif t == "X" and last is not None:
            last.stop = True
        elif t == "G":
            d = kvs(l)
            if l.startswith("G pre") and cur.pre is not None and cur.R is not None:
                # a second nlopt_optimize on the same object (runs=2): continue in a new record
                nxt = Run(cur.spec)
                nxt.part = getattr(cur, "part", 1) + 1
                runs.append(nxt)
                cur = nxt
                last = None
            if l.startswith("G pre") and cur.pre is None:
                cur.pre = d
            elif l.startswith("G post"):
                cur.post = d
        elif t == "R":
            cur.R = kvs(l) if "=" in l else {"raw": l}
        elif t == "C":
            cur.creation.append(l)
        elif t == "A":
            cur.asserts.append(l)
        elif t in "SF":
            cur.sites.append((len(cur.calls), l))
    return runs


def cons_compact(s):
    """fc=[m:kind:tol;...] -> m:kind;..."""
    s = s.strip("[]")
    if not s:
        return "_"
    return ";".join(":".join(it.split(":")[:2]) for it in s.split(";"))


def model_input(run, capsline, forceval=1):
    """lines for `nlopt_model wrap`; None when the record cannot be replayed (crash, create failure)"""
    if run.pre is None or run.R is None or "ret" not in run.R or run.status != "ok":
        return None
    sp = kvs(run.spec)
    if sp.get("nullf") == "1" or sp.get("nullopt") == "1" or sp.get("nullx") == "1":
        return None                     # NULL pointer arguments: outside the wrapper model (checked by the monitor only)
    g = run.pre
    obj = ["obj"] + ["%s=%s" % (k, g[k]) for k in ("alg", "n", "max", "hasf", "lb", "ub", "stopval", "ftol_rel", "ftol_abs", "xtol_rel",
                                                    "xtol_abs", "xw", "dx", "maxeval", "maxtime", "numevals", "fstop", "pop", "vs")]
    obj.append("fc=" + cons_compact(g.get("fc", "[]")))
    obj.append("h=" + cons_compact(g.get("h", "[]")))
    obj.append("haslocal=%d" % (0 if g.get("local", "-") == "-" else 1))
    out = ["wbegin", capsline, " ".join(obj)]
    x0 = sp.get("x0", "_")
    n = int(g["n"])
    if x0 in ("-", "") or n == 0:
        x0 = "_" if n == 0 else ",".join(["0000000000000000"] * n)
    out.append("x0 %s optf0 %s" % (x0, "c0c81cd6c8b43958"))      # -12345.678, the harness's initial *opt_f
    for c in run.calls:
        fn = "f" if c.kind == "f" else ("i%d" % c.i if c.role == 1 else "e%d" % c.i)
        pre = dict((e, d) for e, d in c.pre)
        if 20 in pre:
            qx, qg = pre[20]["x"], pre[20]["g"]
        elif 22 in pre:
            qx, qg = pre[22]["x"], pre[22]["g"]
        else:
            qx, qg = c.x, "1" if c.g else "0"
        out.append("q %s %s %s a %s %s %s" % (fn, qg, qx or "_", c.val or "_", c.grad if c.grad is not None else "-",
                                               str(forceval) if c.stop else "-"))
    if run.e11 is not None:
        out.append("res %s %s %s %s" % (run.e11["ret"], run.e11["minf"], run.e11["x"] or "_", run.e11["numevals"]))
    else:
        out.append("nores")
    out.append("wend")
    return out


VIEW_KEYS = ("alg", "n", "max", "lb", "ub", "stopval", "ftol_rel", "ftol_abs", "xtol_rel", "xtol_abs", "xw", "dx", "maxeval",
             "maxtime", "fstop", "pop", "vs", "m", "p")


def compare_run(run, mlines):
    """compare the model's output block for one run with the record; returns list of difference texts"""
    diffs = []
    it = iter(mlines)
    first = next(it, "")
    if not first.startswith("prob "):
        return ["model produced no prob line: %r" % first[:80]]
    pm = kvs(first)
    if run.e10 is not None:
        for k in ("x",) + VIEW_KEYS:
            a, b = run.e10.get(k), pm.get(k)
            if k == "x" and a == "":
                a = "_"
            if canon_nan(a or "") != canon_nan(b or ""):
                diffs.append("inner problem field %s: impl=%s model=%s" % (k, a, b))
    ulines = []
    final = None
    for l in it:
        if l.startswith("u "):
            ulines.append(l)
        elif l.startswith("final "):
            final = kvs(l)
        elif l == "running":
            diffs.append("model: algorithm still running (fuel)")
    if len(ulines) != len(run.calls):
        diffs.append("number of user calls: impl=%d model=%d" % (len(run.calls), len(ulines)))
    for c, l in zip(run.calls, ulines):
        p = l.split(" ")
        # u fn g x r vals grad
        fn = "f" if c.kind == "f" else ("i%d" % c.i if c.role == 1 else "e%d" % c.i)
        if p[1] != fn or (p[2] == "1") != c.g or canon_nan(p[3]) != canon_nan(c.x or "_"):
            diffs.append("user call differs: impl=(%s g=%d x=%s) model=(%s)" % (fn, c.g, c.x, " ".join(p[1:4])))
            break
        # what the algorithm got back
        post = dict((e, d) for e, d in c.post)
        if 21 in post:
            ev, eg = post[21]["val"], post[21]["grad"]
        elif 41 in post:
            ev, eg = post[41]["val"], post[41]["grad"]
        else:
            ev, eg = c.val, c.grad if c.grad is not None else "-"
        if canon_nan(p[5]) != canon_nan(ev) or canon_nan(p[6]) != canon_nan(eg if eg else "-"):
            diffs.append("answer to algorithm differs: impl=(%s %s) model=(%s %s)" % (ev, eg, p[5], p[6]))
            break
    if final is None:
        diffs.append("model produced no final line")
    else:
        R = run.R
        if final.get("ret") != R.get("ret"):
            diffs.append("return code: impl=%s model=%s" % (R.get("ret"), final.get("ret")))
        if canon_nan(final.get("optf", "")) != canon_nan(R.get("optf", "")):
            diffs.append("opt_f: impl=%s model=%s" % (R.get("optf"), final.get("optf")))
        rx = R.get("x", "") or "_"
        if canon_nan(final.get("x", "")) != canon_nan(rx):
            diffs.append("returned x: impl=%s model=%s" % (rx, final.get("x")))
        if run.post is not None:
            for k in VIEW_KEYS + ("numevals",):
                if canon_nan(run.post.get(k, "")) != canon_nan(final.get(k, "")):
                    diffs.append("object after the call, field %s: impl=%s model=%s" % (k, run.post.get(k), final.get(k)))
    return diffs


def replay_all(runs, capsline):
    """runs the model on every replayable record; returns list of (run, diffs)"""
    blocks, idx = [], []
    for k, r in enumerate(runs):
        mi = model_input(r, capsline, forceval=int(kvs(r.spec).get("forceval", 1)))
        if mi is not None:
            blocks += mi
            idx.append(k)
    if not blocks:
        return []
    for attempt in range(3):
        q = subprocess.run([model_exe(), "wrap"], input=("\n".join(blocks) + "\n").encode(), stdout=subprocess.PIPE,
                           stderr=subprocess.PIPE, timeout=3000)
        if q.returncode >= 0:
            break               # a negative code = killed by a signal (memory pressure on the host): not an answer of the model, run it again
    if q.returncode != 0:
        raise RuntimeError("wrap model driver failed (rc=%d): %s" % (q.returncode, q.stderr.decode()[-400:]))
    out = q.stdout.decode().split("\n")
    res, cur = [], []
    for l in out:
        if l == "wdone":
            res.append(cur)
            cur = []
        elif l:
            cur.append(l)
    return [(runs[k], compare_run(runs[k], res[j]) if j < len(res) else ["model output missing"]) for j, k in enumerate(idx)]


def wrap_caps_line(algd):
    j = lambda l: ",".join(map(str, l)) if l else "-"
    return "caps %s %s %s %s" % (j(algd["elim"]), j(algd["memo"]), j(algd["finite"]), j(algd["needlocal"]))
