"""Random optimization problems for the instrumented runner (harness/run.c): structured, mostly valid
specs built from the repo's own algorithm lists, every choice derived from one PRNG."""
import math

from .common import hexd

# algorithm families by enum name (indices come from the translator's name list)
DERIV_FREE_LOCAL = ["NLOPT_LN_COBYLA", "NLOPT_LN_BOBYQA", "NLOPT_LN_NEWUOA", "NLOPT_LN_NEWUOA_BOUND", "NLOPT_LN_PRAXIS",
                    "NLOPT_LN_NELDERMEAD", "NLOPT_LN_SBPLX"]
GRAD_LOCAL = ["NLOPT_LD_MMA", "NLOPT_LD_CCSAQ", "NLOPT_LD_SLSQP", "NLOPT_LD_LBFGS", "NLOPT_LD_VAR1", "NLOPT_LD_VAR2",
              "NLOPT_LD_TNEWTON", "NLOPT_LD_TNEWTON_RESTART", "NLOPT_LD_TNEWTON_PRECOND", "NLOPT_LD_TNEWTON_PRECOND_RESTART"]
GLOBAL = ["NLOPT_GN_DIRECT", "NLOPT_GN_DIRECT_L", "NLOPT_GN_DIRECT_L_RAND", "NLOPT_GN_DIRECT_NOSCAL", "NLOPT_GN_DIRECT_L_NOSCAL",
          "NLOPT_GN_DIRECT_L_RAND_NOSCAL", "NLOPT_GN_ORIG_DIRECT", "NLOPT_GN_ORIG_DIRECT_L", "NLOPT_GD_STOGO", "NLOPT_GD_STOGO_RAND",
          "NLOPT_GN_CRS2_LM", "NLOPT_GN_ISRES", "NLOPT_GN_ESCH", "NLOPT_GN_AGS"]
MLSL = ["NLOPT_GN_MLSL", "NLOPT_GD_MLSL", "NLOPT_GN_MLSL_LDS", "NLOPT_GD_MLSL_LDS", "NLOPT_G_MLSL", "NLOPT_G_MLSL_LDS"]
AUGLAG = ["NLOPT_LN_AUGLAG", "NLOPT_LD_AUGLAG", "NLOPT_LN_AUGLAG_EQ", "NLOPT_LD_AUGLAG_EQ", "NLOPT_AUGLAG", "NLOPT_AUGLAG_EQ"]
ALL = DERIV_FREE_LOCAL + GRAD_LOCAL + GLOBAL + MLSL + AUGLAG


class Algs:
    def __init__(self, algd):
        self.names = algd["names"]
        self.idx = {n: i for i, n in enumerate(self.names)}
        self.d = algd

    def id(self, name):
        return self.idx[name]

    def name(self, i):
        return self.names[i] if 0 <= i < len(self.names) else "?"

    def ids(self, names):
        return [self.idx[n] for n in names if n in self.idx]


def hl(v):
    return ",".join(hexd(x) for x in v) if len(v) else "_"


BOXES = ["finite", "finite", "finite", "offset", "half_lo", "half_hi", "infinite", "fixed", "fixed", "tight", "opt_outside", "big"]


def gen_box(rng, n, kind):
    lb, ub = [], []
    for i in range(n):
        if kind == "finite":
            a = rng.uniform(-3, 2)
            b = a + rng.uniform(0.3, 4)
        elif kind == "offset":
            base = rng.choice([1e6, -1e6, 1e15, 12345.678])
            a = base + rng.uniform(0, 1)
            b = a + rng.uniform(0.5, 3)
        elif kind == "half_lo":
            a, b = rng.uniform(-2, 1), float("inf")
        elif kind == "half_hi":
            a, b = float("-inf"), rng.uniform(-1, 2)
        elif kind == "infinite":
            a, b = float("-inf"), float("inf")
        elif kind == "decimal":                 # bounds as a user types them (-0.1, 0.3): not sums of representable parts
            a = round(rng.uniform(-4, 3), 1)
            b = round(a + round(rng.uniform(0.2, 5), 1), 1)
        elif kind == "tight":
            a = rng.uniform(-1, 1)
            b = a + rng.choice([1e-9, 1e-6, 1e-3])
        elif kind == "big":
            a, b = -rng.choice([1e3, 1e8]), rng.choice([1e3, 1e8])
        else:
            a = rng.uniform(-3, 2)
            b = a + rng.uniform(0.3, 4)
        lb.append(a)
        ub.append(b)
    if kind == "fixed" and n >= 1:
        k = rng.randrange(1, n + 1) if rng.random() < 0.25 else rng.randrange(1, max(2, n))
        for i in rng.sample(range(n), min(k, n)):
            ub[i] = lb[i]
    return lb, ub


def gen_x0(rng, lb, ub, where):
    x = []
    for a, b in zip(lb, ub):
        fa, fb = a > -1e300, b < 1e300
        if a == b:
            x.append(a)
        elif where == "corner":
            x.append(a if fa and (rng.random() < 0.5 or not fb) else (b if fb else rng.uniform(-1, 1)))
        elif where == "face" and rng.random() < 0.5:
            x.append(a if fa else (b if fb else 0.3))
        else:
            if fa and fb:
                x.append(a + (b - a) * rng.uniform(0.05, 0.95))
            elif fa:
                x.append(a + rng.uniform(0.01, 2))
            elif fb:
                x.append(b - rng.uniform(0.01, 2))
            else:
                x.append(rng.uniform(-2, 2))
    return x


def finite_box(lb, ub):
    return all(a > -1e300 and b < 1e300 for a, b in zip(lb, ub))


def gen_problem(rng, algs, alg_name=None, n=None, box=None, with_constraints=None, maxeval=None, allow_max=True):
    """returns a dict spec (see to_line) for a mostly-valid problem"""
    A = algs
    name = alg_name or rng.choice(ALL)
    aid = A.id(name)
    is_global = name in GLOBAL or name in MLSL
    if n is None:
        n = rng.choice([1, 2, 2, 3, 3, 4])
        if name in ("NLOPT_LN_NEWUOA", "NLOPT_LN_NEWUOA_BOUND", "NLOPT_LN_BOBYQA"):
            n = max(n, 2)
        if name == "NLOPT_GN_AGS":
            n = min(n, 3)
    kind = box or rng.choice(BOXES)
    if is_global and kind in ("half_lo", "half_hi", "infinite"):
        kind = "finite"
    if name == "NLOPT_LN_NEWUOA" and kind not in ("infinite",) and rng.random() < 0.5:
        kind = "infinite"
    lb, ub = gen_box(rng, n, kind)
    x0 = gen_x0(rng, lb, ub, rng.choice(["interior", "interior", "face", "corner"]))
    if kind == "opt_outside":
        oc = [b + rng.uniform(0.5, 2) if rng.random() < 0.5 else a - rng.uniform(0.5, 2) for a, b in zip(lb, ub)]
    else:
        oc = [(a if a > -1e300 else (b - 1 if b < 1e300 else 0)) + rng.uniform(0.0, 1.0) * (min(b, a + 2) - a if a > -1e300 and b < 1e300 else 1.0) for a, b in zip(lb, ub)]
    p = {"alg": aid, "name": name, "n": n, "lb": lb, "ub": ub, "x0": x0, "obj": rng.choice([0, 0, 1, 2, 3, 4, 6]), "oc": oc,
         "maxeval": maxeval if maxeval is not None else rng.choice([1, 2, 5, 10, 20, 40, 60]), "seed": rng.randrange(1, 10 ** 6), "box": kind}
    if name == "NLOPT_LN_NEWUOA" and kind != "infinite":
        pass
    if allow_max and rng.random() < 0.3:
        p["max"] = 1
    r = rng.random()
    if r < 0.15:
        p["stopval"] = rng.choice([0.5, 5.0, 1e-3, -1.0]) * (-1 if p.get("max") else 1)
    if rng.random() < 0.2:
        p["ftol_rel"] = rng.choice([1e-2, 1e-4])
    if rng.random() < 0.2:
        p["xtol_rel"] = rng.choice([1e-2, 1e-4])
    if rng.random() < 0.15:
        p["xtol_abs"] = [rng.choice([0.0, 1e-3, 1e-2]) for _ in range(n)]
    if rng.random() < 0.12:
        p["xw"] = [rng.choice([1.0, 2.0, 0.5, 1000.0, 1e-3]) for _ in range(n)]
    if rng.random() < 0.3:
        p["dx"] = [rng.choice([0.27, 0.95, 0.1, 0.5, 1.3, -0.4]) for _ in range(n)]
    if rng.random() < 0.1:
        p["maxtime"] = rng.choice([0.5, 3.0])
        p["clockq"] = rng.choice([0.1, 1.0])
        if rng.random() < 0.5:
            p["clock0"] = rng.choice([8.0, 1024.0])
    if rng.random() < 0.15:
        p["pop"] = rng.choice([1, 3, 10, 25])
    if rng.random() < 0.1:
        p["vs"] = rng.choice([1, 2, 7])
    wc = with_constraints if with_constraints is not None else (rng.random() < 0.35)
    if wc and aid in A.d["ineq"]:
        items = []
        j = 0
        for _ in range(rng.choice([1, 1, 2])):
            tol = rng.choice([0.0, 1e-8, 1e-2])
            if rng.random() < 0.5 and name != "NLOPT_GN_AGS":
                m = rng.choice([1, 2, 3])
                items.append("v:%d:%d:%s:%s:%d" % (m, rng.choice([0, 1, 2]), hl([tol] * m), hexd(rng.uniform(0.5, 3.0)), j))
                j += m
            else:
                items.append("s:%d:%s:%s:%d" % (rng.choice([0, 1, 2]), hexd(tol), hexd(rng.uniform(0.5, 3.0)), j))
                j += 1
        p["ineq"] = ";".join(items)
        if aid in A.d["eq"] and rng.random() < 0.3:
            p["eq"] = "s:0:%s:%s:%d" % (hexd(rng.choice([0.0, 1e-6])), hexd(rng.uniform(-0.5, 0.5)), 7)
    if name in MLSL or name in AUGLAG:
        need = aid in A.d["needlocal"]
        if need or rng.random() < 0.6:
            deriv = "_GD_" in name or "_LD_" in name
            loc = rng.choice(GRAD_LOCAL[:6] if deriv else (DERIV_FREE_LOCAL if not need else DERIV_FREE_LOCAL + GRAD_LOCAL[:3]))
            if loc in ("NLOPT_LN_NEWUOA", "NLOPT_LN_NEWUOA_BOUND", "NLOPT_LN_BOBYQA") and n < 2:
                loc = "NLOPT_LN_NELDERMEAD"
            p["local"] = "%d:%d:%x:%x" % (A.id(loc), rng.choice([0, 5, 20]), int(hexd(rng.choice([0.0, 1e-3])), 16), int(hexd(rng.choice([0.0, 1e-3])), 16))
    return p


KEYS_HEX = ["stopval", "ftol_rel", "ftol_abs", "xtol_rel", "maxtime", "clockq", "clock0"]
KEYS_LIST = ["lb", "ub", "x0", "oc", "xtol_abs", "xw", "dx"]
KEYS_RAW = ["alg", "n", "obj", "max", "maxeval", "pop", "vs", "seed", "ineq", "eq", "local", "stopat", "setforce", "forceval", "inj", "injc",
            "runs", "copy", "noobj", "nullx", "nullf", "params", "reseed", "quietx", "hooks", "runanyway", "negobj", "full_n", "fix", "legacy", "nullopt", "gpop", "glocal", "fixall2", "pre", "failalloc", "munge"]


def to_line(p):
    out = []
    for k in KEYS_RAW:
        if k in p:
            out.append("%s=%s" % (k, p[k]))
    for k in KEYS_HEX:
        if k in p:
            out.append("%s=%s" % (k, hexd(p[k])))
    for k in KEYS_LIST:
        if k in p:
            v = p[k]
            out.append("%s=%s" % (k, "-" if v is None else hl(v)))
    return " ".join(out)
