import NloptModel.Model.ApiOps
/-! The user-visible abstraction of an object (`view`): everything the getters can observe, with block
    ids and the error message erased; and the per-function facts about it. -/
set_option linter.unusedSimpArgs false
set_option linter.unusedVariables false
namespace Nlopt

structure ConView where
  m : Nat
  isVec : Bool
  fid : Nat
  pre : Nat
  fdata : Nat
  tol : Option (List F64)
  deriving DecidableEq

structure CoreView where
  algorithm : Nat
  n : Nat
  f : Nat
  fdata : Nat
  pre : Nat
  maximize : Bool
  params : List (String × F64)
  lb : Option (List F64)
  ub : Option (List F64)
  fc : List ConView
  h : List ConView
  mungeD : Bool
  mungeC : Bool
  stopval : F64
  ftolRel : F64
  ftolAbs : F64
  xtolRel : F64
  xtolAbs : Option (List F64)
  xWeights : Option (List F64)
  maxeval : Int
  numevals : Int
  maxtime : F64
  forceStop : Int
  pop : Nat
  vs : Nat
  dx : Option (List F64)
  deriving DecidableEq

def Con.view (c : Con) : ConView := ⟨c.m, c.isVec, c.fid, c.pre, c.fdata, c.tol.map (·.v)⟩

def Core.view (c : Core) : CoreView :=
  { algorithm := c.algorithm, n := c.n, f := c.f, fdata := c.fdata, pre := c.pre, maximize := c.maximize,
    params := c.params.map (fun p => (p.name, p.val)), lb := c.lb.map (·.v), ub := c.ub.map (·.v),
    fc := c.fc.map Con.view, h := c.h.map Con.view, mungeD := c.mungeD, mungeC := c.mungeC,
    stopval := c.stopval, ftolRel := c.ftolRel, ftolAbs := c.ftolAbs, xtolRel := c.xtolRel,
    xtolAbs := c.xtolAbs.map (·.v), xWeights := c.xWeights.map (·.v), maxeval := c.maxeval,
    numevals := c.numevals, maxtime := c.maxtime, forceStop := c.forceStop, pop := c.pop, vs := c.vs,
    dx := c.dx.map (·.v) }

def Obj.view (o : Obj) : List CoreView := o.chain.map Core.view

@[simp] theorem unsetErrmsg_view (s : AS) (c : Core) : (unsetErrmsg s c).2.view = c.view := by
  unfold unsetErrmsg; split <;> rfl

@[simp] theorem setErrmsg_view (s : AS) (c : Core) : (setErrmsg s c).2.view = c.view := by
  unfold setErrmsg; split <;> rfl

theorem setLowerBounds_fail (A : Arith) (s : AS) (c : Core) (arg : Option (List F64))
    (h : (setLowerBounds A s c arg).2.2 < 0) : (setLowerBounds A s c arg).2.1.view = c.view := by
  unfold setLowerBounds at *
  simp only [] at *
  split at h
  · simp [rSUCCESS] at h
  · split <;> simp_all


theorem setUpperBounds_fail (A : Arith) (s : AS) (c : Core) (arg : Option (List F64))
    (h : (setUpperBounds A s c arg).2.2 < 0) : (setUpperBounds A s c arg).2.1.view = c.view := by
  unfold setUpperBounds at *
  simp only [] at *
  repeat' split at h
  all_goals first
    | (simp [rSUCCESS] at h; done)
    | (repeat' split) <;> (first | (simp_all [rSUCCESS, rINVALID, rOOM]; done) | (simp_all [rSUCCESS, rINVALID, rOOM]; rfl) | rfl)

theorem setLowerBounds1_fail (A : Arith) (s : AS) (c : Core) (x : F64)
    (h : (setLowerBounds1 A s c x).2.2 < 0) : (setLowerBounds1 A s c x).2.1.view = c.view := by
  unfold setLowerBounds1 at *
  simp only [] at *
  repeat' split at h
  all_goals first
    | (simp [rSUCCESS] at h; done)
    | (repeat' split) <;> (first | (simp_all [rSUCCESS, rINVALID, rOOM]; done) | (simp_all [rSUCCESS, rINVALID, rOOM]; rfl) | rfl)

theorem setUpperBounds1_fail (A : Arith) (s : AS) (c : Core) (x : F64)
    (h : (setUpperBounds1 A s c x).2.2 < 0) : (setUpperBounds1 A s c x).2.1.view = c.view := by
  unfold setUpperBounds1 at *
  simp only [] at *
  repeat' split at h
  all_goals first
    | (simp [rSUCCESS] at h; done)
    | (repeat' split) <;> (first | (simp_all [rSUCCESS, rINVALID, rOOM]; done) | (simp_all [rSUCCESS, rINVALID, rOOM]; rfl) | rfl)

theorem setLowerBound_fail (A : Arith) (s : AS) (c : Core) (i : Int) (x : F64)
    (h : (setLowerBound A s c i x).2.2 < 0) : (setLowerBound A s c i x).2.1.view = c.view := by
  unfold setLowerBound at *
  simp only [] at *
  repeat' split at h
  all_goals first
    | (simp [rSUCCESS] at h; done)
    | (repeat' split) <;> (first | (simp_all [rSUCCESS, rINVALID, rOOM]; done) | (simp_all [rSUCCESS, rINVALID, rOOM]; rfl) | rfl)

theorem setUpperBound_fail (A : Arith) (s : AS) (c : Core) (i : Int) (x : F64)
    (h : (setUpperBound A s c i x).2.2 < 0) : (setUpperBound A s c i x).2.1.view = c.view := by
  unfold setUpperBound at *
  simp only [] at *
  repeat' split at h
  all_goals first
    | (simp [rSUCCESS] at h; done)
    | (repeat' split) <;> (first | (simp_all [rSUCCESS, rINVALID, rOOM]; done) | (simp_all [rSUCCESS, rINVALID, rOOM]; rfl) | rfl)

theorem setParam_fail (s : AS) (c : Core) (nm : Option String) (x : F64)
    (h : (setParam s c nm x).2.2 < 0) : (setParam s c nm x).2.1.view = c.view := by
  unfold setParam at *
  simp only [] at *
  repeat' split at h
  all_goals first
    | (simp [rSUCCESS] at h; done)
    | (repeat' split) <;> (first | (simp_all [rSUCCESS, rINVALID, rOOM]; done) | (simp_all [rSUCCESS, rINVALID, rOOM]; rfl) | rfl)

theorem setObjective_fail (s : AS) (c : Core) (f pre fdata : Nat) (mx : Bool)
    (h : (setObjective s c f pre fdata mx).2.2 < 0) : (setObjective s c f pre fdata mx).2.1.view = c.view := by
  unfold setObjective at *
  simp only [] at *
  repeat' split at h
  all_goals first
    | (simp [rSUCCESS] at h; done)
    | (repeat' split) <;> (first | (simp_all [rSUCCESS, rINVALID, rOOM]; done) | (simp_all [rSUCCESS, rINVALID, rOOM]; rfl) | rfl)

theorem removeIneq_fail (s : AS) (c : Core)
    (h : (removeIneq s c).2.2 < 0) : (removeIneq s c).2.1.view = c.view := by
  unfold removeIneq at *
  simp only [] at *
  repeat' split at h
  all_goals first
    | (simp [rSUCCESS] at h; done)
    | (repeat' split) <;> (first | (simp_all [rSUCCESS, rINVALID, rOOM]; done) | (simp_all [rSUCCESS, rINVALID, rOOM]; rfl) | rfl)

theorem removeEq_fail (s : AS) (c : Core)
    (h : (removeEq s c).2.2 < 0) : (removeEq s c).2.1.view = c.view := by
  unfold removeEq at *
  simp only [] at *
  repeat' split at h
  all_goals first
    | (simp [rSUCCESS] at h; done)
    | (repeat' split) <;> (first | (simp_all [rSUCCESS, rINVALID, rOOM]; done) | (simp_all [rSUCCESS, rINVALID, rOOM]; rfl) | rfl)

theorem setXtolAbs_fail (s : AS) (c : Core) (arg : Option (List F64))
    (h : (setXtolAbs s c arg).2.2 < 0) : (setXtolAbs s c arg).2.1.view = c.view := by
  unfold setXtolAbs at *
  simp only [] at *
  repeat' split at h
  all_goals first
    | (simp [rSUCCESS] at h; done)
    | (repeat' split) <;> (first | (simp_all [rSUCCESS, rINVALID, rOOM]; done) | (simp_all [rSUCCESS, rINVALID, rOOM]; rfl) | rfl)

theorem setXtolAbs1_fail (s : AS) (c : Core) (x : F64)
    (h : (setXtolAbs1 s c x).2.2 < 0) : (setXtolAbs1 s c x).2.1.view = c.view := by
  unfold setXtolAbs1 at *
  simp only [] at *
  repeat' split at h
  all_goals first
    | (simp [rSUCCESS] at h; done)
    | (repeat' split) <;> (first | (simp_all [rSUCCESS, rINVALID, rOOM]; done) | (simp_all [rSUCCESS, rINVALID, rOOM]; rfl) | rfl)

theorem setXWeights_fail (s : AS) (c : Core) (arg : Option (List F64))
    (h : (setXWeights s c arg).2.2 < 0) : (setXWeights s c arg).2.1.view = c.view := by
  unfold setXWeights at *
  simp only [] at *
  repeat' split at h
  all_goals first
    | (simp [rSUCCESS] at h; done)
    | (repeat' split) <;> (first | (simp_all [rSUCCESS, rINVALID, rOOM]; done) | (simp_all [rSUCCESS, rINVALID, rOOM]; rfl) | rfl)

theorem setXWeights1_fail (s : AS) (c : Core) (x : F64)
    (h : (setXWeights1 s c x).2.2 < 0) : (setXWeights1 s c x).2.1.view = c.view := by
  unfold setXWeights1 at *
  simp only [] at *
  repeat' split at h
  all_goals first
    | (simp [rSUCCESS] at h; done)
    | (repeat' split) <;> (first | (simp_all [rSUCCESS, rINVALID, rOOM]; done) | (simp_all [rSUCCESS, rINVALID, rOOM]; rfl) | rfl)

theorem setInitialStep1_fail (s : AS) (c : Core) (x : F64)
    (h : (setInitialStep1 s c x).2.2 < 0) : (setInitialStep1 s c x).2.1.view = c.view := by
  unfold setInitialStep1 at *
  simp only [] at *
  repeat' split at h
  all_goals first
    | (simp [rSUCCESS] at h; done)
    | (repeat' split) <;> (first | (simp_all [rSUCCESS, rINVALID, rOOM]; done) | (simp_all [rSUCCESS, rINVALID, rOOM]; rfl) | rfl)

theorem setInitialStep_fail (s : AS) (c : Core) (arg : Option (List F64))
    (h : (setInitialStep s c arg).2.2 < 0) : (setInitialStep s c arg).2.1.view = c.view := by
  unfold setInitialStep at *
  simp only [] at *
  repeat' split at h
  all_goals first
    | (simp [rSUCCESS] at h; done)
    | (repeat' split) <;> (first | (simp_all [rSUCCESS, rINVALID, rOOM]; done) | skip)
  all_goals
    rename_i hr _ _
    have := setInitialStep1_fail (unsetErrmsg s c).1 (unsetErrmsg s c).2 F64.one (by simp_all [rOOM])
    simp_all

theorem setDefaultInitialStep_fail (A : Arith) (s : AS) (c : Core) (x : Option (List F64))
    (h : (setDefaultInitialStep A s c x).2.2 < 0) : (setDefaultInitialStep A s c x).2.1.view = c.view := by
  unfold setDefaultInitialStep at *
  simp only [] at *
  repeat' split at h
  all_goals first
    | (simp [rSUCCESS] at h; done)
    | (repeat' split) <;> (first | (simp_all [rSUCCESS, rINVALID, rOOM]; done) | skip)
  all_goals
    have := setInitialStep1_fail (unsetErrmsg s c).1 (unsetErrmsg s c).2 F64.one (by simp_all [rOOM])
    simp_all

/-- `add_constraint` either succeeds or leaves list, allocation count and block as they were, and never
    changes the rest of the object -/
theorem addConstraint_fail (s : AS) (c : Core) (cs : List Con) (al : Nat) (blk : Option Nat)
    (fm : Nat) (isVec : Bool) (fid pre fdata : Nat) (tol : Option (List F64))
    (h : (addConstraint s c cs al blk fm isVec fid pre fdata tol).2.2.2.2.2 < 0) :
    (addConstraint s c cs al blk fm isVec fid pre fdata tol).2.2.1 = cs ∧
    (addConstraint s c cs al blk fm isVec fid pre fdata tol).2.2.2.1 = al ∧
    (addConstraint s c cs al blk fm isVec fid pre fdata tol).2.2.2.2.1 = blk := by
  unfold addConstraint at *
  simp only [] at *
  repeat' split at h
  all_goals first
    | (simp [rSUCCESS] at h; done)
    | (repeat' split) <;> simp_all [rSUCCESS, rINVALID, rOOM]

theorem addConstraint_view (s : AS) (c : Core) (cs : List Con) (al : Nat) (blk : Option Nat)
    (fm : Nat) (isVec : Bool) (fid pre fdata : Nat) (tol : Option (List F64)) :
    (addConstraint s c cs al blk fm isVec fid pre fdata tol).2.1.view = c.view := by
  unfold addConstraint
  simp only []
  repeat' split
  all_goals simp_all

theorem addConCore_fail (caps : List Nat) (eq : Bool) (s : AS) (c : Core) (fm : Nat) (isVec : Bool)
    (fid pre fdata : Nat) (tol : Option (List F64))
    (h : (addConCore caps eq s c fm isVec fid pre fdata tol).2.2 < 0) :
    (addConCore caps eq s c fm isVec fid pre fdata tol).2.1.view = c.view := by
  unfold addConCore at *
  by_cases hcap : (!caps.contains c.algorithm) = true
  · rw [if_pos hcap]; exact setErrmsg_view s c
  · rw [if_neg hcap] at h ⊢
    by_cases heq : eq = true
    · rw [if_pos heq] at h ⊢
      have hv := addConstraint_view s c c.h c.pAlloc c.hBlk fm isVec fid pre fdata tol
      have hf := addConstraint_fail s c c.h c.pAlloc c.hBlk fm isVec fid pre fdata tol h
      obtain ⟨h1, h2, h3⟩ := hf
      simp only [Core.view] at hv ⊢
      simp only [h1]
      simp_all
    · rw [if_neg heq] at h ⊢
      have hv := addConstraint_view s c c.fc c.mAlloc c.fcBlk fm isVec fid pre fdata tol
      have hf := addConstraint_fail s c c.fc c.mAlloc c.fcBlk fm isVec fid pre fdata tol h
      obtain ⟨h1, h2, h3⟩ := hf
      simp only [Core.view] at hv ⊢
      simp only [h1]
      simp_all

theorem addCon_fail (caps : List Nat) (eq : Bool) (s : AS) (c : Core) (fm : Nat) (isVec : Bool)
    (fid pre fdata : Nat) (tol : Option (List F64))
    (h : (addCon caps eq s c fm isVec fid pre fdata tol).2.2 < 0) :
    (addCon caps eq s c fm isVec fid pre fdata tol).2.1.view = c.view := by
  unfold addCon at *
  by_cases hh : (isVec = true ∧ fm = 0)
  · rw [if_pos hh] at h; simp [rSUCCESS] at h
  · rw [if_neg hh] at h ⊢
    simp only [] at h ⊢
    rw [addConCore_fail _ _ _ _ _ _ _ _ _ _ h]
    simp

/-! ### algorithm and dimension never change -/

def Core.ident (c : Core) : Nat × Nat := (c.algorithm, c.n)

@[simp] theorem unsetErrmsg_ident (s : AS) (c : Core) : (unsetErrmsg s c).2.ident = c.ident := by
  unfold unsetErrmsg; split <;> rfl
@[simp] theorem setErrmsg_ident (s : AS) (c : Core) : (setErrmsg s c).2.ident = c.ident := by
  unfold setErrmsg; split <;> rfl
@[simp] theorem unsetErrmsg_n (s : AS) (c : Core) : (unsetErrmsg s c).2.n = c.n := by
  unfold unsetErrmsg; split <;> rfl
@[simp] theorem setErrmsg_n (s : AS) (c : Core) : (setErrmsg s c).2.n = c.n := by
  unfold setErrmsg; split <;> rfl

@[simp] theorem setLowerBounds_ident (A : Arith) (s : AS) (c : Core) (arg : Option (List F64)) : (setLowerBounds A s c arg).2.1.ident = c.ident := by
  unfold setLowerBounds
  simp only []
  (repeat' split) <;> (first | (simp_all; done) | rfl | (simp_all; rfl) | (rw [← unsetErrmsg_ident s c]; rfl))

@[simp] theorem setUpperBounds_ident (A : Arith) (s : AS) (c : Core) (arg : Option (List F64)) : (setUpperBounds A s c arg).2.1.ident = c.ident := by
  unfold setUpperBounds
  simp only []
  (repeat' split) <;> (first | (simp_all; done) | rfl | (simp_all; rfl) | (rw [← unsetErrmsg_ident s c]; rfl))

@[simp] theorem setLowerBounds1_ident (A : Arith) (s : AS) (c : Core) (x : F64) : (setLowerBounds1 A s c x).2.1.ident = c.ident := by
  unfold setLowerBounds1
  simp only []
  (repeat' split) <;> (first | (simp_all; done) | rfl | (simp_all; rfl) | (rw [← unsetErrmsg_ident s c]; rfl))

@[simp] theorem setUpperBounds1_ident (A : Arith) (s : AS) (c : Core) (x : F64) : (setUpperBounds1 A s c x).2.1.ident = c.ident := by
  unfold setUpperBounds1
  simp only []
  (repeat' split) <;> (first | (simp_all; done) | rfl | (simp_all; rfl) | (rw [← unsetErrmsg_ident s c]; rfl))

@[simp] theorem setLowerBound_ident (A : Arith) (s : AS) (c : Core) (i : Int) (x : F64) : (setLowerBound A s c i x).2.1.ident = c.ident := by
  unfold setLowerBound
  simp only []
  (repeat' split) <;> (first | (simp_all; done) | rfl | (simp_all; rfl) | (rw [← unsetErrmsg_ident s c]; rfl))

@[simp] theorem setUpperBound_ident (A : Arith) (s : AS) (c : Core) (i : Int) (x : F64) : (setUpperBound A s c i x).2.1.ident = c.ident := by
  unfold setUpperBound
  simp only []
  (repeat' split) <;> (first | (simp_all; done) | rfl | (simp_all; rfl) | (rw [← unsetErrmsg_ident s c]; rfl))

@[simp] theorem setParam_ident (s : AS) (c : Core) (nm : Option String) (x : F64) : (setParam s c nm x).2.1.ident = c.ident := by
  unfold setParam
  simp only []
  (repeat' split) <;> (first | (simp_all; done) | rfl | (simp_all; rfl) | (rw [← unsetErrmsg_ident s c]; rfl))

@[simp] theorem setObjective_ident (s : AS) (c : Core) (f pre fdata : Nat) (mx : Bool) : (setObjective s c f pre fdata mx).2.1.ident = c.ident := by
  unfold setObjective
  simp only []
  (repeat' split) <;> (first | (simp_all; done) | rfl | (simp_all; rfl) | (rw [← unsetErrmsg_ident s c]; rfl))

@[simp] theorem removeIneq_ident (s : AS) (c : Core) : (removeIneq s c).2.1.ident = c.ident := by
  unfold removeIneq
  simp only []
  (repeat' split) <;> (first | (simp_all; done) | rfl | (simp_all; rfl) | (rw [← unsetErrmsg_ident s c]; rfl))

@[simp] theorem removeEq_ident (s : AS) (c : Core) : (removeEq s c).2.1.ident = c.ident := by
  unfold removeEq
  simp only []
  (repeat' split) <;> (first | (simp_all; done) | rfl | (simp_all; rfl) | (rw [← unsetErrmsg_ident s c]; rfl))

@[simp] theorem setXtolAbs_ident (s : AS) (c : Core) (arg : Option (List F64)) : (setXtolAbs s c arg).2.1.ident = c.ident := by
  unfold setXtolAbs
  simp only []
  (repeat' split) <;> (first | (simp_all; done) | rfl | (simp_all; rfl) | (rw [← unsetErrmsg_ident s c]; rfl))

@[simp] theorem setXtolAbs1_ident (s : AS) (c : Core) (x : F64) : (setXtolAbs1 s c x).2.1.ident = c.ident := by
  unfold setXtolAbs1
  simp only []
  (repeat' split) <;> (first | (simp_all; done) | rfl | (simp_all; rfl) | (rw [← unsetErrmsg_ident s c]; rfl))

@[simp] theorem setXWeights_ident (s : AS) (c : Core) (arg : Option (List F64)) : (setXWeights s c arg).2.1.ident = c.ident := by
  unfold setXWeights
  simp only []
  (repeat' split) <;> (first | (simp_all; done) | rfl | (simp_all; rfl) | (rw [← unsetErrmsg_ident s c]; rfl))

@[simp] theorem setXWeights1_ident (s : AS) (c : Core) (x : F64) : (setXWeights1 s c x).2.1.ident = c.ident := by
  unfold setXWeights1
  simp only []
  (repeat' split) <;> (first | (simp_all; done) | rfl | (simp_all; rfl) | (rw [← unsetErrmsg_ident s c]; rfl))

@[simp] theorem setInitialStep1_ident (s : AS) (c : Core) (x : F64) : (setInitialStep1 s c x).2.1.ident = c.ident := by
  unfold setInitialStep1
  simp only []
  (repeat' split) <;> (first | (simp_all; done) | rfl | (simp_all; rfl) | (rw [← unsetErrmsg_ident s c]; rfl))

@[simp] theorem setInitialStep_ident (s : AS) (c : Core) (arg : Option (List F64)) :
    (setInitialStep s c arg).2.1.ident = c.ident := by
  unfold setInitialStep
  simp only []
  have := setInitialStep1_ident (unsetErrmsg s c).1 (unsetErrmsg s c).2 F64.one
  (repeat' split) <;> (first | (simp_all; done) | rfl | (simp_all; rfl) | (rw [← unsetErrmsg_ident s c]; rfl) |
    (rw [← unsetErrmsg_ident s c, ← this]; rfl))

@[simp] theorem setDefaultInitialStep_ident (A : Arith) (s : AS) (c : Core) (x : Option (List F64)) :
    (setDefaultInitialStep A s c x).2.1.ident = c.ident := by
  unfold setDefaultInitialStep
  simp only []
  have := setInitialStep1_ident (unsetErrmsg s c).1 (unsetErrmsg s c).2 F64.one
  (repeat' split) <;> (first | (simp_all; done) | rfl | (simp_all; rfl) | (rw [← unsetErrmsg_ident s c]; rfl) |
    (rw [← unsetErrmsg_ident s c, ← this]; rfl))

/-! ### getters never change what is visible -/

@[simp] theorem getLowerBounds_view (s : AS) (c : Core) (b : Bool) : (getLowerBounds s c b).2.1.view = c.view := by
  unfold getLowerBounds; simp only []; split <;> simp
@[simp] theorem getUpperBounds_view (s : AS) (c : Core) (b : Bool) : (getUpperBounds s c b).2.1.view = c.view := by
  unfold getUpperBounds; simp only []; split <;> simp
@[simp] theorem getXtolAbs_view (s : AS) (c : Core) (b : Bool) : (getXtolAbs s c b).2.1.view = c.view := by
  unfold getXtolAbs; simp only []; split <;> simp
@[simp] theorem getXWeights_view (s : AS) (c : Core) (b : Bool) : (getXWeights s c b).2.1.view = c.view := by
  unfold getXWeights; simp only []; split <;> simp

def Core.eraseDx (c : Core) : Core := { c with dx := none, errmsg := none }

@[simp] theorem unsetErrmsg_eraseDx (s : AS) (c : Core) : (unsetErrmsg s c).2.eraseDx = c.eraseDx := by
  unfold unsetErrmsg; split <;> rfl
@[simp] theorem setErrmsg_eraseDx (s : AS) (c : Core) : (setErrmsg s c).2.eraseDx = c.eraseDx := by
  unfold setErrmsg; split <;> rfl
@[simp] theorem unsetErrmsg_dx (s : AS) (c : Core) : (unsetErrmsg s c).2.dx = c.dx := by
  unfold unsetErrmsg; split <;> rfl

@[simp] theorem setInitialStep1_eraseDx (s : AS) (c : Core) (x : F64) :
    (setInitialStep1 s c x).2.1.eraseDx = c.eraseDx := by
  unfold setInitialStep1
  simp only []
  (repeat' split) <;> (first | (simp_all; done) | (rw [← unsetErrmsg_eraseDx s c]; rfl))

@[simp] theorem setDefaultInitialStep_eraseDx (A : Arith) (s : AS) (c : Core) (x : Option (List F64)) :
    (setDefaultInitialStep A s c x).2.1.eraseDx = c.eraseDx := by
  unfold setDefaultInitialStep
  simp only []
  have h1 := setInitialStep1_eraseDx (unsetErrmsg s c).1 (unsetErrmsg s c).2 F64.one
  (repeat' split) <;> (first | (simp_all; done) | (rw [← unsetErrmsg_eraseDx s c]; rfl) |
    (rw [← unsetErrmsg_eraseDx s c, ← h1]; rfl))

theorem view_of_eraseDx {c c' : Core} (h : c'.eraseDx = c.eraseDx) (hdx : c.dx = none) :
    ({ c' with dx := none } : Core).view = c.view := by
  have : ({ c' with dx := none } : Core).view = c'.eraseDx.view := rfl
  rw [this, h]
  simp [Core.view, Core.eraseDx, hdx]

theorem view_of_eraseDx' {c c' : Core} (h : c'.eraseDx = c.eraseDx) (hdx : c'.dx = c.dx) :
    c'.view = c.view := by
  have h1 : c'.view = { c'.eraseDx.view with dx := c'.dx.map (·.v) } := rfl
  have h2 : c.view = { c.eraseDx.view with dx := c.dx.map (·.v) } := rfl
  rw [h1, h2, h, hdx]

/-- `nlopt_get_initial_step` leaves an unset initial step unset (and everything else alone), whatever it returns -/
@[simp] theorem getInitialStep_view (A : Arith) (s : AS) (c : Core) (x : Option (List F64)) :
    (getInitialStep A s c x).2.1.view = c.view := by
  unfold getInitialStep
  simp only []
  split
  · simp
  · split
    · rename_i hdx
      have hdx0 : c.dx = none := by rw [← unsetErrmsg_dx s c]; exact hdx
      have he := setDefaultInitialStep_eraseDx A (unsetErrmsg s c).1 (unsetErrmsg s c).2 x
      rw [unsetErrmsg_eraseDx] at he
      split
      · -- a failing setDefaultInitialStep: nothing visible changed
        rename_i hr
        by_cases hneg : (setDefaultInitialStep A (unsetErrmsg s c).1 (unsetErrmsg s c).2 x).2.2 < 0
        · have := setDefaultInitialStep_fail A _ _ x hneg
          simp_all
        · exfalso
          unfold setDefaultInitialStep at hr hneg
          simp only [] at hr hneg
          repeat' split at hr
          all_goals simp_all [rSUCCESS, rINVALID, rOOM]
      · exact view_of_eraseDx he hdx0
    · simp

end Nlopt
