import NloptModel.Lemmas.ApiOwnSet
/-! Footprint lemmas for `nlopt_create`, `nlopt_copy` (including every out-of-memory exit) and
    `nlopt_set_local_optimizer`. -/
set_option linter.unusedSimpArgs false
set_option linter.unusedVariables false
namespace Nlopt

variable {P : Ctx} {x : List Nat}

/-! ### the stages of `nlopt_copy`, named (the text is that of `copyChain`) -/

def blankCopy (c : Core) (self : Nat) : Core :=
  { c with self := self, lb := none, ub := none, xtolAbs := none, xWeights := none,
           fcBlk := none, fc := [], hBlk := none, h := [], mAlloc := 0, pAlloc := 0,
           dx := none, errmsg := none, paramsBlk := none, params := [] }

def stMunge (s : AS) (c nc : Core) : Bool × Core × AS :=
  if c.mungeC ∧ c.fdata ≠ 0 then
    match s.mungeCopy c.fdata with
    | (some d, s) => (true, { nc with fdata := d }, s)
    | (none, s) => (false, { nc with fdata := 0 }, s)
  else (true, nc, s)

def stBounds (s : AS) (c nc : Core) : Bool × Core × AS :=
  if c.n > 0 then
    match allocArr s (arrV c.lb) with
    | (none, s) => (false, nc, s)
    | (some lb, s) =>
      let nc := { nc with lb := some lb }
      match allocArr s (arrV c.ub) with
      | (none, s) => (false, nc, s)
      | (some ub, s) =>
        let nc := { nc with ub := some ub }
        let (ok, nc, s) :=
          match c.xtolAbs with
          | some a =>
            match allocArr s a.v with
            | (none, s) => (false, nc, s)
            | (some x, s) => (true, { nc with xtolAbs := some x }, s)
          | none => (true, nc, s)
        if !ok then (false, nc, s) else
        match c.xWeights with
        | some a =>
          match allocArr s a.v with
          | (none, s) => (false, nc, s)
          | (some x, s) => (true, { nc with xWeights := some x }, s)
        | none => (true, nc, s)
  else (true, nc, s)

def stParams (s : AS) (c nc : Core) : Bool × Core × AS :=
  if c.params.length > 0 then
    match s.alloc (s.sz.par * c.params.length) with
    | (none, s) => (false, nc, s)
    | (some b, s) =>
      let (ok, ps, s) := copyNames s [] c.params
      (ok, { nc with paramsBlk := some b, params := ps }, s)
  else (true, nc, s)

theorem copyChain_cons (s : AS) (c : Core) (rest : List Core) :
    copyChain s (c :: rest) =
    match s.alloc s.sz.opt with
    | (none, s) => (s, none)
    | (some self, s) =>
      let r1 := stMunge s c (blankCopy c self)
      if !r1.1 then (copyOom r1.2.2 r1.2.1 [], none) else
      let r2 := stBounds r1.2.2 c r1.2.1
      if !r2.1 then (copyOom r2.2.2 r2.2.1 [], none) else
      let r3 := copyConArray r2.2.2 c.mungeC c.fc
      let nc3 := { r2.2.1 with fcBlk := r3.2.1, fc := r3.2.2.1, mAlloc := if r3.2.1.isSome then c.fc.length else 0 }
      if !r3.1 then (copyOom r3.2.2.2 nc3 [], none) else
      let r4 := copyConArray r3.2.2.2 c.mungeC c.h
      let nc4 := { nc3 with hBlk := r4.2.1, h := r4.2.2.1, pAlloc := if r4.2.1.isSome then c.h.length else 0 }
      if !r4.1 then (copyOom r4.2.2.2 nc4 [], none) else
      let r5 := stParams r4.2.2.2 c nc4
      if !r5.1 then (copyOom r5.2.2 r5.2.1 [], none) else
      let r6 := if rest.isEmpty then (r5.2.2, some []) else copyChain r5.2.2 rest
      match r6.2 with
      | none => (copyOom r6.1 r5.2.1 [], none)
      | some nlocals =>
        match c.dx with
        | some a =>
          match allocArr r6.1 a.v with
          | (none, s) => (copyOom s r5.2.1 nlocals, none)
          | (some x, s) => (s, some ({ r5.2.1 with dx := some x } :: nlocals))
        | none => (r6.1, some (r5.2.1 :: nlocals)) := by
  rw [copyChain]
  rfl

/-! ### helper loops -/

def NoTol (cs : List Con) : Prop := ∀ c ∈ cs, c.tol = none

theorem tolBlks_noTol {cs : List Con} (h : NoTol cs) : tolBlks cs = [] := by
  induction cs with
  | nil => rfl
  | cons c cs ih =>
    rw [tolBlks_cons, h c (List.mem_cons_self), ih (fun d hd => h d (List.mem_cons_of_mem _ hd))]
    rfl

theorem NoTol.append {a b : List Con} (ha : NoTol a) (hb : NoTol b) : NoTol (a ++ b) := by
  intro c hc
  rcases List.mem_append.mp hc with h | h
  · exact ha c h
  · exact hb c h

theorem mungeCopyCons_spec {own : List Nat} (rest : List Con) {done : List Con} {s : AS}
    (h : Good P s own) (hd : NoTol done) (hr : NoTol rest) :
    Good P (mungeCopyCons s done rest).2.2 own ∧ NoTol (mungeCopyCons s done rest).2.1 := by
  induction rest generalizing done s with
  | nil => exact ⟨h, hd⟩
  | cons c rest ih =>
    rw [mungeCopyCons]
    have hc : c.tol = none := hr c (List.mem_cons_self)
    have hr' : NoTol rest := fun d hd => hr d (List.mem_cons_of_mem _ hd)
    split
    · have hg := good_mungeCopy h c.fdata
      split
      · next d s1 heq =>
        rw [heq] at hg
        apply ih hg _ hr'
        apply hd.append
        intro e he
        simp only [List.mem_singleton] at he
        subst he; exact hc
      · next s1 heq =>
        rw [heq] at hg
        refine ⟨hg, ?_⟩
        apply NoTol.append _ hr'
        apply hd.append
        intro e he
        simp only [List.mem_singleton] at he
        subst he; exact hc
    · apply ih h _ hr'
      apply hd.append
      intro e he
      simp only [List.mem_singleton] at he
      subst he; exact hc

theorem copyTols_spec {own : List Nat} (rest : List (Con × Con)) {done : List Con} {s : AS}
    (h : Good P s (tolBlks done ++ own)) (hr : NoTol (rest.map Prod.fst)) :
    Good P (copyTols s done rest).2.2 (tolBlks (copyTols s done rest).2.1 ++ own) := by
  induction rest generalizing done s with
  | nil => exact h
  | cons p rest ih =>
    obtain ⟨nc, src⟩ := p
    rw [copyTols]
    have hc : nc.tol = none := hr nc (by simp)
    have hr' : NoTol (rest.map Prod.fst) := fun d hd => hr d (by simp at hd ⊢; exact Or.inr hd)
    split
    · next t ht =>
      split
      · next a s1 heq =>
        apply ih _ hr'
        exact (good_allocArr_some heq h).perm (by cnt)
      · next s1 heq =>
        have := good_allocArr_none heq h
        have e : tolBlks (nc :: rest.map Prod.fst) = [] := tolBlks_noTol hr
        exact this.perm (by cntw [e])
    · apply ih _ hr'
      exact h.perm (by cntw [hc])

theorem copyNames_spec {own : List Nat} (rest : List Param) {done : List Param} {s : AS}
    (h : Good P s (nameBlks done ++ own)) :
    Good P (copyNames s done rest).2.2 (nameBlks (copyNames s done rest).2.1 ++ own) := by
  induction rest generalizing done s with
  | nil => exact h
  | cons p rest ih =>
    rw [copyNames]
    split
    · next b s1 heq =>
      apply ih
      exact (good_alloc_some heq h).perm (by cnt)
    · next s1 heq => exact good_alloc_none heq h

theorem copyConArray_good {own : List Nat} {s : AS} {mg : Bool} {src : List Con} (h : Good P s own) :
    Good P (copyConArray s mg src).2.2.2
      (oBlk (copyConArray s mg src).2.1 ++ tolBlks (copyConArray s mg src).2.2.1 ++ own) := by
  unfold copyConArray
  split
  · exact h
  · split
    · next s1 heq => exact good_alloc_none heq h
    · next b s1 heq =>
      have h1 := good_alloc_some heq h
      have hblank : NoTol (src.map fun c => { c with tol := none }) := by
        intro c hc
        simp only [List.mem_map] at hc
        obtain ⟨d, _, rfl⟩ := hc
        rfl
      have h2 : Good P (if mg then mungeCopyCons s1 [] (src.map fun c => { c with tol := none })
            else (true, (src.map fun c => { c with tol := none }), s1)).2.2 (b :: own) ∧
          NoTol (if mg then mungeCopyCons s1 [] (src.map fun c => { c with tol := none })
            else (true, (src.map fun c => { c with tol := none }), s1)).2.1 := by
        split
        · exact mungeCopyCons_spec _ h1 (fun _ hc => by simp at hc) hblank
        · exact ⟨h1, hblank⟩
      simp only []
      generalize (if mg then mungeCopyCons s1 [] (src.map fun c => { c with tol := none })
            else (true, (src.map fun c => { c with tol := none }), s1)) = q at h2 ⊢
      obtain ⟨ok, cs, s2⟩ := q
      obtain ⟨h2, h3⟩ := h2
      simp only [] at h2 h3 ⊢
      split
      · have e := tolBlks_noTol h3
        exact h2.perm (by cntw [e])
      · have hz : NoTol ((cs.zip src).map Prod.fst) := by
          intro d hd
          simp only [List.mem_map] at hd
          obtain ⟨pr, hpr, rfl⟩ := hd
          obtain ⟨a, b'⟩ := pr
          exact h3 _ (List.of_mem_zip hpr).1
        have := copyTols_spec (P := P) (own := b :: own) (cs.zip src) (done := []) (s := s2) h2 hz
        generalize copyTols s2 [] (cs.zip src) = q2 at this ⊢
        obtain ⟨ok2, cs2, s3⟩ := q2
        simp only [] at this ⊢
        exact this.perm (by cnt)

/-! ### stages -/

theorem stMunge_spec {own : List Nat} {s : AS} {c nc : Core} (h : Good P s own) :
    Good P (stMunge s c nc).2.2 own ∧
    (stMunge s c nc).2.1 = { nc with fdata := (stMunge s c nc).2.1.fdata } := by
  unfold stMunge
  split
  · have hg := good_mungeCopy h c.fdata
    split
    · next d s1 heq => rw [heq] at hg; exact ⟨hg, rfl⟩
    · next s1 heq => rw [heq] at hg; exact ⟨hg, rfl⟩
  · exact ⟨h, rfl⟩

theorem stBounds_spec {own : List Nat} {s : AS} {c nc : Core} (h : Good P s own)
    (h1 : nc.lb = none) (h2 : nc.ub = none) (h3 : nc.xtolAbs = none) (h4 : nc.xWeights = none) :
    Good P (stBounds s c nc).2.2 (oArr (stBounds s c nc).2.1.lb ++ oArr (stBounds s c nc).2.1.ub ++
      oArr (stBounds s c nc).2.1.xtolAbs ++ oArr (stBounds s c nc).2.1.xWeights ++ own) ∧
    (stBounds s c nc).2.1 = { nc with lb := (stBounds s c nc).2.1.lb, ub := (stBounds s c nc).2.1.ub, xtolAbs := (stBounds s c nc).2.1.xtolAbs, xWeights := (stBounds s c nc).2.1.xWeights } := by
  unfold stBounds
  split
  · split
    · next s1 heq => exact ⟨(good_allocArr_none heq h).perm (by cntw [h1, h2, h3, h4]), rfl⟩
    · next lb s1 heq =>
      have g1 := good_allocArr_some heq h
      simp only []
      split
      · next s2 heq2 => exact ⟨(good_allocArr_none heq2 g1).perm (by cntw [h1, h2, h3, h4]), rfl⟩
      · next ub s2 heq2 =>
        have g2 := good_allocArr_some heq2 g1
        split
        · next a ha =>
          split
          · next s3 heq3 =>
            simp only [Bool.not_false, if_true]
            exact ⟨(good_allocArr_none heq3 g2).perm (by cntw [h1, h2, h3, h4]), trivial⟩
          · next xt s3 heq3 =>
            have g3 := good_allocArr_some heq3 g2
            simp only [Bool.not_true, Bool.false_eq_true, if_false]
            split
            · next a' ha' =>
              split
              · next s4 heq4 => exact ⟨(good_allocArr_none heq4 g3).perm (by cntw [h1, h2, h3, h4]), rfl⟩
              · next xw s4 heq4 => exact ⟨(good_allocArr_some heq4 g3).perm (by cntw [h1, h2, h3, h4]), rfl⟩
            · exact ⟨g3.perm (by cntw [h1, h2, h3, h4]), rfl⟩
        · simp only [Bool.not_true, Bool.false_eq_true, if_false]
          split
          · next a' ha' =>
            split
            · next s4 heq4 => exact ⟨(good_allocArr_none heq4 g2).perm (by cntw [h1, h2, h3, h4]), rfl⟩
            · next xw s4 heq4 => exact ⟨(good_allocArr_some heq4 g2).perm (by cntw [h1, h2, h3, h4]), rfl⟩
          · exact ⟨g2.perm (by cntw [h1, h2, h3, h4]), rfl⟩
  · exact ⟨h.perm (by cntw [h1, h2, h3, h4]), rfl⟩

theorem stParams_spec {own : List Nat} {s : AS} {c nc : Core} (h : Good P s own)
    (h1 : nc.paramsBlk = none) (h2 : nc.params = []) :
    Good P (stParams s c nc).2.2 (oBlk (stParams s c nc).2.1.paramsBlk ++ nameBlks (stParams s c nc).2.1.params ++ own) ∧
    (stParams s c nc).2.1 = { nc with paramsBlk := (stParams s c nc).2.1.paramsBlk, params := (stParams s c nc).2.1.params } := by
  unfold stParams
  split
  · split
    · next s1 heq => exact ⟨(good_alloc_none heq h).perm (by cntw [h1, h2]), rfl⟩
    · next b s1 heq =>
      have g1 := good_alloc_some heq h
      have g2 := copyNames_spec (P := P) (own := b :: own) c.params (done := []) (s := s1) g1
      generalize copyNames s1 [] c.params = q at g2 ⊢
      obtain ⟨ok, ps, s2⟩ := q
      simp only [] at g2 ⊢
      exact ⟨g2.perm (by cnt), trivial⟩
  · exact ⟨h.perm (by cntw [h1, h2]), rfl⟩

theorem copyOom_good {s : AS} {nc : Core} {nl : List Core} (h : Good P s (nc.owned ++ ownedChain nl ++ x)) :
    Good P (copyOom s nc nl) x := by
  unfold copyOom
  apply destroyChain_good
  exact h.perm (by cnt)

def ochain : Option (List Core) → List Nat
  | none => []
  | some l => ownedChain l

theorem copyChain_good (l : List Core) {s : AS} {x : List Nat} (h : Good P s x) :
    Good P (copyChain s l).1 (ochain (copyChain s l).2 ++ x) := by
  induction l generalizing s x with
  | nil => exact h
  | cons c rest ih =>
    rw [copyChain_cons]
    split
    · next s1 heq => exact good_alloc_none heq h
    · next self s1 heq =>
      have g0 := good_alloc_some heq h
      simp only []
      -- objective data
      have g1 := stMunge_spec (c := c) (nc := blankCopy c self) g0
      generalize stMunge s1 c (blankCopy c self) = r1 at g1 ⊢
      obtain ⟨ok1, nc1, s2⟩ := r1
      obtain ⟨g1, e1⟩ := g1
      simp only [] at g1 e1 ⊢
      generalize nc1.fdata = fd1 at e1
      subst e1
      cases ok1
      · simp only [Bool.not_false, if_true]
        apply copyOom_good
        exact g1.perm (by cntw [blankCopy, ochain])
      simp only [Bool.not_true, Bool.false_eq_true, if_false]
      -- bounds, tolerances, weights
      have g2 := stBounds_spec (c := c) (nc := { blankCopy c self with fdata := fd1 }) g1 rfl rfl rfl rfl
      generalize stBounds s2 c { blankCopy c self with fdata := fd1 } = r2 at g2 ⊢
      obtain ⟨ok2, nc2, s3⟩ := r2
      obtain ⟨g2, e2⟩ := g2
      simp only [] at g2 e2 ⊢
      generalize nc2.lb = lb2, nc2.ub = ub2, nc2.xtolAbs = xt2, nc2.xWeights = xw2 at e2 g2
      subst e2
      cases ok2
      · simp only [Bool.not_false, if_true]
        apply copyOom_good
        exact g2.perm (by cntw [blankCopy, ochain])
      simp only [Bool.not_true, Bool.false_eq_true, if_false]
      -- inequality constraints
      have g3 := copyConArray_good (mg := c.mungeC) (src := c.fc) g2
      generalize copyConArray s3 c.mungeC c.fc = r3 at g3 ⊢
      obtain ⟨ok3, blk3, cs3, s4⟩ := r3
      simp only [] at g3 ⊢
      cases ok3
      · simp only [Bool.not_false, if_true]
        apply copyOom_good
        exact g3.perm (by cntw [blankCopy, ochain])
      simp only [Bool.not_true, Bool.false_eq_true, if_false]
      -- equality constraints
      have g4 := copyConArray_good (mg := c.mungeC) (src := c.h) g3
      generalize copyConArray s4 c.mungeC c.h = r4 at g4 ⊢
      obtain ⟨ok4, blk4, cs4, s5⟩ := r4
      simp only [] at g4 ⊢
      cases ok4
      · simp only [Bool.not_false, if_true]
        apply copyOom_good
        exact g4.perm (by cntw [blankCopy, ochain])
      simp only [Bool.not_true, Bool.false_eq_true, if_false]
      -- parameters
      generalize hnc4 : ({ blankCopy c self with fdata := fd1, lb := lb2, ub := ub2, xtolAbs := xt2, xWeights := xw2, fcBlk := blk3, fc := cs3, mAlloc := if blk3.isSome then c.fc.length else 0, hBlk := blk4, h := cs4, pAlloc := if blk4.isSome then c.h.length else 0 } : Core) = nc4 at g4 ⊢
      have g5 := stParams_spec (c := c) (nc := nc4) g4 (by subst hnc4; rfl) (by subst hnc4; rfl)
      generalize stParams s5 c nc4 = r5 at g5 ⊢
      obtain ⟨ok5, nc5, s6⟩ := r5
      obtain ⟨g5, e5⟩ := g5
      simp only [] at g5 e5 ⊢
      generalize nc5.paramsBlk = pb5, nc5.params = ps5 at e5 g5
      subst e5
      subst hnc4
      cases ok5
      · simp only [Bool.not_false, if_true]
        apply copyOom_good
        exact g5.perm (by cntw [blankCopy, ochain])
      simp only [Bool.not_true, Bool.false_eq_true, if_false]
      -- local optimizer
      have g6 : Good P (if rest.isEmpty then (s6, some []) else copyChain s6 rest).1
          (ochain (if rest.isEmpty then (s6, some []) else copyChain s6 rest).2 ++
            (oBlk pb5 ++ nameBlks ps5 ++ (oBlk blk4 ++ tolBlks cs4 ++
              (oBlk blk3 ++ tolBlks cs3 ++ (oArr lb2 ++ oArr ub2 ++ oArr xt2 ++ oArr xw2 ++ self :: x))))) := by
        split
        · exact g5
        · exact ih g5
      generalize (if rest.isEmpty then (s6, some []) else copyChain s6 rest) = r6 at g6 ⊢
      obtain ⟨s7, nl⟩ := r6
      simp only [] at g6 ⊢
      cases nl with
      | none =>
        simp only []
        apply copyOom_good
        exact g6.perm (by cntw [blankCopy, ochain])
      | some nlocals =>
        simp only []
        split
        · next a ha =>
          split
          · next s8 heq8 =>
            simp only []
            apply copyOom_good
            exact (good_allocArr_none heq8 g6).perm (by cntw [blankCopy, ochain])
          · next dx s8 heq8 =>
            exact (good_allocArr_some heq8 g6).perm (by cntw [blankCopy, ochain])
        · exact g6.perm (by cntw [blankCopy, ochain])

theorem slotOwned_ofChain (ch : List Core) : slotOwned (ofChain ch) = ownedChain ch := by
  cases ch <;> rfl

theorem copy_good {s : AS} {o : Obj} (h : Good P s x) :
    Good P (copy s o).1 (slotOwned (copy s o).2 ++ x) := by
  unfold copy
  have h1 := copyChain_good o.chain h
  generalize copyChain s o.chain = r at h1 ⊢
  obtain ⟨s1, ch⟩ := r
  cases ch with
  | none => exact h1
  | some ch => simp only [slotOwned_ofChain]; exact h1

/-! ### nlopt_create -/

theorem create_good {A : Arith} {s : AS} {alg : Int} {n : Nat} (h : Good P s x) :
    Good P (create A s alg n).1 (slotOwned (create A s alg n).2 ++ x) := by
  unfold create
  split
  · exact h
  · split
    · next s1 heq => exact good_alloc_none heq h
    · next self s1 heq =>
      have g0 := good_alloc_some heq h
      simp only []
      split
      · split
        · next s2 heq2 =>
          apply destroyChain_good (x := x)
          exact (good_allocArr_none heq2 g0).perm (by cnt)
        · next lb s2 heq2 =>
          have g1 := good_allocArr_some heq2 g0
          split
          · next s3 heq3 =>
            apply destroyChain_good (x := x)
            exact (good_allocArr_none heq3 g1).perm (by cnt)
          · next ub s3 heq3 =>
            have g2 := good_allocArr_some heq3 g1
            have g3 := setLowerBounds1_good (A := A) (v := infNeg) (x := x)
              (c := { self := self, algorithm := alg.toNat, n := n, lb := some lb, ub := some ub }) (g2.perm (by cnt))
            generalize setLowerBounds1 A s3 { self := self, algorithm := alg.toNat, n := n, lb := some lb, ub := some ub } infNeg = r3 at g3 ⊢
            obtain ⟨s4, c4, r4⟩ := r3
            have g4 := setUpperBounds1_good (A := A) (v := infPos) g3
            generalize setUpperBounds1 A s4 c4 infPos = r5 at g4 ⊢
            obtain ⟨s5, c5, r6⟩ := r5
            simp only [slotOwned, Obj.owned, Obj.chain] at g4 ⊢
            exact g4.perm (by cnt)
      · simp only [slotOwned, Obj.owned, Obj.chain]
        exact g0.perm (by cnt)

/-! ### nlopt_set_local_optimizer -/

theorem setLocalOptimizer_good {A : Arith} {s : AS} {o : Obj} {lo : Option Obj} (h : Good P s (o.owned ++ x)) :
    Good P (setLocalOptimizer A s o lo).1 ((setLocalOptimizer A s o lo).2.1.owned ++ x) := by
  unfold setLocalOptimizer
  have h1 := unsetErrmsg_good (c := o.core) (x := ownedChain o.locals ++ x)
    (h.perm (by intro b; simp only [Obj.owned, Obj.chain, ownedChain_cons, List.count_append]; omega))
  generalize unsetErrmsg s o.core = p at h1 ⊢
  obtain ⟨s1, c1⟩ := p
  simp only [] at h1 ⊢
  split
  · -- NULL: destroy the old local optimizer
    simp only [Obj.owned, Obj.chain, ownedChain_cons, ownedChain_nil, List.append_nil]
    apply destroyChain_good (x := c1.owned ++ x)
    exact h1.perm (by cnt)
  · next l =>
    split
    · have h2 := setErrmsg_good h1
      generalize setErrmsg s1 c1 = q at h2 ⊢
      obtain ⟨s2, c2⟩ := q
      simp only [Obj.owned, Obj.chain, ownedChain_cons] at h2 ⊢
      exact h2.perm (by cnt)
    · have h2 := copyChain_good l.chain h1
      generalize copyChain s1 l.chain = r at h2 ⊢
      obtain ⟨s2, och⟩ := r
      simp only [] at h2 ⊢
      split
      · next heq =>
        simp only [Prod.mk.injEq] at heq
        obtain ⟨rfl, rfl⟩ := heq
        simp only [Obj.owned, Obj.chain, ownedChain_cons]
        exact h2.perm (by cntw [ochain])
      · next heq =>
        simp only [Prod.mk.injEq] at heq
        obtain ⟨rfl, rfl⟩ := heq
        simp only [Obj.owned, Obj.chain, ownedChain_cons]
        exact h2.perm (by cntw [ochain])
      · next s3 nl nrest heq =>
        simp only [Prod.mk.injEq] at heq
        obtain ⟨rfl, rfl⟩ := heq
        simp only [ochain, ownedChain_cons] at h2
        -- destroy the old chain
        have h3 : Good P (destroyChain s2 o.locals) (nl.owned ++ (ownedChain nrest ++ c1.owned ++ x)) := by
          apply destroyChain_good
          exact h2.perm (by cnt)
        simp only []
        generalize destroyChain s2 o.locals = s3 at h3 ⊢
        have h4 := setLowerBounds_good (A := A) (arg := some (arrV c1.lb)) h3
        generalize setLowerBounds A s3 nl (some (arrV c1.lb)) = r4 at h4 ⊢
        obtain ⟨s4, nl4, _⟩ := r4
        have h5 := setUpperBounds_good (A := A) (arg := some (arrV c1.ub)) h4
        generalize setUpperBounds A s4 nl4 (some (arrV c1.ub)) = r5 at h5 ⊢
        obtain ⟨s5, nl5, _⟩ := r5
        have h6 := removeIneq_good h5
        generalize removeIneq s5 nl5 = r6 at h6 ⊢
        obtain ⟨s6, nl6, _⟩ := r6
        have h7 := removeEq_good h6
        generalize removeEq s6 nl6 = r7 at h7 ⊢
        obtain ⟨s7, nl7, _⟩ := r7
        have h8 := setObjective_good (f := 0) (pre := 0) (fd := 0) (mx := false) h7
        generalize setObjective s7 nl7 0 0 0 false = r8 at h8 ⊢
        obtain ⟨s8, nl8, _⟩ := r8
        simp only [Obj.owned, Obj.chain, ownedChain_cons] at h8 ⊢
        exact h8.perm (by cnt)

end Nlopt
