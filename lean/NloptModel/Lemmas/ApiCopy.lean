import NloptModel.Lemmas.ApiLedger
/-! `nlopt_copy` cut into its stages, and what each stage does to the hook ledger, to the view and to the
    block ids. -/
set_option linter.unusedSimpArgs false
set_option linter.unusedVariables false
namespace Nlopt

/-- `*nopt = *opt` followed by the clearing of the pointer fields -/
def copyBlank (c : Core) (self : Nat) : Core :=
  { c with self := self, lb := none, ub := none, xtolAbs := none, xWeights := none,
           fcBlk := none, fc := [], hBlk := none, h := [], mAlloc := 0, pAlloc := 0,
           dx := none, errmsg := none, paramsBlk := none, params := [] }

/-- stage 1: the objective's data through the copy hook -/
def copyObjData (s : AS) (c nc : Core) : Bool × Core × AS :=
  if c.mungeC ∧ c.fdata ≠ 0 then
    match s.mungeCopy c.fdata with
    | (some d, s) => (true, { nc with fdata := d }, s)
    | (none, s) => (false, { nc with fdata := 0 }, s)
  else (true, nc, s)

/-- stage 2: bounds, tolerances, weights -/
def copyArrays (s : AS) (c nc : Core) : Bool × Core × AS :=
  if c.n > 0 then
    match allocArr s (arrV c.lb) with
    | (none, s) => (false, nc, s)
    | (some lb, s) =>
      let nc := { nc with lb := some lb }
      match allocArr s (arrV c.ub) with
      | (none, s) => (false, nc, s)
      | (some ub, s) =>
        let nc := { nc with ub := some ub }
        let (ok, nc, s) :=
          match c.xtolAbs with
          | some a =>
            match allocArr s a.v with
            | (none, s) => (false, nc, s)
            | (some x, s) => (true, { nc with xtolAbs := some x }, s)
          | none => (true, nc, s)
        if !ok then (false, nc, s) else
        match c.xWeights with
        | some a =>
          match allocArr s a.v with
          | (none, s) => (false, nc, s)
          | (some x, s) => (true, { nc with xWeights := some x }, s)
        | none => (true, nc, s)
  else (true, nc, s)

/-- stage 5: parameters -/
def copyParams (s : AS) (c nc : Core) : Bool × Core × AS :=
  if c.params.length > 0 then
    match s.alloc (s.sz.par * c.params.length) with
    | (none, s) => (false, nc, s)
    | (some b, s) =>
      let (ok, ps, s) := copyNames s [] c.params
      (ok, { nc with paramsBlk := some b, params := ps }, s)
  else (true, nc, s)

/-- stages 1–5 for one object: (ok, half-built copy, state) -/
def copyCore (s : AS) (c : Core) (self : Nat) : Bool × Core × AS :=
  let r1 := copyObjData s c (copyBlank c self)
  if !r1.1 then r1 else
  let r2 := copyArrays r1.2.2 c r1.2.1
  if !r2.1 then r2 else
  let r3 := copyConArray r2.2.2 c.mungeC c.fc
  let nc3 : Core := { r2.2.1 with fcBlk := r3.2.1, fc := r3.2.2.1, mAlloc := if r3.2.1.isSome then c.fc.length else 0 }
  if !r3.1 then (false, nc3, r3.2.2.2) else
  let r4 := copyConArray r3.2.2.2 c.mungeC c.h
  let nc4 : Core := { nc3 with hBlk := r4.2.1, h := r4.2.2.1, pAlloc := if r4.2.1.isSome then c.h.length else 0 }
  if !r4.1 then (false, nc4, r4.2.2.2) else
  copyParams r4.2.2.2 c nc4

/-- stage 7: the initial step -/
def copyDx (s : AS) (c nc : Core) (nlocals : List Core) : AS × Option (List Core) :=
  match c.dx with
  | some a =>
    match allocArr s a.v with
    | (none, s) => (copyOom s nc nlocals, none)
    | (some x, s) => (s, some ({ nc with dx := some x } :: nlocals))
  | none => (s, some (nc :: nlocals))

theorem copyChain_folded (s : AS) (c : Core) (rest : List Core) :
    copyChain s (c :: rest) =
      match s.alloc s.sz.opt with
      | (none, s) => (s, none)
      | (some self, s) =>
        let (ok, nc, s) := copyObjData s c (copyBlank c self)
        if !ok then (copyOom s nc [], none) else
        let (ok, nc, s) := copyArrays s c nc
        if !ok then (copyOom s nc [], none) else
        let (ok, blk, cs, s) := copyConArray s c.mungeC c.fc
        let nc := { nc with fcBlk := blk, fc := cs, mAlloc := if blk.isSome then c.fc.length else 0 }
        if !ok then (copyOom s nc [], none) else
        let (ok, blk, cs, s) := copyConArray s c.mungeC c.h
        let nc := { nc with hBlk := blk, h := cs, pAlloc := if blk.isSome then c.h.length else 0 }
        if !ok then (copyOom s nc [], none) else
        let (ok, nc, s) := copyParams s c nc
        if !ok then (copyOom s nc [], none) else
        let (s, nl) := if rest.isEmpty then (s, some []) else copyChain s rest
        match nl with
        | none => (copyOom s nc [], none)
        | some nlocals => copyDx s c nc nlocals := by
  rw [copyChain]
  rfl

theorem copyChain_staged (s : AS) (c : Core) (rest : List Core) :
    copyChain s (c :: rest) =
      match s.alloc s.sz.opt with
      | (none, s) => (s, none)
      | (some self, s) =>
        let r := copyCore s c self
        if !r.1 then (copyOom r.2.2 r.2.1 [], none) else
        let l := if rest.isEmpty then (r.2.2, some []) else copyChain r.2.2 rest
        match l.2 with
        | none => (copyOom l.1 r.2.1 [], none)
        | some nlocals => copyDx l.1 c r.2.1 nlocals := by
  rw [copyChain_folded]
  generalize s.alloc s.sz.opt = r
  obtain ⟨o, s1⟩ := r
  cases o with
  | none => rfl
  | some self =>
    simp only [copyCore]
    generalize copyObjData s1 c (copyBlank c self) = r1
    obtain ⟨ok1, nc1, s2⟩ := r1
    cases ok1 with
    | false => rfl
    | true =>
      simp only []
      generalize copyArrays s2 c nc1 = r2
      obtain ⟨ok2, nc2, s3⟩ := r2
      cases ok2 with
      | false => rfl
      | true =>
        simp only []
        generalize copyConArray s3 c.mungeC c.fc = r3
        obtain ⟨ok3, b3, cs3, s4⟩ := r3
        cases ok3 with
        | false => rfl
        | true =>
          simp only []
          generalize copyConArray s4 c.mungeC c.h = r4
          obtain ⟨ok4, b4, cs4, s5⟩ := r4
          cases ok4 with
          | false => rfl
          | true =>
            simp only []
            generalize copyParams s5 c _ = r5
            obtain ⟨ok5, nc5, s6⟩ := r5
            cases ok5 with
            | false => rfl
            | true => rfl

/-! ### stage lemmas, hook side -/

theorem copyObjData_le (s0 s : AS) (c nc : Core) (h : s0.le s) : s0.le (copyObjData s c nc).2.2 := by
  unfold copyObjData
  have := le_mungeCopy s0 s c.fdata h
  (repeat' split) <;> pair_subst <;> simp_all

theorem copyObjData_rel (s : AS) (c nc : Core) : (copyObjData s c nc).2.2.hk.rel = s.hk.rel := by
  unfold copyObjData
  have := mungeCopy_rel s c.fdata
  (repeat' split) <;> pair_subst <;> simp_all

/-- stage 1 changes nothing but `fdata`; on success it is the hook's answer for a non-NULL pointer under
    an installed hook, and the old value otherwise -/
theorem copyObjData_ok (s : AS) (c nc : Core) (hnc : nc.fdata = c.fdata) (hok : (copyObjData s c nc).1 = true) :
    (copyObjData s c nc).2.1 = { nc with fdata := if c.mungeC then (mungeIds s.nextData [c.fdata]).1.headD 0 else nc.fdata } ∧
    (copyObjData s c nc).2.2.hk.cps = s.hk.cps ++ (if c.mungeC then (mungeIds s.nextData [c.fdata]).2 else []) ∧
    (copyObjData s c nc).2.2.nextData =
      s.nextData + (if c.mungeC then (mungeIds s.nextData [c.fdata]).2.length else 0) := by
  unfold copyObjData at *
  by_cases h1 : c.mungeC = true ∧ c.fdata ≠ 0
  · rw [if_pos h1] at hok ⊢
    have hs := mungeCopy_some s c.fdata
    generalize s.mungeCopy c.fdata = r at *
    obtain ⟨o, s1⟩ := r
    cases o with
    | none => simp at hok
    | some d =>
      obtain ⟨e1, e2, e3⟩ := hs d rfl
      simp_all [mungeIds]
  · rw [if_neg h1]
    by_cases h2 : c.mungeC = true
    · have : c.fdata = 0 := by simp_all
      simp [h2, this, mungeIds]
      rw [← this, ← hnc]
    · simp [h2]

theorem copyArrays_hk (s : AS) (c nc : Core) : (copyArrays s c nc).2.2.hk = s.hk := by
  unfold copyArrays
  simp only []
  (repeat' split) <;> pair_subst <;> simp

theorem copyArrays_le (s0 s : AS) (c nc : Core) (h : s0.le s) : s0.le (copyArrays s c nc).2.2 := by
  unfold copyArrays
  simp only []
  (repeat' split) <;> pair_subst <;> simp (maxDischargeDepth := 8) [h]

theorem copyArrays_data (s : AS) (c nc : Core) : (copyArrays s c nc).2.1.data = nc.data := by
  unfold copyArrays
  simp only []
  (repeat' split) <;> rfl

/-! the hook loop over a constraint array -/

theorem mungeCopyCons_le (s0 s : AS) (done src : List Con) (h : s0.le s) :
    s0.le (mungeCopyCons s done src).2.2 := by
  induction src generalizing s done with
  | nil => simpa [mungeCopyCons] using h
  | cons c rest ih =>
    unfold mungeCopyCons
    have := le_mungeCopy s0 s c.fdata h
    (repeat' split) <;> pair_subst <;> simp_all

theorem mungeCopyCons_rel (s : AS) (done src : List Con) :
    (mungeCopyCons s done src).2.2.hk.rel = s.hk.rel := by
  induction src generalizing s done with
  | nil => simp [mungeCopyCons]
  | cons c rest ih =>
    unfold mungeCopyCons
    have := mungeCopy_rel s c.fdata
    (repeat' split) <;> pair_subst <;> simp_all

/-- the hook loop never changes anything but `fdata` -/
theorem mungeCopyCons_shape (s : AS) (done src : List Con) :
    (mungeCopyCons s done src).2.1.map (fun c => { c with fdata := 0 }) =
      (done ++ src).map (fun c => { c with fdata := 0 }) := by
  induction src generalizing s done with
  | nil => simp [mungeCopyCons]
  | cons c rest ih =>
    unfold mungeCopyCons
    (repeat' split) <;> simp_all

/-- a successful hook loop follows `mungeIds` -/
theorem mungeCopyCons_ok (s : AS) (done src : List Con) (hok : (mungeCopyCons s done src).1 = true) :
    (mungeCopyCons s done src).2.1.map (·.fdata) =
      done.map (·.fdata) ++ (mungeIds s.nextData (src.map (·.fdata))).1 ∧
    (mungeCopyCons s done src).2.2.hk.cps = s.hk.cps ++ (mungeIds s.nextData (src.map (·.fdata))).2 ∧
    (mungeCopyCons s done src).2.2.nextData = s.nextData + (mungeIds s.nextData (src.map (·.fdata))).2.length := by
  induction src generalizing s done with
  | nil => simp [mungeCopyCons, mungeIds]
  | cons c rest ih =>
    unfold mungeCopyCons at hok ⊢
    by_cases h0 : c.fdata ≠ 0
    · rw [if_pos h0] at hok ⊢
      have hs := mungeCopy_some s c.fdata
      generalize s.mungeCopy c.fdata = r at *
      obtain ⟨o, s1⟩ := r
      cases o with
      | none => simp at hok
      | some d =>
        obtain ⟨e1, e2, e3⟩ := hs d rfl
        simp only [] at hok ⊢
        obtain ⟨i1, i2, i3⟩ := ih s1 _ hok
        simp only [] at e2 e3
        subst e1
        rw [e3] at i1 i2 i3
        rw [e2] at i2
        have h0' : ¬ c.fdata = 0 := h0
        simp [i1, i2, i3, mungeIds, h0', Nat.add_assoc, Nat.add_comm 1]
    · rw [if_neg h0] at hok ⊢
      obtain ⟨i1, i2, i3⟩ := ih s _ hok
      have h0' : c.fdata = 0 := by simpa using h0
      simp [i1, i2, i3, mungeIds, h0']

/-! the tolerance loop -/

theorem copyTols_hk (s : AS) (done : List Con) (pairs : List (Con × Con)) :
    (copyTols s done pairs).2.2.hk = s.hk := by
  induction pairs generalizing s done with
  | nil => simp [copyTols]
  | cons p rest ih =>
    obtain ⟨nc, src⟩ := p
    unfold copyTols
    have := hk_allocArr s
    (repeat' split) <;> pair_subst <;> simp_all

theorem copyTols_le (s0 s : AS) (done : List Con) (pairs : List (Con × Con)) (h : s0.le s) :
    s0.le (copyTols s done pairs).2.2 := by
  induction pairs generalizing s done with
  | nil => simpa [copyTols] using h
  | cons p rest ih =>
    obtain ⟨nc, src⟩ := p
    unfold copyTols
    have := fun v => le_allocArr s0 s v h
    (repeat' split) <;> pair_subst <;> simp_all

/-- the tolerance loop never changes `fdata`, whether it succeeds or not -/
theorem copyTols_fdata (s : AS) (done : List Con) (pairs : List (Con × Con)) :
    (copyTols s done pairs).2.1.map (·.fdata) = done.map (·.fdata) ++ pairs.map (·.1.fdata) := by
  induction pairs generalizing s done with
  | nil => simp [copyTols]
  | cons p rest ih =>
    obtain ⟨nc, src⟩ := p
    unfold copyTols
    (repeat' split) <;> simp_all [Function.comp_def]

theorem allocArr_v (s : AS) (v : List F64) (a : Arr) (h : (allocArr s v).1 = some a) : a.v = v := by
  unfold allocArr at h
  split at h <;> simp_all
  rw [← h]

/-- a successful tolerance loop gives every entry the tolerance values of its source -/
theorem copyTols_ok (s : AS) (done : List Con) (pairs : List (Con × Con))
    (hnone : ∀ p ∈ pairs, p.1.tol = none) (hok : (copyTols s done pairs).1 = true) :
    (copyTols s done pairs).2.1.map Con.view =
      done.map Con.view ++ pairs.map (fun p => ({ p.1 with tol := p.2.tol } : Con).view) := by
  induction pairs generalizing s done with
  | nil => simp [copyTols]
  | cons p rest ih =>
    obtain ⟨nc, src⟩ := p
    have hn : nc.tol = none := hnone (nc, src) (by simp)
    have hrest : ∀ p ∈ rest, p.1.tol = none := fun p hp => hnone p (by simp [hp])
    unfold copyTols at hok ⊢
    cases ht : src.tol with
    | none =>
      simp only [ht] at hok ⊢
      rw [ih _ _ hrest hok]
      simp [Con.view, hn, ht]
    | some t =>
      simp only [ht] at hok ⊢
      have hv := allocArr_v s t.v
      generalize allocArr s t.v = r at *
      obtain ⟨o, s1⟩ := r
      cases o with
      | none => simp at hok
      | some a =>
        simp only [] at hok ⊢
        rw [ih _ _ hrest hok]
        simp [Con.view, hv a rfl, ht]

/-! the parameter-name loop -/

theorem copyNames_hk (s : AS) (done ps : List Param) : (copyNames s done ps).2.2.hk = s.hk := by
  induction ps generalizing s done with
  | nil => simp [copyNames]
  | cons p rest ih =>
    unfold copyNames
    have := hk_alloc s
    (repeat' split) <;> pair_subst <;> simp_all

theorem copyNames_le (s0 s : AS) (done ps : List Param) (h : s0.le s) : s0.le (copyNames s done ps).2.2 := by
  induction ps generalizing s done with
  | nil => simpa [copyNames] using h
  | cons p rest ih =>
    unfold copyNames
    have := fun n => le_alloc s0 s n h
    (repeat' split) <;> pair_subst <;> simp_all

theorem copyNames_ok (s : AS) (done ps : List Param) (hok : (copyNames s done ps).1 = true) :
    (copyNames s done ps).2.1.map (fun p => (p.name, p.val)) = (done ++ ps).map (fun p => (p.name, p.val)) := by
  induction ps generalizing s done with
  | nil => simp [copyNames]
  | cons p rest ih =>
    unfold copyNames at hok ⊢
    generalize s.alloc (p.name.utf8ByteSize + 1) = r at *
    obtain ⟨o, s1⟩ := r
    cases o with
    | none => simp at hok
    | some b =>
      simp only [] at hok ⊢
      rw [ih _ _ hok]
      simp

/-! ### one constraint array -/

/-- a constraint as the getters see it, without its user-data pointer -/
def ConView.noData (v : ConView) : ConView := { v with fdata := 0 }

theorem zip_blank (cs1 src : List Con)
    (h : cs1.map (fun c => ({ c with fdata := 0 } : Con)) =
         (src.map (fun c => ({ c with tol := none } : Con))).map (fun c => ({ c with fdata := 0 } : Con))) :
    (∀ p ∈ cs1.zip src, p.1.tol = none) ∧ cs1.length = src.length ∧
    (cs1.zip src).map (fun p => (({ p.1 with tol := p.2.tol } : Con).view).noData) = src.map (·.view.noData) := by
  induction src generalizing cs1 with
  | nil => cases cs1 <;> simp_all
  | cons a rest ih =>
    cases cs1 with
    | nil => simp at h
    | cons b cs =>
      simp only [List.map_cons, List.cons.injEq, Con.mk.injEq] at h
      obtain ⟨⟨h1, h2, h3, h4, _, h6⟩, hr⟩ := h
      obtain ⟨i1, i2, i3⟩ := ih cs hr
      refine ⟨?_, by simp [i2], ?_⟩
      · intro p hp
        simp only [List.zip_cons_cons, List.mem_cons] at hp
        rcases hp with rfl | hp
        · exact h6
        · exact i1 p hp
      · simp only [List.zip_cons_cons, List.map_cons, i3]
        simp [Con.view, ConView.noData, h1, h2, h3, h4]

theorem copyConArray_le (s0 s : AS) (munge : Bool) (src : List Con) (h : s0.le s) :
    s0.le (copyConArray s munge src).2.2.2 := by
  unfold copyConArray
  by_cases h0 : src.length = 0
  · simp [h0, h]
  · rw [if_neg h0]
    have := le_alloc s0 s (s.sz.con * src.length) h
    generalize s.alloc (s.sz.con * src.length) = r at *
    obtain ⟨o, s1⟩ := r
    cases o with
    | none => simpa using this
    | some b =>
      simp only [] at this ⊢
      cases munge with
      | false =>
        simp only [Bool.false_eq_true, if_false, Bool.not_true]
        exact copyTols_le _ _ _ _ this
      | true =>
        simp only [if_true]
        have h2 := mungeCopyCons_le s0 s1 [] (src.map fun c => { c with tol := none }) this
        split
        · exact h2
        · exact copyTols_le _ _ _ _ h2

theorem copyConArray_rel (s : AS) (munge : Bool) (src : List Con) :
    (copyConArray s munge src).2.2.2.hk.rel = s.hk.rel := by
  unfold copyConArray
  by_cases h0 : src.length = 0
  · simp [h0]
  · rw [if_neg h0]
    have := hk_alloc s (s.sz.con * src.length)
    generalize s.alloc (s.sz.con * src.length) = r at *
    obtain ⟨o, s1⟩ := r
    cases o with
    | none => simp only [] at this ⊢; rw [this]
    | some b =>
      simp only [] at this ⊢
      cases munge with
      | false =>
        simp only [Bool.false_eq_true, if_false, Bool.not_true]
        rw [copyTols_hk, this]
      | true =>
        simp only [if_true]
        have h2 := mungeCopyCons_rel s1 [] (src.map fun c => { c with tol := none })
        split
        · rw [h2, this]
        · rw [copyTols_hk, h2, this]

theorem zip_map_fst' {α β γ : Type} (f : α → γ) (l1 : List α) (l2 : List β) (h : l1.length = l2.length) :
    (l1.zip l2).map (fun p => f p.1) = l1.map f := by
  induction l1 generalizing l2 with
  | nil => simp
  | cons a l1 ih =>
    cases l2 with
    | nil => simp at h
    | cons b l2 => simp [ih l2 (by simpa using h)]

/-- the tolerance loop run on the output of the hook loop -/
theorem copyTols_zip (s1 : AS) (cs1 src : List Con)
    (h : cs1.map (fun c => ({ c with fdata := 0 } : Con)) =
         (src.map (fun c => ({ c with tol := none } : Con))).map (fun c => ({ c with fdata := 0 } : Con)))
    (hok : (copyTols s1 [] (cs1.zip src)).1 = true) :
    (copyTols s1 [] (cs1.zip src)).2.1.map (·.view.noData) = src.map (·.view.noData) ∧
    (copyTols s1 [] (cs1.zip src)).2.1.map (·.fdata) = cs1.map (·.fdata) := by
  have hz := zip_blank cs1 src h
  have hv := copyTols_ok s1 [] _ hz.1 hok
  have hf := copyTols_fdata s1 [] (cs1.zip src)
  constructor
  · have := congrArg (List.map ConView.noData) hv
    simp only [List.map_map, List.map_nil, List.nil_append] at this
    rw [← hz.2.2]
    simpa [Function.comp_def] using this
  · rw [hf]
    simpa using zip_map_fst' (fun c : Con => c.fdata) cs1 src hz.2.1

/-- a successful copy of a constraint array: same entries up to the data pointers, which follow `mungeIds`
    under an installed hook and are the source's otherwise -/
theorem copyConArray_ok (s : AS) (munge : Bool) (src : List Con) (hok : (copyConArray s munge src).1 = true) :
    (copyConArray s munge src).2.2.1.map (·.view.noData) = src.map (·.view.noData) ∧
    (copyConArray s munge src).2.2.1.map (·.fdata) =
      (if munge then (mungeIds s.nextData (src.map (·.fdata))).1 else src.map (·.fdata)) ∧
    (copyConArray s munge src).2.2.2.hk.cps =
      s.hk.cps ++ (if munge then (mungeIds s.nextData (src.map (·.fdata))).2 else []) ∧
    (copyConArray s munge src).2.2.2.nextData =
      s.nextData + (if munge then (mungeIds s.nextData (src.map (·.fdata))).2.length else 0) := by
  unfold copyConArray at hok ⊢
  by_cases h0 : src.length = 0
  · have : src = [] := List.eq_nil_of_length_eq_zero h0
    subst this
    cases munge <;> simp [mungeIds]
  · rw [if_neg h0] at hok ⊢
    have ha := hk_alloc s (s.sz.con * src.length)
    generalize s.alloc (s.sz.con * src.length) = r at *
    obtain ⟨o, s1⟩ := r
    cases o with
    | none => simp at hok
    | some b =>
      simp only [] at ha hok ⊢
      have hnd : s1.nextData = s.nextData := congrArg HookSt.nextData ha
      have hcp : s1.hk.cps = s.hk.cps := congrArg HookSt.cps ha
      cases munge with
      | false =>
        simp only [Bool.false_eq_true, if_false, Bool.not_true] at hok ⊢
        obtain ⟨z1, z2⟩ := copyTols_zip s1 (src.map fun c => { c with tol := none }) src rfl hok
        have hk := copyTols_hk s1 [] ((src.map fun c => ({ c with tol := none } : Con)).zip src)
        refine ⟨z1, ?_, ?_, ?_⟩
        · rw [z2]; simp [Function.comp_def]
        · rw [hk]; simp [hcp]
        · have := congrArg HookSt.nextData hk
          simp only [AS.hk] at this
          simp [this, hnd]
      | true =>
        simp only [if_true] at hok ⊢
        have hsh := mungeCopyCons_shape s1 [] (src.map fun c => ({ c with tol := none } : Con))
        have hmo := mungeCopyCons_ok s1 [] (src.map fun c => ({ c with tol := none } : Con))
        generalize mungeCopyCons s1 [] (src.map fun c => ({ c with tol := none } : Con)) = r at *
        obtain ⟨ok1, cs1, s2⟩ := r
        cases ok1 with
        | false => simp at hok
        | true =>
          simp only [Bool.not_true, Bool.false_eq_true, if_false] at hok ⊢
          simp only [List.nil_append] at hsh
          obtain ⟨m1, m2, m3⟩ := hmo rfl
          obtain ⟨z1, z2⟩ := copyTols_zip s2 cs1 src hsh hok
          have hk := copyTols_hk s2 [] (cs1.zip src)
          simp only [List.map_map, Function.comp_def, List.map_nil, List.nil_append] at m1 m2 m3
          refine ⟨z1, ?_, ?_, ?_⟩
          · rw [z2, m1, hnd]
          · rw [hk, m2, hcp, hnd]
          · have := congrArg HookSt.nextData hk
            simp only [AS.hk] at this
            rw [this, m3, hnd]

/-! ### parameters, and the stages together -/

theorem copyParams_hk (s : AS) (c nc : Core) : (copyParams s c nc).2.2.hk = s.hk := by
  unfold copyParams
  simp only []
  have := copyNames_hk
  (repeat' split) <;> pair_subst <;> simp_all

theorem copyParams_le (s0 s : AS) (c nc : Core) (h : s0.le s) : s0.le (copyParams s c nc).2.2 := by
  unfold copyParams
  simp only []
  (repeat' split) <;> pair_subst <;> simp (maxDischargeDepth := 8) [h, copyNames_le]

theorem copyParams_data (s : AS) (c nc : Core) : (copyParams s c nc).2.1.data = nc.data := by
  unfold copyParams
  simp only []
  (repeat' split) <;> rfl

theorem copyCore_le (s0 s : AS) (c : Core) (self : Nat) (h : s0.le s) : s0.le (copyCore s c self).2.2 := by
  unfold copyCore
  simp only []
  have h1 := copyObjData_le s0 s c (copyBlank c self) h
  have h2 := copyArrays_le s0 _ c (copyObjData s c (copyBlank c self)).2.1 h1
  have h3 := copyConArray_le s0 _ c.mungeC c.fc h2
  have h4 := copyConArray_le s0 _ c.mungeC c.h h3
  have h5 := fun nc => copyParams_le s0 _ c nc h4
  (repeat' split) <;> simp_all

theorem copyCore_rel (s : AS) (c : Core) (self : Nat) : (copyCore s c self).2.2.hk.rel = s.hk.rel := by
  unfold copyCore
  simp only []
  have h1 := copyObjData_rel s c (copyBlank c self)
  have h2 := copyArrays_hk (copyObjData s c (copyBlank c self)).2.2 c (copyObjData s c (copyBlank c self)).2.1
  have h3 := copyConArray_rel (copyArrays (copyObjData s c (copyBlank c self)).2.2 c
    (copyObjData s c (copyBlank c self)).2.1).2.2 c.mungeC c.fc
  have h4 := copyConArray_rel (copyConArray (copyArrays (copyObjData s c (copyBlank c self)).2.2 c
    (copyObjData s c (copyBlank c self)).2.1).2.2 c.mungeC c.fc).2.2.2 c.mungeC c.h
  split
  · exact h1
  · split
    · rw [h2, h1]
    · split
      · simp only []; rw [h3, h2, h1]
      · split
        · simp only []; rw [h4, h3, h2, h1]
        · rw [copyParams_hk, h4, h3, h2, h1]

/-- the half-built copy never has the destroy hook's data wrong way round: hooks are the source's -/
theorem copyCore_munge (s : AS) (c : Core) (self : Nat) :
    (copyCore s c self).2.1.mungeD = c.mungeD ∧ (copyCore s c self).2.1.mungeC = c.mungeC := by
  unfold copyCore
  simp only []
  have h1 : ∀ s nc, (copyObjData s c nc).2.1.mungeD = nc.mungeD ∧ (copyObjData s c nc).2.1.mungeC = nc.mungeC := by
    intro s nc; unfold copyObjData; (repeat' split) <;> simp
  have h2 := fun s nc => congrArg DataSt.mungeD (copyArrays_data s c nc)
  have h2' := fun s nc => congrArg DataSt.mungeC (copyArrays_data s c nc)
  have h5 := fun s nc => congrArg DataSt.mungeD (copyParams_data s c nc)
  have h5' := fun s nc => congrArg DataSt.mungeC (copyParams_data s c nc)
  simp only [Core.data] at h2 h2' h5 h5'
  (repeat' split) <;> simp_all [copyBlank]

theorem mungeIds_fst_length (k : Nat) (ds : List Nat) : (mungeIds k ds).1.length = ds.length := by
  induction ds generalizing k with
  | nil => rfl
  | cons d ds ih => by_cases hd : d = 0 <;> simp [mungeIds, hd, ih]

/-- stages 1–5 succeeded: the copy holds the source's ids pushed through `mungeIds` (hook installed) or the
    source's ids themselves (no hook), the hook calls are exactly those of `mungeIds`, nothing was released -/
theorem copyCore_ok (s : AS) (c : Core) (self : Nat) (hok : (copyCore s c self).1 = true) :
    (copyCore s c self).2.1.held = (if c.mungeC then (mungeIds s.nextData c.held).1 else c.held) ∧
    (copyCore s c self).2.1.fc.length = c.fc.length ∧
    (copyCore s c self).2.1.h.length = c.h.length ∧
    (copyCore s c self).2.2.hk.cps = s.hk.cps ++ (if c.mungeC then (mungeIds s.nextData c.held).2 else []) ∧
    (copyCore s c self).2.2.nextData =
      s.nextData + (if c.mungeC then (mungeIds s.nextData c.held).2.length else 0) := by
  unfold copyCore at hok ⊢
  simp only [] at hok ⊢
  have h1 := copyObjData_ok s c (copyBlank c self) rfl
  generalize copyObjData s c (copyBlank c self) = r1 at *
  obtain ⟨ok1, nc1, s1⟩ := r1
  cases ok1 with
  | false => simp at hok
  | true =>
    simp only [Bool.not_true, Bool.false_eq_true, if_false] at hok ⊢
    obtain ⟨a1, a2, a3⟩ := h1 rfl
    simp only [] at a1 a2 a3
    have h2 := copyArrays_hk s1 c nc1
    have h2d := copyArrays_data s1 c nc1
    generalize copyArrays s1 c nc1 = r2 at *
    obtain ⟨ok2, nc2, s2⟩ := r2
    cases ok2 with
    | false => simp at hok
    | true =>
      simp only [Bool.not_true, Bool.false_eq_true, if_false] at hok ⊢ h2 h2d
      have h3 := copyConArray_ok s2 c.mungeC c.fc
      generalize copyConArray s2 c.mungeC c.fc = r3 at *
      obtain ⟨ok3, b3, cs3, s3⟩ := r3
      cases ok3 with
      | false => simp at hok
      | true =>
        simp only [Bool.not_true, Bool.false_eq_true, if_false] at hok ⊢
        obtain ⟨_, b2, b3', b4⟩ := h3 rfl
        simp only [] at b2 b3' b4
        have h4 := copyConArray_ok s3 c.mungeC c.h
        generalize copyConArray s3 c.mungeC c.h = r4 at *
        obtain ⟨ok4, b4', cs4, s4⟩ := r4
        cases ok4 with
        | false => simp at hok
        | true =>
          simp only [Bool.not_true, Bool.false_eq_true, if_false] at hok ⊢
          obtain ⟨_, c2, c3, c4⟩ := h4 rfl
          simp only [] at c2 c3 c4
          have h5 := copyParams_hk s4 c
          have h5d := copyParams_data s4 c
          generalize hnc4 : ({ nc2 with fcBlk := b3, fc := cs3, mAlloc := (if b3.isSome = true then c.fc.length else 0), hBlk := b4', h := cs4, pAlloc := (if b4'.isSome = true then c.h.length else 0) } : Core) = nc4 at *
          have h5 := h5 nc4
          have h5d := h5d nc4
          have e2 : s2.nextData = s1.nextData := congrArg HookSt.nextData h2
          have e2c : s2.hk.cps = s1.hk.cps := congrArg HookSt.cps h2
          have e5 : (copyParams s4 c nc4).2.2.nextData = s4.nextData := congrArg HookSt.nextData h5
          have e5c : (copyParams s4 c nc4).2.2.hk.cps = s4.hk.cps := congrArg HookSt.cps h5
          have d1 : nc4.fdata = nc1.fdata := by
            rw [← hnc4]; exact (congrArg DataSt.fdata h2d)
          have d2 : nc4.fc = cs3 := by rw [← hnc4]
          have d3 : nc4.h = cs4 := by rw [← hnc4]
          have g1 := congrArg DataSt.fdata h5d
          have g2 := congrArg DataSt.fcd h5d
          have g3 := congrArg DataSt.hd h5d
          have l2 := congrArg List.length g2
          have l3 := congrArg List.length g3
          have lb := congrArg List.length b2
          have lc := congrArg List.length c2
          simp only [Core.data, List.length_map] at g1 g2 g3 l2 l3 lb lc
          have hheld : (copyParams s4 c nc4).2.1.held = nc1.fdata :: (cs3.map (·.fdata) ++ cs4.map (·.fdata)) := by
            simp only [Core.held, g1, g2, g3, d1, d2, d3]
          rw [e2] at b2 b3' b4
          rw [e2c] at b3'
          rw [b4] at c2 c3 c4
          rw [b3'] at c3
          have hfd : nc1.fdata = if c.mungeC = true then (mungeIds s.nextData [c.fdata]).1.headD 0 else c.fdata := by
            rw [a1]; rfl
          rw [hheld, e5, e5c, l2, l3, d2, d3, lb, lc, c3, c4, a2, b2, c2, hfd]
          have hh : c.held = [c.fdata] ++ c.fc.map (·.fdata) ++ c.h.map (·.fdata) := by simp [Core.held]
          cases hm : c.mungeC with
          | false => simp [hm] at a3; simp [hh, mungeIds_fst_length, a3]
          | true =>
            simp only [if_true, hm] at a3 ⊢
            rw [a3]
            simp only [hh, mungeIds_append, mungeIds_fst_length, List.length_map, List.length_append]
            by_cases hz : c.fdata = 0
            · simp [mungeIds, hz, Nat.add_assoc]
            · simp [mungeIds, hz, Nat.add_assoc, Nat.add_comm 1]

/-! ### the out-of-memory exit, the initial step, the chain -/

theorem copyOom_step (s : AS) (nc : Core) (nlocals : List Core) :
    Step s (copyOom s nc nlocals) (nlocals.flatMap Core.heldIfD) := by
  unfold copyOom
  have := destroyChain_step s ({ nc with mungeD := false } :: nlocals)
  simpa [Core.heldIfD] using this

/-- specification of the hook traffic of `nlopt_copy` along a chain: (ids held by each copy, hook calls) -/
def chainIds (k : Nat) : List Core → List (List Nat) × List (Nat × Nat)
  | [] => ([], [])
  | c :: rest =>
    ((if c.mungeC then (mungeIds k c.held).1 else c.held) ::
        (chainIds (k + (if c.mungeC then (mungeIds k c.held).2.length else 0)) rest).1,
     (if c.mungeC then (mungeIds k c.held).2 else []) ++
        (chainIds (k + (if c.mungeC then (mungeIds k c.held).2.length else 0)) rest).2)

theorem chainIds_nohook (k : Nat) (rest : List Core) (h : ∀ l ∈ rest, l.mungeC = false) :
    chainIds k rest = (rest.map Core.held, []) := by
  induction rest generalizing k with
  | nil => rfl
  | cons c rest ih =>
    have hc := h c (by simp)
    simp [chainIds, hc, ih k (fun l hl => h l (by simp [hl]))]

theorem copyChain_rest (s : AS) (rest : List Core) :
    (if rest.isEmpty then (s, some []) else copyChain s rest) = copyChain s rest := by
  cases rest <;> simp [copyChain]

theorem copyDx_le (s0 s : AS) (c nc : Core) (nl : List Core) (h : s0.le s) : s0.le (copyDx s c nc nl).1 := by
  unfold copyDx
  have h1 := fun v => le_allocArr s0 s v h
  have h2 := fun s => (copyOom_step s nc nl).le
  (repeat' split) <;> pair_subst <;> first | exact h | exact AS.le_trans (h1 _) (h2 _) | exact h1 _

theorem copyDx_some (s : AS) (c nc : Core) (nl : List Core) (ch' : List Core)
    (h : (copyDx s c nc nl).2 = some ch') :
    (copyDx s c nc nl).1.hk = s.hk ∧ ∃ nc', ch' = nc' :: nl ∧ nc'.data = nc.data ∧
      nc'.fc = nc.fc ∧ nc'.h = nc.h := by
  unfold copyDx at *
  have h1 := hk_allocArr s
  (repeat' split at h) <;> pair_subst <;> simp_all
  all_goals (subst h; exact ⟨_, rfl, rfl, rfl, rfl⟩)

theorem copyDx_none (s : AS) (c nc : Core) (nl : List Core) (h : (copyDx s c nc nl).2 = none) :
    (copyDx s c nc nl).1.hk.rel = s.hk.rel ++ nl.flatMap Core.heldIfD := by
  unfold copyDx at *
  have h1 := hk_allocArr s
  have h2 := fun s => (copyOom_step s nc nl).hk
  (repeat' split at h) <;> pair_subst <;> simp_all

/-- what a successful `nlopt_copy` of a chain did on the hook side -/
structure CopyOk (s s' : AS) (ch ch' : List Core) : Prop where
  rel : s'.hk.rel = s.hk.rel
  cps : s'.hk.cps = s.hk.cps ++ (chainIds s.nextData ch).2
  next : s'.nextData = s.nextData + (chainIds s.nextData ch).2.length
  held : ch'.map Core.held = (chainIds s.nextData ch).1
  mungeD : ch'.map (·.mungeD) = ch.map (·.mungeD)
  mungeC : ch'.map (·.mungeC) = ch.map (·.mungeC)
  fcLen : ch'.map (·.fc.length) = ch.map (·.fc.length)
  hLen : ch'.map (·.h.length) = ch.map (·.h.length)

theorem flatMap_heldIfD_of_false (l : List Core) (h : ∀ c ∈ l, c.mungeD = false) : l.flatMap Core.heldIfD = [] := by
  induction l with
  | nil => rfl
  | cons a l ih =>
    have := h a (by simp)
    rw [List.flatMap_cons, ih (fun c hc => h c (by simp [hc]))]
    simp [Core.heldIfD, this]

theorem copyChain_hooks (s : AS) (ch : List Core) :
    s.le (copyChain s ch).1 ∧
    (∀ ch', (copyChain s ch).2 = some ch' → CopyOk s (copyChain s ch).1 ch ch') ∧
    ((copyChain s ch).2 = none → (∀ l ∈ ch.tail, l.mungeD = false) → (copyChain s ch).1.hk.rel = s.hk.rel) := by
  induction ch generalizing s with
  | nil =>
    refine ⟨by simp [copyChain, AS.le_refl], ?_, by simp [copyChain]⟩
    intro ch' h
    simp only [copyChain, Option.some.injEq] at h
    subst h
    constructor <;> simp [copyChain, chainIds]
  | cons c rest ih =>
    rw [copyChain_staged]
    have ha := hk_alloc s s.sz.opt
    have hal := le_alloc s s s.sz.opt (AS.le_refl s)
    generalize s.alloc s.sz.opt = r at *
    obtain ⟨o, s1⟩ := r
    cases o with
    | none =>
      simp only [] at ha hal ⊢
      exact ⟨hal, by simp, fun _ _ => by rw [ha]⟩
    | some self =>
      simp only [] at ha hal ⊢
      have k1 := copyCore_le s s1 c self hal
      have k2 := copyCore_rel s1 c self
      have k3 := copyCore_munge s1 c self
      have k4 := copyCore_ok s1 c self
      generalize copyCore s1 c self = r at *
      obtain ⟨ok, nc, s2⟩ := r
      simp only [] at k1 k2 k3 k4 ⊢
      have e1n : s1.nextData = s.nextData := congrArg HookSt.nextData ha
      have e1c : s1.hk.cps = s.hk.cps := congrArg HookSt.cps ha
      have e1r : s1.hk.rel = s.hk.rel := congrArg HookSt.rel ha
      cases ok with
      | false =>
        simp only [Bool.not_false, if_true]
        have := copyOom_step s2 nc []
        refine ⟨AS.le_trans k1 this.le, by simp, fun _ _ => ?_⟩
        rw [this.hk]; simp [k2, e1r]
      | true =>
        simp only [Bool.not_true, Bool.false_eq_true, if_false]
        rw [copyChain_rest]
        obtain ⟨i1, i2, i3⟩ := ih s2
        obtain ⟨q1, q2, q3, q4, q5⟩ := k4 rfl
        rw [e1n] at q1 q4 q5
        rw [e1c] at q4
        generalize copyChain s2 rest = r at *
        obtain ⟨s3, nlo⟩ := r
        simp only [] at i1 i2 i3 ⊢
        cases nlo with
        | none =>
          simp only []
          have := copyOom_step s3 nc []
          refine ⟨AS.le_trans k1 (AS.le_trans i1 this.le), by simp, fun _ hl => ?_⟩
          rw [this.hk]
          have := i3 rfl (fun l hl' => hl l (List.mem_of_mem_tail hl'))
          simp [this, k2, e1r]
        | some nl =>
          simp only []
          have io := i2 nl rfl
          have d1 := copyDx_le s s3 c nc nl (AS.le_trans k1 i1)
          have d2 := copyDx_some s3 c nc nl
          have d3 := copyDx_none s3 c nc nl
          generalize copyDx s3 c nc nl = r at *
          obtain ⟨s4, res⟩ := r
          simp only [] at d1 d2 d3 ⊢
          refine ⟨d1, ?_, ?_⟩
          · intro ch' hch
            obtain ⟨dh, nc', rfl, dd, dfc, dhh⟩ := d2 ch' hch
            have dheld : nc'.held = nc.held := by rw [Core.held_eq, Core.held_eq, dd]
            have dmd : nc'.mungeD = nc.mungeD := congrArg DataSt.mungeD dd
            have dmc : nc'.mungeC = nc.mungeC := congrArg DataSt.mungeC dd
            constructor
            · rw [dh, io.rel, k2, e1r]
            · rw [dh, io.cps, q4, q5]; simp [chainIds]
            · have := congrArg HookSt.nextData dh
              simp only [AS.hk] at this
              rw [this, io.next, q5]
              by_cases hm : c.mungeC = true <;> simp [hm, chainIds, Nat.add_assoc]
            · simp [chainIds, dheld, q1, io.held, q5]
            · simp [dmd, k3.1, io.mungeD]
            · simp [dmc, k3.2, io.mungeC]
            · simp [dfc, q2, io.fcLen]
            · simp [dhh, q3, io.hLen]
          · intro hn hl
            rw [d3 hn, io.rel, k2, e1r]
            have : ∀ l ∈ nl, l.mungeD = false := by
              intro l hlm
              have hmem : l.mungeD ∈ nl.map (·.mungeD) := List.mem_map_of_mem hlm
              rw [io.mungeD] at hmem
              obtain ⟨l0, hl0, e⟩ := List.mem_map.mp hmem
              rw [← e]; exact hl l0 (by simpa using hl0)
            simp [flatMap_heldIfD_of_false nl this]

/-! ### nlopt_set_local_optimizer -/

/-- the successful path of `nlopt_set_local_optimizer(opt, local_opt)`, `local_opt ≠ NULL` -/
theorem setLocalOptimizer_ok (A : Arith) (s : AS) (o l : Obj) (hn : l.core.n = o.core.n) (nl : Core)
    (nrest : List Core) (hc : (copyChain (unsetErrmsg s o.core).1 l.chain).2 = some (nl :: nrest)) :
    (setLocalOptimizer A s o (some l)).2.2 = rSUCCESS ∧
    s.le (setLocalOptimizer A s o (some l)).1 ∧
    (setLocalOptimizer A s o (some l)).1.hk.rel =
      s.hk.rel ++ (o.locals.flatMap Core.heldIfD ++
        (if nl.mungeD then nl.fc.map (·.fdata) ++ (nl.h.map (·.fdata) ++ [nl.fdata]) else [])) ∧
    (setLocalOptimizer A s o (some l)).1.hk.cps = (copyChain (unsetErrmsg s o.core).1 l.chain).1.hk.cps ∧
    (setLocalOptimizer A s o (some l)).1.nextData = (copyChain (unsetErrmsg s o.core).1 l.chain).1.nextData ∧
    (setLocalOptimizer A s o (some l)).2.1.core.data = o.core.data ∧
    ∃ nl', (setLocalOptimizer A s o (some l)).2.1.locals = nl' :: nrest ∧ nl'.held = [0] ∧
      nl'.mungeD = false ∧ nl'.mungeC = false := by
  unfold setLocalOptimizer
  simp only []
  have hn' : ¬ (l.core.n ≠ (unsetErrmsg s o.core).2.n) := by simp [hn]
  rw [if_neg hn']
  obtain ⟨cle, cokAll, _⟩ := copyChain_hooks (unsetErrmsg s o.core).1 l.chain
  have cok1 := cokAll _ hc
  clear cokAll
  have hu : s.le (unsetErrmsg s o.core).1 := by simp [AS.le_refl]
  have hur : (unsetErrmsg s o.core).1.hk = s.hk := by simp
  generalize copyChain (unsetErrmsg s o.core).1 l.chain = r at *
  obtain ⟨s2, res⟩ := r
  simp only [] at hc cle cok1 ⊢
  subst hc
  simp only []
  -- the six calls on the fresh copy
  have t1 := destroyChain_step s2 o.locals
  generalize destroyChain s2 o.locals = s3 at *
  have t2 : Step s3 (setLowerBounds A s3 nl (some (arrV (unsetErrmsg s o.core).2.lb))).1 [] :=
    Step.of_hk (setLowerBounds_le A s3 s3 nl _ (AS.le_refl _)) (setLowerBounds_hk A s3 nl _)
  have d2 := setLowerBounds_data A s3 nl (some (arrV (unsetErrmsg s o.core).2.lb))
  generalize setLowerBounds A s3 nl (some (arrV (unsetErrmsg s o.core).2.lb)) = r at *
  obtain ⟨s4, nl4, _⟩ := r
  simp only [] at t2 d2 ⊢
  have t3 : Step s4 (setUpperBounds A s4 nl4 (some (arrV (unsetErrmsg s o.core).2.ub))).1 [] :=
    Step.of_hk (setUpperBounds_le A s4 s4 nl4 _ (AS.le_refl _)) (setUpperBounds_hk A s4 nl4 _)
  have d3 := setUpperBounds_data A s4 nl4 (some (arrV (unsetErrmsg s o.core).2.ub))
  generalize setUpperBounds A s4 nl4 (some (arrV (unsetErrmsg s o.core).2.ub)) = r at *
  obtain ⟨s5, nl5, _⟩ := r
  simp only [] at t3 d3 ⊢
  have t4 := removeIneq_step s5 nl5
  have d4 := removeIneq_data s5 nl5
  generalize removeIneq s5 nl5 = r at *
  obtain ⟨s6, nl6, _⟩ := r
  simp only [] at t4 d4 ⊢
  have t5 := removeEq_step s6 nl6
  have d5 := removeEq_data s6 nl6
  generalize removeEq s6 nl6 = r at *
  obtain ⟨s7, nl7, _⟩ := r
  simp only [] at t5 d5 ⊢
  have t6 := setObjective_step s7 nl7 0 0 0 false
  have d6 := setObjective_data s7 nl7 0 0 0 false
  generalize setObjective s7 nl7 0 0 0 false = r at *
  obtain ⟨s8, nl8, _⟩ := r
  simp only [] at t6 d6 ⊢
  have tt := ((((t1.trans t2).trans t3).trans t4).trans t5).trans t6
  -- data of the intermediate copies
  have e5 : nl5.data = nl.data := d3.trans d2
  have m5 : nl5.mungeD = nl.mungeD := congrArg DataSt.mungeD e5
  have m6 : nl6.mungeD = nl.mungeD := by rw [Core.mungeD_eq, d4]; exact m5
  have m7 : nl7.mungeD = nl.mungeD := by rw [Core.mungeD_eq, d5]; exact m6
  have f5 : nl5.fc.map (·.fdata) = nl.fc.map (·.fdata) := congrArg DataSt.fcd e5
  have g6 : nl6.h.map (·.fdata) = nl.h.map (·.fdata) := by
    have := congrArg DataSt.hd d4; simp only [Core.data] at this; rw [this]; exact congrArg DataSt.hd e5
  have k7 : nl7.fdata = nl.fdata := by
    have a := congrArg DataSt.fdata d5
    have b := congrArg DataSt.fdata d4
    simp only [Core.data] at a b
    rw [a, b]; exact congrArg DataSt.fdata e5
  refine ⟨trivial, AS.le_trans hu (AS.le_trans cle tt.le), ?_, ?_, ?_, by simp, ⟨_, rfl, ?_, rfl, rfl⟩⟩
  · have := congrArg HookSt.rel tt.hk
    simp only [] at this
    rw [this, cok1.rel, hur, m5, m6, m7, f5, g6, k7]
    cases nl.mungeD <;> simp
  · have := congrArg HookSt.cps tt.hk
    simpa using this
  · have := congrArg HookSt.nextData tt.hk
    simpa [AS.hk] using this
  · have a := congrArg DataSt.fdata d6
    have b := congrArg DataSt.fcd d6
    have c := congrArg DataSt.hd d6
    have b5 := congrArg DataSt.fcd d5
    have c5 := congrArg DataSt.hd d5
    have b4 := congrArg DataSt.fcd d4
    simp only [Core.data] at a b c b5 c5 b4
    simp [Core.held, a, b, c, b5, c5, b4]

/-! ### stage lemmas, view side -/

theorem allocArr_v' {s s' : AS} {w : List F64} {a : Arr} (h : allocArr s w = (some a, s')) : a.v = w :=
  allocArr_v s w a (by rw [h])

theorem arrV_eq (a : Option Arr) : arrV a = (a.map (·.v)).getD [] := by cases a <;> rfl

/-- an object is well formed if its bound arrays exist exactly when its dimension is positive (this is what
    `nlopt_create` establishes and every setter preserves; `nlopt_copy` relies on it) -/
def Core.wf (c : Core) : Prop :=
  (c.n > 0 → c.lb.isSome = true ∧ c.ub.isSome = true) ∧
  (c.n = 0 → c.lb = none ∧ c.ub = none ∧ c.xtolAbs = none ∧ c.xWeights = none)

theorem copyObjData_view (s : AS) (c nc : Core) :
    ∃ d, (copyObjData s c nc).2.1.view = { nc.view with fdata := d } := by
  unfold copyObjData
  (repeat' split) <;> exact ⟨_, rfl⟩

@[simp] theorem tick_next (s : AS) : s.tick.2.next = s.next := by unfold AS.tick; (repeat' split) <;> rfl

theorem alloc_fst_eq_some (s : AS) (n b : Nat) : (s.alloc n).1 = some b ↔ (s.tick.1 = false ∧ b = s.next) := by
  unfold AS.alloc
  simp only []
  cases h : s.tick.1
  · simp only [Bool.false_eq_true, if_false, Option.some.injEq, tick_next, true_and]
    exact eq_comm
  · simp

theorem allocArr_fst_eq_some (s : AS) (w : List F64) (a : Arr) :
    (allocArr s w).1 = some a ↔ (s.tick.1 = false ∧ a = ⟨s.next, w⟩) := by
  unfold allocArr
  have := alloc_fst_eq_some s (8 * w.length)
  generalize s.alloc (8 * w.length) = r at *
  obtain ⟨o, s1⟩ := r
  cases o with
  | none =>
    simp only [] at this ⊢
    have h := this 0
    simp only [reduceCtorEq, false_iff, not_and] at h ⊢
    intro h1
    cases ht : s.tick.1
    · have := (this s.next).mpr ⟨ht, rfl⟩
      simp at this
    · simp [ht] at h1
  | some b =>
    simp only [Option.some.injEq] at this ⊢
    have h := (this b).mp rfl
    constructor
    · intro e; subst e; exact ⟨h.1, by rw [h.2]⟩
    · intro e; rw [e.2, h.2]

theorem copyArrays_view (s : AS) (c nc : Core) (hwf : c.wf)
    (hb : nc.lb = none ∧ nc.ub = none ∧ nc.xtolAbs = none ∧ nc.xWeights = none)
    (hok : (copyArrays s c nc).1 = true) :
    (copyArrays s c nc).2.1.view =
      { nc.view with lb := c.view.lb, ub := c.view.ub, xtolAbs := c.view.xtolAbs, xWeights := c.view.xWeights } := by
  obtain ⟨w1, w2⟩ := hwf
  obtain ⟨b1, b2, b3, b4⟩ := hb
  generalize hres : copyArrays s c nc = res at hok ⊢
  unfold copyArrays at hres
  simp only [] at hres
  by_cases hn : c.n > 0
  · obtain ⟨l1, l2⟩ := w1 hn
    rw [if_pos hn] at hres
    repeat' split at hres
    all_goals subst hres
    all_goals first
      | (simp at hok; done)
      | (simp_all; done)
      | (simp only [Prod.ext_iff, allocArr_fst_eq_some] at *
         cases hl : c.lb <;> cases hu : c.ub <;> simp_all [Core.view, arrV]; done)
  · have h0 : c.n = 0 := by omega
    obtain ⟨z1, z2, z3, z4⟩ := w2 h0
    rw [if_neg hn] at hres
    subst hres
    simp [Core.view, z1, z2, z3, z4, b1, b2, b3, b4]

end Nlopt
