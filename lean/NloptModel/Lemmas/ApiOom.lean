import Lean.Elab.Tactic
import NloptModel.Lemmas.ApiOwnership
/-! Out-of-memory reporting: whenever an allocation request fails during a call (an `allocFail` /
    `reallocFail` event is logged), the call reports failure. -/
set_option linter.unusedSimpArgs false
set_option linter.unusedVariables false
namespace Nlopt

/-- number of failed allocation requests logged so far -/
def AS.nfail (s : AS) : Nat := s.evs.countP Ev.isFail

/-- state went from `s` to `s'` with result code `r`: a failed allocation forces a negative code -/
def Oom (s s' : AS) (r : Int) : Prop := s.nfail ≤ s'.nfail ∧ (s.nfail < s'.nfail → r < 0)

theorem nfail_emit (s : AS) (e : Ev) : (s.emit e).nfail = s.nfail + if e.isFail then 1 else 0 := by
  simp [AS.nfail, AS.emit, List.countP_append, List.countP_cons]

theorem nfail_alloc_some {s s' : AS} {sz id : Nat} (h : s.alloc sz = (some id, s')) : s'.nfail = s.nfail := by
  have := (alloc_some h).2.2.2.1
  simp [AS.nfail, this, List.countP_append, List.countP_cons, Ev.isFail]

theorem nfail_alloc_none {s s' : AS} {sz : Nat} (h : s.alloc sz = (none, s')) : s'.nfail = s.nfail + 1 := by
  have := (alloc_none h).2.2.1
  simp [AS.nfail, this, List.countP_append, List.countP_cons, Ev.isFail]

theorem nfail_realloc_some {s s' : AS} {ob : Option Nat} {sz id : Nat} (h : s.realloc ob sz = (some id, s')) :
    s'.nfail = s.nfail := by
  cases ob with
  | none => exact nfail_alloc_some h
  | some o =>
    have := (realloc_some h).2.2.2.1
    simp [AS.nfail, this, List.countP_append, List.countP_cons, Ev.isFail]

theorem nfail_realloc_none {s s' : AS} {ob : Option Nat} {sz : Nat} (h : s.realloc ob sz = (none, s')) :
    s'.nfail = s.nfail + 1 := by
  cases ob with
  | none => exact nfail_alloc_none h
  | some o =>
    have := (realloc_none h).2.2.1
    simp [AS.nfail, this, List.countP_append, List.countP_cons, Ev.isFail]

theorem nfail_allocArr_some {s s' : AS} {v : List F64} {a : Arr} (h : allocArr s v = (some a, s')) :
    s'.nfail = s.nfail := by
  unfold allocArr at h
  split at h
  · next b s1 heq =>
    simp only [Prod.mk.injEq, Option.some.injEq] at h
    obtain ⟨_, rfl⟩ := h
    exact nfail_alloc_some heq
  · simp at h

theorem nfail_allocArr_none {s s' : AS} {v : List F64} (h : allocArr s v = (none, s')) :
    s'.nfail = s.nfail + 1 := by
  unfold allocArr at h
  split at h
  · simp at h
  · next s1 heq =>
    simp only [Prod.mk.injEq, true_and] at h
    subst h
    exact nfail_alloc_none heq

@[simp] theorem nfail_free (s : AS) (b : Nat) : (s.free b).nfail = s.nfail := by
  unfold AS.free
  split
  · exact (nfail_emit s _).trans (by simp [Ev.isFail])
  · exact (nfail_emit s _).trans (by simp [Ev.isFail])

@[simp] theorem nfail_freeOpt (s : AS) (b : Option Nat) : (s.freeOpt b).nfail = s.nfail := by
  cases b <;> simp [AS.freeOpt]

@[simp] theorem nfail_freeArr (s : AS) (b : Option Arr) : (s.freeArr b).nfail = s.nfail := by
  cases b <;> simp [AS.freeArr]

@[simp] theorem nfail_mungeDestroy (s : AS) (d : Nat) : (s.mungeDestroy d).nfail = s.nfail :=
  (nfail_emit s _).trans (by simp [Ev.isFail])

@[simp] theorem nfail_mungeCopy (s : AS) (d : Nat) : (s.mungeCopy d).2.nfail = s.nfail := by
  unfold AS.mungeCopy
  split
  · exact (nfail_emit s _).trans (by simp [Ev.isFail])
  · simp only []
    split
    · exact (nfail_emit s _).trans (by simp [Ev.isFail])
    · exact (nfail_emit { s with mcFailIn := s.mcFailIn - 1 } _).trans (by simp [Ev.isFail, AS.nfail])

theorem nfail_mungeCopy_eq {s s' : AS} {d : Nat} {r : Option Nat} (h : s.mungeCopy d = (r, s')) :
    s'.nfail = s.nfail := by
  have := nfail_mungeCopy s d
  rw [h] at this; exact this

@[simp] theorem nfail_mungeCons (cs : List Con) (s : AS) : (mungeCons s cs).nfail = s.nfail := by
  unfold mungeCons
  induction cs generalizing s with
  | nil => rfl
  | cons c cs ih => simp only [List.foldl_cons]; rw [ih]; simp

@[simp] theorem nfail_freeTols (cs : List Con) (s : AS) : (freeTols s cs).nfail = s.nfail := by
  unfold freeTols
  induction cs generalizing s with
  | nil => rfl
  | cons c cs ih => simp only [List.foldl_cons]; rw [ih]; simp

@[simp] theorem nfail_freeNames (ps : List Param) (s : AS) : (freeNames s ps).nfail = s.nfail := by
  unfold freeNames
  induction ps generalizing s with
  | nil => rfl
  | cons c cs ih => simp only [List.foldl_cons]; rw [ih]; simp

@[simp] theorem nfail_destroyPre (s : AS) (c : Core) : (destroyPre s c).nfail = s.nfail := by
  unfold destroyPre
  simp only [nfail_freeOpt, nfail_freeArr, nfail_freeNames, nfail_freeTols]
  split <;> simp

@[simp] theorem nfail_destroyPost (s : AS) (c : Core) : (destroyPost s c).nfail = s.nfail := by
  unfold destroyPost
  simp

@[simp] theorem nfail_destroyChain (l : List Core) (s : AS) : (destroyChain s l).nfail = s.nfail := by
  induction l generalizing s with
  | nil => rfl
  | cons c l ih => rw [destroyChain]; simp [ih]

@[simp] theorem nfail_copyOom (s : AS) (c : Core) (l : List Core) : (copyOom s c l).nfail = s.nfail := by
  simp [copyOom]

@[simp] theorem nfail_removeCons (s : AS) (md : Bool) (cs : List Con) (b : Option Nat) :
    (removeCons s md cs b).nfail = s.nfail := by
  unfold removeCons
  simp only [nfail_freeOpt, nfail_freeTols]
  split <;> simp

theorem nfail_unsetErrmsg {s s' : AS} {c c' : Core} (h : unsetErrmsg s c = (s', c')) : s'.nfail = s.nfail := by
  unfold unsetErrmsg at h
  split at h <;> (simp only [Prod.mk.injEq] at h; obtain ⟨rfl, _⟩ := h; simp)

@[simp] theorem nfail_unsetErrmsg_fst (s : AS) (c : Core) : (unsetErrmsg s c).1.nfail = s.nfail :=
  nfail_unsetErrmsg (c' := (unsetErrmsg s c).2) rfl

theorem nfail_setErrmsg {s s' : AS} {c c' : Core} (h : setErrmsg s c = (s', c')) : s.nfail ≤ s'.nfail := by
  unfold setErrmsg at h
  split at h
  · next heq =>
    simp only [Prod.mk.injEq] at h; obtain ⟨rfl, _⟩ := h
    rw [nfail_realloc_some heq]; exact Nat.le_refl _
  · next heq =>
    simp only [Prod.mk.injEq] at h; obtain ⟨rfl, _⟩ := h
    rw [nfail_freeOpt, nfail_realloc_none heq]; omega

/-! ### a small tactic: derive the `nfail` fact of every allocator / sub-call equation in the context -/

theorem oom_of_eq {s s' : AS} {r : Int} (h1 : s'.nfail = s.nfail) : Oom s s' r := ⟨by omega, by omega⟩

open Lean Elab Tactic Meta in
/-- for every hypothesis `h` and every listed lemma `L`, add `L h` to the context when it type-checks -/
elab "collect_facts" "[" ls:ident,* "]" : tactic => do
  let names ← ls.getElems.mapM fun i => realizeGlobalConstNoOverloadWithInfo i
  liftMetaTactic fun g => g.withContext do
    let mut g := g
    for d in (← getLCtx) do
      if d.isImplementationDetail then continue
      for nm in names do
        let r ← observing? do
          let pf ← mkAppM nm #[d.toExpr]
          let t ← inferType pf
          pure (pf, t)
        match r with
        | some (pf, t) =>
          let g1 ← g.assert `hfact t pf
          let (_, g2) ← g1.intro1
          g := g2
        | none => pure ()
    return [g]

macro "nf_facts" : tactic =>
  `(tactic| collect_facts [nfail_alloc_some, nfail_alloc_none, nfail_realloc_some, nfail_realloc_none,
      nfail_allocArr_some, nfail_allocArr_none, nfail_unsetErrmsg, nfail_setErrmsg, nfail_mungeCopy_eq])

set_option hygiene false in
/-- close a leaf `h : (s₁, c₁, r₁) = (s', c', r) ⊢ Oom s s' r` -/
macro "oom_leaf" : tactic =>
  `(tactic| (simp only [Prod.mk.injEq] at h
             obtain ⟨rfl, rfl, rfl⟩ := h
             nf_facts
             simp only [Oom, rOOM, rSUCCESS, rINVALID, nfail_free, nfail_freeOpt, nfail_freeArr, nfail_mungeDestroy,
               nfail_removeCons, nfail_destroyChain] at *
             omega))

theorem setLowerBounds_oom {A : Arith} {s s' : AS} {c c' : Core} {arg : Option (List F64)} {r : Int}
    (h : setLowerBounds A s c arg = (s', c', r)) : Oom s s' r := by
  unfold setLowerBounds at h
  repeat' split at h
  all_goals oom_leaf

theorem setUpperBounds_oom {A : Arith} {s s' : AS} {c c' : Core} {arg : Option (List F64)} {r : Int}
    (h : setUpperBounds A s c arg = (s', c', r)) : Oom s s' r := by
  unfold setUpperBounds at h
  repeat' split at h
  all_goals oom_leaf

theorem setLowerBounds1_oom {A : Arith} {s s' : AS} {c c' : Core} {v : F64} {r : Int}
    (h : setLowerBounds1 A s c v = (s', c', r)) : Oom s s' r := by
  unfold setLowerBounds1 at h
  repeat' split at h
  all_goals oom_leaf

theorem setUpperBounds1_oom {A : Arith} {s s' : AS} {c c' : Core} {v : F64} {r : Int}
    (h : setUpperBounds1 A s c v = (s', c', r)) : Oom s s' r := by
  unfold setUpperBounds1 at h
  repeat' split at h
  all_goals oom_leaf

theorem setLowerBound_oom {A : Arith} {s s' : AS} {c c' : Core} {i : Int} {v : F64} {r : Int}
    (h : setLowerBound A s c i v = (s', c', r)) : Oom s s' r := by
  unfold setLowerBound at h
  repeat' split at h
  all_goals oom_leaf

theorem setUpperBound_oom {A : Arith} {s s' : AS} {c c' : Core} {i : Int} {v : F64} {r : Int}
    (h : setUpperBound A s c i v = (s', c', r)) : Oom s s' r := by
  unfold setUpperBound at h
  repeat' split at h
  all_goals oom_leaf

theorem setObjective_oom {s s' : AS} {c c' : Core} {f pre fd : Nat} {mx : Bool} {r : Int}
    (h : setObjective s c f pre fd mx = (s', c', r)) : Oom s s' r := by
  unfold setObjective at h
  repeat' split at h
  all_goals oom_leaf

theorem setScalar_oom {s s' : AS} {c c' : Core} {u : Core → Core} {r : Int}
    (h : setScalar s c u = (s', c', r)) : Oom s s' r := by
  unfold setScalar at h
  repeat' split at h
  all_goals oom_leaf

theorem removeIneq_oom {s s' : AS} {c c' : Core} {r : Int}
    (h : removeIneq s c = (s', c', r)) : Oom s s' r := by
  unfold removeIneq at h
  repeat' split at h
  all_goals oom_leaf

theorem removeEq_oom {s s' : AS} {c c' : Core} {r : Int}
    (h : removeEq s c = (s', c', r)) : Oom s s' r := by
  unfold removeEq at h
  repeat' split at h
  all_goals oom_leaf

theorem setXtolAbs_oom {s s' : AS} {c c' : Core} {arg : Option (List F64)} {r : Int}
    (h : setXtolAbs s c arg = (s', c', r)) : Oom s s' r := by
  unfold setXtolAbs at h
  repeat' split at h
  all_goals oom_leaf

theorem setXtolAbs1_oom {s s' : AS} {c c' : Core} {v : F64} {r : Int}
    (h : setXtolAbs1 s c v = (s', c', r)) : Oom s s' r := by
  unfold setXtolAbs1 at h
  repeat' split at h
  all_goals oom_leaf

theorem setXWeights_oom {s s' : AS} {c c' : Core} {arg : Option (List F64)} {r : Int}
    (h : setXWeights s c arg = (s', c', r)) : Oom s s' r := by
  unfold setXWeights at h
  repeat' split at h
  all_goals oom_leaf

theorem setXWeights1_oom {s s' : AS} {c c' : Core} {v : F64} {r : Int}
    (h : setXWeights1 s c v = (s', c', r)) : Oom s s' r := by
  unfold setXWeights1 at h
  repeat' split at h
  all_goals oom_leaf

theorem setParam_oom {s s' : AS} {c c' : Core} {nm : Option String} {v : F64} {r : Int}
    (h : setParam s c nm v = (s', c', r)) : Oom s s' r := by
  unfold setParam at h
  repeat' split at h
  all_goals oom_leaf

theorem setInitialStep1_oom {s s' : AS} {c c' : Core} {v : F64} {r : Int}
    (h : setInitialStep1 s c v = (s', c', r)) : Oom s s' r := by
  unfold setInitialStep1 at h
  repeat' split at h
  all_goals oom_leaf

theorem feq_one_zero : F64.feq F64.one F64.zero = false := by decide

/-- `nlopt_set_initial_step1(opt, 1)` can only fail with NLOPT_OUT_OF_MEMORY -/
theorem setInitialStep1_one {s s' : AS} {c c' : Core} {r : Int}
    (h : setInitialStep1 s c F64.one = (s', c', r)) :
    s.nfail ≤ s'.nfail ∧ (s.nfail < s'.nfail → r = rOOM) := by
  unfold setInitialStep1 at h
  simp only [feq_one_zero] at h
  repeat' split at h
  all_goals first
    | (rename_i hc; simp at hc; done)
    | (simp only [Prod.mk.injEq] at h
       obtain ⟨rfl, rfl, rfl⟩ := h
       nf_facts
       simp only [rOOM, rSUCCESS, rINVALID, nfail_unsetErrmsg_fst] at *
       first | omega | (refine ⟨by omega, fun hlt => ?_⟩; first | trivial | omega))

theorem setInitialStep_oom {s s' : AS} {c c' : Core} {arg : Option (List F64)} {r : Int}
    (h : setInitialStep s c arg = (s', c', r)) : Oom s s' r := by
  unfold setInitialStep at h
  repeat' split at h
  all_goals first
    | oom_leaf
    | (simp only [Prod.mk.injEq] at h
       obtain ⟨rfl, rfl, rfl⟩ := h
       nf_facts
       collect_facts [setInitialStep1_one]
       simp only [Oom, rOOM, rSUCCESS, rINVALID] at *
       omega)

theorem setDefaultInitialStep_oom {A : Arith} {s s' : AS} {c c' : Core} {arg : Option (List F64)} {r : Int}
    (h : setDefaultInitialStep A s c arg = (s', c', r)) : Oom s s' r := by
  unfold setDefaultInitialStep at h
  split at h
  split at h
  · oom_leaf
  · split at h
    next heq1 =>
    split at heq1
    · split at h
      all_goals
        (simp only [Prod.mk.injEq] at h
         obtain ⟨rfl, rfl, rfl⟩ := h
         nf_facts
         collect_facts [setInitialStep1_one]
         simp only [Oom, rOOM, rSUCCESS, rINVALID] at *
         omega)
    · simp only [Prod.mk.injEq] at heq1
      obtain ⟨rfl, rfl, rfl⟩ := heq1
      split at h <;> oom_leaf

set_option hygiene false in
macro "oom_leaf4" : tactic =>
  `(tactic| (simp only [Prod.mk.injEq] at h
             obtain ⟨rfl, rfl, rfl, rfl⟩ := h
             nf_facts
             simp only [Oom, rOOM, rSUCCESS, rINVALID, nfail_free, nfail_freeOpt, nfail_freeArr, nfail_mungeDestroy,
               nfail_removeCons, nfail_destroyChain] at *
             first | omega | (refine ⟨by omega, fun hlt => ?_⟩; first | trivial | omega)))

theorem getLowerBounds_oom {s s' : AS} {c c' : Core} {o : Bool} {r : Int} {out : List F64}
    (h : getLowerBounds s c o = (s', c', r, out)) : Oom s s' r := by
  unfold getLowerBounds at h
  repeat' split at h
  all_goals oom_leaf4

theorem getUpperBounds_oom {s s' : AS} {c c' : Core} {o : Bool} {r : Int} {out : List F64}
    (h : getUpperBounds s c o = (s', c', r, out)) : Oom s s' r := by
  unfold getUpperBounds at h
  repeat' split at h
  all_goals oom_leaf4

theorem getXtolAbs_oom {s s' : AS} {c c' : Core} {o : Bool} {r : Int} {out : List F64}
    (h : getXtolAbs s c o = (s', c', r, out)) : Oom s s' r := by
  unfold getXtolAbs at h
  split at h
  split at h
  all_goals oom_leaf4

theorem getXWeights_oom {s s' : AS} {c c' : Core} {o : Bool} {r : Int} {out : List F64}
    (h : getXWeights s c o = (s', c', r, out)) : Oom s s' r := by
  unfold getXWeights at h
  split at h
  all_goals (split at h; oom_leaf4)

theorem getInitialStep_oom {A : Arith} {s s' : AS} {c c' : Core} {arg : Option (List F64)} {r : Int}
    {out : List F64} (h : getInitialStep A s c arg = (s', c', r, out)) : Oom s s' r := by
  unfold getInitialStep at h
  split at h
  split at h
  · oom_leaf4
  · split at h
    · split at h
      next heq1 =>
      have h1 := setDefaultInitialStep_oom heq1
      split at h <;> oom_leaf4
    · oom_leaf4

theorem nfail_setErrmsg_fst (s : AS) (c : Core) : s.nfail ≤ (setErrmsg s c).1.nfail :=
  nfail_setErrmsg (c' := (setErrmsg s c).2) rfl

theorem addConstraint_oom {s s' : AS} {c c' : Core} {cs cs' : List Con} {al al' : Nat} {blk blk' : Option Nat}
    {fm : Nat} {isVec : Bool} {fid pre fd : Nat} {tol : Option (List F64)} {r : Int}
    (h : addConstraint s c cs al blk fm isVec fid pre fd tol = (s', c', cs', al', blk', r)) : Oom s s' r := by
  unfold addConstraint at h
  have fin : ∀ {s1 : AS} {c1 : Core} {cs1 : List Con} {al1 : Nat} {blk1 : Option Nat} {r1 : Int},
      (s1, c1, cs1, al1, blk1, r1) = (s', c', cs', al', blk', r) → Oom s s1 r1 → Oom s s' r := by
    intro s1 c1 cs1 al1 blk1 r1 he ho
    simp only [Prod.mk.injEq] at he
    obtain ⟨rfl, rfl, rfl, rfl, rfl, rfl⟩ := he
    exact ho
  split at h
  · exact fin h (oom_of_eq rfl)
  · split at h
    · split at h
      next heq =>
      have := nfail_setErrmsg heq
      exact fin h ⟨this, fun _ => by simp [rINVALID]⟩
    · split at h
      · next heq =>
        have := nfail_alloc_none heq
        exact fin h ⟨by omega, fun _ => by simp [rOOM]⟩
      · next tb s1 heq =>
        have h1 := nfail_alloc_some heq
        simp only [] at h
        split at h
        · split at h
          · next heq2 =>
            have := nfail_realloc_none heq2
            exact fin h ⟨by rw [nfail_free]; omega, fun _ => by simp [rOOM]⟩
          · next heq2 =>
            have := nfail_realloc_some heq2
            exact fin h (oom_of_eq (by omega))
        · exact fin h (oom_of_eq h1)

theorem addConCore_oom (caps : List Nat) (eq : Bool) (s : AS) (c : Core) (fm : Nat) (isVec : Bool)
    (fid pre fd : Nat) (tol : Option (List F64)) :
    Oom s (addConCore caps eq s c fm isVec fid pre fd tol).1 (addConCore caps eq s c fm isVec fid pre fd tol).2.2 := by
  unfold addConCore
  split
  · have := nfail_setErrmsg_fst s c
    simp only [Oom, rINVALID]
    omega
  · split
    · exact addConstraint_oom rfl
    · exact addConstraint_oom rfl

theorem addCon_oom (caps : List Nat) (eq : Bool) (s : AS) (c : Core) (fm : Nat) (isVec : Bool)
    (fid pre fd : Nat) (tol : Option (List F64)) :
    Oom s (addCon caps eq s c fm isVec fid pre fd tol).1 (addCon caps eq s c fm isVec fid pre fd tol).2.2 := by
  unfold addCon
  simp only []
  split
  · split <;> simp [Oom, rSUCCESS]
  · have h1 := addConCore_oom caps eq (unsetErrmsg s c).1 (unsetErrmsg s c).2 fm isVec fid pre fd tol
    simp only [Oom, nfail_unsetErrmsg_fst] at h1
    split <;> (simp only [Oom, nfail_mungeDestroy]; exact h1)

/-! ### create / copy -/

def Oomb (s s' : AS) (ok : Bool) : Prop := s.nfail ≤ s'.nfail ∧ (s.nfail < s'.nfail → ok = false)

theorem Oomb.trans_ok {s s1 s2 : AS} {ok : Bool} (h1 : s1.nfail = s.nfail) (h2 : Oomb s1 s2 ok) : Oomb s s2 ok := by
  obtain ⟨a, b⟩ := h2
  exact ⟨by omega, fun h => b (by omega)⟩

theorem mungeCopyCons_nfail (rest : List Con) (done : List Con) (s : AS) :
    (mungeCopyCons s done rest).2.2.nfail = s.nfail := by
  induction rest generalizing done s with
  | nil => rfl
  | cons c rest ih =>
    rw [mungeCopyCons]
    split
    · split
      · next heq => rw [ih, nfail_mungeCopy_eq heq]
      · next heq => exact nfail_mungeCopy_eq heq
    · exact ih _ _

theorem copyTols_oom (rest : List (Con × Con)) (done : List Con) (s : AS) :
    Oomb s (copyTols s done rest).2.2 (copyTols s done rest).1 := by
  induction rest generalizing done s with
  | nil => exact ⟨Nat.le_refl _, fun h => absurd h (Nat.lt_irrefl _)⟩
  | cons p rest ih =>
    obtain ⟨nc, src⟩ := p
    rw [copyTols]
    split
    · split
      · next heq => exact Oomb.trans_ok (nfail_allocArr_some heq) (ih _ _)
      · next heq => have := nfail_allocArr_none heq; exact ⟨by simp only []; omega, fun _ => rfl⟩
    · exact ih _ _

theorem copyNames_oom (rest : List Param) (done : List Param) (s : AS) :
    Oomb s (copyNames s done rest).2.2 (copyNames s done rest).1 := by
  induction rest generalizing done s with
  | nil => exact ⟨Nat.le_refl _, fun h => absurd h (Nat.lt_irrefl _)⟩
  | cons p rest ih =>
    rw [copyNames]
    split
    · next heq => exact Oomb.trans_ok (nfail_alloc_some heq) (ih _ _)
    · next heq => have := nfail_alloc_none heq; exact ⟨by simp only []; omega, fun _ => rfl⟩

theorem copyConArray_oom (s : AS) (mg : Bool) (src : List Con) :
    Oomb s (copyConArray s mg src).2.2.2 (copyConArray s mg src).1 := by
  unfold copyConArray
  split
  · exact ⟨Nat.le_refl _, fun h => absurd h (Nat.lt_irrefl _)⟩
  · split
    · next heq => have := nfail_alloc_none heq; exact ⟨by simp only []; omega, fun _ => rfl⟩
    · next b s1 heq =>
      have h1 := nfail_alloc_some heq
      have h2 : (if mg then mungeCopyCons s1 [] (src.map fun c => { c with tol := none })
            else (true, (src.map fun c => { c with tol := none }), s1)).2.2.nfail = s.nfail := by
        split
        · rw [mungeCopyCons_nfail]; exact h1
        · exact h1
      simp only []
      generalize (if mg then mungeCopyCons s1 [] (src.map fun c => { c with tol := none })
            else (true, (src.map fun c => { c with tol := none }), s1)) = q at h2 ⊢
      obtain ⟨ok, cs, s2⟩ := q
      simp only [] at h2 ⊢
      have h2' : s2.nfail = s.nfail := h2
      split
      · next hok =>
        refine ⟨by simp only []; omega, fun _ => ?_⟩
        cases ok <;> simp_all
      · have := copyTols_oom (cs.zip src) [] s2
        generalize copyTols s2 [] (cs.zip src) = q2 at this ⊢
        obtain ⟨ok2, cs2, s3⟩ := q2
        exact Oomb.trans_ok h2 this

theorem stMunge_nfail (s : AS) (c nc : Core) : (stMunge s c nc).2.2.nfail = s.nfail := by
  unfold stMunge
  split
  · split
    · next heq => exact nfail_mungeCopy_eq heq
    · next heq => exact nfail_mungeCopy_eq heq
  · rfl

theorem stBounds_oom (s : AS) (c nc : Core) : Oomb s (stBounds s c nc).2.2 (stBounds s c nc).1 := by
  generalize hr : stBounds s c nc = r
  obtain ⟨ok, nc', s'⟩ := r
  unfold stBounds at hr
  simp only []
  repeat' (first | split at hr | (simp only [Bool.not_true, Bool.not_false, Bool.false_eq_true, if_false, if_true] at hr))
  all_goals first
    | (simp only [Prod.mk.injEq] at hr
       obtain ⟨rfl, rfl, rfl⟩ := hr
       nf_facts
       simp only [Oomb] at *
       first | omega | (refine ⟨by omega, fun hlt => ?_⟩; first | trivial | omega))
    | skip

theorem stParams_oom (s : AS) (c nc : Core) : Oomb s (stParams s c nc).2.2 (stParams s c nc).1 := by
  unfold stParams
  split
  · split
    · next heq => have := nfail_alloc_none heq; exact ⟨by simp only []; omega, fun _ => rfl⟩
    · next b s1 heq =>
      have := copyNames_oom c.params [] s1
      generalize copyNames s1 [] c.params = q at this ⊢
      obtain ⟨ok, ps, s2⟩ := q
      exact Oomb.trans_ok (nfail_alloc_some heq) this
  · exact ⟨Nat.le_refl _, fun h => absurd h (Nat.lt_irrefl _)⟩

/-- a failed allocation inside `nlopt_copy` makes it return NULL -/
theorem copyChain_oom (l : List Core) (s : AS) :
    s.nfail ≤ (copyChain s l).1.nfail ∧ (s.nfail < (copyChain s l).1.nfail → (copyChain s l).2 = none) := by
  induction l generalizing s with
  | nil => exact ⟨Nat.le_refl _, fun h => absurd h (Nat.lt_irrefl _)⟩
  | cons c rest ih =>
    rw [copyChain_cons]
    split
    · next s1 heq => have := nfail_alloc_none heq; exact ⟨by simp only []; omega, fun _ => rfl⟩
    · next self s1 heq =>
      have e0 := nfail_alloc_some heq
      simp only []
      have e1 := stMunge_nfail s1 c (blankCopy c self)
      generalize stMunge s1 c (blankCopy c self) = r1 at e1 ⊢
      obtain ⟨ok1, nc1, s2⟩ := r1
      simp only [] at e1 ⊢
      cases ok1
      · simp only [Bool.not_false, if_true, nfail_copyOom]
        exact ⟨by omega, fun _ => trivial⟩
      simp only [Bool.not_true, Bool.false_eq_true, if_false]
      have e2 := stBounds_oom s2 c nc1
      generalize stBounds s2 c nc1 = r2 at e2 ⊢
      obtain ⟨ok2, nc2, s3⟩ := r2
      obtain ⟨e2, f2⟩ := e2
      simp only [] at e2 f2 ⊢
      cases ok2
      · simp only [Bool.not_false, if_true, nfail_copyOom]
        exact ⟨by omega, fun _ => trivial⟩
      simp only [Bool.not_true, Bool.false_eq_true, if_false]
      have e2' : s3.nfail = s2.nfail := by
        rcases Nat.lt_or_ge s2.nfail s3.nfail with hlt | hge
        · exact absurd (f2 hlt) (by simp)
        · omega
      have e3 := copyConArray_oom s3 c.mungeC c.fc
      generalize copyConArray s3 c.mungeC c.fc = r3 at e3 ⊢
      obtain ⟨ok3, blk3, cs3, s4⟩ := r3
      obtain ⟨e3, f3⟩ := e3
      simp only [] at e3 f3 ⊢
      cases ok3
      · simp only [Bool.not_false, if_true, nfail_copyOom]
        exact ⟨by omega, fun _ => trivial⟩
      simp only [Bool.not_true, Bool.false_eq_true, if_false]
      have e3' : s4.nfail = s3.nfail := by
        rcases Nat.lt_or_ge s3.nfail s4.nfail with hlt | hge
        · exact absurd (f3 hlt) (by simp)
        · omega
      have e4 := copyConArray_oom s4 c.mungeC c.h
      generalize copyConArray s4 c.mungeC c.h = r4 at e4 ⊢
      obtain ⟨ok4, blk4, cs4, s5⟩ := r4
      obtain ⟨e4, f4⟩ := e4
      simp only [] at e4 f4 ⊢
      cases ok4
      · simp only [Bool.not_false, if_true, nfail_copyOom]
        exact ⟨by omega, fun _ => trivial⟩
      simp only [Bool.not_true, Bool.false_eq_true, if_false]
      have e4' : s5.nfail = s4.nfail := by
        rcases Nat.lt_or_ge s4.nfail s5.nfail with hlt | hge
        · exact absurd (f4 hlt) (by simp)
        · omega
      generalize ({ nc2 with fcBlk := blk3, fc := cs3, mAlloc := if blk3.isSome then c.fc.length else 0, hBlk := blk4, h := cs4, pAlloc := if blk4.isSome then c.h.length else 0 } : Core) = nc4
      have e5 := stParams_oom s5 c nc4
      generalize stParams s5 c nc4 = r5 at e5 ⊢
      obtain ⟨ok5, nc5, s6⟩ := r5
      obtain ⟨e5, f5⟩ := e5
      simp only [] at e5 f5 ⊢
      cases ok5
      · simp only [Bool.not_false, if_true, nfail_copyOom]
        exact ⟨by omega, fun _ => trivial⟩
      simp only [Bool.not_true, Bool.false_eq_true, if_false]
      have e5' : s6.nfail = s5.nfail := by
        rcases Nat.lt_or_ge s5.nfail s6.nfail with hlt | hge
        · exact absurd (f5 hlt) (by simp)
        · omega
      have e6 : s6.nfail ≤ (if rest.isEmpty then (s6, some []) else copyChain s6 rest).1.nfail ∧
          (s6.nfail < (if rest.isEmpty then (s6, some []) else copyChain s6 rest).1.nfail →
            (if rest.isEmpty then (s6, some []) else copyChain s6 rest).2 = none) := by
        split
        · exact ⟨Nat.le_refl _, fun h => absurd h (Nat.lt_irrefl _)⟩
        · exact ih s6
      generalize (if rest.isEmpty then (s6, some []) else copyChain s6 rest) = r6 at e6 ⊢
      obtain ⟨s7, nl⟩ := r6
      obtain ⟨e6, f6⟩ := e6
      simp only [] at e6 f6 ⊢
      cases nl with
      | none =>
        simp only [nfail_copyOom]
        exact ⟨by omega, fun _ => trivial⟩
      | some nlocals =>
        have e6' : s7.nfail = s6.nfail := by
          rcases Nat.lt_or_ge s6.nfail s7.nfail with hlt | hge
          · exact absurd (f6 hlt) (by simp)
          · omega
        simp only []
        split
        · split
          · next heq8 =>
            simp only [nfail_copyOom]
            exact ⟨by have := nfail_allocArr_none heq8; omega, fun _ => trivial⟩
          · next heq8 =>
            have := nfail_allocArr_some heq8
            exact ⟨by simp only []; omega, fun h => by simp only [] at h; omega⟩
        · exact ⟨by simp only []; omega, fun h => by simp only [] at h; omega⟩

theorem copy_oom (s : AS) (o : Obj) :
    s.nfail ≤ (copy s o).1.nfail ∧ (s.nfail < (copy s o).1.nfail → (copy s o).2 = none) := by
  unfold copy
  have := copyChain_oom o.chain s
  generalize copyChain s o.chain = r at this ⊢
  obtain ⟨s1, ch⟩ := r
  cases ch with
  | none => exact ⟨this.1, fun _ => rfl⟩
  | some ch => exact ⟨this.1, fun h => by have := this.2 h; simp at this⟩

theorem nfail_setLowerBounds1 (A : Arith) (s : AS) (c : Core) (v : F64) :
    (setLowerBounds1 A s c v).1.nfail = s.nfail := by
  simp [setLowerBounds1]

theorem nfail_setUpperBounds1 (A : Arith) (s : AS) (c : Core) (v : F64) :
    (setUpperBounds1 A s c v).1.nfail = s.nfail := by
  simp [setUpperBounds1]

theorem create_oom (A : Arith) (s : AS) (alg : Int) (n : Nat) :
    s.nfail ≤ (create A s alg n).1.nfail ∧ (s.nfail < (create A s alg n).1.nfail → (create A s alg n).2 = none) := by
  unfold create
  split
  · exact ⟨Nat.le_refl _, fun h => absurd h (Nat.lt_irrefl _)⟩
  · split
    · next heq => have := nfail_alloc_none heq; exact ⟨by simp only []; omega, fun _ => rfl⟩
    · next self s1 heq =>
      have e0 := nfail_alloc_some heq
      simp only []
      split
      · split
        · next heq2 =>
          have := nfail_allocArr_none heq2
          exact ⟨by simp only [nfail_destroyChain]; omega, fun _ => rfl⟩
        · next lb s2 heq2 =>
          have e1 := nfail_allocArr_some heq2
          split
          · next heq3 =>
            have := nfail_allocArr_none heq3
            exact ⟨by simp only [nfail_destroyChain]; omega, fun _ => rfl⟩
          · next ub s3 heq3 =>
            have e2 := nfail_allocArr_some heq3
            have e3 := nfail_setLowerBounds1 A s3 { self := self, algorithm := alg.toNat, n := n, lb := some lb, ub := some ub } infNeg
            generalize setLowerBounds1 A s3 { self := self, algorithm := alg.toNat, n := n, lb := some lb, ub := some ub } infNeg = r3 at e3 ⊢
            obtain ⟨s4, c4, r4⟩ := r3
            have e4 := nfail_setUpperBounds1 A s4 c4 infPos
            generalize setUpperBounds1 A s4 c4 infPos = r5 at e4 ⊢
            obtain ⟨s5, c5, r6⟩ := r5
            simp only [] at e3 e4 ⊢
            exact ⟨by omega, fun h => by omega⟩
      · exact ⟨by simp only []; omega, fun h => by simp only [] at h; omega⟩

theorem nfail_setLowerBounds (A : Arith) (s : AS) (c : Core) (arg : Option (List F64)) :
    (setLowerBounds A s c arg).1.nfail = s.nfail := by
  unfold setLowerBounds; simp only []; split <;> simp

theorem nfail_setUpperBounds (A : Arith) (s : AS) (c : Core) (arg : Option (List F64)) :
    (setUpperBounds A s c arg).1.nfail = s.nfail := by
  unfold setUpperBounds; simp only []; split <;> simp

theorem nfail_removeIneq (s : AS) (c : Core) : (removeIneq s c).1.nfail = s.nfail := by
  simp [removeIneq]

theorem nfail_removeEq (s : AS) (c : Core) : (removeEq s c).1.nfail = s.nfail := by
  simp [removeEq]

theorem nfail_setObjective (s : AS) (c : Core) (f pre fd : Nat) (mx : Bool) :
    (setObjective s c f pre fd mx).1.nfail = s.nfail := by
  unfold setObjective; simp only []; split <;> simp

theorem setLocalOptimizer_oom (A : Arith) (s : AS) (o : Obj) (lo : Option Obj) :
    Oom s (setLocalOptimizer A s o lo).1 (setLocalOptimizer A s o lo).2.2 := by
  unfold setLocalOptimizer
  have h0 := nfail_unsetErrmsg_fst s o.core
  generalize unsetErrmsg s o.core = p at h0 ⊢
  obtain ⟨s1, c1⟩ := p
  simp only [] at h0 ⊢
  split
  · exact oom_of_eq (by simp only [nfail_destroyChain]; exact h0)
  · next l =>
    split
    · have := nfail_setErrmsg_fst s1 c1
      generalize setErrmsg s1 c1 = q at this ⊢
      obtain ⟨s2, c2⟩ := q
      simp only [] at this ⊢
      exact ⟨by omega, fun _ => by simp [rINVALID]⟩
    · have h2 := copyChain_oom l.chain s1
      generalize copyChain s1 l.chain = r at h2 ⊢
      obtain ⟨s2, och⟩ := r
      simp only [] at h2 ⊢
      split
      · next heq =>
        simp only [Prod.mk.injEq] at heq
        obtain ⟨rfl, rfl⟩ := heq
        exact ⟨by simp only []; omega, fun _ => by simp [rOOM]⟩
      · next heq =>
        simp only [Prod.mk.injEq] at heq
        obtain ⟨rfl, rfl⟩ := heq
        exact ⟨by simp only []; omega, fun _ => by simp [rOOM]⟩
      · next s3 nl nrest heq =>
        simp only [Prod.mk.injEq] at heq
        obtain ⟨rfl, rfl⟩ := heq
        have e2 : s2.nfail = s1.nfail := by
          rcases Nat.lt_or_ge s1.nfail s2.nfail with hlt | hge
          · exact absurd (h2.2 hlt) (by simp)
          · have := h2.1; omega
        simp only []
        have e3 := nfail_destroyChain o.locals s2
        generalize destroyChain s2 o.locals = s3 at e3 ⊢
        have e4 := nfail_setLowerBounds A s3 nl (some (arrV c1.lb))
        generalize setLowerBounds A s3 nl (some (arrV c1.lb)) = r4 at e4 ⊢
        obtain ⟨s4, nl4, _⟩ := r4
        have e5 := nfail_setUpperBounds A s4 nl4 (some (arrV c1.ub))
        generalize setUpperBounds A s4 nl4 (some (arrV c1.ub)) = r5 at e5 ⊢
        obtain ⟨s5, nl5, _⟩ := r5
        have e6 := nfail_removeIneq s5 nl5
        generalize removeIneq s5 nl5 = r6 at e6 ⊢
        obtain ⟨s6, nl6, _⟩ := r6
        have e7 := nfail_removeEq s6 nl6
        generalize removeEq s6 nl6 = r7 at e7 ⊢
        obtain ⟨s7, nl7, _⟩ := r7
        have e8 := nfail_setObjective s7 nl7 0 0 0 false
        generalize setObjective s7 nl7 0 0 0 false = r8 at e8 ⊢
        obtain ⟨s8, nl8, _⟩ := r8
        simp only [] at e4 e5 e6 e7 e8 ⊢
        exact oom_of_eq (by omega)

/-! ### world level -/

/-- the return value reports failure: NULL, or a negative `nlopt_result` -/
def RetFailed : Ret → Prop
  | .code r => r < 0
  | .ptr ok => ok = false
  | .void => False

theorem onCore_oom {w : World} {slot : Option Nat} {nr : Int} {f : AS → Core → AS × Core × Int}
    (hf : ∀ s c, Oom s (f s c).1 (f s c).2.2)
    (h : w.as.nfail < (onCore w slot nr f).1.as.nfail) : RetFailed (onCore w slot nr f).2.1 := by
  unfold onCore at *
  cases slot with
  | none => simp at h
  | some j =>
    cases hg : w.get (some j) with
    | none => simp [hg] at h
    | some o =>
      simp only [hg] at h ⊢
      have := hf w.as o.core
      generalize f w.as o.core = r at this h ⊢
      obtain ⟨s', c', r'⟩ := r
      exact this.2 h

theorem onCoreOut_oom {w : World} {slot : Option Nat} {f : AS → Core → AS × Core × Int × List F64}
    (hf : ∀ s c, Oom s (f s c).1 (f s c).2.2.1)
    (h : w.as.nfail < (onCoreOut w slot f).1.as.nfail) : RetFailed (onCoreOut w slot f).2.1 := by
  unfold onCoreOut at *
  cases slot with
  | none => simp at h
  | some j =>
    cases hg : w.get (some j) with
    | none => simp [hg] at h
    | some o =>
      simp only [hg] at h ⊢
      have := hf w.as o.core
      generalize f w.as o.core = r at this h ⊢
      obtain ⟨s', c', r', out⟩ := r
      exact this.2 h

theorem applyOpRaw_oom (A : Arith) (w : World) (op : Op)
    (h : w.as.nfail < (applyOpRaw A w op).1.as.nfail) : RetFailed (applyOpRaw A w op).2.1 := by
  cases op with
  | oracle k => simp [applyOpRaw, AS.nfail] at h
  | mcfail k => simp [applyOpRaw, AS.nfail] at h
  | create dst alg n =>
    simp only [applyOpRaw] at h ⊢
    have := create_oom A w.as alg n
    generalize create A w.as alg n = r at this h ⊢
    obtain ⟨s', o'⟩ := r
    have := this.2 h
    simp only [] at this
    subst this
    rfl
  | destroy slot =>
    simp only [applyOpRaw] at h
    cases slot with
    | none => simp at h
    | some j =>
      cases hg : w.get (some j) with
      | none => simp [hg] at h
      | some o => simp [hg, World.set, destroy] at h
  | copy src dst =>
    simp only [applyOpRaw] at h ⊢
    cases hs : w.get src with
    | none => rfl
    | some o =>
      simp only [hs] at h ⊢
      have := copy_oom w.as o
      generalize copy w.as o = r at this h ⊢
      obtain ⟨s', o'⟩ := r
      have := this.2 h
      simp only [] at this
      subst this
      rfl
  | setObjective slot f pre fdata mx => exact onCore_oom (fun s c => setObjective_oom (rfl : setObjective s c f pre fdata mx = _)) h
  | setLb slot arg => exact onCore_oom (fun s c => setLowerBounds_oom (rfl : setLowerBounds A s c arg = _)) h
  | setUb slot arg => exact onCore_oom (fun s c => setUpperBounds_oom (rfl : setUpperBounds A s c arg = _)) h
  | setLb1 slot v => exact onCore_oom (fun s c => setLowerBounds1_oom (rfl : setLowerBounds1 A s c v = _)) h
  | setUb1 slot v => exact onCore_oom (fun s c => setUpperBounds1_oom (rfl : setUpperBounds1 A s c v = _)) h
  | setLbi slot k v => exact onCore_oom (fun s c => setLowerBound_oom (rfl : setLowerBound A s c k v = _)) h
  | setUbi slot k v => exact onCore_oom (fun s c => setUpperBound_oom (rfl : setUpperBound A s c k v = _)) h
  | getLb slot nul => exact onCoreOut_oom (fun s c => getLowerBounds_oom (rfl : getLowerBounds s c nul = _)) h
  | getUb slot nul => exact onCoreOut_oom (fun s c => getUpperBounds_oom (rfl : getUpperBounds s c nul = _)) h
  | getXtolAbs slot nul => exact onCoreOut_oom (fun s c => getXtolAbs_oom (rfl : getXtolAbs s c nul = _)) h
  | getXw slot nul => exact onCoreOut_oom (fun s c => getXWeights_oom (rfl : getXWeights s c nul = _)) h
  | addCon slot eq m isVec f pre fdata tol => exact onCore_oom (fun s c => addCon_oom _ _ _ _ _ _ _ _ _ _) h
  | rmIneq slot => exact onCore_oom (fun s c => removeIneq_oom (rfl : removeIneq s c = _)) h
  | rmEq slot => exact onCore_oom (fun s c => removeEq_oom (rfl : removeEq s c = _)) h
  | setScalar slot v => exact onCore_oom (fun s c => setScalar_oom (rfl : setScalar s c (ScalarSet.apply · v) = _)) h
  | setXtolAbs slot arg => exact onCore_oom (fun s c => setXtolAbs_oom (rfl : setXtolAbs s c arg = _)) h
  | setXtolAbs1 slot v => exact onCore_oom (fun s c => setXtolAbs1_oom (rfl : setXtolAbs1 s c v = _)) h
  | setXw slot arg => exact onCore_oom (fun s c => setXWeights_oom (rfl : setXWeights s c arg = _)) h
  | setXw1 slot v => exact onCore_oom (fun s c => setXWeights1_oom (rfl : setXWeights1 s c v = _)) h
  | setDx slot arg => exact onCore_oom (fun s c => setInitialStep_oom (rfl : setInitialStep s c arg = _)) h
  | setDx1 slot v => exact onCore_oom (fun s c => setInitialStep1_oom (rfl : setInitialStep1 s c v = _)) h
  | setDefaultDx slot v => exact onCore_oom (fun s c => setDefaultInitialStep_oom (rfl : setDefaultInitialStep A s c v = _)) h
  | getDx slot v => exact onCoreOut_oom (fun s c => getInitialStep_oom (rfl : getInitialStep A s c v = _)) h
  | setMunge slot d c =>
    simp only [applyOpRaw] at h
    cases slot with
    | none => simp at h
    | some j =>
      cases hg : w.get (some j) with
      | none => simp [hg] at h
      | some o => simp [hg, World.set] at h
  | setParam slot nm v => exact onCore_oom (fun s c => setParam_oom (rfl : setParam s c nm v = _)) h
  | setLocal slot lo =>
    simp only [applyOpRaw] at h ⊢
    cases slot with
    | none => simp at h
    | some j =>
      cases hg : w.get (some j) with
      | none => simp [hg] at h
      | some o =>
        simp only [hg] at h ⊢
        have := setLocalOptimizer_oom A w.as o (w.get lo)
        generalize setLocalOptimizer A w.as o (w.get lo) = r at this h ⊢
        obtain ⟨s', o', r'⟩ := r
        exact this.2 h

theorem applyOp_oom (A : Arith) (w : World) (op : Op)
    (h : w.as.nfail < (applyOp A w op).1.as.nfail) : RetFailed (applyOp A w op).2.1 := by
  have h1 := applyOpRaw_oom A w op
  unfold applyOp at *
  cases op <;> first | exact h1 h | exact h1 (by simpa [AS.nfail] using h)

end Nlopt
