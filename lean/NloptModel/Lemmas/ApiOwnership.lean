import NloptModel.Lemmas.ApiOwnCopy
/-! World-level ownership: the invariant `Owns`, its generalisation `WGood`, and preservation by every `Op`. -/
set_option linter.unusedSimpArgs false
set_option linter.unusedVariables false
namespace Nlopt

/-- **The ownership invariant.**  The multiset of blocks owned by the live objects is exactly the multiset of
    live blocks; no block is live twice; every live block id is below the fresh-id counter. -/
def Owns (w : World) : Prop :=
  (∀ b, (World.owned w).count b = w.as.live.count b) ∧
  (∀ b, w.as.live.count b ≤ 1) ∧
  (∀ b, b ∈ w.as.live → b < w.as.next)

/-- `Owns` relative to a context (used to track the event log and a protected suffix of `live`) -/
def WGood (P : Ctx) (w : World) : Prop := Good P w.as (World.owned w)

theorem Owns.toWGood {w : World} (h : Owns w) : WGood ⟨[], [], w.as.evs⟩ w :=
  { cnt := fun b => by simpa using h.1 b
    nodup := h.2.1
    lt := h.2.2
    suf := ⟨w.as.live, by simp⟩
    base_rest := fun b hb => by simp at hb
    evs := ⟨[], by simp, fun e he => by simp at he⟩ }

theorem WGood.toOwns {P : Ctx} {w : World} (h : WGood P w) (hr : P.rest = []) : Owns w :=
  ⟨fun b => by have := h.cnt b; rw [hr] at this; simpa using this, h.nodup, h.lt⟩

/-! ### slots -/

theorem flatMap_set_count (l : List (Option Obj)) (i : Nat) (y : Option Obj) (hi : i < l.length) (b : Nat) :
    ((l.set i y).flatMap slotOwned).count b = ((l.set i none).flatMap slotOwned).count b + (slotOwned y).count b := by
  induction l generalizing i with
  | nil => simp at hi
  | cons a l ih =>
    cases i with
    | zero => simp [List.flatMap_cons, List.count_append, slotOwned]; omega
    | succ i =>
      simp only [List.set_cons_succ, List.flatMap_cons, List.count_append]
      have := ih i (by simpa using hi)
      omega

theorem set_getD_self (l : List (Option Obj)) (i : Nat) : l.set i (l.getD i none) = l := by
  induction l generalizing i with
  | nil => simp
  | cons a l ih =>
    cases i with
    | zero => simp
    | succ i => simpa using ih i

theorem World.owned_split (w : World) (j : Nat) (hlt : j < w.slots.length) (b : Nat) :
    (World.owned w).count b = (World.owned (w.set j none)).count b + (slotOwned (w.get (some j))).count b := by
  have := flatMap_set_count w.slots j (w.slots.getD j none) hlt b
  rw [set_getD_self] at this
  exact this

theorem World.owned_set (w : World) (s : AS) (j : Nat) (y : Option Obj) (hlt : j < w.slots.length) (b : Nat) :
    (World.owned (({ w with as := s } : World).set j y)).count b =
      (World.owned (w.set j none)).count b + (slotOwned y).count b :=
  flatMap_set_count w.slots j y hlt b

/-- replacing the object in a slot -/
theorem wgood_set {P : Ctx} {w : World} {j : Nat} (hlt : j < w.slots.length) {s' : AS} {y : Option Obj}
    (h : WGood P w)
    (hf : ∀ x, Good P w.as (slotOwned (w.get (some j)) ++ x) → Good P s' (slotOwned y ++ x)) :
    WGood P (({ w with as := s' } : World).set j y) := by
  unfold WGood at *
  have h1 := hf (World.owned (w.set j none)) (h.perm (by
    intro b; rw [World.owned_split w j hlt b, List.count_append]; omega))
  have h2 : (({ w with as := s' } : World).set j y).as = s' := rfl
  rw [h2]
  exact h1.perm (by intro b; rw [World.owned_set w s' j y hlt b, List.count_append]; omega)

theorem Good.clearOracles {P : Ctx} {s : AS} {own : List Nat} (h : Good P s own) :
    Good P { s with failIn := 0, mcFailIn := 0 } own :=
  ⟨h.cnt, h.nodup, h.lt, h.suf, h.base_rest, h.evs⟩

theorem onCore_wgood {P : Ctx} {w : World} {slot : Option Nat} {nr : Int} {f : AS → Core → AS × Core × Int}
    (hf : ∀ (x : List Nat) (s : AS) (c : Core), Good P s (c.owned ++ x) → Good P (f s c).1 ((f s c).2.1.owned ++ x))
    (h : WGood P w) : WGood P (onCore w slot nr f).1 := by
  unfold onCore
  cases slot with
  | none => exact h
  | some j =>
    cases hg : w.get (some j) with
    | none => exact h
    | some o =>
      simp only []
      apply wgood_set (World.get_some_lt hg) h
      intro x hx
      rw [hg] at hx
      have := hf (ownedChain o.locals ++ x) w.as o.core (hx.perm (by
        intro b; simp only [slotOwned, Obj.owned, Obj.chain, ownedChain_cons, List.count_append]; omega))
      generalize f w.as o.core = r at this ⊢
      obtain ⟨s', c', r'⟩ := r
      exact this.perm (by
        intro b; simp only [slotOwned, Obj.owned, Obj.chain, ownedChain_cons, List.count_append]; omega)

theorem onCoreOut_wgood {P : Ctx} {w : World} {slot : Option Nat} {f : AS → Core → AS × Core × Int × List F64}
    (hf : ∀ (x : List Nat) (s : AS) (c : Core), Good P s (c.owned ++ x) → Good P (f s c).1 ((f s c).2.1.owned ++ x))
    (h : WGood P w) : WGood P (onCoreOut w slot f).1 := by
  unfold onCoreOut
  cases slot with
  | none => exact h
  | some j =>
    cases hg : w.get (some j) with
    | none => exact h
    | some o =>
      simp only []
      apply wgood_set (World.get_some_lt hg) h
      intro x hx
      rw [hg] at hx
      have := hf (ownedChain o.locals ++ x) w.as o.core (hx.perm (by
        intro b; simp only [slotOwned, Obj.owned, Obj.chain, ownedChain_cons, List.count_append]; omega))
      generalize f w.as o.core = r at this ⊢
      obtain ⟨s', c', r', out⟩ := r
      exact this.perm (by
        intro b; simp only [slotOwned, Obj.owned, Obj.chain, ownedChain_cons, List.count_append]; omega)

/-- the one documented precondition: `create`/`copy` must target an existing, empty slot (otherwise the test
    driver itself overwrites or drops a handle; `World.set` ignores an out-of-range index) -/
def Op.okFor (w : World) : Op → Prop
  | .create dst _ _ => w.get (some dst) = none ∧ dst < w.slots.length
  | .copy _ dst => w.get (some dst) = none ∧ dst < w.slots.length
  | _ => True

theorem applyOpRaw_wgood {P : Ctx} (A : Arith) (w : World) (op : Op) (hok : op.okFor w) (h : WGood P w) :
    WGood P (applyOpRaw A w op).1 := by
  cases op with
  | oracle k => exact ⟨h.cnt, h.nodup, h.lt, h.suf, h.base_rest, h.evs⟩
  | mcfail k => exact ⟨h.cnt, h.nodup, h.lt, h.suf, h.base_rest, h.evs⟩
  | create dst alg n =>
    simp only [applyOpRaw]
    apply wgood_set hok.2 h
    intro x hx
    rw [hok.1] at hx
    exact create_good hx
  | destroy slot =>
    simp only [applyOpRaw]
    cases slot with
    | none => exact h
    | some j =>
      cases hg : w.get (some j) with
      | none => exact h
      | some o =>
        simp only []
        apply wgood_set (World.get_some_lt hg) h
        intro x hx
        rw [hg] at hx
        exact destroyChain_good _ hx
  | copy src dst =>
    simp only [applyOpRaw]
    cases hs : w.get src with
    | none =>
      simp only []
      have := wgood_set (s' := w.as) (y := none) hok.2 h (fun x hx => by rw [hok.1] at hx; exact hx)
      exact this
    | some o =>
      simp only []
      apply wgood_set hok.2 h
      intro x hx
      rw [hok.1] at hx
      exact copy_good hx
  | setObjective slot f pre fdata mx => exact onCore_wgood (fun x s c hg => setObjective_good hg) h
  | setLb slot arg => exact onCore_wgood (fun x s c hg => setLowerBounds_good hg) h
  | setUb slot arg => exact onCore_wgood (fun x s c hg => setUpperBounds_good hg) h
  | setLb1 slot v => exact onCore_wgood (fun x s c hg => setLowerBounds1_good hg) h
  | setUb1 slot v => exact onCore_wgood (fun x s c hg => setUpperBounds1_good hg) h
  | setLbi slot k v => exact onCore_wgood (fun x s c hg => setLowerBound_good hg) h
  | setUbi slot k v => exact onCore_wgood (fun x s c hg => setUpperBound_good hg) h
  | getLb slot nul => exact onCoreOut_wgood (fun x s c hg => getLowerBounds_good hg) h
  | getUb slot nul => exact onCoreOut_wgood (fun x s c hg => getUpperBounds_good hg) h
  | getXtolAbs slot nul => exact onCoreOut_wgood (fun x s c hg => getXtolAbs_good hg) h
  | getXw slot nul => exact onCoreOut_wgood (fun x s c hg => getXWeights_good hg) h
  | addCon slot eq m isVec f pre fdata tol => exact onCore_wgood (fun x s c hg => addCon_good hg) h
  | rmIneq slot => exact onCore_wgood (fun x s c hg => removeIneq_good hg) h
  | rmEq slot => exact onCore_wgood (fun x s c hg => removeEq_good hg) h
  | setScalar slot v => exact onCore_wgood (fun x s c hg => setScalar_good hg) h
  | setXtolAbs slot arg => exact onCore_wgood (fun x s c hg => setXtolAbs_good hg) h
  | setXtolAbs1 slot v => exact onCore_wgood (fun x s c hg => setXtolAbs1_good hg) h
  | setXw slot arg => exact onCore_wgood (fun x s c hg => setXWeights_good hg) h
  | setXw1 slot v => exact onCore_wgood (fun x s c hg => setXWeights1_good hg) h
  | setDx slot arg => exact onCore_wgood (fun x s c hg => setInitialStep_good hg) h
  | setDx1 slot v => exact onCore_wgood (fun x s c hg => setInitialStep1_good hg) h
  | setDefaultDx slot v => exact onCore_wgood (fun x s c hg => setDefaultInitialStep_good hg) h
  | getDx slot v => exact onCoreOut_wgood (fun x s c hg => getInitialStep_good hg) h
  | setMunge slot d c =>
    simp only [applyOpRaw]
    cases slot with
    | none => exact h
    | some j =>
      cases hg : w.get (some j) with
      | none => exact h
      | some o =>
        simp only []
        have := wgood_set (s' := w.as) (y := some { o with core := { o.core with mungeD := d, mungeC := c } })
          (World.get_some_lt hg) h (fun x hx => by
            rw [hg] at hx
            exact hx.perm (by simp only [slotOwned, Obj.owned, Obj.chain]; cnt))
        exact this
  | setParam slot nm v => exact onCore_wgood (fun x s c hg => setParam_good hg) h
  | setLocal slot lo =>
    simp only [applyOpRaw]
    cases slot with
    | none => exact h
    | some j =>
      cases hg : w.get (some j) with
      | none => exact h
      | some o =>
        simp only []
        apply wgood_set (World.get_some_lt hg) h
        intro x hx
        rw [hg] at hx
        exact setLocalOptimizer_good hx

theorem applyOp_wgood {P : Ctx} (A : Arith) (w : World) (op : Op) (hok : op.okFor w) (h : WGood P w) :
    WGood P (applyOp A w op).1 := by
  have h1 := applyOpRaw_wgood A w op hok h
  unfold applyOp
  cases op <;> first | exact h1 | exact Good.clearOracles h1

/-! ### histories -/

/-- every `create`/`copy` of the history targets an existing empty slot at the time it is executed -/
def HistOk (A : Arith) : World → List Op → Prop
  | _, [] => True
  | w, op :: ops => op.okFor w ∧ HistOk A (applyOp A w op).1 ops

theorem runOps_cons (A : Arith) (w : World) (op : Op) (ops : List Op) :
    runOps A w (op :: ops) = runOps A (applyOp A w op).1 ops := rfl

theorem runOps_wgood {P : Ctx} (A : Arith) (ops : List Op) (w : World) (hok : HistOk A w ops) (h : WGood P w) :
    WGood P (runOps A w ops) := by
  induction ops generalizing w with
  | nil => exact h
  | cons op ops ih =>
    rw [runOps_cons]
    exact ih _ hok.2 (applyOp_wgood A w op hok.1 h)

/-! ### destroying everything -/

/-- what the driver's `end` line does: `nlopt_destroy` on every slot that holds an object -/
def destroyAll (w : World) : AS :=
  w.slots.foldl (fun s o => match o with | some o => destroy s o | none => s) w.as

theorem destroySlots_good {P : Ctx} (l : List (Option Obj)) {s : AS} {x : List Nat}
    (h : Good P s (l.flatMap slotOwned ++ x)) :
    Good P (l.foldl (fun s o => match o with | some o => destroy s o | none => s) s) x := by
  induction l generalizing s with
  | nil => simpa using h
  | cons o l ih =>
    simp only [List.foldl_cons]
    apply ih
    cases o with
    | none => simpa [slotOwned] using h
    | some o =>
      simp only [destroy]
      apply destroyChain_good
      exact h.perm (by intro b; simp only [List.flatMap_cons, slotOwned, Obj.owned, List.count_append]; omega)

theorem Good.live_nil {P : Ctx} {s : AS} (h : Good P s []) (hr : P.rest = []) : s.live = [] := by
  apply List.eq_nil_iff_forall_not_mem.mpr
  intro b hb
  have := h.cnt b
  rw [hr] at this
  have h2 := List.count_pos_iff.mpr hb
  simp at this
  omega

/-- if the footprint is empty again and everything else owns what was live before, `live` is literally restored -/
theorem Good.live_restored {live0 rest : List Nat} {ev : List Ev} {s : AS}
    (h : Good ⟨live0, rest, ev⟩ s []) (hr : ∀ b, rest.count b = live0.count b) : s.live = live0 := by
  obtain ⟨X, hX⟩ := h.suf
  have hX0 : X = [] := by
    apply List.eq_nil_iff_forall_not_mem.mpr
    intro b hb
    have h1 := h.cnt b
    have h2 := List.count_pos_iff.mpr hb
    rw [hX] at h1
    simp only [List.count_nil, List.count_append, Nat.zero_add] at h1
    have := hr b
    omega
  rw [hX, hX0]; rfl

theorem Owns.footprint {w : World} (h : Owns w) : Good ⟨w.as.live, World.owned w, w.as.evs⟩ w.as [] :=
  { cnt := fun b => by simpa using h.1 b
    nodup := h.2.1
    lt := h.2.2
    suf := ⟨[], rfl⟩
    base_rest := fun b hb => by
      have := h.1 b
      have h2 := List.count_pos_iff.mpr hb
      exact List.count_pos_iff.mp (by simp only [] at *; omega)
    evs := ⟨[], by simp, fun e he => by simp at he⟩ }

end Nlopt
