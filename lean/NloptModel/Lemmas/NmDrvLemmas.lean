import NloptModel.Model.NmDriver
import NloptModel.Lemmas.F64Order
/-!
# Structural lemmas about the Nelder-Mead driver model (`Model/NmDriver.lean`)

* `Framed`: everything between two evaluations (`loopHead`, `enter`, `post`) leaves `nev`, `x`, `*minf` alone and can only
  return with the codes 3, 4, -1 (and 2 at the entry test of `nldrmd_minimize_`).
* `step_out`: one evaluation = (`upd`: counter and incumbent) + (`stopCode`: the `goto done` of CHECK_EVAL / of the wrapper)
  + a framed continuation.
* `run_inv`: the invariant principle all theorems of `Props/DrvNm.lean` are instances of.
* `runOut_append`, `runOut_take`: the run on a prefix.
-/
set_option linter.unusedSimpArgs false
set_option linter.unusedVariables false
namespace Nlopt.NmDrv
open Nlopt

/-- `b` has the counter, `x`, `*minf` of `a` -/
def Same (a b : St) : Prop := b.nev = a.nev ∧ b.x = a.x ∧ b.minf = a.minf ∧ b.wr = a.wr

theorem Same.rfl' (a : St) : Same a a := ⟨rfl, rfl, rfl, rfl⟩

/-- the result of code between two evaluations, started in `st`: it goes on with the same counter / incumbent (and waits
    for an evaluation other than the wrapper's first one), or returns `st`'s incumbent with a code satisfying `ok` -/
def Framed (st : St) (ok : Int → Prop) : Out → Prop
  | .cont st' => Same st st' ∧ st'.ph ≠ .first
  | .done r => ∃ code, ok code ∧ r = ⟨code, st.nev, st.x, st.minfOpt, false⟩

theorem framed_fin {st st' : St} {ok : Int → Prop} {code : Int} (h : Same st st') (hk : ok code) :
    Framed st ok (fin code st') := by
  obtain ⟨h1, h2, h3, h4⟩ := h
  refine ⟨code, hk, ?_⟩
  simp [St.minfOpt, h1, h2, h3, h4]

theorem Framed.mono {st : St} {ok ok' : Int → Prop} {o : Out} (h : Framed st ok o) (hm : ∀ k, ok k → ok' k) :
    Framed st ok' o := by
  cases o with
  | cont st' => exact h
  | done r => obtain ⟨k, hk, hr⟩ := h; exact ⟨k, hm k hk, hr⟩

theorem Framed.trans {a b : St} {ok : Int → Prop} {o : Out} (hab : Same a b) (h : Framed b ok o) : Framed a ok o := by
  obtain ⟨h1, h2, h3, h4⟩ := hab
  cases o with
  | cont st' =>
    obtain ⟨⟨g1, g2, g3, g4⟩, g5⟩ := h
    exact ⟨⟨by rw [g1, h1], by rw [g2, h2], by rw [g3, h3], by rw [g4, h4]⟩, g5⟩
  | done r =>
    obtain ⟨k, hk, hr⟩ := h
    refine ⟨k, hk, ?_⟩
    rw [hr]; simp [St.minfOpt, h1, h2, h3, h4]

theorem framed_ite {st : St} {ok : Int → Prop} {p : Prop} [Decidable p] {a b : Out}
    (ha : p → Framed st ok a) (hb : ¬p → Framed st ok b) : Framed st ok (if p then a else b) := by
  split
  · exact ha ‹_›
  · exact hb ‹_›

theorem framed_cont {st st' : St} {ok : Int → Prop} (h : Same st st') (hp : st'.ph ≠ .first) :
    Framed st ok (.cont st') := ⟨h, hp⟩

theorem loopHead_framed (O : Ord) (A : Arith) (c : Cfg) (st : St) (stuck : Bool) :
    Framed st (fun k => k = 3 ∨ k = 4) (loopHead O A c st stuck) := by
  unfold loopHead
  simp only []
  refine framed_ite (fun _ => framed_fin ⟨rfl, rfl, rfl, rfl⟩ (by simp)) (fun _ => ?_)
  refine framed_ite (fun _ => framed_fin ⟨rfl, rfl, rfl, rfl⟩ (by simp)) (fun _ => ?_)
  refine framed_ite (fun _ => framed_fin ⟨rfl, rfl, rfl, rfl⟩ (by simp)) (fun _ => ?_)
  exact framed_cont ⟨rfl, rfl, rfl, rfl⟩ (by simp)

theorem enter_framed (O : Ord) (A : Arith) (c : Cfg) (st : St) (stuck : Bool) :
    Framed st (fun k => k = 3 ∨ k = 4 ∨ k = -1 ∨ (k = 2 ∧ F64.lt st.minf c.s.minfMax = true))
      (enter O A c st stuck) := by
  unfold enter
  simp only []
  refine framed_ite (fun h => framed_fin ⟨rfl, rfl, rfl, rfl⟩ (by simp [h])) (fun _ => ?_)
  refine framed_ite (fun _ => ?_) (fun _ => ?_)
  · refine Framed.trans (b := { st with pts := [⟨st.minf, st.x⟩], initDiam := F64.zero }) ⟨rfl, rfl, rfl, rfl⟩ ?_
    exact (loopHead_framed O A c _ stuck).mono (by intro k hk; omega)
  · refine framed_ite (fun _ => framed_fin ⟨rfl, rfl, rfl, rfl⟩ (by simp)) (fun _ => ?_)
    exact framed_cont ⟨rfl, rfl, rfl, rfl⟩ (by simp)

theorem loopHead_framed' (O : Ord) (A : Arith) (c : Cfg) (st st' : St) (stuck : Bool) (h : Same st st') :
    Framed st (fun k => k = 3 ∨ k = 4 ∨ k = -1) (loopHead O A c st' stuck) :=
  Framed.trans h ((loopHead_framed O A c st' stuck).mono (by intro k hk; omega))

theorem post_framed (O : Ord) (A : Arith) (c : Cfg) (st : St) (e : Ev) :
    Framed st (fun k => k = 3 ∨ k = 4 ∨ k = -1) (post O A c st e) := by
  have S : ∀ {pts ph}, Same st { st with pts := pts, ph := ph } := ⟨rfl, rfl, rfl, rfl⟩
  have F4 : ∀ {st' : St}, Same st st' → Framed st (fun k => k = 3 ∨ k = 4 ∨ k = -1) (fin 4 st') :=
    fun h => framed_fin h (by simp)
  have Fm : ∀ {st' : St}, Same st st' → Framed st (fun k => k = 3 ∨ k = 4 ∨ k = -1) (fin (-1) st') :=
    fun h => framed_fin h (by simp)
  have L : ∀ {st' : St} {b : Bool}, Same st st' → Framed st (fun k => k = 3 ∨ k = 4 ∨ k = -1) (loopHead O A c st' b) :=
    fun h => loopHead_framed' O A c st _ _ h
  unfold post
  split
  · exact F4 ⟨rfl, rfl, rfl, rfl⟩
  · simp only []
    refine framed_ite (fun _ => framed_ite (fun _ => Fm ⟨rfl, rfl, rfl, rfl⟩)
      (fun _ => framed_cont ⟨rfl, rfl, rfl, rfl⟩ (by simp))) (fun _ => L ⟨rfl, rfl, rfl, rfl⟩)
  · simp only []
    refine framed_ite (fun _ => framed_ite (fun _ => F4 ⟨rfl, rfl, rfl, rfl⟩)
      (fun _ => framed_cont ⟨rfl, rfl, rfl, rfl⟩ (by simp))) (fun _ => ?_)
    refine framed_ite (fun _ => L ⟨rfl, rfl, rfl, rfl⟩) (fun _ => framed_ite (fun _ => F4 ⟨rfl, rfl, rfl, rfl⟩)
      (fun _ => framed_cont ⟨rfl, rfl, rfl, rfl⟩ (by simp)))
  · simp only []
    exact L ⟨rfl, rfl, rfl, rfl⟩
  · simp only []
    refine framed_ite (fun _ => L ⟨rfl, rfl, rfl, rfl⟩) (fun _ => ?_)
    split
    · exact framed_ite (fun _ => F4 ⟨rfl, rfl, rfl, rfl⟩) (fun _ => framed_cont ⟨rfl, rfl, rfl, rfl⟩ (by simp))
    · exact L ⟨rfl, rfl, rfl, rfl⟩
  · simp only []
    split
    · exact framed_ite (fun _ => F4 ⟨rfl, rfl, rfl, rfl⟩) (fun _ => framed_cont ⟨rfl, rfl, rfl, rfl⟩ (by simp))
    · exact L ⟨rfl, rfl, rfl, rfl⟩

/-! ## one evaluation -/

/-- counter and incumbent after the evaluation `e` made in state `st` -/
def upd (st : St) (e : Ev) : St :=
  match st.ph with
  | .first => { st with nev := st.nev + 1, minf := e.f, wr := true, hist := e :: st.hist }
  | _ => record st e

/-- the return code decided right after the evaluation (forced stop, stopval, maxeval), if any -/
def stopCode (c : Cfg) (st : St) (e : Ev) : Option Int :=
  match st.ph with
  | .first =>
    if e.forced then some (-5) else if F64.lt e.f c.s.minfMax then some 2
    else if c.evalsStop (st.nev + 1) then some 5 else none
  | _ => verdict c st e

/-- result record with the counter / incumbent of `st` -/
def resOf (code : Int) (st : St) : Res := ⟨code, st.nev, st.x, st.minfOpt, false⟩

theorem fin_eq (code : Int) (st : St) : fin code st = .done (resOf code st) := rfl

theorem step_first {O : Ord} {A : Arith} {c : Cfg} {st : St} {e : Ev} (h : st.ph = .first) :
    step O A c st e =
      if e.forced then fin (-5) { st with nev := st.nev + 1, minf := e.f, wr := true, hist := e :: st.hist }
      else if F64.lt e.f c.s.minfMax then fin 2 { st with nev := st.nev + 1, minf := e.f, wr := true, hist := e :: st.hist }
      else if c.evalsStop (st.nev + 1) then fin 5 { st with nev := st.nev + 1, minf := e.f, wr := true, hist := e :: st.hist }
      else enter O A c { st with nev := st.nev + 1, minf := e.f, wr := true, hist := e :: st.hist } e.stuck := by
  unfold step; rw [h]

theorem step_other {O : Ord} {A : Arith} {c : Cfg} {st : St} {e : Ev} (h : st.ph ≠ .first) :
    step O A c st e = match verdict c st e with
      | some r => fin r (record st e)
      | none => post O A c (record st e) e := by
  unfold step; split
  · contradiction
  · rfl

theorem upd_first {st : St} {e : Ev} (h : st.ph = .first) :
    upd st e = { st with nev := st.nev + 1, minf := e.f, wr := true, hist := e :: st.hist } := by
  unfold upd; rw [h]

theorem upd_other {st : St} {e : Ev} (h : st.ph ≠ .first) : upd st e = record st e := by
  unfold upd; split
  · contradiction
  · rfl

theorem stopCode_first {c : Cfg} {st : St} {e : Ev} (h : st.ph = .first) :
    stopCode c st e = if e.forced then some (-5) else if F64.lt e.f c.s.minfMax then some 2
      else if c.evalsStop (st.nev + 1) then some 5 else none := by
  unfold stopCode; rw [h]

theorem stopCode_other {c : Cfg} {st : St} {e : Ev} (h : st.ph ≠ .first) : stopCode c st e = verdict c st e := by
  unfold stopCode; split
  · contradiction
  · rfl

/-- One evaluation: either a stop code fires and the driver returns `upd st e` with it; or no stop code fires and the
    driver goes on with the counter / incumbent of `upd st e`, or returns them with 3, 4 or -1. -/
theorem step_out (O : Ord) (A : Arith) (c : Cfg) (st : St) (e : Ev) :
    (∃ k, stopCode c st e = some k ∧ step O A c st e = .done (resOf k (upd st e))) ∨
    (stopCode c st e = none ∧ Framed (upd st e) (fun k => k = 3 ∨ k = 4 ∨ k = -1) (step O A c st e)) := by
  by_cases hp : st.ph = .first
  · -- the wrapper's first evaluation
    rw [step_first hp, stopCode_first hp, upd_first hp]
    by_cases h1 : e.forced = true
    · left; exact ⟨-5, by simp [h1], by simp [h1, fin_eq]⟩
    · by_cases h2 : F64.lt e.f c.s.minfMax = true
      · left; exact ⟨2, by simp [h1, h2], by simp [h1, h2, fin_eq]⟩
      · by_cases h3 : c.evalsStop (st.nev + 1) = true
        · left; exact ⟨5, by simp [h1, h2, h3], by simp [h1, h2, h3, fin_eq]⟩
        · right
          refine ⟨by simp [h1, h2, h3], ?_⟩
          simp only [h1, h2, h3, if_false, Bool.false_eq_true]
          refine (enter_framed O A c _ e.stuck).mono ?_
          intro k hk
          rcases hk with h | h | h | ⟨_, h⟩
          · exact Or.inl h
          · exact Or.inr (Or.inl h)
          · exact Or.inr (Or.inr h)
          · exact absurd h h2
  · rw [step_other hp, stopCode_other hp, upd_other hp]
    cases hv : verdict c st e with
    | some k => left; exact ⟨k, rfl, by simp [fin_eq]⟩
    | none => right; exact ⟨rfl, post_framed O A c _ e⟩

/-! ## runs -/

theorem go_append (O : Ord) (A : Arith) (c : Cfg) (a b : List Ev) (st : St) :
    go O A c st (a ++ b) = match go O A c st a with | .done r => .done r | .cont st' => go O A c st' b := by
  induction a generalizing st with
  | nil => simp [go]
  | cons e es ih =>
    simp only [List.cons_append, go]
    cases step O A c st e with
    | done r => rfl
    | cont st' => exact ih st'

theorem runOut_append (O : Ord) (A : Arith) (c : Cfg) (a b : List Ev) :
    runOut O A c (a ++ b) = match runOut O A c a with | .done r => .done r | .cont st' => go O A c st' b := by
  unfold runOut
  cases start O A c with
  | done r => rfl
  | cont st => exact go_append O A c a b st

/-- a run that has returned is not changed by further events -/
theorem runOut_append_done (O : Ord) (A : Arith) (c : Cfg) (a b : List Ev) (r : Res) (h : runOut O A c a = .done r) :
    runOut O A c (a ++ b) = .done r := by
  rw [runOut_append, h]

/-- The invariant principle.  `P seen st`: invariant of the waiting states (`seen` = the events consumed so far);
    `Q seen r`: what is claimed about a result returned after the events `seen`. -/
theorem go_inv (O : Ord) (A : Arith) (c : Cfg) (P : List Ev → St → Prop) (Q : List Ev → Res → Prop)
    (hc : ∀ seen st e st', P seen st → step O A c st e = .cont st' → P (seen ++ [e]) st')
    (hd : ∀ seen st e r, P seen st → step O A c st e = .done r → Q (seen ++ [e]) r) :
    ∀ (evs seen : List Ev) (st : St), P seen st →
      match go O A c st evs with
      | .cont st' => P (seen ++ evs) st'
      | .done r => ∃ k, k < evs.length ∧ Q (seen ++ evs.take (k + 1)) r := by
  intro evs
  induction evs with
  | nil => intro seen st h; simpa [go] using h
  | cons e es ih =>
    intro seen st h
    simp only [go]
    cases hs : step O A c st e with
    | done r =>
      exact ⟨0, by simp, by simpa using hd seen st e r h hs⟩
    | cont st' =>
      have h' := ih (seen ++ [e]) st' (hc seen st e st' h hs)
      simp only []
      cases hg : go O A c st' es with
      | cont st'' => rw [hg] at h'; simpa using h'
      | done r =>
        rw [hg] at h'
        obtain ⟨k, hk, hq⟩ := h'
        exact ⟨k + 1, by simp; omega, by simpa using hq⟩

theorem run_inv (O : Ord) (A : Arith) (c : Cfg) (P : List Ev → St → Prop) (Q : List Ev → Res → Prop)
    (h0 : ∀ st, start O A c = .cont st → P [] st)
    (h0d : ∀ r, start O A c = .done r → Q [] r)
    (hc : ∀ seen st e st', P seen st → step O A c st e = .cont st' → P (seen ++ [e]) st')
    (hd : ∀ seen st e r, P seen st → step O A c st e = .done r → Q (seen ++ [e]) r) (evs : List Ev) :
    match runOut O A c evs with
    | .cont st' => P evs st'
    | .done r => ∃ k, k ≤ evs.length ∧ Q (evs.take k) r := by
  unfold runOut
  cases hs : start O A c with
  | done r => exact ⟨0, by simp, by simpa using h0d r hs⟩
  | cont st =>
    have := go_inv O A c P Q hc hd evs [] st (h0 st hs)
    simp only []
    cases hg : go O A c st evs with
    | cont st' => rw [hg] at this; simpa using this
    | done r =>
      rw [hg] at this
      obtain ⟨k, hk, hq⟩ := this
      exact ⟨k + 1, by omega, by simpa using hq⟩

/-! ## consequences of `step_out` in the shape the property proofs use -/

theorem step_cont {O : Ord} {A : Arith} {c : Cfg} {st st' : St} {e : Ev} (h : step O A c st e = .cont st') :
    stopCode c st e = none ∧ Same (upd st e) st' ∧ st'.ph ≠ .first := by
  rcases step_out O A c st e with ⟨k, _, hk⟩ | ⟨hn, hf⟩
  · rw [h] at hk; cases hk
  · rw [h] at hf; exact ⟨hn, hf.1, hf.2⟩

theorem step_done {O : Ord} {A : Arith} {c : Cfg} {st : St} {e : Ev} {r : Res} (h : step O A c st e = .done r) :
    ∃ k, r = resOf k (upd st e) ∧
      (stopCode c st e = some k ∨ (stopCode c st e = none ∧ (k = 3 ∨ k = 4 ∨ k = -1))) := by
  rcases step_out O A c st e with ⟨k, hs, hk⟩ | ⟨hn, hf⟩
  · rw [h] at hk; exact ⟨k, by injection hk, Or.inl hs⟩
  · rw [h] at hf
    obtain ⟨k, hk, hr⟩ := hf
    exact ⟨k, hr, Or.inr ⟨hn, hk⟩⟩

theorem upd_nev (st : St) (e : Ev) : (upd st e).nev = st.nev + 1 := by
  unfold upd record; split
  · rfl
  · split <;> rfl

theorem upd_wr (st : St) (e : Ev) : (upd st e).wr = (st.wr || decide (st.ph = .first)) := by
  by_cases h : st.ph = .first
  · rw [upd_first h]; simp [h]
  · rw [upd_other h]; unfold record; split <;> simp [h]

/-- no stop code: the evaluation was not a forced one and the evaluation limit is not reached -/
theorem stopCode_none {c : Cfg} {st : St} {e : Ev} (h : stopCode c st e = none) :
    e.forced = false ∧ c.evalsStop (st.nev + 1) = false := by
  by_cases hp : st.ph = .first
  · rw [stopCode_first hp] at h
    cases hf : e.forced <;> cases h2 : F64.lt e.f c.s.minfMax <;> cases h3 : c.evalsStop (st.nev + 1) <;>
      simp [hf, h2, h3] at h ⊢
  · rw [stopCode_other hp] at h
    unfold verdict at h
    cases hf : e.forced <;> cases h2 : (F64.le e.f st.minf && F64.lt e.f c.s.minfMax) <;>
      cases h3 : c.evalsStop (st.nev + 1) <;> simp [hf, h2, h3] at h ⊢

theorem stopCode_forced {c : Cfg} {st : St} {e : Ev} (h : e.forced = true) : stopCode c st e = some (-5) := by
  by_cases hp : st.ph = .first
  · rw [stopCode_first hp]; simp [h]
  · rw [stopCode_other hp]; unfold verdict; simp [h]

theorem stopCode_some {c : Cfg} {st : St} {e : Ev} {k : Int} (h : stopCode c st e = some k) :
    (k = -5 ∧ e.forced = true) ∨
    (k = 2 ∧ e.forced = false ∧ F64.lt e.f c.s.minfMax = true ∧ (st.ph ≠ .first → F64.le e.f st.minf = true)) ∨
    (k = 5 ∧ e.forced = false ∧ c.evalsStop (st.nev + 1) = true) := by
  by_cases hp : st.ph = .first
  · rw [stopCode_first hp] at h
    cases hf : e.forced <;> cases h2 : F64.lt e.f c.s.minfMax <;> cases h3 : c.evalsStop (st.nev + 1) <;>
      simp [hf, h2, h3] at h <;> simp [← h, hp]
  · rw [stopCode_other hp] at h
    unfold verdict at h
    cases hf : e.forced <;> cases h1 : F64.le e.f st.minf <;> cases h2 : F64.lt e.f c.s.minfMax <;>
      cases h3 : c.evalsStop (st.nev + 1) <;> simp [hf, h1, h2, h3] at h <;> simp [← h]

end Nlopt.NmDrv
