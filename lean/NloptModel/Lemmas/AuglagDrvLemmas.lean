import NloptModel.Model.AuglagDriver
import NloptModel.Lemmas.F64Order
/-! Helper lemmas about the AUGLAG driver model (`Nlopt.AuglagDrv`): the induction principle of the outer loop, the case
    analysis of one event (`stepInit` / `stepSub` / `stepEval`), running a prefix (`advance`), and the invariant that ties
    the driver's memory (`x`, `*minf`, `minf_penalty`, `minf_feasible`) to the log of processed own evaluations. -/
set_option linter.unusedSimpArgs false
set_option linter.unusedVariables false
namespace Nlopt.AuglagDrv
open Nlopt

/-! ## order facts -/

theorem lt_trans' {a b c : F64} (h1 : F64.lt a b = true) (h2 : F64.lt b c = true) : F64.lt a c = true := by
  simp [F64.lt] at *
  obtain ⟨⟨ha, _⟩, hab⟩ := h1
  obtain ⟨⟨_, hc⟩, hbc⟩ := h2
  exact ⟨⟨ha, hc⟩, by omega⟩

/-- if `b` is not below `m` and `a` is below `m`, then `b` is not below `a` -/
theorem not_lt_of_lt_of_not_lt {a b m : F64} (h1 : F64.lt a m = true) (h2 : F64.lt b m = false) : F64.lt b a = false := by
  cases h : F64.lt b a with
  | false => rfl
  | true => rw [lt_trans' h h1] at h2; cases h2

theorem evals_zero (m : Int) : Stop.evals m ((0 : Nat) : Int) = false := by
  simp [Stop.evals]

/-! ## the loop -/

/-- Induction principle of `go`: a predicate on (consumed events, phase, memory) that survives every event after which
    the loop goes on holds when the events run out, or holds just before the event that ends the run. -/
theorem go_induct (A : Arith) (c : Cfg) (P : List Ev → Phase → St → Prop)
    (hp : ∀ done ph s e ph' s', P done ph s → step A c ph s e = .cont ph' s' → P (done ++ [e]) ph' s') :
    ∀ (evs done : List Ev) (ph : Phase) (s : St), P done ph s →
      (∃ ph' s', P (done ++ evs) ph' s' ∧ go A c ph s evs = s'.res 0 true false) ∨
      (∃ pre e rest php sp, evs = pre ++ e :: rest ∧ P (done ++ pre) php sp ∧
        ((∃ r s', step A c php sp e = .done r s' ∧ go A c ph s evs = s'.res r false false) ∨
         (step A c php sp e = .bad ∧ go A c ph s evs = sp.res 0 false true))) := by
  intro evs
  induction evs with
  | nil => intro done ph s h; exact Or.inl ⟨ph, s, by simpa using h, rfl⟩
  | cons e es ih =>
    intro done ph s h
    cases hv : step A c ph s e with
    | done r s' =>
      refine Or.inr ⟨[], e, es, ph, s, rfl, by simpa using h, Or.inl ⟨r, s', hv, ?_⟩⟩
      simp [go, hv]
    | bad =>
      refine Or.inr ⟨[], e, es, ph, s, rfl, by simpa using h, Or.inr ⟨hv, ?_⟩⟩
      simp [go, hv]
    | cont ph' s' =>
      have h1 := hp done ph s e ph' s' h hv
      have hgo : go A c ph s (e :: es) = go A c ph' s' es := by simp [go, hv]
      rcases ih (done ++ [e]) ph' s' h1 with ⟨ph2, s2, hs', hg⟩ | ⟨pre, e', rest, php, sp, hes, hP, hfin⟩
      · exact Or.inl ⟨ph2, s2, by simpa using hs', by rw [hgo, hg]⟩
      · refine Or.inr ⟨e :: pre, e', rest, php, sp, by simp [hes], by simpa using hP, ?_⟩
        rcases hfin with ⟨r, s2, h2, h3⟩ | ⟨h2, h3⟩
        · exact Or.inl ⟨r, s2, h2, by rw [hgo, h3]⟩
        · exact Or.inr ⟨h2, by rw [hgo, h3]⟩

/-! ## one event -/

theorem loopTop_cases (c : Cfg) (s : St) :
    (Stop.evals c.stop.maxeval (s.nev : Int) = true ∧ loopTop c s = .done 5 s) ∨
    (Stop.evals c.stop.maxeval (s.nev : Int) = false ∧ loopTop c s = .cont .sub s) := by
  unfold loopTop
  cases h : Stop.evals c.stop.maxeval (s.nev : Int) <;> simp

/-- the three outcomes of the own evaluation before the loop -/
theorem stepInit_cases (A : Arith) (c : Cfg) (s : St) (e : Ev) :
    (e.xv ≠ s.x ∧ stepInit A c s e = .bad) ∨
    (e.xv = s.x ∧ cbStop c e.stopNo = true ∧
      stepInit A c s e = .done (-5) { s with nev := s.nev + 1, cnt := s.cnt + 1 }) ∨
    (e.xv = s.x ∧ cbStop c e.stopNo = false ∧ Stop.evals c.stop.maxeval ((s.nev + 1 : Nat) : Int) = true ∧
      stepInit A c s e = .done 5 (procInit A c s e)) ∨
    (e.xv = s.x ∧ cbStop c e.stopNo = false ∧ Stop.evals c.stop.maxeval ((s.nev + 1 : Nat) : Int) = false ∧
      stepInit A c s e = .cont .sub (procInit A c s e)) := by
  unfold stepInit
  by_cases hx : e.xv ≠ s.x
  · exact Or.inl ⟨hx, by simp [hx]⟩
  · have hx' : e.xv = s.x := by simpa using hx
    rw [if_neg hx]
    cases hcb : cbStop c e.stopNo with
    | true => exact Or.inr (Or.inl ⟨hx', rfl, by simp⟩)
    | false =>
      simp only [Bool.false_eq_true, if_false]
      rcases loopTop_cases c (procInit A c s e) with ⟨h1, h2⟩ | ⟨h1, h2⟩
      · exact Or.inr (Or.inr (Or.inl ⟨hx', by trivial, by simpa [procInit] using h1, h2⟩))
      · exact Or.inr (Or.inr (Or.inr ⟨hx', by trivial, by simpa [procInit] using h1, h2⟩))

/-- the memory after a subsidiary run -/
def afterSub (c : Cfg) (s : St) (used : Nat) (forced : Bool) : St :=
  { s with nev := s.nev + used, cnt := s.cnt + 1, flag := s.flag || forced
           subs := s.subs ++ [(c.stop.maxeval - (s.nev : Int), used)] }

theorem stepSub_cases (c : Cfg) (s : St) (ret : Int) (x : List F64) (used : Nat) (forced : Bool) :
    (ret < 0 ∧ ret ≠ -4 ∧ stepSub c s ret x used forced = .done ret (afterSub c s used forced)) ∨
    (¬ (ret < 0 ∧ ret ≠ -4) ∧ stepSub c s ret x used forced = .cont (.eval ret x) (afterSub c s used forced)) := by
  unfold stepSub afterSub
  by_cases h : ret < 0 ∧ ret ≠ -4
  · exact Or.inl ⟨h.1, h.2, by simp [h]⟩
  · exact Or.inr ⟨h, by simp [h]⟩

theorem acceptRet_cases (A : Arith) (c : Cfg) (s : St) (x : List F64) (f : F64) (feas : Bool) :
    acceptRet A c s x f feas = 1 ∨
    (acceptRet A c s x f feas = 2 ∧ feas = true ∧ F64.lt f c.stop.minfMax = true) ∨
    (acceptRet A c s x f feas = 3 ∧ feas = true) ∨ (acceptRet A c s x f feas = 4 ∧ feas = true) := by
  unfold acceptRet
  cases feas with
  | false => simp
  | true =>
    simp only [if_true]
    by_cases h1 : F64.lt f c.stop.minfMax = true
    · simp [h1]
    · simp only [h1, Bool.false_eq_true, if_false]
      by_cases h2 : Stop.ftol A c.stop f s.minf = true
      · simp [h2]
      · simp only [h2, Bool.false_eq_true, if_false]
        by_cases h3 : Stop.x A c.stop x s.x = true
        · simp [h3]
        · simp [h3]

theorem accRet_cases (A : Arith) (c : Cfg) (s : St) (e : Ev) :
    accRet A c s e = 1 ∨
    (accepts s (e.pf A c) e.fv = true ∧ e.feas A c = true ∧
      ((accRet A c s e = 2 ∧ F64.lt e.fv c.stop.minfMax = true) ∨ accRet A c s e = 3 ∨ accRet A c s e = 4)) := by
  unfold accRet
  cases hacc : accepts s (e.pf A c) e.fv with
  | false => simp
  | true =>
    simp only [if_true]
    rcases acceptRet_cases A c s e.xv e.fv (e.feas A c) with h | ⟨h, hf, hl⟩ | ⟨h, hf⟩ | ⟨h, hf⟩
    · exact Or.inl h
    · exact Or.inr ⟨by trivial, hf, Or.inl ⟨h, hl⟩⟩
    · exact Or.inr ⟨by trivial, hf, Or.inr (Or.inl h)⟩
    · exact Or.inr ⟨by trivial, hf, Or.inr (Or.inr h)⟩

theorem verdict_none {A : Arith} {c : Cfg} {s : St} {sret : Int} {e : Ev} (h : verdict A c s sret e = none) :
    accRet A c s e = 1 ∧ effStop s e = 0 ∧ sret ≠ -4 ∧ Stop.evals c.stop.maxeval ((s.nev + 1 : Nat) : Int) = false ∧
      F64.feq (mult A c s e).1 F64.zero = false := by
  unfold verdict at h
  by_cases h1 : accRet A c s e ≠ 1
  · rw [if_pos h1] at h; cases h
  · rw [if_neg h1] at h
    by_cases h2 : effStop s e ≠ 0
    · rw [if_pos h2] at h; cases h
    · rw [if_neg h2] at h
      by_cases h3 : sret = -4
      · rw [if_pos h3] at h; cases h
      · rw [if_neg h3] at h
        by_cases h4 : Stop.evals c.stop.maxeval ((s.nev + 1 : Nat) : Int) = true
        · rw [if_pos h4] at h; cases h
        · rw [if_neg h4] at h
          by_cases h5 : F64.feq (mult A c s e).1 F64.zero = true
          · rw [if_pos h5] at h; cases h
          · exact ⟨by simpa using h1, by simpa using h2, h3, by simpa using h4, by simpa using h5⟩

/-- why a loop pass ends the run -/
theorem verdict_some {A : Arith} {c : Cfg} {s : St} {sret : Int} {e : Ev} {r : Int} (h : verdict A c s sret e = some r) :
    (r = accRet A c s e ∧ accRet A c s e ≠ 1) ∨
    (accRet A c s e = 1 ∧
      ((r = -5 ∧ effStop s e ≠ 0) ∨
       (r = -4 ∧ effStop s e = 0 ∧ sret = -4) ∨
       (r = 5 ∧ effStop s e = 0 ∧ sret ≠ -4 ∧ Stop.evals c.stop.maxeval ((s.nev + 1 : Nat) : Int) = true) ∨
       (r = 3 ∧ effStop s e = 0 ∧ sret ≠ -4 ∧ Stop.evals c.stop.maxeval ((s.nev + 1 : Nat) : Int) = false ∧
         F64.feq (mult A c s e).1 F64.zero = true))) := by
  unfold verdict at h
  by_cases h1 : accRet A c s e ≠ 1
  · rw [if_pos h1] at h; cases h; exact Or.inl ⟨rfl, h1⟩
  · rw [if_neg h1] at h
    refine Or.inr ⟨by simpa using h1, ?_⟩
    by_cases h2 : effStop s e ≠ 0
    · rw [if_pos h2] at h; cases h; exact Or.inl ⟨rfl, h2⟩
    · rw [if_neg h2] at h
      have h2' : effStop s e = 0 := by simpa using h2
      by_cases h3 : sret = -4
      · rw [if_pos h3] at h; cases h; exact Or.inr (Or.inl ⟨rfl, h2', h3⟩)
      · rw [if_neg h3] at h
        by_cases h4 : Stop.evals c.stop.maxeval ((s.nev + 1 : Nat) : Int) = true
        · rw [if_pos h4] at h; cases h; exact Or.inr (Or.inr (Or.inl ⟨rfl, h2', h3, h4⟩))
        · rw [if_neg h4] at h
          by_cases h5 : F64.feq (mult A c s e).1 F64.zero = true
          · rw [if_pos h5] at h; cases h
            exact Or.inr (Or.inr (Or.inr ⟨rfl, h2', h3, by simpa using h4, h5⟩))
          · rw [if_neg h5] at h; cases h

/-- the outcomes of an own evaluation of the loop -/
theorem stepEval_cases (A : Arith) (c : Cfg) (s : St) (sret : Int) (xcur : List F64) (e : Ev) :
    (e.xv ≠ xcur ∧ stepEval A c s sret xcur e = .bad) ∨
    (e.xv = xcur ∧ cbStop c (effStop s e) = true ∧
      stepEval A c s sret xcur e = .done (-5) { s with nev := s.nev + 1, cnt := s.cnt + 1 }) ∨
    (e.xv = xcur ∧ cbStop c (effStop s e) = false ∧ ∃ r, verdict A c s sret e = some r ∧
      stepEval A c s sret xcur e = .done r (proc A c s e)) ∨
    (e.xv = xcur ∧ cbStop c (effStop s e) = false ∧ verdict A c s sret e = none ∧
      stepEval A c s sret xcur e = .cont .sub (proc A c s e)) := by
  unfold stepEval
  by_cases hx : e.xv ≠ xcur
  · exact Or.inl ⟨hx, by simp [hx]⟩
  · have hx' : e.xv = xcur := by simpa using hx
    rw [if_neg hx]
    cases hcb : cbStop c (effStop s e) with
    | true => exact Or.inr (Or.inl ⟨hx', rfl, by simp⟩)
    | false =>
      simp only [Bool.false_eq_true, if_false]
      cases hv : verdict A c s sret e with
      | some r => exact Or.inr (Or.inr (Or.inl ⟨hx', by trivial, r, rfl, rfl⟩))
      | none => exact Or.inr (Or.inr (Or.inr ⟨hx', by trivial, rfl, rfl⟩))

/-! ## running a prefix -/

/-- consume a list of events as long as the loop goes on -/
def advance (A : Arith) (c : Cfg) : Phase → St → List Ev → Option (Phase × St)
  | ph, s, [] => some (ph, s)
  | ph, s, e :: es =>
    match step A c ph s e with
    | .cont ph' s' => advance A c ph' s' es
    | _ => none

/-- a `short` run consumed all its events with the loop going on, and goes on from there -/
theorem go_short_advance (A : Arith) (c : Cfg) : ∀ (pre : List Ev) (ph : Phase) (s : St),
    (go A c ph s pre).short = true →
    ∃ ph' s', advance A c ph s pre = some (ph', s') ∧ go A c ph s pre = s'.res 0 true false ∧
      ∀ rest, go A c ph s (pre ++ rest) = go A c ph' s' rest := by
  intro pre
  induction pre with
  | nil => intro ph s _; exact ⟨ph, s, rfl, rfl, fun _ => rfl⟩
  | cons e es ih =>
    intro ph s h
    cases hv : step A c ph s e with
    | done r s' => simp [go, hv, St.res] at h
    | bad => simp [go, hv, St.res] at h
    | cont ph1 s1 =>
      simp only [go, hv] at h
      obtain ⟨ph', s', h1, h2, h3⟩ := ih ph1 s1 h
      exact ⟨ph', s', by simp [advance, hv, h1], by simp [go, hv, h2], fun rest => by simp [go, hv, h3]⟩

/-! ## field lemmas -/

@[simp] theorem proc_log (A : Arith) (c : Cfg) (s : St) (e : Ev) : (proc A c s e).log = s.log ++ [e] := rfl
@[simp] theorem proc_nev (A : Arith) (c : Cfg) (s : St) (e : Ev) : (proc A c s e).nev = s.nev + 1 := rfl
@[simp] theorem proc_cnt (A : Arith) (c : Cfg) (s : St) (e : Ev) : (proc A c s e).cnt = s.cnt + 1 := rfl
@[simp] theorem proc_subs (A : Arith) (c : Cfg) (s : St) (e : Ev) : (proc A c s e).subs = s.subs := rfl
@[simp] theorem proc_icm (A : Arith) (c : Cfg) (s : St) (e : Ev) : (proc A c s e).icm = (mult A c s e).1 := rfl
@[simp] theorem procInit_log (A : Arith) (c : Cfg) (s : St) (e : Ev) : (procInit A c s e).log = s.log ++ [e] := rfl
@[simp] theorem procInit_nev (A : Arith) (c : Cfg) (s : St) (e : Ev) : (procInit A c s e).nev = s.nev + 1 := rfl
@[simp] theorem procInit_cnt (A : Arith) (c : Cfg) (s : St) (e : Ev) : (procInit A c s e).cnt = s.cnt + 1 := rfl
@[simp] theorem procInit_subs (A : Arith) (c : Cfg) (s : St) (e : Ev) : (procInit A c s e).subs = s.subs := rfl
@[simp] theorem procInit_x (A : Arith) (c : Cfg) (s : St) (e : Ev) : (procInit A c s e).x = s.x := rfl
@[simp] theorem procInit_minf (A : Arith) (c : Cfg) (s : St) (e : Ev) : (procInit A c s e).minf = e.fv := rfl
@[simp] theorem afterSub_log (c : Cfg) (s : St) (u : Nat) (f : Bool) : (afterSub c s u f).log = s.log := rfl
@[simp] theorem afterSub_nev (c : Cfg) (s : St) (u : Nat) (f : Bool) : (afterSub c s u f).nev = s.nev + u := rfl
@[simp] theorem afterSub_cnt (c : Cfg) (s : St) (u : Nat) (f : Bool) : (afterSub c s u f).cnt = s.cnt + 1 := rfl
@[simp] theorem afterSub_x (c : Cfg) (s : St) (u : Nat) (f : Bool) : (afterSub c s u f).x = s.x := rfl
@[simp] theorem afterSub_minf (c : Cfg) (s : St) (u : Nat) (f : Bool) : (afterSub c s u f).minf = s.minf := rfl
@[simp] theorem afterSub_subs (c : Cfg) (s : St) (u : Nat) (f : Bool) :
    (afterSub c s u f).subs = s.subs ++ [(c.stop.maxeval - (s.nev : Int), u)] := rfl
@[simp] theorem afterSub_flag (c : Cfg) (s : St) (u : Nat) (f : Bool) : (afterSub c s u f).flag = (s.flag || f) := rfl

/-! ## the incumbent rule -/

theorem accepts_false {s : St} {pf : PF} {f : F64} (h : accepts s pf f = false) :
    (pf.2 = true → s.mfeas = true ∧ F64.lt pf.1 s.mpen = false ∧ F64.lt f s.minf = false) ∧
    (s.mfeas = false → F64.lt pf.1 s.mpen = false) := by
  unfold accepts at h
  revert h
  cases pf.2 <;> cases s.mfeas <;> cases F64.lt pf.1 s.mpen <;> cases F64.lt f s.minf <;> simp

theorem accepts_true {s : St} {pf : PF} {f : F64} (h : accepts s pf f = true) :
    (s.mfeas = true → pf.2 = true ∧ (F64.lt pf.1 s.mpen = true ∨ F64.lt f s.minf = true)) ∧
    (pf.2 = false → s.mfeas = false ∧ F64.lt pf.1 s.mpen = true) := by
  unfold accepts at h
  revert h
  cases pf.2 <;> cases s.mfeas <;> cases F64.lt pf.1 s.mpen <;> cases F64.lt f s.minf <;> simp

/-- a feasible point is always accepted while the incumbent is not feasible -/
theorem accepts_of_feas {s : St} {pf : PF} {f : F64} (h1 : pf.2 = true) (h2 : s.mfeas = false) : accepts s pf f = true := by
  simp [accepts, h1, h2]

/-- without penalised constraints every own evaluation is "feasible" with penalty `+0` -/
theorem pf_unconstrained {A : Arith} {c : Cfg} (h : constrained c = false) (e : Ev) : e.pf A c = (F64.zero, true) := by
  have h' : c.htol.length + c.gtol.length = 0 := by
    unfold constrained ncb at h
    have := of_decide_eq_false h
    omega
  have h1 : c.htol = [] := List.eq_nil_of_length_eq_zero (by omega)
  have h2 : c.gtol = [] := List.eq_nil_of_length_eq_zero (by omega)
  simp [Ev.pf, penFeas, h1, h2, objs]

/-- **The incumbent invariant.**  Nothing processed yet and the memory is the initial one, or the memory is the data of
    one processed own evaluation `e` of the log, and:
    (1) if any processed evaluation is feasible, `e` is feasible;
    (2) if `e` is feasible, no feasible evaluation processed AFTER `e` has a smaller penalty or a smaller value;
    (3) if `e` is not feasible, no processed evaluation (before or after) has a smaller penalty. -/
def Inc (A : Arith) (c : Cfg) (s : St) : Prop :=
  (s.log = [] ∧ s.x = c.x0 ∧ s.minf = F64.posInf ∧ s.mpen = F64.posInf ∧ s.mfeas = false) ∨
  (∃ l1 e l2, s.log = l1 ++ e :: l2 ∧ s.x = e.xv ∧ s.minf = e.fv ∧ s.mpen = e.pen A c ∧ s.mfeas = e.feas A c ∧
    (∀ e' ∈ s.log, e'.feas A c = true → e.feas A c = true) ∧
    (e.feas A c = true → ∀ e' ∈ l2, e'.feas A c = true →
      F64.lt (e'.pen A c) (e.pen A c) = false ∧ F64.lt e'.fv e.fv = false) ∧
    (e.feas A c = false → ∀ e' ∈ s.log, F64.lt (e'.pen A c) (e.pen A c) = false))

theorem inc_init (A : Arith) (c : Cfg) : Inc A c (St.init c) := Or.inl ⟨rfl, rfl, rfl, rfl, rfl⟩

/-- the own evaluation before the loop is recorded unconditionally (the caller's `x` already holds the point) -/
theorem inc_procInit {A : Arith} {c : Cfg} {s : St} {e : Ev} (hl : s.log = []) (hx : e.xv = s.x) :
    Inc A c (procInit A c s e) := by
  refine Or.inr ⟨[], e, [], by simp [hl], by simp [hx], rfl, rfl, rfl, ?_, ?_, ?_⟩
  · intro e' he'; simp [hl] at he'; subst he'; exact id
  · intro _ e' he'; simp at he'
  · intro _ e' he'; simp [hl] at he'; subst he'; exact F64.lt_irrefl' _

/-- the incumbent invariant survives every processed own evaluation of the loop -/
theorem inc_proc {A : Arith} {c : Cfg} {s : St} {e : Ev} (h : Inc A c s) (hu : s.log = [] → constrained c = false) :
    Inc A c (proc A c s e) := by
  rcases h with ⟨hl, hx, hm, hp, hf⟩ | ⟨l1, e0, l2, hl, hx, hm, hp, hf, h1, h2, h3⟩
  · -- first processed evaluation, no penalised constraints: accepted
    have hpf := pf_unconstrained (A := A) (hu hl) e
    have hacc : accepts s (e.pf A c) e.fv = true := accepts_of_feas (by rw [hpf]) hf
    refine Or.inr ⟨[], e, [], by simp [hl], by simp [proc, hacc], by simp [proc, hacc], by simp [proc, hacc],
      by simp [proc, hacc], ?_, ?_, ?_⟩
    · intro e' he'; simp [hl] at he'; subst he'; exact id
    · intro _ e' he'; simp at he'
    · intro _ e' he'; simp [hl] at he'; subst he'; exact F64.lt_irrefl' _
  · cases hacc : accepts s (e.pf A c) e.fv with
    | true =>
      obtain ⟨ha1, ha2⟩ := accepts_true hacc
      refine Or.inr ⟨s.log, e, [], by simp, by simp [proc, hacc], by simp [proc, hacc], by simp [proc, hacc],
        by simp [proc, hacc], ?_, ?_, ?_⟩
      · intro e' he' hfe'
        simp only [proc_log, List.mem_append, List.mem_singleton] at he'
        rcases he' with he' | he'
        · have := h1 e' he' hfe'
          exact (ha1 (by rw [hf]; exact this)).1
        · subst he'; exact hfe'
      · intro _ e' he'; simp at he'
      · intro hfe e' he'
        simp only [proc_log, List.mem_append, List.mem_singleton] at he'
        obtain ⟨hmf, hlt⟩ := ha2 hfe
        rcases he' with he' | he'
        · have h0 : e0.feas A c = false := by rw [← hf]; exact hmf
          have := h3 h0 e' he'
          rw [hp] at hlt
          exact not_lt_of_lt_of_not_lt hlt this
        · subst he'; exact F64.lt_irrefl' _
    | false =>
      obtain ⟨hr1, hr2⟩ := accepts_false hacc
      refine Or.inr ⟨l1, e0, l2 ++ [e], by simp [hl], by simp [proc, hacc, hx], by simp [proc, hacc, hm],
        by simp [proc, hacc, hp], by simp [proc, hacc, hf], ?_, ?_, ?_⟩
      · intro e' he' hfe'
        simp only [proc_log, List.mem_append, List.mem_singleton] at he'
        rcases he' with he' | he'
        · exact h1 e' he' hfe'
        · subst he'; rw [← hf]; exact (hr1 hfe').1
      · intro hf0 e' he' hfe'
        simp only [List.mem_append, List.mem_singleton] at he'
        rcases he' with he' | he'
        · exact h2 hf0 e' he' hfe'
        · subst he'
          obtain ⟨_, hr3, hr4⟩ := hr1 hfe'
          rw [hp] at hr3; rw [hm] at hr4
          exact ⟨hr3, hr4⟩
      · intro hf0 e' he'
        simp only [proc_log, List.mem_append, List.mem_singleton] at he'
        rcases he' with he' | he'
        · exact h3 hf0 e' he'
        · subst he'
          have := hr2 (by rw [hf]; exact hf0)
          rw [hp] at this; exact this

theorem inc_afterSub {A : Arith} {c : Cfg} {s : St} (u : Nat) (f : Bool) (h : Inc A c s) : Inc A c (afterSub c s u f) := h

/-- a forced-stop return from a callback test leaves the incumbent untouched -/
theorem inc_bump {A : Arith} {c : Cfg} {s : St} (h : Inc A c s) :
    Inc A c { s with nev := s.nev + 1, cnt := s.cnt + 1 } := h

/-! ## the best-feasible-point invariant under the tie hypothesis -/

/-- all feasible processed evaluations have "the same" penalty: none is below another (e.g. all `+0`) -/
def TieOn (A : Arith) (c : Cfg) (log : List Ev) : Prop :=
  ∀ e ∈ log, ∀ e' ∈ log, e.feas A c = true → e'.feas A c = true → F64.lt (e.pen A c) (e'.pen A c) = false

/-- once the incumbent is feasible, no feasible processed evaluation has a smaller value -/
def Best (A : Arith) (c : Cfg) (s : St) : Prop :=
  s.mfeas = true → ∀ e' ∈ s.log, e'.feas A c = true → F64.lt e'.fv s.minf = false

theorem tieOn_mono {A : Arith} {c : Cfg} {l : List Ev} {e : Ev} (h : TieOn A c (l ++ [e])) : TieOn A c l :=
  fun a ha b hb => h a (by simp [ha]) b (by simp [hb])

theorem best_procInit {A : Arith} {c : Cfg} {s : St} {e : Ev} (hl : s.log = []) : Best A c (procInit A c s e) := by
  intro _ e' he' _
  simp [hl] at he'; subst he'; exact F64.lt_irrefl' _

theorem best_proc {A : Arith} {c : Cfg} {s : St} {e : Ev} (hi : Inc A c s) (hb : Best A c s)
    (ht : TieOn A c (s.log ++ [e])) : Best A c (proc A c s e) := by
  intro hmf e' he' hfe'
  simp only [proc_log, List.mem_append, List.mem_singleton] at he'
  cases hacc : accepts s (e.pf A c) e.fv with
  | true =>
    have hminf : (proc A c s e).minf = e.fv := by simp [proc, hacc]
    have hfe : e.feas A c = true := by simpa [proc, hacc] using hmf
    rw [hminf]
    rcases he' with he' | he'
    · rcases hi with ⟨hl, _⟩ | ⟨l1, e0, l2, hl, hx, hm, hp, hf, h1, h2, h3⟩
      · rw [hl] at he'; cases he'
      · have hf0 : e0.feas A c = true := h1 e' he' hfe'
        have hsm : s.mfeas = true := by rw [hf]; exact hf0
        obtain ⟨_, hor⟩ := (accepts_true hacc).1 hsm
        have he0 : e0 ∈ s.log := by rw [hl]; simp
        have hno : F64.lt (e.pen A c) s.mpen = false := by
          rw [hp]; exact ht e (by simp) e0 (by simp [he0]) hfe hf0
        rcases hor with hor | hor
        · rw [show (e.pf A c).1 = e.pen A c from rfl, hno] at hor; cases hor
        · exact not_lt_of_lt_of_not_lt hor (hb hsm e' he' hfe')
    · subst he'; exact F64.lt_irrefl' _
  | false =>
    have hminf : (proc A c s e).minf = s.minf := by simp [proc, hacc]
    have hsm : s.mfeas = true := by simpa [proc, hacc] using hmf
    rw [hminf]
    rcases he' with he' | he'
    · exact hb hsm e' he' hfe'
    · subst he'; exact ((accepts_false hacc).1 hfe').2.2

/-! ## the master invariant -/

/-- evaluations of the user's objective made during a list of events -/
def costs (l : List Ev) : Nat := (l.map Ev.cost).sum

theorem costs_append (l1 l2 : List Ev) : costs (l1 ++ l2) = costs l1 + costs l2 := by simp [costs]

/-- what is known about the memory after the events `done` were consumed, whether the loop goes on or not -/
def Core (A : Arith) (c : Cfg) (done : List Ev) (s : St) : Prop :=
  s.cnt = done.length ∧ s.nev = costs done ∧
  (∀ e ∈ s.log, e.isEval = true ∧ cbStop c e.stopNo = false) ∧ Inc A c s ∧
  (c.stop.maxeval > 0 → ∀ p ∈ s.subs, p.1 > 0) ∧
  (∃ rest, done.filter Ev.isEval = s.log ++ rest ∧ rest.length ≤ 1)

/-- ... and while the loop goes on -/
def Inv (A : Arith) (c : Cfg) (done : List Ev) (ph : Phase) (s : St) : Prop :=
  Core A c done s ∧ s.log = done.filter Ev.isEval ∧
  (ph = .init → s = St.init c ∧ constrained c = true) ∧
  (ph ≠ .init → s.log = [] → constrained c = false) ∧
  (ph = .sub → c.stop.maxeval > 0 → (s.nev : Int) < c.stop.maxeval) ∧
  (∀ r xc, ph = .eval r xc → ¬ (r < 0 ∧ r ≠ -4))

theorem inv_start (A : Arith) (c : Cfg) : Inv A c [] (startPhase c) (St.init c) := by
  refine ⟨⟨rfl, rfl, by simp [St.init], inc_init A c, by simp [St.init], [], rfl, by simp⟩, rfl, ?_, ?_, ?_, ?_⟩
  · intro h
    refine ⟨rfl, ?_⟩
    unfold startPhase at h
    cases hc : constrained c with
    | true => rfl
    | false => simp [hc] at h
  · intro h _
    unfold startPhase at h
    cases hc : constrained c with
    | true => simp [hc] at h
    | false => rfl
  · intro _ hm; simpa [St.init] using hm
  · intro r xc h
    unfold startPhase at h
    split at h <;> cases h

theorem evals_false_lt {m : Int} {n : Nat} (h : Stop.evals m (n : Int) = false) (hm : m > 0) : (n : Int) < m := by
  simp [Stop.evals, hm] at h; exact h

theorem cbStop_one (c : Cfg) : cbStop c 1 = true := by simp [cbStop]

/-- a callback test that does not see the flag: the flag was not set before the event -/
theorem effStop_of_not_cb {c : Cfg} {s : St} {e : Ev} (h : cbStop c (effStop s e) = false) :
    s.flag = false ∧ effStop s e = e.stopNo := by
  unfold effStop at h ⊢
  cases hf : s.flag with
  | true => rw [hf] at h; simp [cbStop_one] at h
  | false => simp

theorem filter_snoc_eval (done : List Ev) {e : Ev} (he : e.isEval = true) :
    (done ++ [e]).filter Ev.isEval = done.filter Ev.isEval ++ [e] := by
  simp [List.filter_append, List.filter, he]

theorem filter_snoc_sub (done : List Ev) (r : Int) (x : List F64) (f : F64) (u : Nat) (fo : Bool) :
    (done ++ [Ev.sub r x f u fo]).filter Ev.isEval = done.filter Ev.isEval := by
  simp [List.filter_append, List.filter, Ev.isEval]

theorem core_bump {A : Arith} {c : Cfg} {done : List Ev} {ph : Phase} {s : St} {e : Ev} (h : Inv A c done ph s)
    (he : e.isEval = true) : Core A c (done ++ [e]) { s with nev := s.nev + 1, cnt := s.cnt + 1 } := by
  obtain ⟨⟨hc, hn, hlog, hinc, hb, _⟩, hl, _⟩ := h
  refine ⟨by simp [hc], ?_, hlog, hinc, hb, [e], by rw [filter_snoc_eval done he, hl], by simp⟩
  cases e with
  | eval x f st hs gs => simp [costs_append, hn, costs, Ev.cost]
  | sub r x f u fo => cases he

theorem core_procInit {A : Arith} {c : Cfg} {done : List Ev} {s : St} {e : Ev} (h : Inv A c done .init s)
    (he : e.isEval = true) (hcb : cbStop c e.stopNo = false) (hx : e.xv = s.x) :
    Core A c (done ++ [e]) (procInit A c s e) ∧ (procInit A c s e).log = (done ++ [e]).filter Ev.isEval := by
  obtain ⟨⟨hc, hn, hlog, hinc, hb, _⟩, hl, hi, _⟩ := h
  obtain ⟨hs, _⟩ := hi rfl
  have hl0 : s.log = [] := by rw [hs]; rfl
  have hlf : (procInit A c s e).log = (done ++ [e]).filter Ev.isEval := by
    rw [filter_snoc_eval done he, procInit_log, hl]
  refine ⟨⟨by simp [hc], ?_, ?_, inc_procInit hl0 hx, hb, [], by rw [hlf, List.append_nil], by simp⟩, hlf⟩
  · cases e with
    | eval x f st hs gs => simp [costs_append, hn, costs, Ev.cost]
    | sub r x f u fo => cases he
  · intro e' he'
    simp only [procInit_log, List.mem_append, List.mem_singleton] at he'
    rcases he' with he' | he'
    · exact hlog e' he'
    · subst he'; exact ⟨he, hcb⟩

theorem core_afterSub {A : Arith} {c : Cfg} {done : List Ev} {s : St} (h : Inv A c done .sub s)
    (r : Int) (x : List F64) (f : F64) (u : Nat) (fo : Bool) :
    Core A c (done ++ [Ev.sub r x f u fo]) (afterSub c s u fo) ∧
      (afterSub c s u fo).log = (done ++ [Ev.sub r x f u fo]).filter Ev.isEval := by
  obtain ⟨⟨hc, hn, hlog, hinc, hb, _⟩, hl, _, _, hsub, _⟩ := h
  have hlf : (afterSub c s u fo).log = (done ++ [Ev.sub r x f u fo]).filter Ev.isEval := by
    rw [filter_snoc_sub, afterSub_log, hl]
  refine ⟨⟨by simp [hc], by simp [costs_append, hn, costs, Ev.cost], hlog, hinc, ?_, [], by rw [hlf, List.append_nil], by simp⟩, hlf⟩
  intro hm p hp
  simp only [afterSub_subs, List.mem_append, List.mem_singleton] at hp
  rcases hp with hp | hp
  · exact hb hm p hp
  · subst hp
    have := hsub rfl hm
    simp only []; omega

theorem core_proc {A : Arith} {c : Cfg} {done : List Ev} {s : St} {e : Ev} {r : Int} {xc : List F64}
    (h : Inv A c done (.eval r xc) s) (he : e.isEval = true) (hcb : cbStop c (effStop s e) = false) :
    Core A c (done ++ [e]) (proc A c s e) ∧ (proc A c s e).log = (done ++ [e]).filter Ev.isEval := by
  obtain ⟨⟨hc, hn, hlog, hinc, hb, _⟩, hl, _, hu, _⟩ := h
  have hlf : (proc A c s e).log = (done ++ [e]).filter Ev.isEval := by
    rw [filter_snoc_eval done he, proc_log, hl]
  refine ⟨⟨by simp [hc], ?_, ?_, inc_proc hinc (hu (by simp)), hb, [], by rw [hlf, List.append_nil], by simp⟩, hlf⟩
  · cases e with
    | eval x f st hs gs => simp [costs_append, hn, costs, Ev.cost]
    | sub r x f u fo => cases he
  · intro e' he'
    simp only [proc_log, List.mem_append, List.mem_singleton] at he'
    rcases he' with he' | he'
    · exact hlog e' he'
    · subst he'
      have := (effStop_of_not_cb hcb).2
      rw [this] at hcb
      exact ⟨he, hcb⟩

/-- the invariant survives every event after which the loop goes on -/
theorem inv_step {A : Arith} {c : Cfg} {done : List Ev} {ph : Phase} {s : St} {e : Ev} {ph' : Phase} {s' : St}
    (h : Inv A c done ph s) (hs : step A c ph s e = .cont ph' s') : Inv A c (done ++ [e]) ph' s' := by
  cases ph with
  | init =>
    cases e with
    | sub r x f u fo => simp [step] at hs
    | eval x f st hs' gs =>
      simp only [step] at hs
      rcases stepInit_cases A c s (.eval x f st hs' gs) with ⟨_, h1⟩ | ⟨_, _, h1⟩ | ⟨_, _, _, h1⟩ | ⟨hx, hcb, hev, h1⟩
      · rw [h1] at hs; cases hs
      · rw [h1] at hs; cases hs
      · rw [h1] at hs; cases hs
      · rw [h1] at hs; cases hs
        obtain ⟨hcore, hlf⟩ := core_procInit h rfl hcb hx
        refine ⟨hcore, hlf, by simp, ?_, ?_, by simp⟩
        · intro _ hl; simp at hl
        · intro _ hm; simpa using evals_false_lt hev hm
  | sub =>
    cases e with
    | eval x f st hs' gs => simp [step] at hs
    | sub r x f u fo =>
      simp only [step] at hs
      rcases stepSub_cases c s r x u fo with ⟨_, _, h1⟩ | ⟨hr, h1⟩
      · rw [h1] at hs; cases hs
      · rw [h1] at hs; cases hs
        obtain ⟨hcore, hlf⟩ := core_afterSub h r x f u fo
        refine ⟨hcore, hlf, by simp, ?_, by simp, ?_⟩
        · intro _ hl; exact h.2.2.2.1 (by simp) (by simpa using hl)
        · intro r' xc' he; cases he; exact hr
  | eval sret xcur =>
    cases e with
    | sub r x f u fo => simp [step] at hs
    | eval x f st hs' gs =>
      simp only [step] at hs
      rcases stepEval_cases A c s sret xcur (.eval x f st hs' gs) with ⟨_, h1⟩ | ⟨_, _, h1⟩ | ⟨_, _, _, _, h1⟩ | ⟨hx, hcb, hv, h1⟩
      · rw [h1] at hs; cases hs
      · rw [h1] at hs; cases hs
      · rw [h1] at hs; cases hs
      · rw [h1] at hs; cases hs
        obtain ⟨hcore, hlf⟩ := core_proc h rfl hcb
        refine ⟨hcore, hlf, by simp, ?_, ?_, by simp⟩
        · intro _ hl; simp at hl
        · intro _ hm; simpa using evals_false_lt (verdict_none hv).2.2.2.1 hm

/-- the core invariant holds for the memory handed back by the event that ends the run -/
theorem core_done {A : Arith} {c : Cfg} {done : List Ev} {ph : Phase} {s : St} {e : Ev} {r : Int} {s' : St}
    (h : Inv A c done ph s) (hs : step A c ph s e = .done r s') : Core A c (done ++ [e]) s' := by
  cases ph with
  | init =>
    cases e with
    | sub r x f u fo => simp [step] at hs
    | eval x f st hs' gs =>
      simp only [step] at hs
      rcases stepInit_cases A c s (.eval x f st hs' gs) with ⟨_, h1⟩ | ⟨_, _, h1⟩ | ⟨hx, hcb, _, h1⟩ | ⟨_, _, _, h1⟩
      · rw [h1] at hs; cases hs
      · rw [h1] at hs; cases hs; exact core_bump h rfl
      · rw [h1] at hs; cases hs; exact (core_procInit h rfl hcb hx).1
      · rw [h1] at hs; cases hs
  | sub =>
    cases e with
    | eval x f st hs' gs => simp [step] at hs
    | sub r x f u fo =>
      simp only [step] at hs
      rcases stepSub_cases c s r x u fo with ⟨_, _, h1⟩ | ⟨hr, h1⟩
      · rw [h1] at hs; cases hs; exact (core_afterSub h r x f u fo).1
      · rw [h1] at hs; cases hs
  | eval sret xcur =>
    cases e with
    | sub r x f u fo => simp [step] at hs
    | eval x f st hs' gs =>
      simp only [step] at hs
      rcases stepEval_cases A c s sret xcur (.eval x f st hs' gs) with ⟨_, h1⟩ | ⟨_, _, h1⟩ | ⟨_, hcb, _, _, h1⟩ | ⟨_, _, _, h1⟩
      · rw [h1] at hs; cases hs
      · rw [h1] at hs; cases hs; exact core_bump h rfl
      · rw [h1] at hs; cases hs; exact (core_proc h rfl hcb).1
      · rw [h1] at hs; cases hs

theorem core_of_inv {A : Arith} {c : Cfg} {done : List Ev} {ph : Phase} {s : St} (h : Inv A c done ph s) :
    Core A c done s := h.1

/-! ## the shape of one event, for the theorems -/

/-- the memory after an own evaluation that was cut short by a forced-stop test following a callback -/
def bump (s : St) : St := { s with nev := s.nev + 1, cnt := s.cnt + 1 }

@[simp] theorem bump_log (s : St) : (bump s).log = s.log := rfl
@[simp] theorem bump_nev (s : St) : (bump s).nev = s.nev + 1 := rfl
@[simp] theorem bump_cnt (s : St) : (bump s).cnt = s.cnt + 1 := rfl
@[simp] theorem bump_x (s : St) : (bump s).x = s.x := rfl
@[simp] theorem bump_minf (s : St) : (bump s).minf = s.minf := rfl
@[simp] theorem bump_subs (s : St) : (bump s).subs = s.subs := rfl

/-- an event after which the loop goes on -/
theorem step_cont_shape {A : Arith} {c : Cfg} {ph : Phase} {s : St} {e : Ev} {ph' : Phase} {s' : St}
    (hs : step A c ph s e = .cont ph' s') :
    (ph = .init ∧ ph' = .sub ∧ s' = procInit A c s e ∧ e.isEval = true ∧ e.xv = s.x ∧ cbStop c e.stopNo = false ∧
      Stop.evals c.stop.maxeval ((s.nev + 1 : Nat) : Int) = false) ∨
    (ph = .sub ∧ ∃ r x f u fo, e = Ev.sub r x f u fo ∧ ph' = .eval r x ∧ s' = afterSub c s u fo ∧ ¬ (r < 0 ∧ r ≠ -4)) ∨
    (∃ sret xc, ph = .eval sret xc ∧ ph' = .sub ∧ s' = proc A c s e ∧ e.isEval = true ∧ e.xv = xc ∧
      cbStop c (effStop s e) = false ∧ verdict A c s sret e = none) := by
  cases ph with
  | init =>
    cases e with
    | sub r x f u fo => simp [step] at hs
    | eval x f st hs' gs =>
      simp only [step] at hs
      rcases stepInit_cases A c s (.eval x f st hs' gs) with ⟨_, h1⟩ | ⟨_, _, h1⟩ | ⟨_, _, _, h1⟩ | ⟨hx, hcb, hev, h1⟩
      · rw [h1] at hs; cases hs
      · rw [h1] at hs; cases hs
      · rw [h1] at hs; cases hs
      · rw [h1] at hs; cases hs; exact Or.inl ⟨rfl, rfl, rfl, rfl, hx, hcb, hev⟩
  | sub =>
    cases e with
    | eval x f st hs' gs => simp [step] at hs
    | sub r x f u fo =>
      simp only [step] at hs
      rcases stepSub_cases c s r x u fo with ⟨_, _, h1⟩ | ⟨hr, h1⟩
      · rw [h1] at hs; cases hs
      · rw [h1] at hs; cases hs; exact Or.inr (Or.inl ⟨rfl, r, x, f, u, fo, rfl, rfl, rfl, hr⟩)
  | eval sret xcur =>
    cases e with
    | sub r x f u fo => simp [step] at hs
    | eval x f st hs' gs =>
      simp only [step] at hs
      rcases stepEval_cases A c s sret xcur (.eval x f st hs' gs) with ⟨_, h1⟩ | ⟨_, _, h1⟩ | ⟨_, _, _, _, h1⟩ | ⟨hx, hcb, hv, h1⟩
      · rw [h1] at hs; cases hs
      · rw [h1] at hs; cases hs
      · rw [h1] at hs; cases hs
      · rw [h1] at hs; cases hs; exact Or.inr (Or.inr ⟨sret, xcur, rfl, rfl, rfl, rfl, hx, hcb, hv⟩)

/-- an event that ends the run -/
theorem step_done_shape {A : Arith} {c : Cfg} {ph : Phase} {s : St} {e : Ev} {r : Int} {s' : St}
    (hs : step A c ph s e = .done r s') :
    (ph = .init ∧ e.isEval = true ∧ e.xv = s.x ∧
      ((r = -5 ∧ cbStop c e.stopNo = true ∧ s' = bump s) ∨
       (r = 5 ∧ cbStop c e.stopNo = false ∧ s' = procInit A c s e ∧
         Stop.evals c.stop.maxeval ((s.nev + 1 : Nat) : Int) = true))) ∨
    (ph = .sub ∧ ∃ x f u fo, e = Ev.sub r x f u fo ∧ r < 0 ∧ r ≠ -4 ∧ s' = afterSub c s u fo) ∨
    (∃ sret xc, ph = .eval sret xc ∧ e.isEval = true ∧ e.xv = xc ∧
      ((r = -5 ∧ cbStop c (effStop s e) = true ∧ s' = bump s) ∨
       (cbStop c (effStop s e) = false ∧ verdict A c s sret e = some r ∧ s' = proc A c s e))) := by
  cases ph with
  | init =>
    cases e with
    | sub r x f u fo => simp [step] at hs
    | eval x f st hs' gs =>
      simp only [step] at hs
      rcases stepInit_cases A c s (.eval x f st hs' gs) with ⟨_, h1⟩ | ⟨hx, hcb, h1⟩ | ⟨hx, hcb, hev, h1⟩ | ⟨_, _, _, h1⟩
      · rw [h1] at hs; cases hs
      · rw [h1] at hs; cases hs; exact Or.inl ⟨rfl, rfl, hx, Or.inl ⟨rfl, hcb, rfl⟩⟩
      · rw [h1] at hs; cases hs; exact Or.inl ⟨rfl, rfl, hx, Or.inr ⟨rfl, hcb, rfl, hev⟩⟩
      · rw [h1] at hs; cases hs
  | sub =>
    cases e with
    | eval x f st hs' gs => simp [step] at hs
    | sub r0 x f u fo =>
      simp only [step] at hs
      rcases stepSub_cases c s r0 x u fo with ⟨hr1, hr2, h1⟩ | ⟨hr, h1⟩
      · rw [h1] at hs; cases hs; exact Or.inr (Or.inl ⟨rfl, x, f, u, fo, rfl, hr1, hr2, rfl⟩)
      · rw [h1] at hs; cases hs
  | eval sret xcur =>
    cases e with
    | sub r x f u fo => simp [step] at hs
    | eval x f st hs' gs =>
      simp only [step] at hs
      rcases stepEval_cases A c s sret xcur (.eval x f st hs' gs) with ⟨_, h1⟩ | ⟨hx, hcb, h1⟩ | ⟨hx, hcb, r', hv, h1⟩ | ⟨_, _, _, h1⟩
      · rw [h1] at hs; cases hs
      · rw [h1] at hs; cases hs; exact Or.inr (Or.inr ⟨sret, xcur, rfl, rfl, hx, Or.inl ⟨rfl, hcb, rfl⟩⟩)
      · rw [h1] at hs; cases hs; exact Or.inr (Or.inr ⟨sret, xcur, rfl, rfl, hx, Or.inr ⟨hcb, hv, rfl⟩⟩)
      · rw [h1] at hs; cases hs

/-- an event the driver could not have produced -/
theorem step_bad_shape {A : Arith} {c : Cfg} {ph : Phase} {s : St} {e : Ev} (hs : step A c ph s e = .bad) :
    (ph = .init ∧ (e.isEval = false ∨ e.xv ≠ s.x)) ∨ (ph = .sub ∧ e.isEval = true) ∨
    (∃ sret xc, ph = .eval sret xc ∧ (e.isEval = false ∨ e.xv ≠ xc)) := by
  cases ph with
  | init =>
    cases e with
    | sub r x f u fo => exact Or.inl ⟨rfl, Or.inl rfl⟩
    | eval x f st hs' gs =>
      simp only [step] at hs
      rcases stepInit_cases A c s (.eval x f st hs' gs) with ⟨hx, _⟩ | ⟨_, _, h1⟩ | ⟨_, _, _, h1⟩ | ⟨_, _, _, h1⟩
      · exact Or.inl ⟨rfl, Or.inr hx⟩
      · rw [h1] at hs; cases hs
      · rw [h1] at hs; cases hs
      · rw [h1] at hs; cases hs
  | sub =>
    cases e with
    | eval x f st hs' gs => exact Or.inr (Or.inl ⟨rfl, rfl⟩)
    | sub r0 x f u fo =>
      simp only [step] at hs
      rcases stepSub_cases c s r0 x u fo with ⟨_, _, h1⟩ | ⟨_, h1⟩ <;> rw [h1] at hs <;> cases hs
  | eval sret xcur =>
    cases e with
    | sub r x f u fo => exact Or.inr (Or.inr ⟨sret, xcur, rfl, Or.inl rfl⟩)
    | eval x f st hs' gs =>
      simp only [step] at hs
      rcases stepEval_cases A c s sret xcur (.eval x f st hs' gs) with ⟨hx, _⟩ | ⟨_, _, h1⟩ | ⟨_, _, _, _, h1⟩ | ⟨_, _, _, h1⟩
      · exact Or.inr (Or.inr ⟨sret, xcur, rfl, Or.inr hx⟩)
      · rw [h1] at hs; cases hs
      · rw [h1] at hs; cases hs
      · rw [h1] at hs; cases hs

end Nlopt.AuglagDrv
