import NloptModel.Model.MT
/-!
  Helper lemmas for `Props/C20MT.lean`: array read/write facts, the word-level identities that
  connect the C spelling (`mag01[y & 1]`, wrapping multiplication) with the published one, the
  defining equations of the spec sequence `X`, correctness of the memoised table, and the loop
  invariants of seeding and of the in-place block regeneration.
-/
namespace Nlopt.MT

/-! ## constants (as rewriting rules, `omega` does not unfold `def`s) -/
theorem N_eq : N = 624 := rfl
theorem M_eq : M = 397 := rfl
theorem MTI_UNINIT_OFFSET_eq : MTI_UNINIT_OFFSET = 1 := rfl

/-! ## arrays -/
theorem size_set! (a : Array UInt32) (i : Nat) (v : UInt32) : (a.set! i v).size = a.size := by simp

theorem get_set! (a : Array UInt32) (i j : Nat) (v : UInt32) (hi : i < a.size) :
    (a.set! i v)[j]! = if i = j then v else a[j]! := by
  simp [Array.set!_eq_setIfInBounds, Array.getElem!_eq_getD, Array.getD_eq_getD_getElem?,
    Array.getElem?_setIfInBounds]
  split <;> simp_all

theorem get_set!_eq (a : Array UInt32) (i : Nat) (v : UInt32) (hi : i < a.size) :
    (a.set! i v)[i]! = v := by rw [get_set! a i i v hi]; simp

theorem get_set!_ne (a : Array UInt32) (i j : Nat) (v : UInt32) (hi : i < a.size) (h : i ≠ j) :
    (a.set! i v)[j]! = a[j]! := by rw [get_set! a i j v hi]; simp [h]

theorem get_push_lt (a : Array UInt32) (v : UInt32) (j : Nat) (h : j < a.size) :
    (a.push v)[j]! = a[j]! := by
  have hne : j ≠ a.size := by omega
  simp [Array.getElem!_eq_getD, Array.getD_eq_getD_getElem?, Array.getElem?_push, hne]

theorem get_push_eq (a : Array UInt32) (v : UInt32) : (a.push v)[a.size]! = v := by
  simp

/-! ## word-level identities -/

theorem and_one_toNat (y : UInt32) : (y &&& 0x1).toNat = y.toNat % 2 := by
  rw [UInt32.toNat_and]
  exact Nat.and_one_is_mod y.toNat

/-- the table lookup `mag01[y & 1]` is the case distinction of the paper -/
theorem mag01_eq (y : UInt32) :
    mag01[(y &&& 0x1).toNat]! = if y.toNat % 2 = 0 then 0 else MATRIX_A := by
  rw [and_one_toNat]
  have h : y.toNat % 2 = 0 ∨ y.toNat % 2 = 1 := by omega
  rcases h with h | h <;> rw [h] <;> simp [mag01]

/-- `src ^ (y >> 1) ^ mag01[y & 1]` (C, left-associated) is `src xor (y A)` -/
theorem twist_eq (a y : UInt32) :
    a ^^^ (y >>> 1) ^^^ mag01[(y &&& 0x1).toNat]! = a ^^^ twist y := by
  rw [mag01_eq, twist]
  split
  · simp
  · rw [UInt32.xor_assoc]

/-- the exact-arithmetic seeding step reduced mod 2^32 is the wrapping 32-bit computation -/
theorem seedNext_eq (p : UInt32) (k : Nat) :
    seedNext p k = INIT_MULT * (p ^^^ (p >>> UInt32.ofNat INIT_SHIFT)) + UInt32.ofNat k := by
  unfold seedNext
  have h : ∀ n : Nat, UInt32.ofNat (n % 4294967296) = UInt32.ofNat n := by
    intro n
    apply UInt32.toNat_inj.mp
    simp [UInt32.toNat_ofNat']
  rw [h, UInt32.ofNat_add, UInt32.ofNat_mul, UInt32.ofNat_toNat, UInt32.ofNat_toNat]

/-- the product in `init_genrand` never overflows a 64-bit `unsigned long`
    (so the C expression is the exact natural-number one before `&= 0xffffffff`) -/
theorem seed_step_no_overflow64 (p : UInt32) (k : Nat) (hk : k < 624) :
    INIT_MULT.toNat * (p ^^^ (p >>> UInt32.ofNat INIT_SHIFT)).toNat + k < 2 ^ 64 := by
  have h := (p ^^^ (p >>> UInt32.ofNat INIT_SHIFT)).toNat_lt
  have : INIT_MULT.toNat = 1812433253 := rfl
  rw [this]; omega

/-- `s & 0xffffffffUL` is `s mod 2^32` -/
theorem seed_mask_eq (s : Nat) : s &&& SEED_MASK = s % 4294967296 :=
  Nat.and_two_pow_sub_one_eq_mod s 32

/-! ## defining equations of the spec sequence -/

theorem X_zero (seed : Nat) : X seed 0 = UInt32.ofNat (seed % 4294967296) := by
  rw [X]; simp

theorem X_init (seed k : Nat) (h0 : 0 < k) (hk : k < 624) :
    X seed k = seedNext (X seed (k - 1)) k := by
  rw [X]
  have : k ≠ 0 := by omega
  simp [this, hk]

/-- the Matsumoto--Nishimura recurrence, for every `k` -/
theorem X_rec (seed k : Nat) :
    X seed (k + 624) = X seed (k + 397) ^^^ twist (mixBits (X seed k) (X seed (k + 1))) := by
  rw [X]
  have h1 : k + 624 ≠ 0 := by omega
  have h2 : ¬ (k + 624 < 624) := by omega
  simp only [h1, h2, if_false, Nat.add_sub_cancel]

/-- the seeding chain on plain natural numbers (cheap for the kernel to evaluate) -/
def seedChain (seed : Nat) : Nat → Nat
  | 0 => seed % 4294967296
  | k + 1 => (1812433253 * (seedChain seed k ^^^ (seedChain seed k >>> 30)) + (k + 1)) % 4294967296

theorem X_toNat_chain (seed : Nat) (k : Nat) (hk : k < 624) : (X seed k).toNat = seedChain seed k := by
  induction k with
  | zero => rw [X_zero, seedChain, UInt32.toNat_ofNat']; exact Nat.mod_mod _ _
  | succ k ih =>
    rw [X_init seed (k + 1) (by omega) hk, seedChain, seedNext, UInt32.toNat_ofNat', Nat.mod_mod,
      UInt32.toNat_xor, UInt32.toNat_shiftRight, Nat.add_sub_cancel, ih (by omega)]
    rfl

theorem X_eq_chain (seed : Nat) (k : Nat) (hk : k < 624) : X seed k = UInt32.ofNat (seedChain seed k) := by
  rw [← X_toNat_chain seed k hk, UInt32.ofNat_toNat]

/-! ## the memoised table -/

theorem specTable_spec (seed : Nat) (n : Nat) :
    (specTable seed n).size = n ∧ ∀ j, j < n → (specTable seed n)[j]! = X seed j := by
  induction n with
  | zero => exact ⟨by simp [specTable], by intro j h; omega⟩
  | succ n ih =>
    obtain ⟨hs, hg⟩ := ih
    refine ⟨by simp [specTable, hs], ?_⟩
    intro j hj
    simp only [specTable]
    by_cases hjn : j < n
    · rw [get_push_lt _ _ _ (by omega)]; exact hg j hjn
    · have hjn' : j = n := by omega
      subst hjn'
      have := get_push_eq (specTable seed j) (specNext seed (specTable seed j))
      rw [hs] at this
      rw [this]
      unfold specNext
      rw [hs]
      by_cases h0 : j = 0
      · subst h0; simp [X_zero]
      · by_cases h1 : j < 624
        · simp only [h0, h1, if_false, if_true]
          rw [hg (j - 1) (by omega), X_init seed j (by omega) h1]
        · simp only [h0, h1, if_false]
          rw [hg _ (by omega), hg _ (by omega), hg _ (by omega)]
          have := X_rec seed (j - 624)
          rw [show j - 624 + 624 = j by omega] at this
          exact this.symm

theorem mtSpecExec_eq (seed i : Nat) : mtSpecExec seed i = mtSpec seed i := by
  unfold mtSpecExec mtSpec
  rw [(specTable_spec seed (624 + i + 1)).2 (624 + i) (by omega)]

/-! ## seeding -/

/-- words `0 … i-1` already hold the spec sequence -/
def InitInv (seed i : Nat) (mt : Array UInt32) : Prop :=
  mt.size = 624 ∧ ∀ j, j < i → mt[j]! = X seed j

theorem initBody_inv (seed i : Nat) (mt : Array UInt32) (h0 : 0 < i) (hi : i < 624)
    (h : InitInv seed i mt) : InitInv seed (i + 1) (initBody mt i) := by
  obtain ⟨hs, hg⟩ := h
  refine ⟨by simp [initBody, hs], ?_⟩
  intro j hj
  unfold initBody
  by_cases hji : j = i
  · subst hji
    rw [get_set!_eq _ _ _ (by omega), hg (j - 1) (by omega), X_init seed j h0 hi, seedNext_eq]
  · rw [get_set!_ne _ _ _ _ (by omega) (by omega)]
    exact hg j (by omega)

theorem initLoop_inv (seed : Nat) (n : Nat) : ∀ (i : Nat) (mt : Array UInt32), 0 < i → i + n = 624 →
    InitInv seed i mt → InitInv seed 624 (initLoop i mt) := by
  induction n with
  | zero =>
    intro i mt _ hin h
    have : i = 624 := by omega
    subst this
    rw [initLoop]; simp [N_eq]; exact h
  | succ n ih =>
    intro i mt h0 hin h
    rw [initLoop]
    have : i < N := by rw [N_eq]; omega
    simp only [this, if_true]
    exact ih (i + 1) _ (by omega) (by omega) (initBody_inv seed i mt h0 (by omega) h)

/-- `nlopt_init_genrand(seed)` fills the array with `X seed 0 … X seed 623` and sets `mti = N` -/
theorem initGenrandOn_spec (mt : Array UInt32) (seed : Nat) (hs : mt.size = 624) :
    (initGenrandOn mt seed).mti = 624 ∧ InitInv seed 624 (initGenrandOn mt seed).mt := by
  refine ⟨rfl, ?_⟩
  unfold initGenrandOn
  apply initLoop_inv seed 623 1 _ (by omega) (by omega)
  refine ⟨by simp [hs], ?_⟩
  intro j hj
  have : j = 0 := by omega
  subst this
  rw [get_set!_eq _ _ _ (by omega), seed_mask_eq, X_zero]

theorem initGenrand_spec (seed : Nat) :
    (initGenrand seed).mti = 624 ∧ InitInv seed 624 (initGenrand seed).mt :=
  initGenrandOn_spec _ seed (by simp [N_eq])

/-! ## in-place block regeneration -/

/-- the array in the middle of a block regeneration: words below `kk` belong to the NEW block
    (`X (base+624+j)`), words from `kk` on still to the OLD one (`X (base+j)`). -/
def Mixed (seed base kk : Nat) (mt : Array UInt32) : Prop :=
  mt.size = 624 ∧ (∀ j, j < kk → mt[j]! = X seed (base + 624 + j)) ∧
    (∀ j, kk ≤ j → j < 624 → mt[j]! = X seed (base + j))

/-- One in-place update is one step of the recurrence, PROVIDED the two words it reads besides
    `mt[kk]` currently hold `X (base+kk+397)` and `X (base+kk+1)` -- which is where the three C
    loops differ (old/old, new/old, new/new). -/
theorem twistStep_mixed (seed base kk src nxt : Nat) (mt : Array UInt32) (hkk : kk < 624)
    (h : Mixed seed base kk mt)
    (hsrc : mt[src]! = X seed (base + kk + 397)) (hnxt : mt[nxt]! = X seed (base + kk + 1)) :
    Mixed seed base (kk + 1) (twistStep mt kk src nxt) := by
  obtain ⟨hs, hnew, hold⟩ := h
  refine ⟨by simp [twistStep, hs], ?_, ?_⟩
  · intro j hj
    unfold twistStep
    by_cases hjk : j = kk
    · subst hjk
      simp only []
      rw [get_set!_eq _ _ _ (by omega), twist_eq, hsrc, hnxt, hold j (by omega) hkk]
      have := X_rec seed (base + j)
      rw [show base + 624 + j = base + j + 624 by omega, this]
      rfl
    · simp only []
      rw [get_set!_ne _ _ _ _ (by omega) (by omega)]
      exact hnew j (by omega)
  · intro j hj hj2
    unfold twistStep
    simp only []
    rw [get_set!_ne _ _ _ _ (by omega) (by omega)]
    exact hold j (by omega) hj2

/-- loop 1 (`kk < N-M`): both extra reads hit OLD words -/
theorem regenLoop1_mixed (seed base : Nat) (n : Nat) : ∀ (kk : Nat) (mt : Array UInt32),
    kk + n = 227 → Mixed seed base kk mt → Mixed seed base 227 (regenLoop1 kk mt) := by
  induction n with
  | zero =>
    intro kk mt hk h
    have : kk = 227 := by omega
    subst this
    rw [regenLoop1]; simp [N_eq, M_eq]; exact h
  | succ n ih =>
    intro kk mt hk h
    rw [regenLoop1]
    have : kk < N - M := by rw [N_eq, M_eq]; omega
    simp only [this, if_true]
    apply ih (kk + 1) _ (by omega)
    apply twistStep_mixed seed base kk _ _ mt (by omega) h
    · rw [M_eq, h.2.2 (kk + 397) (by omega) (by omega)]; exact congrArg (X seed) (by omega)
    · rw [h.2.2 (kk + 1) (by omega) (by omega)]; exact congrArg (X seed) (by omega)

/-- loop 2 (`N-M ≤ kk < N-1`): `mt[kk+(M-N)]` is already NEW, and that is the word the
    recurrence needs: `624 + (kk-227) = kk + 397` -/
theorem regenLoop2_mixed (seed base : Nat) (n : Nat) : ∀ (kk : Nat) (mt : Array UInt32),
    227 ≤ kk → kk + n = 623 → Mixed seed base kk mt → Mixed seed base 623 (regenLoop2 kk mt) := by
  induction n with
  | zero =>
    intro kk mt _ hk h
    have : kk = 623 := by omega
    subst this
    rw [regenLoop2]; simp [N_eq]; exact h
  | succ n ih =>
    intro kk mt hlo hk h
    rw [regenLoop2]
    have : kk < N - 1 := by rw [N_eq]; omega
    simp only [this, if_true]
    apply ih (kk + 1) _ (by omega) (by omega)
    apply twistStep_mixed seed base kk _ _ mt (by omega) h
    · rw [M_eq, N_eq, h.2.1 (kk + 397 - 624) (by omega)]; exact congrArg (X seed) (by omega)
    · rw [h.2.2 (kk + 1) (by omega) (by omega)]; exact congrArg (X seed) (by omega)

/-- The whole regeneration maps block `base … base+623` to block `base+624 … base+1247`.
    For the last word both extra reads (`mt[M-1]` and `mt[0]`) are NEW words. -/
theorem regenerate_spec (seed base : Nat) (mt : Array UInt32)
    (hs : mt.size = 624) (h : ∀ j, j < 624 → mt[j]! = X seed (base + j)) :
    (regenerate mt).size = 624 ∧ ∀ j, j < 624 → (regenerate mt)[j]! = X seed (base + 624 + j) := by
  have h0 : Mixed seed base 0 mt := ⟨hs, by intro j hj; omega, by intro j _ hj; exact h j hj⟩
  have h1 := regenLoop1_mixed seed base 227 0 mt (by omega) h0
  have h2 := regenLoop2_mixed seed base 396 227 _ (by omega) (by omega) h1
  have h3 : Mixed seed base 624 (regenerate mt) := by
    unfold regenerate
    simp only [N_eq, M_eq]
    apply twistStep_mixed seed base 623 _ _ _ (by omega) h2
    · rw [h2.2.1 396 (by omega)]
    · rw [h2.2.1 0 (by omega)]
  exact ⟨h3.1, fun j hj => h3.2.1 j hj⟩

/-! ## the stream invariant -/

/-- State after `i` outputs of a generator seeded with `seed`: the array is the window
    `X (i+624-mti) … X (i+624-mti+623)` of the spec sequence and `mti ≤ N` points at the word
    `X (i+624)` (or one past the end, in which case the next call regenerates). -/
def Good (seed : Nat) (st : State) (i : Nat) : Prop :=
  st.mt.size = 624 ∧ st.mti ≤ 624 ∧ ∀ j, j < 624 → st.mt[j]! = X seed (i + 624 - st.mti + j)

theorem good_init (mt : Array UInt32) (seed : Nat) (hs : mt.size = 624) :
    Good seed (initGenrandOn mt seed) 0 := by
  obtain ⟨h1, h2, h3⟩ := initGenrandOn_spec mt seed hs
  refine ⟨h2, by omega, ?_⟩
  intro j hj
  rw [h3 j hj, h1]
  exact congrArg (X seed) (by omega)

/-- one call of `nlopt_genrand_int32` from a good state returns the spec output and leaves a
    good state -/
theorem good_step (seed : Nat) (st : State) (i : Nat) (h : Good seed st i) :
    (genrandInt32 st).1 = mtSpec seed i ∧ Good seed (genrandInt32 st).2 (i + 1) := by
  obtain ⟨hs, hm, hg⟩ := h
  unfold genrandInt32
  by_cases hlt : st.mti < 624
  · have h1 : ¬ (st.mti ≥ N) := by rw [N_eq]; omega
    simp only [h1, if_false]
    refine ⟨?_, hs, by simp only []; omega, ?_⟩
    · rw [hg st.mti hlt, mtSpec]
      exact congrArg (fun k => temper (X seed k)) (by omega)
    · intro j hj
      simp only []
      rw [hg j hj]
      exact congrArg (X seed) (by omega)
  · have heq : st.mti = 624 := by omega
    have h1 : st.mti ≥ N := by rw [N_eq]; omega
    have h2 : (st.mti == N + MTI_UNINIT_OFFSET) = false := by
      rw [N_eq, MTI_UNINIT_OFFSET_eq, heq]; rfl
    simp only [h1, h2, if_true]
    have hreg := regenerate_spec seed i st.mt hs (by
      intro j hj; rw [hg j hj]; exact congrArg (X seed) (by omega))
    refine ⟨?_, hreg.1, by simp only []; omega, ?_⟩
    · simp only [Bool.false_eq_true, if_false]
      rw [hreg.2 0 (by omega), mtSpec]
      exact congrArg (fun k => temper (X seed k)) (by omega)
    · intro j hj
      simp only [Bool.false_eq_true, if_false]
      rw [hreg.2 j hj]
      exact congrArg (X seed) (by omega)

/-- the never-seeded static state: `mti = N+1` -/
def Fresh (st : State) : Prop := st.mt.size = 624 ∧ st.mti = 625

/-- the first call on a never-seeded state seeds with 5489 and then behaves as above -/
theorem fresh_step (st : State) (h : Fresh st) :
    (genrandInt32 st).1 = mtSpec 5489 0 ∧ Good 5489 (genrandInt32 st).2 1 := by
  have hgood := good_step 5489 (initGenrandOn st.mt 5489) 0 (good_init st.mt 5489 h.1)
  have : genrandInt32 st = genrandInt32 (initGenrandOn st.mt 5489) := by
    have e1 : (initGenrandOn st.mt 5489).mti = 624 := rfl
    unfold genrandInt32
    have h1 : st.mti ≥ N := by rw [N_eq, h.2]; omega
    have h2 : (st.mti == N + MTI_UNINIT_OFFSET) = true := by
      rw [N_eq, MTI_UNINIT_OFFSET_eq, h.2]; rfl
    have h3 : (initGenrandOn st.mt 5489).mti ≥ N := by rw [N_eq, e1]; omega
    have h4 : ((initGenrandOn st.mt 5489).mti == N + MTI_UNINIT_OFFSET) = false := by
      rw [N_eq, MTI_UNINIT_OFFSET_eq, e1]; rfl
    simp only [h1, h2, h3, h4, if_true, Bool.false_eq_true, if_false]
    rfl
  rw [this]; exact hgood

theorem good_stateAfter_from (seed : Nat) (st : State) (k : Nat) (h : Good seed (stateAfter st k) k)
    (n : Nat) : Good seed (stateAfter st (k + n)) (k + n) := by
  induction n with
  | zero => exact h
  | succ n ih => exact (good_step seed _ (k + n) ih).2

theorem good_stateAfter (seed : Nat) (st : State) (h : Good seed st 0) (i : Nat) :
    Good seed (stateAfter st i) i := by
  induction i with
  | zero => exact h
  | succ i ih => exact (good_step seed _ i ih).2

/-! ## samplers: named hypotheses and exact-arithmetic quantities -/

/-- NAMED HYPOTHESIS about the rounded operations of `A` at the bounds `a b`: for every draw
    `0 ≤ r < 1` the rounded `a + (b - a) * r` stays within `[a, b]`.  (Not an axiom: a `Prop`
    that a caller has to establish for the `Arith` instance and bounds at hand.  It is FALSE for
    IEEE arithmetic when `b - a` overflows, e.g. `a = -DBL_MAX`, `b = DBL_MAX`, and note the
    closed upper end: in IEEE arithmetic `urand(1,2)` with `r = 1 - 2^-53` returns exactly 2.) -/
def ScaleWithin (A : Arith) (a b : F64) : Prop :=
  ∀ r : F64, F64.le F64.zero r = true → F64.lt r F64.one = true →
    F64.le a (urand A a b r) = true ∧ F64.le (urand A a b r) b = true

/-- numerator of `v = urand(-1, 1)` in exact arithmetic when `genrand_res53() = k / 2^53`:
    `v = -1 + 2 * k / 2^53 = vNum k / 2^53` -/
def vNum (k : Nat) : Int := 2 * (k : Int) - 9007199254740992

/-- numerator of `s = v1*v1 + v2*v2` in exact arithmetic: `s = sNum k1 k2 / 2^106` -/
def sNum (k1 k2 : Nat) : Int := vNum k1 * vNum k1 + vNum k2 * vNum k2

theorem vNum_sq (k : Nat) :
    vNum k * vNum k = 4 * (((k : Int) - 4503599627370496) * ((k : Int) - 4503599627370496)) := by
  have : vNum k = 2 * ((k : Int) - 4503599627370496) := by unfold vNum; omega
  rw [this]
  generalize (k : Int) - 4503599627370496 = d
  rw [Int.mul_assoc, Int.mul_left_comm d 2 d, ← Int.mul_assoc 2 2]; rfl

theorem int_sq_pos (d : Int) (h : d ≠ 0) : 1 ≤ d * d := by
  have := Int.natAbs_mul_self (a := d)
  have h2 : 0 < d.natAbs := Int.natAbs_pos.mpr h
  have h3 : 1 ≤ d.natAbs * d.natAbs := Nat.mul_pos h2 h2
  omega

theorem int_sq_nonneg (d : Int) : 0 ≤ d * d := by
  have := Int.natAbs_mul_self (a := d)
  omega

theorem int_sq_le (d c : Int) (h0 : 0 ≤ c) (h1 : -c ≤ d) (h2 : d ≤ c) : d * d ≤ c * c := by
  have := Int.natAbs_mul_self (a := d)
  have hc : (c.natAbs : Int) = c := Int.natAbs_of_nonneg h0
  have hle : d.natAbs ≤ c.natAbs := by omega
  have := Nat.mul_le_mul hle hle
  have h3 : ((d.natAbs * d.natAbs : Nat) : Int) ≤ ((c.natAbs * c.natAbs : Nat) : Int) :=
    Int.ofNat_le.mpr this
  rw [Int.natCast_mul, Int.natCast_mul, hc] at h3
  omega

end Nlopt.MT
