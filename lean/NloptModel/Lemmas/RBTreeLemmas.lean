import NloptModel.Model.RBTree
/-!
  Helper definitions and lemmas for the red-black tree model (`Model/RBTree.lean`).

  * `toList`, `pbefore`, `pafter`: in-order contents of a tree / of a zipper context;
  * `Sorted`, `Ordered`, `insSorted`: ordering specifications;
  * `bh`, `Balanced`, `NoRedRed` and their zipper counterparts `PathBal`, `PathNoRR`, `rootRed`;
  * contents and colour lemmas for `fixtree`, `deleteblack`, `removeAt`, …
-/
namespace Nlopt.RB
open Tree Color

/-! ## contents -/

/-- in-order sequence of keys -/
def toList : Tree → List Key
  | nil => []
  | node _ l k r => toList l ++ k :: toList r

/-- keys that come before the hole in the in-order sequence of `plug · p` -/
def pbefore : Path → List Key
  | [] => []
  | .L _ _ _ :: p => pbefore p
  | .R _ l k :: p => pbefore p ++ (toList l ++ [k])

/-- keys that come after the hole -/
def pafter : Path → List Key
  | [] => []
  | .L _ k r :: p => k :: toList r ++ pafter p
  | .R _ _ _ :: p => pafter p

@[simp] theorem toList_nil : toList nil = [] := rfl
@[simp] theorem toList_node : toList (node c l k r) = toList l ++ k :: toList r := rfl
@[simp] theorem pbefore_nil : pbefore [] = [] := rfl
@[simp] theorem pbefore_L : pbefore (.L c k r :: p) = pbefore p := rfl
@[simp] theorem pbefore_R : pbefore (.R c l k :: p) = pbefore p ++ (toList l ++ [k]) := rfl
@[simp] theorem pafter_nil : pafter [] = [] := rfl
@[simp] theorem pafter_L : pafter (.L c k r :: p) = k :: toList r ++ pafter p := rfl
@[simp] theorem pafter_R : pafter (.R c l k :: p) = pafter p := rfl

@[simp] theorem plug_nil : plug t [] = t := rfl
@[simp] theorem plug_L : plug t (.L c k r :: p) = plug (node c t k r) p := rfl
@[simp] theorem plug_R : plug t (.R c l k :: p) = plug (node c l k t) p := rfl

theorem plug_append (t : Tree) (p q : Path) : plug t (p ++ q) = plug (plug t p) q := by
  induction p generalizing t with
  | nil => rfl
  | cons c p ih => cases c <;> simp [ih]

theorem toList_plug (t : Tree) (p : Path) :
    toList (plug t p) = pbefore p ++ toList t ++ pafter p := by
  induction p generalizing t with
  | nil => simp
  | cons c p ih => cases c <;> simp [ih]

theorem pbefore_append (p q : Path) : pbefore (p ++ q) = pbefore q ++ pbefore p := by
  induction p with
  | nil => simp
  | cons c p ih => cases c <;> simp [ih]

theorem pafter_append (p q : Path) : pafter (p ++ q) = pafter p ++ pafter q := by
  induction p with
  | nil => simp
  | cons c p ih => cases c <;> simp [ih]

@[simp] theorem toList_blacken (t : Tree) : toList (blacken t) = toList t := by
  cases t <;> rfl

theorem isRed_eq_true {t : Tree} (h : isRed t = true) : ∃ l k r, t = node red l k r := by
  cases t with
  | nil => simp [isRed] at h
  | node c l k r => cases c <;> simp_all [isRed]

/-! ### insertion: contents -/

theorem toList_fixtree (nl : Tree) (nk : Key) (nr : Tree) (p : Path) :
    toList (fixtree nl nk nr p) = pbefore p ++ (toList nl ++ nk :: toList nr) ++ pafter p := by
  fun_induction fixtree nl nk nr p <;> simp_all [toList_plug]

theorem plug_descend (k : Key) (t : Tree) (p : Path) : plug nil (descend k t p) = plug t p := by
  induction t generalizing p with
  | nil => rfl
  | node c l pk r ihl ihr =>
    simp only [descend]; split
    · rw [ihl]; rfl
    · rw [ihr]; rfl

/-- sorted (w.r.t. `val`, non-strictly) list of keys -/
abbrev Sorted (l : List Key) : Prop := l.Pairwise (fun a b => a.val ≤ b.val)

/-- insert `k` in front of the first element whose `val` is `≥ k.val` -/
def insSorted (k : Key) : List Key → List Key
  | [] => [k]
  | x :: xs => if k.val ≤ x.val then k :: x :: xs else x :: insSorted k xs

theorem insSorted_append_le (k y : Key) (xs ys : List Key) (h : k.val ≤ y.val) :
    insSorted k (xs ++ y :: ys) = insSorted k xs ++ y :: ys := by
  induction xs with
  | nil => simp [insSorted, h]
  | cons x xs ih => simp only [List.cons_append, insSorted]; split <;> simp [ih]

theorem insSorted_append_gt (k y : Key) (xs ys : List Key) (hx : ∀ x ∈ xs, x.val < k.val)
    (h : y.val < k.val) : insSorted k (xs ++ y :: ys) = xs ++ y :: insSorted k ys := by
  induction xs with
  | nil => simp [insSorted]; omega
  | cons x xs ih =>
    have := hx x (by simp)
    simp only [List.cons_append, insSorted]
    rw [if_neg (by omega), ih (fun z hz => hx z (by simp [hz]))]

theorem descend_contents (k : Key) (t : Tree) (p : Path) (hs : Sorted (toList t)) :
    pbefore (descend k t p) ++ k :: pafter (descend k t p)
      = pbefore p ++ insSorted k (toList t) ++ pafter p := by
  induction t generalizing p with
  | nil => simp [descend, insSorted]
  | node c l pk r ihl ihr =>
    simp only [toList_node, List.pairwise_append, List.pairwise_cons] at hs
    obtain ⟨hl, ⟨hpr, hr⟩, hlr⟩ := hs
    simp only [descend]; split
    · next hle => rw [ihl _ hl, toList_node, insSorted_append_le _ _ _ _ hle]; simp
    · next hgt =>
      have hx : ∀ x ∈ toList l, x.val < k.val := fun x hx => by
        have := hlr x hx pk (by simp); omega
      rw [ihr _ hr, toList_node, insSorted_append_gt _ _ _ _ hx (by omega)]; simp

theorem toList_insert_of_sorted (t : Tree) (k : Key) (hs : Sorted (toList t)) :
    toList (insert t k) = insSorted k (toList t) := by
  cases t with
  | nil => simp [insert, insSorted]
  | node c l pk r =>
    simp only [insert, toList_fixtree, toList_nil, List.nil_append]
    have := descend_contents k (node c l pk r) [] hs
    simpa using this

/-! ### removal: contents -/

theorem locate_spec {kid : Nat} {t : Tree} {p : Path} {x : Loc} (h : locate kid t p = some x) :
    plug (node x.c x.l x.k x.r) x.path = plug t p ∧ x.k.kid = kid := by
  induction t generalizing p with
  | nil => simp [locate] at h
  | node c l k r ihl ihr =>
    simp only [locate] at h
    split at h
    · next hk => cases h; exact ⟨rfl, hk⟩
    · split at h
      · next y hy => cases h; simpa using ihl hy
      · simpa using ihr h

theorem maxPath_spec {c : Color} {l : Tree} {k : Key} {r : Tree} {p : Path}
    {mc : Color} {ml : Tree} {mk : Key} {q : Path} (h : maxPath c l k r p = (mc, ml, mk, q)) :
    plug (node mc ml mk nil) q = plug (node c l k r) p ∧ pafter q = pafter p ∧
      pbefore q ++ (toList ml ++ [mk]) = pbefore p ++ (toList l ++ k :: toList r) := by
  induction r generalizing c l k p with
  | nil => simp only [maxPath, Prod.mk.injEq] at h; obtain ⟨rfl, rfl, rfl, rfl⟩ := h; simp
  | node c' l' k' r' _ ih =>
    simp only [maxPath] at h
    obtain ⟨h1, h2, h3⟩ := ih h
    refine ⟨by simpa using h1, by simpa using h2, by simpa using h3⟩

theorem toList_dbL (mpc : Color) (m : Tree) (mpk : Key) (s : Tree) :
    toList (dbL mpc m mpk s).1 = toList m ++ mpk :: toList s := by
  unfold dbL; split
  · simp
  · split
    · simp
    · split <;> simp

theorem toList_dbR (mpc : Color) (s : Tree) (mpk : Key) (m : Tree) :
    toList (dbR mpc s mpk m).1 = toList s ++ mpk :: toList m := by
  unfold dbR; split
  · simp
  · split
    · simp
    · split <;> simp

theorem toList_deleteblack (m : Tree) (p : Path) :
    toList (deleteblack m p) = pbefore p ++ toList m ++ pafter p := by
  fun_induction deleteblack m p <;> simp_all [toList_plug, toList_dbL, toList_dbR]

theorem toList_unlink (nc : Color) (m : Tree) (p : Path) :
    toList (unlink nc m p) = pbefore p ++ toList m ++ pafter p := by
  unfold unlink; split
  · simp [toList_plug]
  · split <;> simp [toList_plug, toList_deleteblack]

theorem toList_removeAt (c : Color) (l r : Tree) (p : Path) :
    toList (removeAt c l r p) = pbefore p ++ (toList l ++ toList r) ++ pafter p := by
  unfold removeAt; split
  · next lc ll lk lr rc rl rk rr =>
    split
    next mc ml mk sub hm =>
    obtain ⟨_, h2, h3⟩ := maxPath_spec hm
    simp only [pafter_nil, pbefore_nil, List.nil_append] at h2 h3
    simp only [toList_unlink, pbefore_append, pafter_append, pbefore_L, pafter_L, h2, toList_node,
      ← h3]
    simp
  · simp [toList_unlink]
  · simp [toList_unlink]

/-- contents of `remove` when the key object is present: exactly the located key disappears -/
theorem toList_remove_of_locate {kid : Nat} {t : Tree} {x : Loc} (h : locate kid t [] = some x) :
    toList t = pbefore x.path ++ (toList x.l ++ x.k :: toList x.r) ++ pafter x.path ∧
    toList (remove t kid) = pbefore x.path ++ (toList x.l ++ toList x.r) ++ pafter x.path ∧
    x.k.kid = kid := by
  obtain ⟨h1, h2⟩ := locate_spec h
  refine ⟨?_, ?_, h2⟩
  · have := congrArg toList h1
    simpa [toList_plug] using this.symm
  · simp [remove, h, toList_removeAt]

theorem locate_eq_none {kid : Nat} {t : Tree} {p : Path} :
    locate kid t p = none ↔ ∀ k ∈ toList t, k.kid ≠ kid := by
  induction t generalizing p with
  | nil => simp [locate]
  | node c l k r ihl ihr =>
    have h1 := @ihl (.L c k r :: p)
    have h2 := @ihr (.R c l k :: p)
    simp only [locate, toList_node, List.mem_append, List.mem_cons]
    by_cases hk : k.kid = kid
    · simp only [hk, if_true]; simp; exact ⟨k, by simp, hk⟩
    · simp only [hk, if_false]
      cases hy : locate kid l (.L c k r :: p) with
      | some y =>
        simp only [reduceCtorEq, false_iff]
        intro hh
        rw [h1.mpr (fun z hz => hh z (Or.inl hz))] at hy; cases hy
      | none =>
        simp only [h2]
        have := h1.mp hy
        constructor
        · intro h z hz; rcases hz with hz | rfl | hz
          · exact this z hz
          · exact hk
          · exact h z hz
        · intro h z hz; exact h z (Or.inr (Or.inr hz))

/-- no two keys of the tree are the same key object -/
def UniqueKids (t : Tree) : Prop := ((toList t).map Key.kid).Nodup

theorem filter_kid_split (A B : List Key) (k : Key) (kid : Nat) (hk : k.kid = kid)
    (hn : ((A ++ k :: B).map Key.kid).Nodup) :
    (A ++ k :: B).filter (fun x => x.kid ≠ kid) = A ++ B := by
  simp only [List.map_append, List.map_cons, List.nodup_append, List.nodup_cons, List.mem_map,
    List.mem_cons] at hn
  obtain ⟨_, ⟨hkB, _⟩, hAB⟩ := hn
  have hA : ∀ a ∈ A, a.kid ≠ kid := fun a ha => by
    have := hAB a.kid ⟨a, ha, rfl⟩ k.kid (Or.inl rfl); omega
  have hB : ∀ b ∈ B, b.kid ≠ kid := fun b hb he => hkB ⟨b, hb, by omega⟩
  simp only [List.filter_append, List.filter_cons, hk]
  simp only [decide_not, decide_true, Bool.not_true, Bool.false_eq_true, if_false]
  rw [List.filter_eq_self.mpr (by simpa using hA), List.filter_eq_self.mpr (by simpa using hB)]

theorem toList_remove_filter (t : Tree) (kid : Nat) (hu : UniqueKids t) :
    toList (remove t kid) = (toList t).filter (fun x => x.kid ≠ kid) := by
  cases h : locate kid t [] with
  | none =>
    have := locate_eq_none.mp h
    simp only [remove, h]
    symm; simpa using this
  | some x =>
    obtain ⟨h1, h2, h3⟩ := toList_remove_of_locate h
    rw [h2, h1]
    unfold UniqueKids at hu; rw [h1] at hu
    simp only [List.append_assoc] at hu ⊢
    have := filter_kid_split (pbefore x.path ++ toList x.l) (toList x.r ++ pafter x.path) x.k kid h3
      (by simpa using hu)
    simp only [List.append_assoc] at this
    rw [List.cons_append]
    exact this.symm

/-! ## colours and black heights -/

/-- contribution of a node colour to the black height -/
def cbh : Color → Nat
  | black => 1
  | red => 0

/-- black height, measured along the left spine (`NIL` counts 0) -/
def bh : Tree → Nat
  | nil => 0
  | node c l _ _ => bh l + cbh c

/-- every root-to-NIL path has the same number of black nodes -/
def Balanced : Tree → Prop
  | nil => True
  | node _ l _ r => bh l = bh r ∧ Balanced l ∧ Balanced r

/-- no red node has a red child -/
def NoRedRed : Tree → Prop
  | nil => True
  | node c l _ r => (c = red → isRed l = false ∧ isRed r = false) ∧ NoRedRed l ∧ NoRedRed r

/-- `plug · p` is balanced for a hole of black height `h` -/
def PathBal : Path → Nat → Prop
  | [], _ => True
  | .L c _ r :: p, h => bh r = h ∧ Balanced r ∧ PathBal p (h + cbh c)
  | .R c l _ :: p, h => bh l = h ∧ Balanced l ∧ PathBal p (h + cbh c)

/-- the direct parent is red -/
def topRed : Path → Bool
  | .L red _ _ :: _ => true
  | .R red _ _ :: _ => true
  | _ => false

/-- the context has no red-red violation (the hole's own colour is not constrained here) -/
def PathNoRR : Path → Prop
  | [] => True
  | .L c _ r :: p => NoRedRed r ∧ (c = red → isRed r = false ∧ topRed p = false) ∧ PathNoRR p
  | .R c l _ :: p => NoRedRed l ∧ (c = red → isRed l = false ∧ topRed p = false) ∧ PathNoRR p

/-- is the root of `plug t p` red, given whether `t` is (`b`) -/
def rootRed : Path → Bool → Bool
  | [], b => b
  | .L c _ _ :: p, _ => rootRed p (decide (c = red))
  | .R c _ _ :: p, _ => rootRed p (decide (c = red))

@[simp] theorem cbh_black : cbh black = 1 := rfl
@[simp] theorem cbh_red : cbh red = 0 := rfl
@[simp] theorem bh_nil : bh nil = 0 := rfl
@[simp] theorem bh_node : bh (node c l k r) = bh l + cbh c := rfl
@[simp] theorem Balanced_nil : Balanced nil := trivial
@[simp] theorem Balanced_node :
    Balanced (node c l k r) ↔ bh l = bh r ∧ Balanced l ∧ Balanced r := Iff.rfl
@[simp] theorem NoRedRed_nil : NoRedRed nil := trivial
@[simp] theorem NoRedRed_node : NoRedRed (node c l k r) ↔
    (c = red → isRed l = false ∧ isRed r = false) ∧ NoRedRed l ∧ NoRedRed r := Iff.rfl
@[simp] theorem isRed_nil : isRed nil = false := rfl
@[simp] theorem isRed_node : isRed (node c l k r) = decide (c = red) := by cases c <;> rfl
@[simp] theorem PathBal_nil : PathBal [] h := trivial
@[simp] theorem PathBal_L : PathBal (.L c k r :: p) h ↔
    bh r = h ∧ Balanced r ∧ PathBal p (h + cbh c) := Iff.rfl
@[simp] theorem PathBal_R : PathBal (.R c l k :: p) h ↔
    bh l = h ∧ Balanced l ∧ PathBal p (h + cbh c) := Iff.rfl
@[simp] theorem topRed_nil : topRed [] = false := rfl
@[simp] theorem topRed_L : topRed (.L c k r :: p) = decide (c = red) := by cases c <;> rfl
@[simp] theorem topRed_R : topRed (.R c l k :: p) = decide (c = red) := by cases c <;> rfl
@[simp] theorem PathNoRR_nil : PathNoRR [] := trivial
@[simp] theorem PathNoRR_L : PathNoRR (.L c k r :: p) ↔
    NoRedRed r ∧ (c = red → isRed r = false ∧ topRed p = false) ∧ PathNoRR p := Iff.rfl
@[simp] theorem PathNoRR_R : PathNoRR (.R c l k :: p) ↔
    NoRedRed l ∧ (c = red → isRed l = false ∧ topRed p = false) ∧ PathNoRR p := Iff.rfl
@[simp] theorem rootRed_nil : rootRed [] b = b := rfl
@[simp] theorem rootRed_L : rootRed (.L c k r :: p) b = rootRed p (decide (c = red)) := rfl
@[simp] theorem rootRed_R : rootRed (.R c l k :: p) b = rootRed p (decide (c = red)) := rfl

theorem Balanced_plug (t : Tree) (p : Path) :
    Balanced (plug t p) ↔ Balanced t ∧ PathBal p (bh t) := by
  induction p generalizing t with
  | nil => simp
  | cons c p ih => cases c <;> simp [ih] <;> grind

theorem NoRedRed_plug (t : Tree) (p : Path) :
    NoRedRed (plug t p) ↔ NoRedRed t ∧ PathNoRR p ∧ (topRed p = true → isRed t = false) := by
  induction p generalizing t with
  | nil => simp
  | cons c p ih => cases c <;> simp [ih] <;> grind

theorem isRed_plug (t : Tree) (p : Path) : isRed (plug t p) = rootRed p (isRed t) := by
  induction p generalizing t with
  | nil => simp
  | cons c p ih => cases c <;> simp [ih]

theorem rootRed_cons (c : Crumb) (p : Path) (a b : Bool) :
    rootRed (c :: p) a = rootRed (c :: p) b := by cases c <;> rfl

/-! ### insertion: colours -/

theorem bh_blacken_of_red {t : Tree} (h : isRed t = true) : bh (blacken t) = bh t + 1 := by
  obtain ⟨l, k, r, rfl⟩ := isRed_eq_true h; simp [blacken]

@[simp] theorem Balanced_blacken (t : Tree) : Balanced (blacken t) ↔ Balanced t := by
  cases t <;> simp [blacken]

theorem NoRedRed_blacken {t : Tree} (h : NoRedRed t) : NoRedRed (blacken t) := by
  cases t <;> simp_all [blacken]

@[simp] theorem isRed_blacken (t : Tree) : isRed (blacken t) = false := by
  cases t <;> simp [blacken]

@[simp] theorem not_red_iff (c : Color) : (¬ c = red) ↔ c = black := by cases c <;> simp
@[simp] theorem not_black_iff (c : Color) : (¬ c = black) ↔ c = red := by cases c <;> simp

theorem fixtree_rb (nl : Tree) (nk : Key) (nr : Tree) (p : Path) :
    ∀ h, Balanced nl → Balanced nr → bh nl = h → bh nr = h → NoRedRed nl → NoRedRed nr →
      isRed nl = false → isRed nr = false → PathBal p h → PathNoRR p → rootRed p true = false →
      Balanced (fixtree nl nk nr p) ∧ NoRedRed (fixtree nl nk nr p) ∧
        isRed (fixtree nl nk nr p) = false := by
  fun_induction fixtree nl nk nr p <;> intro h b1 b2 h1 h2 c1 c2 r1 r2 pb pn pr
  all_goals first
    | (rename_i ih; apply ih (h + 1) <;>
        simp_all [bh_blacken_of_red, NoRedRed_blacken, rootRed_cons _ _ true false]; done)
    | (simp_all [Balanced_plug, NoRedRed_plug, isRed_plug, bh_blacken_of_red, NoRedRed_blacken]; done)

theorem descend_ne_nil (k : Key) (t : Tree) (p : Path) (hp : p ≠ []) : descend k t p ≠ [] := by
  induction t generalizing p with
  | nil => simpa [descend] using hp
  | node c l pk r ihl ihr =>
    simp only [descend]; split
    · apply ihl; simp
    · apply ihr; simp

theorem rootRed_of_ne_nil {p : Path} (hp : p ≠ []) (a b : Bool) : rootRed p a = rootRed p b := by
  cases p with
  | nil => exact absurd rfl hp
  | cons c p => exact rootRed_cons c p a b

/-- colour part of the red-black invariant -/
def RBColor (t : Tree) : Prop := isRed t = false ∧ NoRedRed t ∧ Balanced t

theorem insert_rbcolor (t : Tree) (k : Key) (h : RBColor t) : RBColor (insert t k) := by
  obtain ⟨h1, h2, h3⟩ := h
  cases t with
  | nil => simp [insert, RBColor]
  | node c l pk r =>
    simp only [insert]
    have hp := plug_descend k (node c l pk r) []
    have hne : descend k (node c l pk r) [] ≠ [] := by
      simp only [descend]; split <;> apply descend_ne_nil <;> simp
    rw [plug_nil] at hp
    rw [← hp, Balanced_plug] at h3
    rw [← hp, NoRedRed_plug] at h2
    rw [← hp, isRed_plug, rootRed_of_ne_nil hne _ true] at h1
    have := fixtree_rb nil k nil (descend k (node c l pk r) []) 0 (by simp) (by simp) rfl rfl
      (by simp) (by simp) rfl rfl h3.2 h2.2.1 h1
    exact ⟨this.2.2, this.2.1, this.1⟩

/-! ### removal: colours -/

theorem dbL_spec (mpc : Color) (m : Tree) (mpk : Key) (s : Tree) (h : Nat)
    (bm : Balanced m) (hm : bh m = h) (cm : NoRedRed m) (rm : isRed m = false)
    (bs : Balanced s) (hs : bh s = h + 1) (cs : NoRedRed s) (rs : isRed s = false) :
    Balanced (dbL mpc m mpk s).1 ∧ NoRedRed (dbL mpc m mpk s).1 ∧
    ((dbL mpc m mpk s).2 = true →
      mpc = black ∧ bh (dbL mpc m mpk s).1 = h + 1 ∧ isRed (dbL mpc m mpk s).1 = false) ∧
    ((dbL mpc m mpk s).2 = false →
      bh (dbL mpc m mpk s).1 = h + 1 + cbh mpc ∧ (mpc = black → isRed (dbL mpc m mpk s).1 = false)) := by
  cases s with
  | nil => simp at hs
  | node sc sl sk sr =>
    have : sc = black := by simpa using rs
    subst this
    cases hl : isRed sl <;> cases hr : isRed sr
    · cases mpc <;> simp_all [dbL]
    · cases mpc <;> simp_all [dbL, bh_blacken_of_red, NoRedRed_blacken] <;>
        split <;> simp_all [bh_blacken_of_red, NoRedRed_blacken]
    · obtain ⟨sll, slk, slr, rfl⟩ := isRed_eq_true hl
      cases mpc <;> simp_all [dbL]
    · cases mpc <;> simp_all [dbL, bh_blacken_of_red, NoRedRed_blacken] <;>
        split <;> simp_all [bh_blacken_of_red, NoRedRed_blacken]

theorem dbR_spec (mpc : Color) (s : Tree) (mpk : Key) (m : Tree) (h : Nat)
    (bm : Balanced m) (hm : bh m = h) (cm : NoRedRed m) (rm : isRed m = false)
    (bs : Balanced s) (hs : bh s = h + 1) (cs : NoRedRed s) (rs : isRed s = false) :
    Balanced (dbR mpc s mpk m).1 ∧ NoRedRed (dbR mpc s mpk m).1 ∧
    ((dbR mpc s mpk m).2 = true →
      mpc = black ∧ bh (dbR mpc s mpk m).1 = h + 1 ∧ isRed (dbR mpc s mpk m).1 = false) ∧
    ((dbR mpc s mpk m).2 = false →
      bh (dbR mpc s mpk m).1 = h + 1 + cbh mpc ∧ (mpc = black → isRed (dbR mpc s mpk m).1 = false)) := by
  cases s with
  | nil => simp at hs
  | node sc sl sk sr =>
    have : sc = black := by simpa using rs
    subst this
    cases hl : isRed sl <;> cases hr : isRed sr
    · cases mpc <;> simp_all [dbR]
    · obtain ⟨srl, srk, srr, rfl⟩ := isRed_eq_true hr
      cases mpc <;> simp_all [dbR]
    · cases mpc <;> simp_all [dbR, bh_blacken_of_red, NoRedRed_blacken] <;>
        split <;> simp_all [bh_blacken_of_red, NoRedRed_blacken]
    · cases mpc <;> simp_all [dbR, bh_blacken_of_red, NoRedRed_blacken] <;>
        split <;> simp_all [bh_blacken_of_red, NoRedRed_blacken]

/-- after the red-sibling rotation `mp` is red, so the iteration never takes the "move up" branch:
this is why `deleteblack` may ignore the flag there -/
theorem dbL_red_snd (m : Tree) (mpk : Key) (s : Tree) : (dbL red m mpk s).2 = false := by
  unfold dbL; split
  · rfl
  · split
    · rfl
    · split <;> rfl

theorem dbR_red_snd (s : Tree) (mpk : Key) (m : Tree) : (dbR red s mpk m).2 = false := by
  unfold dbR; split
  · rfl
  · split
    · rfl
    · split <;> rfl

theorem isRed_false_of_forall {s : Tree} (h : ∀ l k r, s = node red l k r → False) :
    isRed s = false := by
  cases s with
  | nil => rfl
  | node c l k r => cases c <;> simp_all

theorem rootRed_mono {p : Path} {a b : Bool} (h : rootRed p a = false) (hab : b = true → a = true) :
    rootRed p b = false := by
  cases p with
  | nil => cases b <;> simp_all
  | cons c p => rw [rootRed_cons c p b a]; exact h

theorem deleteblack_rb (m : Tree) (p : Path) :
    ∀ h, Balanced m → bh m = h → NoRedRed m → isRed m = false →
      PathBal p (h + 1) → PathNoRR p → rootRed p false = false →
      Balanced (deleteblack m p) ∧ NoRedRed (deleteblack m p) ∧ isRed (deleteblack m p) = false := by
  fun_induction deleteblack m p <;> intro h bm hm cm rm pb pn pr
  · exact ⟨bm, cm, rm⟩
  · next m mpc mpk sl sk sr rest =>
    simp only [PathBal_L, PathNoRR_L, rootRed_L, Balanced_node, NoRedRed_node, bh_node, cbh_red,
      isRed_node, decide_true, Nat.add_zero] at pb pn pr
    have hc : mpc = black := by cases mpc <;> simp_all
    subst hc
    have := dbL_spec red m mpk sl h bm hm cm rm pb.2.1.2.1 (by omega) pn.1.2.1 (by simp_all)
    simp_all [Balanced_plug, NoRedRed_plug, isRed_plug]
    omega
  · next m mpc mpk s rest hs hc ih =>
    have hs' := isRed_false_of_forall hs
    simp only [PathBal_L, PathNoRR_L, rootRed_L] at pb pn pr
    have sp := dbL_spec mpc m mpk s h bm hm cm rm pb.2.1 pb.1 pn.1 hs'
    obtain ⟨rfl, h2, h3⟩ := sp.2.2.1 hc
    exact ih (h + 1) sp.1 h2 sp.2.1 h3 (by simpa using pb.2.2) pn.2.2 (by simpa using pr)
  · next m mpc mpk s rest hs hc =>
    have hs' := isRed_false_of_forall hs
    simp only [PathBal_L, PathNoRR_L, rootRed_L] at pb pn pr
    have sp := dbL_spec mpc m mpk s h bm hm cm rm pb.2.1 pb.1 pn.1 hs'
    obtain ⟨h2, h3⟩ := sp.2.2.2 (by simpa using hc)
    refine ⟨?_, ?_, ?_⟩
    · rw [Balanced_plug, h2]; exact ⟨sp.1, pb.2.2⟩
    · rw [NoRedRed_plug]; refine ⟨sp.2.1, pn.2.2, ?_⟩
      intro ht; cases mpc <;> simp_all
    · rw [isRed_plug]; apply rootRed_mono pr
      intro ht; cases mpc <;> simp_all
  · next m mpc sl sk sr mpk rest =>
    simp only [PathBal_R, PathNoRR_R, rootRed_R, Balanced_node, NoRedRed_node, bh_node, cbh_red,
      isRed_node, decide_true, Nat.add_zero] at pb pn pr
    have hc : mpc = black := by cases mpc <;> simp_all
    subst hc
    have := dbR_spec red sr mpk m h bm hm cm rm pb.2.1.2.2 (by omega) pn.1.2.2 (by simp_all)
    simp_all [Balanced_plug, NoRedRed_plug, isRed_plug]
  · next m mpc s mpk rest hs hc ih =>
    have hs' := isRed_false_of_forall hs
    simp only [PathBal_R, PathNoRR_R, rootRed_R] at pb pn pr
    have sp := dbR_spec mpc s mpk m h bm hm cm rm pb.2.1 pb.1 pn.1 hs'
    obtain ⟨rfl, h2, h3⟩ := sp.2.2.1 hc
    exact ih (h + 1) sp.1 h2 sp.2.1 h3 (by simpa using pb.2.2) pn.2.2 (by simpa using pr)
  · next m mpc s mpk rest hs hc =>
    have hs' := isRed_false_of_forall hs
    simp only [PathBal_R, PathNoRR_R, rootRed_R] at pb pn pr
    have sp := dbR_spec mpc s mpk m h bm hm cm rm pb.2.1 pb.1 pn.1 hs'
    obtain ⟨h2, h3⟩ := sp.2.2.2 (by simpa using hc)
    refine ⟨?_, ?_, ?_⟩
    · rw [Balanced_plug, h2]; exact ⟨sp.1, pb.2.2⟩
    · rw [NoRedRed_plug]; refine ⟨sp.2.1, pn.2.2, ?_⟩
      intro ht; cases mpc <;> simp_all
    · rw [isRed_plug]; apply rootRed_mono pr
      intro ht; cases mpc <;> simp_all

theorem unlink_rb_left {nc : Color} {m : Tree} {k : Key} {path : Path}
    (h : RBColor (plug (node nc m k nil) path)) : RBColor (unlink nc m path) := by
  obtain ⟨h1, h2, h3⟩ := h
  rw [isRed_plug] at h1; rw [NoRedRed_plug] at h2; rw [Balanced_plug] at h3
  simp only [isRed_node, NoRedRed_node, Balanced_node, bh_node, bh_nil] at h1 h2 h3
  unfold unlink RBColor
  cases nc with
  | red =>
    simp only [isRed_plug, NoRedRed_plug, Balanced_plug]
    refine ⟨rootRed_mono h1 (by simp), ⟨h2.1.2.1, h2.2.1, fun _ => (h2.1.1 rfl).1⟩, h3.1.2.1, ?_⟩
    simpa using h3.2
  | black =>
    simp only
    split
    · next hr =>
      simp only [isRed_plug, NoRedRed_plug, Balanced_plug, isRed_blacken, Balanced_blacken]
      refine ⟨by simpa using h1, ⟨NoRedRed_blacken h2.1.2.1, h2.2.1, fun _ => trivial⟩, h3.1.2.1, ?_⟩
      rw [bh_blacken_of_red hr]; simpa using h3.2
    · next hr =>
      have := deleteblack_rb m path (bh m) h3.1.2.1 rfl h2.1.2.1 (by simpa using hr)
        (by simpa using h3.2) h2.2.1 (by simpa using h1)
      exact ⟨this.2.2, this.2.1, this.1⟩

theorem unlink_rb_right {nc : Color} {m : Tree} {k : Key} {path : Path}
    (h : RBColor (plug (node nc nil k m) path)) : RBColor (unlink nc m path) := by
  obtain ⟨h1, h2, h3⟩ := h
  rw [isRed_plug] at h1; rw [NoRedRed_plug] at h2; rw [Balanced_plug] at h3
  simp only [isRed_node, NoRedRed_node, Balanced_node, bh_node, bh_nil] at h1 h2 h3
  unfold unlink RBColor
  cases nc with
  | red =>
    simp only [isRed_plug, NoRedRed_plug, Balanced_plug]
    refine ⟨rootRed_mono h1 (by simp), ⟨h2.1.2.2, h2.2.1, fun _ => (h2.1.1 rfl).2⟩, h3.1.2.2, ?_⟩
    rw [← h3.1.1]; simpa using h3.2
  | black =>
    simp only
    split
    · next hr =>
      simp only [isRed_plug, NoRedRed_plug, Balanced_plug, isRed_blacken, Balanced_blacken]
      refine ⟨by simpa using h1, ⟨NoRedRed_blacken h2.1.2.2, h2.2.1, fun _ => trivial⟩, h3.1.2.2, ?_⟩
      rw [bh_blacken_of_red hr, ← h3.1.1]; simpa using h3.2
    · next hr =>
      have := deleteblack_rb m path (bh m) h3.1.2.2 rfl h2.1.2.2 (by simpa using hr)
        (by rw [← h3.1.1]; simpa using h3.2) h2.2.1 (by simpa using h1)
      exact ⟨this.2.2, this.2.1, this.1⟩

theorem RBColor_plug_key {c : Color} {l r : Tree} {k : Key} (k' : Key) {path : Path}
    (h : RBColor (plug (node c l k r) path)) : RBColor (plug (node c l k' r) path) := by
  simpa [RBColor, isRed_plug, NoRedRed_plug, Balanced_plug] using h

theorem removeAt_rb {c : Color} {l r : Tree} {k : Key} {path : Path}
    (h : RBColor (plug (node c l k r) path)) : RBColor (removeAt c l r path) := by
  unfold removeAt; split
  · next lc ll lk lr rc rl rk rr =>
    split
    next mc ml mk sub hm =>
    obtain ⟨h1, _, _⟩ := maxPath_spec hm
    apply unlink_rb_left (k := mk)
    rw [plug_append, h1]
    exact RBColor_plug_key mk h
  · exact unlink_rb_left h
  · exact unlink_rb_right h

theorem remove_rbcolor (t : Tree) (kid : Nat) (h : RBColor t) : RBColor (remove t kid) := by
  unfold remove; split
  · exact h
  · next x hx =>
    have := (locate_spec hx).1
    rw [plug_nil] at this
    rw [← this] at h
    exact removeAt_rb h

/-! ## ordering -/

/-- binary-search-tree order as the C code maintains it: everything in the left subtree is `≤` the
node, everything in the right subtree is `≥` the node (rotations move equal keys to either side) -/
def Ordered : Tree → Prop
  | nil => True
  | node _ l k r =>
    (∀ x ∈ toList l, x.val ≤ k.val) ∧ (∀ x ∈ toList r, k.val ≤ x.val) ∧ Ordered l ∧ Ordered r

theorem ordered_iff_sorted (t : Tree) : Ordered t ↔ Sorted (toList t) := by
  induction t with
  | nil => simp [Ordered]
  | node c l k r ihl ihr =>
    simp only [Ordered, ihl, ihr, toList_node, List.pairwise_append, List.pairwise_cons,
      List.mem_cons]
    constructor
    · rintro ⟨h1, h2, h3, h4⟩
      refine ⟨h3, ⟨h2, h4⟩, ?_⟩
      intro a ha b hb
      rcases hb with rfl | hb
      · exact h1 a ha
      · exact Int.le_trans (h1 a ha) (h2 b hb)
    · rintro ⟨h1, ⟨h2, h3⟩, h4⟩
      exact ⟨fun x hx => h4 x hx k (Or.inl rfl), h2, h1, h3⟩

theorem mem_insSorted {k x : Key} {l : List Key} : x ∈ insSorted k l ↔ x = k ∨ x ∈ l := by
  induction l with
  | nil => simp [insSorted]
  | cons y ys ih => simp only [insSorted]; split <;> simp [ih] <;> grind

theorem insSorted_sorted (k : Key) (l : List Key) (h : Sorted l) : Sorted (insSorted k l) := by
  induction l with
  | nil => simp [insSorted]
  | cons y ys ih =>
    simp only [List.pairwise_cons] at h
    simp only [insSorted]; split
    · next hle =>
      simp only [List.pairwise_cons, List.mem_cons]
      refine ⟨?_, h.1, h.2⟩
      rintro a (rfl | ha)
      · exact hle
      · exact Int.le_trans hle (h.1 a ha)
    · next hgt =>
      simp only [List.pairwise_cons, mem_insSorted]
      refine ⟨?_, ih h.2⟩
      rintro a (rfl | ha)
      · omega
      · exact h.1 a ha

theorem insSorted_perm (k : Key) (l : List Key) : (insSorted k l).Perm (k :: l) := by
  induction l with
  | nil => simp [insSorted]
  | cons y ys ih =>
    simp only [insSorted]; split
    · exact List.Perm.refl _
    · exact (List.Perm.cons y ih).trans (List.Perm.swap k y ys)

/-- contents of `insert` without any ordering assumption -/
theorem toList_insert_perm (t : Tree) (k : Key) : (toList (insert t k)).Perm (k :: toList t) := by
  cases t with
  | nil => simp [insert]
  | node c l pk r =>
    simp only [insert, toList_fixtree, toList_nil, List.nil_append]
    have := congrArg toList (plug_descend k (node c l pk r) [])
    rw [toList_plug, plug_nil] at this
    rw [← this]
    simp [List.perm_middle]

/-! ## size -/

theorem size_eq_length (t : Tree) : size t = (toList t).length := by
  induction t with
  | nil => rfl
  | node c l k r ihl ihr => simp [size, ihl, ihr]; omega

theorem size_insert' (t : Tree) (k : Key) : size (insert t k) = size t + 1 := by
  rw [size_eq_length, size_eq_length, (toList_insert_perm t k).length_eq]; simp

theorem contains_iff {t : Tree} {kid : Nat} : contains t kid = true ↔ ∃ k ∈ toList t, k.kid = kid := by
  unfold contains
  cases h : locate kid t [] with
  | none => have := locate_eq_none.mp h; simp; exact this
  | some x =>
    simp
    have : ¬ ∀ k ∈ toList t, k.kid ≠ kid := fun hh => by rw [locate_eq_none.mpr hh] at h; cases h
    simpa using this

theorem remove_of_not_contains {t : Tree} {kid : Nat} (h : contains t kid = false) :
    remove t kid = t := by
  unfold contains at h; unfold remove
  cases hl : locate kid t [] <;> simp_all

theorem size_remove' {t : Tree} {kid : Nat} (h : contains t kid = true) :
    size (remove t kid) + 1 = size t := by
  unfold contains at h
  cases hl : locate kid t [] with
  | none => simp [hl] at h
  | some x =>
    obtain ⟨h1, h2, _⟩ := toList_remove_of_locate hl
    rw [size_eq_length, size_eq_length, h1, h2]; simp; omega

/-! ## `rekey` -/

theorem setVal_of_not_mem {kid : Nat} {v : Int} {t : Tree} (h : ∀ k ∈ toList t, k.kid ≠ kid) :
    setVal kid v t = t := by
  induction t with
  | nil => rfl
  | node c l k r ihl ihr =>
    simp only [toList_node, List.mem_append, List.mem_cons] at h
    simp only [setVal]
    rw [ihl (fun z hz => h z (Or.inl hz)), ihr (fun z hz => h z (Or.inr (Or.inr hz))),
      if_neg (h k (Or.inr (Or.inl rfl)))]

theorem locate_setVal {kid : Nat} {v : Int} {t : Tree} {p : Path} {x : Loc}
    (hu : UniqueKids t) (h : locate kid t p = some x) :
    locate kid (setVal kid v t) p = some { x with k := ⟨kid, v⟩ } := by
  induction t generalizing p with
  | nil => simp [locate] at h
  | node c l k r ihl ihr =>
    unfold UniqueKids at hu
    simp only [toList_node, List.map_append, List.map_cons, List.nodup_append, List.nodup_cons,
      List.mem_map, List.mem_cons] at hu
    obtain ⟨ul, ⟨hkr, ur⟩, hlr⟩ := hu
    simp only [locate] at h
    simp only [setVal]
    split at h
    · next hk =>
      cases h
      have hl : ∀ z ∈ toList l, z.kid ≠ kid := fun z hz he =>
        hlr z.kid ⟨z, hz, rfl⟩ k.kid (Or.inl rfl) (by omega)
      have hr : ∀ z ∈ toList r, z.kid ≠ kid := fun z hz he => hkr ⟨z, hz, by omega⟩
      simp [locate, hk, setVal_of_not_mem hl, setVal_of_not_mem hr]
    · next hk =>
      simp only [locate, hk, if_false]
      split at h
      · next y hy =>
        cases h
        have : ¬ ∀ z ∈ toList l, z.kid ≠ kid := fun hh => by
          rw [locate_eq_none.mpr hh] at hy; cases hy
        simp only [ne_eq, Classical.not_forall, Classical.not_not] at this
        obtain ⟨z, hz, hzk⟩ := this
        have hr : ∀ w ∈ toList r, w.kid ≠ kid := fun w hw he =>
          hlr z.kid ⟨z, hz, rfl⟩ w.kid (Or.inr ⟨w, hw, rfl⟩) (by omega)
        rw [setVal_of_not_mem hr, ihl ul hy]
      · next hy =>
        have hl := locate_eq_none.mp hy
        rw [setVal_of_not_mem hl, locate_eq_none.mpr hl]
        exact ihr ur h

theorem remove_setVal {kid : Nat} {v : Int} {t : Tree} (hu : UniqueKids t) :
    remove (setVal kid v t) kid = remove t kid := by
  cases h : locate kid t [] with
  | none => rw [setVal_of_not_mem (locate_eq_none.mp h)]
  | some x => simp [remove, h, locate_setVal hu h]

theorem rekey_eq {t : Tree} {kid : Nat} {v : Int} (hu : UniqueKids t) :
    rekey t kid v = if contains t kid then insert (remove t kid) ⟨kid, v⟩ else t := by
  unfold rekey; rw [remove_setVal hu]

/-! ## queries -/

theorem min_eq_head (t : Tree) : min t = (toList t).head? := by
  induction t with
  | nil => rfl
  | node c l k r ihl _ =>
    cases l with
    | nil => simp [min]
    | node lc ll lk lr => simp only [min, ihl]; simp [List.head?_append]

theorem max_eq_getLast (t : Tree) : max t = (toList t).getLast? := by
  induction t with
  | nil => rfl
  | node c l k r _ ihr =>
    cases r with
    | nil => simp [max]
    | node rc rl rk rr =>
      simp only [max, ihr]
      simp [List.getLast?_append, List.getLast?_cons]

theorem climbSucc_eq (p : Path) : climbSucc p = (pafter p).head? := by
  induction p with
  | nil => rfl
  | cons c p ih => cases c <;> simp [climbSucc, ih]

theorem climbPred_eq (p : Path) : climbPred p = (pbefore p).getLast? := by
  induction p with
  | nil => rfl
  | cons c p ih =>
    cases c
    · simp [climbPred, ih]
    · simp only [climbPred, pbefore_R, ← List.append_assoc, List.getLast?_concat]

theorem succ_of_locate {t : Tree} {kid : Nat} {x : Loc} (h : locate kid t [] = some x) :
    succ t kid = (toList x.r ++ pafter x.path).head? := by
  simp only [succ, h]
  split
  · next hr => simp [hr, climbSucc_eq]
  · next hr =>
    rw [min_eq_head]
    cases hx : x.r with
    | nil => exact absurd hx hr
    | node c l k r => simp [List.head?_append]

theorem pred_of_locate {t : Tree} {kid : Nat} {x : Loc} (h : locate kid t [] = some x) :
    pred t kid = (pbefore x.path ++ toList x.l).getLast? := by
  simp only [pred, h]
  split
  · next hl => simp [hl, climbPred_eq]
  · next hl =>
    rw [max_eq_getLast]
    cases hx : x.l with
    | nil => exact absurd hx hl
    | node c l k r => simp [List.getLast?_append, List.getLast?_cons]

/-- with unique key objects, the position of a key object in a list is unique -/
theorem split_unique {A A' B B' : List Key} {k k' : Key} (hk : k.kid = k'.kid)
    (hn : ((A ++ k :: B).map Key.kid).Nodup) (he : A ++ k :: B = A' ++ k' :: B') :
    A = A' ∧ k = k' ∧ B = B' := by
  induction A generalizing A' with
  | nil =>
    cases A' with
    | nil => simpa using he
    | cons a A' =>
      simp only [List.nil_append, List.cons_append, List.cons.injEq] at he
      obtain ⟨rfl, rfl⟩ := he
      simp at hn
      exact absurd hk hn.1.2.1
  | cons a A ih =>
    cases A' with
    | nil =>
      simp only [List.nil_append, List.cons_append, List.cons.injEq] at he
      obtain ⟨rfl, rfl⟩ := he
      simp at hn
      exact absurd hk.symm hn.1.2.1
    | cons a' A' =>
      simp only [List.cons_append, List.cons.injEq] at he
      obtain ⟨rfl, he⟩ := he
      simp only [List.cons_append, List.map_cons, List.nodup_cons] at hn
      obtain ⟨rfl, h2, h3⟩ := ih hn.2 he
      exact ⟨rfl, h2, h3⟩

/-- `succ`: the element following key object `kid` in the in-order sequence -/
theorem succ_spec' {t : Tree} {kid : Nat} {A B : List Key} {k : Key} (hu : UniqueKids t)
    (ht : toList t = A ++ k :: B) (hk : k.kid = kid) : succ t kid = B.head? := by
  cases h : locate kid t [] with
  | none =>
    exact absurd hk (locate_eq_none.mp h k (by simp [ht]))
  | some x =>
    obtain ⟨h1, _, h3⟩ := toList_remove_of_locate h
    rw [succ_of_locate h]
    unfold UniqueKids at hu
    rw [h1] at hu ht
    simp only [List.append_assoc, List.cons_append] at hu ht
    rw [← List.append_assoc] at hu ht
    obtain ⟨_, _, rfl⟩ := split_unique (by omega) hu ht
    rfl

theorem pred_spec' {t : Tree} {kid : Nat} {A B : List Key} {k : Key} (hu : UniqueKids t)
    (ht : toList t = A ++ k :: B) (hk : k.kid = kid) : pred t kid = A.getLast? := by
  cases h : locate kid t [] with
  | none =>
    exact absurd hk (locate_eq_none.mp h k (by simp [ht]))
  | some x =>
    obtain ⟨h1, _, h3⟩ := toList_remove_of_locate h
    rw [pred_of_locate h]
    unfold UniqueKids at hu
    rw [h1] at hu ht
    simp only [List.append_assoc, List.cons_append] at hu ht
    rw [← List.append_assoc] at hu ht
    obtain ⟨rfl, _, _⟩ := split_unique (by omega) hu ht
    rfl

theorem succ_absent {t : Tree} {kid : Nat} (h : ∀ k ∈ toList t, k.kid ≠ kid) : succ t kid = none := by
  simp [succ, locate_eq_none.mpr h]

theorem pred_absent {t : Tree} {kid : Nat} (h : ∀ k ∈ toList t, k.kid ≠ kid) : pred t kid = none := by
  simp [pred, locate_eq_none.mpr h]

theorem find_some {t : Tree} {v : Int} {k : Key} (h : find t v = some k) :
    k ∈ toList t ∧ k.val = v := by
  induction t with
  | nil => simp [find] at h
  | node c l pk r ihl ihr =>
    simp only [find] at h
    split at h
    · cases h; simp_all
    · split at h
      · have := ihl h; simp [this]
      · have := ihr h; simp [this]

theorem find_isSome {t : Tree} {v : Int} (ho : Ordered t) (h : ∃ k ∈ toList t, k.val = v) :
    (find t v).isSome = true := by
  induction t with
  | nil => simp at h
  | node c l pk r ihl ihr =>
    obtain ⟨o1, o2, o3, o4⟩ := ho
    obtain ⟨k, hk, hv⟩ := h
    simp only [find]
    split
    · rfl
    · next hne =>
      simp only [toList_node, List.mem_append, List.mem_cons] at hk
      split
      · next hle =>
        apply ihl o3
        rcases hk with hk | rfl | hk
        · exact ⟨k, hk, hv⟩
        · omega
        · have := o2 k hk; omega
      · next hgt =>
        apply ihr o4
        rcases hk with hk | rfl | hk
        · have := o1 k hk; omega
        · omega
        · exact ⟨k, hk, hv⟩

theorem findLe_spec {t : Tree} (v : Int) (ho : Ordered t) :
    findLe t v = ((toList t).filter (fun k => decide (k.val ≤ v))).getLast? := by
  induction t with
  | nil => rfl
  | node c l k r ihl ihr =>
    obtain ⟨o1, o2, o3, o4⟩ := ho
    simp only [findLe, toList_node, List.filter_append, List.getLast?_append]
    split
    · next hle =>
      rw [ihr o4, List.filter_cons_of_pos (by simpa using hle), List.getLast?_cons]
      cases (List.filter (fun k => decide (k.val ≤ v)) (toList r)).getLast? <;> simp
    · next hgt =>
      have : List.filter (fun k => decide (k.val ≤ v)) (k :: toList r) = [] := by
        simp only [List.filter_eq_nil_iff, List.mem_cons, decide_eq_true_eq]
        rintro a (rfl | ha)
        · exact hgt
        · have := o2 a ha; omega
      rw [this, ihl o3]; simp

theorem findLt_spec {t : Tree} (v : Int) (ho : Ordered t) :
    findLt t v = ((toList t).filter (fun k => decide (k.val < v))).getLast? := by
  induction t with
  | nil => rfl
  | node c l k r ihl ihr =>
    obtain ⟨o1, o2, o3, o4⟩ := ho
    simp only [findLt, toList_node, List.filter_append, List.getLast?_append]
    split
    · next hle =>
      rw [ihr o4, List.filter_cons_of_pos (by simpa using hle), List.getLast?_cons]
      cases (List.filter (fun k => decide (k.val < v)) (toList r)).getLast? <;> simp
    · next hgt =>
      have : List.filter (fun k => decide (k.val < v)) (k :: toList r) = [] := by
        simp only [List.filter_eq_nil_iff, List.mem_cons, decide_eq_true_eq]
        rintro a (rfl | ha)
        · exact hgt
        · have := o2 a ha; omega
      rw [this, ihl o3]; simp

theorem findGt_spec {t : Tree} (v : Int) (ho : Ordered t) :
    findGt t v = ((toList t).filter (fun k => decide (k.val > v))).head? := by
  induction t with
  | nil => rfl
  | node c l k r ihl ihr =>
    obtain ⟨o1, o2, o3, o4⟩ := ho
    simp only [findGt, toList_node, List.filter_append, List.head?_append]
    split
    · next hgt =>
      rw [ihl o3, List.filter_cons_of_pos (by simpa using hgt), List.head?_cons]
      cases (List.filter (fun k => decide (k.val > v)) (toList l)).head? <;> simp
    · next hle =>
      have : List.filter (fun k => decide (k.val > v)) (toList l) = [] := by
        simp only [List.filter_eq_nil_iff, decide_eq_true_eq]
        intro a ha
        have := o1 a ha; omega
      rw [this, List.filter_cons_of_neg (by simpa using hle), ihr o4]; simp

/-! ## height -/

/-- number of nodes on the longest root-to-NIL path -/
def height : Tree → Nat
  | nil => 0
  | node _ l _ r => Max.max (height l) (height r) + 1

theorem pow_bh_le_size (t : Tree) (h : Balanced t) : 2 ^ bh t ≤ size t + 1 := by
  induction t with
  | nil => simp [size]
  | node c l k r ihl ihr =>
    obtain ⟨h1, h2, h3⟩ := h
    have := ihl h2; have := ihr h3
    rw [← h1] at *
    cases c <;> simp only [bh_node, cbh_red, cbh_black, size, Nat.add_zero, Nat.pow_succ] <;> omega

theorem height_le_bh (t : Tree) (hb : Balanced t) (hn : NoRedRed t) :
    height t ≤ 2 * bh t + (if isRed t then 1 else 0) := by
  induction t with
  | nil => simp [height]
  | node c l k r ihl ihr =>
    obtain ⟨h1, h2, h3⟩ := hb
    obtain ⟨n1, n2, n3⟩ := hn
    have hl := ihl h2 n2; have hr := ihr h3 n3
    rw [← h1] at hr
    cases c
    · obtain ⟨r1, r2⟩ := n1 rfl
      simp only [r1, r2, Bool.false_eq_true, if_false, Nat.add_zero] at hl hr
      simp only [height, bh_node, cbh_red, isRed_node, decide_true, if_true, Nat.add_zero]
      have := Nat.max_le.mpr ⟨hl, hr⟩
      omega
    · have e1 : height l ≤ 2 * bh l + 1 := by split at hl <;> omega
      have e2 : height r ≤ 2 * bh l + 1 := by split at hr <;> omega
      have := Nat.max_le.mpr ⟨e1, e2⟩
      simp only [height, bh_node, cbh_black, isRed_node]
      simp
      omega

theorem height_le_log (t : Tree) (hr : isRed t = false) (hn : NoRedRed t) (hb : Balanced t) :
    height t ≤ 2 * Nat.log2 (size t + 1) := by
  have h1 := height_le_bh t hb hn
  have h2 := pow_bh_le_size t hb
  have h3 := (Nat.le_log2 (n := size t + 1) (k := bh t) (by omega)).mpr h2
  simp only [hr] at h1
  simp at h1
  omega

/-! ## `check` -/

/-- the local ordering test of `check_node`: a non-NIL left child is `≤` its parent -/
def lchildOk (l : Tree) (k : Key) : Prop :=
  match l with
  | nil => True
  | node _ _ lk _ => lk.val ≤ k.val

/-- a non-NIL right child is `≥` its parent -/
def rchildOk (k : Key) (r : Tree) : Prop :=
  match r with
  | nil => True
  | node _ _ rk _ => k.val ≤ rk.val

/-- what `check_node` verifies about the order: only children against their parent -/
def LocalOrd : Tree → Prop
  | nil => True
  | node _ l k r => lchildOk l k ∧ rchildOk k r ∧ LocalOrd l ∧ LocalOrd r

theorem rchildBad_iff (k : Key) (r : Tree) : rchildBad k r = false ↔ rchildOk k r := by
  cases r <;> simp [rchildOk, rchildBad]

theorem lchildBad_iff (k : Key) (l : Tree) : lchildBad k l = false ↔ lchildOk l k := by
  cases l <;> simp [lchildOk, lchildBad]

theorem checkNode_eq_some (t : Tree) (n : Nat) :
    checkNode t = some n ↔ LocalOrd t ∧ NoRedRed t ∧ Balanced t ∧ bh t = n := by
  induction t generalizing n with
  | nil => simp [checkNode, LocalOrd]
  | node c l k r ihl ihr =>
    simp only [checkNode, LocalOrd, NoRedRed_node, Balanced_node, bh_node, ← rchildBad_iff,
      ← lchildBad_iff]
    cases rchildBad k r <;> cases lchildBad k l <;>
      simp only [if_true, if_false, false_and, Bool.false_eq_true, Bool.true_eq_false,
        and_false, true_and, reduceCtorEq]
    by_cases hc : c = red ∧ (isRed r = true ∨ isRed l = true)
    · obtain ⟨rfl, h⟩ := hc
      simp only [h, and_self, if_true, reduceCtorEq, false_iff]
      intro hh
      have := hh.2.1.1 trivial
      rcases h with h | h <;> simp_all
    · simp only [hc, if_false]
      have h1 := ihr (bh r); have h2 := ihl (bh l)
      cases hr : checkNode r <;> cases hl : checkNode l
      · simp only [hr, reduceCtorEq, false_iff] at h1
        simp only [reduceCtorEq, false_iff]; grind
      · simp only [hr, reduceCtorEq, false_iff] at h1
        simp only [reduceCtorEq, false_iff]; grind
      · simp only [hl, reduceCtorEq, false_iff] at h2
        simp only [reduceCtorEq, false_iff]; grind
      · next a b =>
        have ha := (ihr a).mp hr; have hb := (ihl b).mp hl
        simp only
        cases c <;> simp_all <;> grind

end Nlopt.RB
