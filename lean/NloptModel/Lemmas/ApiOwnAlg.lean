import NloptModel.Lemmas.ApiWorld
/-! Ownership algebra for the allocator model of `Model/Api.lean`:
    which blocks an object owns (`Core.owned`), the generic footprint invariant `Good`, and the effect of
    the allocator primitives (`alloc`, `free`, `realloc`, hooks) on it. -/
set_option linter.unusedSimpArgs false
set_option linter.unusedVariables false
namespace Nlopt

/-! ### owned blocks -/

def oBlk : Option Nat → List Nat
  | none => []
  | some b => [b]

def oArr : Option Arr → List Nat
  | none => []
  | some a => [a.blk]

def tolBlks (cs : List Con) : List Nat := cs.flatMap (fun c => oArr c.tol)
def nameBlks (ps : List Param) : List Nat := ps.map (·.nameBlk)

/-- every block id a core owns -/
def Core.owned (c : Core) : List Nat :=
  c.self :: (oBlk c.paramsBlk ++ nameBlks c.params ++ oArr c.lb ++ oArr c.ub ++ oArr c.xtolAbs ++ oArr c.xWeights
    ++ oArr c.dx ++ oBlk c.fcBlk ++ oBlk c.hBlk ++ tolBlks c.fc ++ tolBlks c.h ++ oBlk c.errmsg)

def ownedChain (l : List Core) : List Nat := l.flatMap Core.owned
def Obj.owned (o : Obj) : List Nat := ownedChain o.chain
def slotOwned : Option Obj → List Nat
  | none => []
  | some o => o.owned
def World.owned (w : World) : List Nat := w.slots.flatMap slotOwned

@[simp] theorem oBlk_none : oBlk none = [] := rfl
@[simp] theorem oBlk_some (b : Nat) : oBlk (some b) = [b] := rfl
@[simp] theorem oArr_none : oArr none = [] := rfl
@[simp] theorem oArr_some (a : Arr) : oArr (some a) = [a.blk] := rfl
@[simp] theorem oArr_setArrV (a : Option Arr) (v : List F64) : oArr (setArrV a v) = oArr a := by
  cases a <;> rfl
@[simp] theorem tolBlks_nil : tolBlks [] = [] := rfl
@[simp] theorem tolBlks_cons (c : Con) (cs : List Con) : tolBlks (c :: cs) = oArr c.tol ++ tolBlks cs := by
  simp [tolBlks]
@[simp] theorem tolBlks_append (a b : List Con) : tolBlks (a ++ b) = tolBlks a ++ tolBlks b := by
  simp [tolBlks]
@[simp] theorem nameBlks_nil : nameBlks [] = [] := rfl
@[simp] theorem nameBlks_cons (p : Param) (ps : List Param) : nameBlks (p :: ps) = p.nameBlk :: nameBlks ps := rfl
@[simp] theorem nameBlks_append (a b : List Param) : nameBlks (a ++ b) = nameBlks a ++ nameBlks b := by
  simp [nameBlks]
@[simp] theorem nameBlks_modify_val (ps : List Param) (i : Nat) (v : F64) :
    nameBlks (ps.modify i (fun p => { p with val := v })) = nameBlks ps := by
  induction ps generalizing i with
  | nil => simp [nameBlks]
  | cons p ps ih =>
    cases i with
    | zero => simp [nameBlks, List.modify]
    | succ i => simpa [nameBlks, List.modify] using ih i
@[simp] theorem ownedChain_nil : ownedChain [] = [] := rfl
@[simp] theorem ownedChain_cons (c : Core) (l : List Core) : ownedChain (c :: l) = c.owned ++ ownedChain l := by
  simp [ownedChain]

/-! ### event classification -/

def Ev.isBad : Ev → Bool
  | .badFree _ => true
  | _ => false

def Ev.isFail : Ev → Bool
  | .allocFail => true
  | .reallocFail _ => true
  | _ => false

/-! ### the footprint invariant -/

/-- the fixed context of a footprint argument -/
structure Ctx where
  /-- `live` always keeps this list as a suffix -/
  base : List Nat
  /-- blocks owned by everything outside the footprint -/
  rest : List Nat
  /-- the event log so far -/
  ev0 : List Ev

/-- allocator state `s` is consistent with "the footprint owns exactly `own`" in context `P` -/
structure Good (P : Ctx) (s : AS) (own : List Nat) : Prop where
  cnt : ∀ b, own.count b + P.rest.count b = s.live.count b
  nodup : ∀ b, s.live.count b ≤ 1
  lt : ∀ b, b ∈ s.live → b < s.next
  suf : ∃ X, s.live = X ++ P.base
  base_rest : ∀ b, b ∈ P.base → b ∈ P.rest
  evs : ∃ new, s.evs = P.ev0 ++ new ∧ ∀ e ∈ new, e.isBad = false

/-- side conditions "same multiset" are discharged by this -/
macro "cnt" : tactic =>
  `(tactic| (intro b; simp only [Core.owned, List.count_append, List.count_cons, List.count_nil, oBlk_none, oBlk_some,
      oArr_none, oArr_some, oArr_setArrV, tolBlks_nil, tolBlks_cons, tolBlks_append, nameBlks_nil, nameBlks_cons,
      nameBlks_append, nameBlks_modify_val, ownedChain_nil, ownedChain_cons, List.append_nil, List.nil_append] <;> omega))

theorem Good.perm {P : Ctx} {s : AS} {own own' : List Nat} (h : Good P s own)
    (hp : ∀ b, own.count b = own'.count b) : Good P s own' :=
  { h with cnt := fun b => by rw [← hp b]; exact h.cnt b }

theorem Good.mem_live {P : Ctx} {s : AS} {own : List Nat} (h : Good P s own) {b : Nat} (hb : b ∈ own) :
    b ∈ s.live := by
  have := h.cnt b
  have h1 : 0 < own.count b := List.count_pos_iff.mpr hb
  exact List.count_pos_iff.mp (by omega)

/-! ### primitives -/

theorem alloc_some {s s' : AS} {sz id : Nat} (h : s.alloc sz = (some id, s')) :
    id = s.next ∧ s'.next = s.next + 1 ∧ s'.live = s.next :: s.live ∧ s'.evs = s.evs ++ [.alloc s.next sz] ∧
    s'.sz = s.sz ∧ s'.numAlgs = s.numAlgs := by
  unfold AS.alloc AS.tick at h
  simp only [AS.emit] at h
  repeat' split at h
  all_goals simp_all
  all_goals (obtain ⟨h1, h2⟩ := h; subst h2; simp_all)

theorem alloc_none {s s' : AS} {sz : Nat} (h : s.alloc sz = (none, s')) :
    s'.next = s.next ∧ s'.live = s.live ∧ s'.evs = s.evs ++ [.allocFail] ∧
    s'.sz = s.sz ∧ s'.numAlgs = s.numAlgs := by
  unfold AS.alloc AS.tick at h
  simp only [AS.emit] at h
  repeat' split at h
  all_goals simp_all
  all_goals (subst h; simp_all)

theorem Good.emit {P : Ctx} {s : AS} {own : List Nat} (h : Good P s own) (e : Ev) (he : e.isBad = false) :
    Good P (s.emit e) own := by
  refine { h with evs := ?_ }
  obtain ⟨new, h1, h2⟩ := h.evs
  refine ⟨new ++ [e], by simp [AS.emit, h1], ?_⟩
  intro e' he'
  simp only [List.mem_append, List.mem_singleton] at he'
  rcases he' with h' | h'
  · exact h2 _ h'
  · subst h'; exact he

theorem good_alloc_some {P : Ctx} {s s' : AS} {sz id : Nat} {own : List Nat}
    (ha : s.alloc sz = (some id, s')) (h : Good P s own) : Good P s' (id :: own) := by
  obtain ⟨h1, h2, h3, h4, _, _⟩ := alloc_some ha
  subst h1
  have hfresh : s.live.count s.next = 0 := by
    apply List.count_eq_zero.mpr
    intro hm; have := h.lt _ hm; omega
  refine ⟨?_, ?_, ?_, ?_, h.base_rest, ?_⟩
  · intro b
    have := h.cnt b
    rw [h3]; simp only [List.count_cons]; omega
  · intro b
    have := h.nodup b
    rw [h3]; simp only [List.count_cons]
    by_cases hb : s.next = b
    · subst hb; simp [hfresh]
    · simp [hb]; exact this
  · intro b hb
    rw [h3] at hb; rw [h2]
    rcases List.mem_cons.mp hb with h' | h'
    · omega
    · have := h.lt _ h'; omega
  · obtain ⟨X, hX⟩ := h.suf
    exact ⟨s.next :: X, by rw [h3, hX]; rfl⟩
  · obtain ⟨new, h5, h6⟩ := h.evs
    refine ⟨new ++ [.alloc s.next sz], by rw [h4, h5]; simp, ?_⟩
    intro e he
    simp only [List.mem_append, List.mem_singleton] at he
    rcases he with h' | h'
    · exact h6 _ h'
    · subst h'; rfl

theorem good_alloc_none {P : Ctx} {s s' : AS} {sz : Nat} {own : List Nat}
    (ha : s.alloc sz = (none, s')) (h : Good P s own) : Good P s' own := by
  obtain ⟨h1, h2, h3, _, _⟩ := alloc_none ha
  refine ⟨?_, ?_, ?_, ?_, h.base_rest, ?_⟩
  · rw [h2]; exact h.cnt
  · rw [h2]; exact h.nodup
  · rw [h2, h1]; exact h.lt
  · rw [h2]; exact h.suf
  · obtain ⟨new, h5, h6⟩ := h.evs
    refine ⟨new ++ [.allocFail], by rw [h3, h5]; simp, ?_⟩
    intro e he
    simp only [List.mem_append, List.mem_singleton] at he
    rcases he with h' | h'
    · exact h6 _ h'
    · subst h'; rfl

/-- erasing a block of the footprint from `live` -/
theorem good_erase {P : Ctx} {s : AS} {b : Nat} {own : List Nat} (h : Good P s (b :: own)) (s' : AS)
    (hl : s'.live = s.live.erase b) (hn : s'.next = s.next) (he : s'.evs = s.evs) : Good P s' own := by
  have hmem : b ∈ s.live := h.mem_live (List.mem_cons_self)
  have hcb := h.cnt b
  have hnb := h.nodup b
  simp only [List.count_cons_self] at hcb
  refine ⟨?_, ?_, ?_, ?_, h.base_rest, ?_⟩
  · intro x
    have := h.cnt x
    rw [hl, List.count_erase]
    simp only [List.count_cons] at this
    by_cases hx : b = x
    · subst hx; simp at this ⊢; omega
    · simp [hx] at this ⊢; omega
  · intro x
    have := h.nodup x
    rw [hl, List.count_erase]; omega
  · intro x hx
    rw [hl] at hx; rw [hn]
    exact h.lt _ (List.mem_of_mem_erase hx)
  · obtain ⟨X, hX⟩ := h.suf
    have hnb' : b ∉ P.base := by
      intro hb
      have := List.count_pos_iff.mpr (h.base_rest _ hb)
      omega
    have hbX : b ∈ X := by
      rw [hX] at hmem
      rcases List.mem_append.mp hmem with h' | h'
      · exact h'
      · exact absurd h' hnb'
    exact ⟨X.erase b, by rw [hl, hX, List.erase_append_left _ hbX]⟩
  · rw [he]; exact h.evs

theorem good_free {P : Ctx} {s : AS} {b : Nat} {own : List Nat} (h : Good P s (b :: own)) :
    Good P (s.free b) own := by
  have hmem : b ∈ s.live := h.mem_live (List.mem_cons_self)
  have hc : s.live.contains b = true := by simpa using hmem
  unfold AS.free
  rw [if_pos hc]
  have h1 : Good P (s.emit (.free b)) (b :: own) := h.emit _ rfl
  exact good_erase h1 _ rfl rfl rfl

theorem good_freeOpt {P : Ctx} {s : AS} {ob : Option Nat} {own : List Nat} (h : Good P s (oBlk ob ++ own)) :
    Good P (s.freeOpt ob) own := by
  cases ob with
  | none => exact h
  | some b => exact good_free h

theorem good_freeArr {P : Ctx} {s : AS} {oa : Option Arr} {own : List Nat} (h : Good P s (oArr oa ++ own)) :
    Good P (s.freeArr oa) own := by
  cases oa with
  | none => exact h
  | some b => exact good_free h

theorem realloc_some {s s' : AS} {sz id o : Nat} (h : s.realloc (some o) sz = (some id, s')) :
    id = s.next ∧ s'.next = s.next + 1 ∧ s'.live = s.next :: s.live.erase o ∧
    s'.evs = s.evs ++ [.realloc o s.next sz] ∧ s'.sz = s.sz ∧ s'.numAlgs = s.numAlgs := by
  unfold AS.realloc AS.tick at h
  simp only [AS.emit] at h
  repeat' split at h
  all_goals simp_all
  all_goals (obtain ⟨h1, h2⟩ := h; subst h2; simp_all)

theorem realloc_none {s s' : AS} {sz o : Nat} (h : s.realloc (some o) sz = (none, s')) :
    s'.next = s.next ∧ s'.live = s.live ∧ s'.evs = s.evs ++ [.reallocFail o] ∧
    s'.sz = s.sz ∧ s'.numAlgs = s.numAlgs := by
  unfold AS.realloc AS.tick at h
  simp only [AS.emit] at h
  repeat' split at h
  all_goals simp_all
  all_goals (subst h; simp_all)

theorem good_realloc_some {P : Ctx} {s s' : AS} {sz id : Nat} {ob : Option Nat} {own : List Nat}
    (ha : s.realloc ob sz = (some id, s')) (h : Good P s (oBlk ob ++ own)) : Good P s' (id :: own) := by
  cases ob with
  | none => exact good_alloc_some ha h
  | some o =>
    obtain ⟨h1, h2, h3, h4, _, _⟩ := realloc_some ha
    -- first erase `o`, then allocate
    let s1 : AS := { s with live := s.live.erase o }
    have g1 : Good P s1 own := good_erase h s1 rfl rfl rfl
    let s2 : AS := { s1 with evs := s.evs ++ [.realloc o s.next sz] }
    have g2 : Good P s2 own := by
      have := g1.emit (.realloc o s.next sz) rfl
      exact this
    have hfresh : s1.live.count s.next = 0 := by
      apply List.count_eq_zero.mpr
      intro hm; have := g1.lt _ hm; simp [s1] at this
    subst h1
    refine ⟨?_, ?_, ?_, ?_, h.base_rest, ?_⟩
    · intro b
      have := g1.cnt b
      rw [h3]; simp only [List.count_cons]; simp only [s1] at this; omega
    · intro b
      have := g1.nodup b
      rw [h3]; simp only [List.count_cons]
      by_cases hb : s.next = b
      · subst hb; simp only [s1] at hfresh; simp [hfresh]
      · simp only [s1] at this; simp [hb]; exact this
    · intro b hb
      rw [h3] at hb; rw [h2]
      rcases List.mem_cons.mp hb with h' | h'
      · omega
      · have := g1.lt _ h'; simp only [s1] at this; omega
    · obtain ⟨X, hX⟩ := g1.suf
      exact ⟨s.next :: X, by rw [h3]; simp only [s1] at hX; rw [hX]; rfl⟩
    · rw [h4]; exact g2.evs

theorem good_realloc_none {P : Ctx} {s s' : AS} {sz : Nat} {ob : Option Nat} {own : List Nat}
    (ha : s.realloc ob sz = (none, s')) (h : Good P s own) : Good P s' own := by
  cases ob with
  | none => exact good_alloc_none ha h
  | some o =>
    obtain ⟨h1, h2, h3, _, _⟩ := realloc_none ha
    refine ⟨?_, ?_, ?_, ?_, h.base_rest, ?_⟩
    · rw [h2]; exact h.cnt
    · rw [h2]; exact h.nodup
    · rw [h2, h1]; exact h.lt
    · rw [h2]; exact h.suf
    · obtain ⟨new, h5, h6⟩ := h.evs
      refine ⟨new ++ [.reallocFail o], by rw [h3, h5]; simp, ?_⟩
      intro e he
      simp only [List.mem_append, List.mem_singleton] at he
      rcases he with h' | h'
      · exact h6 _ h'
      · subst h'; rfl

theorem good_allocArr_some {P : Ctx} {s s' : AS} {v : List F64} {a : Arr} {own : List Nat}
    (ha : allocArr s v = (some a, s')) (h : Good P s own) : Good P s' (a.blk :: own) := by
  unfold allocArr at ha
  split at ha
  · next b s1 heq =>
    simp only [Prod.mk.injEq, Option.some.injEq] at ha
    obtain ⟨h1, h2⟩ := ha
    subst h1 h2
    exact good_alloc_some heq h
  · simp at ha

theorem good_allocArr_none {P : Ctx} {s s' : AS} {v : List F64} {own : List Nat}
    (ha : allocArr s v = (none, s')) (h : Good P s own) : Good P s' own := by
  unfold allocArr at ha
  split at ha
  · simp at ha
  · next s1 heq =>
    simp only [Prod.mk.injEq, true_and] at ha
    subst ha
    exact good_alloc_none heq h

theorem good_mungeDestroy {P : Ctx} {s : AS} {own : List Nat} (h : Good P s own) (d : Nat) :
    Good P (s.mungeDestroy d) own := h.emit _ rfl

theorem good_mungeCopy {P : Ctx} {s : AS} {own : List Nat} (h : Good P s own) (d : Nat) :
    Good P (s.mungeCopy d).2 own := by
  unfold AS.mungeCopy
  split
  · have := h.emit (.mungeC d 0) rfl
    exact { this with }
  · simp only []
    split
    · have := h.emit (.mungeC d s.nextData) rfl
      exact { this with }
    · have h' : Good P { s with mcFailIn := s.mcFailIn - 1 } own := { h with }
      have := h'.emit (.mungeC d s.nextData) rfl
      exact { this with }

theorem good_mungeCons {P : Ctx} {own : List Nat} (cs : List Con) {s : AS} (h : Good P s own) :
    Good P (mungeCons s cs) own := by
  unfold mungeCons
  induction cs generalizing s with
  | nil => exact h
  | cons c cs ih => exact ih (good_mungeDestroy h _)

theorem good_freeTols {P : Ctx} {own : List Nat} (cs : List Con) {s : AS} (h : Good P s (tolBlks cs ++ own)) :
    Good P (freeTols s cs) own := by
  unfold freeTols
  induction cs generalizing s with
  | nil => exact h
  | cons c cs ih =>
    simp only [List.foldl_cons]
    apply ih
    apply good_freeArr
    exact h.perm (by cnt)

theorem good_freeNames {P : Ctx} {own : List Nat} (ps : List Param) {s : AS} (h : Good P s (nameBlks ps ++ own)) :
    Good P (freeNames s ps) own := by
  unfold freeNames
  induction ps generalizing s with
  | nil => exact h
  | cons p ps ih =>
    simp only [List.foldl_cons]
    apply ih
    apply good_free
    exact h.perm (by cnt)

end Nlopt
