/-
  Lemmas about the Sobol' generator model (Model/Sobol.lean).
  Core Lean only (no Mathlib): `omega`, `simp`, `decide`, `Nat.testBit` extensionality.
  Contents: 1 tables, 2 direction numbers, 3 rightzero32 / Gray code / b = log2 n,
  4 per-dimension invariant, 5 closed form of the state, 6 stratification (with a
  hand-made pigeonhole), 7 outputs, 8 nlopt_sobol_skip, 9 portable rightzero32.
-/
import NloptModel.Model.Sobol

namespace Nlopt.Sobol
open Nlopt.Sobol.Tables

/-! ## 1. The tables -/

/-- Well-formedness of one table column `(a, rows)`: the degree `d` of `a` satisfies
    `1 ≤ d ≤ 13 = MAXDEG + 1`, `a` is odd (constant coefficient 1), there are 13 rows, and
    row `j < d` is odd and `< 2^(j+1)`. -/
def entryOK (e : Nat × List Nat) : Bool :=
  let d := degree e.1
  decide (1 ≤ d) && decide (d ≤ 13) && decide (e.1 % 2 = 1) && decide (e.2.length = 13) &&
    (List.range d).all (fun j => decide ((e.2.getD j 0) % 2 = 1) && decide (e.2.getD j 0 < 2 ^ (j + 1)))

/-- every column of every chunk is well formed (kernel evaluation, chunk by chunk) -/
theorem chunks_ok : sobolChunks.all (fun ch => ch.all entryOK) = true := by decide +kernel

theorem table_len : sobolTable.length = 1110 := by decide +kernel

theorem maxdim_eq : maxdim = 1111 := rfl

theorem entry_ok (t : Nat) (ht : t < 1110) : entryOK (sobolEntry t) = true := by
  have hlen := table_len
  have hmem : sobolEntry t ∈ sobolTable := by
    unfold sobolEntry
    rw [List.getD_eq_getElem?_getD, List.getElem?_eq_getElem (by omega)]
    exact List.getElem_mem _
  unfold sobolTable at hmem
  obtain ⟨ch, hch, he⟩ := List.mem_flatten.mp hmem
  exact (List.all_eq_true.mp ((List.all_eq_true.mp chunks_ok) ch hch)) _ he

/-- unpacked form of `entry_ok` -/
theorem entry_facts (t : Nat) (ht : t < 1110) :
    1 ≤ degree (sobolA t) ∧ degree (sobolA t) ≤ 13 ∧ sobolA t % 2 = 1 ∧
    ∀ j, j < degree (sobolA t) → sobolMinit j t % 2 = 1 ∧ sobolMinit j t < 2 ^ (j + 1) := by
  have h := entry_ok t ht
  unfold entryOK at h
  simp only [Bool.and_eq_true, decide_eq_true_eq, List.all_eq_true, List.mem_range] at h
  obtain ⟨⟨⟨⟨h1, h2⟩, h3⟩, _⟩, h4⟩ := h
  exact ⟨h1, h2, h3, fun j hj => h4 j hj⟩

/-! ## 2. Direction numbers -/

/-- the entries present in `m` are odd and entry `j` is `< 2^(j+1)` -/
def PreOK (m : List Nat) : Prop :=
  ∀ j, j < m.length → m.getD j 0 % 2 = 1 ∧ m.getD j 0 < 2 ^ (j + 1)

/-- a full column of 32 direction numbers -/
def DirOK (m : List Nat) : Prop := m.length = 32 ∧ PreOK m

theorem wrap32_of_lt {x : Nat} (h : x < 2 ^ 32) : wrap32 x = x := by
  unfold wrap32; omega

theorem two_pow_le_32 {j : Nat} (h : j ≤ 32) : 2 ^ j ≤ 2 ^ 32 :=
  Nat.pow_le_pow_right (by omega) h

/-- one term of the recurrence: no overflow, even, bounded -/
theorem recurTerm_ok (m : List Nat) (j d k a : Nat) (hm : PreOK m) (hlen : m.length = j)
    (hdj : d ≤ j) (hj : j < 32) (hk : k < d) :
    recurTerm wrap32 m j d k a = recurTerm id m j d k a ∧
    recurTerm id m j d k a % 2 = 0 ∧ recurTerm id m j d k a < 2 ^ (j + 1) := by
  obtain ⟨_, hv⟩ := hm (j - d + k) (by omega)
  have ha : a &&& 1 = a % 2 := Nat.and_one_is_mod a
  have h32 : (2:Nat) ^ (j + 1) ≤ 2 ^ 32 := two_pow_le_32 (by omega)
  have hle : (2:Nat) ^ (j - d + k + 1) ≤ 2 ^ 32 := two_pow_le_32 (by omega)
  -- the product `(a & 1) * m[..]`
  have ht0 : (a &&& 1) * m.getD (j - d + k) 0 < 2 ^ (j - d + k + 1) := by
    rw [ha]
    rcases Nat.mod_two_eq_zero_or_one a with h | h
    · rw [h, Nat.zero_mul]; exact Nat.two_pow_pos _
    · rw [h, Nat.one_mul]; exact hv
  -- the shifted product
  have hsh : ((a &&& 1) * m.getD (j - d + k) 0) <<< (d - k) < 2 ^ (j + 1) := by
    rw [Nat.shiftLeft_eq]
    have : j + 1 = (j - d + k + 1) + (d - k) := by omega
    rw [this, Nat.pow_add]
    exact Nat.mul_lt_mul_of_lt_of_le ht0 (Nat.le_refl _) (Nat.two_pow_pos _)
  have hev : (((a &&& 1) * m.getD (j - d + k) 0) <<< (d - k)) % 2 = 0 := by
    rw [Nat.shiftLeft_eq]
    have : d - k = (d - k - 1) + 1 := by omega
    rw [this, Nat.pow_succ, ← Nat.mul_assoc]
    exact Nat.mul_mod_left _ _
  unfold recurTerm
  simp only [id]
  rw [wrap32_of_lt (by omega : (a &&& 1) * m.getD (j - d + k) 0 < 2 ^ 32), wrap32_of_lt (by omega)]
  exact ⟨rfl, hev, hsh⟩

theorem xor_odd_even {x y : Nat} (hx : x % 2 = 1) (hy : y % 2 = 0) : (x ^^^ y) % 2 = 1 := by
  rw [Nat.xor_mod_two_eq_one]; omega

theorem recurLoop_ok (m : List Nat) (j d : Nat) (hm : PreOK m) (hlen : m.length = j)
    (hdj : d ≤ j) (hj : j < 32) :
    ∀ (f k a acc : Nat), f + k = d → acc % 2 = 1 → acc < 2 ^ (j + 1) →
      recurLoop wrap32 m j d f k a acc = recurLoop id m j d f k a acc ∧
      recurLoop id m j d f k a acc % 2 = 1 ∧ recurLoop id m j d f k a acc < 2 ^ (j + 1) := by
  intro f
  induction f with
  | zero => intro k a acc _ h1 h2; exact ⟨rfl, h1, h2⟩
  | succ f ih =>
    intro k a acc hk h1 h2
    obtain ⟨e, hev, hlt⟩ := recurTerm_ok m j d k a hm hlen hdj hj (by omega)
    unfold recurLoop
    rw [e]
    exact ih (k + 1) (a >>> 1) _ (by omega) (xor_odd_even h1 hev) (Nat.xor_lt_two_pow h2 hlt)

/-- the new direction number: no overflow, odd, `< 2^(j+1)` -/
theorem newM_ok (m : List Nat) (a d j : Nat) (hm : PreOK m) (hlen : m.length = j)
    (hd : 1 ≤ d) (hdj : d ≤ j) (hj : j < 32) :
    newM wrap32 m a d j = newM id m a d j ∧
    newM id m a d j % 2 = 1 ∧ newM id m a d j < 2 ^ (j + 1) := by
  obtain ⟨h1, h2⟩ := hm (j - d) (by omega)
  unfold newM
  refine recurLoop_ok m j d hm hlen hdj hj d 0 a _ (by omega) h1 ?_
  exact Nat.lt_of_lt_of_le h2 (Nat.pow_le_pow_right (by omega) (by omega))

theorem preOK_snoc (m : List Nat) (v : Nat) (hm : PreOK m) (h1 : v % 2 = 1)
    (h2 : v < 2 ^ (m.length + 1)) : PreOK (m ++ [v]) := by
  intro j hj
  rw [List.length_append, List.length_singleton] at hj
  rw [List.getD_eq_getElem?_getD, List.getElem?_append]
  by_cases hlt : j < m.length
  · rw [if_pos hlt, ← List.getD_eq_getElem?_getD]; exact hm j hlt
  · have : j = m.length := by omega
    subst this
    simp [h1, h2]

theorem fillLoop_ok (a d : Nat) (hd : 1 ≤ d) :
    ∀ (f j : Nat) (m : List Nat), f + j = 32 → m.length = j → d ≤ j → PreOK m →
      fillLoop wrap32 a d f j m = fillLoop id a d f j m ∧ DirOK (fillLoop id a d f j m) := by
  intro f
  induction f with
  | zero => intro j m h hl _ hm; exact ⟨rfl, (by omega : m.length = 32), hm⟩
  | succ f ih =>
    intro j m h hl hdj hm
    obtain ⟨e, h1, h2⟩ := newM_ok m a d j hm hl hd hdj (by omega)
    unfold fillLoop
    rw [e]
    refine ih (j + 1) _ (by omega) (by simp [hl]) (by omega) ?_
    exact preOK_snoc m _ hm h1 (by rw [hl]; exact h2)

theorem preOK_table (t : Nat) (ht : t < 1110) :
    PreOK ((List.range (degree (sobolA t))).map (fun j => sobolMinit j t)) := by
  obtain ⟨_, _, _, h⟩ := entry_facts t ht
  intro j hj
  simp only [List.length_map, List.length_range] at hj
  rw [List.getD_eq_getElem?_getD, List.getElem?_map, List.getElem?_range hj]
  exact h j hj

/-- all 32 direction numbers of every dimension are odd and `m[j] < 2^(j+1)`, and the
    32-bit computation coincides with the computation in unbounded arithmetic. -/
theorem initM_ok (i : Nat) (hi : i < 1111) : initM i = initMExact i ∧ DirOK (initM i) := by
  unfold initM initMExact initMG
  by_cases h0 : i = 0
  · rw [if_pos h0, if_pos h0]
    refine ⟨rfl, List.length_replicate, ?_⟩
    intro j hj
    simp only [List.length_replicate] at hj
    rw [List.getD_eq_getElem?_getD, List.getElem?_replicate, if_pos hj]
    exact ⟨rfl, Nat.one_lt_two_pow (by omega)⟩
  · rw [if_neg h0, if_neg h0]
    obtain ⟨hd1, hd13, _⟩ := entry_facts (i - 1) (by omega)
    have := fillLoop_ok (sobolA (i - 1)) (degree (sobolA (i - 1))) hd1
      (32 - degree (sobolA (i - 1))) (degree (sobolA (i - 1))) _ (by omega) (by simp) (Nat.le_refl _)
      (preOK_table (i - 1) (by omega))
    obtain ⟨e, hok⟩ := this
    refine ⟨e, ?_⟩
    rw [e]; exact hok

/-! ## 3. `rightzero32`, Gray code -/

/-- `c` is the position of the lowest zero bit of `n` -/
def IsRZ (n c : Nat) : Prop := n % 2 ^ (c + 1) = 2 ^ c - 1

theorem rzLoop_spec : ∀ (f n : Nat), n % 2 ^ f ≠ 2 ^ f - 1 →
    rzLoop f n < f ∧ IsRZ n (rzLoop f n) := by
  intro f
  induction f with
  | zero => intro n h; simp [Nat.mod_one] at h
  | succ f ih =>
    intro n h
    unfold rzLoop
    by_cases h2 : n % 2 = 0
    · rw [if_pos h2]; exact ⟨by omega, by simpa [IsRZ] using h2⟩
    · rw [if_neg h2]
      have hp : 0 < 2 ^ f := Nat.two_pow_pos f
      have e1 : n % 2 ^ (f + 1) = n % 2 + 2 * (n / 2 % 2 ^ f) := by
        rw [Nat.pow_succ, Nat.mul_comm, Nat.mod_mul]
      have e2 : (2:Nat) ^ (f + 1) = 2 * 2 ^ f := by rw [Nat.pow_succ, Nat.mul_comm]
      obtain ⟨h3, h4⟩ := ih (n / 2) (by omega)
      refine ⟨by omega, ?_⟩
      unfold IsRZ at h4 ⊢
      have hq : 0 < 2 ^ rzLoop f (n / 2) := Nat.two_pow_pos _
      have e3 : n % 2 ^ (rzLoop f (n / 2) + 1 + 1) = n % 2 + 2 * (n / 2 % 2 ^ (rzLoop f (n / 2) + 1)) := by
        rw [Nat.pow_succ, Nat.mul_comm, Nat.mod_mul]
      have e4 : (2:Nat) ^ (rzLoop f (n / 2) + 1) = 2 * 2 ^ rzLoop f (n / 2) := by
        rw [Nat.pow_succ, Nat.mul_comm]
      omega

theorem rightzero32_spec (n : Nat) (hn : n < 4294967295) :
    rightzero32 n < 32 ∧ IsRZ n (rightzero32 n) := by
  unfold rightzero32
  apply rzLoop_spec
  have : (2:Nat) ^ 32 = 4294967296 := by decide
  omega

theorem IsRZ.low {n c : Nat} (h : IsRZ n c) {j : Nat} (hj : j < c) : n.testBit j = true := by
  have := congrArg (fun v => Nat.testBit v j) h
  simp only [Nat.testBit_mod_two_pow, Nat.testBit_two_pow_sub_one] at this
  simpa [hj, show j < c + 1 by omega] using this

theorem IsRZ.at {n c : Nat} (h : IsRZ n c) : n.testBit c = false := by
  have := congrArg (fun v => Nat.testBit v c) h
  simp only [Nat.testBit_mod_two_pow, Nat.testBit_two_pow_sub_one] at this
  simpa using this

theorem IsRZ.ge {n c : Nat} (h : IsRZ n c) : 2 ^ c - 1 ≤ n := by
  unfold IsRZ at h; rw [← h]; exact Nat.mod_le _ _

theorem bits_succ_aux (h c j : Nat) :
    (2 ^ (c + 1) * h + 2 ^ c).testBit j =
      if j < c then false else if j = c then true else (2 ^ (c + 1) * h + (2 ^ c - 1)).testBit j := by
  have hp : 0 < 2 ^ c := Nat.two_pow_pos c
  have e : (2:Nat) ^ (c + 1) = 2 * 2 ^ c := by rw [Nat.pow_succ, Nat.mul_comm]
  rw [Nat.testBit_two_pow_mul_add h (by omega : 2 ^ c < 2 ^ (c + 1)),
      Nat.testBit_two_pow_mul_add h (by omega : 2 ^ c - 1 < 2 ^ (c + 1)),
      Nat.testBit_two_pow, Nat.testBit_two_pow_sub_one]
  by_cases h1 : j < c
  · simp [h1, show j < c + 1 by omega, show c ≠ j by omega]
  · by_cases h2 : j = c
    · simp [h2]
    · simp [h1, h2, show ¬ j < c + 1 by omega]

/-- bits of `n + 1` in terms of the bits of `n` -/
theorem IsRZ.succ {n c : Nat} (h : IsRZ n c) (j : Nat) :
    (n + 1).testBit j = if j < c then false else if j = c then true else n.testBit j := by
  have hp : 0 < 2 ^ c := Nat.two_pow_pos c
  have hd := Nat.div_add_mod n (2 ^ (c + 1))
  unfold IsRZ at h
  rw [h] at hd
  have := bits_succ_aux (n / 2 ^ (c + 1)) c j
  rw [hd] at this
  rw [← this]
  congr 1
  omega

/-- the binary reflected Gray code -/
def gray (n : Nat) : Nat := n ^^^ (n >>> 1)

theorem gray_testBit (n j : Nat) : (gray n).testBit j = (n.testBit j ^^ n.testBit (j + 1)) := by
  simp [gray, Nat.testBit_xor, Nat.testBit_shiftRight, Nat.add_comm]

theorem gray_xor (p q : Nat) : gray (p ^^^ q) = gray p ^^^ gray q := by
  apply Nat.eq_of_testBit_eq; intro j
  simp only [gray_testBit, Nat.testBit_xor]
  cases p.testBit j <;> cases q.testBit j <;> cases p.testBit (j+1) <;> cases q.testBit (j+1) <;> rfl

theorem gray_zero : gray 0 = 0 := by simp [gray]

/-- successive Gray codes differ exactly in bit `c` = lowest zero bit of `n` -/
theorem gray_succ {n c : Nat} (h : IsRZ n c) : gray (n + 1) = gray n ^^^ 2 ^ c := by
  apply Nat.eq_of_testBit_eq; intro j
  simp only [gray_testBit, Nat.testBit_xor, Nat.testBit_two_pow, h.succ]
  have hc := h.at
  by_cases h1 : j + 1 < c
  · have a1 := h.low (show j < c by omega)
    have a2 := h.low h1
    simp [a1, a2, h1, show j < c by omega, show c ≠ j by omega]
  · by_cases h2 : j + 1 = c
    · have a1 := h.low (show j < c by omega)
      subst h2
      simp [a1, hc]
    · by_cases h3 : j = c
      · subst h3; simp [hc, show ¬ j + 1 < j by omega]
      · simp [show ¬ j < c by omega, show ¬ j + 1 < c by omega, h2, h3, show c ≠ j by omega]

theorem gray_lt {e k : Nat} (h : e < 2 ^ k) : gray e < 2 ^ k := by
  apply Nat.lt_pow_two_of_testBit
  intro i hi
  rw [gray_testBit, Nat.testBit_lt_two_pow (Nat.lt_of_lt_of_le h (Nat.pow_le_pow_right (by omega) hi)),
      Nat.testBit_lt_two_pow (Nat.lt_of_lt_of_le h (Nat.pow_le_pow_right (by omega) (by omega : k ≤ i + 1)))]
  rfl

theorem gray_ne_zero {e : Nat} (h : e ≠ 0) : gray e ≠ 0 := by
  intro h0
  have h1 := Nat.testBit_log2 h
  have h2 : e.testBit (e.log2 + 1) = false := Nat.testBit_lt_two_pow Nat.lt_log2_self
  have := gray_testBit e e.log2
  rw [h0, h1, h2] at this
  simp at this

/-! ### `b = ⌊log2 n⌋` -/

/-- relation between the number `n` of generated points and `b` -/
def BInv (n b : Nat) : Prop := (n = 0 ∧ b = 0) ∨ (2 ^ b ≤ n ∧ n < 2 ^ (b + 1))

theorem isRZ_zero {c : Nat} (h : IsRZ 0 c) : c = 0 := by
  unfold IsRZ at h
  rw [Nat.zero_mod] at h
  rcases c with _ | c
  · rfl
  · have : 2 ≤ 2 ^ (c + 1) := by
      rw [Nat.pow_succ]; have := Nat.two_pow_pos c; omega
    omega

/-- for `n ≥ 1`, `c ≠ b` -/
theorem BInv.ne {n b c : Nat} (hb : BInv n b) (hn : 1 ≤ n) (h : IsRZ n c) : c ≠ b := by
  rcases hb with ⟨h0, _⟩ | ⟨h1, h2⟩
  · omega
  · intro hcb; subst hcb
    unfold IsRZ at h
    rw [Nat.mod_eq_of_lt h2] at h
    omega

theorem BInv.step {n b c : Nat} (hb : BInv n b) (h : IsRZ n c) :
    BInv (n + 1) (if b ≥ c then b else c) := by
  rcases hb with ⟨h0, hb0⟩ | ⟨h1, h2⟩
  · subst h0; subst hb0
    have := isRZ_zero h; subst this
    right; simp
  · right
    have hge := h.ge
    by_cases hbc : b ≥ c
    · rw [if_pos hbc]
      refine ⟨by omega, ?_⟩
      have hne : n ≠ 2 ^ (b + 1) - 1 := by
        intro e
        have := h.at
        rw [e, Nat.testBit_two_pow_sub_one] at this
        simp at this; omega
      omega
    · rw [if_neg hbc]
      have hle : (2:Nat) ^ (b + 1) ≤ 2 ^ c := Nat.pow_le_pow_right (by omega) (by omega)
      have e : (2:Nat) ^ (c + 1) = 2 * 2 ^ c := by rw [Nat.pow_succ, Nat.mul_comm]
      omega

theorem BInv.log2 {n b : Nat} (hb : BInv n b) : b = n.log2 := by
  rcases hb with ⟨h0, hb0⟩ | ⟨h1, h2⟩
  · subst h0; subst hb0; simp
  · have hn : n ≠ 0 := by have := Nat.two_pow_pos b; omega
    exact ((Nat.log2_eq_iff hn).mpr ⟨h1, h2⟩).symm

theorem BInv.le31 {n b : Nat} (hb : BInv n b) (hn : n < 2 ^ 32) : b ≤ 31 := by
  rcases hb with ⟨_, hb0⟩ | ⟨h1, _⟩
  · omega
  · false_or_by_contra
    have : (2:Nat) ^ 32 ≤ 2 ^ b := Nat.pow_le_pow_right (by omega) (by omega)
    omega

/-- the Gray code has the same leading bit as `n` -/
theorem gray_log2 (n : Nat) : (gray n).log2 = n.log2 := by
  by_cases h : n = 0
  · subst h; rfl
  · have h1 := Nat.testBit_log2 h
    have h2 : n.testBit (n.log2 + 1) = false := Nat.testBit_lt_two_pow Nat.lt_log2_self
    have hb : (gray n).testBit n.log2 = true := by rw [gray_testBit, h1, h2]; rfl
    exact (Nat.log2_eq_iff (gray_ne_zero h)).mpr
      ⟨Nat.ge_two_pow_of_testBit hb, gray_lt Nat.lt_log2_self⟩

/-- the largest `c = rightzero32 s` over the steps `s < n` taken so far (what the C code
    accumulates in `b[i]`: `b` starts at 0 and is replaced by `c` whenever `b < c`) -/
def maxRZ : Nat → Nat
  | 0 => 0
  | n + 1 => max (maxRZ n) (rightzero32 n)

theorem maxRZ_inv : ∀ n, n ≤ 4294967295 → BInv n (maxRZ n) := by
  intro n
  induction n with
  | zero => intro _; exact Or.inl ⟨rfl, rfl⟩
  | succ n ih =>
    intro hn
    have := (ih (by omega)).step (rightzero32_spec n (by omega)).2
    have e : max (maxRZ n) (rightzero32 n) =
        if maxRZ n ≥ rightzero32 n then maxRZ n else rightzero32 n := by
      split <;> omega
    show BInv (n + 1) (max (maxRZ n) (rightzero32 n))
    rw [e]; exact this

theorem BInv.unique {n b b' : Nat} (h : BInv n b) (h' : BInv n b') : b = b' := by
  rw [h.log2, h'.log2]

/-! ## 4. The canonical 32-bit fraction and the state invariant -/

/-- direction number `j` as a 32-bit binary fraction: `m[j] / 2^(j+1) = V j / 2^32` -/
def V (m : List Nat) (j : Nat) : Nat := m.getD j 0 <<< (31 - j)

/-- XOR of `V j` over the set bits `j < J` of `g` -/
def xorVUpTo (m : List Nat) (g : Nat) : Nat → Nat
  | 0 => 0
  | J + 1 => xorVUpTo m g J ^^^ (if g.testBit J then V m J else 0)

/-- XOR of `V j` over the set bits `j < 32` of `g` -/
def xorV (m : List Nat) (g : Nat) : Nat := xorVUpTo m g 32

theorem xor_swap (a b c d : Nat) : (a ^^^ b) ^^^ (c ^^^ d) = (a ^^^ c) ^^^ (b ^^^ d) := by
  apply Nat.eq_of_testBit_eq; intro i
  simp only [Nat.testBit_xor]
  cases a.testBit i <;> cases b.testBit i <;> cases c.testBit i <;> cases d.testBit i <;> rfl

theorem xorVUpTo_xor (m : List Nat) (g h : Nat) :
    ∀ J, xorVUpTo m (g ^^^ h) J = xorVUpTo m g J ^^^ xorVUpTo m h J := by
  intro J
  induction J with
  | zero => simp [xorVUpTo]
  | succ J ih =>
    simp only [xorVUpTo, ih, Nat.testBit_xor]
    rw [xor_swap]
    congr 1
    cases g.testBit J <;> cases h.testBit J <;> simp

theorem xorV_xor (m : List Nat) (g h : Nat) : xorV m (g ^^^ h) = xorV m g ^^^ xorV m h :=
  xorVUpTo_xor m g h 32

theorem xorVUpTo_zero (m : List Nat) : ∀ J, xorVUpTo m 0 J = 0 := by
  intro J; induction J with
  | zero => rfl
  | succ J ih => simp [xorVUpTo, ih]

theorem xorV_zero (m : List Nat) : xorV m 0 = 0 := xorVUpTo_zero m 32

theorem xorVUpTo_two_pow (m : List Nat) (c : Nat) :
    ∀ J, xorVUpTo m (2 ^ c) J = if c < J then V m c else 0 := by
  intro J; induction J with
  | zero => simp [xorVUpTo]
  | succ J ih =>
    simp only [xorVUpTo, ih, Nat.testBit_two_pow]
    by_cases h1 : c < J
    · simp [h1, show c < J + 1 by omega, show c ≠ J by omega]
    · by_cases h2 : c = J
      · subst h2; simp
      · simp [h1, h2, show ¬ c < J + 1 by omega]

theorem xorV_two_pow (m : List Nat) {c : Nat} (hc : c < 32) : xorV m (2 ^ c) = V m c := by
  unfold xorV; rw [xorVUpTo_two_pow, if_pos hc]

/-- The invariant of one dimension after `n` generated points (`n = 0`: initial state). -/
structure DimInv (m : List Nat) (n : Nat) (s : DimState) : Prop where
  hm : s.m = m
  hb : BInv n s.b
  hx : s.x < 2 ^ (s.b + 1)
  h0 : n = 0 → s.x = 0
  hodd : 1 ≤ n → s.x % 2 = 1
  hX : s.x <<< (31 - s.b) = xorV m (gray n)

theorem shl_lt {x a s : Nat} (h : x < 2 ^ a) : x <<< s < 2 ^ (a + s) := by
  rw [Nat.shiftLeft_eq, Nat.pow_add]
  exact Nat.mul_lt_mul_of_lt_of_le h (Nat.le_refl _) (Nat.two_pow_pos _)

theorem shl_even {x s : Nat} (hs : 1 ≤ s) : (x <<< s) % 2 = 0 := by
  rw [Nat.shiftLeft_eq]
  have : s = (s - 1) + 1 := by omega
  rw [this, Nat.pow_succ, ← Nat.mul_assoc]
  exact Nat.mul_mod_left _ _

theorem xor_even_odd {x y : Nat} (hx : x % 2 = 0) (hy : y % 2 = 1) : (x ^^^ y) % 2 = 1 := by
  rw [Nat.xor_mod_two_eq_one]; omega

/-- One step of `sobol_gen` on one dimension: the 32-bit shifts do not overflow and the
    invariant is preserved. -/
theorem stepDim_ok (m : List Nat) (hm : DirOK m) (n : Nat) (hn : n < 4294967295) (s : DimState)
    (inv : DimInv m n s) :
    stepDim wrap32 (rightzero32 n) s = stepDim id (rightzero32 n) s ∧
    DimInv m (n + 1) (stepDim wrap32 (rightzero32 n) s) := by
  obtain ⟨hc32, hrz⟩ := rightzero32_spec n hn
  generalize rightzero32 n = c at hc32 hrz
  obtain ⟨sm, x, b⟩ := s
  obtain ⟨hsm, hb, hx, h0, hodd, hX⟩ := inv
  simp only at hsm hb hx h0 hodd hX
  subst hsm
  have hb31 : b ≤ 31 := hb.le31 (by omega)
  obtain ⟨hmc1, hmc2⟩ := hm.2 c (by rw [hm.1]; exact hc32)
  have hg : xorV sm (gray (n + 1)) = xorV sm (gray n) ^^^ V sm c := by
    rw [gray_succ hrz, xorV_xor, xorV_two_pow sm hc32]
  have hstep := hb.step hrz
  unfold stepDim
  simp only [id]
  by_cases hbc : b ≥ c
  · -- x ^= m[c] << (b - c)
    simp only [if_pos hbc] at hstep ⊢
    have hsh : sm.getD c 0 <<< (b - c) < 2 ^ (b + 1) := by
      have := shl_lt (s := b - c) hmc2
      rwa [show c + 1 + (b - c) = b + 1 by omega] at this
    have h32 : (2:Nat) ^ (b + 1) ≤ 2 ^ 32 := two_pow_le_32 (by omega)
    rw [wrap32_of_lt (by omega)]
    refine ⟨rfl, ⟨rfl, hstep, Nat.xor_lt_two_pow hx hsh, by omega, ?_, ?_⟩⟩
    · intro _
      by_cases hn0 : n = 0
      · have hc0 : c = 0 := isRZ_zero (hn0 ▸ hrz)
        have hb0 : b = 0 := by
          rcases hb with ⟨_, h⟩ | ⟨h, _⟩
          · exact h
          · subst hn0; have := Nat.two_pow_pos b; omega
        subst hc0; subst hb0
        simp only [h0 hn0, Nat.sub_self, Nat.shiftLeft_zero, Nat.zero_xor]; exact hmc1
      · have hne := hb.ne (by omega) hrz
        exact xor_odd_even (hodd (by omega)) (shl_even (by omega))
    · show (x ^^^ sm.getD c 0 <<< (b - c)) <<< (31 - b) = _
      rw [hg, Nat.shiftLeft_xor_distrib, hX, ← Nat.shiftLeft_add]
      rw [show b - c + (31 - b) = 31 - c by omega]; rfl
  · -- x = (x << (c - b)) ^ m[c]; b = c
    simp only [if_neg hbc] at hstep ⊢
    have hsh : x <<< (c - b) < 2 ^ (c + 1) := by
      have := shl_lt (s := c - b) hx
      rwa [show b + 1 + (c - b) = c + 1 by omega] at this
    have h32 : (2:Nat) ^ (c + 1) ≤ 2 ^ 32 := two_pow_le_32 (by omega)
    rw [wrap32_of_lt (by omega)]
    refine ⟨rfl, ⟨rfl, hstep, Nat.xor_lt_two_pow hsh hmc2, by omega, ?_, ?_⟩⟩
    · intro _
      exact xor_even_odd (shl_even (by omega)) hmc1
    · show (x <<< (c - b) ^^^ sm.getD c 0) <<< (31 - c) = _
      rw [hg, Nat.shiftLeft_xor_distrib, ← Nat.shiftLeft_add, show c - b + (31 - c) = 31 - b by omega, hX]
      rfl

/-- state of one dimension after `n` calls of `sobol_gen` -/
def dimRun (m : List Nat) : Nat → DimState
  | 0 => { m := m, x := 0, b := 0 }
  | n + 1 => stepDim wrap32 (rightzero32 n) (dimRun m n)

/-- the same in unbounded arithmetic -/
def dimRunExact (m : List Nat) : Nat → DimState
  | 0 => { m := m, x := 0, b := 0 }
  | n + 1 => stepDim id (rightzero32 n) (dimRunExact m n)

theorem dimRun_inv (m : List Nat) (hm : DirOK m) :
    ∀ n, n ≤ 4294967295 → DimInv m n (dimRun m n) ∧ dimRun m n = dimRunExact m n := by
  intro n
  induction n with
  | zero =>
    intro _
    refine ⟨⟨rfl, Or.inl ⟨rfl, rfl⟩, by simp [dimRun], fun _ => rfl, by omega, ?_⟩, rfl⟩
    simp [dimRun, gray_zero, xorV_zero]
  | succ n ih =>
    intro hn
    obtain ⟨inv, e⟩ := ih (by omega)
    obtain ⟨h1, h2⟩ := stepDim_ok m hm n (by omega) _ inv
    refine ⟨h2, ?_⟩
    show stepDim wrap32 (rightzero32 n) (dimRun m n) = stepDim id (rightzero32 n) (dimRunExact m n)
    rw [h1, e]

/-! ## 5. The whole state -/

/-- closed form of the generator state after `n` calls of `sobol_gen` -/
def stateAt (sdim n : Nat) : State :=
  { sdim := sdim, dims := (List.range sdim).map (fun i => dimRun (initM i) n), n := n }

theorem init_eq (sdim : Nat) (h1 : 1 ≤ sdim) (h2 : sdim ≤ 1111) :
    init sdim = some (stateAt sdim 0) := by
  unfold init
  rw [if_neg (by rw [maxdim_eq]; omega)]
  rfl

theorem init_none (sdim : Nat) (h : sdim = 0 ∨ 1111 < sdim) : init sdim = none := by
  unfold init
  rw [if_pos (by rw [maxdim_eq]; omega)]

theorem gen_stateAt (sdim n : Nat) (hn : n < 4294967295) :
    gen (stateAt sdim n) =
      some (stateAt sdim (n + 1), (stateAt sdim (n + 1)).dims.map coordOf) := by
  unfold gen
  have e : (stateAt sdim n).n = n := rfl
  rw [e, if_neg (by omega), wrap32_of_lt (by omega)]
  simp only [stateAt, List.map_map]
  rfl

theorem gen_refuse (sdim : Nat) : gen (stateAt sdim 4294967295) = none := by
  unfold gen; rfl

theorem gen1_stateAt (sdim n : Nat) (hn : n < 4294967295) :
    gen1 (stateAt sdim n) = stateAt sdim (n + 1) := by
  unfold gen1; rw [gen_stateAt sdim n hn]

theorem genN_stateAt (sdim : Nat) : ∀ (k n : Nat), n + k ≤ 4294967295 →
    genN k (stateAt sdim n) = stateAt sdim (n + k) := by
  intro k
  induction k with
  | zero => intro n _; rfl
  | succ k ih =>
    intro n h
    unfold genN
    rw [gen1_stateAt sdim n (by omega), ih (n + 1) (by omega)]
    congr 1; omega

theorem stateAt_dim (sdim n i : Nat) (hi : i < sdim) :
    (stateAt sdim n).dims[i]? = some (dimRun (initM i) n) := by
  simp [stateAt, List.getElem?_map, List.getElem?_range hi]

/-! ## 6. Stratification -/

/-- pigeonhole: an injective map of `{0..N-1}` into itself is onto -/
theorem pigeonhole : ∀ (N : Nat) (f : Nat → Nat), (∀ i, i < N → f i < N) →
    (∀ i j, i < N → j < N → f i = f j → i = j) → ∀ t, t < N → ∃ i, i < N ∧ f i = t := by
  intro N
  induction N with
  | zero => intro f _ _ t ht; omega
  | succ N ih =>
    intro f hr hinj t ht
    have hN := hr N (by omega)
    let g : Nat → Nat := fun i => if f i = N then f N else f i
    have hg : ∀ i, g i = if f i = N then f N else f i := fun _ => rfl
    have hgr : ∀ i, i < N → g i < N := by
      intro i hi
      have h1 := hr i (by omega)
      rw [hg]; split
      · next h => have := hinj i N (by omega) (by omega); omega
      · omega
    have hginj : ∀ i j, i < N → j < N → g i = g j → i = j := by
      intro i j hi hj
      have h1 := hinj i j (by omega) (by omega)
      have h2 := hinj i N (by omega) (by omega)
      have h3 := hinj j N (by omega) (by omega)
      rw [hg, hg]; split <;> split <;> omega
    have hs := ih g hgr hginj
    by_cases h1 : t = f N
    · exact ⟨N, by omega, h1.symm⟩
    · by_cases h2 : t = N
      · obtain ⟨i, hi, hgi⟩ := hs (f N) (by omega)
        have h3 := hinj i N (by omega) (by omega)
        rw [hg] at hgi
        refine ⟨i, by omega, ?_⟩
        split at hgi <;> omega
      · obtain ⟨i, hi, hgi⟩ := hs t (by omega)
        rw [hg] at hgi
        refine ⟨i, by omega, ?_⟩
        split at hgi <;> omega

/-- the 32-bit fraction of point number `p` (`p = 0`: the omitted origin) in a dimension
    with direction numbers `m` -/
def Xfrac (m : List Nat) (p : Nat) : Nat := xorV m (gray p)

theorem V_testBit_low (m : List Nat) {j t : Nat} (h : t + j < 31) : (V m j).testBit t = false := by
  unfold V; rw [Nat.testBit_shiftLeft]; simp; omega

theorem V_testBit_at (m : List Nat) (hm : DirOK m) {j : Nat} (hj : j < 32) :
    (V m j).testBit (31 - j) = true := by
  obtain ⟨h1, _⟩ := hm.2 j (by rw [hm.1]; exact hj)
  unfold V; rw [Nat.testBit_shiftLeft, Nat.sub_self, Nat.testBit_zero, h1]; simp

theorem V_lt (m : List Nat) (hm : DirOK m) {j : Nat} (hj : j < 32) : V m j < 2 ^ 32 := by
  obtain ⟨_, h2⟩ := hm.2 j (by rw [hm.1]; exact hj)
  have := shl_lt (s := 31 - j) h2
  rwa [show j + 1 + (31 - j) = 32 by omega] at this

theorem xorVUpTo_lt (m : List Nat) (hm : DirOK m) (g : Nat) :
    ∀ J, J ≤ 32 → xorVUpTo m g J < 2 ^ 32 := by
  intro J; induction J with
  | zero => intro _; exact Nat.two_pow_pos _
  | succ J ih =>
    intro hJ
    unfold xorVUpTo
    apply Nat.xor_lt_two_pow (ih (by omega))
    split
    · exact V_lt m hm (by omega)
    · exact Nat.two_pow_pos _

theorem Xfrac_lt (m : List Nat) (hm : DirOK m) (p : Nat) : Xfrac m p < 2 ^ 32 :=
  xorVUpTo_lt m hm _ 32 (Nat.le_refl _)

/-- the partial XOR over `j < J` has no bits below position `32 - J` -/
theorem xorVUpTo_low (m : List Nat) (g : Nat) :
    ∀ J t, t + J < 32 → (xorVUpTo m g J).testBit t = false := by
  intro J; induction J with
  | zero => intro t _; simp [xorVUpTo]
  | succ J ih =>
    intro t h
    unfold xorVUpTo
    rw [Nat.testBit_xor, ih t (by omega)]
    split
    · rw [V_testBit_low m (by omega)]; rfl
    · simp

/-- unit-triangularity: if `j0` is the highest set bit of `g`, bit `31 - j0` of the XOR is set -/
theorem xorV_top (m : List Nat) (hm : DirOK m) {g j0 : Nat} (hj0 : j0 < 32)
    (hbit : g.testBit j0 = true) (hlt : g < 2 ^ (j0 + 1)) :
    (xorV m g).testBit (31 - j0) = true := by
  have key : ∀ J, j0 < J → J ≤ 32 → (xorVUpTo m g J).testBit (31 - j0) = true := by
    intro J; induction J with
    | zero => intro h; omega
    | succ J ih =>
      intro h1 h2
      unfold xorVUpTo
      rw [Nat.testBit_xor]
      by_cases hJ : J = j0
      · subst hJ
        rw [xorVUpTo_low m g J (31 - J) (by omega), hbit, if_pos rfl, V_testBit_at m hm hj0]; rfl
      · have : g.testBit J = false :=
          Nat.testBit_lt_two_pow (Nat.lt_of_lt_of_le hlt (Nat.pow_le_pow_right (by omega) (by omega)))
        rw [ih (by omega) (by omega), this]; simp
  exact key 32 hj0 (Nat.le_refl _)

theorem xor_eq_zero {p q : Nat} (h : p ^^^ q = 0) : p = q := by
  have : p ^^^ (p ^^^ q) = p := by rw [h, Nat.xor_zero]
  rw [← Nat.xor_assoc, Nat.xor_self, Nat.zero_xor] at this
  exact this.symm

theorem xor_lt_of_div_eq {p q k : Nat} (h : p / 2 ^ k = q / 2 ^ k) : p ^^^ q < 2 ^ k := by
  apply Nat.lt_pow_two_of_testBit
  intro i hi
  have e1 : p.testBit i = (p >>> k).testBit (i - k) := by
    rw [Nat.testBit_shiftRight]; congr 1; omega
  have e2 : q.testBit i = (q >>> k).testBit (i - k) := by
    rw [Nat.testBit_shiftRight]; congr 1; omega
  rw [Nat.testBit_xor, e1, e2, Nat.shiftRight_eq_div_pow, Nat.shiftRight_eq_div_pow, h]
  simp

/-- Two different indices of the same aligned block of length `2^k` have different
    leading `k` bits. -/
theorem top_inj (m : List Nat) (hm : DirOK m) {k : Nat} (hk : k ≤ 32) {p q : Nat}
    (hblk : p / 2 ^ k = q / 2 ^ k)
    (htop : Xfrac m p >>> (32 - k) = Xfrac m q >>> (32 - k)) : p = q := by
  false_or_by_contra
  rename_i hne
  have he : p ^^^ q ≠ 0 := fun h => hne (xor_eq_zero h)
  have helt := xor_lt_of_div_eq hblk
  have hg0 := gray_ne_zero he
  have hglt := gray_lt helt
  have hj0 : (gray (p ^^^ q)).log2 < k := (Nat.log2_lt hg0).mpr hglt
  have hb := xorV_top m hm (g := gray (p ^^^ q)) (j0 := (gray (p ^^^ q)).log2) (by omega)
    (Nat.testBit_log2 hg0) Nat.lt_log2_self
  rw [gray_xor, xorV_xor] at hb
  have hz : (Xfrac m p ^^^ Xfrac m q) >>> (32 - k) = 0 := by
    rw [Nat.shiftRight_xor_distrib, htop, Nat.xor_self]
  have := congrArg (fun v => Nat.testBit v (31 - (gray (p ^^^ q)).log2 - (32 - k))) hz
  simp only [Nat.testBit_shiftRight, Nat.zero_testBit] at this
  rw [show 32 - k + (31 - (gray (p ^^^ q)).log2 - (32 - k)) = 31 - (gray (p ^^^ q)).log2 by omega] at this
  unfold Xfrac at this
  rw [gray_xor] at this
  rw [this] at hb
  exact Bool.noConfusion hb

theorem top_lt (m : List Nat) (hm : DirOK m) {k : Nat} (hk : k ≤ 32) (p : Nat) :
    Xfrac m p >>> (32 - k) < 2 ^ k := by
  rw [Nat.shiftRight_eq_div_pow, Nat.div_lt_iff_lt_mul (Nat.two_pow_pos _), ← Nat.pow_add,
      show k + (32 - k) = 32 by omega]
  exact Xfrac_lt m hm p

theorem block_div {k q r : Nat} (hr : r < 2 ^ k) : (q * 2 ^ k + r) / 2 ^ k = q := by
  rw [Nat.mul_comm, Nat.mul_add_div (Nat.two_pow_pos _), Nat.div_eq_of_lt hr]; rfl

/-- (0,k,1)-net property in base 2 of each one-dimensional projection: in every aligned
    block of `2^k` consecutive indices, each of the `2^k` intervals `[t/2^k, (t+1)/2^k)`
    contains exactly one point. -/
theorem Xfrac_stratified (m : List Nat) (hm : DirOK m) {k : Nat} (hk : k ≤ 32) (q t : Nat)
    (ht : t < 2 ^ k) :
    ∃ p, (q * 2 ^ k ≤ p ∧ p < (q + 1) * 2 ^ k ∧ Xfrac m p >>> (32 - k) = t) ∧
      ∀ p', q * 2 ^ k ≤ p' ∧ p' < (q + 1) * 2 ^ k ∧ Xfrac m p' >>> (32 - k) = t → p' = p := by
  have hsurj := pigeonhole (2 ^ k) (fun r => Xfrac m (q * 2 ^ k + r) >>> (32 - k))
    (fun r _ => top_lt m hm hk _)
    (by
      intro i j hi hj h
      have := top_inj m hm hk (p := q * 2 ^ k + i) (q := q * 2 ^ k + j)
        (by rw [block_div hi, block_div hj]) h
      omega)
    t ht
  obtain ⟨r, hr, hfr⟩ := hsurj
  have hmul : (q + 1) * 2 ^ k = q * 2 ^ k + 2 ^ k := by rw [Nat.add_mul, Nat.one_mul]
  refine ⟨q * 2 ^ k + r, ⟨by omega, by omega, hfr⟩, ?_⟩
  intro p' ⟨h1, h2, h3⟩
  have hd : p' / 2 ^ k = q := by
    have : p' = q * 2 ^ k + (p' - q * 2 ^ k) := by omega
    rw [this]; exact block_div (by omega)
  exact top_inj m hm hk (by rw [hd, block_div hr]) (by rw [h3]; exact hfr.symm)

/-- `⌊(x / 2^(b+1)) · 2^k⌋` expressed with the canonical fraction -/
theorem cell_eq (x b k : Nat) (hb : b ≤ 31) (hk : k ≤ 32) :
    x * 2 ^ k / 2 ^ (b + 1) = (x <<< (31 - b)) >>> (32 - k) := by
  rw [Nat.shiftLeft_eq, Nat.shiftRight_eq_div_pow]
  have h1 : x * 2 ^ k / 2 ^ (b + 1) = x * 2 ^ k * 2 ^ (31 - b) / (2 ^ (b + 1) * 2 ^ (31 - b)) :=
    (Nat.mul_div_mul_right _ _ (Nat.two_pow_pos _)).symm
  have h2 : x * 2 ^ (31 - b) / 2 ^ (32 - k) = x * 2 ^ (31 - b) * 2 ^ k / (2 ^ (32 - k) * 2 ^ k) :=
    (Nat.mul_div_mul_right _ _ (Nat.two_pow_pos _)).symm
  rw [h1, h2, ← Nat.pow_add, ← Nat.pow_add, show b + 1 + (31 - b) = 32 - k + k by omega,
      Nat.mul_assoc, Nat.mul_assoc, Nat.mul_comm (2 ^ k)]

/-! ## 7. Outputs of `sobol_gen` -/

/-- what the `p`-th call (`p ≥ 1`) of `sobol_gen` after `sobol_init` writes to the output
    array; `none` if the call refuses -/
def nthOutput (st0 : State) (p : Nat) : Option (List Coord) :=
  (gen (genN (p - 1) st0)).map Prod.snd

theorem nthOutput_eq (sdim p : Nat) (hp1 : 1 ≤ p) (hp2 : p ≤ 4294967295) :
    nthOutput (stateAt sdim 0) p =
      some ((List.range sdim).map (fun i => coordOf (dimRun (initM i) p))) := by
  unfold nthOutput
  rw [genN_stateAt sdim (p - 1) 0 (by omega), gen_stateAt sdim _ (by omega)]
  simp only [Option.map_some, stateAt, List.map_map]
  rw [show 0 + (p - 1) + 1 = p by omega]
  rfl

theorem nthOutput_refuse (sdim : Nat) : nthOutput (stateAt sdim 0) 4294967296 = none := by
  unfold nthOutput
  rw [genN_stateAt sdim _ 0 (by omega), gen_refuse]; rfl

/-- `⌊value · 2^k⌋` for an output coordinate -/
def Coord.cell (c : Coord) (k : Nat) : Nat := c.num * 2 ^ k / 2 ^ c.shift

/-- index (among `2^k` equal subintervals of [0,1)) of coordinate `i` of point number `p`;
    point 0 is the origin, which the generator omits -/
def cellAt (st0 : State) (i k p : Nat) : Nat :=
  if p = 0 then 0
  else match nthOutput st0 p with
    | some cs => (cs.getD i { num := 0, shift := 0, shiftOverflow := false }).cell k
    | none => 0

theorem Xfrac_zero_cell (m : List Nat) (k : Nat) : Xfrac m 0 >>> (32 - k) = 0 := by
  simp [Xfrac, gray_zero, xorV_zero]

theorem cellAt_eq (sdim i k p : Nat) (hi : i < sdim) (hi2 : i < 1111) (hk : k ≤ 32)
    (hp : p ≤ 4294967295) :
    cellAt (stateAt sdim 0) i k p = Xfrac (initM i) p >>> (32 - k) := by
  have hm := (initM_ok i hi2).2
  unfold cellAt
  by_cases h0 : p = 0
  · rw [if_pos h0, h0, Xfrac_zero_cell]
  · rw [if_neg h0, nthOutput_eq sdim p (by omega) hp]
    simp only [List.getD_eq_getElem?_getD, List.getElem?_map, List.getElem?_range hi,
      Option.map_some, Option.getD_some]
    obtain ⟨inv, _⟩ := dimRun_inv (initM i) hm p hp
    unfold Coord.cell coordOf
    simp only
    rw [cell_eq _ _ k (inv.hb.le31 (by omega)) hk, inv.hX]; rfl

/-! ## 8. `nlopt_sobol_skip` -/

theorem skipLoop_zero_diverges (n : Nat) (hn : 0 < n) : ∀ f, skipLoop f 0 n = none := by
  intro f; induction f with
  | zero => rfl
  | succ f ih => unfold skipLoop; simp [wrap32, hn, ih]

/-- for `2^31 < n` the loop of `nlopt_sobol_skip` never exits, whatever the fuel:
    `k` runs through `1, 2, .., 2^31`, then `k * 2` wraps to `0 < n` and `k` stays `0`. -/
theorem skipLoop_diverges (n : Nat) (hn : 2147483648 < n) :
    ∀ d e f, e + d = 31 → skipLoop f (2 ^ e) n = none := by
  intro d
  induction d with
  | zero =>
    intro e f he
    have : e = 31 := by omega
    subst this
    cases f with
    | zero => rfl
    | succ f =>
      unfold skipLoop
      have : wrap32 (2 ^ 31 * 2) = 0 := by decide
      rw [this, if_pos (by omega)]
      exact skipLoop_zero_diverges n (by omega) f
  | succ d ih =>
    intro e f he
    cases f with
    | zero => rfl
    | succ f =>
      unfold skipLoop
      have h1 : (2:Nat) ^ (e + 1) ≤ 2 ^ 31 := Nat.pow_le_pow_right (by omega) (by omega)
      have h2 : (2:Nat) ^ e * 2 = 2 ^ (e + 1) := (Nat.pow_succ ..).symm
      have h3 : (2:Nat) ^ 31 = 2147483648 := by decide
      rw [h2, wrap32_of_lt (by omega), if_pos (by omega)]
      exact ih (e + 1) f (by omega)

theorem skipLoop_terminates (n : Nat) (hn : n ≤ 2147483648) :
    ∀ f e, 32 ≤ f + e → e ≤ 30 → (e = 0 ∨ 2 ^ e < n) →
      ∃ e', e' ≤ 30 ∧ skipLoop f (2 ^ e) n = some (2 ^ e') ∧ n ≤ 2 ^ (e' + 1) ∧
        (e' = 0 ∨ 2 ^ e' < n) := by
  intro f
  induction f with
  | zero => intro e h1 h2; omega
  | succ f ih =>
    intro e h1 h2 h3
    unfold skipLoop
    have h31 : (2:Nat) ^ 31 = 2147483648 := by decide
    have hle : (2:Nat) ^ (e + 1) ≤ 2 ^ 31 := Nat.pow_le_pow_right (by omega) (by omega)
    have hmul : (2:Nat) ^ e * 2 = 2 ^ (e + 1) := (Nat.pow_succ ..).symm
    rw [hmul, wrap32_of_lt (by omega)]
    by_cases hlt : 2 ^ (e + 1) < n
    · rw [if_pos hlt]
      have : e + 1 ≤ 30 := by
        false_or_by_contra
        have : (2:Nat) ^ 31 ≤ 2 ^ (e + 1) := Nat.pow_le_pow_right (by omega) (by omega)
        omega
      exact ih (e + 1) (by omega) this (Or.inr hlt)
    · rw [if_neg hlt]
      exact ⟨e, h2, rfl, by omega, h3⟩

/-! ## 9. The portable branch of `rightzero32` agrees with `__builtin_ctz(~n)` -/

theorem rzDecode_ok : ∀ c, c < 32 →
    rzDecode.getD (wrap32 (0x05f66a47 * 2 ^ c) >>> 27) 0 = c := by decide

/-- `v & -v = 2^c` when bit `c` is the lowest set bit of `v` (32-bit) -/
theorem and_neg_eq (h c : Nat) (hh : h < 2 ^ (31 - c)) :
    (2 ^ (c + 1) * h + 2 ^ c) &&& (2 ^ (c + 1) * (2 ^ (31 - c) - (h + 1)) + 2 ^ c) = 2 ^ c := by
  have hp : 0 < 2 ^ c := Nat.two_pow_pos c
  have e : (2:Nat) ^ (c + 1) = 2 * 2 ^ c := by rw [Nat.pow_succ, Nat.mul_comm]
  apply Nat.eq_of_testBit_eq; intro j
  rw [Nat.testBit_and, Nat.testBit_two_pow_mul_add _ (by omega : 2 ^ c < 2 ^ (c + 1)),
      Nat.testBit_two_pow_mul_add _ (by omega : 2 ^ c < 2 ^ (c + 1)),
      Nat.testBit_two_pow_sub_succ hh, Nat.testBit_two_pow]
  by_cases h1 : j < c + 1
  · simp [h1]
  · have : c ≠ j := by omega
    rw [if_neg h1, if_neg h1]
    cases h.testBit (j - (c + 1)) <;> simp [this]

theorem rightzero32Portable_eq (n : Nat) (hn : n < 4294967295) :
    rightzero32Portable n = rightzero32 n := by
  obtain ⟨hc32, hrz⟩ := rightzero32_spec n hn
  generalize rightzero32 n = c at hc32 hrz
  have hp : 0 < 2 ^ c := Nat.two_pow_pos c
  have e : (2:Nat) ^ (c + 1) = 2 * 2 ^ c := by rw [Nat.pow_succ, Nat.mul_comm]
  have e32 : (2:Nat) ^ (c + 1) * 2 ^ (31 - c) = 4294967296 := by
    rw [← Nat.pow_add, show c + 1 + (31 - c) = 32 by omega]
  have hd := Nat.div_add_mod n (2 ^ (c + 1))
  unfold IsRZ at hrz
  rw [hrz] at hd
  generalize hq : n / 2 ^ (c + 1) = q at hd
  have hq2 : q < 2 ^ (31 - c) := by
    false_or_by_contra
    rename_i hge
    have : 2 ^ (c + 1) * 2 ^ (31 - c) ≤ 2 ^ (c + 1) * q := Nat.mul_le_mul_left _ (by omega)
    omega
  -- h = complement of q in 31 - c bits
  have hh : 2 ^ (31 - c) - (q + 1) < 2 ^ (31 - c) := by omega
  have hmul : 2 ^ (c + 1) * (2 ^ (31 - c) - (q + 1)) = 4294967296 - 2 ^ (c + 1) * q - 2 ^ (c + 1) := by
    rw [Nat.mul_sub, e32, Nat.mul_add, Nat.mul_one]; omega
  have hle : 2 ^ (c + 1) * q + 2 ^ (c + 1) ≤ 4294967296 := by
    have : 2 ^ (c + 1) * (q + 1) ≤ 2 ^ (c + 1) * 2 ^ (31 - c) := Nat.mul_le_mul_left _ (by omega)
    rw [Nat.mul_add, Nat.mul_one] at this; omega
  have hn1 : 4294967295 - n = 2 ^ (c + 1) * (2 ^ (31 - c) - (q + 1)) + 2 ^ c := by omega
  have hneg : wrap32 (4294967296 - (4294967295 - n)) = 2 ^ (c + 1) * q + 2 ^ c := by
    unfold wrap32; omega
  have hand := and_neg_eq (2 ^ (31 - c) - (q + 1)) c hh
  have hcomp : 2 ^ (31 - c) - (2 ^ (31 - c) - (q + 1) + 1) = q := by omega
  rw [hcomp] at hand
  unfold rightzero32Portable
  simp only
  rw [hneg, hn1, hand]
  exact rzDecode_ok c hc32

end Nlopt.Sobol
