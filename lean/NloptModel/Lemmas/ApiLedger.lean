import NloptModel.Lemmas.ApiWorld
/-! The ledger of user-data ids: which ids an object holds, which were passed to the destroy hook, which
    were obtained from the copy hook; and how every allocator / hook primitive acts on it. -/
set_option linter.unusedSimpArgs false
set_option linter.unusedVariables false
namespace Nlopt

/-- the data ids an object holds, in the C order: f_data, then fc[i].f_data, then h[i].f_data
    (0 = NULL entries included) -/
def Core.held (c : Core) : List Nat := c.fdata :: (c.fc.map (·.fdata) ++ c.h.map (·.fdata))

/-- the arguments of the destroy-hook calls, in order -/
def released (evs : List Ev) : List Nat := evs.filterMap fun | .mungeD d => some d | _ => none
/-- the (argument, result) pairs of the copy-hook calls, in order -/
def copied (evs : List Ev) : List (Nat × Nat) := evs.filterMap fun | .mungeC d d' => some (d, d') | _ => none

/-- the events emitted between two states -/
def newEvs (s s' : AS) : List Ev := s'.evs.drop s.evs.length

@[simp] theorem released_nil : released [] = [] := rfl
@[simp] theorem copied_nil : copied [] = [] := rfl
@[simp] theorem released_append (a b : List Ev) : released (a ++ b) = released a ++ released b := by
  simp [released]
@[simp] theorem copied_append (a b : List Ev) : copied (a ++ b) = copied a ++ copied b := by
  simp [copied]

/-- what the hook side of the state consists of: hook events, the copy hook's counter and oracle -/
structure HookSt where
  rel : List Nat
  cps : List (Nat × Nat)
  nextData : Nat
  mcFailIn : Nat
  deriving DecidableEq

def AS.hk (s : AS) : HookSt := ⟨released s.evs, copied s.evs, s.nextData, s.mcFailIn⟩

/-- `s'` extends the event log of `s` -/
def AS.le (s s' : AS) : Prop := s.evs <+: s'.evs

theorem AS.le_refl (s : AS) : s.le s := List.prefix_refl _
theorem AS.le_trans {a b c : AS} (h1 : a.le b) (h2 : b.le c) : a.le c := List.IsPrefix.trans h1 h2

theorem evs_of_le {s s' : AS} (h : s.le s') : s'.evs = s.evs ++ newEvs s s' := by
  obtain ⟨l, hl⟩ := h
  simp [newEvs, ← hl]

theorem released_new {s s' : AS} (h : s.le s') (x : List Nat)
    (hr : released s'.evs = released s.evs ++ x) : released (newEvs s s') = x := by
  rw [evs_of_le h, released_append] at hr
  exact List.append_cancel_left hr

theorem copied_new {s s' : AS} (h : s.le s') (x : List (Nat × Nat))
    (hr : copied s'.evs = copied s.evs ++ x) : copied (newEvs s s') = x := by
  rw [evs_of_le h, copied_append] at hr
  exact List.append_cancel_left hr

/-! ### primitives -/

@[simp] theorem emit_evs (s : AS) (e : Ev) : (s.emit e).evs = s.evs ++ [e] := rfl
@[simp] theorem emit_nextData (s : AS) (e : Ev) : (s.emit e).nextData = s.nextData := rfl
@[simp] theorem emit_mcFailIn (s : AS) (e : Ev) : (s.emit e).mcFailIn = s.mcFailIn := rfl

@[simp] theorem tick_evs (s : AS) : s.tick.2.evs = s.evs := by unfold AS.tick; (repeat' split) <;> rfl
@[simp] theorem tick_nextData (s : AS) : s.tick.2.nextData = s.nextData := by unfold AS.tick; (repeat' split) <;> rfl
@[simp] theorem tick_mcFailIn (s : AS) : s.tick.2.mcFailIn = s.mcFailIn := by unfold AS.tick; (repeat' split) <;> rfl

@[simp] theorem hk_alloc (s : AS) (n : Nat) : (s.alloc n).2.hk = s.hk := by
  unfold AS.alloc; simp only []; split <;> simp [AS.hk, released, copied]
@[simp] theorem le_alloc (s0 s : AS) (n : Nat) (h : s0.le s) : s0.le (s.alloc n).2 := by
  refine AS.le_trans h ?_
  unfold AS.alloc AS.le; simp only []; split <;> simp

@[simp] theorem hk_free (s : AS) (b : Nat) : (s.free b).hk = s.hk := by
  unfold AS.free; split <;> simp [AS.hk, released, copied]
@[simp] theorem le_free (s0 s : AS) (b : Nat) (h : s0.le s) : s0.le (s.free b) := by
  refine AS.le_trans h ?_
  unfold AS.free AS.le; split <;> simp

@[simp] theorem hk_freeOpt (s : AS) (b : Option Nat) : (s.freeOpt b).hk = s.hk := by
  cases b <;> simp [AS.freeOpt]
@[simp] theorem le_freeOpt (s0 s : AS) (b : Option Nat) (h : s0.le s) : s0.le (s.freeOpt b) := by
  cases b <;> simp [AS.freeOpt, h]

@[simp] theorem hk_freeArr (s : AS) (b : Option Arr) : (s.freeArr b).hk = s.hk := by
  cases b <;> simp [AS.freeArr]
@[simp] theorem le_freeArr (s0 s : AS) (b : Option Arr) (h : s0.le s) : s0.le (s.freeArr b) := by
  cases b <;> simp [AS.freeArr, h]

@[simp] theorem hk_realloc (s : AS) (o : Option Nat) (n : Nat) : (s.realloc o n).2.hk = s.hk := by
  unfold AS.realloc
  cases o with
  | none => simp
  | some o => simp only []; split <;> simp [AS.hk, released, copied]
@[simp] theorem le_realloc (s0 s : AS) (o : Option Nat) (n : Nat) (h : s0.le s) : s0.le (s.realloc o n).2 := by
  unfold AS.realloc
  cases o with
  | none => simp [h]
  | some o =>
    refine AS.le_trans h ?_
    simp only [AS.le]; split <;> simp

@[simp] theorem hk_allocArr (s : AS) (v : List F64) : (allocArr s v).2.hk = s.hk := by
  unfold allocArr
  have := hk_alloc s (8 * v.length)
  split <;> simp_all
@[simp] theorem le_allocArr (s0 s : AS) (v : List F64) (h : s0.le s) : s0.le (allocArr s v).2 := by
  unfold allocArr
  have := le_alloc s0 s (8 * v.length) h
  split <;> simp_all

@[simp] theorem hk_unsetErrmsg (s : AS) (c : Core) : (unsetErrmsg s c).1.hk = s.hk := by
  unfold unsetErrmsg; split <;> simp
@[simp] theorem le_unsetErrmsg (s0 s : AS) (c : Core) (h : s0.le s) : s0.le (unsetErrmsg s c).1 := by
  unfold unsetErrmsg; split <;> simp [h]

@[simp] theorem hk_setErrmsg (s : AS) (c : Core) : (setErrmsg s c).1.hk = s.hk := by
  unfold setErrmsg
  have := hk_realloc s c.errmsg 0
  split <;> simp_all
@[simp] theorem le_setErrmsg (s0 s : AS) (c : Core) (h : s0.le s) : s0.le (setErrmsg s c).1 := by
  unfold setErrmsg
  have := le_realloc s0 s c.errmsg 0 h
  split <;> simp_all

@[simp] theorem hk_mungeDestroy (s : AS) (d : Nat) :
    (s.mungeDestroy d).hk = { s.hk with rel := s.hk.rel ++ [d] } := by
  simp [AS.mungeDestroy, AS.hk, released, copied]
@[simp] theorem le_mungeDestroy (s0 s : AS) (d : Nat) (h : s0.le s) : s0.le (s.mungeDestroy d) := by
  refine AS.le_trans h ?_
  simp [AS.mungeDestroy, AS.le]

/-! ### folds -/

@[simp] theorem hk_freeTols (s : AS) (cs : List Con) : (freeTols s cs).hk = s.hk := by
  unfold freeTols
  induction cs generalizing s with
  | nil => rfl
  | cons c cs ih => simp [List.foldl_cons, ih]
@[simp] theorem le_freeTols (s0 s : AS) (cs : List Con) (h : s0.le s) : s0.le (freeTols s cs) := by
  unfold freeTols
  induction cs generalizing s with
  | nil => exact h
  | cons c cs ih => simp only [List.foldl_cons]; exact ih _ (le_freeArr _ _ _ h)

@[simp] theorem hk_freeNames (s : AS) (ps : List Param) : (freeNames s ps).hk = s.hk := by
  unfold freeNames
  induction ps generalizing s with
  | nil => rfl
  | cons c cs ih => simp [List.foldl_cons, ih]
@[simp] theorem le_freeNames (s0 s : AS) (ps : List Param) (h : s0.le s) : s0.le (freeNames s ps) := by
  unfold freeNames
  induction ps generalizing s with
  | nil => exact h
  | cons c cs ih => simp only [List.foldl_cons]; exact ih _ (le_free _ _ _ h)

@[simp] theorem hk_mungeCons (s : AS) (cs : List Con) :
    (mungeCons s cs).hk = { s.hk with rel := s.hk.rel ++ cs.map (·.fdata) } := by
  unfold mungeCons
  induction cs generalizing s with
  | nil => simp
  | cons c cs ih => simp [List.foldl_cons, ih]
@[simp] theorem le_mungeCons (s0 s : AS) (cs : List Con) (h : s0.le s) : s0.le (mungeCons s cs) := by
  unfold mungeCons
  induction cs generalizing s with
  | nil => exact h
  | cons c cs ih => simp only [List.foldl_cons]; exact ih _ (le_mungeDestroy _ _ _ h)

/-! ### the per-operation law -/

/-- `s'` extends the log of `s`, no copy-hook call was made, and the destroy hook was called exactly on `rel` -/
structure Step (s s' : AS) (rel : List Nat) : Prop where
  le : s.le s'
  hk : s'.hk = { s.hk with rel := s.hk.rel ++ rel }

theorem Step.released_new {s s' : AS} {rel : List Nat} (h : Step s s' rel) : released (newEvs s s') = rel :=
  Nlopt.released_new h.le rel (by have := congrArg HookSt.rel h.hk; simpa [AS.hk] using this)

theorem Step.copied_new {s s' : AS} {rel : List Nat} (h : Step s s' rel) : copied (newEvs s s') = [] :=
  Nlopt.copied_new h.le [] (by have := congrArg HookSt.cps h.hk; simpa [AS.hk] using this)

theorem Step.of_hk {s s' : AS} (hle : s.le s') (h : s'.hk = s.hk) : Step s s' [] := ⟨hle, by simp [h]⟩

theorem Step.trans {a b c : AS} {r1 r2 : List Nat} (h1 : Step a b r1) (h2 : Step b c r2) : Step a c (r1 ++ r2) :=
  ⟨AS.le_trans h1.le h2.le, by rw [h2.hk, h1.hk]; simp⟩

/-- what the ledger sees of an object: the data ids and the two hooks -/
structure DataSt where
  fdata : Nat
  fcd : List Nat
  hd : List Nat
  mungeD : Bool
  mungeC : Bool
  deriving DecidableEq

def DataSt.held (d : DataSt) : List Nat := d.fdata :: (d.fcd ++ d.hd)

def Core.data (c : Core) : DataSt := ⟨c.fdata, c.fc.map (·.fdata), c.h.map (·.fdata), c.mungeD, c.mungeC⟩

theorem Core.held_eq (c : Core) : c.held = c.data.held := rfl
theorem Core.mungeD_eq (c : Core) : c.mungeD = c.data.mungeD := rfl
theorem Core.mungeC_eq (c : Core) : c.mungeC = c.data.mungeC := rfl

@[simp] theorem unsetErrmsg_data (s : AS) (c : Core) : (unsetErrmsg s c).2.data = c.data := by
  unfold unsetErrmsg; split <;> rfl
@[simp] theorem setErrmsg_data (s : AS) (c : Core) : (setErrmsg s c).2.data = c.data := by
  unfold setErrmsg; split <;> rfl
@[simp] theorem unsetErrmsg_mungeD (s : AS) (c : Core) : (unsetErrmsg s c).2.mungeD = c.mungeD := by
  unfold unsetErrmsg; split <;> rfl
@[simp] theorem unsetErrmsg_held (s : AS) (c : Core) : (unsetErrmsg s c).2.held = c.held := by
  unfold unsetErrmsg; split <;> rfl
@[simp] theorem unsetErrmsg_fdata (s : AS) (c : Core) : (unsetErrmsg s c).2.fdata = c.fdata := by
  unfold unsetErrmsg; split <;> rfl
@[simp] theorem unsetErrmsg_fc (s : AS) (c : Core) : (unsetErrmsg s c).2.fc = c.fc := by
  unfold unsetErrmsg; split <;> rfl
@[simp] theorem unsetErrmsg_h (s : AS) (c : Core) : (unsetErrmsg s c).2.h = c.h := by
  unfold unsetErrmsg; split <;> rfl
@[simp] theorem setErrmsg_mungeD (s : AS) (c : Core) : (setErrmsg s c).2.mungeD = c.mungeD := by
  unfold setErrmsg; split <;> rfl
@[simp] theorem setErrmsg_held (s : AS) (c : Core) : (setErrmsg s c).2.held = c.held := by
  unfold setErrmsg; split <;> rfl

/-- turn the `heq : f … = (a, s')` hypotheses left by `split` into substitutions -/
macro "pair_subst" : tactic =>
  `(tactic| ((try simp only [Prod.ext_iff] at *) <;> (repeat (cases ‹_ ∧ _›)) <;> (try subst_vars)))

/-! ### operations that do not touch user data: they call no hook and hold the same ids -/

@[simp] theorem setLowerBounds_hk (A : Arith) (s : AS) (c : Core) (arg : Option (List F64)) : (setLowerBounds A s c arg).1.hk = s.hk := by
  unfold setLowerBounds
  simp only []
  (repeat' split) <;> pair_subst <;> simp
@[simp] theorem setLowerBounds_le (A : Arith) (s0 s : AS) (c : Core) (arg : Option (List F64)) (h : s0.le s) : s0.le (setLowerBounds A s c arg).1 := by
  unfold setLowerBounds
  simp only []
  (repeat' split) <;> pair_subst <;> simp (maxDischargeDepth := 8) [h]
@[simp] theorem setLowerBounds_data (A : Arith) (s : AS) (c : Core) (arg : Option (List F64)) : (setLowerBounds A s c arg).2.1.data = c.data := by
  unfold setLowerBounds
  simp only []
  (repeat' split) <;> pair_subst <;> (first | (simp; done) | rfl | (rw [← unsetErrmsg_data s c]; rfl) | simp [Core.data, Core.held])

@[simp] theorem setUpperBounds_hk (A : Arith) (s : AS) (c : Core) (arg : Option (List F64)) : (setUpperBounds A s c arg).1.hk = s.hk := by
  unfold setUpperBounds
  simp only []
  (repeat' split) <;> pair_subst <;> simp
@[simp] theorem setUpperBounds_le (A : Arith) (s0 s : AS) (c : Core) (arg : Option (List F64)) (h : s0.le s) : s0.le (setUpperBounds A s c arg).1 := by
  unfold setUpperBounds
  simp only []
  (repeat' split) <;> pair_subst <;> simp (maxDischargeDepth := 8) [h]
@[simp] theorem setUpperBounds_data (A : Arith) (s : AS) (c : Core) (arg : Option (List F64)) : (setUpperBounds A s c arg).2.1.data = c.data := by
  unfold setUpperBounds
  simp only []
  (repeat' split) <;> pair_subst <;> (first | (simp; done) | rfl | (rw [← unsetErrmsg_data s c]; rfl) | simp [Core.data, Core.held])

@[simp] theorem setLowerBounds1_hk (A : Arith) (s : AS) (c : Core) (x : F64) : (setLowerBounds1 A s c x).1.hk = s.hk := by
  unfold setLowerBounds1
  simp only []
  (repeat' split) <;> pair_subst <;> simp
@[simp] theorem setLowerBounds1_le (A : Arith) (s0 s : AS) (c : Core) (x : F64) (h : s0.le s) : s0.le (setLowerBounds1 A s c x).1 := by
  unfold setLowerBounds1
  simp only []
  (repeat' split) <;> pair_subst <;> simp (maxDischargeDepth := 8) [h]
@[simp] theorem setLowerBounds1_data (A : Arith) (s : AS) (c : Core) (x : F64) : (setLowerBounds1 A s c x).2.1.data = c.data := by
  unfold setLowerBounds1
  simp only []
  (repeat' split) <;> pair_subst <;> (first | (simp; done) | rfl | (rw [← unsetErrmsg_data s c]; rfl) | simp [Core.data, Core.held])

@[simp] theorem setUpperBounds1_hk (A : Arith) (s : AS) (c : Core) (x : F64) : (setUpperBounds1 A s c x).1.hk = s.hk := by
  unfold setUpperBounds1
  simp only []
  (repeat' split) <;> pair_subst <;> simp
@[simp] theorem setUpperBounds1_le (A : Arith) (s0 s : AS) (c : Core) (x : F64) (h : s0.le s) : s0.le (setUpperBounds1 A s c x).1 := by
  unfold setUpperBounds1
  simp only []
  (repeat' split) <;> pair_subst <;> simp (maxDischargeDepth := 8) [h]
@[simp] theorem setUpperBounds1_data (A : Arith) (s : AS) (c : Core) (x : F64) : (setUpperBounds1 A s c x).2.1.data = c.data := by
  unfold setUpperBounds1
  simp only []
  (repeat' split) <;> pair_subst <;> (first | (simp; done) | rfl | (rw [← unsetErrmsg_data s c]; rfl) | simp [Core.data, Core.held])

@[simp] theorem setLowerBound_hk (A : Arith) (s : AS) (c : Core) (i : Int) (x : F64) : (setLowerBound A s c i x).1.hk = s.hk := by
  unfold setLowerBound
  simp only []
  (repeat' split) <;> pair_subst <;> simp
@[simp] theorem setLowerBound_le (A : Arith) (s0 s : AS) (c : Core) (i : Int) (x : F64) (h : s0.le s) : s0.le (setLowerBound A s c i x).1 := by
  unfold setLowerBound
  simp only []
  (repeat' split) <;> pair_subst <;> simp (maxDischargeDepth := 8) [h]
@[simp] theorem setLowerBound_data (A : Arith) (s : AS) (c : Core) (i : Int) (x : F64) : (setLowerBound A s c i x).2.1.data = c.data := by
  unfold setLowerBound
  simp only []
  (repeat' split) <;> pair_subst <;> (first | (simp; done) | rfl | (rw [← unsetErrmsg_data s c]; rfl) | simp [Core.data, Core.held])

@[simp] theorem setUpperBound_hk (A : Arith) (s : AS) (c : Core) (i : Int) (x : F64) : (setUpperBound A s c i x).1.hk = s.hk := by
  unfold setUpperBound
  simp only []
  (repeat' split) <;> pair_subst <;> simp
@[simp] theorem setUpperBound_le (A : Arith) (s0 s : AS) (c : Core) (i : Int) (x : F64) (h : s0.le s) : s0.le (setUpperBound A s c i x).1 := by
  unfold setUpperBound
  simp only []
  (repeat' split) <;> pair_subst <;> simp (maxDischargeDepth := 8) [h]
@[simp] theorem setUpperBound_data (A : Arith) (s : AS) (c : Core) (i : Int) (x : F64) : (setUpperBound A s c i x).2.1.data = c.data := by
  unfold setUpperBound
  simp only []
  (repeat' split) <;> pair_subst <;> (first | (simp; done) | rfl | (rw [← unsetErrmsg_data s c]; rfl) | simp [Core.data, Core.held])

@[simp] theorem setParam_hk  (s : AS) (c : Core) (nm : Option String) (x : F64) : (setParam s c nm x).1.hk = s.hk := by
  unfold setParam
  simp only []
  (repeat' split) <;> pair_subst <;> simp
@[simp] theorem setParam_le  (s0 s : AS) (c : Core) (nm : Option String) (x : F64) (h : s0.le s) : s0.le (setParam s c nm x).1 := by
  unfold setParam
  simp only []
  (repeat' split) <;> pair_subst <;> simp (maxDischargeDepth := 8) [h]
@[simp] theorem setParam_data  (s : AS) (c : Core) (nm : Option String) (x : F64) : (setParam s c nm x).2.1.data = c.data := by
  unfold setParam
  simp only []
  (repeat' split) <;> pair_subst <;> (first | (simp; done) | rfl | (rw [← unsetErrmsg_data s c]; rfl) | simp [Core.data, Core.held])

@[simp] theorem setXtolAbs_hk  (s : AS) (c : Core) (arg : Option (List F64)) : (setXtolAbs s c arg).1.hk = s.hk := by
  unfold setXtolAbs
  simp only []
  (repeat' split) <;> pair_subst <;> simp
@[simp] theorem setXtolAbs_le  (s0 s : AS) (c : Core) (arg : Option (List F64)) (h : s0.le s) : s0.le (setXtolAbs s c arg).1 := by
  unfold setXtolAbs
  simp only []
  (repeat' split) <;> pair_subst <;> simp (maxDischargeDepth := 8) [h]
@[simp] theorem setXtolAbs_data  (s : AS) (c : Core) (arg : Option (List F64)) : (setXtolAbs s c arg).2.1.data = c.data := by
  unfold setXtolAbs
  simp only []
  (repeat' split) <;> pair_subst <;> (first | (simp; done) | rfl | (rw [← unsetErrmsg_data s c]; rfl) | simp [Core.data, Core.held])

@[simp] theorem setXtolAbs1_hk  (s : AS) (c : Core) (x : F64) : (setXtolAbs1 s c x).1.hk = s.hk := by
  unfold setXtolAbs1
  simp only []
  (repeat' split) <;> pair_subst <;> simp
@[simp] theorem setXtolAbs1_le  (s0 s : AS) (c : Core) (x : F64) (h : s0.le s) : s0.le (setXtolAbs1 s c x).1 := by
  unfold setXtolAbs1
  simp only []
  (repeat' split) <;> pair_subst <;> simp (maxDischargeDepth := 8) [h]
@[simp] theorem setXtolAbs1_data  (s : AS) (c : Core) (x : F64) : (setXtolAbs1 s c x).2.1.data = c.data := by
  unfold setXtolAbs1
  simp only []
  (repeat' split) <;> pair_subst <;> (first | (simp; done) | rfl | (rw [← unsetErrmsg_data s c]; rfl) | simp [Core.data, Core.held])

@[simp] theorem setXWeights_hk  (s : AS) (c : Core) (arg : Option (List F64)) : (setXWeights s c arg).1.hk = s.hk := by
  unfold setXWeights
  simp only []
  (repeat' split) <;> pair_subst <;> simp
@[simp] theorem setXWeights_le  (s0 s : AS) (c : Core) (arg : Option (List F64)) (h : s0.le s) : s0.le (setXWeights s c arg).1 := by
  unfold setXWeights
  simp only []
  (repeat' split) <;> pair_subst <;> simp (maxDischargeDepth := 8) [h]
@[simp] theorem setXWeights_data  (s : AS) (c : Core) (arg : Option (List F64)) : (setXWeights s c arg).2.1.data = c.data := by
  unfold setXWeights
  simp only []
  (repeat' split) <;> pair_subst <;> (first | (simp; done) | rfl | (rw [← unsetErrmsg_data s c]; rfl) | simp [Core.data, Core.held])

@[simp] theorem setXWeights1_hk  (s : AS) (c : Core) (x : F64) : (setXWeights1 s c x).1.hk = s.hk := by
  unfold setXWeights1
  simp only []
  (repeat' split) <;> pair_subst <;> simp
@[simp] theorem setXWeights1_le  (s0 s : AS) (c : Core) (x : F64) (h : s0.le s) : s0.le (setXWeights1 s c x).1 := by
  unfold setXWeights1
  simp only []
  (repeat' split) <;> pair_subst <;> simp (maxDischargeDepth := 8) [h]
@[simp] theorem setXWeights1_data  (s : AS) (c : Core) (x : F64) : (setXWeights1 s c x).2.1.data = c.data := by
  unfold setXWeights1
  simp only []
  (repeat' split) <;> pair_subst <;> (first | (simp; done) | rfl | (rw [← unsetErrmsg_data s c]; rfl) | simp [Core.data, Core.held])

@[simp] theorem setInitialStep1_hk  (s : AS) (c : Core) (x : F64) : (setInitialStep1 s c x).1.hk = s.hk := by
  unfold setInitialStep1
  simp only []
  (repeat' split) <;> pair_subst <;> simp
@[simp] theorem setInitialStep1_le  (s0 s : AS) (c : Core) (x : F64) (h : s0.le s) : s0.le (setInitialStep1 s c x).1 := by
  unfold setInitialStep1
  simp only []
  (repeat' split) <;> pair_subst <;> simp (maxDischargeDepth := 8) [h]
@[simp] theorem setInitialStep1_data  (s : AS) (c : Core) (x : F64) : (setInitialStep1 s c x).2.1.data = c.data := by
  unfold setInitialStep1
  simp only []
  (repeat' split) <;> pair_subst <;> (first | (simp; done) | rfl | (rw [← unsetErrmsg_data s c]; rfl) | simp [Core.data, Core.held])

@[simp] theorem setInitialStep_hk  (s : AS) (c : Core) (arg : Option (List F64)) : (setInitialStep s c arg).1.hk = s.hk := by
  unfold setInitialStep
  simp only []
  (repeat' split) <;> pair_subst <;> simp
@[simp] theorem setInitialStep_le  (s0 s : AS) (c : Core) (arg : Option (List F64)) (h : s0.le s) : s0.le (setInitialStep s c arg).1 := by
  unfold setInitialStep
  simp only []
  (repeat' split) <;> pair_subst <;> simp (maxDischargeDepth := 8) [h]
@[simp] theorem setInitialStep_data  (s : AS) (c : Core) (arg : Option (List F64)) : (setInitialStep s c arg).2.1.data = c.data := by
  unfold setInitialStep
  simp only []
  (repeat' split) <;> pair_subst <;> (first | (simp; done) | rfl | (rw [← unsetErrmsg_data s c]; rfl) | (rw [← unsetErrmsg_data s c, ← setInitialStep1_data (unsetErrmsg s c).1 (unsetErrmsg s c).2 F64.one]; rfl) | simp [Core.data, Core.held])

@[simp] theorem setDefaultInitialStep_hk (A : Arith) (s : AS) (c : Core) (x : Option (List F64)) : (setDefaultInitialStep A s c x).1.hk = s.hk := by
  unfold setDefaultInitialStep
  simp only []
  (repeat' split) <;> pair_subst <;> simp
@[simp] theorem setDefaultInitialStep_le (A : Arith) (s0 s : AS) (c : Core) (x : Option (List F64)) (h : s0.le s) : s0.le (setDefaultInitialStep A s c x).1 := by
  unfold setDefaultInitialStep
  simp only []
  (repeat' split) <;> pair_subst <;> simp (maxDischargeDepth := 8) [h]
@[simp] theorem setDefaultInitialStep_data (A : Arith) (s : AS) (c : Core) (x : Option (List F64)) : (setDefaultInitialStep A s c x).2.1.data = c.data := by
  unfold setDefaultInitialStep
  simp only []
  (repeat' split) <;> pair_subst <;> (first | (simp; done) | rfl | (rw [← unsetErrmsg_data s c]; rfl) | (rw [← unsetErrmsg_data s c, ← setInitialStep1_data (unsetErrmsg s c).1 (unsetErrmsg s c).2 F64.one]; rfl) | simp [Core.data, Core.held])

@[simp] theorem getLowerBounds_hk  (s : AS) (c : Core) (b : Bool) : (getLowerBounds s c b).1.hk = s.hk := by
  unfold getLowerBounds
  simp only []
  (repeat' split) <;> pair_subst <;> simp
@[simp] theorem getLowerBounds_le  (s0 s : AS) (c : Core) (b : Bool) (h : s0.le s) : s0.le (getLowerBounds s c b).1 := by
  unfold getLowerBounds
  simp only []
  (repeat' split) <;> pair_subst <;> simp (maxDischargeDepth := 8) [h]
@[simp] theorem getLowerBounds_data  (s : AS) (c : Core) (b : Bool) : (getLowerBounds s c b).2.1.data = c.data := by
  unfold getLowerBounds
  simp only []
  (repeat' split) <;> pair_subst <;> (first | (simp; done) | rfl | (rw [← unsetErrmsg_data s c]; rfl) | simp [Core.data, Core.held])

@[simp] theorem getUpperBounds_hk  (s : AS) (c : Core) (b : Bool) : (getUpperBounds s c b).1.hk = s.hk := by
  unfold getUpperBounds
  simp only []
  (repeat' split) <;> pair_subst <;> simp
@[simp] theorem getUpperBounds_le  (s0 s : AS) (c : Core) (b : Bool) (h : s0.le s) : s0.le (getUpperBounds s c b).1 := by
  unfold getUpperBounds
  simp only []
  (repeat' split) <;> pair_subst <;> simp (maxDischargeDepth := 8) [h]
@[simp] theorem getUpperBounds_data  (s : AS) (c : Core) (b : Bool) : (getUpperBounds s c b).2.1.data = c.data := by
  unfold getUpperBounds
  simp only []
  (repeat' split) <;> pair_subst <;> (first | (simp; done) | rfl | (rw [← unsetErrmsg_data s c]; rfl) | simp [Core.data, Core.held])

@[simp] theorem getXtolAbs_hk  (s : AS) (c : Core) (b : Bool) : (getXtolAbs s c b).1.hk = s.hk := by
  unfold getXtolAbs
  simp only []
  (repeat' split) <;> pair_subst <;> simp
@[simp] theorem getXtolAbs_le  (s0 s : AS) (c : Core) (b : Bool) (h : s0.le s) : s0.le (getXtolAbs s c b).1 := by
  unfold getXtolAbs
  simp only []
  (repeat' split) <;> pair_subst <;> simp (maxDischargeDepth := 8) [h]
@[simp] theorem getXtolAbs_data  (s : AS) (c : Core) (b : Bool) : (getXtolAbs s c b).2.1.data = c.data := by
  unfold getXtolAbs
  simp only []
  (repeat' split) <;> pair_subst <;> (first | (simp; done) | rfl | (rw [← unsetErrmsg_data s c]; rfl) | simp [Core.data, Core.held])

@[simp] theorem getXWeights_hk  (s : AS) (c : Core) (b : Bool) : (getXWeights s c b).1.hk = s.hk := by
  unfold getXWeights
  simp only []
  (repeat' split) <;> pair_subst <;> simp
@[simp] theorem getXWeights_le  (s0 s : AS) (c : Core) (b : Bool) (h : s0.le s) : s0.le (getXWeights s c b).1 := by
  unfold getXWeights
  simp only []
  (repeat' split) <;> pair_subst <;> simp (maxDischargeDepth := 8) [h]
@[simp] theorem getXWeights_data  (s : AS) (c : Core) (b : Bool) : (getXWeights s c b).2.1.data = c.data := by
  unfold getXWeights
  simp only []
  (repeat' split) <;> pair_subst <;> (first | (simp; done) | rfl | (rw [← unsetErrmsg_data s c]; rfl) | simp [Core.data, Core.held])

@[simp] theorem getInitialStep_hk (A : Arith) (s : AS) (c : Core) (x : Option (List F64)) : (getInitialStep A s c x).1.hk = s.hk := by
  unfold getInitialStep
  simp only []
  (repeat' split) <;> pair_subst <;> simp
@[simp] theorem getInitialStep_le (A : Arith) (s0 s : AS) (c : Core) (x : Option (List F64)) (h : s0.le s) : s0.le (getInitialStep A s c x).1 := by
  unfold getInitialStep
  simp only []
  (repeat' split) <;> pair_subst <;> simp (maxDischargeDepth := 8) [h]
@[simp] theorem getInitialStep_data (A : Arith) (s : AS) (c : Core) (x : Option (List F64)) : (getInitialStep A s c x).2.1.data = c.data := by
  unfold getInitialStep
  simp only []
  (repeat' split) <;> pair_subst <;> (first | (simp; done) | rfl | (rw [← unsetErrmsg_data s c]; rfl) | (rw [← unsetErrmsg_data s c, ← setDefaultInitialStep_data A (unsetErrmsg s c).1 (unsetErrmsg s c).2 x]; rfl) | simp [Core.data, Core.held])

@[simp] theorem setScalar_hk (s : AS) (c : Core) (upd : Core → Core) : (setScalar s c upd).1.hk = s.hk := by
  simp [setScalar]
@[simp] theorem setScalar_le (s0 s : AS) (c : Core) (upd : Core → Core) (h : s0.le s) : s0.le (setScalar s c upd).1 := by
  simp [setScalar, h]
theorem ScalarSet.apply_data (c : Core) (v : ScalarSet) : (ScalarSet.apply c v).data = c.data := by
  cases v <;> rfl
@[simp] theorem setScalar_data (s : AS) (c : Core) (v : ScalarSet) :
    (setScalar s c (ScalarSet.apply · v)).2.1.data = c.data := by
  simp [setScalar, ScalarSet.apply_data]

/-! ### operations that take or release user data -/

theorem setObjective_step (s : AS) (c : Core) (f pre fdata : Nat) (mx : Bool) :
    Step s (setObjective s c f pre fdata mx).1 (if c.mungeD then [c.fdata] else []) := by
  unfold setObjective
  simp only []
  constructor
  · split <;> simp [AS.le_refl]
  · split <;> simp_all

theorem setObjective_data (s : AS) (c : Core) (f pre fdata : Nat) (mx : Bool) :
    (setObjective s c f pre fdata mx).2.1.data = { c.data with fdata := fdata } := by
  unfold setObjective
  simp only []
  have := unsetErrmsg_data s c
  simp only [Core.data, DataSt.mk.injEq] at this ⊢
  simp [this]

theorem removeCons_step (s : AS) (mD : Bool) (cs : List Con) (blk : Option Nat) :
    Step s (removeCons s mD cs blk) (if mD then cs.map (·.fdata) else []) := by
  unfold removeCons
  simp only []
  constructor
  · cases mD <;> simp (maxDischargeDepth := 8) [AS.le_refl]
  · cases mD <;> simp

theorem removeIneq_step (s : AS) (c : Core) :
    Step s (removeIneq s c).1 (if c.mungeD then c.fc.map (·.fdata) else []) := by
  unfold removeIneq
  simp only []
  have h1 : Step s (unsetErrmsg s c).1 [] := Step.of_hk (by simp [AS.le_refl]) (by simp)
  have := h1.trans (removeCons_step (unsetErrmsg s c).1 (unsetErrmsg s c).2.mungeD (unsetErrmsg s c).2.fc
    (unsetErrmsg s c).2.fcBlk)
  simpa using this

theorem removeEq_step (s : AS) (c : Core) :
    Step s (removeEq s c).1 (if c.mungeD then c.h.map (·.fdata) else []) := by
  unfold removeEq
  simp only []
  have h1 : Step s (unsetErrmsg s c).1 [] := Step.of_hk (by simp [AS.le_refl]) (by simp)
  have := h1.trans (removeCons_step (unsetErrmsg s c).1 (unsetErrmsg s c).2.mungeD (unsetErrmsg s c).2.h
    (unsetErrmsg s c).2.hBlk)
  simpa using this

theorem removeIneq_data (s : AS) (c : Core) :
    (removeIneq s c).2.1.data = { c.data with fcd := [] } := by
  unfold removeIneq
  simp only []
  have := unsetErrmsg_data s c
  simp only [Core.data, DataSt.mk.injEq] at this ⊢
  simp [this]

theorem removeEq_data (s : AS) (c : Core) :
    (removeEq s c).2.1.data = { c.data with hd := [] } := by
  unfold removeEq
  simp only []
  have := unsetErrmsg_data s c
  simp only [Core.data, DataSt.mk.injEq] at this ⊢
  simp [this]

theorem addConstraint_hk (s : AS) (c : Core) (cs : List Con) (al : Nat) (blk : Option Nat)
    (fm : Nat) (isVec : Bool) (fid pre fdata : Nat) (tol : Option (List F64)) :
    (addConstraint s c cs al blk fm isVec fid pre fdata tol).1.hk = s.hk := by
  unfold addConstraint
  simp only []
  (repeat' split) <;> pair_subst <;> simp

theorem addConstraint_le (s0 s : AS) (c : Core) (cs : List Con) (al : Nat) (blk : Option Nat)
    (fm : Nat) (isVec : Bool) (fid pre fdata : Nat) (tol : Option (List F64)) (h : s0.le s) :
    s0.le (addConstraint s c cs al blk fm isVec fid pre fdata tol).1 := by
  unfold addConstraint
  simp only []
  (repeat' split) <;> pair_subst <;> simp (maxDischargeDepth := 8) [h]

theorem addConstraint_data (s : AS) (c : Core) (cs : List Con) (al : Nat) (blk : Option Nat)
    (fm : Nat) (isVec : Bool) (fid pre fdata : Nat) (tol : Option (List F64)) :
    (addConstraint s c cs al blk fm isVec fid pre fdata tol).2.1.data = c.data := by
  unfold addConstraint
  simp only []
  (repeat' split) <;> pair_subst <;> simp

/-- `add_constraint` returns success, and then the list grew by one entry carrying `fdata`, or an error,
    and then the list is unchanged -/
theorem addConstraint_list (s : AS) (c : Core) (cs : List Con) (al : Nat) (blk : Option Nat)
    (fm : Nat) (isVec : Bool) (fid pre fdata : Nat) (tol : Option (List F64)) :
    ((addConstraint s c cs al blk fm isVec fid pre fdata tol).2.2.2.2.2 = rSUCCESS ∧
      (addConstraint s c cs al blk fm isVec fid pre fdata tol).2.2.1.map (·.fdata) = cs.map (·.fdata) ++ [fdata]) ∨
    ((addConstraint s c cs al blk fm isVec fid pre fdata tol).2.2.2.2.2 < 0 ∧
      (addConstraint s c cs al blk fm isVec fid pre fdata tol).2.2.1 = cs) := by
  unfold addConstraint
  simp only []
  (repeat' split) <;> simp [rSUCCESS, rINVALID, rOOM]

theorem addConCore_hk (caps : List Nat) (eq : Bool) (s : AS) (c : Core) (fm : Nat) (isVec : Bool)
    (fid pre fdata : Nat) (tol : Option (List F64)) :
    (addConCore caps eq s c fm isVec fid pre fdata tol).1.hk = s.hk := by
  unfold addConCore
  (repeat' split) <;> simp [addConstraint_hk]

theorem addConCore_le (caps : List Nat) (eq : Bool) (s0 s : AS) (c : Core) (fm : Nat) (isVec : Bool)
    (fid pre fdata : Nat) (tol : Option (List F64)) (h : s0.le s) :
    s0.le (addConCore caps eq s c fm isVec fid pre fdata tol).1 := by
  unfold addConCore
  (repeat' split) <;> simp [addConstraint_le, h]

/-- the ledger of the part of a public adder before its final munge call: on success the object holds
    `fdata` in addition (at the end of `h` resp. `fc`), on failure it holds what it held -/
theorem addConCore_data (caps : List Nat) (eq : Bool) (s : AS) (c : Core) (fm : Nat) (isVec : Bool)
    (fid pre fdata : Nat) (tol : Option (List F64)) :
    ((addConCore caps eq s c fm isVec fid pre fdata tol).2.2 = rSUCCESS ∧
      (addConCore caps eq s c fm isVec fid pre fdata tol).2.1.data =
        (if eq then { c.data with hd := c.data.hd ++ [fdata] }
         else { c.data with fcd := c.data.fcd ++ [fdata] })) ∨
    ((addConCore caps eq s c fm isVec fid pre fdata tol).2.2 < 0 ∧
      (addConCore caps eq s c fm isVec fid pre fdata tol).2.1.data = c.data) := by
  unfold addConCore
  by_cases hcap : (!caps.contains c.algorithm) = true
  · rw [if_pos hcap]; right; simp [rINVALID]
  · rw [if_neg hcap]
    by_cases heq : eq = true
    · rw [if_pos heq]
      have hd := addConstraint_data s c c.h c.pAlloc c.hBlk fm isVec fid pre fdata tol
      simp only [Core.data, DataSt.mk.injEq] at hd ⊢
      rcases addConstraint_list s c c.h c.pAlloc c.hBlk fm isVec fid pre fdata tol with ⟨h1, h2⟩ | ⟨h1, h2⟩
      · left; simp [h1, h2, hd, heq]
      · right; simp [h1, h2, hd]
    · rw [if_neg heq]
      have hd := addConstraint_data s c c.fc c.mAlloc c.fcBlk fm isVec fid pre fdata tol
      simp only [Core.data, DataSt.mk.injEq] at hd ⊢
      rcases addConstraint_list s c c.fc c.mAlloc c.fcBlk fm isVec fid pre fdata tol with ⟨h1, h2⟩ | ⟨h1, h2⟩
      · left; simp [h1, h2, hd, heq]
      · right; simp [h1, h2, hd]

/-- the two outcomes of a public `nlopt_add_*constraint`: the entry was stored (nothing released), or it was
    not stored (error, or empty vector constraint) and `fdata` went to the destroy hook, if installed -/
theorem addCon_cases (caps : List Nat) (eq : Bool) (s : AS) (c : Core) (fm : Nat) (isVec : Bool)
    (fid pre fdata : Nat) (tol : Option (List F64)) :
    ((addCon caps eq s c fm isVec fid pre fdata tol).2.2 = rSUCCESS ∧ ¬ (isVec = true ∧ fm = 0) ∧
      Step s (addCon caps eq s c fm isVec fid pre fdata tol).1 [] ∧
      (addCon caps eq s c fm isVec fid pre fdata tol).2.1.data =
        (if eq then { c.data with hd := c.data.hd ++ [fdata] }
         else { c.data with fcd := c.data.fcd ++ [fdata] })) ∨
    (((addCon caps eq s c fm isVec fid pre fdata tol).2.2 < 0 ∨
        ((isVec = true ∧ fm = 0) ∧ (addCon caps eq s c fm isVec fid pre fdata tol).2.2 = rSUCCESS)) ∧
      Step s (addCon caps eq s c fm isVec fid pre fdata tol).1 (if c.mungeD then [fdata] else []) ∧
      (addCon caps eq s c fm isVec fid pre fdata tol).2.1.data = c.data) := by
  unfold addCon
  have hu : Step s (unsetErrmsg s c).1 [] := Step.of_hk (by simp [AS.le_refl]) (by simp)
  by_cases hh : (isVec = true ∧ fm = 0)
  · rw [if_pos hh]
    right
    refine ⟨Or.inr ⟨hh, rfl⟩, ?_, by simp⟩
    simp only []
    cases hD : c.mungeD
    · simpa [hD] using hu
    · have : Step (unsetErrmsg s c).1 ((unsetErrmsg s c).1.mungeDestroy fdata) [fdata] :=
        ⟨by simp [AS.le_refl], by simp⟩
      simpa [hD] using hu.trans this
  · rw [if_neg hh]
    simp only []
    have hk := addConCore_hk caps eq (unsetErrmsg s c).1 (unsetErrmsg s c).2 fm isVec fid pre fdata tol
    have hle := addConCore_le caps eq s (unsetErrmsg s c).1 (unsetErrmsg s c).2 fm isVec fid pre fdata tol
      (by simp [AS.le_refl])
    have hcore : Step s (addConCore caps eq (unsetErrmsg s c).1 (unsetErrmsg s c).2 fm isVec fid pre fdata tol).1 [] :=
      Step.of_hk hle (by simp [hk])
    rcases addConCore_data caps eq (unsetErrmsg s c).1 (unsetErrmsg s c).2 fm isVec fid pre fdata tol with
      ⟨h1, h2⟩ | ⟨h1, h2⟩
    · left
      refine ⟨h1, hh, ?_, by simpa using h2⟩
      rw [if_neg (by rw [h1]; simp [rSUCCESS])]
      exact hcore
    · right
      refine ⟨Or.inl h1, ?_, by simpa using h2⟩
      have hmd : (addConCore caps eq (unsetErrmsg s c).1 (unsetErrmsg s c).2 fm isVec fid pre fdata tol).2.1.mungeD
          = c.mungeD := by
        have := congrArg DataSt.mungeD h2
        simpa [Core.data] using this
      rw [hmd]
      cases hD : c.mungeD
      · simpa using hcore
      · have := hcore.trans (r2 := [fdata]) (c := (addConCore caps eq (unsetErrmsg s c).1 (unsetErrmsg s c).2 fm
          isVec fid pre fdata tol).1.mungeDestroy fdata) ⟨by simp [AS.le_refl], by simp⟩
        simpa [h1] using this

/-! ### nlopt_destroy -/

/-- what `nlopt_destroy` passes to the destroy hook for one object of the chain -/
def Core.heldIfD (c : Core) : List Nat := if c.mungeD then c.held else []

theorem destroyPre_step (s : AS) (c : Core) : Step s (destroyPre s c) c.heldIfD := by
  unfold destroyPre Core.heldIfD
  simp only []
  constructor
  · cases c.mungeD <;> simp (maxDischargeDepth := 16) [AS.le_refl]
  · cases c.mungeD <;> simp [Core.held]

theorem destroyPost_step (s : AS) (c : Core) : Step s (destroyPost s c) [] := by
  unfold destroyPost
  exact Step.of_hk (by simp (maxDischargeDepth := 8) [AS.le_refl]) (by simp)

theorem destroyChain_step (s : AS) (ch : List Core) :
    Step s (destroyChain s ch) (ch.flatMap Core.heldIfD) := by
  induction ch generalizing s with
  | nil => exact Step.of_hk (AS.le_refl _) rfl
  | cons c rest ih =>
    unfold destroyChain
    have := ((destroyPre_step s c).trans (ih (destroyPre s c))).trans (destroyPost_step _ c)
    simpa using this

/-! ### the copy hook -/

/-- specification of the copy hook applied along a list of data ids with counter `k`:
    NULL (0) stays NULL without a hook call, every other id `d` gets the next fresh id.
    Returns (new ids, hook calls). -/
def mungeIds (k : Nat) : List Nat → List Nat × List (Nat × Nat)
  | [] => ([], [])
  | d :: ds =>
    if d = 0 then (0 :: (mungeIds k ds).1, (mungeIds k ds).2)
    else (k :: (mungeIds (k + 1) ds).1, (d, k) :: (mungeIds (k + 1) ds).2)

theorem mungeIds_append (k : Nat) (a b : List Nat) :
    mungeIds k (a ++ b) = ((mungeIds k a).1 ++ (mungeIds (k + (mungeIds k a).2.length) b).1,
                           (mungeIds k a).2 ++ (mungeIds (k + (mungeIds k a).2.length) b).2) := by
  induction a generalizing k with
  | nil => simp [mungeIds]
  | cons d ds ih =>
    by_cases hd : d = 0
    · simp [mungeIds, hd, ih]
    · simp [mungeIds, hd, ih, Nat.add_assoc, Nat.add_comm 1]

theorem mungeCopy_rel (s : AS) (d : Nat) : (s.mungeCopy d).2.hk.rel = s.hk.rel := by
  unfold AS.mungeCopy
  (repeat' split) <;> simp [AS.hk, released]

theorem le_mungeCopy (s0 s : AS) (d : Nat) (h : s0.le s) : s0.le (s.mungeCopy d).2 := by
  refine AS.le_trans h ?_
  unfold AS.mungeCopy AS.le
  (repeat' split) <;> simp

/-- a successful hook call returns the counter, logs the call and advances the counter -/
theorem mungeCopy_some (s : AS) (d d' : Nat) (h : (s.mungeCopy d).1 = some d') :
    d' = s.nextData ∧ (s.mungeCopy d).2.hk.cps = s.hk.cps ++ [(d, d')] ∧
    (s.mungeCopy d).2.nextData = s.nextData + 1 := by
  unfold AS.mungeCopy at *
  (repeat' split at h) <;> simp_all [AS.hk, copied]

/-- a failing hook call logs `(d, 0)` -/
theorem mungeCopy_none (s : AS) (d : Nat) (h : (s.mungeCopy d).1 = none) :
    (s.mungeCopy d).2.hk.cps = s.hk.cps ++ [(d, 0)] ∧ (s.mungeCopy d).2.nextData = s.nextData := by
  unfold AS.mungeCopy at *
  (repeat' split at h) <;> simp_all [AS.hk, copied]

theorem mungeCopy_ok_of_zero (s : AS) (d : Nat) (h : s.mcFailIn = 0) :
    (s.mungeCopy d).1 = some s.nextData ∧ (s.mungeCopy d).2.mcFailIn = 0 := by
  unfold AS.mungeCopy
  simp [h]

end Nlopt
