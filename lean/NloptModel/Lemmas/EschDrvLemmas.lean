import NloptModel.Model.EschDriver
import NloptModel.Lemmas.F64Order
/-! Structural lemmas about the ESCH driver model: step case analysis, the induction principle `run_ind` over the
    consumed events, concatenation of event lists. -/
set_option linter.unusedSimpArgs false
set_option linter.unusedVariables false
namespace Nlopt.EschDrv
open Nlopt Nlopt.F64

theorem npEff_pos (c : Cfg) : 1 ≤ npEff c := by unfold npEff; split <;> omega
theorem noEff_pos (c : Cfg) : 1 ≤ noEff c := by unfold noEff; split <;> omega

/-- the `NLOPT_INVALID_ARGS` branch is dead -/
theorem run_eq (A : Arith) (c : Cfg) (evs : List Ev) : run A c evs = finish (feed c (init c) evs) := by
  have h1 := npEff_pos c
  have h2 := noEff_pos c
  unfold run
  rw [if_neg (by omega)]

/-! ### fields untouched by the loop bookkeeping -/

@[simp] theorem advance_x (c : Cfg) (st : St) : (advance c st).x = st.x := by
  unfold advance; split <;> split <;> rfl
@[simp] theorem advance_minf (c : Cfg) (st : St) : (advance c st).minf = st.minf := by
  unfold advance; split <;> split <;> rfl
@[simp] theorem advance_wrote (c : Cfg) (st : St) : (advance c st).wrote = st.wrote := by
  unfold advance; split <;> split <;> rfl
@[simp] theorem advance_nev (c : Cfg) (st : St) : (advance c st).nev = st.nev := by
  unfold advance; split <;> split <;> rfl

@[simp] theorem incumbent_nev (st : St) (e : Ev) : (incumbent st e).nev = st.nev + 1 := by
  unfold incumbent; split <;> rfl
@[simp] theorem incumbent_phase (st : St) (e : Ev) : (incumbent st e).phase = st.phase := by
  unfold incumbent; split <;> rfl
@[simp] theorem incumbent_gen (st : St) (e : Ev) : (incumbent st e).gen = st.gen := by
  unfold incumbent; split <;> rfl

theorem incumbent_better {st : St} {e : Ev} (h : F64.gt st.minf e.f = true) :
    incumbent st e = { st with nev := st.nev + 1, minf := e.f, x := e.x, wrote := true } := by
  unfold incumbent; rw [if_pos h]
theorem incumbent_not_better {st : St} {e : Ev} (h : F64.gt st.minf e.f = false) :
    incumbent st e = { st with nev := st.nev + 1 } := by
  unfold incumbent; rw [if_neg (by simp [h])]

@[simp] theorem mkRes_ret (r : Int) (st : St) (b : Bool) : (mkRes r st b).ret = r := rfl
@[simp] theorem mkRes_nevals (r : Int) (st : St) (b : Bool) : (mkRes r st b).nevals = st.nev := rfl
@[simp] theorem mkRes_x (r : Int) (st : St) (b : Bool) : (mkRes r st b).x = st.x := rfl
@[simp] theorem mkRes_short (r : Int) (st : St) (b : Bool) : (mkRes r st b).short = b := rfl
@[simp] theorem mkRes_minf (r : Int) (st : St) (b : Bool) :
    (mkRes r st b).minf = if st.wrote then some st.minf else none := rfl

/-! ### one step -/

theorem step_running {c : Cfg} {st st' : St} {e : Ev} (h : step c st e = .running st') :
    check c (incumbent st e) e = none ∧ st' = advance c (incumbent st e) := by
  unfold step at h
  cases hc : check c (incumbent st e) e with
  | none => simp [hc] at h; exact ⟨rfl, h.symm⟩
  | some r => simp [hc] at h

theorem step_done {c : Cfg} {st : St} {e : Ev} {r : Res} (h : step c st e = .done r) :
    ∃ code, check c (incumbent st e) e = some code ∧ r = mkRes code (incumbent st e) false := by
  unfold step at h
  cases hc : check c (incumbent st e) e with
  | none => simp [hc] at h
  | some code => simp [hc] at h; exact ⟨code, rfl, h.symm⟩

theorem step_of_check_none {c : Cfg} {st : St} {e : Ev} (h : check c (incumbent st e) e = none) :
    step c st e = .running (advance c (incumbent st e)) := by
  unfold step; simp [h]

theorem step_of_check_some {c : Cfg} {st : St} {e : Ev} {code : Int} (h : check c (incumbent st e) e = some code) :
    step c st e = .done (mkRes code (incumbent st e) false) := by
  unfold step; simp [h]

/-- the only codes the chain can produce -/
theorem check_codes {c : Cfg} {st : St} {e : Ev} {code : Int} (h : check c st e = some code) :
    code = -5 ∨ code = 2 ∨ code = 5 := by
  unfold check at h
  split at h
  · simp at h; omega
  · split at h
    · simp at h; omega
    · split at h
      · simp at h; omega
      · simp at h

theorem check_forced {c : Cfg} {st : St} {e : Ev} (h : e.forced = true) : check c st e = some (-5) := by
  unfold check; simp [h]

theorem check_eq_forced_iff {c : Cfg} {st : St} {e : Ev} {code : Int} (h : check c st e = some code) :
    code = -5 ↔ e.forced = true := by
  unfold check at h
  split at h
  · simp at h; simp [*] <;> omega
  · split at h
    · simp at h; simp [*] <;> omega
    · split at h
      · simp at h; simp [*] <;> omega
      · simp at h

theorem check_eq_two {c : Cfg} {st : St} {e : Ev} (h : check c st e = some 2) :
    e.forced = false ∧ F64.lt st.minf c.stopval = true := by
  unfold check at h
  split at h
  · simp at h
  · split at h
    · simp [*]
    · split at h <;> simp at h

theorem check_eq_five {c : Cfg} {st : St} {e : Ev} (h : check c st e = some 5) :
    e.forced = false ∧ F64.lt st.minf c.stopval = false ∧ Stop.evals c.maxeval st.nev = true := by
  unfold check at h
  split at h
  · simp at h
  · split at h
    · simp at h
    · split at h
      · simp [*]
      · simp at h

theorem check_none {c : Cfg} {st : St} {e : Ev} (h : check c st e = none) :
    e.forced = false ∧ F64.lt st.minf c.stopval = false ∧ Stop.evals c.maxeval st.nev = false := by
  unfold check at h
  split at h
  · simp at h
  · split at h
    · simp at h
    · split at h
      · simp at h
      · simp [*]

/-! ### induction over the events -/

theorem feed_ind {c : Cfg} (P : List Ev → St → Prop) (Q : List Ev → Res → Prop)
    (hR : ∀ seen st e st', P seen st → step c st e = .running st' → P (seen ++ [e]) st')
    (hD : ∀ seen st e r, P seen st → step c st e = .done r → Q (seen ++ [e]) r) :
    ∀ (evs seen : List Ev) (st : St), P seen st →
      match feed c st evs with
      | .running st' => P (seen ++ evs) st'
      | .done r => ∃ pre e post, evs = pre ++ e :: post ∧ Q (seen ++ pre ++ [e]) r := by
  intro evs
  induction evs with
  | nil => intro seen st h; simpa [feed] using h
  | cons e es ih =>
    intro seen st h
    unfold feed
    cases hs : step c st e with
    | running st' =>
      have h' := ih (seen ++ [e]) st' (hR seen st e st' h hs)
      simp only []
      cases hf : feed c st' es with
      | running st'' => rw [hf] at h'; simpa using h'
      | done r =>
        rw [hf] at h'
        obtain ⟨pre, e', post, he, hq⟩ := h'
        exact ⟨e :: pre, e', post, by simp [he], by simpa using hq⟩
    | done r =>
      exact ⟨[], e, es, by simp, by simpa using hD seen st e r h hs⟩

/-- Induction principle for `run`: `P seen st` is an invariant of the running driver (`seen` = events consumed so far),
    `R used r` the property of the result (`used` = events consumed in all). -/
theorem run_ind {c : Cfg} (A : Arith) (P : List Ev → St → Prop) (R : List Ev → Res → Prop)
    (h0 : P [] (init c))
    (hR : ∀ seen st e, P seen st → st.nev = seen.length → check c (incumbent st e) e = none →
      P (seen ++ [e]) (advance c (incumbent st e)))
    (hD : ∀ seen st e code, P seen st → st.nev = seen.length → check c (incumbent st e) e = some code →
      R (seen ++ [e]) (mkRes code (incumbent st e) false))
    (hS : ∀ seen st, P seen st → st.nev = seen.length → R seen (mkRes 0 st true))
    (evs : List Ev) : R (consumed A c evs) (run A c evs) := by
  have key := feed_ind (c := c) (fun seen st => P seen st ∧ st.nev = seen.length)
    (fun used r => R used r ∧ r.nevals = used.length)
    (by
      intro seen st e st' ⟨hp, hn⟩ hs
      obtain ⟨hc, rfl⟩ := step_running hs
      exact ⟨hR seen st e hp hn hc, by simp [hn]⟩)
    (by
      intro seen st e r ⟨hp, hn⟩ hs
      obtain ⟨code, hc, rfl⟩ := step_done hs
      exact ⟨hD seen st e code hp hn hc, by simp [hn]⟩)
    evs [] (init c) ⟨h0, rfl⟩
  unfold consumed
  rw [run_eq]
  cases hf : feed c (init c) evs with
  | running st' =>
    rw [hf] at key
    simp only [List.nil_append] at key
    simp only [finish, mkRes_nevals, key.2, List.take_length]
    exact hS evs st' key.1 key.2
  | done r =>
    rw [hf] at key
    obtain ⟨pre, e, post, rfl, hq, hn⟩ := key
    simp only [List.nil_append] at hq hn
    simp only [finish, hn]
    have : (pre ++ e :: post).take (pre ++ [e]).length = pre ++ [e] := by
      have : pre ++ e :: post = (pre ++ [e]) ++ post := by simp
      rw [this, List.take_left]
    rw [this]; exact hq

/-! ### concatenation -/

theorem feed_append (c : Cfg) (st : St) (a b : List Ev) :
    feed c st (a ++ b) = match feed c st a with
      | .running st' => feed c st' b
      | .done r => .done r := by
  induction a generalizing st with
  | nil => simp [feed]
  | cons e es ih =>
    simp only [List.cons_append, feed]
    cases hs : step c st e with
    | running st' => simpa using ih st'
    | done r => rfl

theorem feed_running_nev {c : Cfg} {st st' : St} {evs : List Ev} (h : feed c st evs = .running st') :
    st'.nev = st.nev + evs.length := by
  induction evs generalizing st with
  | nil => simp [feed] at h; subst h; simp
  | cons e es ih =>
    unfold feed at h
    cases hs : step c st e with
    | running s1 =>
      rw [hs] at h
      obtain ⟨_, rfl⟩ := step_running hs
      have := ih h
      simp at this ⊢; omega
    | done r => rw [hs] at h; simp at h

theorem feed_done_short {c : Cfg} {st : St} {evs : List Ev} {r : Res} (h : feed c st evs = .done r) :
    r.short = false := by
  induction evs generalizing st with
  | nil => simp [feed] at h
  | cons e es ih =>
    unfold feed at h
    cases hs : step c st e with
    | running s1 => rw [hs] at h; exact ih h
    | done r' =>
      rw [hs] at h
      obtain ⟨code, _, rfl⟩ := step_done hs
      simp at h; subst h; rfl

theorem feed_done_nev {c : Cfg} {st : St} {evs : List Ev} {r : Res} (h : feed c st evs = .done r) :
    st.nev + 1 ≤ r.nevals := by
  induction evs generalizing st with
  | nil => simp [feed] at h
  | cons e es ih =>
    unfold feed at h
    cases hs : step c st e with
    | running s1 =>
      rw [hs] at h
      have := ih h
      obtain ⟨_, rfl⟩ := step_running hs
      simp at this; omega
    | done r' =>
      rw [hs] at h
      obtain ⟨code, _, rfl⟩ := step_done hs
      simp at h; subst h; simp

/-- a returned run is reproduced by exactly the events it consumed -/
theorem feed_done_take {c : Cfg} {st : St} {evs : List Ev} {r : Res} (h : feed c st evs = .done r) :
    feed c st (evs.take (r.nevals - st.nev)) = .done r := by
  induction evs generalizing st with
  | nil => simp [feed] at h
  | cons e es ih =>
    unfold feed at h
    cases hs : step c st e with
    | running s1 =>
      rw [hs] at h
      simp only [] at h
      have hn := feed_done_nev h
      have h1 : s1.nev = st.nev + 1 := by obtain ⟨_, rfl⟩ := step_running hs; simp
      have : r.nevals - st.nev = (r.nevals - s1.nev) + 1 := by omega
      rw [this, List.take_succ_cons]
      unfold feed; rw [hs]
      exact ih h
    | done r' =>
      rw [hs] at h
      obtain ⟨code, _, rfl⟩ := step_done hs
      simp at h; subst h
      simp [feed, hs]

theorem finish_short_iff (o : Out) (hd : ∀ r, o = .done r → r.short = false) :
    (finish o).short = true ↔ ∃ st, o = .running st := by
  cases o with
  | running st => simp [finish]
  | done r => simp [finish, hd r rfl]

theorem run_short_iff (A : Arith) (c : Cfg) (evs : List Ev) :
    (run A c evs).short = true ↔ ∃ st, feed c (init c) evs = .running st := by
  rw [run_eq]
  exact finish_short_iff _ (fun r h => feed_done_short h)

end Nlopt.EschDrv
