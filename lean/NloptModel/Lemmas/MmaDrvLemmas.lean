import NloptModel.Model.MmaDriver
import NloptModel.Lemmas.F64Order
/-! Helper lemmas about the MMA / CCSAQ driver model (`Nlopt.MmaDrv`): order facts, the induction principle of the loop,
    the case analysis of one event, and the invariants that tie the driver's memory (`x`, `*minf`, `feasible`,
    `infeasibility`, `fcval`) to the list of processed events. -/
set_option linter.unusedSimpArgs false
set_option linter.unusedVariables false
namespace Nlopt.MmaDrv
open Nlopt

/-! ## order facts -/

theorem lt_trans' {a b c : F64} (h1 : F64.lt a b = true) (h2 : F64.lt b c = true) : F64.lt a c = true := by
  simp [F64.lt] at *
  obtain ⟨⟨ha, _⟩, hab⟩ := h1
  obtain ⟨⟨_, hc⟩, hbc⟩ := h2
  exact ⟨⟨ha, hc⟩, by omega⟩

/-- if `b` is not below `m` and `a` is below `m`, then `b` is not below `a` -/
theorem not_lt_of_lt_of_not_lt {a b m : F64} (h1 : F64.lt a m = true) (h2 : F64.lt b m = false) : F64.lt b a = false := by
  cases h : F64.lt b a with
  | false => rfl
  | true => rw [lt_trans' h h1] at h2; cases h2

theorem zero_not_nan : F64.zero.isNaN = false := by decide

theorem gt_zero_of_le_zero {a : F64} (h : F64.le a F64.zero = true) : F64.gt a F64.zero = false := by
  simp [F64.le, F64.gt, F64.lt] at *
  intro _ _; omega

theorem gt_of_nan {a b : F64} (h : a.isNaN = true) : F64.gt a b = false := by
  simp [F64.gt, F64.lt, h]

/-! ## the loop -/

/-- Induction principle of `go`: a predicate on (consumed events, memory) that survives every event after which the loop
    goes on holds when the events run out, or holds just before the event that ends the run. -/
theorem go_induct (A : Arith) (c : Cfg) (P : List Ev → St → Prop)
    (hp : ∀ done s e s', P done s → step A c s e = .cont s' → P (done ++ [e]) s') :
    ∀ (evs done : List Ev) (s : St), P done s →
      (∃ s', P (done ++ evs) s' ∧ go A c s evs = s'.res 0 true false) ∨
      (∃ pre e rest sp, evs = pre ++ e :: rest ∧ P (done ++ pre) sp ∧
        ((∃ r s', step A c sp e = .done r s' ∧ go A c s evs = s'.res r false false) ∨
         (step A c sp e = .bad ∧ go A c s evs = sp.res 0 false true))) := by
  intro evs
  induction evs with
  | nil => intro done s h; exact Or.inl ⟨s, by simpa using h, rfl⟩
  | cons e es ih =>
    intro done s h
    cases hv : step A c s e with
    | done r s' =>
      refine Or.inr ⟨[], e, es, s, rfl, by simpa using h, Or.inl ⟨r, s', hv, ?_⟩⟩
      simp [go, hv]
    | bad =>
      refine Or.inr ⟨[], e, es, s, rfl, by simpa using h, Or.inr ⟨hv, ?_⟩⟩
      simp [go, hv]
    | cont s' =>
      have h1 := hp done s e s' h hv
      have hgo : go A c s (e :: es) = go A c s' es := by simp [go, hv]
      rcases ih (done ++ [e]) s' h1 with ⟨s2, hs', hg⟩ | ⟨pre, e', rest, sp, hes, hP, hfin⟩
      · exact Or.inl ⟨s2, by simpa using hs', by rw [hgo, hg]⟩
      · refine Or.inr ⟨e :: pre, e', rest, sp, by simp [hes], by simpa using hP, ?_⟩
        rcases hfin with ⟨r, s2, h2, h3⟩ | ⟨h2, h3⟩
        · exact Or.inl ⟨r, s2, h2, by rw [hgo, h3]⟩
        · exact Or.inr ⟨h2, by rw [hgo, h3]⟩

/-- the memory after a prefix all of whose events let the loop go on -/
def advance (A : Arith) (c : Cfg) : St → List Ev → Option St
  | s, [] => some s
  | s, e :: es =>
    match step A c s e with
    | .cont s' => advance A c s' es
    | _ => none

/-- a `short` run consumed all its events with the loop going on, and goes on from there -/
theorem go_short_advance (A : Arith) (c : Cfg) : ∀ (pre : List Ev) (s : St),
    (go A c s pre).short = true →
    ∃ s', advance A c s pre = some s' ∧ go A c s pre = s'.res 0 true false ∧
      ∀ rest, go A c s (pre ++ rest) = go A c s' rest := by
  intro pre
  induction pre with
  | nil => intro s _; exact ⟨s, rfl, rfl, fun _ => rfl⟩
  | cons e es ih =>
    intro s h
    cases hv : step A c s e with
    | done r s' => simp [go, hv, St.res] at h
    | bad => simp [go, hv, St.res] at h
    | cont s1 =>
      simp only [go, hv] at h
      obtain ⟨s', h1, h2, h3⟩ := ih s1 h
      exact ⟨s', by simp [advance, hv, h1], by simp [go, hv, h2], fun rest => by simp [go, hv, h3]⟩

theorem advance_induct (A : Arith) (c : Cfg) (P : List Ev → St → Prop)
    (hp : ∀ done s e s', P done s → step A c s e = .cont s' → P (done ++ [e]) s') :
    ∀ (pre done : List Ev) (s s' : St), P done s → advance A c s pre = some s' → P (done ++ pre) s' := by
  intro pre
  induction pre with
  | nil => intro done s s' h ha; simp [advance] at ha; subst ha; simpa using h
  | cons e es ih =>
    intro done s s' h ha
    cases hv : step A c s e with
    | done r s1 => simp [advance, hv] at ha
    | bad => simp [advance, hv] at ha
    | cont s1 =>
      simp only [advance, hv] at ha
      have := ih (done ++ [e]) s1 s' (hp done s e s1 h hv) ha
      simpa using this

/-! ## one event: case analysis -/

theorem step_cont_shape {A : Arith} {c : Cfg} {s : St} {e : Ev} {s' : St} (h : step A c s e = .cont s') :
    (s.started = false ∧ e.x = s.x ∧ e.isFail = false ∧ cbStop c e.stop = false ∧
      lateRet c (procInit c s e) e = none ∧ s' = procInit c s e) ∨
    (s.started = true ∧ e.isFail = false ∧ cut c e = none ∧ verdict A c s e = none ∧ s' = next c s e) := by
  unfold step at h
  split at h
  next hst =>
    right
    unfold stepTrial at h
    split at h
    · cases h
    next hf =>
      split at h
      · cases h
      next hc =>
        split at h
        · cases h
        next hv =>
          injection h with h
          exact ⟨hst, by simpa using hf, hc, hv, h.symm⟩
  next hst =>
    left
    unfold stepInit at h
    split at h
    · cases h
    next hx =>
      split at h
      · cases h
      next hcb =>
        split at h
        · cases h
        next hl =>
          injection h with h
          have hx' : e.x = s.x ∧ e.isFail = false := by
            constructor
            · exact Decidable.byContradiction fun hn => hx (Or.inl hn)
            · cases hh : e.isFail with
              | false => rfl
              | true => exact absurd (Or.inr hh) hx
          exact ⟨by simpa using hst, hx'.1, hx'.2, by simpa using hcb, hl, h.symm⟩

theorem step_done_shape {A : Arith} {c : Cfg} {s : St} {e : Ev} {r : Int} {s' : St} (h : step A c s e = .done r s') :
    (s.started = false ∧ e.x = s.x ∧ e.isFail = false ∧
      ((cbStop c e.stop = true ∧ r = -5 ∧ s' = bumpInit s e) ∨
       (cbStop c e.stop = false ∧ lateRet c (procInit c s e) e = some r ∧ s' = procInit c s e))) ∨
    (s.started = true ∧
      ((e.isFail = true ∧ r = e.dual ∧ s' = { s with cnt := s.cnt + 1 }) ∨
       (e.isFail = false ∧ cut c e = some r ∧ s' = bump s) ∨
       (e.isFail = false ∧ cut c e = none ∧ verdict A c s e = some r ∧ s' = proc c s e))) := by
  unfold step at h
  split at h
  next hst =>
    right
    refine ⟨hst, ?_⟩
    unfold stepTrial at h
    split at h
    next hf =>
      injection h with h1 h2
      exact Or.inl ⟨hf, h1.symm, h2.symm⟩
    next hf =>
      have hf' : e.isFail = false := by simpa using hf
      split at h
      next r' hc =>
        injection h with h1 h2
        exact Or.inr (Or.inl ⟨hf', by rw [hc, h1], h2.symm⟩)
      next hc =>
        split at h
        next r' hv =>
          injection h with h1 h2
          exact Or.inr (Or.inr ⟨hf', hc, by rw [hv, h1], h2.symm⟩)
        · cases h
  next hst =>
    left
    unfold stepInit at h
    split at h
    · cases h
    next hx =>
      have hx' : e.x = s.x ∧ e.isFail = false := by
        constructor
        · exact Decidable.byContradiction fun hn => hx (Or.inl hn)
        · cases hh : e.isFail with
          | false => rfl
          | true => exact absurd (Or.inr hh) hx
      refine ⟨by simpa using hst, hx'.1, hx'.2, ?_⟩
      split at h
      next hcb =>
        injection h with h1 h2
        exact Or.inl ⟨hcb, h1.symm, h2.symm⟩
      next hcb =>
        split at h
        next r' hl =>
          injection h with h1 h2
          exact Or.inr ⟨by simpa using hcb, by rw [hl, h1], h2.symm⟩
        · cases h

theorem step_bad_shape {A : Arith} {c : Cfg} {s : St} {e : Ev} (h : step A c s e = .bad) :
    s.started = false ∧ (e.x ≠ s.x ∨ e.isFail = true) := by
  unfold step at h
  split at h
  next hst =>
    unfold stepTrial at h
    split at h
    · cases h
    · split at h
      · cases h
      · split at h <;> cases h
  next hst =>
    refine ⟨by simpa using hst, ?_⟩
    unfold stepInit at h
    split at h
    next hx => exact hx
    · split at h
      · cases h
      · split at h <;> cases h

/-! ## field lemmas -/

@[simp] theorem proc_nev (c : Cfg) (s : St) (e : Ev) : (proc c s e).nev = s.nev + 1 := rfl
@[simp] theorem proc_cnt (c : Cfg) (s : St) (e : Ev) : (proc c s e).cnt = s.cnt + 1 := rfl
@[simp] theorem proc_nproc (c : Cfg) (s : St) (e : Ev) : (proc c s e).nproc = s.nproc + 1 := rfl
@[simp] theorem proc_started (c : Cfg) (s : St) (e : Ev) : (proc c s e).started = s.started := rfl
@[simp] theorem bump_nev (s : St) : (bump s).nev = s.nev + 1 := rfl
@[simp] theorem bump_cnt (s : St) : (bump s).cnt = s.cnt + 1 := rfl
@[simp] theorem bump_nproc (s : St) : (bump s).nproc = s.nproc := rfl
@[simp] theorem bump_x (s : St) : (bump s).x = s.x := rfl
@[simp] theorem bump_minf (s : St) : (bump s).minf = s.minf := rfl
@[simp] theorem bump_started (s : St) : (bump s).started = s.started := rfl
@[simp] theorem bump_feasible (s : St) : (bump s).feasible = s.feasible := rfl
@[simp] theorem procInit_nev (c : Cfg) (s : St) (e : Ev) : (procInit c s e).nev = 1 := rfl
@[simp] theorem procInit_cnt (c : Cfg) (s : St) (e : Ev) : (procInit c s e).cnt = 1 := rfl
@[simp] theorem procInit_nproc (c : Cfg) (s : St) (e : Ev) : (procInit c s e).nproc = 1 := rfl
@[simp] theorem procInit_started (c : Cfg) (s : St) (e : Ev) : (procInit c s e).started = true := rfl
@[simp] theorem procInit_x (c : Cfg) (s : St) (e : Ev) : (procInit c s e).x = s.x := rfl
@[simp] theorem procInit_minf (c : Cfg) (s : St) (e : Ev) : (procInit c s e).minf = e.f := rfl
@[simp] theorem procInit_feasible (c : Cfg) (s : St) (e : Ev) : (procInit c s e).feasible = feasInit c e := rfl
@[simp] theorem procInit_infeas (c : Cfg) (s : St) (e : Ev) : (procInit c s e).infeas = infeasOf c e := rfl
@[simp] theorem procInit_fcval (c : Cfg) (s : St) (e : Ev) : (procInit c s e).fcval = e.g := rfl

theorem next_nev (c : Cfg) (s : St) (e : Ev) : (next c s e).nev = s.nev + 1 := by unfold next; split <;> rfl
theorem next_cnt (c : Cfg) (s : St) (e : Ev) : (next c s e).cnt = s.cnt + 1 := by unfold next; split <;> rfl
theorem next_nproc (c : Cfg) (s : St) (e : Ev) : (next c s e).nproc = s.nproc + 1 := by unfold next; split <;> rfl
theorem next_started (c : Cfg) (s : St) (e : Ev) : (next c s e).started = s.started := by unfold next; split <;> rfl
theorem next_x (c : Cfg) (s : St) (e : Ev) : (next c s e).x = (proc c s e).x := by unfold next; split <;> rfl
theorem next_minf (c : Cfg) (s : St) (e : Ev) : (next c s e).minf = (proc c s e).minf := by unfold next; split <;> rfl
theorem next_feasible (c : Cfg) (s : St) (e : Ev) : (next c s e).feasible = (proc c s e).feasible := by
  unfold next; split <;> rfl
theorem next_infeas (c : Cfg) (s : St) (e : Ev) : (next c s e).infeas = (proc c s e).infeas := by unfold next; split <;> rfl
theorem next_fcval (c : Cfg) (s : St) (e : Ev) : (next c s e).fcval = (proc c s e).fcval := by unfold next; split <;> rfl

/-! ## the constraint folds -/

/-- a point with `feasible = 1` at entry has `infeasibility = +0` exactly -/
theorem infeas_of_feasInitAux (mma : Bool) : ∀ (tol g : List F64), feasInitAux mma tol g = true →
    infeasAux F64.zero tol g = F64.zero := by
  intro tol
  induction tol with
  | nil => intro g _; rfl
  | cons t ts ih =>
    intro g h
    simp only [feasInitAux, Bool.and_eq_true, Bool.or_eq_true] at h
    obtain ⟨h1, h2⟩ := h
    have hgt : F64.gt (gAt g) F64.zero = false := by
      rcases h1 with h1 | h1
      · exact gt_zero_of_le_zero h1
      · exact gt_of_nan h1.2
    simp only [infeasAux, hgt]
    exact ih g.tail h2

theorem strict_of_feasInit {c : Cfg} {e : Ev} (h : feasInit c e = true) : strictFeas c e = true := by
  unfold strictFeas infeasOf
  rw [infeas_of_feasInitAux c.mma c.tol e.g h]
  decide

/-- no entry of the incumbent's `fcval` is NaN: `new_infeasible_constraint` stays 0 -/
theorem newInfAux_false : ∀ (tol g fc : List F64), (∀ v ∈ fc, v.isNaN = false) → newInfAux tol g fc = false := by
  intro tol
  induction tol with
  | nil => intro g fc _; rfl
  | cons t ts ih =>
    intro g fc h
    have h1 : (gAt fc).isNaN = false := by
      unfold gAt
      cases fc with
      | nil => exact zero_not_nan
      | cons v vs => exact h v (by simp)
    have h2 : ∀ v ∈ fc.tail, v.isNaN = false := fun v hv => h v (List.mem_of_mem_tail hv)
    simp [newInfAux, h1, ih g.tail fc.tail h2]

/-! ## the incumbent -/

/-- how the flag `feasible` can be set for the incumbent `e`: no positive constraint value, or feasible within the
    tolerances, or allowed by `inner_done` (objective approximation conservative, or the `inner_maxeval` cap) -/
def Adm (c : Cfg) (e : Ev) : Prop :=
  strictFeas c e = true ∨ feasTol c e = true ∨ e.consF = true ∨ c.innerMaxeval > 0

/-- the memory describes the event `e` -/
def IncOf (c : Cfg) (s : St) (e : Ev) : Prop :=
  s.x = e.x ∧ s.minf = e.f ∧ s.fcval = e.g ∧ s.infeas = infeasOf c e ∧ (s.feasible = true → Adm c e)

theorem innerDone_adm {c : Cfg} {s : St} {e : Ev} (h : innerDone c s e = true) : e.consF = true ∨ c.innerMaxeval > 0 := by
  simp only [innerDone, Bool.or_eq_true, Bool.and_eq_true, decide_eq_true_eq] at h
  rcases h with h | h
  · exact Or.inl h.1
  · exact Or.inr h.1

/-- the incumbent rule keeps "the memory describes a processed event" -/
theorem proc_incOf {c : Cfg} {s : St} {e0 : Ev} (e : Ev) (h : IncOf c s e0) :
    (accepts c s e = true ∧ IncOf c (proc c s e) e) ∨ (accepts c s e = false ∧ IncOf c (proc c s e) e0) := by
  cases hacc : accepts c s e with
  | false =>
    right
    refine ⟨rfl, ?_⟩
    obtain ⟨h1, h2, h3, h4, h5⟩ := h
    simp only [IncOf, proc, hacc]
    exact ⟨h1, h2, h3, h4, h5⟩
  | true =>
    left
    refine ⟨rfl, ?_⟩
    have hx : (proc c s e).x = e.x := by simp [proc, hacc]
    have hm : (proc c s e).minf = e.f := by simp [proc, hacc]
    have hg : (proc c s e).fcval = e.g := by simp [proc, hacc]
    have hi : (proc c s e).infeas = infeasOf c e := by simp [proc, hacc]
    have hfe : (proc c s e).feasible = feasAfter c s e := by simp [proc, hacc]
    refine ⟨hx, hm, hg, hi, ?_⟩
    rw [hfe]
    intro hf
    unfold feasAfter at hf
    split at hf
    next hs => exact Or.inl hs
    next hs =>
      split at hf
      · cases hf
      · -- `feasible` was already set: the point was allowed by `inner_done || feasible_cur`
        simp only [accepts, hf, Bool.not_true, Bool.false_and, Bool.or_false, Bool.and_eq_true, Bool.or_eq_true] at hacc
        rcases hacc.2 with hd | ht
        · rcases innerDone_adm hd with h' | h'
          · exact Or.inr (Or.inr (Or.inl h'))
          · exact Or.inr (Or.inr (Or.inr h'))
        · exact Or.inr (Or.inl ht)

/-! ## the invariant -/

/-- hypothesis of the best-point theorem on a list of processed events: the first one (the caller's `x0`) has
    `feasible = 1`, and (MMA only) no constraint value is NaN -/
def Hyp (c : Cfg) (l : List Ev) : Prop :=
  (∃ e0 rest, l = e0 :: rest ∧ feasInit c e0 = true) ∧ (c.mma = true → ∀ e ∈ l, ∀ v ∈ e.g, v.isNaN = false)

theorem hyp_mono {c : Cfg} {l : List Ev} {e : Ev} (hne : l ≠ []) (h : Hyp c (l ++ [e])) : Hyp c l := by
  obtain ⟨⟨e0, rest, h1, h2⟩, h3⟩ := h
  refine ⟨?_, fun hm e' he' => h3 hm e' (by simp [he'])⟩
  cases l with
  | nil => exact absurd rfl hne
  | cons a l' =>
    simp at h1
    exact ⟨a, l', rfl, by rw [h1.1]; exact h2⟩

/-- what holds for the memory after `done` = the processed events (also in the state the driver returns from) -/
def Core (c : Cfg) (done : List Ev) (s : St) : Prop :=
  s.started = true ∧ (∃ e ∈ done, IncOf c s e) ∧
  (Hyp c done → s.feasible = true ∧ ∀ e' ∈ done, feasTol c e' = true → F64.lt e'.f s.minf = false)

theorem core_procInit {c : Cfg} {s : St} {e : Ev} (hx : e.x = s.x) : Core c [e] (procInit c s e) := by
  refine ⟨rfl, ⟨e, by simp, ?_⟩, ?_⟩
  · refine ⟨by simp [hx], rfl, rfl, rfl, ?_⟩
    intro hf
    exact Or.inl (strict_of_feasInit (by simpa using hf))
  · intro ⟨⟨e0, rest, h1, h2⟩, _⟩
    simp at h1
    obtain ⟨h1, _⟩ := h1
    subst h1
    refine ⟨by simpa using h2, ?_⟩
    intro e' he' _
    simp at he'
    subst he'
    simp [F64.lt_irrefl']

theorem core_proc {c : Cfg} {done : List Ev} {s : St} (e : Ev) (hne : done ≠ []) (h : Core c done s) :
    Core c (done ++ [e]) (proc c s e) := by
  obtain ⟨hst, ⟨e0, he0, hinc⟩, hbest⟩ := h
  refine ⟨by simpa using hst, ?_, ?_⟩
  · rcases proc_incOf e hinc with ⟨_, h⟩ | ⟨_, h⟩
    · exact ⟨e, by simp, h⟩
    · exact ⟨e0, by simp [he0], h⟩
  · intro hyp
    obtain ⟨hfeas, hb⟩ := hbest (hyp_mono hne hyp)
    -- `new_infeasible_constraint` is 0
    have hni : newInf c s e = false := by
      unfold newInf
      cases hm : c.mma with
      | false => rfl
      | true =>
        have := hyp.2 hm e0 (by simp [he0])
        rw [← hinc.2.2.1] at this
        simp [newInfAux_false c.tol e.g s.fcval this]
    cases hacc : accepts c s e with
    | false =>
      refine ⟨by simp [proc, hacc, hfeas], ?_⟩
      intro e' he' ht
      simp only [proc, hacc]
      simp at he'
      rcases he' with he' | he'
      · exact hb e' he' ht
      · subst he'
        simp only [accepts, hfeas, ht, Bool.not_true, Bool.false_and, Bool.or_false, Bool.or_true, Bool.and_true] at hacc
        exact hacc
    | true =>
      have hlt : F64.lt e.f s.minf = true := by
        simp only [accepts, hfeas, Bool.not_true, Bool.false_and, Bool.or_false, Bool.and_eq_true] at hacc
        exact hacc.1
      refine ⟨?_, ?_⟩
      · simp only [proc, hacc, if_true, feasAfter, hni, hfeas]
        split <;> rfl
      · intro e' he' ht
        simp only [proc, hacc, if_true]
        simp at he'
        rcases he' with he' | he'
        · exact not_lt_of_lt_of_not_lt hlt (hb e' he' ht)
        · subst he'; exact F64.lt_irrefl' _

theorem core_of_fields {c : Cfg} {done : List Ev} {s s' : St} (h : Core c done s) (h0 : s'.started = s.started)
    (h1 : s'.x = s.x) (h2 : s'.minf = s.minf) (h3 : s'.fcval = s.fcval) (h4 : s'.infeas = s.infeas)
    (h5 : s'.feasible = s.feasible) : Core c done s' := by
  obtain ⟨hst, ⟨e0, he0, hi⟩, hb⟩ := h
  refine ⟨by rw [h0]; exact hst, ⟨e0, he0, ?_⟩, ?_⟩
  · unfold IncOf; rw [h1, h2, h3, h4, h5]; exact hi
  · rw [h5, h2]; exact hb

theorem core_next {c : Cfg} {done : List Ev} {s : St} (e : Ev) (hne : done ≠ []) (h : Core c done s) :
    Core c (done ++ [e]) (next c s e) :=
  core_of_fields (core_proc e hne h) (by rw [next_started]; rfl) (next_x c s e) (next_minf c s e) (next_fcval c s e)
    (next_infeas c s e) (next_feasible c s e)

/-- the invariant of the states from which the loop goes on: every consumed event was processed without a stop, the
    budget is not exhausted, the stopval test is false -/
def Inv (c : Cfg) (done : List Ev) (s : St) : Prop :=
  s.cnt = done.length ∧ s.nev = done.length ∧ s.nproc = done.length ∧
  (∀ e ∈ done, e.stop = 0 ∧ e.isFail = false) ∧
  (s.started = false → done = [] ∧ s = St.init c) ∧
  (s.started = true → done ≠ [] ∧ Core c done s ∧
    (c.stop.maxeval > 0 → (s.nev : Int) < c.stop.maxeval) ∧
    (s.feasible && F64.lt s.minf c.stop.minfMax) = false)

theorem inv_start (c : Cfg) : Inv c [] (St.init c) :=
  ⟨rfl, rfl, rfl, by simp, fun _ => ⟨rfl, rfl⟩, fun h => by simp [St.init] at h⟩

theorem lateRet_none {c : Cfg} {s : St} {e : Ev} (h : lateRet c s e = none) :
    e.stop = 0 ∧ Stop.evals c.stop.maxeval (s.nev : Int) = false ∧
      (s.feasible && F64.lt s.minf c.stop.minfMax) = false := by
  unfold lateRet at h
  split at h
  · cases h
  next h1 =>
    split at h
    · cases h
    next h2 =>
      split at h
      · cases h
      next h3 => exact ⟨by simpa using h1, by simpa using h2, by simpa using h3⟩

theorem evals_false {m : Int} {k : Nat} (h : Stop.evals m (k : Int) = false) (hm : m > 0) : (k : Int) < m := by
  simp [Stop.evals] at h
  exact h hm

theorem verdict_none {A : Arith} {c : Cfg} {s : St} {e : Ev} (h : verdict A c s e = none) :
    lateRet c (proc c s e) e = none := by
  unfold verdict at h
  split at h
  · cases h
  next hl => exact hl

theorem inv_step {A : Arith} {c : Cfg} {done : List Ev} {s : St} {e : Ev} {s' : St}
    (h : Inv c done s) (hs : step A c s e = .cont s') : Inv c (done ++ [e]) s' := by
  obtain ⟨hcnt, hnev, hnp, hall, hns, hst⟩ := h
  rcases step_cont_shape hs with ⟨h0, hx, hf, hcb, hl, hs'⟩ | ⟨h1, hf, hc, hv, hs'⟩
  · obtain ⟨hd, hsi⟩ := hns h0
    subst hd
    subst hs'
    obtain ⟨hl1, hl2, hl3⟩ := lateRet_none hl
    refine ⟨by simp, by simp, by simp, ?_, by simp, ?_⟩
    · intro e' he'; simp at he'; subst he'; exact ⟨hl1, hf⟩
    · intro _
      refine ⟨by simp, by simpa using core_procInit hx, ?_, hl3⟩
      intro hm
      exact evals_false hl2 hm
  · obtain ⟨hne, hcore, hbud, hsv⟩ := hst h1
    subst hs'
    obtain ⟨hl1, hl2, hl3⟩ := lateRet_none (verdict_none hv)
    refine ⟨by simp [next_cnt, hcnt], by simp [next_nev, hnev], by simp [next_nproc, hnp], ?_, ?_, ?_⟩
    · intro e' he'
      simp at he'
      rcases he' with he' | he'
      · exact hall e' he'
      · subst he'; exact ⟨hl1, hf⟩
    · intro hh; rw [next_started, h1] at hh; cases hh
    · intro _
      refine ⟨by simp, core_next e hne hcore, ?_, ?_⟩
      · intro hm
        rw [next_nev]
        have := evals_false hl2 hm
        simpa using this
      · rw [next_feasible, next_minf]; exact hl3

end Nlopt.MmaDrv
