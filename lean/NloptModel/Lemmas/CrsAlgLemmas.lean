import NloptModel.Model.CrsAlg
import NloptModel.Lemmas.CrsDrvLemmas
import NloptModel.Lemmas.EschAlgLemmas
/-! Refinement: a returned run of the machine `CrsAlg.mk A T P c` against ANY environment is a returned run of the
    control-flow model `CrsDrv.runWith A T c` on the events of the trace. -/
set_option linter.unusedSimpArgs false
set_option linter.unusedVariables false
namespace Nlopt.CrsAlg
open Nlopt Nlopt.CrsDrv
open Nlopt.EschAlg (valOf forcedOf qOf ObjOnly objOnly_snoc runAlg_succ)

@[simp] theorem events_nil : events [] = [] := rfl
@[simp] theorem events_append (a b : List (Query × Answer)) : events (a ++ b) = events a ++ events b := by
  simp [events]
@[simp] theorem events_length (tr : List (Query × Answer)) : (events tr).length = tr.length := by
  simp [events]
@[simp] theorem events_cons (p : Query × Answer) (tr : List (Query × Answer)) :
    events (p :: tr) = evOf p :: events tr := rfl

/-- the invariant of `runAlg (mk A T P c)`: `tr` = trace so far, `a` = the answer about to be delivered -/
def J (A : Arith) (T : Sel) (P : Proposer) (c : Cfg) (s : S P) (a : Option Answer) (tr : List (Query × Answer)) : Prop :=
  ObjOnly tr ∧
  match a with
  | none => tr = [] ∧ s.drv = CrsDrv.st0 ∧ s.cur = c.x0
  | some ans => c.invalid = false ∧ ∃ tr0, tr = tr0 ++ [(qOf s.cur, ans)] ∧
      advance A T c CrsDrv.st0 (events tr0) = some s.drv ∧ (∀ p, tr.head? = some p → p.1.x = c.x0)

/-- core of the refinement, for `runAlg` from any state satisfying the invariant -/
theorem runAlg_refines {σ : Type} (A : Arith) (T : Sel) (P : Proposer) (c : Cfg) (E : Env σ) :
    ∀ (fuel : Nat) (s : S P) (a : Option Answer) (st : σ) (tr : List (Query × Answer)),
      J A T P c s a tr →
      ∀ r st' tr', runAlg (mk A T P c) E fuel s a st tr = (some r, st', tr') →
        ∃ R, runWith A T c (events tr') = R ∧ R.short = false ∧ r = toAlgResult R ∧ R.nevals = tr'.length ∧
          ObjOnly tr' ∧ (∀ p, tr'.head? = some p → p.1.x = c.x0) := by
  intro fuel
  induction fuel with
  | zero =>
    intro s a st tr _ r st' tr' h
    simp [runAlg] at h
  | succ n ih =>
    intro s a st tr hJ r st' tr' h
    obtain ⟨hobj, hJ⟩ := hJ
    rw [runAlg_succ] at h
    cases a with
    | none =>
      obtain ⟨rfl, hd, hc⟩ := hJ
      cases hv : c.invalid with
      | true =>
        have hs : (mk A T P c).step s none = (s, .inr (toAlgResult (invalidRes c))) := by
          show stepS A T P c s none = _
          simp only [stepS, hv, if_true]
        rw [hs] at h
        simp only [Prod.mk.injEq, Option.some.injEq] at h
        obtain ⟨hr, _, htr⟩ := h
        subst htr
        refine ⟨invalidRes c, by simp [runWith, hv], rfl, hr.symm, rfl, hobj, ?_⟩
        intro p hp; simp at hp
      | false =>
        have hs : (mk A T P c).step s none = (s, .inl (qOf s.cur)) := by
          show stepS A T P c s none = _
          simp only [stepS, hv]
          rfl
        rw [hs] at h
        simp only [List.nil_append] at h
        have hJ' : J A T P c s (some (E.call st (qOf s.cur)).2) [(qOf s.cur, (E.call st (qOf s.cur)).2)] := by
          refine ⟨?_, hv, [], rfl, ?_, ?_⟩
          · simpa using objOnly_snoc hobj s.cur (E.call st (qOf s.cur)).2
          · rw [hd]; rfl
          · intro p hp
            simp only [List.head?_cons, Option.some.injEq] at hp
            subst hp; exact hc
        exact ih s _ _ _ hJ' r st' tr' h
    | some ans =>
      obtain ⟨hv, tr0, rfl, hadv, hhead⟩ := hJ
      have hn : s.drv.nevals = tr0.length := by
        have := (advance_invN A T c hv s.drv (events tr0) hadv).1.nev
        rw [this, events_length]
      cases hstep : CrsDrv.step A T c s.drv (evOf (qOf s.cur, ans)) with
      | done R =>
        have hs : (mk A T P c).step s (some ans) = (s, .inr (toAlgResult R)) := by
          show stepS A T P c s (some ans) = _
          simp only [stepS, hstep]
        rw [hs] at h
        simp only [Prod.mk.injEq, Option.some.injEq] at h
        obtain ⟨hr, _, htr⟩ := h
        subst htr
        have hrun : runWith A T c (events (tr0 ++ [(qOf s.cur, ans)])) = R := by
          simp only [runWith, hv]
          rw [events_append, runFrom_append_of_advance A T c st0 s.drv (events tr0) _ hadv]
          simp [runFrom, hstep]
        obtain ⟨h1, h2, _⟩ := step_done_cases hstep
        refine ⟨R, hrun, h1, hr.symm, ?_, hobj, hhead⟩
        rw [h2, hn]; simp
      | cont d' =>
        have hs : (mk A T P c).step s (some ans) =
            ({ drv := d', ps := (P.next s.ps d' s.cur ans).1, cur := (P.next s.ps d' s.cur ans).2 },
             .inl (qOf (P.next s.ps d' s.cur ans).2)) := by
          show stepS A T P c s (some ans) = _
          simp only [stepS, hstep]
        rw [hs] at h
        refine ih _ _ _ _ ?_ r st' tr' h
        refine ⟨objOnly_snoc hobj _ _, hv, tr0 ++ [(qOf s.cur, ans)], rfl, ?_, ?_⟩
        · rw [events_append, advance_append A T c st0 s.drv (events tr0) _ hadv]
          simp [advance, hstep]
        · intro p hp
          apply hhead p
          cases tr0 <;> simpa using hp

/-- Termination under an evaluation budget: from a state with `nevals < maxeval`, `maxeval - nevals` further steps suffice
    for the machine to return, whatever the proposer proposes and the environment answers. -/
theorem runAlg_returns {σ : Type} (A : Arith) (T : Sel) (P : Proposer) (c : Cfg) (E : Env σ) (hmax : 0 < c.maxeval) :
    ∀ (fuel : Nat) (s : S P) (ans : Answer) (st : σ) (tr : List (Query × Answer)),
      (s.drv.nevals : Int) < c.maxeval → c.maxeval - s.drv.nevals ≤ fuel →
      ∃ r, (runAlg (mk A T P c) E fuel s (some ans) st tr).1 = some r := by
  intro fuel
  induction fuel with
  | zero => intro s ans st tr h1 h2; exfalso; omega
  | succ n ih =>
    intro s ans st tr h1 h2
    rw [runAlg_succ]
    cases hstep : CrsDrv.step A T c s.drv (evOf (qOf s.cur, ans)) with
    | done R =>
      have hs : (mk A T P c).step s (some ans) = (s, .inr (toAlgResult R)) := by
        show stepS A T P c s (some ans) = _
        simp only [stepS, hstep]
      rw [hs]
      exact ⟨_, rfl⟩
    | cont d' =>
      have hs : (mk A T P c).step s (some ans) =
          ({ drv := d', ps := (P.next s.ps d' s.cur ans).1, cur := (P.next s.ps d' s.cur ans).2 },
           .inl (qOf (P.next s.ps d' s.cur ans).2)) := by
        show stepS A T P c s (some ans) = _
        simp only [stepS, hstep]
      rw [hs]
      obtain ⟨_, hn, hev, _⟩ := step_cont_cases hstep
      have hlt := evals_false_lt hev hmax
      apply ih
      · simp only [hn]; omega
      · simp only [hn]; omega

/-- with `maxeval > 0`, fuel `maxeval + 1` (one step per evaluation plus the step that returns) is enough -/
theorem run_returns {σ : Type} (A : Arith) (T : Sel) (P : Proposer) (c : Cfg) (E : Env σ) (hmax : 0 < c.maxeval)
    (fuel : Nat) (hfuel : c.maxeval + 1 ≤ fuel) (st : σ) : ∃ r, (Nlopt.run (mk A T P c) E fuel st).1 = some r := by
  cases fuel with
  | zero => exfalso; omega
  | succ n =>
    unfold Nlopt.run
    rw [runAlg_succ]
    cases hv : c.invalid with
    | true =>
      have hs : (mk A T P c).step (mk A T P c).init none = ((mk A T P c).init, .inr (toAlgResult (invalidRes c))) := by
        show stepS A T P c _ none = _
        simp only [stepS, hv, if_true]
      rw [hs]
      exact ⟨_, rfl⟩
    | false =>
      have hs : (mk A T P c).step (mk A T P c).init none = ((mk A T P c).init, .inl (qOf c.x0)) := by
        show stepS A T P c _ none = _
        simp only [stepS, hv]
        rfl
      rw [hs]
      apply runAlg_returns A T P c E hmax
      · simpa [CrsDrv.st0] using hmax
      · simp [CrsDrv.st0]; omega

end Nlopt.CrsAlg
