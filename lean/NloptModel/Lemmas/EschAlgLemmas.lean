import NloptModel.Model.EschAlg
import NloptModel.Lemmas.EschDrvLemmas
/-! Refinement: a returned run of the machine `EschAlg.mk P c` against ANY environment is a returned run of the
    control-flow model `EschDrv.run` on the events of the trace. -/
set_option linter.unusedSimpArgs false
set_option linter.unusedVariables false
namespace Nlopt.EschAlg
open Nlopt Nlopt.EschDrv

@[simp] theorem events_nil : events [] = [] := rfl
@[simp] theorem events_append (a b : List (Query × Answer)) : events (a ++ b) = events a ++ events b := by
  simp [events]
@[simp] theorem events_length (tr : List (Query × Answer)) : (events tr).length = tr.length := by
  simp [events]
@[simp] theorem events_cons (p : Query × Answer) (tr : List (Query × Answer)) :
    events (p :: tr) = evOf p :: events tr := rfl

/-- every query of a trace is an objective evaluation without gradient -/
def ObjOnly (tr : List (Query × Answer)) : Prop := ∀ p ∈ tr, p.1.fn = .obj ∧ p.1.wantGrad = false

/-- the invariant of `runAlg (mk P c)`: `tr` = trace so far, `a` = the answer about to be delivered -/
def J (P : Proposer) (c : Cfg) (s : S P) (a : Option Answer) (tr : List (Query × Answer)) : Prop :=
  ObjOnly tr ∧
  match a with
  | none => tr = [] ∧ s.drv = EschDrv.init c ∧ s.cur = c.x0
  | some ans => ∃ tr0, tr = tr0 ++ [(qOf s.cur, ans)] ∧ feed c (EschDrv.init c) (events tr0) = .running s.drv ∧
      (∀ p, tr.head? = some p → p.1.x = c.x0)

theorem objOnly_snoc {tr : List (Query × Answer)} (h : ObjOnly tr) (x : List F64) (a : Answer) :
    ObjOnly (tr ++ [(qOf x, a)]) := by
  intro p hp
  simp only [List.mem_append, List.mem_singleton] at hp
  rcases hp with hp | rfl
  · exact h p hp
  · exact ⟨rfl, rfl⟩

theorem runAlg_succ {σ : Type} (A : Alg) (E : Env σ) (fuel : Nat) (s : A.S) (a : Option Answer) (st : σ)
    (tr : List (Query × Answer)) :
    runAlg A E (fuel + 1) s a st tr =
      match A.step s a with
      | (_, .inr r) => (some r, st, tr)
      | (s', .inl q) => runAlg A E fuel s' (some (E.call st q).2) (E.call st q).1 (tr ++ [(q, (E.call st q).2)]) := by
  rw [runAlg]
  rfl

/-- core of the refinement, for `runAlg` from any state satisfying the invariant -/
theorem runAlg_refines {σ : Type} (P : Proposer) (c : Cfg) (E : Env σ) :
    ∀ (fuel : Nat) (s : S P) (a : Option Answer) (st : σ) (tr : List (Query × Answer)),
      J P c s a tr →
      ∀ r st' tr', runAlg (mk P c) E fuel s a st tr = (some r, st', tr') →
        ∃ R, feed c (EschDrv.init c) (events tr') = .done R ∧ r = toAlgResult c R ∧ R.nevals = tr'.length ∧
          ObjOnly tr' ∧ (∀ p, tr'.head? = some p → p.1.x = c.x0) := by
  intro fuel
  induction fuel with
  | zero =>
    intro s a st tr _ r st' tr' h
    simp [runAlg] at h
  | succ n ih =>
    intro s a st tr hJ r st' tr' h
    obtain ⟨hobj, hJ⟩ := hJ
    rw [runAlg_succ] at h
    cases a with
    | none =>
      obtain ⟨rfl, hd, hc⟩ := hJ
      have hs : (mk P c).step s none = (s, .inl (qOf s.cur)) := rfl
      rw [hs] at h
      simp only [List.nil_append] at h
      have hJ' : J P c s (some (E.call st (qOf s.cur)).2) [(qOf s.cur, (E.call st (qOf s.cur)).2)] := by
        refine ⟨?_, [], rfl, ?_, ?_⟩
        · simpa using objOnly_snoc hobj s.cur (E.call st (qOf s.cur)).2
        · rw [hd]; rfl
        · intro p hp
          simp only [List.head?_cons, Option.some.injEq] at hp
          subst hp; exact hc
      exact ih s _ _ _ hJ' r st' tr' h
    | some ans =>
      obtain ⟨tr0, rfl, hfeed, hhead⟩ := hJ
      have hn := feed_running_nev hfeed
      have hfa : feed c (EschDrv.init c) (events (tr0 ++ [(qOf s.cur, ans)])) =
          (match EschDrv.step c s.drv (evOf (qOf s.cur, ans)) with
           | .running st' => .running st'
           | .done r => .done r) := by
        rw [events_append, feed_append, hfeed]
        simp only [events_cons, events_nil, feed]
        cases EschDrv.step c s.drv (evOf (qOf s.cur, ans)) <;> rfl
      cases hstep : EschDrv.step c s.drv (evOf (qOf s.cur, ans)) with
      | done R =>
        have hs : (mk P c).step s (some ans) = (s, .inr (toAlgResult c R)) := by
          show stepS P c s (some ans) = _
          simp only [stepS, hstep]
        rw [hs] at h
        simp only [Prod.mk.injEq, Option.some.injEq] at h
        obtain ⟨hr, _, htr⟩ := h
        subst htr
        rw [hstep] at hfa
        refine ⟨R, hfa, hr.symm, ?_, hobj, hhead⟩
        obtain ⟨code, _, rfl⟩ := step_done hstep
        simp [hn, EschDrv.init]
      | running d' =>
        have hs : (mk P c).step s (some ans) =
            ({ drv := d', ps := (P.next s.ps d' s.cur ans).1, cur := (P.next s.ps d' s.cur ans).2 },
             .inl (qOf (P.next s.ps d' s.cur ans).2)) := by
          show stepS P c s (some ans) = _
          simp only [stepS, hstep]
        rw [hs] at h
        rw [hstep] at hfa
        refine ih _ _ _ _ ?_ r st' tr' h
        refine ⟨objOnly_snoc hobj _ _, tr0 ++ [(qOf s.cur, ans)], rfl, hfa, ?_⟩
        intro p hp
        apply hhead p
        cases tr0 <;> simpa using hp

/-- Termination under an evaluation budget: from a state with `nev < maxeval`, `maxeval - nev` further steps suffice for
    the machine to return, whatever the proposer proposes and the environment answers. -/
theorem runAlg_returns {σ : Type} (P : Proposer) (c : Cfg) (E : Env σ) (hmax : 0 < c.maxeval) :
    ∀ (fuel : Nat) (s : S P) (ans : Answer) (st : σ) (tr : List (Query × Answer)),
      (s.drv.nev : Int) < c.maxeval → c.maxeval - s.drv.nev ≤ fuel →
      ∃ r, (runAlg (mk P c) E fuel s (some ans) st tr).1 = some r := by
  intro fuel
  induction fuel with
  | zero => intro s ans st tr h1 h2; exfalso; omega
  | succ n ih =>
    intro s ans st tr h1 h2
    rw [runAlg_succ]
    cases hstep : EschDrv.step c s.drv (evOf (qOf s.cur, ans)) with
    | done R =>
      have hs : (mk P c).step s (some ans) = (s, .inr (toAlgResult c R)) := by
        show stepS P c s (some ans) = _
        simp only [stepS, hstep]
      rw [hs]
      exact ⟨_, rfl⟩
    | running d' =>
      have hs : (mk P c).step s (some ans) =
          ({ drv := d', ps := (P.next s.ps d' s.cur ans).1, cur := (P.next s.ps d' s.cur ans).2 },
           .inl (qOf (P.next s.ps d' s.cur ans).2)) := by
        show stepS P c s (some ans) = _
        simp only [stepS, hstep]
      rw [hs]
      obtain ⟨hc, rfl⟩ := step_running hstep
      have hev := (check_none hc).2.2
      simp [Stop.evals, hmax] at hev
      apply ih
      · simp; omega
      · simp; omega

/-- with `maxeval > 0`, fuel `maxeval + 1` (one step per evaluation plus the step that returns) is enough -/
theorem run_returns {σ : Type} (P : Proposer) (c : Cfg) (E : Env σ) (hmax : 0 < c.maxeval) (fuel : Nat)
    (hfuel : c.maxeval + 1 ≤ fuel) (st : σ) : ∃ r, (Nlopt.run (mk P c) E fuel st).1 = some r := by
  cases fuel with
  | zero => exfalso; omega
  | succ n =>
    unfold Nlopt.run
    rw [runAlg_succ]
    have hs : (mk P c).step (mk P c).init none = ((mk P c).init, .inl (qOf c.x0)) := rfl
    rw [hs]
    apply runAlg_returns P c E hmax
    · simpa [EschDrv.init] using hmax
    · simp [EschDrv.init]; omega

end Nlopt.EschAlg
