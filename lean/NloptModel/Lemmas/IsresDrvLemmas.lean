import NloptModel.Model.IsresDriver
import NloptModel.Lemmas.F64Order
/-! Helper lemmas about the ISRES driver model (`Nlopt.IsresDrv`): the induction principle of the evaluation loop, facts
    about one pass (`post` / `verdict`), the list of completely evaluated members (`mems`) and the invariant that ties the
    driver's memory to the incumbent rule `Isres.run` of Model/Isres.lean. -/
set_option linter.unusedSimpArgs false
set_option linter.unusedVariables false
namespace Nlopt.IsresDrv
open Nlopt

/-! ## the loop -/

/-- Induction principle of `go`: a predicate on (consumed events, memory) that survives every pass after which the loop
    goes on holds when the events run out, or holds just before the pass that ends the run. -/
theorem go_induct (A : Arith) (c : Cfg) (P : List Ev → St → Prop)
    (hp : ∀ done s e, P done s → verdict A c s e = none → P (done ++ [e]) (post A c s e)) :
    ∀ (evs done : List Ev) (s : St), P done s →
      (∃ s', P (done ++ evs) s' ∧ go A c s evs = s'.res 0 true) ∨
      (∃ pre e rest sp r, evs = pre ++ e :: rest ∧ P (done ++ pre) sp ∧ verdict A c sp e = some r ∧
        go A c s evs = (post A c sp e).res r false) := by
  intro evs
  induction evs with
  | nil => intro done s h; exact Or.inl ⟨s, by simpa using h, rfl⟩
  | cons e es ih =>
    intro done s h
    cases hv : verdict A c s e with
    | some r =>
      refine Or.inr ⟨[], e, es, s, r, rfl, by simpa using h, hv, ?_⟩
      simp [go, hv]
    | none =>
      have h1 := hp done s e h hv
      have hgo : go A c s (e :: es) = go A c (post A c s e) es := by simp [go, hv]
      rcases ih (done ++ [e]) (post A c s e) h1 with ⟨s', hs', hg⟩ | ⟨pre, e', rest, sp, r, hes, hP, hvd, hg⟩
      · exact Or.inl ⟨s', by simpa using hs', by rw [hgo, hg]⟩
      · refine Or.inr ⟨e :: pre, e', rest, sp, r, by simp [hes], by simpa using hP, hvd, by rw [hgo, hg]⟩

theorem post_nev (A : Arith) (c : Cfg) (s : St) (e : Ev) : (post A c s e).nev = s.nev + 1 := by
  unfold post; split <;> rfl

/-! ## one member -/

theorem consLoop_none (step : Acc → F64 × F64 → Acc) (stopAt : Nat) :
    ∀ (tols : List (List F64)) (idx : Nat) (res : List (List F64)) (a : Acc),
      consLoop step stopAt idx tols res a = none ↔ (idx ≤ stopAt ∧ stopAt < idx + tols.length) := by
  intro tols
  induction tols with
  | nil => intro idx res a; simp [consLoop]
  | cons t ts ih =>
    intro idx res a
    unfold consLoop
    by_cases h : stopAt = idx
    · simp [h]
    · simp only [h, if_false, ih, List.length_cons]; omega

/-- a member is NOT completely evaluated iff the flag is seen at one of the tests that follow a callback -/
theorem member_none_iff (A : Arith) (c : Cfg) (e : Ev) (k : Nat) :
    member A c e k = none ↔ (1 ≤ e.stop ∧ e.stop ≤ 1 + ncb c) := by
  unfold member ncb
  by_cases h1 : e.stop = 1
  · simp [h1]
  · simp only [h1, if_false]
    cases hg : consLoop (gStep A) e.stop 2 c.gtol e.gs ⟨true, F64.zero⟩ with
    | none =>
      have := (consLoop_none (gStep A) e.stop c.gtol 2 e.gs ⟨true, F64.zero⟩).mp hg
      simp only []
      exact ⟨fun _ => by omega, fun _ => trivial⟩
    | some a1 =>
      have hg' : ¬ (2 ≤ e.stop ∧ e.stop < 2 + c.gtol.length) := by
        intro hh
        have := (consLoop_none (gStep A) e.stop c.gtol 2 e.gs ⟨true, F64.zero⟩).mpr hh
        rw [hg] at this; cases this
      simp only []
      cases hh : consLoop (hStep A) e.stop (2 + c.gtol.length) c.htol e.hs a1 with
      | none =>
        have := (consLoop_none (hStep A) e.stop c.htol (2 + c.gtol.length) e.hs a1).mp hh
        simp only []
        exact ⟨fun _ => by omega, fun _ => trivial⟩
      | some a2 =>
        have hh' : ¬ (2 + c.gtol.length ≤ e.stop ∧ e.stop < 2 + c.gtol.length + c.htol.length) := by
          intro h
          have := (consLoop_none (hStep A) e.stop c.htol (2 + c.gtol.length) e.hs a1).mpr h
          rw [hh] at this; cases this
        simp only []
        constructor
        · intro h; cases h
        · intro h; exfalso; omega

theorem member_f {A : Arith} {c : Cfg} {e : Ev} {k : Nat} {m : Isres.Ev} (h : member A c e k = some m) :
    m.f = e.f ∧ m.pt = k := by
  unfold member at h
  split at h
  · cases h
  · split at h
    · cases h
    · split at h
      · cases h
      · cases h; exact ⟨rfl, rfl⟩

/-- the member data do not depend on the evaluation count, except for the identity tag -/
theorem member_shift {A : Arith} {c : Cfg} {e : Ev} {k : Nat} {m : Isres.Ev} (h : member A c e k = some m) (k' : Nat) :
    member A c e k' = some { m with pt := k' } := by
  unfold member at h ⊢
  split at h
  · cases h
  · rename_i h1
    simp only [h1, if_false]
    split at h
    · cases h
    · rename_i a1 hg
      split at h
      · cases h
      · rename_i a2 hh
        cases h
        simp

/-- without constraints every member that is evaluated at all is "feasible" with penalty `+0` -/
theorem member_unconstrained {A : Arith} {c : Cfg} (hg : c.gtol = []) (hh : c.htol = []) (e : Ev) (k : Nat) :
    member A c e k = if e.stop = 1 then none else some ⟨e.f, true, F64.zero, F64.zero, k⟩ := by
  unfold member
  simp [hg, hh, consLoop]

/-- without equality constraints `gpenalty` is `penalty` (same bits) -/
theorem member_ineq_only {A : Arith} {c : Cfg} (hh : c.htol = []) {e : Ev} {k : Nat} {m : Isres.Ev}
    (h : member A c e k = some m) : m.gpenalty = m.penalty := by
  unfold member at h
  split at h
  · cases h
  · split at h
    · cases h
    · simp [hh, consLoop] at h
      cases h; rfl

/-! ## one pass -/

theorem verdict_none {A : Arith} {c : Cfg} {s : St} {e : Ev} (h : verdict A c s e = none) :
    e.stop = 0 ∧ Stop.evals c.stop.maxeval ((s.nev + 1 : Nat) : Int) = false ∧ ∃ m, member A c e s.nev = some m := by
  unfold verdict at h
  cases hm : member A c e s.nev with
  | none => rw [hm] at h; cases h
  | some m =>
    rw [hm] at h
    simp only [] at h
    by_cases h1 : accRet A c s e m ≠ 1
    · rw [if_pos h1] at h; cases h
    · rw [if_neg h1] at h
      by_cases h2 : e.stop ≠ 0
      · rw [if_pos h2] at h; cases h
      · rw [if_neg h2] at h
        by_cases h3 : Stop.evals c.stop.maxeval ((s.nev + 1 : Nat) : Int) = true
        · rw [if_pos h3] at h; cases h
        · exact ⟨by omega, by simpa using h3, m, rfl⟩

theorem acceptRet_cases (A : Arith) (c : Cfg) (s : St) (e : Ev) (m : Isres.Ev) :
    acceptRet A c s e m = 1 ∨ acceptRet A c s e m = 2 ∨ acceptRet A c s e m = 3 ∨ acceptRet A c s e m = 4 := by
  unfold acceptRet
  split
  · simp
  · split
    · split
      · simp
      · split <;> simp
    · simp

theorem acceptRet_two {A : Arith} {c : Cfg} {s : St} {e : Ev} {m : Isres.Ev} (h : acceptRet A c s e m = 2) :
    F64.lt m.f c.stop.minfMax = true ∧ m.feas = true := by
  unfold acceptRet at h
  split at h
  · rename_i hc; simpa using hc
  · split at h
    · split at h
      · cases h
      · split at h <;> cases h
    · cases h

/-- what a pass that ends the run can return, and why -/
theorem verdict_some {A : Arith} {c : Cfg} {s : St} {e : Ev} {r : Int} (h : verdict A c s e = some r) :
    (r = -5 ∧ member A c e s.nev = none) ∨
    (∃ m, member A c e s.nev = some m ∧
      ((Isres.accepts s.inc m = true ∧ r = acceptRet A c s e m ∧ (r = 2 ∨ r = 3 ∨ r = 4)) ∨
       (r = -5 ∧ e.stop ≠ 0) ∨
       (r = 5 ∧ e.stop = 0 ∧ Stop.evals c.stop.maxeval ((s.nev + 1 : Nat) : Int) = true))) := by
  unfold verdict at h
  cases hm : member A c e s.nev with
  | none => rw [hm] at h; cases h; exact Or.inl ⟨rfl, rfl⟩
  | some m =>
    rw [hm] at h
    simp only [] at h
    refine Or.inr ⟨m, rfl, ?_⟩
    by_cases h1 : accRet A c s e m ≠ 1
    · rw [if_pos h1] at h
      cases h
      unfold accRet at h1 ⊢
      by_cases hacc : Isres.accepts s.inc m = true
      · rw [if_pos hacc] at h1 ⊢
        rcases acceptRet_cases A c s e m with h2 | h2 | h2 | h2
        · exact absurd h2 h1
        · exact Or.inl ⟨hacc, rfl, Or.inl h2⟩
        · exact Or.inl ⟨hacc, rfl, Or.inr (Or.inl h2)⟩
        · exact Or.inl ⟨hacc, rfl, Or.inr (Or.inr h2)⟩
      · rw [if_neg hacc] at h1; exact absurd rfl h1
    · rw [if_neg h1] at h
      by_cases h2 : e.stop ≠ 0
      · rw [if_pos h2] at h; cases h; exact Or.inr (Or.inl ⟨rfl, h2⟩)
      · rw [if_neg h2] at h
        by_cases h3 : Stop.evals c.stop.maxeval ((s.nev + 1 : Nat) : Int) = true
        · rw [if_pos h3] at h; cases h; exact Or.inr (Or.inr ⟨rfl, by omega, h3⟩)
        · rw [if_neg h3] at h; cases h

/-- a pass during which the flag is seen always ends the run -/
theorem verdict_forced {A : Arith} {c : Cfg} {s : St} {e : Ev} (h : e.stop ≠ 0) :
    ∃ r, verdict A c s e = some r ∧ (r = -5 ∨ r = 2 ∨ r = 3 ∨ r = 4) ∧ (e.stop ≤ 1 + ncb c → r = -5) := by
  cases hv : verdict A c s e with
  | none => exact absurd (verdict_none hv).1 h
  | some r =>
    refine ⟨r, rfl, ?_, ?_⟩
    · rcases verdict_some hv with ⟨h1, _⟩ | ⟨m, _, ⟨_, _, h1⟩ | ⟨h1, _⟩ | ⟨_, h1, _⟩⟩
      · exact Or.inl h1
      · exact Or.inr h1
      · exact Or.inl h1
      · exact absurd h1 h
    · intro hle
      rcases verdict_some hv with ⟨h1, _⟩ | ⟨m, hm, _⟩
      · exact h1
      · have := (member_none_iff A c e s.nev).mpr ⟨by omega, hle⟩
        rw [hm] at this; cases this

/-! ## the completely evaluated members of a list of events -/

/-- the members (data for the incumbent rule) of the completely evaluated events of `evs`; the event at position `j` is
    evaluation number `k + j` -/
def mems (A : Arith) (c : Cfg) : Nat → List Ev → List Isres.Ev
  | _, [] => []
  | k, e :: es => (member A c e k).toList ++ mems A c (k + 1) es

theorem mems_append (A : Arith) (c : Cfg) (l1 l2 : List Ev) (k : Nat) :
    mems A c k (l1 ++ l2) = mems A c k l1 ++ mems A c (k + l1.length) l2 := by
  induction l1 generalizing k with
  | nil => simp [mems]
  | cons e es ih =>
    simp only [List.cons_append, mems, ih, List.append_assoc, List.length_cons]
    congr 3; omega

theorem mem_mems {A : Arith} {c : Cfg} {m : Isres.Ev} : ∀ {l : List Ev} {k : Nat}, m ∈ mems A c k l →
    ∃ j e, l[j]? = some e ∧ member A c e (k + j) = some m := by
  intro l
  induction l with
  | nil => intro k h; simp [mems] at h
  | cons e es ih =>
    intro k h
    simp only [mems, List.mem_append, Option.mem_toList] at h
    rcases h with h | h
    · exact ⟨0, e, rfl, by simpa using h⟩
    · obtain ⟨j, e', hj, hm⟩ := ih h
      exact ⟨j + 1, e', by simpa using hj, by rw [← hm]; congr 1; omega⟩

theorem mems_mem {A : Arith} {c : Cfg} {m : Isres.Ev} : ∀ {l : List Ev} {k j : Nat} {e : Ev}, l[j]? = some e →
    member A c e (k + j) = some m → m ∈ mems A c k l := by
  intro l
  induction l with
  | nil => intro k j e h; simp at h
  | cons e0 es ih =>
    intro k j e h hm
    cases j with
    | zero =>
      simp at h; subst h
      simp only [mems, List.mem_append, Option.mem_toList]
      left; simpa using hm
    | succ j =>
      simp only [mems, List.mem_append]
      right
      exact ih (k := k + 1) (j := j) (by simpa using h) (by rw [← hm]; congr 1; omega)

/-! ## the incumbent rule of Model/Isres.lean -/

theorem isres_run_snoc (l : List Isres.Ev) (m : Isres.Ev) : Isres.run (l ++ [m]) = Isres.update (Isres.run l) m := by
  simp [Isres.run, List.foldl_append]

theorem update_accept {s : Isres.Inc} {m : Isres.Ev} (h : Isres.accepts s m = true) :
    Isres.update s m = ⟨m.f, Isres.effPen m, Isres.effGpen m, some m.pt⟩ := by
  simp [Isres.update, h]

theorem update_reject {s : Isres.Inc} {m : Isres.Ev} (h : Isres.accepts s m = false) : Isres.update s m = s := by
  simp [Isres.update, h]

/-! ## the invariant: the driver's memory is the incumbent of the rule, and `x` is the point of that incumbent -/

/-- `x` and `(*minf, minf_penalty, minf_gpenalty)` belong together: nothing accepted yet and `x` is still the caller's
    `x0`, or they are the data of one completely evaluated event -/
def XInv (A : Arith) (c : Cfg) (done : List Ev) (s : St) : Prop :=
  (s.inc = {} ∧ s.x = c.x0) ∨
  (∃ i e m, done[i]? = some e ∧ member A c e i = some m ∧
    s.inc = ⟨m.f, Isres.effPen m, Isres.effGpen m, some i⟩ ∧ s.x = e.x)

def Inv (A : Arith) (c : Cfg) (done : List Ev) (s : St) : Prop :=
  s.nev = done.length ∧ s.inc = Isres.run (mems A c 0 done) ∧ XInv A c done s

theorem inv_init (A : Arith) (c : Cfg) : Inv A c [] (St.init c) :=
  ⟨rfl, rfl, Or.inl ⟨rfl, rfl⟩⟩

theorem xinv_mono {A : Arith} {c : Cfg} {done : List Ev} {s : St} (e : Ev) (h : XInv A c done s) :
    XInv A c (done ++ [e]) s := by
  rcases h with h | ⟨i, e', m, hi, hm, hs, hx⟩
  · exact Or.inl h
  · refine Or.inr ⟨i, e', m, ?_, hm, hs, hx⟩
    have hlt : i < done.length := by
      rcases Nat.lt_or_ge i done.length with h | h
      · exact h
      · rw [List.getElem?_eq_none h] at hi; cases hi
    rw [List.getElem?_append_left hlt]; exact hi

/-- the invariant survives every pass, whether the loop goes on or not -/
theorem inv_post {A : Arith} {c : Cfg} {done : List Ev} {s : St} (e : Ev) (h : Inv A c done s) :
    Inv A c (done ++ [e]) (post A c s e) := by
  obtain ⟨hn, hi, hx⟩ := h
  refine ⟨by simp [post_nev, hn], ?_, ?_⟩
  · rw [mems_append]
    simp only [mems, Nat.zero_add, List.append_nil]
    unfold post
    rw [← hn]
    cases hm : member A c e s.nev with
    | none => simpa using hi
    | some m => simp only [Option.toList_some]; rw [isres_run_snoc, ← hi]
  · unfold post
    cases hm : member A c e s.nev with
    | none => exact xinv_mono e hx
    | some m =>
      simp only []
      cases hacc : Isres.accepts s.inc m with
      | false =>
        have := xinv_mono (A := A) (c := c) e hx
        rcases this with ⟨h1, h2⟩ | ⟨i, e', m', h1, h2, h3, h4⟩
        · exact Or.inl ⟨(update_reject hacc).trans h1, by simpa using h2⟩
        · exact Or.inr ⟨i, e', m', h1, h2, (update_reject hacc).trans h3, by simpa using h4⟩
      | true =>
        refine Or.inr ⟨done.length, e, m, by simp, by rw [← hn]; exact hm, ?_, by simp⟩
        have := (member_f hm).2
        simp [update_accept hacc, this, hn]

end Nlopt.IsresDrv
