import NloptModel.Model.MlslDriver
import NloptModel.Lemmas.F64Order
/-! Helper lemmas about the MLSL driver model (`Nlopt.MlslDrv`): order facts, the ordered insertion `insBy` (membership,
    `map`, the head stays minimal), the effect of every state transformation on the two pair lists (`PL`, `LL`), the
    invariant `Core` that ties the driver's memory to the consumed events, the case analysis of one event, the induction
    principle of the loop and running a prefix. -/
set_option linter.unusedSimpArgs false
set_option linter.unusedVariables false
namespace Nlopt.MlslDrv
open Nlopt

/-! ## order facts -/

theorem lt_asymm' {a b : F64} (h : F64.lt a b = true) : F64.lt b a = false := by
  cases h2 : F64.lt b a with
  | false => rfl
  | true =>
    simp [F64.lt] at h h2
    obtain ⟨_, h⟩ := h
    obtain ⟨_, h2⟩ := h2
    omega

theorem lt_trans' {a b c : F64} (h1 : F64.lt a b = true) (h2 : F64.lt b c = true) : F64.lt a c = true := by
  simp [F64.lt] at *
  obtain ⟨⟨ha, _⟩, hab⟩ := h1
  obtain ⟨⟨_, hc⟩, hbc⟩ := h2
  exact ⟨⟨ha, hc⟩, by omega⟩

/-- `≥` is transitive on non-NaN values -/
theorem not_lt_trans {a b c : F64} (ha : a.isNaN = false) (hb : b.isNaN = false) (hc : c.isNaN = false)
    (h1 : F64.lt a b = false) (h2 : F64.lt b c = false) : F64.lt a c = false := by
  simp [F64.lt, ha, hb, hc] at *; omega

/-- if `b` is not below `m` and `a` is below `m`, then `b` is not below `a` -/
theorem not_lt_of_lt_of_not_lt {a b m : F64} (h1 : F64.lt a m = true) (h2 : F64.lt b m = false) : F64.lt b a = false := by
  cases h : F64.lt b a with
  | false => rfl
  | true => rw [lt_trans' h h1] at h2; cases h2

/-- `m ≤ f < v` -/
theorem lt_of_not_lt_of_lt {f m v : F64} (hm : m.isNaN = false) (h1 : F64.lt f m = false) (h2 : F64.lt f v = true) :
    F64.lt m v = true := by
  simp [F64.lt] at h2
  obtain ⟨⟨hf, hv⟩, h2⟩ := h2
  simp [F64.lt, hf, hm, hv] at *; omega

theorem evals_zero (m : Int) : Stop.evals m ((0 : Nat) : Int) = false := by
  simp [Stop.evals]

/-- the test `nlopt_stop_evals` is false: with a limit, the counter is below it -/
theorem lt_of_evals_false {m : Int} {k : Nat} (h : Stop.evals m (k : Int) = false) (hm : m > 0) : (k : Int) < m := by
  simp [Stop.evals] at h
  have := h hm
  omega

/-! ## ordered insertion -/

theorem mem_insBy {α : Type} (key : α → F64) (k : α) (l : List α) (q : α) : q ∈ insBy key k l ↔ q = k ∨ q ∈ l := by
  induction l with
  | nil => simp [insBy]
  | cons e es ih =>
    unfold insBy
    split
    · simp only [List.mem_cons, ih]
      constructor
      · intro h; rcases h with h | h | h
        · exact Or.inr (Or.inl h)
        · exact Or.inl h
        · exact Or.inr (Or.inr h)
      · intro h; rcases h with h | h | h
        · exact Or.inr (Or.inl h)
        · exact Or.inl h
        · exact Or.inr (Or.inr h)
    · simp only [List.mem_cons]

theorem map_insBy {α β : Type} (key : α → F64) (key' : β → F64) (g : α → β) (hg : ∀ a, key' (g a) = key a)
    (k : α) (l : List α) : (insBy key k l).map g = insBy key' (g k) (l.map g) := by
  induction l with
  | nil => rfl
  | cons e es ih =>
    simp only [insBy, List.map_cons, hg]
    split
    · simp [ih]
    · simp

theorem insBy_ne_nil {α : Type} (key : α → F64) (k : α) (l : List α) : insBy key k l ≠ [] := by
  cases l with
  | nil => simp [insBy]
  | cons e es => unfold insBy; split <;> simp

/-- the first element is not above any other one -/
def HeadMin {α : Type} (key : α → F64) : List α → Prop
  | [] => True
  | h :: t => ∀ a ∈ t, F64.lt (key a) (key h) = false

theorem headMin_insBy {α : Type} (key : α → F64) (k : α) (l : List α)
    (hn : ∀ a ∈ insBy key k l, (key a).isNaN = false) (h : HeadMin key l) : HeadMin key (insBy key k l) := by
  have hnk : (key k).isNaN = false := hn k ((mem_insBy key k l k).2 (Or.inl rfl))
  have hnl : ∀ a ∈ l, (key a).isNaN = false := fun a ha => hn a ((mem_insBy key k l a).2 (Or.inr ha))
  cases l with
  | nil => intro a ha; cases ha
  | cons e es =>
    unfold insBy
    by_cases hg : F64.gt (key k) (key e) = true
    · rw [if_pos hg]
      intro a ha
      rcases (mem_insBy key k es a).1 ha with h1 | h1
      · subst h1; exact lt_asymm' hg
      · exact h a h1
    · rw [if_neg hg]
      have hg' : F64.lt (key e) (key k) = false := by simpa [F64.gt] using hg
      intro a ha
      rcases List.mem_cons.1 ha with h1 | h1
      · subst h1; exact hg'
      · exact not_lt_trans (hnl a (List.mem_cons_of_mem _ h1)) (hnl e (List.mem_cons_self ..)) hnk (h a h1) hg'

/-- the head of the list after an insertion is the new key or is strictly below it -/
theorem head_insBy {α : Type} (key : α → F64) (k : α) (l : List α) :
    ∃ h t, insBy key k l = h :: t ∧ (h = k ∨ F64.lt (key h) (key k) = true) := by
  cases l with
  | nil => exact ⟨k, [], rfl, Or.inl rfl⟩
  | cons e es =>
    unfold insBy
    by_cases hg : F64.gt (key k) (key e) = true
    · rw [if_pos hg]; exact ⟨e, _, rfl, Or.inr hg⟩
    · rw [if_neg hg]; exact ⟨k, _, rfl, Or.inl rfl⟩

/-! ## the pair lists of a state -/

/-- the `(x, f)` of the sample points, in tree order -/
def PL (s : St) : List (List F64 × F64) := s.pts.map Pt.pair
/-- the `(x, f)` of the local minima, in tree order -/
def LL (s : St) : List (List F64 × F64) := s.lms.map Lm.pair

theorem map_pair_updNewPt (A : Arith) (x : List F64) (f : F64) (l : List Pt) :
    (updNewPt A x f l).map Pt.pair = l.map Pt.pair := by
  unfold updNewPt
  rw [List.map_map]
  apply List.map_congr_left
  intro p _
  simp only [Function.comp]
  split <;> rfl

theorem map_pair_updNewLm (A : Arith) (x : List F64) (f : F64) (l : List Pt) :
    (updNewLm A x f l).map Pt.pair = l.map Pt.pair := by
  unfold updNewLm
  rw [List.map_map]
  apply List.map_congr_left
  intro p _
  simp only [Function.comp]
  split <;> rfl

theorem map_pair_setMin (l : List Pt) (j : Nat) : (setMin l j).map Pt.pair = l.map Pt.pair := by
  induction l generalizing j with
  | nil => rfl
  | cons p ps ih =>
    cases j with
    | zero => rfl
    | succ j => simp [setMin, ih]

theorem map_pair_insPt (p : Pt) (l : List Pt) : (insBy Pt.f p l).map Pt.pair = insBy Prod.snd p.pair (l.map Pt.pair) :=
  map_insBy Pt.f Prod.snd Pt.pair (fun _ => rfl) p l

theorem map_pair_insLm (p : Lm) (l : List Lm) : (insBy Lm.f p l).map Lm.pair = insBy Prod.snd p.pair (l.map Lm.pair) :=
  map_insBy Lm.f Prod.snd Lm.pair (fun _ => rfl) p l

/-! ## `get_minf` -/

@[simp] theorem minfPts_pts (s : St) : (minfPts s).pts = s.pts := by unfold minfPts; split <;> rfl
@[simp] theorem minfPts_lms (s : St) : (minfPts s).lms = s.lms := by unfold minfPts; split <;> rfl
@[simp] theorem minfPts_nev (s : St) : (minfPts s).nev = s.nev := by unfold minfPts; split <;> rfl
@[simp] theorem minfPts_cnt (s : St) : (minfPts s).cnt = s.cnt := by unfold minfPts; split <;> rfl
@[simp] theorem minfPts_subs (s : St) : (minfPts s).subs = s.subs := by unfold minfPts; split <;> rfl
@[simp] theorem minfLms_pts (s : St) : (minfLms s).pts = s.pts := by unfold minfLms; split <;> (try split) <;> rfl
@[simp] theorem minfLms_lms (s : St) : (minfLms s).lms = s.lms := by unfold minfLms; split <;> (try split) <;> rfl
@[simp] theorem minfLms_nev (s : St) : (minfLms s).nev = s.nev := by unfold minfLms; split <;> (try split) <;> rfl
@[simp] theorem minfLms_cnt (s : St) : (minfLms s).cnt = s.cnt := by unfold minfLms; split <;> (try split) <;> rfl
@[simp] theorem minfLms_subs (s : St) : (minfLms s).subs = s.subs := by unfold minfLms; split <;> (try split) <;> rfl
@[simp] theorem getMinf_pts (s : St) : (getMinf s).pts = s.pts := by simp [getMinf]
@[simp] theorem getMinf_lms (s : St) : (getMinf s).lms = s.lms := by simp [getMinf]
@[simp] theorem getMinf_nev (s : St) : (getMinf s).nev = s.nev := by simp [getMinf]
@[simp] theorem getMinf_cnt (s : St) : (getMinf s).cnt = s.cnt := by simp [getMinf]
@[simp] theorem getMinf_subs (s : St) : (getMinf s).subs = s.subs := by simp [getMinf]
@[simp] theorem getMinf_PL (s : St) : PL (getMinf s) = PL s := by simp [PL]
@[simp] theorem getMinf_LL (s : St) : LL (getMinf s) = LL s := by simp [LL]

/-- the second half of `get_minf`: the memory is left alone, or the first local minimum is strictly below `*minf` and
    replaces it -/
theorem minfLms_cases (s : St) :
    (minfLms s = s ∧ (s.lms = [] ∨ s.minf = none ∨ ∃ l ls m, s.lms = l :: ls ∧ s.minf = some m ∧ F64.lt l.f m = false)) ∨
    (∃ l ls m, s.lms = l :: ls ∧ s.minf = some m ∧ F64.lt l.f m = true ∧ (minfLms s).minf = some l.f ∧ (minfLms s).x = l.x) := by
  unfold minfLms
  cases hl : s.lms with
  | nil => simp
  | cons l ls =>
    cases hm : s.minf with
    | none => simp
    | some m =>
      simp only []
      by_cases hlt : F64.lt l.f m = true
      · simp [hlt]
      · simp [hlt]

/-- what `get_minf` leaves in `(x, *minf)` when the tree of sample points is not empty: the first sample point, unless the
    first local minimum is strictly below it -/
theorem getMinf_cons (s : St) (p : Pt) (ps : List Pt) (h : s.pts = p :: ps) :
    ((getMinf s).minf = some p.f ∧ (getMinf s).x = p.x ∧ (s.lms = [] ∨ ∃ l ls, s.lms = l :: ls ∧ F64.lt l.f p.f = false)) ∨
    (∃ l ls, s.lms = l :: ls ∧ F64.lt l.f p.f = true ∧ (getMinf s).minf = some l.f ∧ (getMinf s).x = l.x) := by
  have h1 : (minfPts s).minf = some p.f := by unfold minfPts; rw [h]
  have h2 : (minfPts s).x = p.x := by unfold minfPts; rw [h]
  unfold getMinf
  rcases minfLms_cases (minfPts s) with ⟨he, hc⟩ | ⟨l, ls, m, hl, hm, hlt, h3, h4⟩
  · rw [he]
    refine Or.inl ⟨h1, h2, ?_⟩
    rcases hc with hc | hc | ⟨l, ls, m, hl, hm, hlt⟩
    · exact Or.inl (by simpa using hc)
    · rw [h1] at hc; cases hc
    · rw [h1] at hm; cases hm
      exact Or.inr ⟨l, ls, by simpa using hl, hlt⟩
  · rw [h1] at hm; cases hm
    exact Or.inr ⟨l, ls, by simpa using hl, hlt, h3, h4⟩

/-- `get_minf` with an empty tree of sample points -/
theorem getMinf_nil (s : St) (h : s.pts = []) : getMinf s = minfLms s := by
  unfold getMinf minfPts; rw [h]

/-! ## the consumed events -/

def Ev.epair : Ev → Option (List F64 × F64)
  | .eval x f _ => some (x, f)
  | .sub .. => none

def Ev.spair : Ev → Option (List F64 × F64)
  | .eval .. => none
  | .sub r _ x f _ _ => if r < 0 then none else some (x, f)

/-- the `(x, f)` of the own evaluations among the events -/
def evalPairs (l : List Ev) : List (List F64 × F64) := l.filterMap Ev.epair
/-- the `(x, f)` of the local searches that did not fail (`ret >= 0`: the result is inserted into the tree) -/
def subPairs (l : List Ev) : List (List F64 × F64) := l.filterMap Ev.spair
/-- evaluations of the objective made during the events -/
def costs (l : List Ev) : Nat := (l.map Ev.cost).sum

@[simp] theorem evalPairs_append (l1 l2 : List Ev) : evalPairs (l1 ++ l2) = evalPairs l1 ++ evalPairs l2 := by
  simp [evalPairs]
@[simp] theorem subPairs_append (l1 l2 : List Ev) : subPairs (l1 ++ l2) = subPairs l1 ++ subPairs l2 := by
  simp [subPairs]
@[simp] theorem costs_append (l1 l2 : List Ev) : costs (l1 ++ l2) = costs l1 + costs l2 := by
  simp [costs]

/-- **The invariant.**  The counters count the consumed events; the two trees hold exactly the pairs of the consumed own
    evaluations and of the consumed successful local searches; each tree has a minimal element at its head as long as it
    holds no NaN; every budget handed out under a limit was positive; `(x, *minf)` is untouched or a consumed pair. -/
structure Core (c : Cfg) (done : List Ev) (s : St) : Prop where
  cnt : s.cnt = done.length
  nev : s.nev = costs done
  pl : ∀ q, q ∈ PL s ↔ q ∈ evalPairs done
  ll : ∀ q, q ∈ LL s ↔ q ∈ subPairs done
  hmP : (∀ q ∈ PL s, q.2.isNaN = false) → HeadMin Prod.snd (PL s)
  hmL : (∀ q ∈ LL s, q.2.isNaN = false) → HeadMin Prod.snd (LL s)
  bud : c.maxeval > 0 → ∀ p ∈ s.subs, p.1 > 0
  nsub : s.subs.length = (done.filter fun e => !e.isEval).length
  mem : (s.minf = none ∧ s.x = c.x0) ∨
        (∃ m, s.minf = some m ∧ ((s.x, m) ∈ evalPairs done ∨ (s.x, m) ∈ subPairs done))

theorem core_init (c : Cfg) : Core c [] (St.init c) :=
  ⟨rfl, rfl, by simp [PL, St.init, evalPairs], by simp [LL, St.init, subPairs], fun _ => trivial, fun _ => trivial,
   fun _ p hp => by simp [St.init] at hp, rfl, Or.inl ⟨rfl, rfl⟩⟩

/-- an own evaluation: the pair is inserted into the tree of sample points, the memory is not touched -/
theorem core_eval {c : Cfg} {done : List Ev} {s s' : St} (h : Core c done s) (x : List F64) (f : F64) (fo : Bool)
    (hnev : s'.nev = s.nev + 1) (hcnt : s'.cnt = s.cnt + 1) (hpl : PL s' = insBy Prod.snd (x, f) (PL s))
    (hll : LL s' = LL s) (hsubs : s'.subs = s.subs) (hx : s'.x = s.x) (hm : s'.minf = s.minf) :
    Core c (done ++ [.eval x f fo]) s' := by
  refine ⟨by simp [hcnt, h.cnt], by simp [hnev, h.nev, costs, Ev.cost], ?_, ?_, ?_, ?_, by rw [hsubs]; exact h.bud, ?_, ?_⟩
  · intro q
    rw [hpl, mem_insBy, h.pl q]
    simp [evalPairs, Ev.epair]
    constructor <;> (intro hh; rcases hh with hh | hh) <;> simp [hh]
  · intro q; rw [hll, h.ll q]; simp [subPairs, Ev.spair]
  · intro hn
    rw [hpl] at hn ⊢
    exact headMin_insBy Prod.snd (x, f) (PL s) hn
      (h.hmP fun q hq => hn q ((mem_insBy Prod.snd (x, f) (PL s) q).2 (Or.inr hq)))
  · rw [hll]; exact h.hmL
  · simp [hsubs, h.nsub, Ev.isEval]
  · rw [hx, hm]
    rcases h.mem with hh | ⟨m, h1, h2⟩
    · exact Or.inl hh
    · refine Or.inr ⟨m, h1, ?_⟩
      rcases h2 with h2 | h2
      · exact Or.inl (by simp [h2])
      · exact Or.inr (by simp [h2])

/-- a local search that failed: only the counters move -/
theorem core_subFail {c : Cfg} {done : List Ev} {s s' : St} (h : Core c done s) (ret : Int) (x0 x : List F64) (f : F64)
    (used : Nat) (fo : Bool) (hret : ret < 0) (hw : Stop.evals c.maxeval (s.nev : Int) = false)
    (hnev : s'.nev = s.nev + used) (hcnt : s'.cnt = s.cnt + 1) (hpl : PL s' = PL s) (hll : LL s' = LL s)
    (hsubs : s'.subs = s.subs ++ [(c.maxeval - (s.nev : Int), used)]) (hx : s'.x = s.x) (hm : s'.minf = s.minf) :
    Core c (done ++ [.sub ret x0 x f used fo]) s' := by
  refine ⟨by simp [hcnt, h.cnt], by simp [hnev, h.nev, costs, Ev.cost], ?_, ?_, by rw [hpl]; exact h.hmP,
    by rw [hll]; exact h.hmL, ?_, ?_, ?_⟩
  · intro q; rw [hpl, h.pl q]; simp [evalPairs, Ev.epair]
  · intro q; rw [hll, h.ll q]; simp [subPairs, Ev.spair, hret]
  · intro hmax p hp
    rw [hsubs] at hp
    rcases List.mem_append.1 hp with hp | hp
    · exact h.bud hmax p hp
    · simp at hp; subst hp
      have := lt_of_evals_false hw hmax
      simp only []; omega
  · simp [hsubs, h.nsub, Ev.isEval]
  · rw [hx, hm]
    rcases h.mem with hh | ⟨m, h1, h2⟩
    · exact Or.inl hh
    · refine Or.inr ⟨m, h1, ?_⟩
      rcases h2 with h2 | h2
      · exact Or.inl (by simp [h2])
      · exact Or.inr (by simp [h2])

/-- a local search that returned `ret >= 0`: its result is inserted into the tree of local minima -/
theorem core_subIns {c : Cfg} {done : List Ev} {s s' : St} (h : Core c done s) (ret : Int) (x0 x : List F64) (f : F64)
    (used : Nat) (fo : Bool) (hret : ¬ ret < 0) (hw : Stop.evals c.maxeval (s.nev : Int) = false)
    (hnev : s'.nev = s.nev + used) (hcnt : s'.cnt = s.cnt + 1) (hpl : PL s' = PL s)
    (hll : LL s' = insBy Prod.snd (x, f) (LL s))
    (hsubs : s'.subs = s.subs ++ [(c.maxeval - (s.nev : Int), used)]) (hx : s'.x = s.x) (hm : s'.minf = s.minf) :
    Core c (done ++ [.sub ret x0 x f used fo]) s' := by
  refine ⟨by simp [hcnt, h.cnt], by simp [hnev, h.nev, costs, Ev.cost], ?_, ?_, by rw [hpl]; exact h.hmP, ?_, ?_, ?_, ?_⟩
  · intro q; rw [hpl, h.pl q]; simp [evalPairs, Ev.epair]
  · intro q
    rw [hll, mem_insBy, h.ll q]
    simp [subPairs, Ev.spair, hret]
    constructor <;> (intro hh; rcases hh with hh | hh) <;> simp [hh]
  · intro hn
    rw [hll] at hn ⊢
    exact headMin_insBy Prod.snd (x, f) (LL s) hn
      (h.hmL fun q hq => hn q ((mem_insBy Prod.snd (x, f) (LL s) q).2 (Or.inr hq)))
  · intro hmax p hp
    rw [hsubs] at hp
    rcases List.mem_append.1 hp with hp | hp
    · exact h.bud hmax p hp
    · simp at hp; subst hp
      have := lt_of_evals_false hw hmax
      simp only []; omega
  · simp [hsubs, h.nsub, Ev.isEval]
  · rw [hx, hm]
    rcases h.mem with hh | ⟨m, h1, h2⟩
    · exact Or.inl hh
    · refine Or.inr ⟨m, h1, ?_⟩
      rcases h2 with h2 | h2
      · exact Or.inl (by simp [h2])
      · exact Or.inr (by simp [h2])

/-- `get_minf` keeps the invariant: it writes a pair that is in one of the trees -/
theorem core_getMinf {c : Cfg} {done : List Ev} {s : St} (h : Core c done s) : Core c done (getMinf s) := by
  refine ⟨by simp [h.cnt], by simp [h.nev], by simpa using h.pl, by simpa using h.ll, by simpa using h.hmP,
    by simpa using h.hmL, by simpa using h.bud, by simpa using h.nsub, ?_⟩
  cases hp : s.pts with
  | nil =>
    rw [getMinf_nil s hp]
    rcases minfLms_cases s with ⟨he, _⟩ | ⟨l, ls, m, hl, _, _, h3, h4⟩
    · rw [he]; exact h.mem
    · refine Or.inr ⟨l.f, h3, Or.inr ?_⟩
      rw [h4]; exact (h.ll (l.x, l.f)).1 (by simp [LL, hl, Lm.pair])
  | cons p ps =>
    rcases getMinf_cons s p ps hp with ⟨h1, h2, _⟩ | ⟨l, ls, hl, _, h1, h2⟩
    · refine Or.inr ⟨p.f, h1, Or.inl ?_⟩
      rw [h2]; exact (h.pl (p.x, p.f)).1 (by simp [PL, hp, Pt.pair])
    · refine Or.inr ⟨l.f, h1, Or.inr ?_⟩
      rw [h2]; exact (h.ll (l.x, l.f)).1 (by simp [LL, hl, Lm.pair])

/-! ## field lemmas of the state transformations -/

@[simp] theorem afterInit_nev (s : St) (x : List F64) (f : F64) : (afterInit s x f).nev = s.nev + 1 := rfl
@[simp] theorem afterInit_cnt (s : St) (x : List F64) (f : F64) : (afterInit s x f).cnt = s.cnt + 1 := rfl
@[simp] theorem afterInit_subs (s : St) (x : List F64) (f : F64) : (afterInit s x f).subs = s.subs := rfl
@[simp] theorem afterInit_x (s : St) (x : List F64) (f : F64) : (afterInit s x f).x = s.x := rfl
@[simp] theorem afterInit_minf (s : St) (x : List F64) (f : F64) : (afterInit s x f).minf = s.minf := rfl
@[simp] theorem afterInit_LL (s : St) (x : List F64) (f : F64) : LL (afterInit s x f) = LL s := rfl
@[simp] theorem afterInit_PL (s : St) (x : List F64) (f : F64) : PL (afterInit s x f) = insBy Prod.snd (x, f) (PL s) := by
  simp [PL, afterInit, map_pair_insPt, freshPt, Pt.pair]

@[simp] theorem afterSampleStop_nev (s : St) (x : List F64) (f : F64) : (afterSampleStop s x f).nev = s.nev + 1 := rfl
@[simp] theorem afterSampleStop_cnt (s : St) (x : List F64) (f : F64) : (afterSampleStop s x f).cnt = s.cnt + 1 := rfl
@[simp] theorem afterSampleStop_subs (s : St) (x : List F64) (f : F64) : (afterSampleStop s x f).subs = s.subs := rfl
@[simp] theorem afterSampleStop_x (s : St) (x : List F64) (f : F64) : (afterSampleStop s x f).x = s.x := rfl
@[simp] theorem afterSampleStop_minf (s : St) (x : List F64) (f : F64) : (afterSampleStop s x f).minf = s.minf := rfl
@[simp] theorem afterSampleStop_LL (s : St) (x : List F64) (f : F64) : LL (afterSampleStop s x f) = LL s := rfl
@[simp] theorem afterSampleStop_PL (s : St) (x : List F64) (f : F64) :
    PL (afterSampleStop s x f) = insBy Prod.snd (x, f) (PL s) := by
  simp [PL, afterSampleStop, map_pair_insPt, freshPt, Pt.pair]

@[simp] theorem afterSample_nev (A : Arith) (s : St) (x : List F64) (f : F64) : (afterSample A s x f).nev = s.nev + 1 := rfl
@[simp] theorem afterSample_cnt (A : Arith) (s : St) (x : List F64) (f : F64) : (afterSample A s x f).cnt = s.cnt + 1 := rfl
@[simp] theorem afterSample_subs (A : Arith) (s : St) (x : List F64) (f : F64) : (afterSample A s x f).subs = s.subs := rfl
@[simp] theorem afterSample_x (A : Arith) (s : St) (x : List F64) (f : F64) : (afterSample A s x f).x = s.x := rfl
@[simp] theorem afterSample_minf (A : Arith) (s : St) (x : List F64) (f : F64) : (afterSample A s x f).minf = s.minf := rfl
@[simp] theorem afterSample_LL (A : Arith) (s : St) (x : List F64) (f : F64) : LL (afterSample A s x f) = LL s := rfl
@[simp] theorem afterSample_PL (A : Arith) (s : St) (x : List F64) (f : F64) :
    PL (afterSample A s x f) = insBy Prod.snd (x, f) (PL s) := by
  simp [PL, afterSample, map_pair_insPt, map_pair_updNewPt, Pt.pair]

@[simp] theorem afterSubFail_nev (c : Cfg) (s : St) (j u : Nat) : (afterSubFail c s j u).nev = s.nev + u := rfl
@[simp] theorem afterSubFail_cnt (c : Cfg) (s : St) (j u : Nat) : (afterSubFail c s j u).cnt = s.cnt + 1 := rfl
@[simp] theorem afterSubFail_subs (c : Cfg) (s : St) (j u : Nat) :
    (afterSubFail c s j u).subs = s.subs ++ [(c.maxeval - (s.nev : Int), u)] := rfl
@[simp] theorem afterSubFail_x (c : Cfg) (s : St) (j u : Nat) : (afterSubFail c s j u).x = s.x := rfl
@[simp] theorem afterSubFail_minf (c : Cfg) (s : St) (j u : Nat) : (afterSubFail c s j u).minf = s.minf := rfl
@[simp] theorem afterSubFail_LL (c : Cfg) (s : St) (j u : Nat) : LL (afterSubFail c s j u) = LL s := rfl
@[simp] theorem afterSubFail_PL (c : Cfg) (s : St) (j u : Nat) : PL (afterSubFail c s j u) = PL s := by
  simp [PL, afterSubFail, map_pair_setMin]

@[simp] theorem afterSubIns_nev (c : Cfg) (s : St) (j : Nat) (x : List F64) (f : F64) (u : Nat) :
    (afterSubIns c s j x f u).nev = s.nev + u := rfl
@[simp] theorem afterSubIns_cnt (c : Cfg) (s : St) (j : Nat) (x : List F64) (f : F64) (u : Nat) :
    (afterSubIns c s j x f u).cnt = s.cnt + 1 := rfl
@[simp] theorem afterSubIns_subs (c : Cfg) (s : St) (j : Nat) (x : List F64) (f : F64) (u : Nat) :
    (afterSubIns c s j x f u).subs = s.subs ++ [(c.maxeval - (s.nev : Int), u)] := rfl
@[simp] theorem afterSubIns_x (c : Cfg) (s : St) (j : Nat) (x : List F64) (f : F64) (u : Nat) :
    (afterSubIns c s j x f u).x = s.x := rfl
@[simp] theorem afterSubIns_minf (c : Cfg) (s : St) (j : Nat) (x : List F64) (f : F64) (u : Nat) :
    (afterSubIns c s j x f u).minf = s.minf := rfl
@[simp] theorem afterSubIns_PL (c : Cfg) (s : St) (j : Nat) (x : List F64) (f : F64) (u : Nat) :
    PL (afterSubIns c s j x f u) = PL s := by
  simp [PL, afterSubIns, afterSubFail, map_pair_setMin]
@[simp] theorem afterSubIns_LL (c : Cfg) (s : St) (j : Nat) (x : List F64) (f : F64) (u : Nat) :
    LL (afterSubIns c s j x f u) = insBy Prod.snd (x, f) (LL s) := by
  simp [LL, afterSubIns, map_pair_insLm, Lm.pair]

@[simp] theorem afterSubUpd_nev (A : Arith) (c : Cfg) (s : St) (j : Nat) (x : List F64) (f : F64) (u : Nat) :
    (afterSubUpd A c s j x f u).nev = s.nev + u := rfl
@[simp] theorem afterSubUpd_cnt (A : Arith) (c : Cfg) (s : St) (j : Nat) (x : List F64) (f : F64) (u : Nat) :
    (afterSubUpd A c s j x f u).cnt = s.cnt + 1 := rfl
@[simp] theorem afterSubUpd_subs (A : Arith) (c : Cfg) (s : St) (j : Nat) (x : List F64) (f : F64) (u : Nat) :
    (afterSubUpd A c s j x f u).subs = s.subs ++ [(c.maxeval - (s.nev : Int), u)] := rfl
@[simp] theorem afterSubUpd_x (A : Arith) (c : Cfg) (s : St) (j : Nat) (x : List F64) (f : F64) (u : Nat) :
    (afterSubUpd A c s j x f u).x = s.x := rfl
@[simp] theorem afterSubUpd_minf (A : Arith) (c : Cfg) (s : St) (j : Nat) (x : List F64) (f : F64) (u : Nat) :
    (afterSubUpd A c s j x f u).minf = s.minf := rfl
@[simp] theorem afterSubUpd_PL (A : Arith) (c : Cfg) (s : St) (j : Nat) (x : List F64) (f : F64) (u : Nat) :
    PL (afterSubUpd A c s j x f u) = PL s := by
  simp [PL, afterSubUpd, map_pair_updNewLm, map_pair_setMin]
@[simp] theorem afterSubUpd_LL (A : Arith) (c : Cfg) (s : St) (j : Nat) (x : List F64) (f : F64) (u : Nat) :
    LL (afterSubUpd A c s j x f u) = insBy Prod.snd (x, f) (LL s) := by
  simp [LL, afterSubUpd, afterSubIns, map_pair_insLm, Lm.pair]

/-! ## one event -/

theorem stopOwn_none {c : Cfg} {n : Nat} {f : F64} {fo : Bool} (h : stopOwn c n f fo = none) :
    fo = false ∧ Stop.evals c.maxeval (n : Int) = false ∧ F64.lt f c.stopval = false := by
  unfold stopOwn at h
  cases fo with
  | true => simp at h
  | false =>
    cases h1 : Stop.evals c.maxeval (n : Int) with
    | true => simp [h1] at h
    | false =>
      cases h2 : F64.lt f c.stopval with
      | true => simp [h1, h2] at h
      | false => exact ⟨rfl, rfl, rfl⟩

theorem stopOwn_some {c : Cfg} {n : Nat} {f : F64} {fo : Bool} {r : Int} (h : stopOwn c n f fo = some r) :
    (fo = true ∧ r = -5) ∨ (fo = false ∧ Stop.evals c.maxeval (n : Int) = true ∧ r = 5) ∨
    (fo = false ∧ Stop.evals c.maxeval (n : Int) = false ∧ F64.lt f c.stopval = true ∧ r = 2) := by
  unfold stopOwn at h
  cases fo with
  | true => simp at h; exact Or.inl ⟨rfl, h.symm⟩
  | false =>
    cases h1 : Stop.evals c.maxeval (n : Int) with
    | true => simp [h1] at h; exact Or.inr (Or.inl ⟨rfl, rfl, h.symm⟩)
    | false =>
      cases h2 : F64.lt f c.stopval with
      | true => simp [h1, h2] at h; exact Or.inr (Or.inr ⟨rfl, rfl, rfl, h.symm⟩)
      | false => simp [h1, h2] at h

theorem stopSub_none {c : Cfg} {n : Nat} {f : F64} {fo : Bool} (h : stopSub c n f fo = none) :
    fo = false ∧ Stop.evals c.maxeval (n : Int) = false ∧ F64.lt f c.stopval = false := by
  unfold stopSub at h
  cases fo with
  | true => simp at h
  | false =>
    cases h2 : F64.lt f c.stopval with
    | true => simp [h2] at h
    | false =>
      cases h1 : Stop.evals c.maxeval (n : Int) with
      | true => simp [h1, h2] at h
      | false => exact ⟨rfl, rfl, rfl⟩

theorem stopSub_some {c : Cfg} {n : Nat} {f : F64} {fo : Bool} {r : Int} (h : stopSub c n f fo = some r) :
    (fo = true ∧ r = -5) ∨ (fo = false ∧ F64.lt f c.stopval = true ∧ r = 2) ∨
    (fo = false ∧ F64.lt f c.stopval = false ∧ Stop.evals c.maxeval (n : Int) = true ∧ r = 5) := by
  unfold stopSub at h
  cases fo with
  | true => simp at h; exact Or.inl ⟨rfl, h.symm⟩
  | false =>
    cases h2 : F64.lt f c.stopval with
    | true => simp [h2] at h; exact Or.inr (Or.inl ⟨rfl, rfl, h.symm⟩)
    | false =>
      cases h1 : Stop.evals c.maxeval (n : Int) with
      | true => simp [h1, h2] at h; exact Or.inr (Or.inr ⟨rfl, rfl, rfl, h.symm⟩)
      | false => simp [h1, h2] at h

/-- the three ways the local-search loop goes on from a state -/
theorem scanFrom_cases (A : Arith) (c : Cfg) (R : F64) (s : St) (j i : Nat) :
    scanFrom A c R s j i = .cont (.sample 0) (getMinf s) ∨
    (Stop.evals c.maxeval (s.nev : Int) = true ∧ scanFrom A c R s j i = .done 5 (getMinf s)) ∨
    (Stop.evals c.maxeval (s.nev : Int) = false ∧ ∃ j' i', scanFrom A c R s j i = .cont (.loc j' i' R) s) := by
  unfold scanFrom
  cases hf : findCand A c R (s.pts.drop j) i j with
  | none => exact Or.inl rfl
  | some p =>
    obtain ⟨j', i'⟩ := p
    simp only []
    cases he : Stop.evals c.maxeval (s.nev : Int) with
    | true => exact Or.inr (Or.inl ⟨rfl, by simp⟩)
    | false => exact Or.inr (Or.inr ⟨rfl, j', i', by simp⟩)

/-- how the local-search loop goes on when the evaluation limit is not reached: the next pass of the outer loop starts
    (`get_minf`, then a sample), or a local search is due from the same memory -/
def ScanCont (s0 : St) (ph' : Phase) (s' : St) : Prop :=
  (ph' = .sample 0 ∧ s' = getMinf s0) ∨ (∃ j i R, ph' = .loc j i R ∧ s' = s0)

theorem scanFrom_cont {A : Arith} {c : Cfg} {R : F64} {s : St} {j i : Nat} {ph' : Phase} {s' : St}
    (h : scanFrom A c R s j i = .cont ph' s') : ScanCont s ph' s' := by
  rcases scanFrom_cases A c R s j i with h1 | ⟨_, h1⟩ | ⟨_, j', i', h1⟩
  · rw [h1] at h; cases h; exact Or.inl ⟨rfl, rfl⟩
  · rw [h1] at h; cases h
  · rw [h1] at h; cases h; exact Or.inr ⟨j', i', R, rfl, rfl⟩

theorem scanFrom_done {A : Arith} {c : Cfg} {R : F64} {s : St} {j i : Nat} {r : Int} {s' : St}
    (h : scanFrom A c R s j i = .done r s') : Stop.evals c.maxeval (s.nev : Int) = true := by
  rcases scanFrom_cases A c R s j i with h1 | ⟨h0, h1⟩ | ⟨_, j', i', h1⟩
  · rw [h1] at h; cases h
  · exact h0
  · rw [h1] at h; cases h

theorem scanFrom_ne_bad (A : Arith) (c : Cfg) (R : F64) (s : St) (j i : Nat) : scanFrom A c R s j i ≠ .bad := by
  rcases scanFrom_cases A c R s j i with h1 | ⟨_, h1⟩ | ⟨_, j', i', h1⟩ <;> rw [h1] <;> simp

theorem stepInit_cases (c : Cfg) (s : St) (x : List F64) (f : F64) (fo : Bool) :
    (x ≠ c.x0 ∧ stepInit c s x f fo = .bad) ∨
    (x = c.x0 ∧ ∃ r, stopOwn c (s.nev + 1) f fo = some r ∧ stepInit c s x f fo = .done r (getMinf (afterInit s x f))) ∨
    (x = c.x0 ∧ stopOwn c (s.nev + 1) f fo = none ∧ stepInit c s x f fo = .cont (.sample 0) (getMinf (afterInit s x f))) := by
  unfold stepInit
  by_cases hx : x ≠ c.x0
  · exact Or.inl ⟨hx, by simp [hx]⟩
  · have hx' : x = c.x0 := by simpa using hx
    rw [if_neg hx]
    cases hs : stopOwn c (s.nev + 1) f fo with
    | some r => exact Or.inr (Or.inl ⟨hx', r, rfl, rfl⟩)
    | none => exact Or.inr (Or.inr ⟨hx', rfl, rfl⟩)

theorem stepSample_cases (A : Arith) (c : Cfg) (s : St) (i : Nat) (x : List F64) (f : F64) (fo : Bool) :
    (∃ r, stopOwn c (s.nev + 1) f fo = some r ∧ stepSample A c s i x f fo = .done r (getMinf (afterSampleStop s x f))) ∨
    (stopOwn c (s.nev + 1) f fo = none ∧ ((i + 1 : Nat) : Int) < popN c ∧
      stepSample A c s i x f fo = .cont (.sample (i + 1)) (afterSample A s x f)) ∨
    (stopOwn c (s.nev + 1) f fo = none ∧ ¬ ((i + 1 : Nat) : Int) < popN c ∧
      stepSample A c s i x f fo = startLocal A c (afterSample A s x f)) := by
  unfold stepSample
  cases hs : stopOwn c (s.nev + 1) f fo with
  | some r => exact Or.inl ⟨r, rfl, rfl⟩
  | none =>
    simp only []
    by_cases hi : ((i + 1 : Nat) : Int) < popN c
    · exact Or.inr (Or.inl ⟨by first | rfl | trivial, hi, by rw [if_pos hi]⟩)
    · exact Or.inr (Or.inr ⟨by first | rfl | trivial, hi, by rw [if_neg hi]⟩)

theorem stepLoc_cases (A : Arith) (c : Cfg) (s : St) (j i : Nat) (R : F64) (ret : Int) (x0 x : List F64) (f : F64)
    (used : Nat) (fo : Bool) :
    stepLoc A c s j i R ret x0 x f used fo = .bad ∨
    (∃ p, s.pts[j]? = some p ∧ x0 = p.x ∧
      ((ret < 0 ∧ stepLoc A c s j i R ret x0 x f used fo = .done ret (afterSubFail c s j used)) ∨
       (¬ ret < 0 ∧ ∃ r, stopSub c (s.nev + used) f fo = some r ∧
          stepLoc A c s j i R ret x0 x f used fo = .done r (getMinf (afterSubIns c s j x f used))) ∨
       (¬ ret < 0 ∧ stopSub c (s.nev + used) f fo = none ∧
          stepLoc A c s j i R ret x0 x f used fo = scanFrom A c R (afterSubUpd A c s j x f used) (j + 1) (i - 1)))) := by
  unfold stepLoc
  cases hp : s.pts[j]? with
  | none => exact Or.inl rfl
  | some p =>
    simp only []
    by_cases hx : x0 ≠ p.x
    · exact Or.inl (by rw [if_pos hx])
    · have hx' : x0 = p.x := by simpa using hx
      rw [if_neg hx]
      refine Or.inr ⟨p, rfl, hx', ?_⟩
      by_cases hr : ret < 0
      · exact Or.inl ⟨hr, by rw [if_pos hr]⟩
      · rw [if_neg hr]
        cases hs : stopSub c (s.nev + used) f fo with
        | some r => exact Or.inr (Or.inl ⟨hr, r, rfl, rfl⟩)
        | none => exact Or.inr (Or.inr ⟨hr, rfl, rfl⟩)

/-- **Every event after which the driver goes on.** -/
theorem step_cont_shape {A : Arith} {c : Cfg} {ph : Phase} {s : St} {e : Ev} {ph' : Phase} {s' : St}
    (h : step A c ph s e = .cont ph' s') :
    (ph = .init ∧ ∃ x f fo, e = .eval x f fo ∧ x = c.x0 ∧ stopOwn c (s.nev + 1) f fo = none ∧ ph' = .sample 0 ∧
      s' = getMinf (afterInit s x f)) ∨
    (∃ i x f fo, ph = .sample i ∧ e = .eval x f fo ∧ stopOwn c (s.nev + 1) f fo = none ∧
      ((ph' = .sample (i + 1) ∧ s' = afterSample A s x f) ∨ ScanCont (afterSample A s x f) ph' s')) ∨
    (∃ j i R ret x0 x f used fo p, ph = .loc j i R ∧ e = .sub ret x0 x f used fo ∧ s.pts[j]? = some p ∧ x0 = p.x ∧
      ¬ ret < 0 ∧ stopSub c (s.nev + used) f fo = none ∧ ScanCont (afterSubUpd A c s j x f used) ph' s') := by
  cases ph with
  | init =>
    cases e with
    | sub => simp [step] at h
    | eval x f fo =>
      simp only [step] at h
      rcases stepInit_cases c s x f fo with ⟨_, h1⟩ | ⟨_, r, _, h1⟩ | ⟨hx, hs, h1⟩
      · rw [h1] at h; cases h
      · rw [h1] at h; cases h
      · rw [h1] at h; cases h
        exact Or.inl ⟨rfl, x, f, fo, rfl, hx, hs, rfl, rfl⟩
  | sample i =>
    cases e with
    | sub => simp [step] at h
    | eval x f fo =>
      simp only [step] at h
      rcases stepSample_cases A c s i x f fo with ⟨r, _, h1⟩ | ⟨hs, _, h1⟩ | ⟨hs, _, h1⟩
      · rw [h1] at h; cases h
      · rw [h1] at h; cases h
        exact Or.inr (Or.inl ⟨i, x, f, fo, rfl, rfl, hs, Or.inl ⟨rfl, rfl⟩⟩)
      · rw [h1] at h
        exact Or.inr (Or.inl ⟨i, x, f, fo, rfl, rfl, hs, Or.inr (scanFrom_cont h)⟩)
  | loc j i R =>
    cases e with
    | eval => simp [step] at h
    | sub ret x0 x f used fo =>
      simp only [step] at h
      rcases stepLoc_cases A c s j i R ret x0 x f used fo with h1 | ⟨p, hp, hx, ⟨_, h1⟩ | ⟨_, r, _, h1⟩ | ⟨hr, hs, h1⟩⟩
      · rw [h1] at h; cases h
      · rw [h1] at h; cases h
      · rw [h1] at h; cases h
      · rw [h1] at h
        exact Or.inr (Or.inr ⟨j, i, R, ret, x0, x, f, used, fo, p, rfl, rfl, hp, hx, hr, hs, scanFrom_cont h⟩)

/-- **Every event that makes the driver return.**  (The test of line 394 before a local search never fires: the counter
    was tested after the event that precedes it.) -/
theorem step_done_shape {A : Arith} {c : Cfg} {ph : Phase} {s : St} {e : Ev} {r : Int} {s' : St}
    (h : step A c ph s e = .done r s') :
    (ph = .init ∧ ∃ x f fo, e = .eval x f fo ∧ x = c.x0 ∧ stopOwn c (s.nev + 1) f fo = some r ∧
      s' = getMinf (afterInit s x f)) ∨
    (∃ i x f fo, ph = .sample i ∧ e = .eval x f fo ∧ stopOwn c (s.nev + 1) f fo = some r ∧
      s' = getMinf (afterSampleStop s x f)) ∨
    (∃ j i R ret x0 x f used fo p, ph = .loc j i R ∧ e = .sub ret x0 x f used fo ∧ s.pts[j]? = some p ∧ x0 = p.x ∧
      ((ret < 0 ∧ r = ret ∧ s' = afterSubFail c s j used) ∨
       (¬ ret < 0 ∧ stopSub c (s.nev + used) f fo = some r ∧ s' = getMinf (afterSubIns c s j x f used)))) := by
  cases ph with
  | init =>
    cases e with
    | sub => simp [step] at h
    | eval x f fo =>
      simp only [step] at h
      rcases stepInit_cases c s x f fo with ⟨_, h1⟩ | ⟨hx, r', hs, h1⟩ | ⟨_, _, h1⟩
      · rw [h1] at h; cases h
      · rw [h1] at h; cases h
        exact Or.inl ⟨rfl, x, f, fo, rfl, hx, hs, rfl⟩
      · rw [h1] at h; cases h
  | sample i =>
    cases e with
    | sub => simp [step] at h
    | eval x f fo =>
      simp only [step] at h
      rcases stepSample_cases A c s i x f fo with ⟨r', hs, h1⟩ | ⟨_, _, h1⟩ | ⟨hs, _, h1⟩
      · rw [h1] at h; cases h
        exact Or.inr (Or.inl ⟨i, x, f, fo, rfl, rfl, hs, rfl⟩)
      · rw [h1] at h; cases h
      · rw [h1] at h
        have := scanFrom_done h
        rw [afterSample_nev, (stopOwn_none hs).2.1] at this
        cases this
  | loc j i R =>
    cases e with
    | eval => simp [step] at h
    | sub ret x0 x f used fo =>
      simp only [step] at h
      rcases stepLoc_cases A c s j i R ret x0 x f used fo with h1 | ⟨p, hp, hx, ⟨hr, h1⟩ | ⟨hr, r', hs, h1⟩ | ⟨hr, hs, h1⟩⟩
      · rw [h1] at h; cases h
      · rw [h1] at h
        have h2 := Next.done.inj h
        exact Or.inr (Or.inr ⟨j, i, R, ret, x0, x, f, used, fo, p, rfl, rfl, hp, hx, Or.inl ⟨hr, h2.1.symm, h2.2.symm⟩⟩)
      · rw [h1] at h; cases h
        exact Or.inr (Or.inr ⟨j, i, R, ret, x0, x, f, used, fo, p, rfl, rfl, hp, hx, Or.inr ⟨hr, hs, rfl⟩⟩)
      · rw [h1] at h
        have := scanFrom_done h
        rw [afterSubUpd_nev, (stopSub_none hs).2.1] at this
        cases this

/-! ## the loop -/

/-- Induction principle of `go`: a predicate on (consumed events, phase, memory) that survives every event after which
    the driver goes on holds when the events run out, or holds just before the event that ends the run. -/
theorem go_induct (A : Arith) (c : Cfg) (P : List Ev → Phase → St → Prop)
    (hp : ∀ done ph s e ph' s', P done ph s → step A c ph s e = .cont ph' s' → P (done ++ [e]) ph' s') :
    ∀ (evs done : List Ev) (ph : Phase) (s : St), P done ph s →
      (∃ ph' s', P (done ++ evs) ph' s' ∧ go A c ph s evs = s'.res 0 true false) ∨
      (∃ pre e rest php sp, evs = pre ++ e :: rest ∧ P (done ++ pre) php sp ∧
        ((∃ r s', step A c php sp e = .done r s' ∧ go A c ph s evs = s'.res r false false) ∨
         (step A c php sp e = .bad ∧ go A c ph s evs = sp.res 0 false true))) := by
  intro evs
  induction evs with
  | nil => intro done ph s h; exact Or.inl ⟨ph, s, by simpa using h, rfl⟩
  | cons e es ih =>
    intro done ph s h
    cases hv : step A c ph s e with
    | done r s' =>
      refine Or.inr ⟨[], e, es, ph, s, rfl, by simpa using h, Or.inl ⟨r, s', hv, ?_⟩⟩
      simp [go, hv]
    | bad =>
      refine Or.inr ⟨[], e, es, ph, s, rfl, by simpa using h, Or.inr ⟨hv, ?_⟩⟩
      simp [go, hv]
    | cont ph' s' =>
      have h1 := hp done ph s e ph' s' h hv
      have hgo : go A c ph s (e :: es) = go A c ph' s' es := by simp [go, hv]
      rcases ih (done ++ [e]) ph' s' h1 with ⟨ph2, s2, hs', hg⟩ | ⟨pre, e', rest, php, sp, hes, hP, hfin⟩
      · exact Or.inl ⟨ph2, s2, by simpa using hs', by rw [hgo, hg]⟩
      · refine Or.inr ⟨e :: pre, e', rest, php, sp, by simp [hes], by simpa using hP, ?_⟩
        rcases hfin with ⟨r, s2, h2, h3⟩ | ⟨h2, h3⟩
        · exact Or.inl ⟨r, s2, h2, by rw [hgo, h3]⟩
        · exact Or.inr ⟨h2, by rw [hgo, h3]⟩

/-- consume a list of events as long as the driver goes on -/
def advance (A : Arith) (c : Cfg) : Phase → St → List Ev → Option (Phase × St)
  | ph, s, [] => some (ph, s)
  | ph, s, e :: es =>
    match step A c ph s e with
    | .cont ph' s' => advance A c ph' s' es
    | _ => none

/-- a `short` run consumed all its events with the driver going on, and goes on from there -/
theorem go_short_advance (A : Arith) (c : Cfg) : ∀ (pre : List Ev) (ph : Phase) (s : St),
    (go A c ph s pre).short = true →
    ∃ ph' s', advance A c ph s pre = some (ph', s') ∧ go A c ph s pre = s'.res 0 true false ∧
      ∀ rest, go A c ph s (pre ++ rest) = go A c ph' s' rest := by
  intro pre
  induction pre with
  | nil => intro ph s _; exact ⟨ph, s, rfl, rfl, fun _ => rfl⟩
  | cons e es ih =>
    intro ph s h
    cases hv : step A c ph s e with
    | done r s' => simp [go, hv, St.res] at h
    | bad => simp [go, hv, St.res] at h
    | cont ph1 s1 =>
      simp only [go, hv] at h
      obtain ⟨ph', s', h1, h2, h3⟩ := ih ph1 s1 h
      exact ⟨ph', s', by simp [advance, hv, h1], by simp [go, hv, h2], fun rest => by simp [go, hv, h3]⟩

/-! ## the master invariant -/

/-- the invariant of every state in which the driver waits for an event: `Core`, and the evaluation limit is not reached
    (every event is followed by a test of the counter) -/
def Master (c : Cfg) (done : List Ev) (s : St) : Prop := Core c done s ∧ Stop.evals c.maxeval (s.nev : Int) = false

theorem master_start (c : Cfg) : Master c [] (St.init c) := ⟨core_init c, evals_zero _⟩

theorem core_afterInit {c : Cfg} {done : List Ev} {s : St} (h : Core c done s) (x : List F64) (f : F64) (fo : Bool) :
    Core c (done ++ [.eval x f fo]) (afterInit s x f) :=
  core_eval h x f fo rfl rfl (afterInit_PL s x f) rfl rfl rfl rfl

theorem core_afterSampleStop {c : Cfg} {done : List Ev} {s : St} (h : Core c done s) (x : List F64) (f : F64) (fo : Bool) :
    Core c (done ++ [.eval x f fo]) (afterSampleStop s x f) :=
  core_eval h x f fo rfl rfl (afterSampleStop_PL s x f) rfl rfl rfl rfl

theorem core_afterSample {A : Arith} {c : Cfg} {done : List Ev} {s : St} (h : Core c done s) (x : List F64) (f : F64)
    (fo : Bool) : Core c (done ++ [.eval x f fo]) (afterSample A s x f) :=
  core_eval h x f fo rfl rfl (afterSample_PL A s x f) rfl rfl rfl rfl

theorem core_afterSubFail {c : Cfg} {done : List Ev} {s : St} (h : Master c done s) (j : Nat) (ret : Int)
    (x0 x : List F64) (f : F64) (used : Nat) (fo : Bool) (hret : ret < 0) :
    Core c (done ++ [.sub ret x0 x f used fo]) (afterSubFail c s j used) :=
  core_subFail h.1 ret x0 x f used fo hret h.2 rfl rfl (afterSubFail_PL c s j used) rfl rfl rfl rfl

theorem core_afterSubIns {c : Cfg} {done : List Ev} {s : St} (h : Master c done s) (j : Nat) (ret : Int)
    (x0 x : List F64) (f : F64) (used : Nat) (fo : Bool) (hret : ¬ ret < 0) :
    Core c (done ++ [.sub ret x0 x f used fo]) (afterSubIns c s j x f used) :=
  core_subIns h.1 ret x0 x f used fo hret h.2 rfl rfl (afterSubIns_PL c s j x f used) (afterSubIns_LL c s j x f used)
    rfl rfl rfl

theorem core_afterSubUpd {A : Arith} {c : Cfg} {done : List Ev} {s : St} (h : Master c done s) (j : Nat) (ret : Int)
    (x0 x : List F64) (f : F64) (used : Nat) (fo : Bool) (hret : ¬ ret < 0) :
    Core c (done ++ [.sub ret x0 x f used fo]) (afterSubUpd A c s j x f used) :=
  core_subIns h.1 ret x0 x f used fo hret h.2 rfl rfl (afterSubUpd_PL A c s j x f used)
    (afterSubUpd_LL A c s j x f used) rfl rfl rfl

theorem master_scanCont {c : Cfg} {done : List Ev} {s0 : St} {ph' : Phase} {s' : St} (h : Master c done s0)
    (hs : ScanCont s0 ph' s') : Master c done s' := by
  rcases hs with ⟨_, hs⟩ | ⟨_, _, _, _, hs⟩
  · subst hs; exact ⟨core_getMinf h.1, by simpa using h.2⟩
  · subst hs; exact h

theorem master_step {A : Arith} {c : Cfg} {done : List Ev} {ph : Phase} {s : St} {e : Ev} {ph' : Phase} {s' : St}
    (h : Master c done s) (hs : step A c ph s e = .cont ph' s') : Master c (done ++ [e]) s' := by
  rcases step_cont_shape hs with ⟨_, x, f, fo, he, _, hst, _, hs'⟩ | ⟨i, x, f, fo, _, he, hst, hh⟩ |
    ⟨j, i, R, ret, x0, x, f, used, fo, p, _, he, _, _, hr, hst, hh⟩
  · subst he; subst hs'
    exact ⟨core_getMinf (core_afterInit h.1 x f fo), by simpa using (stopOwn_none hst).2.1⟩
  · subst he
    have hm : Master c (done ++ [.eval x f fo]) (afterSample A s x f) :=
      ⟨core_afterSample h.1 x f fo, by simpa using (stopOwn_none hst).2.1⟩
    rcases hh with ⟨_, hs'⟩ | hh
    · subst hs'; exact hm
    · exact master_scanCont hm hh
  · subst he
    have hm : Master c (done ++ [.sub ret x0 x f used fo]) (afterSubUpd A c s j x f used) :=
      ⟨core_afterSubUpd h j ret x0 x f used fo hr, by simpa using (stopSub_none hst).2.1⟩
    exact master_scanCont hm hh

/-- the memory after the event that makes the driver return satisfies `Core` on all consumed events -/
theorem core_done {A : Arith} {c : Cfg} {done : List Ev} {ph : Phase} {s : St} {e : Ev} {r : Int} {s' : St}
    (h : Master c done s) (hs : step A c ph s e = .done r s') : Core c (done ++ [e]) s' := by
  rcases step_done_shape hs with ⟨_, x, f, fo, he, _, _, hs'⟩ | ⟨i, x, f, fo, _, he, _, hs'⟩ |
    ⟨j, i, R, ret, x0, x, f, used, fo, p, _, he, _, _, ⟨hr, _, hs'⟩ | ⟨hr, _, hs'⟩⟩
  · subst he; subst hs'; exact core_getMinf (core_afterInit h.1 x f fo)
  · subst he; subst hs'; exact core_getMinf (core_afterSampleStop h.1 x f fo)
  · subst he; subst hs'; exact core_afterSubFail h j ret x0 x f used fo hr
  · subst he; subst hs'; exact core_getMinf (core_afterSubIns h j ret x0 x f used fo hr)

end Nlopt.MlslDrv
