import NloptModel.Lemmas.ApiView
/-! World-level plumbing: slots, `onCore`, and the lifting of per-function facts to `applyOp`. -/
set_option linter.unusedSimpArgs false
set_option linter.unusedVariables false
namespace Nlopt

theorem World.get_set (w : World) (j : Nat) (x : Option Obj) (i : Nat) :
    (w.set j x).get (some i) = if i = j ∧ j < w.slots.length then x else w.get (some i) := by
  simp only [World.get, World.set, List.getD_eq_getElem?_getD, List.getElem?_set]
  by_cases h : j = i
  · subst h
    by_cases hl : j < w.slots.length
    · simp [hl]
    · simp [hl]
  · have : ¬ (i = j) := fun e => h e.symm
    simp [h, this]

theorem World.get_some_lt {w : World} {j : Nat} {o : Obj} (h : w.get (some j) = some o) :
    j < w.slots.length := by
  simp only [World.get, List.getD_eq_getElem?_getD] at h
  by_cases hl : j < w.slots.length
  · exact hl
  · simp [List.getElem?_eq_none (Nat.le_of_not_lt hl)] at h

@[simp] theorem World.get_as (w : World) (s : AS) (i : Option Nat) : ({ w with as := s } : World).get i = w.get i := by
  cases i <;> rfl

@[simp] theorem World.set_slots_length (w : World) (j : Nat) (x : Option Obj) :
    (w.set j x).slots.length = w.slots.length := by simp [World.set]

/-- views of all slots -/
def World.views (w : World) (i : Nat) : Option (List CoreView) := (w.get (some i)).map Obj.view

theorem onCore_views (w : World) (slot : Option Nat) (nr : Int) (f : AS → Core → AS × Core × Int)
    (hf : ∀ s c, (f s c).2.2 < 0 → (f s c).2.1.view = c.view)
    (r : Int) (hr : (onCore w slot nr f).2.1 = .code r) (hneg : r < 0) (i : Nat) :
    (onCore w slot nr f).1.views i = w.views i := by
  unfold onCore at *
  cases slot with
  | none => simp
  | some j =>
    cases hg : w.get (some j) with
    | none => simp [hg]
    | some o =>
      simp only [hg] at hr ⊢
      have hlt := World.get_some_lt hg
      simp only [World.views, World.get_set, World.get_as]
      by_cases hij : i = j
      · subst hij
        simp only [hlt, and_self, if_true, hg, Option.map_some]
        congr 1
        simp only [Obj.view, Obj.chain, List.map_cons]
        congr 1
        apply hf
        simp only [Ret.code.injEq] at hr
        rw [hr]; exact hneg
      · simp [hij]

theorem onCoreOut_views (w : World) (slot : Option Nat) (f : AS → Core → AS × Core × Int × List F64)
    (hf : ∀ s c, (f s c).2.1.view = c.view) (i : Nat) :
    (onCoreOut w slot f).1.views i = w.views i := by
  unfold onCoreOut
  cases slot with
  | none => simp
  | some j =>
    cases hg : w.get (some j) with
    | none => simp [hg]
    | some o =>
      simp only [hg]
      have hlt := World.get_some_lt hg
      simp only [World.views, World.get_set, World.get_as]
      by_cases hij : i = j
      · subst hij
        simp only [hlt, and_self, if_true, hg, Option.map_some]
        congr 1
        simp only [Obj.view, Obj.chain, List.map_cons]
        congr 1
        apply hf
      · simp [hij]

end Nlopt

namespace Nlopt

theorem setLocalOptimizer_fail (A : Arith) (s : AS) (o : Obj) (lo : Option Obj)
    (h : (setLocalOptimizer A s o lo).2.2 < 0) : (setLocalOptimizer A s o lo).2.1.view = o.view := by
  unfold setLocalOptimizer at *
  cases lo with
  | none => simp [rSUCCESS] at h
  | some l =>
    simp only [] at h ⊢
    by_cases hn : l.core.n ≠ (unsetErrmsg s o.core).2.n
    · rw [if_pos hn]; simp [Obj.view, Obj.chain]
    · rw [if_neg hn] at h ⊢
      generalize copyChain (unsetErrmsg s o.core).1 l.chain = r at *
      obtain ⟨s', ch⟩ := r
      cases ch with
      | none => simp [Obj.view, Obj.chain]
      | some ch =>
        cases ch with
        | nil => simp [Obj.view, Obj.chain]
        | cons nl nrest => simp [rSUCCESS] at h

end Nlopt
