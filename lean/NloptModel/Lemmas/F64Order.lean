import NloptModel.Model.F64
/-! Order facts about `F64`, all proved from the bit-level definitions (no `Arith`). -/
namespace Nlopt.F64

theorem le_refl_of_not_nan {a : F64} (h : a.isNaN = false) : le a a = true := by
  simp [le, h]

theorem le_trans' {a b c : F64} (h1 : le a b = true) (h2 : le b c = true) : le a c = true := by
  simp [le] at *
  obtain ⟨⟨ha, hb⟩, hab⟩ := h1
  obtain ⟨⟨_, hc⟩, hbc⟩ := h2
  exact ⟨⟨ha, hc⟩, by omega⟩

theorem le_total_of_not_nan {a b : F64} (ha : a.isNaN = false) (hb : b.isNaN = false) :
    le a b = true ∨ le b a = true := by
  simp [le, ha, hb]; omega

theorem lt_iff_not_le {a b : F64} (ha : a.isNaN = false) (hb : b.isNaN = false) :
    lt a b = true ↔ le b a = false := by
  simp [lt, le, ha, hb]

theorem le_of_lt {a b : F64} (h : lt a b = true) : le a b = true := by
  simp [lt, le] at *
  obtain ⟨h1, h2⟩ := h
  exact ⟨h1, by omega⟩

theorem lt_irrefl' (a : F64) : lt a a = false := by
  simp [lt]

theorem le_of_not_nan_of_not_lt {a b : F64} (ha : a.isNaN = false) (hb : b.isNaN = false)
    (h : lt a b = false) : le b a = true := by
  simp [lt, le, ha, hb] at *; omega

/-- Anything that compares `le` with something is not NaN. -/
theorem not_nan_of_le_left {a b : F64} (h : le a b = true) : a.isNaN = false := by
  simp [le] at h; exact h.1.1
theorem not_nan_of_le_right {a b : F64} (h : le a b = true) : b.isNaN = false := by
  simp [le] at h; exact h.1.2

/-- The C clamp `x < lo ? lo : (x > hi ? hi : x)` lands in the box, for EVERY non-NaN `x`
    and every `lo ≤ hi` (infinite bounds included). -/
theorem clamp_inBox {lo hi x : F64} (hb : le lo hi = true) (hx : x.isNaN = false) :
    inBox1 lo hi (clamp lo hi x) = true := by
  have hlo := not_nan_of_le_left hb
  have hhi := not_nan_of_le_right hb
  unfold clamp inBox1
  by_cases h1 : lt x lo = true
  · simp [h1, hb, le_refl_of_not_nan hlo]
  · have h1' : lt x lo = false := by simpa using h1
    simp [h1']
    by_cases h2 : gt x hi = true
    · simp [h2, hb, le_refl_of_not_nan hhi]
    · have h2' : gt x hi = false := by simpa using h2
      simp [h2']
      exact ⟨le_of_not_nan_of_not_lt hx hlo h1', le_of_not_nan_of_not_lt hhi hx h2'⟩

/-- `MIN(MAX(lo, x), hi)` lands in the box. -/
theorem cmin_cmax_inBox {lo hi x : F64} (hb : le lo hi = true) (hx : x.isNaN = false) :
    inBox1 lo hi (cmin (cmax lo x) hi) = true := by
  have hlo := not_nan_of_le_left hb
  have hhi := not_nan_of_le_right hb
  unfold cmin cmax inBox1 gt
  by_cases h1 : lt x lo = true
  · simp [h1]
    by_cases h2 : lt lo hi = true
    · simp [h2, le_refl_of_not_nan hlo, hb]
    · have : lt lo hi = false := by simpa using h2
      simp [this, hb, le_refl_of_not_nan hhi]
  · have h1' : lt x lo = false := by simpa using h1
    simp [h1']
    by_cases h2 : lt x hi = true
    · simp [h2]; exact ⟨le_of_not_nan_of_not_lt hx hlo h1', le_of_lt h2⟩
    · have : lt x hi = false := by simpa using h2
      simp [this, hb, le_refl_of_not_nan hhi]

/-- A value inside a degenerate box `[b,b]` is IEEE-equal to `b`. -/
theorem inBox_degenerate {b x : F64} (h : inBox1 b b x = true) : feq x b = true := by
  simp [inBox1, le, feq] at *
  obtain ⟨⟨⟨hb, hx⟩, h1⟩, ⟨_, h2⟩⟩ := h
  exact ⟨⟨hx, hb⟩, by omega⟩

theorem toNat_lt (a : F64) : a.bits.toNat < 18446744073709551616 := a.bits.toNat_lt

theorem neg_bits_toNat (a : F64) : (neg a).bits.toNat =
    if a.bits.toNat < 9223372036854775808 then a.bits.toNat + 9223372036854775808
    else a.bits.toNat - 9223372036854775808 := by
  have := toNat_lt a
  simp only [neg, UInt64.toNat_ofNat']
  split <;> omega

theorem ext_toNat {a b : F64} (h : a.bits.toNat = b.bits.toNat) : a = b := by
  cases a; cases b; simp only [] at h; congr 1; exact UInt64.toNat_inj.mp h

theorem neg_neg' (a : F64) : neg (neg a) = a := by
  apply ext_toNat
  have := toNat_lt a
  rw [neg_bits_toNat, neg_bits_toNat]
  generalize a.bits.toNat = k at *
  split <;> split at * <;> omega

theorem mag_neg (a : F64) : (neg a).mag = a.mag := by
  have := toNat_lt a
  simp only [mag, neg_bits_toNat]; split <;> omega

theorem sign_neg (a : F64) : (neg a).sign = !a.sign := by
  have := toNat_lt a
  simp only [sign, neg_bits_toNat]
  generalize a.bits.toNat = k at *
  by_cases h : k < 9223372036854775808
  · simp only [h, if_true]
    have h1 : decide (9223372036854775808 ≤ k + 9223372036854775808) = true := by simp
    have h2 : decide (9223372036854775808 ≤ k) = false := by simp; omega
    rw [h1, h2]; rfl
  · simp only [h, if_false]
    have h1 : decide (9223372036854775808 ≤ k - 9223372036854775808) = false := by simp; omega
    have h2 : decide (9223372036854775808 ≤ k) = true := by simp; omega
    rw [h1, h2]; rfl

theorem isNaN_neg (a : F64) : (neg a).isNaN = a.isNaN := by simp [isNaN, mag_neg]
theorem isInf_neg (a : F64) : (neg a).isInf = a.isInf := by simp [isInf, mag_neg]

theorem key_neg (a : F64) : (neg a).key = - a.key := by
  simp only [key, mag_neg, sign_neg]
  cases a.sign <;> simp

/-- C: `-a < -b` iff `b < a`. -/
theorem lt_neg_neg (a b : F64) : lt (neg a) (neg b) = lt b a := by
  simp only [lt, isNaN_neg, key_neg]
  cases a.isNaN <;> cases b.isNaN <;> simp <;> omega

theorem le_neg_neg (a b : F64) : le (neg a) (neg b) = le b a := by
  simp only [le, isNaN_neg, key_neg]
  cases a.isNaN <;> cases b.isNaN <;> simp <;> omega

theorem feq_neg_neg (a b : F64) : feq (neg a) (neg b) = feq a b := by
  simp only [feq, isNaN_neg, key_neg]
  cases a.isNaN <;> cases b.isNaN <;> simp <;> omega

end Nlopt.F64
