import NloptModel.Model.Wrap
import NloptModel.Lemmas.F64Order
import NloptModel.Generated.AlgLists
/-!
  Lemmas about the wrapper-layer model (`Model/Wrap.lean`): generic facts about `runAlg`
  (invariants, query predicates, conditional simulation), list facts about `shrink` / `expand`,
  the unfolding of `optimize` into "early rejection / inner call / assembly", and the memo fold.
-/
set_option linter.unusedSimpArgs false
set_option linter.unusedVariables false
namespace Nlopt

/-! ## element-wise relation of two lists (core has no `Forall₂`) -/

inductive AllRel {α β : Type} (R : α → β → Prop) : List α → List β → Prop
  | nil : AllRel R [] []
  | cons {a b as bs} : R a b → AllRel R as bs → AllRel R (a :: as) (b :: bs)

namespace AllRel
variable {α β : Type} {R : α → β → Prop}

theorem length_eq {l₁ : List α} {l₂ : List β} (h : AllRel R l₁ l₂) : l₁.length = l₂.length := by
  induction h with
  | nil => rfl
  | cons _ _ ih => simp [ih]

theorem snoc {l₁ : List α} {l₂ : List β} {a b} (h : AllRel R l₁ l₂) (hab : R a b) :
    AllRel R (l₁ ++ [a]) (l₂ ++ [b]) := by
  induction h with
  | nil => exact .cons hab .nil
  | cons h1 _ ih => exact .cons h1 ih

theorem single {a : α} {b : β} (hab : R a b) : AllRel R [a] [b] := .cons hab .nil

theorem get {l₁ : List α} {l₂ : List β} (h : AllRel R l₁ l₂) :
    ∀ (i : Nat) a b, l₁[i]? = some a → l₂[i]? = some b → R a b := by
  induction h with
  | nil => intro i a b h1; simp at h1
  | cons h1 _ ih =>
    intro i a b ha hb
    cases i with
    | zero => simp at ha hb; subst ha; subst hb; exact h1
    | succ i => simp at ha hb; exact ih i a b ha hb

theorem mono {S : α → β → Prop} {l₁ : List α} {l₂ : List β} (h : AllRel R l₁ l₂)
    (hRS : ∀ a b, a ∈ l₁ → b ∈ l₂ → R a b → S a b) : AllRel S l₁ l₂ := by
  induction h with
  | nil => exact .nil
  | cons h1 _ ih =>
    refine .cons (hRS _ _ (by simp) (by simp) h1) (ih ?_)
    intro a b ha hb; exact hRS a b (by simp [ha]) (by simp [hb])

/-- everything on the left satisfies what the relation implies -/
theorem left_forall {P : α → Prop} {l₁ : List α} {l₂ : List β} (h : AllRel R l₁ l₂)
    (hP : ∀ a b, R a b → P a) : ∀ a ∈ l₁, P a := by
  induction h with
  | nil => intro a ha; simp at ha
  | cons h1 _ ih =>
    intro a ha
    simp at ha
    rcases ha with rfl | ha
    · exact hP _ _ h1
    · exact ih a ha

theorem right_forall {P : β → Prop} {l₁ : List α} {l₂ : List β} (h : AllRel R l₁ l₂)
    (hP : ∀ a b, R a b → P b) : ∀ b ∈ l₂, P b := by
  induction h with
  | nil => intro a ha; simp at ha
  | cons h1 _ ih =>
    intro a ha
    simp at ha
    rcases ha with rfl | ha
    · exact hP _ _ h1
    · exact ih a ha

/-- when the relation is functional from left to right, the right list is a `map` of the left one -/
theorem eq_map {f : α → β} {l₁ : List α} {l₂ : List β} (h : AllRel (fun a b => b = f a) l₁ l₂) :
    l₂ = l₁.map f := by
  induction h with
  | nil => rfl
  | cons h1 _ ih => simp [h1, ih]

end AllRel

/-! ## generic facts about `runAlg` -/

/-- every query the machine can ever issue (from any state) satisfies `P` -/
def Alg.queriesSat (A : Alg) (P : Query → Prop) : Prop :=
  ∀ s a s' q, A.step s a = (s', .inl q) → P q

/-- Invariant lemma: a predicate on (environment state, trace so far) that every call preserves holds at the end. -/
theorem runAlg_inv {σ : Type} (A : Alg) (E : Env σ) (J : σ → List (Query × Answer) → Prop)
    (hJ : ∀ s tr q, J s tr → J (E.call s q).1 (tr ++ [(q, (E.call s q).2)])) :
    ∀ fuel sA a s tr, J s tr → J (runAlg A E fuel sA a s tr).2.1 (runAlg A E fuel sA a s tr).2.2 := by
  intro fuel
  induction fuel with
  | zero => intro sA a s tr h; exact h
  | succ n ih =>
    intro sA a s tr h
    unfold runAlg
    cases hstep : A.step sA a with
    | mk s' out =>
      cases out with
      | inr r => exact h
      | inl q => exact ih s' _ _ _ (hJ s tr q h)

/-- Invariant lemma restricted to the queries the machine can issue. -/
theorem runAlg_inv_on {σ : Type} (A : Alg) (E : Env σ) (P : Query → Prop) (hA : A.queriesSat P)
    (J : σ → List (Query × Answer) → Prop)
    (hJ : ∀ s tr q, P q → J s tr → J (E.call s q).1 (tr ++ [(q, (E.call s q).2)])) :
    ∀ fuel sA a s tr, J s tr → J (runAlg A E fuel sA a s tr).2.1 (runAlg A E fuel sA a s tr).2.2 := by
  intro fuel
  induction fuel with
  | zero => intro sA a s tr h; exact h
  | succ n ih =>
    intro sA a s tr h
    unfold runAlg
    cases hstep : A.step sA a with
    | mk s' out =>
      cases out with
      | inr r => exact h
      | inl q => exact ih s' _ _ _ (hJ s tr q (hA _ _ _ _ hstep) h)

/-- state-only invariant -/
theorem runAlg_inv_state {σ : Type} (A : Alg) (E : Env σ) (I : σ → Prop)
    (hI : ∀ s q, I s → I (E.call s q).1) (fuel : Nat) (sA : A.S) (a : Option Answer) (s : σ)
    (tr : List (Query × Answer)) (h : I s) : I (runAlg A E fuel sA a s tr).2.1 :=
  runAlg_inv A E (fun s _ => I s) (fun s _ q h => hI s q h) fuel sA a s tr h

/-- every query in the trace of a run satisfies what every issued query satisfies -/
theorem runAlg_queries {σ : Type} (A : Alg) (E : Env σ) (P : Query → Prop) (hA : A.queriesSat P)
    (fuel : Nat) (sA : A.S) (a : Option Answer) (s : σ) (tr : List (Query × Answer))
    (h : ∀ p ∈ tr, P p.1) : ∀ p ∈ (runAlg A E fuel sA a s tr).2.2, P p.1 := by
  refine runAlg_inv_on A E P hA (fun _ tr => ∀ p ∈ tr, P p.1) ?_ fuel sA a s tr h
  intro s tr q hq h p hp
  simp at hp
  rcases hp with hp | rfl
  · exact h p hp
  · exact hq

/-- Simulation lemma for machines whose queries all satisfy `P`: the two environments need to agree on
    such queries only. -/
theorem runAlg_sim_on {σ τ : Type} (A : Alg) (E₁ : Env σ) (E₂ : Env τ) (P : Query → Prop)
    (hA : A.queriesSat P) (R : σ → τ → Prop)
    (h : ∀ s t q, P q → R s t → (E₁.call s q).2 = (E₂.call t q).2 ∧ R (E₁.call s q).1 (E₂.call t q).1) :
    ∀ fuel sA a s t tr, R s t →
      (runAlg A E₁ fuel sA a s tr).1 = (runAlg A E₂ fuel sA a t tr).1 ∧
      (runAlg A E₁ fuel sA a s tr).2.2 = (runAlg A E₂ fuel sA a t tr).2.2 ∧
      R (runAlg A E₁ fuel sA a s tr).2.1 (runAlg A E₂ fuel sA a t tr).2.1 := by
  intro fuel
  induction fuel with
  | zero => intro sA a s t tr hR; exact ⟨rfl, rfl, hR⟩
  | succ n ih =>
    intro sA a s t tr hR
    unfold runAlg
    cases hstep : A.step sA a with
    | mk s' out =>
      cases out with
      | inr r => exact ⟨rfl, rfl, hR⟩
      | inl q =>
        have hq := h s t q (hA _ _ _ _ hstep) hR
        simp only []
        rw [hq.1]
        exact ih s' _ _ _ _ hq.2

/-! ## `optimize` = early rejection / inner call / assembly -/

/-- the problem handed to the algorithm (hook fields normalised, counter reset) -/
def innerProb (caps : WrapCaps) (v : CoreView) (x : List F64) : Prob :=
  let L := layersOf caps v
  { v := { innerView v L.maximize L.elim with numevals := 0, mungeD := false, mungeC := false },
    x0 := if L.elim then shrink L.lb L.ub x else x }

/-- the start point handed to `nlopt_optimize_` -/
def innerX (caps : WrapCaps) (v : CoreView) (x : List F64) : List F64 :=
  if (layersOf caps v).elim then shrink (layersOf caps v).lb (layersOf caps v).ub x else x

/-- the call of `nlopt_optimize_` made by `nlopt_optimize` -/
def innerRun {σ : Type} (A : Arith) (caps : WrapCaps) (U : Env σ) (mk : Prob → Alg) (fuel : Nat)
    (v : CoreView) (hasLocal : Bool) (x : List F64) (optf0 : F64) (st : σ) :
    Option InnerOut × ((σ × List (Query × Answer)) × MemoSt) × Bool :=
  optimizeInner A caps (wrappedEnv (layersOf caps v) U) mk fuel
    (innerView v (layersOf caps v).maximize (layersOf caps v).elim) hasLocal (innerX caps v x) optf0
    ((st, []), ({} : MemoSt))

/-- the run of the algorithm itself inside that call (meaningful when the call gets that far) -/
def algRun {σ : Type} (caps : WrapCaps) (U : Env σ) (mk : Prob → Alg) (fuel : Nat)
    (v : CoreView) (x : List F64) (st : σ) :
    Option AlgResult × ((σ × List (Query × Answer)) × MemoSt) × List (Query × Answer) :=
  run (mk (innerProb caps v x)) (wrappedEnv (layersOf caps v) U) fuel ((st, []), ({} : MemoSt))

/-- the `done:` epilogue: what `nlopt_optimize` hands back given the inner result, the user trace and the memo -/
def assemble (caps : WrapCaps) (v : CoreView) (io : InnerOut) (ut : List (Query × Answer)) (memo : MemoSt) : OptOut :=
  let L := layersOf caps v
  let x1 := if L.elim then expand L.lb L.ub io.x else io.x
  let xf := if L.memo && F64.lt memo.minf F64.dblMax then (memo.bestx.getD x1, memo.minf) else (x1, io.minf)
  { ret := io.ret, x := xf.1, optf := if L.maximize then xf.2.neg else xf.2,
    after := { v with numevals := io.numevals, forceStop := lastStop ut },
    utrace := ut, atrace := io.atrace }

/-- the second early rejection -/
def earlyFixed (caps : WrapCaps) (v : CoreView) (x : List F64) : Bool :=
  (layersOf caps v).elim && fixedCoordFail (layersOf caps v).lb (layersOf caps v).ub x

theorem optimize_nof {σ : Type} (A : Arith) (caps : WrapCaps) (U : Env σ) (mk : Prob → Alg) (fuel : Nat)
    (v : CoreView) (hl : Bool) (x : List F64) (f0 : F64) (st : σ) (hf : v.f = 0) :
    optimize A caps U mk fuel v hl x f0 st =
      (some { ret := rINVALID, x := x, optf := f0, after := v, utrace := [] }, st) := by
  simp [optimize, hf]

theorem optimize_earlyFixed {σ : Type} (A : Arith) (caps : WrapCaps) (U : Env σ) (mk : Prob → Alg) (fuel : Nat)
    (v : CoreView) (hl : Bool) (x : List F64) (f0 : F64) (st : σ) (hf : v.f ≠ 0)
    (he : earlyFixed caps v x = true) :
    optimize A caps U mk fuel v hl x f0 st =
      (some { ret := rINVALID, x := x, optf := f0, after := { v with forceStop := 0 }, utrace := [] }, st) := by
  unfold earlyFixed at he
  simp only [optimize, hf, if_false, he, if_true]

theorem optimize_main {σ : Type} (A : Arith) (caps : WrapCaps) (U : Env σ) (mk : Prob → Alg) (fuel : Nat)
    (v : CoreView) (hl : Bool) (x : List F64) (f0 : F64) (st : σ) (hf : v.f ≠ 0)
    (he : earlyFixed caps v x = false) :
    optimize A caps U mk fuel v hl x f0 st =
      match (innerRun A caps U mk fuel v hl x f0 st).1 with
      | none => (none, (innerRun A caps U mk fuel v hl x f0 st).2.1.1.1)
      | some io => (some (assemble caps v io (innerRun A caps U mk fuel v hl x f0 st).2.1.1.2
                      (innerRun A caps U mk fuel v hl x f0 st).2.1.2),
                    (innerRun A caps U mk fuel v hl x f0 st).2.1.1.1) := by
  unfold earlyFixed at he
  simp only [optimize, hf, if_false, he]
  unfold innerRun innerX
  generalize optimizeInner A caps (wrappedEnv (layersOf caps v) U) mk fuel
            (innerView v (layersOf caps v).maximize (layersOf caps v).elim) hl
            (if (layersOf caps v).elim = true then shrink (layersOf caps v).lb (layersOf caps v).ub x else x) f0
            ((st, []), { }) = r
  rcases r with ⟨_ | io, s, b⟩
  · simp
  · simp only [Bool.false_eq_true, if_false, assemble]
    have hm : (layersOf caps v).maximize = v.maximize := rfl
    cases hmx : v.maximize <;> simp [hm, hmx, F64.neg_neg']

/-- the three argument checks of `nlopt_optimize_` that come after the `n = 0` shortcut -/
def rejectInner (A : Arith) (caps : WrapCaps) (v : CoreView) (hasLocal : Bool) (x : List F64) : Bool :=
  boundsFail (optV v.lb) (optV v.ub) x ||
  (caps.finiteAlgs.contains v.algorithm && !finiteDomain A (optV v.lb) (optV v.ub)) ||
  (caps.needLocal.contains v.algorithm && !hasLocal)

theorem optimizeInner_zero {σ : Type} (A : Arith) (caps : WrapCaps) (E : Env σ) (mk : Prob → Alg) (fuel : Nat)
    (v : CoreView) (hl : Bool) (x : List F64) (f0 : F64) (st : σ) (hn : v.n = 0) :
    optimizeInner A caps E mk fuel v hl x f0 st =
      (some { ret := (match (E.call st { fn := .obj, x := x, wantGrad := false }).2.stop with
                      | some s => if s ≠ 0 then rFORCED else rSUCCESS | none => rSUCCESS),
              x := x, minf := (E.call st { fn := .obj, x := x, wantGrad := false }).2.val.headD f0,
              numevals := 1,
              atrace := [({ fn := .obj, x := x, wantGrad := false }, (E.call st { fn := .obj, x := x, wantGrad := false }).2)] },
       (E.call st { fn := .obj, x := x, wantGrad := false }).1, false) := by
  unfold optimizeInner
  rw [if_pos hn]
  rfl

theorem optimizeInner_reject {σ : Type} (A : Arith) (caps : WrapCaps) (E : Env σ) (mk : Prob → Alg) (fuel : Nat)
    (v : CoreView) (hl : Bool) (x : List F64) (f0 : F64) (st : σ) (hn : v.n ≠ 0)
    (hr : rejectInner A caps v hl x = true) :
    optimizeInner A caps E mk fuel v hl x f0 st =
      (some { ret := rINVALID, x := x, minf := F64.posInf,
              numevals := if boundsFail (optV v.lb) (optV v.ub) x then v.numevals else 0, atrace := [] }, st, false) := by
  unfold optimizeInner
  rw [if_neg hn]
  unfold rejectInner at hr
  by_cases h1 : boundsFail (optV v.lb) (optV v.ub) x = true
  · rw [if_pos h1, if_pos h1]
  · rw [if_neg h1, if_neg h1]
    by_cases h2 : (caps.finiteAlgs.contains v.algorithm && !finiteDomain A (optV v.lb) (optV v.ub)) = true
    · rw [if_pos h2]
    · rw [if_neg h2]
      by_cases h3 : (caps.needLocal.contains v.algorithm && !hl) = true
      · rw [if_pos h3]
      · simp only [Bool.not_eq_true] at h1 h2 h3
        rw [h1, h2, h3] at hr; simp at hr

theorem optimizeInner_run {σ : Type} (A : Arith) (caps : WrapCaps) (E : Env σ) (mk : Prob → Alg) (fuel : Nat)
    (v : CoreView) (hl : Bool) (x : List F64) (f0 : F64) (st : σ) (hn : v.n ≠ 0)
    (hr : rejectInner A caps v hl x = false) :
    optimizeInner A caps E mk fuel v hl x f0 st =
      ((run (mk { v := { v with numevals := 0, mungeD := false, mungeC := false }, x0 := x }) E fuel st).1.map
          (fun a => { ret := a.ret, x := a.x, minf := a.minf, numevals := a.numevals,
                      atrace := (run (mk { v := { v with numevals := 0, mungeD := false, mungeC := false }, x0 := x }) E fuel st).2.2 }),
       (run (mk { v := { v with numevals := 0, mungeD := false, mungeC := false }, x0 := x }) E fuel st).2.1, true) := by
  unfold rejectInner at hr
  simp only [Bool.or_eq_false_iff] at hr
  obtain ⟨⟨h1, h2⟩, h3⟩ := hr
  unfold optimizeInner
  rw [if_neg hn, h1, h2, h3]
  simp

/-- the three ways `optimize` can produce an output -/
theorem optimize_some_cases {σ : Type} {A : Arith} {caps : WrapCaps} {U : Env σ} {mk : Prob → Alg} {fuel : Nat}
    {v : CoreView} {hl : Bool} {x : List F64} {f0 : F64} {st st' : σ} {o : OptOut}
    (h : optimize A caps U mk fuel v hl x f0 st = (some o, st')) :
    (v.f = 0 ∧ o = { ret := rINVALID, x := x, optf := f0, after := v, utrace := [] } ∧ st' = st) ∨
    (v.f ≠ 0 ∧ earlyFixed caps v x = true ∧
      o = { ret := rINVALID, x := x, optf := f0, after := { v with forceStop := 0 }, utrace := [] } ∧ st' = st) ∨
    (v.f ≠ 0 ∧ earlyFixed caps v x = false ∧
      ∃ io, (innerRun A caps U mk fuel v hl x f0 st).1 = some io ∧
        o = assemble caps v io (innerRun A caps U mk fuel v hl x f0 st).2.1.1.2
              (innerRun A caps U mk fuel v hl x f0 st).2.1.2 ∧
        st' = (innerRun A caps U mk fuel v hl x f0 st).2.1.1.1) := by
  by_cases hf : v.f = 0
  · rw [optimize_nof _ _ _ _ _ _ _ _ _ _ hf] at h
    simp only [Prod.mk.injEq, Option.some.injEq] at h
    exact .inl ⟨hf, h.1.symm, h.2.symm⟩
  · by_cases he : earlyFixed caps v x = true
    · rw [optimize_earlyFixed _ _ _ _ _ _ _ _ _ _ hf he] at h
      simp only [Prod.mk.injEq, Option.some.injEq] at h
      exact .inr (.inl ⟨hf, he, h.1.symm, h.2.symm⟩)
    · simp only [Bool.not_eq_true] at he
      rw [optimize_main _ _ _ _ _ _ _ _ _ _ hf he] at h
      refine .inr (.inr ⟨hf, he, ?_⟩)
      cases hio : (innerRun A caps U mk fuel v hl x f0 st).1 with
      | none => rw [hio] at h; simp at h
      | some io =>
        rw [hio] at h
        simp only [Prod.mk.injEq, Option.some.injEq] at h
        exact ⟨io, rfl, h.1.symm, h.2.symm⟩

/-- `none` (fuel exhausted) can only come from the inner call -/
theorem optimize_none_iff {σ : Type} {A : Arith} {caps : WrapCaps} {U : Env σ} {mk : Prob → Alg} {fuel : Nat}
    {v : CoreView} {hl : Bool} {x : List F64} {f0 : F64} {st : σ} :
    (optimize A caps U mk fuel v hl x f0 st).1 = none ↔
      (v.f ≠ 0 ∧ earlyFixed caps v x = false ∧ (innerRun A caps U mk fuel v hl x f0 st).1 = none) := by
  by_cases hf : v.f = 0
  · rw [optimize_nof _ _ _ _ _ _ _ _ _ _ hf]; simp [hf]
  · by_cases he : earlyFixed caps v x = true
    · rw [optimize_earlyFixed _ _ _ _ _ _ _ _ _ _ hf he]; simp [he]
    · simp only [Bool.not_eq_true] at he
      rw [optimize_main _ _ _ _ _ _ _ _ _ _ hf he]
      cases hio : (innerRun A caps U mk fuel v hl x f0 st).1 <;> simp [hf, he]

/-- `runAlg_sim_on` lifted to `optimizeInner`: two environments that agree (up to `R`) on every query the
    algorithm can issue, and on the single query of the `n = 0` shortcut, give the same inner result. -/
theorem optimizeInner_sim_on {σ τ : Type} (A : Arith) (caps : WrapCaps) (E₁ : Env σ) (E₂ : Env τ)
    (mk : Prob → Alg) (P : Query → Prop) (R : σ → τ → Prop)
    (h : ∀ s t q, P q → R s t → (E₁.call s q).2 = (E₂.call t q).2 ∧ R (E₁.call s q).1 (E₂.call t q).1)
    (fuel : Nat) (v : CoreView) (hl : Bool) (x : List F64) (f0 : F64) (s : σ) (t : τ)
    (hmk : (mk { v := { v with numevals := 0, mungeD := false, mungeC := false }, x0 := x }).queriesSat P)
    (hx : v.n = 0 → P { fn := .obj, x := x, wantGrad := false })
    (hR : R s t) :
    (optimizeInner A caps E₁ mk fuel v hl x f0 s).1 = (optimizeInner A caps E₂ mk fuel v hl x f0 t).1 ∧
    R (optimizeInner A caps E₁ mk fuel v hl x f0 s).2.1 (optimizeInner A caps E₂ mk fuel v hl x f0 t).2.1 ∧
    (optimizeInner A caps E₁ mk fuel v hl x f0 s).2.2 = (optimizeInner A caps E₂ mk fuel v hl x f0 t).2.2 := by
  by_cases hn : v.n = 0
  · rw [optimizeInner_zero _ _ _ _ _ _ _ _ _ _ hn, optimizeInner_zero _ _ _ _ _ _ _ _ _ _ hn]
    have hq := h s t _ (hx hn) hR
    simp only []
    rw [hq.1]
    exact ⟨by simp, hq.2, by simp⟩
  · cases hr : rejectInner A caps v hl x with
    | true =>
      rw [optimizeInner_reject _ _ _ _ _ _ _ _ _ _ hn hr, optimizeInner_reject _ _ _ _ _ _ _ _ _ _ hn hr]
      exact ⟨rfl, hR, rfl⟩
    | false =>
      rw [optimizeInner_run _ _ _ _ _ _ _ _ _ _ hn hr, optimizeInner_run _ _ _ _ _ _ _ _ _ _ hn hr]
      have hs := runAlg_sim_on _ E₁ E₂ P hmk R h fuel (Alg.init _) none s t [] hR
      unfold run
      simp only []
      rw [hs.1, hs.2.1]
      exact ⟨by simp, hs.2.2, by simp⟩

/-! ## maximisation = minimisation of the negated objective -/

/-- an answer with value and gradient negated element-wise, for the objective only -/
def negAns (fn : FnRef) (a : Answer) : Answer :=
  match fn with
  | .obj => { a with val := a.val.map F64.neg, grad := a.grad.map (·.map F64.neg) }
  | _ => a

/-- the user who supplies `-f` instead of `f` (constraints, stop requests and state transitions unchanged) -/
def negUser {σ : Type} (U : Env σ) : Env σ :=
  { call := fun st q => ((U.call st q).1, negAns q.fn (U.call st q).2) }

def negTrace (tr : List (Query × Answer)) : List (Query × Answer) :=
  tr.map fun p => (p.1, negAns p.1.fn p.2)

/-- the same object set up for minimisation of `-f` -/
def minimizeView (v : CoreView) : CoreView := { v with maximize := false, stopval := v.stopval.neg }

theorem layersOf_minimizeView (caps : WrapCaps) (v : CoreView) :
    layersOf caps (minimizeView v) = { layersOf caps v with maximize := false } := rfl

theorem innerView_minimizeView (v : CoreView) (e : Bool) (hm : v.maximize = true) :
    innerView (minimizeView v) false e = innerView v true e := by
  cases e <;> simp [innerView, minimizeView]

theorem algAnswer_neg (L : Layers) (hm : L.maximize = true) (m : MemoSt) (uq : Query) (a : Answer) :
    ({ L with maximize := false } : Layers).algAnswer m uq (negAns uq.fn a) = L.algAnswer m uq a := by
  unfold Layers.algAnswer
  cases hfn : uq.fn <;> simp [negAns, hm, Layers.isVec]

theorem lastStop_negTrace (tr : List (Query × Answer)) : lastStop (negTrace tr) = lastStop tr := by
  unfold lastStop negTrace
  rw [List.foldl_map]
  congr 1
  funext acc p
  cases hfn : p.1.fn <;> simp [negAns]

/-- the simulation relation of T2: same user state, same memo, user traces related by negation -/
def NegRel {σ : Type} (s t : (σ × List (Query × Answer)) × MemoSt) : Prop :=
  t.1.1 = s.1.1 ∧ t.2 = s.2 ∧ t.1.2 = negTrace s.1.2

theorem wrappedEnv_neg_step {σ : Type} (L : Layers) (hm : L.maximize = true) (U : Env σ)
    (s t : (σ × List (Query × Answer)) × MemoSt) (q : Query) (hR : NegRel s t) :
    ((wrappedEnv L U).call s q).2 = ((wrappedEnv { L with maximize := false } (negUser U)).call t q).2 ∧
    NegRel ((wrappedEnv L U).call s q).1 ((wrappedEnv { L with maximize := false } (negUser U)).call t q).1 := by
  obtain ⟨h1, h2, h3⟩ := hR
  have huq : ({ L with maximize := false } : Layers).userQuery q = L.userQuery q := rfl
  have hfn : (L.userQuery q).fn = q.fn := rfl
  simp only [wrappedEnv, traced, negUser, huq, h1, h2, h3, NegRel]
  have := algAnswer_neg L hm s.2 (L.userQuery q) (U.call s.1.1 (L.userQuery q)).2
  rw [this]
  refine ⟨by simp, by simp, by simp, ?_⟩
  simp [negTrace]

/-- the previous content of `*minf` matters only in the `n = 0` shortcut -/
theorem optimizeInner_f0_irrel {σ : Type} (A : Arith) (caps : WrapCaps) (E : Env σ) (mk : Prob → Alg) (fuel : Nat)
    (v : CoreView) (hl : Bool) (x : List F64) (f0 f0' : F64) (st : σ) (hn : v.n ≠ 0) :
    optimizeInner A caps E mk fuel v hl x f0 st = optimizeInner A caps E mk fuel v hl x f0' st := by
  unfold optimizeInner
  rw [if_neg hn, if_neg hn]

theorem innerRun_neg {σ : Type} (A : Arith) (caps : WrapCaps) (U : Env σ) (mk : Prob → Alg) (fuel : Nat)
    (v : CoreView) (hl : Bool) (x : List F64) (f0 f0' : F64) (st : σ) (hm : v.maximize = true)
    (hf0 : (innerView v true (layersOf caps v).elim).n = 0 → f0' = f0) :
    (innerRun A caps U mk fuel v hl x f0 st).1 = (innerRun A caps (negUser U) mk fuel (minimizeView v) hl x f0' st).1 ∧
    NegRel (innerRun A caps U mk fuel v hl x f0 st).2.1
           (innerRun A caps (negUser U) mk fuel (minimizeView v) hl x f0' st).2.1 := by
  have hL : (layersOf caps v).maximize = true := hm
  have e1 : innerRun A caps (negUser U) mk fuel (minimizeView v) hl x f0' st =
      optimizeInner A caps (wrappedEnv { layersOf caps v with maximize := false } (negUser U)) mk fuel
        (innerView v true (layersOf caps v).elim) hl (innerX caps v x) f0' ((st, []), ({} : MemoSt)) := by
    unfold innerRun
    rw [layersOf_minimizeView]
    simp only []
    rw [innerView_minimizeView v _ hm]
    rfl
  have e2 : innerRun A caps (negUser U) mk fuel (minimizeView v) hl x f0' st =
      optimizeInner A caps (wrappedEnv { layersOf caps v with maximize := false } (negUser U)) mk fuel
        (innerView v true (layersOf caps v).elim) hl (innerX caps v x) f0 ((st, []), ({} : MemoSt)) := by
    rw [e1]
    by_cases hn : (innerView v true (layersOf caps v).elim).n = 0
    · rw [hf0 hn]
    · exact optimizeInner_f0_irrel _ _ _ _ _ _ _ _ _ _ _ hn
  rw [e2]
  unfold innerRun
  rw [hL]
  have := optimizeInner_sim_on A caps (wrappedEnv (layersOf caps v) U)
    (wrappedEnv { layersOf caps v with maximize := false } (negUser U)) mk (fun _ => True) NegRel
    (fun s t q _ hR => wrappedEnv_neg_step (layersOf caps v) hL U s t q hR) fuel
    (innerView v true (layersOf caps v).elim) hl (innerX caps v x) f0 ((st, []), ({} : MemoSt))
    ((st, []), ({} : MemoSt)) (fun _ _ _ _ _ => trivial) (fun _ => trivial) ⟨rfl, rfl, rfl⟩
  exact ⟨this.1, this.2.1⟩

/-! ## `shrink` / `expand` -/

/-- `x` is bit-for-bit `lb` on every fixed coordinate -/
def fixedExact (lb ub x : List F64) : Bool :=
  (List.zip x (List.zip lb ub)).all fun p => !fixedAt p.2.1 p.2.2 || decide (p.1 = p.2.1)

theorem length_shrink {α : Type} (lb ub : List F64) (x : List α) (h1 : lb.length = ub.length)
    (h2 : x.length = lb.length) : (shrink lb ub x).length = elimDimension lb ub := by
  induction lb generalizing ub x with
  | nil => cases ub <;> simp [shrink, elimDimension]
  | cons l lb ih =>
    cases ub with
    | nil => simp at h1
    | cons u ub =>
      cases x with
      | nil => simp at h2
      | cons a x =>
        simp at h1 h2
        simp only [shrink, elimDimension]
        split <;> simp [ih ub x h1 h2] <;> omega

theorem length_expand (lb ub y : List F64) (h1 : lb.length = ub.length) : (expand lb ub y).length = lb.length := by
  induction lb generalizing ub y with
  | nil => cases ub <;> simp [expand]
  | cons l lb ih =>
    cases ub with
    | nil => simp at h1
    | cons u ub =>
      simp at h1
      simp only [expand]
      split
      · simp [ih ub y h1]
      · cases y <;> simp [ih ub _ h1]

theorem expand_shrink (lb ub x : List F64) (h1 : lb.length = ub.length) (h2 : x.length = lb.length)
    (hx : fixedExact lb ub x = true) : expand lb ub (shrink lb ub x) = x := by
  induction lb generalizing ub x with
  | nil => cases ub <;> cases x <;> simp_all [expand, shrink]
  | cons l lb ih =>
    cases ub with
    | nil => simp at h1
    | cons u ub =>
      cases x with
      | nil => simp at h2
      | cons a x =>
        simp at h1 h2
        simp only [fixedExact, List.zip_cons_cons, List.all_cons, Bool.and_eq_true] at hx
        have ih' := ih ub x h1 h2 hx.2
        simp only [shrink, expand]
        by_cases hfx : fixedAt l u = true
        · have : a = l := by simpa [hfx] using hx.1
          simp [hfx, ih', this]
        · simp [hfx, expand, ih']

theorem shrink_expand (lb ub y : List F64) (hy : y.length = elimDimension lb ub) :
    shrink lb ub (expand lb ub y) = y := by
  induction lb generalizing ub y with
  | nil => cases ub <;> simp_all [expand, shrink, elimDimension]
  | cons l lb ih =>
    cases ub with
    | nil => simp_all [expand, shrink, elimDimension]
    | cons u ub =>
      simp only [elimDimension] at hy
      by_cases hfx : fixedAt l u = true
      · simp [hfx] at hy
        simp [expand, shrink, hfx, ih ub y hy]
      · simp [hfx] at hy
        cases y with
        | nil => simp at hy; omega
        | cons a y =>
          simp at hy
          simp [expand, shrink, hfx, ih ub y (by omega)]

/-- `elimdim_fixed_exact`: whatever the reduced vector, `expand` writes `lb[i]` on the fixed coordinates -/
theorem fixedExact_expand (lb ub y : List F64) : fixedExact lb ub (expand lb ub y) = true := by
  induction lb generalizing ub y with
  | nil => cases ub <;> simp [expand, fixedExact]
  | cons l lb ih =>
    cases ub with
    | nil => simp [expand, fixedExact]
    | cons u ub =>
      have ih1 := ih ub
      unfold fixedExact at ih1 ⊢
      simp only [expand]
      by_cases hfx : fixedAt l u = true
      · simp [hfx, ih1]
      · cases y <;> simp [hfx, ih1]

/-- a start that is exact on the fixed coordinates passes the pre-elimination check -/
theorem fixedCoordFail_of_exact (lb ub x : List F64) (hx : fixedExact lb ub x = true) :
    fixedCoordFail lb ub x = false := by
  induction lb generalizing ub x with
  | nil => cases ub <;> cases x <;> simp [fixedCoordFail]
  | cons l lb ih =>
    cases ub with
    | nil => cases x <;> simp [fixedCoordFail]
    | cons u ub =>
      cases x with
      | nil => simp [fixedCoordFail]
      | cons a x =>
        simp only [fixedExact, List.zip_cons_cons, List.all_cons, Bool.and_eq_true] at hx
        have ih' := ih ub x hx.2
        unfold fixedCoordFail at ih' ⊢
        simp only [List.zip_cons_cons, List.any_cons, ih', Bool.or_false]
        by_cases hfx : fixedAt l u = true
        · have : a = l := by simpa [hfx] using hx.1
          subst this
          simp only [fixedAt, F64.feq, Bool.and_eq_true, decide_eq_true_eq] at hfx
          simp [fixedAt, F64.feq, F64.lt, F64.gt, hfx]
        · simp [hfx]

/-- no coordinate of the shrunk box is fixed: shrinking again removes nothing -/
theorem elimDimension_shrink (lb ub : List F64) :
    elimDimension (shrink lb ub lb) (shrink lb ub ub) = elimDimension lb ub := by
  induction lb generalizing ub with
  | nil => cases ub <;> simp [shrink, elimDimension]
  | cons l lb ih =>
    cases ub with
    | nil => simp [shrink, elimDimension]
    | cons u ub =>
      simp only [shrink, elimDimension]
      by_cases hfx : fixedAt l u = true
      · simp [hfx, ih ub]
      · simp [hfx, elimDimension, ih ub]

theorem not_gt_of_fixedAt {l u : F64} (h : fixedAt l u = true) : F64.gt l u = false := by
  simp only [fixedAt, F64.feq, Bool.and_eq_true, decide_eq_true_eq] at h
  simp [F64.gt, F64.lt, h]

/-- a violated bound of the user's box is caught either by the pre-elimination check (fixed coordinate) or by
    the bound check on the reduced problem (free coordinate) -/
theorem boundsFail_shrink (lb ub x : List F64) (h : boundsFail lb ub x = true) :
    fixedCoordFail lb ub x = true ∨
    boundsFail (shrink lb ub lb) (shrink lb ub ub) (shrink lb ub x) = true := by
  induction lb generalizing ub x with
  | nil => cases ub <;> cases x <;> simp [boundsFail] at h
  | cons l lb ih =>
    cases ub with
    | nil => cases x <;> simp [boundsFail] at h
    | cons u ub =>
      cases x with
      | nil => simp [boundsFail] at h
      | cons a x =>
        have ih' := ih ub x
        unfold boundsFail fixedCoordFail at *
        simp only [List.zip_cons_cons, List.any_cons, Bool.or_eq_true, shrink] at h ⊢
        by_cases hfx : fixedAt l u = true
        · simp only [hfx, if_true, Bool.true_and]
          rcases h with h | h
          · simp only [not_gt_of_fixedAt hfx, Bool.false_or] at h
            exact .inl (.inl (by simpa using h))
          · rcases ih' h with h' | h'
            · exact .inl (.inr h')
            · exact .inr h'
        · simp only [hfx, if_false, Bool.false_and, Bool.false_eq_true, false_or, List.zip_cons_cons, List.any_cons,
            Bool.or_eq_true]
          rcases h with h | h
          · exact .inr (.inl h)
          · rcases ih' h with h' | h'
            · exact .inl h'
            · exact .inr (.inr h')

theorem boundsFail_cons (l u a : F64) (lb ub x : List F64) :
    boundsFail (l :: lb) (u :: ub) (a :: x) =
      ((F64.gt l u || F64.lt a l || F64.gt a u) || boundsFail lb ub x) := by
  simp [boundsFail]

/-- conversely the reduced bound check only reports violations of the user's box -/
theorem boundsFail_of_shrink (lb ub x : List F64)
    (h : boundsFail (shrink lb ub lb) (shrink lb ub ub) (shrink lb ub x) = true) : boundsFail lb ub x = true := by
  induction lb generalizing ub x with
  | nil => cases ub <;> cases x <;> simp [boundsFail, shrink] at h
  | cons l lb ih =>
    cases ub with
    | nil => cases x <;> simp [boundsFail, shrink] at h
    | cons u ub =>
      cases x with
      | nil => simp [boundsFail, shrink] at h
      | cons a x =>
        have ih' := ih ub x
        rw [boundsFail_cons]
        simp only [shrink] at h
        by_cases hfx : fixedAt l u = true
        · simp only [hfx, if_true] at h
          simp [ih' h]
        · simp only [hfx, Bool.false_eq_true, if_false, boundsFail_cons, Bool.or_eq_true] at h
          rcases h with h | h
          · simp only [Bool.or_eq_true]; exact .inl h
          · simp [ih' h]

/-- index form of the bound check: one offending coordinate suffices -/
theorem boundsFail_of_index (lb ub x : List F64) (i : Nat) (xi li ui : F64)
    (hx : x[i]? = some xi) (hl : lb[i]? = some li) (hu : ub[i]? = some ui)
    (h : F64.lt xi li = true ∨ F64.gt xi ui = true ∨ F64.gt li ui = true) : boundsFail lb ub x = true := by
  induction i generalizing lb ub x with
  | zero =>
    cases x <;> cases lb <;> cases ub <;> simp at hx hl hu
    subst hx; subst hl; subst hu
    simp only [boundsFail, List.zip_cons_cons, List.any_cons, Bool.or_eq_true]
    rcases h with h | h | h
    · exact .inl (.inl (.inr h))
    · exact .inl (.inr h)
    · exact .inl (.inl (.inl h))
  | succ i ih =>
    cases x <;> cases lb <;> cases ub <;> simp at hx hl hu
    rename_i a x l lb u ub
    have := ih lb ub x hx hl hu
    unfold boundsFail at *
    simp only [List.zip_cons_cons, List.any_cons, Bool.or_eq_true]
    exact .inr this

/-- `memoize_func`'s box test on an expanded point = the test on the reduced point in the reduced box -/
theorem memoFeasible_expand (lb ub y : List F64) (hy : y.length = elimDimension lb ub) :
    memoFeasible lb ub (expand lb ub y) = memoFeasible (shrink lb ub lb) (shrink lb ub ub) y := by
  induction lb generalizing ub y with
  | nil => cases ub <;> simp_all [expand, shrink, elimDimension, memoFeasible]
  | cons l lb ih =>
    cases ub with
    | nil => simp_all [expand, shrink, elimDimension, memoFeasible]
    | cons u ub =>
      have ih' := ih ub
      simp only [elimDimension] at hy
      unfold memoFeasible at ih' ⊢
      by_cases hfx : fixedAt l u = true
      · simp [hfx] at hy
        simp only [expand, shrink, hfx, if_true, List.zip_cons_cons, List.all_cons, ih' y hy]
        have h1 := not_gt_of_fixedAt hfx
        simp [F64.lt_irrefl', h1]
      · simp [hfx] at hy
        cases y with
        | nil => simp at hy; omega
        | cons a y =>
          simp at hy
          simp [expand, shrink, hfx, ih' y (by omega)]

/-! ## fields of the inner object -/

theorem shrink_nil {α : Type} (lb ub : List F64) : shrink lb ub ([] : List α) = [] := by
  cases lb <;> cases ub <;> simp [shrink]

theorem optV_map_shrink (lb ub : List F64) (o : Option (List F64)) :
    optV (o.map (shrink lb ub)) = shrink lb ub (optV o) := by
  cases o <;> simp [optV, shrink_nil]

theorem innerView_algorithm (v : CoreView) (m e : Bool) : (innerView v m e).algorithm = v.algorithm := by
  cases m <;> cases e <;> rfl

theorem innerView_numevals (v : CoreView) (m e : Bool) : (innerView v m e).numevals = v.numevals := by
  cases m <;> cases e <;> rfl

theorem innerView_n (v : CoreView) (m e : Bool) :
    (innerView v m e).n = if e then elimDimension (optV v.lb) (optV v.ub) else v.n := by
  cases m <;> cases e <;> rfl

theorem innerView_lb (v : CoreView) (m e : Bool) :
    optV (innerView v m e).lb = if e then shrink (optV v.lb) (optV v.ub) (optV v.lb) else optV v.lb := by
  cases m <;> cases e <;> simp [innerView, optV_map_shrink]

theorem innerView_ub (v : CoreView) (m e : Bool) :
    optV (innerView v m e).ub = if e then shrink (optV v.lb) (optV v.ub) (optV v.ub) else optV v.ub := by
  cases m <;> cases e <;> simp [innerView, optV_map_shrink]

theorem shrink_of_elimDimension_zero {α : Type} (lb ub : List F64) (x : List α) (h : elimDimension lb ub = 0) :
    shrink lb ub x = [] := by
  induction lb generalizing ub x with
  | nil => simp [shrink]
  | cons l lb ih =>
    cases ub with
    | nil => simp [shrink]
    | cons u ub =>
      cases x with
      | nil => simp [shrink]
      | cons a x =>
        simp only [elimDimension] at h
        by_cases hfx : fixedAt l u = true
        · simp [hfx] at h; simp [shrink, hfx, ih ub x h]
        · simp [hfx] at h

theorem boundsFail_nil (lb ub : List F64) : boundsFail lb ub [] = false := by simp [boundsFail]

theorem layersOf_lb (caps : WrapCaps) (v : CoreView) : (layersOf caps v).lb = optV v.lb := rfl
theorem layersOf_ub (caps : WrapCaps) (v : CoreView) : (layersOf caps v).ub = optV v.ub := rfl
theorem layersOf_maximize (caps : WrapCaps) (v : CoreView) : (layersOf caps v).maximize = v.maximize := rfl

/-- the initial memo never wins the `done:` test -/
theorem assemble_init_memo (caps : WrapCaps) (v : CoreView) (io : InnerOut) (ut : List (Query × Answer)) :
    assemble caps v io ut {} =
      { ret := io.ret,
        x := if (layersOf caps v).elim then expand (optV v.lb) (optV v.ub) io.x else io.x,
        optf := if v.maximize then io.minf.neg else io.minf,
        after := { v with numevals := io.numevals, forceStop := lastStop ut },
        utrace := ut, atrace := io.atrace } := by
  have : F64.lt ({} : MemoSt).minf F64.dblMax = false := by decide
  simp [assemble, this, layersOf_lb, layersOf_ub, layersOf_maximize]

/-- the inner call when one of the argument checks of `nlopt_optimize_` fires -/
theorem innerRun_reject {σ : Type} (A : Arith) (caps : WrapCaps) (U : Env σ) (mk : Prob → Alg) (fuel : Nat)
    (v : CoreView) (hl : Bool) (x : List F64) (f0 : F64) (st : σ)
    (hn : (innerView v (layersOf caps v).maximize (layersOf caps v).elim).n ≠ 0)
    (hr : rejectInner A caps (innerView v (layersOf caps v).maximize (layersOf caps v).elim) hl (innerX caps v x) = true) :
    ∃ ne, innerRun A caps U mk fuel v hl x f0 st =
      (some { ret := rINVALID, x := innerX caps v x, minf := F64.posInf, numevals := ne, atrace := [] },
       ((st, []), {}), false) := by
  unfold innerRun
  rw [optimizeInner_reject _ _ _ _ _ _ _ _ _ _ hn hr]
  exact ⟨_, rfl⟩

/-- the single call of the wrapped environment from the initial state -/
theorem wrappedEnv_call_init {σ : Type} (L : Layers) (U : Env σ) (st : σ) (ut : List (Query × Answer)) (m : MemoSt)
    (q : Query) :
    (wrappedEnv L U).call ((st, ut), m) q =
      ((((U.call st (L.userQuery q)).1, ut ++ [(L.userQuery q, (U.call st (L.userQuery q)).2)]),
        (L.algAnswer m (L.userQuery q) (U.call st (L.userQuery q)).2).1),
       (L.algAnswer m (L.userQuery q) (U.call st (L.userQuery q)).2).2) := rfl

/-- the user query of the `n = 0` shortcut -/
def startQuery (caps : WrapCaps) (v : CoreView) (x : List F64) : Query :=
  (layersOf caps v).userQuery { fn := .obj, x := innerX caps v x, wantGrad := false }

theorem innerRun_zero {σ : Type} (A : Arith) (caps : WrapCaps) (U : Env σ) (mk : Prob → Alg) (fuel : Nat)
    (v : CoreView) (hl : Bool) (x : List F64) (f0 : F64) (st : σ)
    (hn : (innerView v (layersOf caps v).maximize (layersOf caps v).elim).n = 0) :
    innerRun A caps U mk fuel v hl x f0 st =
      let L := layersOf caps v
      let q0 : Query := { fn := .obj, x := innerX caps v x, wantGrad := false }
      let uq := startQuery caps v x
      let r := U.call st uq
      let ma := L.algAnswer {} uq r.2
      (some { ret := (match r.2.stop with | some s => if s ≠ 0 then rFORCED else rSUCCESS | none => rSUCCESS),
              x := innerX caps v x, minf := ma.2.val.headD f0, numevals := 1, atrace := [(q0, ma.2)] },
       ((r.1, [(uq, r.2)]), ma.1), false) := by
  unfold innerRun
  rw [optimizeInner_zero _ _ _ _ _ _ _ _ _ _ hn]
  have hstop : ∀ (L : Layers) (m : MemoSt) (uq : Query) (a : Answer), (L.algAnswer m uq a).2.stop = a.stop := by
    intro L m uq a; unfold Layers.algAnswer; cases uq.fn <;> rfl
  simp only [wrappedEnv_call_init, List.nil_append, hstop]
  rfl

/-- after one memo step from the initial memo: nothing recorded, or exactly this point and value -/
theorem memo_first_step (L : Layers) (uq : Query) (ua : Answer) :
    (L.algAnswer {} uq ua).1 = {} ∨
    ((L.algAnswer {} uq ua).1.bestx = some uq.x ∧
      (L.algAnswer {} uq ua).2.val = [(L.algAnswer {} uq ua).1.minf]) := by
  unfold Layers.algAnswer
  cases uq.fn <;> simp
  cases L.memo <;> simp
  split
  · split <;> simp_all
  · simp

theorem algAnswer_obj_val (L : Layers) (m : MemoSt) (uq : Query) (ua : Answer) (hfn : uq.fn = .obj) :
    (L.algAnswer m uq ua).2.val = if L.maximize then ua.val.map F64.neg else ua.val := by
  unfold Layers.algAnswer; rw [hfn]

/-- what "rejected" means: a result is produced whatever the fuel, the code is `NLOPT_INVALID_ARGS`, no user
    callback was invoked (empty user trace, user state unchanged), the algorithm was not run -/
def Rejected {σ : Type} (r : Option OptOut × σ) (st : σ) : Prop :=
  ∃ o, r = (some o, st) ∧ o.ret = rINVALID ∧ o.utrace = [] ∧ o.atrace = []

/-- the condition under which the start vector survives the shrink / expand round trip of the elimination
    wrapper bit for bit: the box is well-formed and `x` is bitwise `lb` on the fixed coordinates -/
def StartExact (caps : WrapCaps) (v : CoreView) (x : List F64) : Prop :=
  (layersOf caps v).elim = true →
    (optV v.lb).length = (optV v.ub).length ∧ x.length = (optV v.lb).length ∧
    fixedExact (optV v.lb) (optV v.ub) x = true

/-! ## the memo: state = fold over the user trace; fold = first strict minimiser -/

theorem F64.lt_trans' {a b c : F64} (h1 : F64.lt a b = true) (h2 : F64.lt b c = true) : F64.lt a c = true := by
  simp [F64.lt] at *
  obtain ⟨⟨ha, hb⟩, hab⟩ := h1
  obtain ⟨⟨_, hc⟩, hbc⟩ := h2
  exact ⟨⟨ha, hc⟩, by omega⟩

theorem F64.lt_of_lt_of_not_lt {a b c : F64} (h1 : F64.lt a b = true) (h2 : F64.lt c b = false)
    (hc : c.isNaN = false) : F64.lt a c = true := by
  simp [F64.lt, hc] at *
  obtain ⟨⟨ha, hb⟩, hab⟩ := h1
  exact ⟨ha, by have := h2 hb; omega⟩

theorem F64.lt_asymm' {a b : F64} (h : F64.lt a b = true) : F64.lt b a = false := by
  simp [F64.lt] at *
  intro _ _; omega

/-- one update of `memoize_func` on an evaluation `(x, value as the memo sees it)` -/
def memoStep (lb ub : List F64) (m : MemoSt) (e : List F64 × F64) : MemoSt :=
  if memoFeasible lb ub e.1 && F64.lt e.2 m.minf then { minf := e.2, bestx := some e.1 } else m

/-- the objective evaluation the memo sees in one user callback invocation, if any -/
def Layers.evalOf (L : Layers) (p : Query × Answer) : Option (List F64 × F64) :=
  match p.1.fn, p.2.val with
  | .obj, [u] => some (p.1.x, if L.maximize then u.neg else u)
  | _, _ => none

/-- the list of objective evaluations the memo saw -/
def Layers.memoEvals (L : Layers) (ut : List (Query × Answer)) : List (List F64 × F64) :=
  ut.filterMap L.evalOf

/-- the memo state as a function of the user trace -/
def Layers.memoOf (L : Layers) (ut : List (Query × Answer)) : MemoSt :=
  if L.memo then (L.memoEvals ut).foldl (memoStep L.lb L.ub) {} else {}

theorem algAnswer_memo (L : Layers) (m : MemoSt) (uq : Query) (ua : Answer) :
    (L.algAnswer m uq ua).1 =
      if L.memo then (match L.evalOf (uq, ua) with | some e => memoStep L.lb L.ub m e | none => m) else m := by
  unfold Layers.algAnswer Layers.evalOf memoStep
  cases hfn : uq.fn <;> simp
  cases hm : L.memo <;> simp
  split
  · rename_i val hval
    cases hmx : L.maximize <;> simp [hmx] at hval
    · simp [hval]
    · match h : ua.val, hval with
      | [u], hval => simp at hval; simp [hval]
      | [], hval => simp at hval
      | _ :: _ :: _, hval => simp at hval
  · rename_i hne
    split
    · rename_i e he
      split at he
      · rename_i u hu
        exfalso
        cases hmx : L.maximize <;> simp [hmx, hu] at hne
      · simp at he
    · rfl

/-- every call of the wrapped environment keeps "memo = fold of the user trace" -/
theorem wrappedEnv_memo_inv {σ : Type} (L : Layers) (U : Env σ)
    (s : (σ × List (Query × Answer)) × MemoSt) (q : Query) (h : s.2 = L.memoOf s.1.2) :
    ((wrappedEnv L U).call s q).1.2 = L.memoOf ((wrappedEnv L U).call s q).1.1.2 := by
  obtain ⟨⟨st, ut⟩, m⟩ := s
  simp only at h
  rw [wrappedEnv_call_init]
  simp only [algAnswer_memo, h, Layers.memoOf, Layers.memoEvals]
  cases hm : L.memo <;> simp
  cases hev : L.evalOf (L.userQuery q, (U.call st (L.userQuery q)).2) <;> simp [List.filterMap_cons, hev]

/-- Running strict minimum of a fold = first minimiser.  Either nothing was ever recorded (no feasible
    evaluation beats the initial value) or the list splits around the recorded evaluation: it is feasible, beats
    the initial value, strictly beats every earlier feasible non-NaN evaluation, and no later feasible one
    strictly beats it. -/
theorem foldl_memoStep (lb ub : List F64) (es : List (List F64 × F64)) (m0 : MemoSt) :
    (es.foldl (memoStep lb ub) m0 = m0 ∧
      ∀ e ∈ es, memoFeasible lb ub e.1 = true → F64.lt e.2 m0.minf = false) ∨
    (∃ pre xb wb post, es = pre ++ (xb, wb) :: post ∧
      es.foldl (memoStep lb ub) m0 = { minf := wb, bestx := some xb } ∧
      memoFeasible lb ub xb = true ∧ F64.lt wb m0.minf = true ∧
      (∀ e ∈ pre, memoFeasible lb ub e.1 = true → e.2.isNaN = false → F64.lt wb e.2 = true) ∧
      (∀ e ∈ post, memoFeasible lb ub e.1 = true → F64.lt e.2 wb = false)) := by
  induction es generalizing m0 with
  | nil => left; simp
  | cons e es ih =>
    simp only [List.foldl_cons]
    by_cases hupd : (memoFeasible lb ub e.1 && F64.lt e.2 m0.minf) = true
    · have hstep : memoStep lb ub m0 e = { minf := e.2, bestx := some e.1 } := by simp [memoStep, hupd]
      simp only [Bool.and_eq_true] at hupd
      rw [hstep]
      right
      rcases ih { minf := e.2, bestx := some e.1 } with ⟨h1, h2⟩ | ⟨pre, xb, wb, post, h1, h2, h3, h4, h5, h6⟩
      · exact ⟨[], e.1, e.2, es, by simp, h1, hupd.1, hupd.2, by simp, h2⟩
      · refine ⟨e :: pre, xb, wb, post, by simp [h1], h2, h3, F64.lt_trans' h4 hupd.2, ?_, h6⟩
        intro e' he' hf' hn'
        simp at he'
        rcases he' with rfl | he'
        · exact h4
        · exact h5 e' he' hf' hn'
    · have hstep : memoStep lb ub m0 e = m0 := by simp [memoStep, hupd]
      rw [hstep]
      rcases ih m0 with ⟨h1, h2⟩ | ⟨pre, xb, wb, post, h1, h2, h3, h4, h5, h6⟩
      · left
        refine ⟨h1, ?_⟩
        intro e' he' hf'
        simp at he'
        rcases he' with rfl | he'
        · simpa [hf'] using hupd
        · exact h2 e' he' hf'
      · right
        refine ⟨e :: pre, xb, wb, post, by simp [h1], h2, h3, h4, ?_, h6⟩
        intro e' he' hf' hn'
        simp at he'
        rcases he' with rfl | he'
        · have : F64.lt e'.2 m0.minf = false := by simpa [hf'] using hupd
          exact F64.lt_of_lt_of_not_lt h4 this hn'
        · exact h5 e' he' hf' hn'

/-- a state invariant of the environment survives `optimizeInner` -/
theorem optimizeInner_inv_state {σ : Type} (A : Arith) (caps : WrapCaps) (E : Env σ) (mk : Prob → Alg)
    (I : σ → Prop) (hI : ∀ s q, I s → I (E.call s q).1) (fuel : Nat) (v : CoreView) (hl : Bool) (x : List F64)
    (f0 : F64) (st : σ) (h : I st) : I (optimizeInner A caps E mk fuel v hl x f0 st).2.1 := by
  by_cases hn : v.n = 0
  · rw [optimizeInner_zero _ _ _ _ _ _ _ _ _ _ hn]; exact hI _ _ h
  · cases hr : rejectInner A caps v hl x with
    | true => rw [optimizeInner_reject _ _ _ _ _ _ _ _ _ _ hn hr]; exact h
    | false =>
      rw [optimizeInner_run _ _ _ _ _ _ _ _ _ _ hn hr]
      exact runAlg_inv_state _ E I hI fuel _ none st [] h

/-- at the end of the inner call the memo is the fold of the user trace -/
theorem innerRun_memo {σ : Type} (A : Arith) (caps : WrapCaps) (U : Env σ) (mk : Prob → Alg) (fuel : Nat)
    (v : CoreView) (hl : Bool) (x : List F64) (f0 : F64) (st : σ) :
    (innerRun A caps U mk fuel v hl x f0 st).2.1.2 =
      (layersOf caps v).memoOf (innerRun A caps U mk fuel v hl x f0 st).2.1.1.2 := by
  unfold innerRun
  refine optimizeInner_inv_state A caps _ mk (fun s => s.2 = (layersOf caps v).memoOf s.1.2)
    (fun s q h => wrappedEnv_memo_inv _ U s q h) fuel _ hl _ f0 _ ?_
  simp [Layers.memoOf, Layers.memoEvals]

theorem mem_memoEvals (L : Layers) (ut : List (Query × Answer)) (e : List F64 × F64) (h : e ∈ L.memoEvals ut) :
    ∃ p u, p ∈ ut ∧ p.1.fn = .obj ∧ p.2.val = [u] ∧ e = (p.1.x, if L.maximize then u.neg else u) := by
  simp only [Layers.memoEvals, List.mem_filterMap] at h
  obtain ⟨p, hp, he⟩ := h
  unfold Layers.evalOf at he
  split at he
  · rename_i u hfn hval
    simp at he
    exact ⟨p, u, hp, hfn, hval, he.symm⟩
  · simp at he

/-! ## the algorithm's trace and the user's trace, entry by entry -/

/-- what the algorithm gets back for a user answer (the memo plays no role in it) -/
def Layers.ansOf (L : Layers) (uq : Query) (ua : Answer) : Answer := (L.algAnswer {} uq ua).2

theorem algAnswer_snd (L : Layers) (m : MemoSt) (uq : Query) (ua : Answer) :
    (L.algAnswer m uq ua).2 = L.ansOf uq ua := by
  unfold Layers.ansOf Layers.algAnswer
  cases uq.fn <;> rfl

/-- `Answer.stop` is passed through the wrappers unchanged -/
theorem ansOf_stop (L : Layers) (uq : Query) (ua : Answer) : (L.ansOf uq ua).stop = ua.stop := by
  unfold Layers.ansOf Layers.algAnswer
  cases uq.fn <;> rfl

/-- constraint values are passed through unchanged; objective values are negated iff maximising -/
theorem ansOf_val (L : Layers) (uq : Query) (ua : Answer) :
    (L.ansOf uq ua).val = if uq.fn = .obj ∧ L.maximize = true then ua.val.map F64.neg else ua.val := by
  unfold Layers.ansOf Layers.algAnswer
  cases uq.fn <;> simp

/-- a joint (state, trace) invariant survives `optimizeInner`, for machines whose queries satisfy `P` -/
theorem optimizeInner_inv_on {σ : Type} (A : Arith) (caps : WrapCaps) (E : Env σ) (mk : Prob → Alg)
    (P : Query → Prop) (J : σ → List (Query × Answer) → Prop)
    (hJ : ∀ s tr q, P q → J s tr → J (E.call s q).1 (tr ++ [(q, (E.call s q).2)]))
    (fuel : Nat) (v : CoreView) (hl : Bool) (x : List F64) (f0 : F64) (st : σ)
    (hmk : (mk { v := { v with numevals := 0, mungeD := false, mungeC := false }, x0 := x }).queriesSat P)
    (hx : v.n = 0 → P { fn := .obj, x := x, wantGrad := false })
    (h0 : J st []) :
    ∀ io, (optimizeInner A caps E mk fuel v hl x f0 st).1 = some io →
      J (optimizeInner A caps E mk fuel v hl x f0 st).2.1 io.atrace := by
  intro io hio
  by_cases hn : v.n = 0
  · rw [optimizeInner_zero _ _ _ _ _ _ _ _ _ _ hn] at hio ⊢
    simp only [Option.some.injEq] at hio
    subst hio
    exact hJ st [] _ (hx hn) h0
  · cases hr : rejectInner A caps v hl x with
    | true =>
      rw [optimizeInner_reject _ _ _ _ _ _ _ _ _ _ hn hr] at hio ⊢
      simp only [Option.some.injEq] at hio
      subst hio
      exact h0
    | false =>
      rw [optimizeInner_run _ _ _ _ _ _ _ _ _ _ hn hr] at hio ⊢
      simp only [Option.map_eq_some_iff] at hio
      obtain ⟨r, _, hr2⟩ := hio
      subst hr2
      exact runAlg_inv_on _ E P hmk J hJ fuel _ none st [] h0

/-- the entry-by-entry relation between what the algorithm saw and what the user saw -/
def Layers.Fwd (L : Layers) (a u : Query × Answer) : Prop :=
  u.1 = L.userQuery a.1 ∧ a.2 = L.ansOf u.1 u.2

theorem wrappedEnv_fwd_step {σ : Type} (L : Layers) (U : Env σ) (P : Query → Prop)
    (s : (σ × List (Query × Answer)) × MemoSt) (tr : List (Query × Answer)) (q : Query) (hq : P q)
    (h : AllRel (fun a u => L.Fwd a u ∧ P a.1) tr s.1.2) :
    AllRel (fun a u => L.Fwd a u ∧ P a.1) (tr ++ [(q, ((wrappedEnv L U).call s q).2)])
      ((wrappedEnv L U).call s q).1.1.2 := by
  obtain ⟨⟨st, ut⟩, m⟩ := s
  rw [wrappedEnv_call_init]
  exact h.snoc ⟨⟨rfl, algAnswer_snd _ _ _ _⟩, hq⟩

/-- every entry of the algorithm's trace is the forwarded image of the entry of the user's trace at the same
    position (and satisfies whatever every query of the algorithm satisfies) -/
theorem innerRun_fwd {σ : Type} (A : Arith) (caps : WrapCaps) (U : Env σ) (mk : Prob → Alg) (fuel : Nat)
    (v : CoreView) (hl : Bool) (x : List F64) (f0 : F64) (st : σ) (P : Query → Prop)
    (hmk : (mk (innerProb caps v x)).queriesSat P)
    (hx : (innerView v (layersOf caps v).maximize (layersOf caps v).elim).n = 0 →
      P { fn := .obj, x := innerX caps v x, wantGrad := false }) :
    ∀ io, (innerRun A caps U mk fuel v hl x f0 st).1 = some io →
      AllRel (fun a u => (layersOf caps v).Fwd a u ∧ P a.1) io.atrace
        (innerRun A caps U mk fuel v hl x f0 st).2.1.1.2 := by
  unfold innerRun
  exact optimizeInner_inv_on A caps _ mk P
    (fun s tr => AllRel (fun a u => (layersOf caps v).Fwd a u ∧ P a.1) tr s.1.2)
    (fun s tr q hq h => wrappedEnv_fwd_step _ U P s tr q hq h) fuel _ hl _ f0 ((st, []), ({} : MemoSt)) hmk hx .nil

/-- the inner call reports "algorithm started" exactly when the dimension is not 0 and no argument check fired -/
theorem innerRun_started {σ : Type} (A : Arith) (caps : WrapCaps) (U : Env σ) (mk : Prob → Alg) (fuel : Nat)
    (v : CoreView) (hl : Bool) (x : List F64) (f0 : F64) (st : σ)
    (hs : (innerRun A caps U mk fuel v hl x f0 st).2.2 = true) :
    (innerView v (layersOf caps v).maximize (layersOf caps v).elim).n ≠ 0 ∧
    rejectInner A caps (innerView v (layersOf caps v).maximize (layersOf caps v).elim) hl (innerX caps v x) = false := by
  unfold innerRun at hs
  by_cases hn : (innerView v (layersOf caps v).maximize (layersOf caps v).elim).n = 0
  · rw [optimizeInner_zero _ _ _ _ _ _ _ _ _ _ hn] at hs; simp at hs
  · refine ⟨hn, ?_⟩
    cases hr : rejectInner A caps (innerView v (layersOf caps v).maximize (layersOf caps v).elim) hl (innerX caps v x) with
    | false => rfl
    | true => rw [optimizeInner_reject _ _ _ _ _ _ _ _ _ _ hn hr] at hs; simp at hs

/-- once started, the inner call IS the run of the algorithm -/
theorem innerRun_eq_algRun {σ : Type} (A : Arith) (caps : WrapCaps) (U : Env σ) (mk : Prob → Alg) (fuel : Nat)
    (v : CoreView) (hl : Bool) (x : List F64) (f0 : F64) (st : σ)
    (hn : (innerView v (layersOf caps v).maximize (layersOf caps v).elim).n ≠ 0)
    (hr : rejectInner A caps (innerView v (layersOf caps v).maximize (layersOf caps v).elim) hl (innerX caps v x) = false) :
    innerRun A caps U mk fuel v hl x f0 st =
      ((algRun caps U mk fuel v x st).1.map
          (fun a => (⟨a.ret, a.x, a.minf, a.numevals, (algRun caps U mk fuel v x st).2.2⟩ : InnerOut)),
       (algRun caps U mk fuel v x st).2.1, true) := by
  unfold innerRun
  rw [optimizeInner_run _ _ _ _ _ _ _ _ _ _ hn hr]
  rfl

/-! ## dimension elimination = the hand-reduced problem -/

theorem shrink_map {α β : Type} (f : α → β) (lb ub : List F64) (l : List α) :
    shrink lb ub (l.map f) = (shrink lb ub l).map f := by
  induction lb generalizing ub l with
  | nil => simp [shrink]
  | cons a lb ih =>
    cases ub with
    | nil => simp [shrink]
    | cons u ub =>
      cases l with
      | nil => simp [shrink]
      | cons y l =>
        simp only [List.map_cons, shrink]
        split <;> simp [ih]

/-- the object a user would set up by hand after removing the fixed coordinates -/
def reducedView (v : CoreView) : CoreView :=
  { v with n := elimDimension (optV v.lb) (optV v.ub),
           lb := v.lb.map (shrink (optV v.lb) (optV v.ub)), ub := v.ub.map (shrink (optV v.lb) (optV v.ub)),
           xtolAbs := v.xtolAbs.map (shrink (optV v.lb) (optV v.ub)),
           xWeights := v.xWeights.map (shrink (optV v.lb) (optV v.ub)),
           dx := v.dx.map (shrink (optV v.lb) (optV v.ub)) }

/-- the reduced user's answer: gradients of scalar functions restricted to the free coordinates -/
def redAns (L : Layers) (fn : FnRef) (a : Answer) : Answer :=
  if L.isVec fn then a else { a with grad := a.grad.map (shrink L.lb L.ub) }

/-- the reduced user: re-inserts the fixed coordinates, calls the original callbacks (same gradient request),
    restricts scalar gradients -/
def reducedUser {σ : Type} (L : Layers) (U : Env σ) : Env σ :=
  { call := fun st q => ((U.call st { q with x := expand L.lb L.ub q.x }).1,
                         redAns L q.fn (U.call st { q with x := expand L.lb L.ub q.x }).2) }

theorem layersOf_reducedView (caps : WrapCaps) (v : CoreView) :
    layersOf caps (reducedView v) =
      { layersOf caps v with
          elim := false,
          lb := shrink (optV v.lb) (optV v.ub) (optV v.lb), ub := shrink (optV v.lb) (optV v.ub) (optV v.ub) } := by
  simp only [layersOf, reducedView, optV_map_shrink, elimDimension_shrink]
  simp

/-- the hook fields play no role in `optimizeInner` -/
theorem optimizeInner_munge {σ : Type} (A : Arith) (caps : WrapCaps) (E : Env σ) (mk : Prob → Alg) (fuel : Nat)
    (v : CoreView) (hl : Bool) (x : List F64) (f0 : F64) (st : σ) :
    optimizeInner A caps E mk fuel v hl x f0 st =
      optimizeInner A caps E mk fuel { v with mungeD := false, mungeC := false } hl x f0 st := rfl

theorem innerView_reducedView (v : CoreView) (m : Bool) :
    ({ innerView (reducedView v) m false with mungeD := false, mungeC := false } : CoreView) = innerView v m true := by
  cases m <;> simp [innerView, reducedView, optV_map_shrink]

/-- the problem the algorithm receives is literally the same value -/
theorem innerProb_reducedView (caps : WrapCaps) (v : CoreView) (x : List F64) (hel : (layersOf caps v).elim = true) :
    innerProb caps (reducedView v) (shrink (optV v.lb) (optV v.ub) x) = innerProb caps v x := by
  unfold innerProb
  rw [layersOf_reducedView]
  simp only [hel, Bool.false_eq_true, if_false, if_true, layersOf_lb, layersOf_ub]
  rw [← innerView_reducedView v (layersOf caps v).maximize]

theorem lastStop_congr (l₁ l₂ : List (Query × Answer)) (h : AllRel (fun u r => u.2.stop = r.2.stop) l₁ l₂) :
    lastStop l₁ = lastStop l₂ := by
  unfold lastStop
  generalize (0 : Int) = acc
  induction h generalizing acc with
  | nil => rfl
  | cons h1 _ ih => simp only [List.foldl_cons, h1]; exact ih _

/-- what T5 asks of the algorithm's queries: reduced dimension, no gradient request for vector constraints -/
def ElimQ (L : Layers) (q : Query) : Prop :=
  q.x.length = elimDimension L.lb L.ub ∧ (L.isVec q.fn = true → q.wantGrad = false)

/-- entry-by-entry relation between the user trace of the eliminated run and that of the hand-reduced run -/
def ElimEntry (L : Layers) (u r : Query × Answer) : Prop :=
  u.1 = { r.1 with x := expand L.lb L.ub r.1.x } ∧ r.1.x.length = elimDimension L.lb L.ub ∧
  r.2 = redAns L r.1.fn u.2

/-- the simulation relation of T5 -/
def ElimRel {σ : Type} (L : Layers) (s t : (σ × List (Query × Answer)) × MemoSt) : Prop :=
  t.1.1 = s.1.1 ∧ s.2.minf = t.2.minf ∧ s.2.bestx = t.2.bestx.map (expand L.lb L.ub) ∧
  AllRel (ElimEntry L) s.1.2 t.1.2

/-- the layers of the reduced run -/
def Layers.reduced (L : Layers) : Layers :=
  { L with elim := false, lb := shrink L.lb L.ub L.lb, ub := shrink L.lb L.ub L.ub }

theorem userQuery_elim (L : Layers) (hel : L.elim = true) (q : Query) (hq : ElimQ L q) :
    L.userQuery q = { q with x := expand L.lb L.ub q.x } := by
  unfold Layers.userQuery
  simp only [hel, if_true, Bool.true_and]
  cases hv : L.isVec q.fn with
  | false => simp
  | true => simp [hq.2 hv]

theorem userQuery_reduced (L : Layers) (q : Query) : L.reduced.userQuery q = q := by
  cases q; simp [Layers.userQuery, Layers.reduced]

theorem isVec_reduced (L : Layers) (fn : FnRef) : L.reduced.isVec fn = L.isVec fn := by
  cases fn <;> rfl

theorem algAnswer_elim (L : Layers) (hel : L.elim = true) (m mr : MemoSt) (q : Query) (ua : Answer)
    (hlen : q.x.length = elimDimension L.lb L.ub)
    (hm1 : m.minf = mr.minf) (hm2 : m.bestx = mr.bestx.map (expand L.lb L.ub)) :
    (L.algAnswer m { q with x := expand L.lb L.ub q.x } ua).2 = (L.reduced.algAnswer mr q (redAns L q.fn ua)).2 ∧
    (L.algAnswer m { q with x := expand L.lb L.ub q.x } ua).1.minf =
      (L.reduced.algAnswer mr q (redAns L q.fn ua)).1.minf ∧
    (L.algAnswer m { q with x := expand L.lb L.ub q.x } ua).1.bestx =
      (L.reduced.algAnswer mr q (redAns L q.fn ua)).1.bestx.map (expand L.lb L.ub) := by
  have hfeas := memoFeasible_expand L.lb L.ub q.x hlen
  unfold Layers.algAnswer
  cases hfn : q.fn with
  | obj =>
    have hv : L.isVec .obj = false := rfl
    simp only [redAns, hv, Bool.false_eq_true, if_false, hel, if_true]
    have hr1 : L.reduced.maximize = L.maximize := rfl
    have hr2 : L.reduced.memo = L.memo := rfl
    have hr3 : L.reduced.elim = false := rfl
    have hr4 : L.reduced.lb = shrink L.lb L.ub L.lb := rfl
    have hr5 : L.reduced.ub = shrink L.lb L.ub L.ub := rfl
    simp only [hr1, hr2, hr3, hr4, hr5, Bool.false_eq_true, if_false, hfeas, hm1]
    refine ⟨?_, ?_, ?_⟩
    · cases L.maximize <;> cases ua.grad <;> simp [shrink_map]
    · cases L.memo <;> simp [hm1]
      split <;> try simp [hm1]
      split <;> simp [hm1]
    · cases L.memo <;> simp [hm2]
      split <;> try simp [hm2]
      split <;> simp [hm2]
  | ineq i =>
    simp only [redAns, hel, isVec_reduced, Bool.true_and]
    have hr3 : L.reduced.elim = false := rfl
    simp only [hr3, Bool.false_and, Bool.false_eq_true, if_false, hm1, hm2]
    cases L.isVec (.ineq i) <;> simp
  | eq i =>
    simp only [redAns, hel, isVec_reduced, Bool.true_and]
    have hr3 : L.reduced.elim = false := rfl
    simp only [hr3, Bool.false_and, Bool.false_eq_true, if_false, hm1, hm2]
    cases L.isVec (.eq i) <;> simp

theorem wrappedEnv_elim_step {σ : Type} (L : Layers) (hel : L.elim = true) (U : Env σ)
    (s t : (σ × List (Query × Answer)) × MemoSt) (q : Query) (hq : ElimQ L q) (hR : ElimRel L s t) :
    ((wrappedEnv L U).call s q).2 = ((wrappedEnv L.reduced (reducedUser L U)).call t q).2 ∧
    ElimRel L ((wrappedEnv L U).call s q).1 ((wrappedEnv L.reduced (reducedUser L U)).call t q).1 := by
  obtain ⟨⟨st, ut⟩, m⟩ := s
  obtain ⟨⟨st', utr⟩, mr⟩ := t
  obtain ⟨h1, h2, h3, h4⟩ := hR
  simp only at h1 h2 h3 h4
  subst h1
  rw [wrappedEnv_call_init, wrappedEnv_call_init, userQuery_elim L hel q hq, userQuery_reduced]
  simp only [reducedUser]
  obtain ⟨a1, a2, a3⟩ := algAnswer_elim L hel m mr q (U.call st' { q with x := expand L.lb L.ub q.x }).2 hq.1 h2 h3
  exact ⟨a1, rfl, a2, a3, h4.snoc ⟨rfl, hq.1, rfl⟩⟩

theorem layersOf_reducedView' (caps : WrapCaps) (v : CoreView) :
    layersOf caps (reducedView v) = (layersOf caps v).reduced :=
  (layersOf_reducedView caps v).trans rfl

theorem innerRun_elim {σ : Type} (A : Arith) (caps : WrapCaps) (U : Env σ) (mk : Prob → Alg) (fuel : Nat)
    (v : CoreView) (hl : Bool) (x : List F64) (f0 : F64) (st : σ)
    (hel : (layersOf caps v).elim = true)
    (hbox : (optV v.lb).length = (optV v.ub).length) (hx : x.length = (optV v.lb).length)
    (hmk : (mk (innerProb caps v x)).queriesSat (ElimQ (layersOf caps v))) :
    (innerRun A caps U mk fuel v hl x f0 st).1 =
      (innerRun A caps (reducedUser (layersOf caps v) U) mk fuel (reducedView v) hl
        (shrink (optV v.lb) (optV v.ub) x) f0 st).1 ∧
    ElimRel (layersOf caps v) (innerRun A caps U mk fuel v hl x f0 st).2.1
      (innerRun A caps (reducedUser (layersOf caps v) U) mk fuel (reducedView v) hl
        (shrink (optV v.lb) (optV v.ub) x) f0 st).2.1 := by
  have hix : innerX caps v x = shrink (optV v.lb) (optV v.ub) x := by
    unfold innerX; simp [hel, layersOf_lb, layersOf_ub]
  have e2 : innerRun A caps (reducedUser (layersOf caps v) U) mk fuel (reducedView v) hl
        (shrink (optV v.lb) (optV v.ub) x) f0 st =
      optimizeInner A caps (wrappedEnv (layersOf caps v).reduced (reducedUser (layersOf caps v) U)) mk fuel
        (innerView v (layersOf caps v).maximize true) hl (shrink (optV v.lb) (optV v.ub) x) f0
        ((st, []), ({} : MemoSt)) := by
    unfold innerRun innerX
    rw [layersOf_reducedView']
    have hr3 : (layersOf caps v).reduced.elim = false := rfl
    have hr1 : (layersOf caps v).reduced.maximize = (layersOf caps v).maximize := rfl
    simp only [hr3, hr1, Bool.false_eq_true, if_false]
    rw [optimizeInner_munge, innerView_reducedView]
  rw [e2]
  unfold innerRun
  rw [hel, hix]
  have hlen : (shrink (optV v.lb) (optV v.ub) x).length = elimDimension (optV v.lb) (optV v.ub) :=
    length_shrink _ _ _ hbox hx
  have hmk' : (mk ⟨{ innerView v (layersOf caps v).maximize true with numevals := 0, mungeD := false, mungeC := false },
                   shrink (optV v.lb) (optV v.ub) x⟩).queriesSat (ElimQ (layersOf caps v)) := by
    have : innerProb caps v x =
        ⟨{ innerView v (layersOf caps v).maximize true with numevals := 0, mungeD := false, mungeC := false },
         shrink (optV v.lb) (optV v.ub) x⟩ := by
      unfold innerProb; simp [hel, layersOf_lb, layersOf_ub]
    rw [← this]; exact hmk
  have := optimizeInner_sim_on A caps (wrappedEnv (layersOf caps v) U)
    (wrappedEnv (layersOf caps v).reduced (reducedUser (layersOf caps v) U)) mk (ElimQ (layersOf caps v))
    (ElimRel (layersOf caps v))
    (fun s t q hq hR => wrappedEnv_elim_step (layersOf caps v) hel U s t q hq hR) fuel
    (innerView v (layersOf caps v).maximize true) hl (shrink (optV v.lb) (optV v.ub) x) f0
    ((st, []), ({} : MemoSt)) ((st, []), ({} : MemoSt)) hmk'
    (fun _ => ⟨hlen, fun h => by simp [Layers.isVec] at h⟩) ⟨rfl, rfl, rfl, .nil⟩
  exact ⟨this.1, this.2.1⟩

theorem assemble_optf (caps : WrapCaps) (v : CoreView) (io : InnerOut) (ut : List (Query × Answer)) (m : MemoSt) :
    (assemble caps v io ut m).optf =
      if (layersOf caps v).maximize
      then (if (layersOf caps v).memo && F64.lt m.minf F64.dblMax then m.minf else io.minf).neg
      else (if (layersOf caps v).memo && F64.lt m.minf F64.dblMax then m.minf else io.minf) := by
  simp only [assemble]
  split <;> split <;> rfl

theorem assemble_x (caps : WrapCaps) (v : CoreView) (io : InnerOut) (ut : List (Query × Answer)) (m : MemoSt) :
    (assemble caps v io ut m).x =
      if (layersOf caps v).memo && F64.lt m.minf F64.dblMax
      then m.bestx.getD (if (layersOf caps v).elim then expand (layersOf caps v).lb (layersOf caps v).ub io.x else io.x)
      else (if (layersOf caps v).elim then expand (layersOf caps v).lb (layersOf caps v).ub io.x else io.x) := by
  simp only [assemble]
  split <;> rfl

/-! ## concrete objects for the non-vacuity examples of `Props/Wrap.lean` -/
namespace WrapEx

def two : F64 := ⟨0x4000000000000000⟩
def half : F64 := ⟨0x3FE0000000000000⟩
def negZero : F64 := ⟨0x8000000000000000⟩
def negTwo : F64 := ⟨0xC000000000000000⟩

/-- an `Arith` (the wrapper layer only uses `sub`, in `finite_domain`); `d` = the width it reports for every side -/
def arith (d : F64) : Arith :=
  { add := fun _ _ => F64.zero, sub := fun _ _ => d, mul := fun _ _ => F64.zero, div := fun _ _ => F64.zero,
    sqrt := fun a => a, tanh := fun a => a, atanh := fun a => a, pow := fun a _ => a, log := fun a => a,
    exp := fun a => a, ofInt := fun _ => F64.zero, toInt := fun _ => 0 }

/-- the capability lists of the C source -/
def caps : WrapCaps :=
  { elimAlgs := Gen.elimAlgs, memoAlgs := Gen.memoAlgs, finiteAlgs := Gen.finiteDomainAlgs,
    needLocal := Gen.needLocalAlgs }

/-- COBYLA (25: eliminated and memoized), maximising, n = 2, coordinate 0 fixed at +0.0, coordinate 1 in [0, 2];
    stale counter 5 and stale force-stop flag 9 -/
def view : CoreView :=
  { algorithm := 25, n := 2, f := 1, fdata := 0, pre := 0, maximize := true, params := [],
    lb := some [F64.zero, F64.zero], ub := some [F64.zero, two], fc := [], h := [],
    mungeD := true, mungeC := false, stopval := two, ftolRel := F64.zero, ftolAbs := F64.zero,
    xtolRel := F64.zero, xtolAbs := some [half, half], xWeights := none, maxeval := 100, numevals := 5,
    maxtime := F64.zero, forceStop := 9, pop := 0, vs := 0, dx := none }

def x0 : List F64 := [F64.zero, half]

/-- two objective queries in the reduced dimension (at 1.0 without, at 0.5 with gradient), then a deliberately poor
    answer: FORCED_STOP, x = 1.0, minf = 0 -/
def alg (_ : Prob) : Alg :=
  { S := Nat, init := 0,
    step := fun i _ => match i with
      | 0 => (1, .inl { fn := .obj, x := [F64.one], wantGrad := false })
      | 1 => (2, .inl { fn := .obj, x := [half], wantGrad := true })
      | _ => (i, .inr { ret := rFORCED, x := [F64.one], minf := F64.zero, numevals := 2 }) }

/-- the user: state = number of calls so far; f = `a` on the first call, `b` afterwards, gradient (1, 2) when
    asked, and `nlopt_set_force_stop(opt, 3)` during the second call -/
def user (a b : F64) : Env Nat :=
  { call := fun st q => (st + 1,
      { val := [if st = 0 then a else b],
        grad := if q.wantGrad then some [F64.one, two] else none,
        stop := if st = 1 then some 3 else none }) }

/-- the same object with one vector-valued inequality constraint (m = 2) -/
def viewVec : CoreView :=
  { view with fc := [{ m := 2, isVec := true, fid := 1, pre := 0, fdata := 0, tol := none }] }

/-- an algorithm that asks for the gradient of that vector constraint -/
def algVec (_ : Prob) : Alg :=
  { S := Nat, init := 0,
    step := fun i _ => match i with
      | 0 => (1, .inl { fn := .ineq 0, x := [half], wantGrad := true })
      | _ => (i, .inr { ret := rSUCCESS, x := [half], minf := F64.zero, numevals := 1 }) }

/-- the reference run of the examples -/
abbrev exRun : Option OptOut × Nat :=
  optimize (arith F64.zero) caps (user F64.one two) alg 10 view false x0 F64.zero 0

theorem alg_queriesSat (p : Prob) (P : Query → Prop)
    (h1 : P { fn := .obj, x := [F64.one], wantGrad := false })
    (h2 : P { fn := .obj, x := [half], wantGrad := true }) : (alg p).queriesSat P := by
  intro s a s' q h
  have key : ∀ (s s' : Nat) (q : Query), (alg p).step s a = (s', .inl q) → P q := by
    intro s s' q h
    match s, h with
    | 0, h => cases h; exact h1
    | 1, h => cases h; exact h2
    | n + 2, h => cases h
  exact key s s' q h

end WrapEx

end Nlopt
