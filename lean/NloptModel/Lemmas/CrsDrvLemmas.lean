import NloptModel.Model.CrsDriver
import NloptModel.Lemmas.F64Order
/-! Helper lemmas for `Props/DrvCrs.lean`: the scans `best` / `worst`, one `step`, and the decomposition of `runFrom`. -/
namespace Nlopt.CrsDrv
open Nlopt

/-! ### order facts -/

theorem lt_false_of_le {a b : F64} (h : F64.le a b = true) : F64.lt b a = false := by
  simp [F64.lt, F64.le] at *; intro _ _; omega

theorem lt_of_le_of_lt {a b c : F64} (h1 : F64.le a b = true) (h2 : F64.lt b c = true) : F64.lt a c = true := by
  simp [F64.lt, F64.le] at *
  obtain ⟨⟨ha, _⟩, hab⟩ := h1
  obtain ⟨⟨_, hc⟩, hbc⟩ := h2
  exact ⟨⟨ha, hc⟩, by omega⟩

theorem not_nan_of_lt_left {a b : F64} (h : F64.lt a b = true) : a.isNaN = false := by
  simp [F64.lt] at h; exact h.1.1

/-! ### `best` -/

theorem bestGo_mem (cur : Slot) (l : List Slot) : bestGo cur l = cur ∨ bestGo cur l ∈ l := by
  induction l generalizing cur with
  | nil => simp [bestGo]
  | cons s t ih =>
    simp only [bestGo]
    by_cases hlt : F64.lt s.f cur.f = true
    · simp only [hlt, if_true]
      rcases ih s with h | h
      · right; rw [h]; exact List.mem_cons_self
      · right; exact List.mem_cons_of_mem _ h
    · simp only [hlt]
      rcases ih cur with h | h
      · left; exact h
      · right; exact List.mem_cons_of_mem _ h

theorem best_mem {l : List Slot} (h : l ≠ []) : best l ∈ l := by
  cases l with
  | nil => exact absurd rfl h
  | cons s t =>
    simp only [best]
    rcases bestGo_mem s t with h | h
    · rw [h]; exact List.mem_cons_self
    · exact List.mem_cons_of_mem _ h

/-- the scan never goes up -/
theorem bestGo_le_cur (cur : Slot) (l : List Slot) (hc : cur.f.isNaN = false) :
    F64.le (bestGo cur l).f cur.f = true := by
  induction l generalizing cur with
  | nil => simpa [bestGo] using F64.le_refl_of_not_nan hc
  | cons s t ih =>
    simp only [bestGo]
    by_cases hlt : F64.lt s.f cur.f = true
    · simp only [hlt, if_true]
      exact F64.le_trans' (ih s (not_nan_of_lt_left hlt)) (F64.le_of_lt hlt)
    · simp only [hlt]
      exact ih cur hc

theorem bestGo_le (cur : Slot) (l : List Slot) (hc : cur.f.isNaN = false) (hl : ∀ s ∈ l, s.f.isNaN = false) :
    ∀ s ∈ l, F64.le (bestGo cur l).f s.f = true := by
  induction l generalizing cur with
  | nil => intro s hs; cases hs
  | cons a t ih =>
    intro s hs
    have ha := hl a List.mem_cons_self
    have ht : ∀ s ∈ t, s.f.isNaN = false := fun s hs => hl s (List.mem_cons_of_mem _ hs)
    simp only [bestGo]
    by_cases hlt : F64.lt a.f cur.f = true
    · simp only [hlt, if_true]
      rcases List.mem_cons.mp hs with rfl | hs
      · exact bestGo_le_cur _ t ha
      · exact ih _ ha ht s hs
    · simp only [hlt]
      rcases List.mem_cons.mp hs with rfl | hs
      · have h1 := bestGo_le_cur cur t hc
        have hlt' : F64.lt s.f cur.f = false := by simpa using hlt
        exact F64.le_trans' h1 (F64.le_of_not_nan_of_not_lt ha hc hlt')
      · exact ih _ hc ht s hs

/-- without NaN values the scan returns a least element -/
theorem best_le {l : List Slot} (hl : ∀ s ∈ l, s.f.isNaN = false) : ∀ s ∈ l, F64.le (best l).f s.f = true := by
  cases l with
  | nil => intro s hs; cases hs
  | cons a t =>
    intro s hs
    have ha := hl a List.mem_cons_self
    have ht : ∀ s ∈ t, s.f.isNaN = false := fun s hs => hl s (List.mem_cons_of_mem _ hs)
    simp only [best]
    rcases List.mem_cons.mp hs with rfl | hs
    · exact bestGo_le_cur _ t ha
    · exact bestGo_le _ t ha ht s hs

/-! ### `worst` -/

/-- the accumulator of the scan always is `(j, l₀[j])` for the list `l₀` being scanned -/
theorem worstGo_get (l0 : List Slot) (cur : Nat × Slot) (i : Nat) (l : List Slot)
    (hcur : l0[cur.1]? = some cur.2) (hl : ∀ j, l[j]? = l0[i + j]?) (hlen : l0.length = i + l.length) :
    l0[(worstGo cur i l).1]? = some (worstGo cur i l).2 := by
  induction l generalizing cur i with
  | nil => simpa [worstGo] using hcur
  | cons s t ih =>
    simp only [worstGo]
    apply ih
    · split
      · exact hcur
      · have := hl 0; simp at this; simp [← this]
    · intro j
      have := hl (j + 1)
      simp only [List.getElem?_cons_succ] at this
      rw [this]; congr 1; omega
    · simp at hlen; omega

theorem worst_get {l : List Slot} (h : l ≠ []) : l[(worst l).1]? = some (worst l).2 := by
  cases l with
  | nil => exact absurd rfl h
  | cons s t =>
    simp only [worst]
    apply worstGo_get (s :: t) (0, s) 1 t
    · simp
    · intro j; rw [Nat.add_comm]; simp
    · simp; omega

theorem worst_idx_lt {l : List Slot} (h : l ≠ []) : (worst l).1 < l.length := by
  have := worst_get h
  exact (List.getElem?_eq_some_iff.mp this).1

theorem worst_mem {l : List Slot} (h : l ≠ []) : (worst l).2 ∈ l :=
  List.mem_of_getElem? (worst_get h)

theorem worstGo_ge_cur (cur : Nat × Slot) (i : Nat) (l : List Slot) (hc : cur.2.f.isNaN = false)
    (hl : ∀ s ∈ l, s.f.isNaN = false) : F64.le cur.2.f (worstGo cur i l).2.f = true := by
  induction l generalizing cur i with
  | nil => simpa [worstGo] using F64.le_refl_of_not_nan hc
  | cons s t ih =>
    have hs := hl s List.mem_cons_self
    have ht : ∀ s ∈ t, s.f.isNaN = false := fun s hs => hl s (List.mem_cons_of_mem _ hs)
    simp only [worstGo]
    by_cases hlt : F64.lt s.f cur.2.f = true
    · simp only [hlt, if_true]; exact ih cur (i + 1) hc ht
    · simp only [hlt]
      have hlt' : F64.lt s.f cur.2.f = false := by simpa using hlt
      exact F64.le_trans' (F64.le_of_not_nan_of_not_lt hs hc hlt') (ih (i, s) (i + 1) hs ht)

theorem worstGo_ge (cur : Nat × Slot) (i : Nat) (l : List Slot) (hc : cur.2.f.isNaN = false)
    (hl : ∀ s ∈ l, s.f.isNaN = false) : ∀ s ∈ l, F64.le s.f (worstGo cur i l).2.f = true := by
  induction l generalizing cur i with
  | nil => intro s hs; cases hs
  | cons a t ih =>
    intro s hs
    have ha := hl a List.mem_cons_self
    have ht : ∀ s ∈ t, s.f.isNaN = false := fun s hs => hl s (List.mem_cons_of_mem _ hs)
    simp only [worstGo]
    by_cases hlt : F64.lt a.f cur.2.f = true
    · simp only [hlt, if_true]
      rcases List.mem_cons.mp hs with rfl | hs
      · exact F64.le_trans' (F64.le_of_lt hlt) (worstGo_ge_cur cur (i + 1) t hc ht)
      · exact ih cur (i + 1) hc ht s hs
    · simp only [hlt]
      rcases List.mem_cons.mp hs with rfl | hs
      · exact worstGo_ge_cur (i, s) (i + 1) t ha ht
      · exact ih (i, a) (i + 1) ha ht s hs

/-- without NaN values the scan returns a greatest element -/
theorem worst_ge {l : List Slot} (hl : ∀ s ∈ l, s.f.isNaN = false) : ∀ s ∈ l, F64.le s.f (worst l).2.f = true := by
  cases l with
  | nil => intro s hs; cases hs
  | cons a t =>
    intro s hs
    have ha := hl a List.mem_cons_self
    have ht : ∀ s ∈ t, s.f.isNaN = false := fun s hs => hl s (List.mem_cons_of_mem _ hs)
    simp only [worst]
    rcases List.mem_cons.mp hs with rfl | hs
    · exact worstGo_ge_cur (0, s) 1 t ha ht
    · exact worstGo_ge (0, a) 1 t ha ht s hs

/-! ### one `step`, case by case -/

theorem step_cont_cases {A : Arith} {S : Sel} {c : Cfg} {st st' : St} {e : Ev} (h : step A S c st e = .cont st') :
    e.forced = false ∧ st'.nevals = st.nevals + 1 ∧ Stop.evals c.maxeval ((st.nevals + 1 : Nat) : Int) = false ∧
    ( (st.inc = none ∧ F64.lt e.f c.minfMax = false ∧ st'.pop = st.pop ++ [e.slot] ∧
         ((st'.inc = none ∧ st'.pop.length < c.N) ∨ (st'.inc = some (S.best st'.pop) ∧ ¬ st'.pop.length < c.N)))
    ∨ (∃ inc, st.inc = some inc ∧ F64.lt e.f (S.worst st.pop).2.f = false ∧ st'.pop = st.pop ∧ st'.inc = some inc)
    ∨ (∃ inc, st.inc = some inc ∧ F64.lt e.f (S.worst st.pop).2.f = true ∧
         st'.pop = st.pop.set (S.worst st.pop).1 e.slot ∧
         ((F64.lt (S.best st'.pop).f inc.f = true ∧ st'.inc = some (S.best st'.pop)) ∨
          (F64.lt (S.best st'.pop).f inc.f = false ∧ st'.inc = some inc))) ) := by
  unfold step at h
  split at h
  · rename_i hinc
    unfold stepInit at h
    simp only at h
    split at h
    · cases h
    split at h
    · cases h
    split at h
    · cases h
    split at h <;> (cases h; simp_all)
  · rename_i inc hinc
    unfold stepMain at h
    simp only at h
    split at h
    · cases h
    split at h
    · split at h
      · split at h
        · cases h
        split at h
        · cases h
        split at h
        · cases h
        split at h
        · cases h
        cases h; simp_all
      · split at h
        · cases h
        cases h; simp_all
    · split at h
      · cases h
      cases h; simp_all

theorem step_done_cases {A : Arith} {S : Sel} {c : Cfg} {st : St} {r : Res} {e : Ev} (h : step A S c st e = .done r) :
    r.short = false ∧ r.nevals = st.nevals + 1 ∧
    ( (e.forced = true ∧ r.ret = -5 ∧
        ((st.inc = none ∧ r.x = c.x0 ∧ r.minf = none) ∨ (∃ inc, st.inc = some inc ∧ r.x = inc.x ∧ r.minf = some inc.f)))
    ∨ (e.forced = false ∧ st.inc = none ∧
        r.x = (S.best (st.pop ++ [e.slot])).x ∧ r.minf = some (S.best (st.pop ++ [e.slot])).f ∧
        ((r.ret = 2 ∧ F64.lt e.f c.minfMax = true) ∨
         (r.ret = 5 ∧ F64.lt e.f c.minfMax = false ∧ Stop.evals c.maxeval ((st.nevals + 1 : Nat) : Int) = true)))
    ∨ (e.forced = false ∧ ∃ inc, st.inc = some inc ∧ r.x = inc.x ∧ r.minf = some inc.f ∧ r.ret = 5 ∧
        Stop.evals c.maxeval ((st.nevals + 1 : Nat) : Int) = true ∧
        (F64.lt e.f (S.worst st.pop).2.f = false ∨
         (F64.lt e.f (S.worst st.pop).2.f = true ∧
          F64.lt (S.best (st.pop.set (S.worst st.pop).1 e.slot)).f inc.f = false)))
    ∨ (e.forced = false ∧ ∃ inc, st.inc = some inc ∧ F64.lt e.f (S.worst st.pop).2.f = true ∧
        F64.lt (S.best (st.pop.set (S.worst st.pop).1 e.slot)).f inc.f = true ∧
        r.x = (S.best (st.pop.set (S.worst st.pop).1 e.slot)).x ∧
        r.minf = some (S.best (st.pop.set (S.worst st.pop).1 e.slot)).f ∧
        ((r.ret = 2 ∧ F64.lt (S.best (st.pop.set (S.worst st.pop).1 e.slot)).f c.minfMax = true) ∨
         (r.ret = 3 ∧ F64.lt (S.best (st.pop.set (S.worst st.pop).1 e.slot)).f c.minfMax = false ∧
            Stop.f A c.stopping (S.best (st.pop.set (S.worst st.pop).1 e.slot)).f inc.f = true) ∨
         (r.ret = 4 ∧ F64.lt (S.best (st.pop.set (S.worst st.pop).1 e.slot)).f c.minfMax = false ∧
            Stop.f A c.stopping (S.best (st.pop.set (S.worst st.pop).1 e.slot)).f inc.f = false ∧
            Stop.x A c.stopping (S.best (st.pop.set (S.worst st.pop).1 e.slot)).x inc.x = true) ∨
         (r.ret = 5 ∧ F64.lt (S.best (st.pop.set (S.worst st.pop).1 e.slot)).f c.minfMax = false ∧
            Stop.f A c.stopping (S.best (st.pop.set (S.worst st.pop).1 e.slot)).f inc.f = false ∧
            Stop.x A c.stopping (S.best (st.pop.set (S.worst st.pop).1 e.slot)).x inc.x = false ∧
            Stop.evals c.maxeval ((st.nevals + 1 : Nat) : Int) = true))) ) := by
  unfold step at h
  split at h
  · rename_i hinc
    unfold stepInit at h
    simp only at h
    split at h
    · cases h; simp_all
    split at h
    · cases h; simp_all [retWith]
    split at h
    · cases h; simp_all [retWith]
    split at h <;> cases h
  · rename_i inc hinc
    unfold stepMain at h
    simp only at h
    split at h
    · cases h; simp_all [retWith]
    split at h
    · split at h
      · split at h
        · cases h; simp_all [retWith]
        split at h
        · cases h; simp_all [retWith]
        split at h
        · cases h; simp_all [retWith]
        split at h
        · cases h; simp_all [retWith]
        cases h
      · split at h
        · cases h; simp_all [retWith]
        cases h
    · split at h
      · cases h; simp_all [retWith]
      cases h

theorem step_forced {A : Arith} {S : Sel} {c : Cfg} {st : St} {e : Ev} (he : e.forced = true) :
    ∃ r, step A S c st e = .done r := by
  unfold step
  split
  · unfold stepInit; simp [he]
  · unfold stepMain; simp [he]

/-! ### `runFrom` = `advance` + one returning `step` -/

theorem runFrom_spec (A : Arith) (S : Sel) (c : Cfg) (st : St) (evs : List Ev) :
    (∃ st', advance A S c st evs = some st' ∧ runFrom A S c st evs = shortRes c st') ∨
    (∃ pre e post st' r, evs = pre ++ e :: post ∧ advance A S c st pre = some st' ∧
        step A S c st' e = .done r ∧ runFrom A S c st evs = r) := by
  induction evs generalizing st with
  | nil => left; exact ⟨st, rfl, rfl⟩
  | cons e es ih =>
    cases hs : step A S c st e with
    | done r =>
      right
      exact ⟨[], e, es, st, r, rfl, rfl, hs, by simp [runFrom, hs]⟩
    | cont st1 =>
      rcases ih st1 with ⟨st', h1, h2⟩ | ⟨pre, e', post, st', r, h1, h2, h3, h4⟩
      · left; exact ⟨st', by simp [advance, hs, h1], by simp [runFrom, hs, h2]⟩
      · right
        exact ⟨e :: pre, e', post, st', r, by simp [h1], by simp [advance, hs, h2], h3, by simp [runFrom, hs, h4]⟩

theorem runFrom_append_of_advance (A : Arith) (S : Sel) (c : Cfg) (st st' : St) (pre rest : List Ev)
    (h : advance A S c st pre = some st') : runFrom A S c st (pre ++ rest) = runFrom A S c st' rest := by
  induction pre generalizing st with
  | nil => simp [advance] at h; subst h; rfl
  | cons e es ih =>
    simp only [advance] at h
    cases hs : step A S c st e with
    | done r => simp [hs] at h
    | cont st1 =>
      simp only [hs] at h
      simp only [List.cons_append, runFrom, hs]
      exact ih st1 h

theorem advance_append (A : Arith) (S : Sel) (c : Cfg) (st st' : St) (pre rest : List Ev)
    (h : advance A S c st pre = some st') : advance A S c st (pre ++ rest) = advance A S c st' rest := by
  induction pre generalizing st with
  | nil => simp [advance] at h; subst h; rfl
  | cons e es ih =>
    simp only [advance] at h
    cases hs : step A S c st e with
    | done r => simp [hs] at h
    | cont st1 =>
      simp only [hs] at h
      simp only [List.cons_append, advance, hs]
      exact ih st1 h

/-- invariants travel along `advance`; `h` is the list of events consumed so far -/
theorem advance_inv (A : Arith) (S : Sel) (c : Cfg) (Inv : List Ev → St → Prop)
    (hstep : ∀ h st e st', Inv h st → step A S c st e = .cont st' → Inv (h ++ [e]) st')
    (h : List Ev) (st st' : St) (pre : List Ev) (h0 : Inv h st) (ha : advance A S c st pre = some st') :
    Inv (h ++ pre) st' := by
  induction pre generalizing h st with
  | nil => simp [advance] at ha; subst ha; simpa using h0
  | cons e es ih =>
    simp only [advance] at ha
    cases hs : step A S c st e with
    | done r => simp [hs] at ha
    | cont st1 =>
      simp only [hs] at ha
      have := ih (h ++ [e]) st1 (hstep h st e st1 h0 hs) ha
      simpa using this

/-! ### the invariant -/

/-- the only thing T3 needs from the tree: the node it reports as minimum is one of its nodes -/
def Sel.BestMem (S : Sel) : Prop := ∀ l : List Slot, l ≠ [] → S.best l ∈ l

theorem scan_bestMem : scan.BestMem := fun _ h => best_mem h

/-- what holds between two evaluations; `h` = the events consumed so far.  `incSrc` needs a tree that reports one of its
    nodes; `ord` is about the consistently ordered tree `scan` only. -/
structure Inv (S : Sel) (c : Cfg) (h : List Ev) (st : St) : Prop where
  nev : st.nevals = h.length
  unforced : ∀ e ∈ h, e.forced = false
  budget : 0 < c.maxeval → (st.nevals : Int) < c.maxeval
  init : st.inc = none → st.pop = h.map Ev.slot
  main : ∀ s, st.inc = some s → st.pop ≠ []
  popSrc : ∀ s ∈ st.pop, ∃ e ∈ h, s = e.slot
  incSrc : S.BestMem → ∀ s, st.inc = some s → ∃ e ∈ h, s = e.slot
  ord : S = scan → (∀ e ∈ h, e.f.isNaN = false) → ∀ m, st.inc = some m →
          (∀ s ∈ st.pop, F64.le m.f s.f = true) ∧ (∀ e ∈ h, F64.le m.f e.f = true)

theorem inv_st0 (S : Sel) (c : Cfg) : Inv S c [] st0 := by
  constructor <;> simp [st0]

theorem evals_false_lt {maxeval : Int} {k : Nat} (h : Stop.evals maxeval (k : Int) = false) (hm : 0 < maxeval) :
    (k : Int) < maxeval := by
  simp [Stop.evals] at h; omega

theorem mem_set_cases {l : List Slot} {i : Nat} {a s : Slot} (h : s ∈ l.set i a) : s ∈ l ∨ s = a :=
  List.mem_or_eq_of_mem_set h

theorem src_mono {h : List Ev} {e : Ev} {s : Slot} (hs : ∃ e' ∈ h, s = e'.slot) : ∃ e' ∈ h ++ [e], s = e'.slot := by
  obtain ⟨e', he', rfl⟩ := hs
  exact ⟨e', List.mem_append_left _ he', rfl⟩

theorem src_new {h : List Ev} {e : Ev} : ∃ e' ∈ h ++ [e], e.slot = e'.slot :=
  ⟨e, by simp, rfl⟩

theorem nan_pre {h : List Ev} {e : Ev} (hnan : ∀ e' ∈ h ++ [e], e'.f.isNaN = false) :
    ∀ e' ∈ h, e'.f.isNaN = false := fun e' he' => hnan e' (List.mem_append_left _ he')

/-! order facts of the consistently ordered tree, for one evaluation after a state satisfying the invariant -/

theorem ord_init {c : Cfg} {h : List Ev} {st : St} {e : Ev} (I : Inv scan c h st) (hnone : st.inc = none)
    (hnan : ∀ e' ∈ h ++ [e], e'.f.isNaN = false) :
    (∀ s ∈ st.pop ++ [e.slot], F64.le (scan.best (st.pop ++ [e.slot])).f s.f = true) ∧
    ∀ e' ∈ h ++ [e], F64.le (scan.best (st.pop ++ [e.slot])).f e'.f = true := by
  have hmap : st.pop ++ [e.slot] = (h ++ [e]).map Ev.slot := by simp [I.init hnone]
  have hpn : ∀ s ∈ st.pop ++ [e.slot], s.f.isNaN = false := by
    intro s hs; rw [hmap] at hs
    obtain ⟨e', he', rfl⟩ := List.mem_map.mp hs
    exact hnan e' he'
  refine ⟨best_le hpn, ?_⟩
  intro e' he'
  apply best_le hpn e'.slot
  rw [hmap]; exact List.mem_map_of_mem he'

theorem ord_rej {c : Cfg} {h : List Ev} {st : St} {e : Ev} {inc : Slot} (I : Inv scan c h st) (hsome : st.inc = some inc)
    (hlt : F64.lt e.f (scan.worst st.pop).2.f = false) (hnan : ∀ e' ∈ h ++ [e], e'.f.isNaN = false) :
    ∀ e' ∈ h ++ [e], F64.le inc.f e'.f = true := by
  have hnan' := nan_pre hnan
  obtain ⟨h1, h2⟩ := I.ord rfl hnan' inc hsome
  intro e' he'
  rcases List.mem_append.mp he' with h3 | h3
  · exact h2 e' h3
  · simp at h3; subst h3
    have hw : (scan.worst st.pop).2 ∈ st.pop := worst_mem (I.main inc hsome)
    obtain ⟨ew, hew, hwe⟩ := I.popSrc _ hw
    have hwn : (scan.worst st.pop).2.f.isNaN = false := by rw [hwe]; exact hnan' ew hew
    have hen : e'.f.isNaN = false := hnan e' (by simp)
    exact F64.le_trans' (h1 _ hw) (F64.le_of_not_nan_of_not_lt hen hwn hlt)

theorem ord_acc {c : Cfg} {h : List Ev} {st : St} {e : Ev} {inc : Slot} (I : Inv scan c h st) (hsome : st.inc = some inc)
    (hnan : ∀ e' ∈ h ++ [e], e'.f.isNaN = false) :
    (F64.lt (scan.best (st.pop.set (scan.worst st.pop).1 e.slot)).f inc.f = true →
      (∀ s ∈ st.pop.set (scan.worst st.pop).1 e.slot,
          F64.le (scan.best (st.pop.set (scan.worst st.pop).1 e.slot)).f s.f = true) ∧
      ∀ e' ∈ h ++ [e], F64.le (scan.best (st.pop.set (scan.worst st.pop).1 e.slot)).f e'.f = true) ∧
    (F64.lt (scan.best (st.pop.set (scan.worst st.pop).1 e.slot)).f inc.f = false →
      (∀ s ∈ st.pop.set (scan.worst st.pop).1 e.slot, F64.le inc.f s.f = true) ∧
      ∀ e' ∈ h ++ [e], F64.le inc.f e'.f = true) := by
  have hne0 := I.main inc hsome
  have hne : st.pop.set (scan.worst st.pop).1 e.slot ≠ [] := by
    intro h0; exact hne0 (by simpa using h0)
  have hsrc : ∀ s ∈ st.pop.set (scan.worst st.pop).1 e.slot, ∃ e' ∈ h ++ [e], s = e'.slot := by
    intro s hs
    rcases mem_set_cases hs with h1 | h1
    · exact src_mono (I.popSrc s h1)
    · subst h1; exact src_new
  have hnew : e.slot ∈ st.pop.set (scan.worst st.pop).1 e.slot :=
    List.mem_set (show (worst st.pop).1 < st.pop.length from worst_idx_lt hne0) _
  have hnan' := nan_pre hnan
  obtain ⟨h1, h2⟩ := I.ord rfl hnan' inc hsome
  have hpn : ∀ s ∈ st.pop.set (scan.worst st.pop).1 e.slot, s.f.isNaN = false := by
    intro s hs
    obtain ⟨e', he', rfl⟩ := hsrc s hs
    exact hnan e' he'
  have hbl : ∀ s ∈ st.pop.set (scan.worst st.pop).1 e.slot,
      F64.le (scan.best (st.pop.set (scan.worst st.pop).1 e.slot)).f s.f = true := best_le hpn
  obtain ⟨ei, hei, hie⟩ := I.incSrc scan_bestMem _ hsome
  have hin : inc.f.isNaN = false := by rw [hie]; exact hnan' ei hei
  have hbn : (scan.best (st.pop.set (scan.worst st.pop).1 e.slot)).f.isNaN = false := hpn _ (best_mem hne)
  constructor
  · intro hlt2
    refine ⟨hbl, ?_⟩
    intro e' he'
    rcases List.mem_append.mp he' with h4 | h4
    · exact F64.le_trans' (F64.le_of_lt hlt2) (h2 e' h4)
    · simp at h4; subst h4; exact hbl _ hnew
  · intro hlt2
    have hmb := F64.le_of_not_nan_of_not_lt hbn hin hlt2
    refine ⟨fun s hs => F64.le_trans' hmb (hbl s hs), ?_⟩
    intro e' he'
    rcases List.mem_append.mp he' with h4 | h4
    · exact h2 e' h4
    · simp at h4; subst h4; exact F64.le_trans' hmb (hbl _ hnew)

theorem inv_step {A : Arith} {S : Sel} {c : Cfg} {h : List Ev} {st st' : St} {e : Ev}
    (I : Inv S c h st) (hs : step A S c st e = .cont st') : Inv S c (h ++ [e]) st' := by
  obtain ⟨hf, hn, hev, hc⟩ := step_cont_cases hs
  have hnev : st'.nevals = (h ++ [e]).length := by simp [hn, I.nev]
  have hunf : ∀ e' ∈ h ++ [e], e'.forced = false := by
    intro e' he'
    rcases List.mem_append.mp he' with h1 | h1
    · exact I.unforced e' h1
    · simp at h1; subst h1; exact hf
  have hbud : 0 < c.maxeval → (st'.nevals : Int) < c.maxeval := by
    intro hm; rw [hn]; exact evals_false_lt hev hm
  rcases hc with ⟨hnone, hlt, hpop, hinc⟩ | ⟨inc, hsome, hlt, hpop, hinc⟩ | ⟨inc, hsome, hlt, hpop, hinc⟩
  · -- crs_init
    have hmap : st'.pop = (h ++ [e]).map Ev.slot := by simp [hpop, I.init hnone]
    have hne : st'.pop ≠ [] := by simp [hpop]
    have hsrc : ∀ s ∈ st'.pop, ∃ e' ∈ h ++ [e], s = e'.slot := by
      intro s hs; rw [hmap] at hs
      obtain ⟨e', he', rfl⟩ := List.mem_map.mp hs
      exact ⟨e', he', rfl⟩
    refine ⟨hnev, hunf, hbud, fun _ => hmap, fun _ _ => hne, hsrc, ?_, ?_⟩
    · intro hS s hs
      rcases hinc with ⟨hi, _⟩ | ⟨hi, _⟩
      · rw [hi] at hs; cases hs
      · rw [hi] at hs; cases hs; exact hsrc _ (hS _ hne)
    · intro hS hnan m hm
      subst hS
      rcases hinc with ⟨hi, _⟩ | ⟨hi, _⟩
      · rw [hi] at hm; cases hm
      · rw [hi] at hm; cases hm
        rw [hpop]
        exact ord_init I hnone hnan
  · -- rejected trial
    have hne : st'.pop ≠ [] := by rw [hpop]; exact I.main inc hsome
    refine ⟨hnev, hunf, hbud, ?_, fun _ _ => hne, ?_, ?_, ?_⟩
    · intro hi; rw [hinc] at hi; cases hi
    · intro s hs; rw [hpop] at hs; exact src_mono (I.popSrc s hs)
    · intro hS s hs; rw [hinc] at hs; cases hs; exact src_mono (I.incSrc hS _ hsome)
    · intro hS hnan m hm
      subst hS
      rw [hinc] at hm; cases hm
      refine ⟨?_, ord_rej I hsome hlt hnan⟩
      rw [hpop]; exact (I.ord rfl (nan_pre hnan) inc hsome).1
  · -- accepted trial
    have hne0 := I.main inc hsome
    have hne : st'.pop ≠ [] := by
      rw [hpop]; intro h0; exact hne0 (by simpa using h0)
    have hsrc : ∀ s ∈ st'.pop, ∃ e' ∈ h ++ [e], s = e'.slot := by
      intro s hs; rw [hpop] at hs
      rcases mem_set_cases hs with h1 | h1
      · exact src_mono (I.popSrc s h1)
      · subst h1; exact src_new
    refine ⟨hnev, hunf, hbud, ?_, fun _ _ => hne, hsrc, ?_, ?_⟩
    · intro hi; rcases hinc with ⟨_, h1⟩ | ⟨_, h1⟩ <;> (rw [h1] at hi; cases hi)
    · intro hS s hs
      rcases hinc with ⟨_, h1⟩ | ⟨_, h1⟩
      · rw [h1] at hs; cases hs; exact hsrc _ (hS _ hne)
      · rw [h1] at hs; cases hs; exact src_mono (I.incSrc hS _ hsome)
    · intro hS hnan m hm
      subst hS
      rw [hpop] at hinc ⊢
      rcases hinc with ⟨hlt2, h3⟩ | ⟨hlt2, h3⟩
      · rw [h3] at hm; cases hm
        exact (ord_acc I hsome hnan).1 hlt2
      · rw [h3] at hm; cases hm
        exact (ord_acc I hsome hnan).2 hlt2

/-- phase invariant: `crs_init` lasts exactly for the first `N` evaluations -/
structure InvN (c : Cfg) (st : St) : Prop where
  initLt : st.inc = none → st.nevals < c.N
  mainGe : ∀ s, st.inc = some s → c.N ≤ st.nevals

theorem N_pos {c : Cfg} (hv : c.invalid = false) : 0 < c.N := by
  simp [Cfg.invalid] at hv
  simp [Cfg.N]; omega

theorem invN_st0 {c : Cfg} (hv : c.invalid = false) : InvN c st0 :=
  ⟨fun _ => N_pos hv, fun s hs => by simp [st0] at hs⟩

theorem invN_step {A : Arith} {S : Sel} {c : Cfg} {h : List Ev} {st st' : St} {e : Ev}
    (I : Inv S c h st) (J : InvN c st) (hs : step A S c st e = .cont st') : InvN c st' := by
  obtain ⟨_, hn, _, hc⟩ := step_cont_cases hs
  rcases hc with ⟨hnone, _, hpop, hinc⟩ | ⟨inc, hsome, _, _, hinc⟩ | ⟨inc, hsome, _, _, hinc⟩
  · have hlen : st'.pop.length = st'.nevals := by
      rw [hpop, I.init hnone, hn, I.nev]; simp
    rcases hinc with ⟨hi, hl⟩ | ⟨hi, hl⟩
    · exact ⟨fun _ => (by omega), fun s hs => (by rw [hi] at hs; cases hs)⟩
    · exact ⟨fun h0 => (by rw [hi] at h0; cases h0), fun _ _ => by omega⟩
  · have := J.mainGe inc hsome
    exact ⟨fun h0 => (by rw [hinc] at h0; cases h0), fun _ _ => by omega⟩
  · have := J.mainGe inc hsome
    refine ⟨fun h0 => ?_, fun _ _ => by omega⟩
    rcases hinc with ⟨_, h1⟩ | ⟨_, h1⟩ <;> (rw [h1] at h0; cases h0)

theorem advance_invN (A : Arith) (S : Sel) (c : Cfg) (hv : c.invalid = false) (st' : St) (pre : List Ev)
    (ha : advance A S c st0 pre = some st') : Inv S c pre st' ∧ InvN c st' := by
  have := advance_inv A S c (fun h st => Inv S c h st ∧ InvN c st)
    (fun _ _ _ _ I hs => ⟨inv_step I.1 hs, invN_step I.1 I.2 hs⟩) [] st0 st' pre ⟨inv_st0 S c, invN_st0 hv⟩ ha
  simpa using this


/-! ### `runWith`, decomposed -/

theorem run_spec (A : Arith) (S : Sel) (c : Cfg) (evs : List Ev) :
    (c.invalid = true ∧ runWith A S c evs = invalidRes c) ∨
    (c.invalid = false ∧ ∃ st', advance A S c st0 evs = some st' ∧ Inv S c evs st' ∧
        runWith A S c evs = shortRes c st') ∨
    (c.invalid = false ∧ ∃ pre e post st' r, evs = pre ++ e :: post ∧ advance A S c st0 pre = some st' ∧
        Inv S c pre st' ∧ step A S c st' e = .done r ∧ runWith A S c evs = r) := by
  cases hi : c.invalid with
  | true => left; exact ⟨rfl, by simp [runWith, hi]⟩
  | false =>
    right
    have hr : runWith A S c evs = runFrom A S c st0 evs := by simp [runWith, hi]
    rcases runFrom_spec A S c st0 evs with ⟨st', h1, h2⟩ | ⟨pre, e, post, st', r, h1, h2, h3, h4⟩
    · left
      have := advance_inv A S c (Inv S c) (fun _ _ _ _ I hs => inv_step I hs) [] st0 st' evs (inv_st0 S c) h1
      exact ⟨rfl, st', h1, by simpa using this, by rw [hr, h2]⟩
    · right
      have := advance_inv A S c (Inv S c) (fun _ _ _ _ I hs => inv_step I hs) [] st0 st' pre (inv_st0 S c) h2
      exact ⟨rfl, pre, e, post, st', r, h1, h2, by simpa using this, h3, by rw [hr, h4]⟩

theorem shortRes_short (c : Cfg) (st : St) : (shortRes c st).short = true := by
  unfold shortRes; split <;> rfl

theorem shortRes_nevals (c : Cfg) (st : St) : (shortRes c st).nevals = st.nevals := by
  unfold shortRes; split <;> rfl

theorem shortRes_ret (c : Cfg) (st : St) : (shortRes c st).ret = 0 := by
  unfold shortRes; split <;> rfl

theorem take_consumed {pre post : List Ev} {e : Ev} : (pre ++ e :: post).take (pre.length + 1) = pre ++ [e] := by
  rw [List.take_append]
  simp [List.take_of_length_le]

end Nlopt.CrsDrv
