import NloptModel.Model.IsresAlg
import NloptModel.Lemmas.IsresDrvLemmas
import NloptModel.Lemmas.EschAlgLemmas
import NloptModel.Props.DrvIsres
/-! Refinement: a returned run of the machine `IsresAlg.mk A P c` against ANY environment is a returned run of the
    control-flow model `IsresDrv.run A c` on the events of the trace. -/
set_option linter.unusedSimpArgs false
set_option linter.unusedVariables false
namespace Nlopt.IsresAlg
open Nlopt Nlopt.IsresDrv
open Nlopt.EschAlg (valOf forcedOf qOf ObjOnly objOnly_snoc runAlg_succ)

@[simp] theorem events_nil : events [] = [] := rfl
@[simp] theorem events_append (a b : List (Query × Answer)) : events (a ++ b) = events a ++ events b := by
  simp [events]
@[simp] theorem events_length (tr : List (Query × Answer)) : (events tr).length = tr.length := by
  simp [events]
@[simp] theorem events_cons (p : Query × Answer) (tr : List (Query × Answer)) :
    events (p :: tr) = evOf p :: events tr := rfl

theorem step_done {A : Arith} {c : Cfg} {s : St} {e : Ev} {R : Res} (h : step A c s e = .done R) :
    ∃ r, verdict A c s e = some r ∧ R = (post A c s e).res r := by
  unfold step at h
  cases hv : verdict A c s e with
  | none => rw [hv] at h; cases h
  | some r => rw [hv] at h; cases h; exact ⟨r, rfl, rfl⟩

theorem step_cont {A : Arith} {c : Cfg} {s d : St} {e : Ev} (h : step A c s e = .cont d) :
    verdict A c s e = none ∧ d = post A c s e := by
  unfold step at h
  cases hv : verdict A c s e with
  | none => rw [hv] at h; cases h; exact ⟨rfl, rfl⟩
  | some r => rw [hv] at h; cases h

theorem evals_false_lt {maxeval : Int} {k : Nat} (h : Stop.evals maxeval (k : Int) = false) (hm : 0 < maxeval) :
    (k : Int) < maxeval := by
  simp [Stop.evals] at h; omega

/-- the invariant of `runAlg (mk A P c)`: `tr` = trace so far, `a` = the answer about to be delivered -/
def J (A : Arith) (P : Proposer) (c : Cfg) (s : S P) (a : Option Answer) (tr : List (Query × Answer)) : Prop :=
  ObjOnly tr ∧
  match a with
  | none => tr = [] ∧ s.drv = St.init c ∧ s.cur = c.x0
  | some ans => valid c = true ∧ ∃ tr0, tr = tr0 ++ [(qOf s.cur, ans)] ∧
      (go A c (St.init c) (events tr0)).short = true ∧ s.drv = (events tr0).foldl (post A c) (St.init c) ∧
      (∀ p, tr.head? = some p → p.1.x = c.x0)

/-- core of the refinement, for `runAlg` from any state satisfying the invariant -/
theorem runAlg_refines {σ : Type} (A : Arith) (P : Proposer) (c : Cfg) (E : Env σ) :
    ∀ (fuel : Nat) (s : S P) (a : Option Answer) (st : σ) (tr : List (Query × Answer)),
      J A P c s a tr →
      ∀ r st' tr', runAlg (mk A P c) E fuel s a st tr = (some r, st', tr') →
        ∃ R, IsresDrv.run A c (events tr') = R ∧ R.short = false ∧ r = toAlgResult R ∧ R.nevals = tr'.length ∧
          ObjOnly tr' ∧ (∀ p, tr'.head? = some p → p.1.x = c.x0) := by
  intro fuel
  induction fuel with
  | zero =>
    intro s a st tr _ r st' tr' h
    simp [runAlg] at h
  | succ n ih =>
    intro s a st tr hJ r st' tr' h
    obtain ⟨hobj, hJ⟩ := hJ
    rw [runAlg_succ] at h
    cases a with
    | none =>
      obtain ⟨rfl, hd, hc⟩ := hJ
      cases hv : valid c with
      | false =>
        have hs : (mk A P c).step s none = (s, .inr (toAlgResult (invalidRes c))) := by
          show stepS A P c s none = _
          simp [stepS, hv]
        rw [hs] at h
        simp only [Prod.mk.injEq, Option.some.injEq] at h
        obtain ⟨hr, _, htr⟩ := h
        subst htr
        refine ⟨invalidRes c, by simp [IsresDrv.run, hv, invalidRes], rfl, hr.symm, rfl, hobj, ?_⟩
        intro p hp; simp at hp
      | true =>
        have hs : (mk A P c).step s none = (s, .inl (qOf s.cur)) := by
          show stepS A P c s none = _
          simp [stepS, hv]
        rw [hs] at h
        simp only [List.nil_append] at h
        have hJ' : J A P c s (some (E.call st (qOf s.cur)).2) [(qOf s.cur, (E.call st (qOf s.cur)).2)] := by
          refine ⟨?_, hv, [], rfl, ?_, ?_, ?_⟩
          · simpa using objOnly_snoc hobj s.cur (E.call st (qOf s.cur)).2
          · rfl
          · rw [hd]; rfl
          · intro p hp
            simp only [List.head?_cons, Option.some.injEq] at hp
            subst hp; exact hc
        exact ih s _ _ _ hJ' r st' tr' h
    | some ans =>
      obtain ⟨hv, tr0, rfl, hshort, hdrv, hhead⟩ := hJ
      obtain ⟨h1, h2⟩ := DrvIsres.go_append_short A c [evOf (qOf s.cur, ans)] (events tr0) (St.init c) hshort
      rw [← hdrv] at h1 h2
      have hn : s.drv.nev = tr0.length := by
        rw [h2]; simp [St.init]
      cases hstep : step A c s.drv (evOf (qOf s.cur, ans)) with
      | done R =>
        have hs : (mk A P c).step s (some ans) = (s, .inr (toAlgResult R)) := by
          show stepS A P c s (some ans) = _
          simp only [stepS, hstep]
        rw [hs] at h
        simp only [Prod.mk.injEq, Option.some.injEq] at h
        obtain ⟨hr, _, htr⟩ := h
        subst htr
        obtain ⟨rc, hvd, hR⟩ := step_done hstep
        have hrun : IsresDrv.run A c (events (tr0 ++ [(qOf s.cur, ans)])) = R := by
          simp only [IsresDrv.run, hv, if_true]
          rw [events_append]
          show go A c (St.init c) (events tr0 ++ [evOf (qOf s.cur, ans)]) = R
          rw [h1, hR]
          simp [go, hvd]
        refine ⟨R, hrun, by rw [hR]; rfl, hr.symm, ?_, hobj, hhead⟩
        rw [hR]
        simp [St.res, post_nev, hn]
      | cont d' =>
        have hs : (mk A P c).step s (some ans) =
            ({ drv := d', ps := (P.next s.ps d' s.cur ans).1, cur := (P.next s.ps d' s.cur ans).2 },
             .inl (qOf (P.next s.ps d' s.cur ans).2)) := by
          show stepS A P c s (some ans) = _
          simp only [stepS, hstep]
        rw [hs] at h
        obtain ⟨hvd, hd'⟩ := step_cont hstep
        refine ih _ _ _ _ ?_ r st' tr' h
        refine ⟨objOnly_snoc hobj _ _, hv, tr0 ++ [(qOf s.cur, ans)], rfl, ?_, ?_, ?_⟩
        · rw [events_append]
          show (go A c (St.init c) (events tr0 ++ [evOf (qOf s.cur, ans)])).short = true
          rw [h1]
          simp [go, hvd, St.res]
        · rw [events_append]
          show d' = List.foldl (post A c) (St.init c) (events tr0 ++ [evOf (qOf s.cur, ans)])
          rw [List.foldl_append, ← hdrv, hd']
          rfl
        · intro p hp
          apply hhead p
          cases tr0 <;> simpa using hp

/-- Termination under an evaluation budget: from a state with `nev < maxeval`, `maxeval - nev` further steps suffice
    for the machine to return, whatever the proposer proposes and the environment answers. -/
theorem runAlg_returns {σ : Type} (A : Arith) (P : Proposer) (c : Cfg) (E : Env σ) (hmax : 0 < c.stop.maxeval) :
    ∀ (fuel : Nat) (s : S P) (ans : Answer) (st : σ) (tr : List (Query × Answer)),
      (s.drv.nev : Int) < c.stop.maxeval → c.stop.maxeval - s.drv.nev ≤ fuel →
      ∃ r, (runAlg (mk A P c) E fuel s (some ans) st tr).1 = some r := by
  intro fuel
  induction fuel with
  | zero => intro s ans st tr h1 h2; exfalso; omega
  | succ n ih =>
    intro s ans st tr h1 h2
    rw [runAlg_succ]
    cases hstep : step A c s.drv (evOf (qOf s.cur, ans)) with
    | done R =>
      have hs : (mk A P c).step s (some ans) = (s, .inr (toAlgResult R)) := by
        show stepS A P c s (some ans) = _
        simp only [stepS, hstep]
      rw [hs]
      exact ⟨_, rfl⟩
    | cont d' =>
      have hs : (mk A P c).step s (some ans) =
          ({ drv := d', ps := (P.next s.ps d' s.cur ans).1, cur := (P.next s.ps d' s.cur ans).2 },
           .inl (qOf (P.next s.ps d' s.cur ans).2)) := by
        show stepS A P c s (some ans) = _
        simp only [stepS, hstep]
      rw [hs]
      obtain ⟨hvd, hd'⟩ := step_cont hstep
      obtain ⟨_, hev, _⟩ := verdict_none hvd
      have hlt := evals_false_lt hev hmax
      have hn : d'.nev = s.drv.nev + 1 := by rw [hd', post_nev]
      apply ih
      · simp only [hn]; omega
      · simp only [hn]; omega

/-- with `maxeval > 0`, fuel `maxeval + 1` (one step per evaluation plus the step that returns) is enough -/
theorem run_returns {σ : Type} (A : Arith) (P : Proposer) (c : Cfg) (E : Env σ) (hmax : 0 < c.stop.maxeval)
    (fuel : Nat) (hfuel : c.stop.maxeval + 1 ≤ fuel) (st : σ) : ∃ r, (Nlopt.run (mk A P c) E fuel st).1 = some r := by
  cases fuel with
  | zero => exfalso; omega
  | succ n =>
    unfold Nlopt.run
    rw [runAlg_succ]
    cases hv : valid c with
    | false =>
      have hs : (mk A P c).step (mk A P c).init none = ((mk A P c).init, .inr (toAlgResult (invalidRes c))) := by
        show stepS A P c _ none = _
        simp [stepS, hv]
      rw [hs]
      exact ⟨_, rfl⟩
    | true =>
      have hs : (mk A P c).step (mk A P c).init none = ((mk A P c).init, .inl (qOf c.x0)) := by
        show stepS A P c _ none = _
        simp [stepS, hv]
      rw [hs]
      apply runAlg_returns A P c E hmax
      · simpa [St.init] using hmax
      · simp [St.init]; omega

end Nlopt.IsresAlg
