import NloptModel.Model.NmAlg
import NloptModel.Lemmas.NmDrvLemmas
import NloptModel.Lemmas.EschAlgLemmas
/-! Refinement: a returned run of the machine `NmAlg.mk O A P c` (wrapper mode, `c.minf0 = none`) against ANY environment is
    a returned run of the control-flow model `NmDrv.runWith O A c` on the events of the trace (all `stuck` flags `false`
    but possibly the last).  First: the driver goes on after an evaluation only if the next proposal is not degenerate. -/
set_option linter.unusedSimpArgs false
set_option linter.unusedVariables false

namespace Nlopt.NmDrv
open Nlopt

theorem loopHead_stuck_done (O : Ord) (A : Arith) (c : Cfg) (st st' : St) :
    loopHead O A c st true ≠ .cont st' := by
  intro h
  unfold loopHead at h
  simp only [Bool.true_or, if_true] at h
  repeat' split at h
  all_goals (simp [fin] at h)

theorem enter_stuck_done (O : Ord) (A : Arith) (c : Cfg) (st st' : St) :
    enter O A c st true ≠ .cont st' := by
  intro h
  unfold enter at h
  simp only [if_true] at h
  split at h
  · simp [fin] at h
  · split at h
    · exact loopHead_stuck_done _ _ _ _ _ h
    · simp [fin] at h

theorem post_stuck_done (O : Ord) (A : Arith) (c : Cfg) (st st' : St) (e : Ev) (he : e.stuck = true) :
    post O A c st e ≠ .cont st' := by
  intro h
  unfold post at h
  rw [he] at h
  simp only [if_true] at h
  repeat' split at h
  all_goals first
    | exact loopHead_stuck_done _ _ _ _ _ h
    | (simp [fin] at h; done)

/-- The driver asks for a further evaluation only if the proposal computed after `e` is not degenerate: every path of
    `step` that continues has read `e.stuck` and found it `false`. -/
theorem step_cont_not_stuck {O : Ord} {A : Arith} {c : Cfg} {st st' : St} {e : Ev}
    (h : step O A c st e = .cont st') : e.stuck = false := by
  cases he : e.stuck with
  | false => rfl
  | true =>
    exfalso
    unfold step at h
    rw [he] at h
    split at h
    · simp only [] at h
      repeat' split at h
      all_goals first
        | exact enter_stuck_done _ _ _ _ _ h
        | (simp [fin] at h; done)
    · split at h
      · simp [fin] at h
      · exact post_stuck_done _ _ _ _ _ _ he h

/-- in wrapper mode the run is `go` from the state waiting for `f(x0)` -/
theorem runOut_wrapper {O : Ord} {A : Arith} {c : Cfg} (hw : c.minf0 = none) (evs : List Ev) :
    runOut O A c evs = go O A c ⟨0, c.x0, F64.posInf, false, [], F64.zero, .first, []⟩ evs := by
  unfold runOut start
  rw [hw]

theorem evalsStop_false' {c : Cfg} {k : Nat} (hm : 0 < c.s.maxeval) (h : c.evalsStop k = false) :
    c.s.nevals + (k : Int) < c.s.maxeval := by
  unfold Cfg.evalsStop Stop.evals at h
  simp only [Bool.and_eq_false_iff, decide_eq_false_iff_not] at h
  omega

end Nlopt.NmDrv

namespace Nlopt.NmAlg
open Nlopt Nlopt.NmDrv
open Nlopt.EschAlg (valOf forcedOf qOf ObjOnly objOnly_snoc runAlg_succ)

@[simp] theorem ev0_nil : ev0 [] = [] := rfl
@[simp] theorem ev0_append (a b : List (Query × Answer)) : ev0 (a ++ b) = ev0 a ++ ev0 b := by simp [ev0]
@[simp] theorem ev0_length (tr : List (Query × Answer)) : (ev0 tr).length = tr.length := by simp [ev0]
@[simp] theorem ev0_cons (p : Query × Answer) (tr : List (Query × Answer)) : ev0 (p :: tr) = evOf false p :: ev0 tr := rfl

@[simp] theorem events_nil (b : Bool) : events [] b = [] := rfl
theorem events_snoc (tr : List (Query × Answer)) (p : Query × Answer) (b : Bool) :
    events (tr ++ [p]) b = ev0 tr ++ [evOf b p] := by
  simp [events]
@[simp] theorem events_length (tr : List (Query × Answer)) (b : Bool) : (events tr b).length = tr.length := by
  rcases List.eq_nil_or_concat tr with rfl | ⟨l, p, rfl⟩
  · rfl
  · rw [List.concat_eq_append, events_snoc]; simp

/-- the events differ from `ev0 tr` in the `stuck` flags only -/
theorem events_core (tr : List (Query × Answer)) (b : Bool) :
    (events tr b).map (fun e => (e.x, e.f, e.forced)) = tr.map (fun p => (p.1.x, valOf p.2, forcedOf p.2)) := by
  rcases List.eq_nil_or_concat tr with rfl | ⟨l, p, rfl⟩
  · rfl
  · rw [List.concat_eq_append, events_snoc]; simp [ev0, evOf]

/-- the invariant of `runAlg (mk O A P c)`: `tr` = trace so far, `a` = the answer about to be delivered -/
def J (O : Ord) (A : Arith) (P : Proposer) (c : Cfg) (s : S P) (a : Option Answer) (tr : List (Query × Answer)) : Prop :=
  ObjOnly tr ∧
  match a with
  | none => tr = [] ∧ s.drv = stW c ∧ s.cur = c.x0
  | some ans => ∃ tr0, tr = tr0 ++ [(qOf s.cur, ans)] ∧ go O A c (stW c) (ev0 tr0) = .cont s.drv ∧
      s.drv.nev = tr0.length ∧ (∀ p, tr.head? = some p → p.1.x = c.x0)

/-- core of the refinement, for `runAlg` from any state satisfying the invariant -/
theorem runAlg_refines {σ : Type} (O : Ord) (A : Arith) (P : Proposer) (c : Cfg) (hw : c.minf0 = none) (E : Env σ) :
    ∀ (fuel : Nat) (s : S P) (a : Option Answer) (st : σ) (tr : List (Query × Answer)),
      J O A P c s a tr →
      ∀ r st' tr', runAlg (mk O A P c) E fuel s a st tr = (some r, st', tr') →
        ∃ R b, runWith O A c (events tr' b) = R ∧ R.short = false ∧ r = toAlgResult c R ∧ R.nevals = tr'.length ∧
          ObjOnly tr' ∧ (∀ p, tr'.head? = some p → p.1.x = c.x0) := by
  intro fuel
  induction fuel with
  | zero =>
    intro s a st tr _ r st' tr' h
    simp [runAlg] at h
  | succ n ih =>
    intro s a st tr hJ r st' tr' h
    obtain ⟨hobj, hJ⟩ := hJ
    rw [runAlg_succ] at h
    cases a with
    | none =>
      obtain ⟨rfl, hd, hc⟩ := hJ
      have hs : (mk O A P c).step s none = (s, .inl (qOf s.cur)) := rfl
      rw [hs] at h
      simp only [List.nil_append] at h
      have hJ' : J O A P c s (some (E.call st (qOf s.cur)).2) [(qOf s.cur, (E.call st (qOf s.cur)).2)] := by
        refine ⟨?_, [], rfl, ?_, ?_, ?_⟩
        · simpa using objOnly_snoc hobj s.cur (E.call st (qOf s.cur)).2
        · rw [hd]; rfl
        · rw [hd]; rfl
        · intro p hp
          simp only [List.head?_cons, Option.some.injEq] at hp
          subst hp; exact hc
      exact ih s _ _ _ hJ' r st' tr' h
    | some ans =>
      obtain ⟨tr0, rfl, hgo, hn, hhead⟩ := hJ
      cases hstep : NmDrv.step O A c s.drv (evOf (P.next s.ps s.drv s.cur ans).2.isNone (qOf s.cur, ans)) with
      | done R =>
        have hs : (mk O A P c).step s (some ans) = (s, .inr (toAlgResult c R)) := by
          show stepS O A P c s (some ans) = _
          simp only [stepS, hstep]
        rw [hs] at h
        simp only [Prod.mk.injEq, Option.some.injEq] at h
        obtain ⟨hr, _, htr⟩ := h
        subst htr
        have hrun : runWith O A c (events (tr0 ++ [(qOf s.cur, ans)]) (P.next s.ps s.drv s.cur ans).2.isNone) = R := by
          have hgo' : go O A c ⟨0, c.x0, F64.posInf, false, [], F64.zero, .first, []⟩ (ev0 tr0) = .cont s.drv := hgo
          simp only [runWith, runOut_wrapper hw, events_snoc, go_append, hgo']
          simp [go, hstep, Out.res]
        obtain ⟨k, hk, _⟩ := step_done hstep
        refine ⟨R, _, hrun, by rw [hk]; rfl, hr.symm, ?_, hobj, hhead⟩
        rw [hk]
        show (upd _ _).nev = _
        rw [upd_nev, hn]; simp
      | cont d' =>
        have hs : (mk O A P c).step s (some ans) =
            ({ drv := d', ps := (P.next s.ps s.drv s.cur ans).1, cur := (P.next s.ps s.drv s.cur ans).2.getD [] },
             .inl (qOf ((P.next s.ps s.drv s.cur ans).2.getD []))) := by
          show stepS O A P c s (some ans) = _
          simp only [stepS, hstep]
        rw [hs] at h
        have hb : (P.next s.ps s.drv s.cur ans).2.isNone = false := step_cont_not_stuck hstep
        rw [hb] at hstep
        obtain ⟨_, hsame, _⟩ := step_cont hstep
        refine ih _ _ _ _ ?_ r st' tr' h
        refine ⟨objOnly_snoc hobj _ _, tr0 ++ [(qOf s.cur, ans)], rfl, ?_, ?_, ?_⟩
        · rw [ev0_append, go_append, hgo]
          simp [go, hstep]
        · show d'.nev = _
          rw [hsame.1, upd_nev, hn]; simp
        · intro p hp
          apply hhead p
          cases tr0 <;> simpa using hp

/-- Termination under an evaluation budget: from a state with `nevals0 + nev < maxeval`, `maxeval - nevals0 - nev` further
    steps suffice for the machine to return, whatever the proposer proposes and the environment answers. -/
theorem runAlg_returns {σ : Type} (O : Ord) (A : Arith) (P : Proposer) (c : Cfg) (E : Env σ) (hmax : 0 < c.s.maxeval) :
    ∀ (fuel : Nat) (s : S P) (ans : Answer) (st : σ) (tr : List (Query × Answer)),
      c.s.nevals + (s.drv.nev : Int) < c.s.maxeval → c.s.maxeval - (c.s.nevals + (s.drv.nev : Int)) ≤ (fuel : Int) →
      ∃ r, (runAlg (mk O A P c) E fuel s (some ans) st tr).1 = some r := by
  intro fuel
  induction fuel with
  | zero => intro s ans st tr h1 h2; exfalso; omega
  | succ n ih =>
    intro s ans st tr h1 h2
    rw [runAlg_succ]
    cases hstep : NmDrv.step O A c s.drv (evOf (P.next s.ps s.drv s.cur ans).2.isNone (qOf s.cur, ans)) with
    | done R =>
      have hs : (mk O A P c).step s (some ans) = (s, .inr (toAlgResult c R)) := by
        show stepS O A P c s (some ans) = _
        simp only [stepS, hstep]
      rw [hs]
      exact ⟨_, rfl⟩
    | cont d' =>
      have hs : (mk O A P c).step s (some ans) =
          ({ drv := d', ps := (P.next s.ps s.drv s.cur ans).1, cur := (P.next s.ps s.drv s.cur ans).2.getD [] },
           .inl (qOf ((P.next s.ps s.drv s.cur ans).2.getD []))) := by
        show stepS O A P c s (some ans) = _
        simp only [stepS, hstep]
      rw [hs]
      obtain ⟨hnone, hsame, _⟩ := step_cont hstep
      have hlt := evalsStop_false' hmax (stopCode_none hnone).2
      have hnev : d'.nev = s.drv.nev + 1 := by rw [hsame.1, upd_nev]
      apply ih
      · show c.s.nevals + (d'.nev : Int) < _
        rw [hnev]; push_cast at hlt ⊢; omega
      · show c.s.maxeval - (c.s.nevals + (d'.nev : Int)) ≤ _
        rw [hnev]; push_cast at h2 ⊢; omega

/-- with `0 ≤ nevals0 < maxeval`, fuel `maxeval - nevals0 + 1` (one step per evaluation plus the step that returns) is enough -/
theorem run_returns {σ : Type} (O : Ord) (A : Arith) (P : Proposer) (c : Cfg) (E : Env σ)
    (hlt : c.s.nevals < c.s.maxeval) (h0 : 0 ≤ c.s.nevals)
    (fuel : Nat) (hfuel : c.s.maxeval - c.s.nevals + 1 ≤ (fuel : Int)) (st : σ) :
    ∃ r, (Nlopt.run (mk O A P c) E fuel st).1 = some r := by
  cases fuel with
  | zero => exfalso; omega
  | succ n =>
    unfold Nlopt.run
    rw [runAlg_succ]
    have hs : (mk O A P c).step (mk O A P c).init none = ((mk O A P c).init, .inl (qOf c.x0)) := rfl
    rw [hs]
    apply runAlg_returns O A P c E (by omega)
    · show c.s.nevals + ((stW c).nev : Int) < _
      simp [stW]; exact hlt
    · show c.s.maxeval - (c.s.nevals + ((stW c).nev : Int)) ≤ _
      simp [stW]; push_cast at hfuel; omega

end Nlopt.NmAlg
