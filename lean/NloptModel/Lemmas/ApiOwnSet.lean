import NloptModel.Lemmas.ApiOwnAlg
/-! Footprint lemmas for the error message, `nlopt_destroy` and every single-object setter/getter. -/
set_option linter.unusedSimpArgs false
set_option linter.unusedVariables false
namespace Nlopt

/-- `cnt` with extra rewrite rules (typically field equations from `split`) -/
macro "cntw" "[" ts:Lean.Parser.Tactic.simpLemma,* "]" : tactic =>
  `(tactic| (intro b; simp only [Core.owned, List.count_append, List.count_cons, List.count_nil, oBlk_none, oBlk_some,
      oArr_none, oArr_some, oArr_setArrV, tolBlks_nil, tolBlks_cons, tolBlks_append, nameBlks_nil, nameBlks_cons,
      nameBlks_append, nameBlks_modify_val, ownedChain_nil, ownedChain_cons, List.append_nil, List.nil_append,
      $ts,*] <;> omega))

variable {P : Ctx} {x : List Nat}

theorem unsetErrmsg_good {s : AS} {c : Core} (h : Good P s (c.owned ++ x)) :
    Good P (unsetErrmsg s c).1 ((unsetErrmsg s c).2.owned ++ x) := by
  unfold unsetErrmsg
  split
  · next b hb =>
    apply good_free
    exact h.perm (by cntw [hb])
  · exact h

theorem setErrmsg_good {s : AS} {c : Core} (h : Good P s (c.owned ++ x)) :
    Good P (setErrmsg s c).1 ((setErrmsg s c).2.owned ++ x) := by
  unfold setErrmsg
  split
  · next b s1 heq =>
    have := good_realloc_some heq (own := (({ c with errmsg := none } : Core).owned ++ x)) (h.perm (by cnt))
    exact this.perm (by cnt)
  · next s1 heq =>
    have := good_realloc_none heq h
    apply good_freeOpt
    exact this.perm (by cnt)

/-! ### nlopt_destroy -/

def Core.prePart (c : Core) : List Nat :=
  tolBlks c.fc ++ tolBlks c.h ++ nameBlks c.params ++ oBlk c.paramsBlk ++ oArr c.lb ++ oArr c.ub ++ oArr c.xtolAbs
    ++ oArr c.xWeights ++ oBlk c.fcBlk ++ oBlk c.hBlk
def Core.postPart (c : Core) : List Nat := oArr c.dx ++ oBlk c.errmsg ++ [c.self]

theorem destroyPre_good {s : AS} {c : Core} (h : Good P s (c.prePart ++ x)) : Good P (destroyPre s c) x := by
  unfold destroyPre
  have h0 : Good P (if c.mungeD then mungeCons (mungeCons (s.mungeDestroy c.fdata) c.fc) c.h else s) (c.prePart ++ x) := by
    split
    · exact good_mungeCons _ (good_mungeCons _ (good_mungeDestroy h _))
    · exact h
  simp only []
  generalize (if c.mungeD then mungeCons (mungeCons (s.mungeDestroy c.fdata) c.fc) c.h else s) = s0 at h0 ⊢
  apply good_freeOpt; apply good_freeOpt
  apply good_freeArr; apply good_freeArr; apply good_freeArr; apply good_freeArr
  apply good_freeOpt
  apply good_freeNames; apply good_freeTols; apply good_freeTols
  exact h0.perm (by intro b; simp only [Core.prePart, List.count_append]; omega)

theorem destroyPost_good {s : AS} {c : Core} (h : Good P s (c.postPart ++ x)) : Good P (destroyPost s c) x := by
  unfold destroyPost
  simp only []
  apply good_free (own := x)
  apply good_freeOpt; apply good_freeArr
  exact h.perm (by intro b; simp only [Core.postPart, List.count_append, List.count_cons, List.count_nil]; omega)

theorem destroyChain_good (l : List Core) {s : AS} {x : List Nat} (h : Good P s (ownedChain l ++ x)) :
    Good P (destroyChain s l) x := by
  induction l generalizing s x with
  | nil => exact h
  | cons c rest ih =>
    rw [destroyChain]
    apply destroyPost_good
    apply ih
    apply destroyPre_good
    exact h.perm (by
      intro b
      simp only [Core.prePart, Core.postPart, Core.owned, ownedChain_cons, List.count_append, List.count_cons,
        List.count_nil]
      omega)

/-! ### setters -/

set_option hygiene false in
/-- open a setter that starts with `nlopt_unset_errmsg` -/
macro "open_unset" h:ident : tactic =>
  `(tactic| (have h1 := unsetErrmsg_good $h
             generalize unsetErrmsg _ _ = p at h1 ⊢
             obtain ⟨s1, c1⟩ := p
             simp only [] at h1 ⊢))

theorem setLowerBounds_good {A : Arith} {s : AS} {c : Core} {arg : Option (List F64)} (h : Good P s (c.owned ++ x)) :
    Good P (setLowerBounds A s c arg).1 ((setLowerBounds A s c arg).2.1.owned ++ x) := by
  unfold setLowerBounds
  open_unset h
  split
  · exact h1.perm (by cnt)
  · exact h1

theorem setUpperBounds_good {A : Arith} {s : AS} {c : Core} {arg : Option (List F64)} (h : Good P s (c.owned ++ x)) :
    Good P (setUpperBounds A s c arg).1 ((setUpperBounds A s c arg).2.1.owned ++ x) := by
  unfold setUpperBounds
  open_unset h
  split
  · exact h1.perm (by cnt)
  · exact h1

theorem setLowerBounds1_good {A : Arith} {s : AS} {c : Core} {v : F64} (h : Good P s (c.owned ++ x)) :
    Good P (setLowerBounds1 A s c v).1 ((setLowerBounds1 A s c v).2.1.owned ++ x) := by
  unfold setLowerBounds1
  open_unset h
  exact h1.perm (by cnt)

theorem setUpperBounds1_good {A : Arith} {s : AS} {c : Core} {v : F64} (h : Good P s (c.owned ++ x)) :
    Good P (setUpperBounds1 A s c v).1 ((setUpperBounds1 A s c v).2.1.owned ++ x) := by
  unfold setUpperBounds1
  open_unset h
  exact h1.perm (by cnt)

theorem setLowerBound_good {A : Arith} {s : AS} {c : Core} {i : Int} {v : F64} (h : Good P s (c.owned ++ x)) :
    Good P (setLowerBound A s c i v).1 ((setLowerBound A s c i v).2.1.owned ++ x) := by
  unfold setLowerBound
  open_unset h
  split
  · exact setErrmsg_good h1
  · exact h1.perm (by cnt)

theorem setUpperBound_good {A : Arith} {s : AS} {c : Core} {i : Int} {v : F64} (h : Good P s (c.owned ++ x)) :
    Good P (setUpperBound A s c i v).1 ((setUpperBound A s c i v).2.1.owned ++ x) := by
  unfold setUpperBound
  open_unset h
  split
  · exact setErrmsg_good h1
  · exact h1.perm (by cnt)

theorem getLowerBounds_good {s : AS} {c : Core} {o : Bool} (h : Good P s (c.owned ++ x)) :
    Good P (getLowerBounds s c o).1 ((getLowerBounds s c o).2.1.owned ++ x) := by
  unfold getLowerBounds
  open_unset h
  split <;> exact h1

theorem getUpperBounds_good {s : AS} {c : Core} {o : Bool} (h : Good P s (c.owned ++ x)) :
    Good P (getUpperBounds s c o).1 ((getUpperBounds s c o).2.1.owned ++ x) := by
  unfold getUpperBounds
  open_unset h
  split <;> exact h1

theorem getXtolAbs_good {s : AS} {c : Core} {o : Bool} (h : Good P s (c.owned ++ x)) :
    Good P (getXtolAbs s c o).1 ((getXtolAbs s c o).2.1.owned ++ x) := by
  unfold getXtolAbs
  open_unset h
  split <;> exact h1

theorem getXWeights_good {s : AS} {c : Core} {o : Bool} (h : Good P s (c.owned ++ x)) :
    Good P (getXWeights s c o).1 ((getXWeights s c o).2.1.owned ++ x) := by
  unfold getXWeights
  split
  · exact setErrmsg_good h
  · exact unsetErrmsg_good h

theorem setObjective_good {s : AS} {c : Core} {f pre fd : Nat} {mx : Bool} (h : Good P s (c.owned ++ x)) :
    Good P (setObjective s c f pre fd mx).1 ((setObjective s c f pre fd mx).2.1.owned ++ x) := by
  unfold setObjective
  open_unset h
  split
  · exact (good_mungeDestroy h1 _).perm (by cnt)
  · exact h1.perm (by cnt)

theorem setScalar_good {s : AS} {c : Core} {v : ScalarSet} (h : Good P s (c.owned ++ x)) :
    Good P (setScalar s c (ScalarSet.apply · v)).1 ((setScalar s c (ScalarSet.apply · v)).2.1.owned ++ x) := by
  unfold setScalar
  open_unset h
  cases v <;> exact h1.perm (by cntw [ScalarSet.apply])

theorem removeCons_good {s : AS} {md : Bool} {cs : List Con} {blk : Option Nat} {y : List Nat}
    (h : Good P s (tolBlks cs ++ oBlk blk ++ y)) : Good P (removeCons s md cs blk) y := by
  unfold removeCons
  simp only []
  apply good_freeOpt
  apply good_freeTols
  have h' := h.perm (own' := tolBlks cs ++ (oBlk blk ++ y)) (by cnt)
  split
  · exact good_mungeCons _ h'
  · exact h'

theorem removeIneq_good {s : AS} {c : Core} (h : Good P s (c.owned ++ x)) :
    Good P (removeIneq s c).1 ((removeIneq s c).2.1.owned ++ x) := by
  unfold removeIneq
  open_unset h
  apply removeCons_good
  exact h1.perm (by cnt)

theorem removeEq_good {s : AS} {c : Core} (h : Good P s (c.owned ++ x)) :
    Good P (removeEq s c).1 ((removeEq s c).2.1.owned ++ x) := by
  unfold removeEq
  open_unset h
  apply removeCons_good
  exact h1.perm (by cnt)

theorem isNone_and {α} {o : Option α} {q : Prop} (h : o.isNone = true ∧ q) : o = none :=
  Option.isNone_iff_eq_none.mp h.1

theorem setXtolAbs_good {s : AS} {c : Core} {arg : Option (List F64)} (h : Good P s (c.owned ++ x)) :
    Good P (setXtolAbs s c arg).1 ((setXtolAbs s c arg).2.1.owned ++ x) := by
  unfold setXtolAbs
  open_unset h
  split
  · apply good_freeArr; exact h1.perm (by cnt)
  · split
    · next hc =>
      have hn := isNone_and hc
      split
      · next heq => exact good_allocArr_none heq h1
      · next heq => exact (good_allocArr_some heq h1).perm (by cntw [hn])
    · exact h1.perm (by cnt)

theorem setXtolAbs1_good {s : AS} {c : Core} {v : F64} (h : Good P s (c.owned ++ x)) :
    Good P (setXtolAbs1 s c v).1 ((setXtolAbs1 s c v).2.1.owned ++ x) := by
  unfold setXtolAbs1
  open_unset h
  split
  · next hc =>
    have hn := isNone_and hc
    split
    · next heq => exact good_allocArr_none heq h1
    · next heq => exact (good_allocArr_some heq h1).perm (by cntw [hn])
  · exact h1.perm (by cnt)

theorem setXWeights_good {s : AS} {c : Core} {arg : Option (List F64)} (h : Good P s (c.owned ++ x)) :
    Good P (setXWeights s c arg).1 ((setXWeights s c arg).2.1.owned ++ x) := by
  unfold setXWeights
  open_unset h
  split
  · apply good_freeArr; exact h1.perm (by cnt)
  · split
    · exact setErrmsg_good h1
    · split
      · next hc =>
        have hn := isNone_and hc
        split
        · next heq => exact good_allocArr_none heq h1
        · next heq => exact (good_allocArr_some heq h1).perm (by cntw [hn])
      · exact h1.perm (by cnt)

theorem setXWeights1_good {s : AS} {c : Core} {v : F64} (h : Good P s (c.owned ++ x)) :
    Good P (setXWeights1 s c v).1 ((setXWeights1 s c v).2.1.owned ++ x) := by
  unfold setXWeights1
  split
  · exact setErrmsg_good h
  · open_unset h
    split
    · next hc =>
      have hn := isNone_and hc
      split
      · next heq => exact good_allocArr_none heq h1
      · next heq => exact (good_allocArr_some heq h1).perm (by cntw [hn])
    · exact h1.perm (by cnt)

theorem setInitialStep1_good {s : AS} {c : Core} {v : F64} (h : Good P s (c.owned ++ x)) :
    Good P (setInitialStep1 s c v).1 ((setInitialStep1 s c v).2.1.owned ++ x) := by
  unfold setInitialStep1
  open_unset h
  split
  · exact setErrmsg_good h1
  · split
    · next hc =>
      have hn := isNone_and hc
      split
      · next heq => exact good_allocArr_none heq h1
      · next heq => exact (good_allocArr_some heq h1).perm (by cntw [hn])
    · exact h1.perm (by cnt)

theorem setInitialStep_good {s : AS} {c : Core} {arg : Option (List F64)} (h : Good P s (c.owned ++ x)) :
    Good P (setInitialStep s c arg).1 ((setInitialStep s c arg).2.1.owned ++ x) := by
  unfold setInitialStep
  open_unset h
  split
  · apply good_freeArr; exact h1.perm (by cnt)
  · split
    · exact setErrmsg_good h1
    · split
      · have h2 := setInitialStep1_good (v := F64.one) h1
        generalize setInitialStep1 s1 c1 F64.one = q at h2 ⊢
        obtain ⟨s2, c2, r2⟩ := q
        simp only [] at h2 ⊢
        split
        · exact h2
        · exact h2.perm (by cnt)
      · exact h1.perm (by cnt)

theorem setDefaultInitialStep_good {A : Arith} {s : AS} {c : Core} {arg : Option (List F64)}
    (h : Good P s (c.owned ++ x)) :
    Good P (setDefaultInitialStep A s c arg).1 ((setDefaultInitialStep A s c arg).2.1.owned ++ x) := by
  unfold setDefaultInitialStep
  open_unset h
  split
  · exact h1
  · have h2 : Good P (if c1.dx.isNone then setInitialStep1 s1 c1 F64.one else (s1, c1, rSUCCESS)).1
        ((if c1.dx.isNone then setInitialStep1 s1 c1 F64.one else (s1, c1, rSUCCESS)).2.1.owned ++ x) := by
      split
      · exact setInitialStep1_good h1
      · exact h1
    generalize (if c1.dx.isNone then setInitialStep1 s1 c1 F64.one else (s1, c1, rSUCCESS)) = q at h2 ⊢
    obtain ⟨s2, c2, r2⟩ := q
    simp only [] at h2 ⊢
    split
    · exact h2
    · exact h2.perm (by cnt)

theorem getInitialStep_good {A : Arith} {s : AS} {c : Core} {arg : Option (List F64)}
    (h : Good P s (c.owned ++ x)) :
    Good P (getInitialStep A s c arg).1 ((getInitialStep A s c arg).2.1.owned ++ x) := by
  unfold getInitialStep
  open_unset h
  split
  · exact h1
  · split
    · have h2 := setDefaultInitialStep_good (A := A) (arg := arg) h1
      generalize setDefaultInitialStep A s1 c1 arg = q at h2 ⊢
      obtain ⟨s2, c2, r2⟩ := q
      simp only [] at h2 ⊢
      split
      · exact h2
      · apply good_freeArr; exact h2.perm (by cnt)
    · exact h1

theorem setParam_good {s : AS} {c : Core} {nm : Option String} {v : F64} (h : Good P s (c.owned ++ x)) :
    Good P (setParam s c nm v).1 ((setParam s c nm v).2.1.owned ++ x) := by
  unfold setParam
  split
  · exact setErrmsg_good h
  · split
    · exact setErrmsg_good h
    · split
      · exact h.perm (by cnt)
      · split
        · next heq => exact good_realloc_none heq h
        · next b s1 heq =>
          have h2 := (good_realloc_some heq (own := (({ c with paramsBlk := none } : Core).owned ++ x))
            (h.perm (by cnt)))
          split
          · next heq2 => exact (good_alloc_none heq2 h2).perm (by cnt)
          · next heq2 => exact (good_alloc_some heq2 h2).perm (by cnt)

/-! ### constraints -/

theorem setErrmsg_good' {s : AS} {c : Core} {y : List Nat} (h : Good P s (oBlk c.errmsg ++ y)) :
    Good P (setErrmsg s c).1 (oBlk (setErrmsg s c).2.errmsg ++ y) := by
  unfold setErrmsg
  split
  · next b s1 heq => exact good_realloc_some heq h
  · next s1 heq =>
    have := good_realloc_none heq h
    apply good_freeOpt
    exact this

theorem setErrmsg_eq (s : AS) (c : Core) : (setErrmsg s c).2 = { c with errmsg := (setErrmsg s c).2.errmsg } := by
  unfold setErrmsg
  split <;> rfl

theorem addConstraint_good {s : AS} {c : Core} {cs : List Con} {al : Nat} {blk : Option Nat} {fm : Nat}
    {isVec : Bool} {fid pre fd : Nat} {tol : Option (List F64)} {y : List Nat}
    (h : Good P s (oBlk c.errmsg ++ tolBlks cs ++ oBlk blk ++ y)) :
    Good P (addConstraint s c cs al blk fm isVec fid pre fd tol).1
      (oBlk (addConstraint s c cs al blk fm isVec fid pre fd tol).2.1.errmsg ++
       tolBlks (addConstraint s c cs al blk fm isVec fid pre fd tol).2.2.1 ++
       oBlk (addConstraint s c cs al blk fm isVec fid pre fd tol).2.2.2.2.1 ++ y) ∧
    (addConstraint s c cs al blk fm isVec fid pre fd tol).2.1 =
      { c with errmsg := (addConstraint s c cs al blk fm isVec fid pre fd tol).2.1.errmsg } := by
  unfold addConstraint
  split
  · exact ⟨h, rfl⟩
  · split
    · refine ⟨?_, setErrmsg_eq s c⟩
      have := setErrmsg_good' (c := c) (y := tolBlks cs ++ oBlk blk ++ y) (h.perm (by cnt))
      exact this.perm (by cnt)
    · split
      · next heq => exact ⟨good_alloc_none heq h, rfl⟩
      · next tb s1 heq =>
        have h2 := good_alloc_some heq h
        simp only []
        split
        · split
          · next s2 heq2 =>
            refine ⟨?_, rfl⟩
            have h3 := good_realloc_none heq2 h2
            exact good_free h3
          · next nb s2 heq2 =>
            refine ⟨?_, rfl⟩
            have h3 := good_realloc_some heq2 (own := tb :: (oBlk c.errmsg ++ tolBlks cs ++ y)) (h2.perm (by cnt))
            exact h3.perm (by cnt)
        · exact ⟨h2.perm (by cnt), rfl⟩

theorem addConCore_good {caps : List Nat} {eq : Bool} {s : AS} {c : Core} {fm : Nat}
    {isVec : Bool} {fid pre fd : Nat} {tol : Option (List F64)} (h : Good P s (c.owned ++ x)) :
    Good P (addConCore caps eq s c fm isVec fid pre fd tol).1
      ((addConCore caps eq s c fm isVec fid pre fd tol).2.1.owned ++ x) := by
  unfold addConCore
  split
  · exact setErrmsg_good h
  · split
    · have h2 := addConstraint_good (c := c) (cs := c.h) (al := c.pAlloc) (blk := c.hBlk) (fm := fm) (isVec := isVec)
        (fid := fid) (pre := pre) (fd := fd) (tol := tol)
        (y := (({ c with errmsg := none, h := [], hBlk := none } : Core).owned ++ x)) (h.perm (by cnt))
      generalize addConstraint s c c.h c.pAlloc c.hBlk fm isVec fid pre fd tol = r at h2 ⊢
      obtain ⟨s', c', cs', al', blk', code⟩ := r
      simp only [] at h2 ⊢
      obtain ⟨h2, h3⟩ := h2
      generalize c'.errmsg = e at h2 h3
      subst h3
      exact h2.perm (by cnt)
    · have h2 := addConstraint_good (c := c) (cs := c.fc) (al := c.mAlloc) (blk := c.fcBlk) (fm := fm) (isVec := isVec)
        (fid := fid) (pre := pre) (fd := fd) (tol := tol)
        (y := (({ c with errmsg := none, fc := [], fcBlk := none } : Core).owned ++ x)) (h.perm (by cnt))
      generalize addConstraint s c c.fc c.mAlloc c.fcBlk fm isVec fid pre fd tol = r at h2 ⊢
      obtain ⟨s', c', cs', al', blk', code⟩ := r
      simp only [] at h2 ⊢
      obtain ⟨h2, h3⟩ := h2
      generalize c'.errmsg = e at h2 h3
      subst h3
      exact h2.perm (by cnt)

theorem addCon_good {caps : List Nat} {eq : Bool} {s : AS} {c : Core} {fm : Nat}
    {isVec : Bool} {fid pre fd : Nat} {tol : Option (List F64)} (h : Good P s (c.owned ++ x)) :
    Good P (addCon caps eq s c fm isVec fid pre fd tol).1
      ((addCon caps eq s c fm isVec fid pre fd tol).2.1.owned ++ x) := by
  unfold addCon
  have h1 := unsetErrmsg_good h
  simp only []
  split
  · split
    · exact good_mungeDestroy h1 _
    · exact h1
  · have h2 := addConCore_good (caps := caps) (eq := eq) (fm := fm) (isVec := isVec) (fid := fid) (pre := pre)
      (fd := fd) (tol := tol) h1
    split
    · exact good_mungeDestroy h2 _
    · exact h2

end Nlopt
