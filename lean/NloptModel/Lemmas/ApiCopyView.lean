import NloptModel.Lemmas.ApiCopy
/-! `nlopt_copy`: what the copy looks like to the getters, and which blocks it owns. -/
set_option linter.unusedSimpArgs false
set_option linter.unusedVariables false
namespace Nlopt

/-- a view without its user-data pointers -/
def CoreView.noData (v : CoreView) : CoreView :=
  { v with fdata := 0, fc := v.fc.map ConView.noData, h := v.h.map ConView.noData }

theorem copyParams_view (s : AS) (c nc : Core) (hb : nc.params = []) (hok : (copyParams s c nc).1 = true) :
    (copyParams s c nc).2.1.view = { nc.view with params := c.view.params } := by
  generalize hres : copyParams s c nc = res at hok ⊢
  unfold copyParams at hres
  simp only [] at hres
  by_cases hp : c.params.length > 0
  · rw [if_pos hp] at hres
    have hn := copyNames_ok
    repeat' split at hres
    all_goals subst hres
    all_goals first
      | (simp at hok; done)
      | (rename_i b s1 heq
         have := hn s1 [] c.params hok
         simp only [List.nil_append] at this
         simp [Core.view, this]; done)
  · rw [if_neg hp] at hres
    subst hres
    have : c.params = [] := List.eq_nil_of_length_eq_zero (by omega)
    simp [Core.view, this, hb]

theorem copyDx_view (s : AS) (c nc : Core) (nl ch' : List Core) (hb : nc.dx = none)
    (h : (copyDx s c nc nl).2 = some ch') :
    ∃ nc', ch' = nc' :: nl ∧ nc'.view = { nc.view with dx := c.view.dx } ∧ nc'.self = nc.self := by
  generalize hres : copyDx s c nc nl = res at h
  unfold copyDx at hres
  repeat' split at hres
  all_goals subst hres
  all_goals first
    | (simp at h; done)
    | (simp only [Option.some.injEq] at h
       subst h
       simp only [Prod.ext_iff, allocArr_fst_eq_some] at *
       refine ⟨_, rfl, ?_, rfl⟩
       simp_all [Core.view]; done)

theorem copyObjData_blank (s : AS) (c nc : Core) :
    (copyObjData s c nc).2.1.lb = nc.lb ∧ (copyObjData s c nc).2.1.ub = nc.ub ∧
    (copyObjData s c nc).2.1.xtolAbs = nc.xtolAbs ∧ (copyObjData s c nc).2.1.xWeights = nc.xWeights ∧
    (copyObjData s c nc).2.1.params = nc.params ∧ (copyObjData s c nc).2.1.dx = nc.dx ∧
    (copyObjData s c nc).2.1.self = nc.self := by
  unfold copyObjData
  (repeat' split) <;> simp

theorem copyArrays_blank (s : AS) (c nc : Core) :
    (copyArrays s c nc).2.1.params = nc.params ∧ (copyArrays s c nc).2.1.dx = nc.dx ∧
    (copyArrays s c nc).2.1.self = nc.self := by
  unfold copyArrays
  simp only []
  (repeat' split) <;> simp

theorem copyParams_blank (s : AS) (c nc : Core) :
    (copyParams s c nc).2.1.dx = nc.dx ∧ (copyParams s c nc).2.1.self = nc.self := by
  unfold copyParams
  simp only []
  (repeat' split) <;> simp

/-- stages 1–5 succeeded: the half-built copy looks like the source up to the data pointers (and the
    initial step, which comes last) -/
theorem copyCore_view (s : AS) (c : Core) (self : Nat) (hwf : c.wf) (hok : (copyCore s c self).1 = true) :
    (copyCore s c self).2.1.view.noData = { c.view.noData with dx := none } ∧
    (copyCore s c self).2.1.dx = none ∧ (copyCore s c self).2.1.self = self := by
  unfold copyCore at hok ⊢
  simp only [] at hok ⊢
  obtain ⟨d, h1⟩ := copyObjData_view s c (copyBlank c self)
  have k1 := copyObjData_blank s c (copyBlank c self)
  generalize copyObjData s c (copyBlank c self) = r1 at *
  obtain ⟨ok1, nc1, s1⟩ := r1
  cases ok1 with
  | false => simp at hok
  | true =>
    simp only [Bool.not_true, Bool.false_eq_true, if_false] at hok ⊢ h1 k1
    obtain ⟨k11, k12, k13, k14, k15, k16, k17⟩ := k1
    have h2 := copyArrays_view s1 c nc1 hwf ⟨by rw [k11]; rfl, by rw [k12]; rfl, by rw [k13]; rfl, by rw [k14]; rfl⟩
    have k2 := copyArrays_blank s1 c nc1
    generalize copyArrays s1 c nc1 = r2 at *
    obtain ⟨ok2, nc2, s2⟩ := r2
    cases ok2 with
    | false => simp at hok
    | true =>
      simp only [Bool.not_true, Bool.false_eq_true, if_false] at hok ⊢ h2 k2
      have h2 := h2 trivial
      have h3 := copyConArray_ok s2 c.mungeC c.fc
      generalize copyConArray s2 c.mungeC c.fc = r3 at *
      obtain ⟨ok3, b3, cs3, s3⟩ := r3
      cases ok3 with
      | false => simp at hok
      | true =>
        simp only [Bool.not_true, Bool.false_eq_true, if_false] at hok ⊢
        obtain ⟨v3, _⟩ := h3 rfl
        simp only [] at v3
        have h4 := copyConArray_ok s3 c.mungeC c.h
        generalize copyConArray s3 c.mungeC c.h = r4 at *
        obtain ⟨ok4, b4, cs4, s4⟩ := r4
        cases ok4 with
        | false => simp at hok
        | true =>
          simp only [Bool.not_true, Bool.false_eq_true, if_false] at hok ⊢
          obtain ⟨v4, _⟩ := h4 rfl
          simp only [] at v4
          generalize hnc4 : ({ nc2 with fcBlk := b3, fc := cs3, mAlloc := (if b3.isSome = true then c.fc.length else 0), hBlk := b4, h := cs4, pAlloc := (if b4.isSome = true then c.h.length else 0) } : Core) = nc4 at *
          have hv4 : nc4.view = { nc2.view with fc := cs3.map Con.view, h := cs4.map Con.view } := by rw [← hnc4]; rfl
          have hp4 : nc4.params = [] := by rw [← hnc4]; show nc2.params = []; rw [k2.1, k15]; rfl
          have hd4 : nc4.dx = none := by rw [← hnc4]; show nc2.dx = none; rw [k2.2.1, k16]; rfl
          have hs4 : nc4.self = self := by rw [← hnc4]; show nc2.self = self; rw [k2.2.2, k17]; rfl
          have h5 := copyParams_view s4 c nc4 hp4 hok
          have k5 := copyParams_blank s4 c nc4
          refine ⟨?_, by rw [k5.1, hd4], by rw [k5.2, hs4]⟩
          rw [h5, hv4, h2, h1]
          simp only [CoreView.noData, List.map_map]
          have e3 : cs3.map (ConView.noData ∘ Con.view) = c.fc.map (ConView.noData ∘ Con.view) := by
            simpa [Function.comp_def] using v3
          have e4 : cs4.map (ConView.noData ∘ Con.view) = c.h.map (ConView.noData ∘ Con.view) := by
            simpa [Function.comp_def] using v4
          rw [e3, e4]
          simp [Core.view, copyBlank]

/-- a successful `nlopt_copy`: object by object the copy looks like the source up to the data pointers -/
theorem copyChain_view (s : AS) (ch ch' : List Core) (hwf : ∀ c ∈ ch, c.wf)
    (h : (copyChain s ch).2 = some ch') :
    ch'.map (·.view.noData) = ch.map (·.view.noData) := by
  induction ch generalizing s ch' with
  | nil =>
    simp only [copyChain, Option.some.injEq] at h
    subst h; rfl
  | cons c rest ih =>
    rw [copyChain_staged] at h
    generalize s.alloc s.sz.opt = r at *
    obtain ⟨o, s1⟩ := r
    cases o with
    | none => simp at h
    | some self =>
      simp only [] at h
      have k := copyCore_view s1 c self (hwf c (by simp))
      generalize copyCore s1 c self = r at *
      obtain ⟨ok, nc, s2⟩ := r
      cases ok with
      | false => simp at h
      | true =>
        simp only [Bool.not_true, Bool.false_eq_true, if_false] at h k
        rw [copyChain_rest] at h
        obtain ⟨kv, kd, _⟩ := k trivial
        have ih' := ih s2
        generalize copyChain s2 rest = r at *
        obtain ⟨s3, nlo⟩ := r
        cases nlo with
        | none => simp at h
        | some nl =>
          simp only [] at h ih'
          obtain ⟨nc', rfl, hv, _⟩ := copyDx_view s3 c nc nl ch' kd h
          have := ih' nl (fun c hc => hwf c (by simp [hc])) rfl
          simp only [List.map_cons, this, List.cons.injEq, and_true]
          rw [hv]
          have e : ({ nc.view with dx := c.view.dx } : CoreView).noData = { nc.view.noData with dx := c.view.dx } := rfl
          rw [e, kv]
          rfl

theorem conViews_eq_of (l l' : List ConView) (h1 : l'.map ConView.noData = l.map ConView.noData)
    (h2 : l'.map (·.fdata) = l.map (·.fdata)) : l' = l := by
  induction l generalizing l' with
  | nil => simpa using h1
  | cons a l ih =>
    cases l' with
    | nil => simp at h1
    | cons b l' =>
      simp only [List.map_cons, List.cons.injEq] at h1 h2
      rw [ih l' h1.2 h2.2]
      have := h1.1
      simp only [ConView.noData, ConView.mk.injEq] at this
      obtain ⟨a1, a2, a3, a4, _, a6⟩ := this
      cases a; cases b
      simp_all

/-- equal up to the data pointers + equal data pointers = equal -/
theorem view_eq_of_noData_held {c c' : Core} (h1 : c'.view.noData = c.view.noData) (h2 : c'.held = c.held) :
    c'.view = c.view := by
  have hfc := congrArg CoreView.fc h1
  have hh := congrArg CoreView.h h1
  simp only [CoreView.noData, Core.view, List.map_map] at hfc hh
  have lfc : c'.fc.length = c.fc.length := by simpa using congrArg List.length hfc
  simp only [Core.held, List.cons.injEq] at h2
  obtain ⟨hd, hl⟩ := h2
  obtain ⟨hl1, hl2⟩ := List.append_inj hl (by simp [lfc])
  have efc : c'.view.fc = c.view.fc :=
    conViews_eq_of _ _ (by simpa [Core.view, Function.comp_def] using hfc) (by simpa [Core.view, Con.view, Function.comp_def] using hl1)
  have eh : c'.view.h = c.view.h :=
    conViews_eq_of _ _ (by simpa [Core.view, Function.comp_def] using hh) (by simpa [Core.view, Con.view, Function.comp_def] using hl2)
  have : c'.view = { c'.view.noData with fdata := c'.fdata, fc := c'.view.fc, h := c'.view.h } := rfl
  rw [this, h1, efc, eh, hd]
  rfl

/-! ### the blocks owned by an object -/

def optBlk (a : Option Arr) : List Nat := (a.map (·.blk)).toList
def Con.blocks (c : Con) : List Nat := optBlk c.tol

/-- every malloc'ed block an object owns -/
def Core.blocks (c : Core) : List Nat :=
  c.self :: (optBlk c.lb ++ optBlk c.ub ++ optBlk c.xtolAbs ++ optBlk c.xWeights ++ optBlk c.dx ++
    c.errmsg.toList ++ c.paramsBlk.toList ++ c.params.map (·.nameBlk) ++ c.fcBlk.toList ++
    c.fc.flatMap Con.blocks ++ c.hBlk.toList ++ c.h.flatMap Con.blocks)

def AllGe (k : Nat) (l : List Nat) : Prop := ∀ b ∈ l, k ≤ b

@[simp] theorem AllGe_nil (k : Nat) : AllGe k [] := by simp [AllGe]
@[simp] theorem AllGe_cons (k a : Nat) (l : List Nat) : AllGe k (a :: l) ↔ k ≤ a ∧ AllGe k l := by simp [AllGe]
@[simp] theorem AllGe_append (k : Nat) (l1 l2 : List Nat) : AllGe k (l1 ++ l2) ↔ AllGe k l1 ∧ AllGe k l2 := by
  simp only [AllGe, List.mem_append]
  constructor
  · intro h; exact ⟨fun b hb => h b (Or.inl hb), fun b hb => h b (Or.inr hb)⟩
  · rintro ⟨h1, h2⟩ b (hb | hb)
    · exact h1 b hb
    · exact h2 b hb
@[simp] theorem AllGe_optBlk_none (k : Nat) : AllGe k (optBlk none) := by simp [optBlk]
@[simp] theorem AllGe_optBlk_some (k : Nat) (a : Arr) : AllGe k (optBlk (some a)) ↔ k ≤ a.blk := by simp [optBlk]
@[simp] theorem AllGe_toList_none (k : Nat) : AllGe k (none : Option Nat).toList := by simp
@[simp] theorem AllGe_toList_some (k b : Nat) : AllGe k (some b).toList ↔ k ≤ b := by simp [AllGe]

theorem alloc_snd_next (s : AS) (n : Nat) : (s.alloc n).2.next = if s.tick.1 then s.next else s.next + 1 := by
  unfold AS.alloc
  simp only []
  cases h : s.tick.1 <;> simp [AS.emit]

theorem allocArr_snd_next (s : AS) (w : List F64) :
    (allocArr s w).2.next = if s.tick.1 then s.next else s.next + 1 := by
  unfold allocArr
  have := alloc_snd_next s (8 * w.length)
  split <;> simp_all

theorem alloc_next_le (s : AS) (n : Nat) : s.next ≤ (s.alloc n).2.next := by
  rw [alloc_snd_next]; split <;> omega
theorem allocArr_next_le (s : AS) (w : List F64) : s.next ≤ (allocArr s w).2.next := by
  rw [allocArr_snd_next]; split <;> omega

theorem mungeCopy_next (s : AS) (d : Nat) : (s.mungeCopy d).2.next = s.next := by
  unfold AS.mungeCopy
  (repeat' split) <;> rfl

theorem mungeCopyCons_next (s : AS) (done src : List Con) : (mungeCopyCons s done src).2.2.next = s.next := by
  induction src generalizing s done with
  | nil => simp [mungeCopyCons]
  | cons c rest ih =>
    unfold mungeCopyCons
    have := mungeCopy_next s c.fdata
    (repeat' split) <;> pair_subst <;> simp_all

theorem blocks_of_shape (l l' : List Con)
    (h : l'.map (fun c => ({ c with fdata := 0 } : Con)) = l.map (fun c => ({ c with fdata := 0 } : Con))) :
    l'.flatMap Con.blocks = l.flatMap Con.blocks := by
  have : ∀ l : List Con, l.flatMap Con.blocks = (l.map (fun c => ({ c with fdata := 0 } : Con))).flatMap Con.blocks := by
    intro l; simp only [List.flatMap_map]; rfl
  rw [this l', this l, h]

/-- the tolerance loop: every tolerance block of the output is an old one of `done` or a fresh one -/
theorem copyTols_blocks (k : Nat) (s : AS) (done : List Con) (pairs : List (Con × Con))
    (hk : k ≤ s.next) (hd : AllGe k (done.flatMap Con.blocks)) (hnone : ∀ p ∈ pairs, p.1.tol = none)
    (hok : (copyTols s done pairs).1 = true) :
    AllGe k ((copyTols s done pairs).2.1.flatMap Con.blocks) ∧ s.next ≤ (copyTols s done pairs).2.2.next := by
  induction pairs generalizing s done with
  | nil => simpa [copyTols] using hd
  | cons p rest ih =>
    obtain ⟨nc, src⟩ := p
    have hn : nc.tol = none := hnone (nc, src) (by simp)
    have hrest : ∀ p ∈ rest, p.1.tol = none := fun p hp => hnone p (by simp [hp])
    unfold copyTols at hok ⊢
    cases ht : src.tol with
    | none =>
      simp only [ht] at hok ⊢
      exact ih s _ hk (by simpa [Con.blocks, hn] using hd) hrest hok
    | some t =>
      simp only [ht] at hok ⊢
      have h1 := allocArr_fst_eq_some s t.v
      have h2 := allocArr_snd_next s t.v
      generalize allocArr s t.v = r at *
      obtain ⟨o, s1⟩ := r
      cases o with
      | none => simp at hok
      | some a =>
        simp only [] at hok h2 ⊢
        obtain ⟨ht1, ha⟩ := (h1 a).mp rfl
        rw [ht1] at h2
        simp only [Bool.false_eq_true, if_false] at h2
        obtain ⟨i1, i2⟩ := ih s1 _ (by omega) (by simp [Con.blocks, ha, hd, hk]) hrest hok
        exact ⟨i1, by omega⟩

theorem copyNames_blocks (k : Nat) (s : AS) (done ps : List Param)
    (hk : k ≤ s.next) (hd : AllGe k (done.map (·.nameBlk))) (hok : (copyNames s done ps).1 = true) :
    AllGe k ((copyNames s done ps).2.1.map (·.nameBlk)) ∧ s.next ≤ (copyNames s done ps).2.2.next := by
  induction ps generalizing s done with
  | nil => simpa [copyNames] using hd
  | cons p rest ih =>
    unfold copyNames at hok ⊢
    have h1 := alloc_fst_eq_some s (p.name.utf8ByteSize + 1)
    have h2 := alloc_snd_next s (p.name.utf8ByteSize + 1)
    generalize s.alloc (p.name.utf8ByteSize + 1) = r at *
    obtain ⟨o, s1⟩ := r
    cases o with
    | none => simp at hok
    | some b =>
      simp only [] at hok h2 ⊢
      obtain ⟨ht1, hb⟩ := (h1 b).mp rfl
      rw [ht1] at h2
      simp only [Bool.false_eq_true, if_false] at h2
      obtain ⟨i1, i2⟩ := ih s1 _ (by omega) (by simp [hb, hd, hk]) hok
      exact ⟨i1, by omega⟩

theorem copyConArray_blocks (k : Nat) (s : AS) (munge : Bool) (src : List Con) (hk : k ≤ s.next)
    (hok : (copyConArray s munge src).1 = true) :
    AllGe k ((copyConArray s munge src).2.1.toList ++ (copyConArray s munge src).2.2.1.flatMap Con.blocks) ∧
    s.next ≤ (copyConArray s munge src).2.2.2.next := by
  unfold copyConArray at hok ⊢
  by_cases h0 : src.length = 0
  · simp [h0]
  · rw [if_neg h0] at hok ⊢
    have h1 := alloc_fst_eq_some s (s.sz.con * src.length)
    have h2 := alloc_snd_next s (s.sz.con * src.length)
    generalize s.alloc (s.sz.con * src.length) = r at *
    obtain ⟨o, s1⟩ := r
    cases o with
    | none => simp at hok
    | some b =>
      simp only [] at hok h2 ⊢
      obtain ⟨ht1, hb⟩ := (h1 b).mp rfl
      rw [ht1] at h2
      simp only [Bool.false_eq_true, if_false] at h2
      cases munge with
      | false =>
        simp only [Bool.false_eq_true, if_false, Bool.not_true] at hok ⊢
        have hz := zip_blank (src.map fun c => ({ c with tol := none } : Con)) src rfl
        obtain ⟨i1, i2⟩ := copyTols_blocks k s1 [] _ (by omega) (by simp) hz.1 hok
        exact ⟨by simp [i1, hb, hk], Nat.le_trans (by omega) i2⟩
      | true =>
        simp only [if_true] at hok ⊢
        have hsh := mungeCopyCons_shape s1 [] (src.map fun c => ({ c with tol := none } : Con))
        have hnx := mungeCopyCons_next s1 [] (src.map fun c => ({ c with tol := none } : Con))
        generalize mungeCopyCons s1 [] (src.map fun c => ({ c with tol := none } : Con)) = r at *
        obtain ⟨ok1, cs1, s2⟩ := r
        cases ok1 with
        | false => simp at hok
        | true =>
          simp only [Bool.not_true, Bool.false_eq_true, if_false, List.nil_append] at hok hsh hnx ⊢
          have hz := zip_blank cs1 src hsh
          obtain ⟨i1, i2⟩ := copyTols_blocks k s2 [] _ (by omega) (by simp) hz.1 hok
          exact ⟨by simp [i1, hb, hk], Nat.le_trans (by omega) i2⟩

theorem copyObjData_blocks (s : AS) (c nc : Core) :
    (copyObjData s c nc).2.1.blocks = nc.blocks ∧ (copyObjData s c nc).2.2.next = s.next := by
  unfold copyObjData
  have := mungeCopy_next s c.fdata
  (repeat' split) <;> pair_subst <;> simp_all [Core.blocks]

theorem copyArrays_blocks (k : Nat) (s : AS) (c nc : Core) (hk : k ≤ s.next) (hb : AllGe k nc.blocks)
    (hok : (copyArrays s c nc).1 = true) :
    AllGe k (copyArrays s c nc).2.1.blocks ∧ s.next ≤ (copyArrays s c nc).2.2.next := by
  generalize hres : copyArrays s c nc = res at hok ⊢
  unfold copyArrays at hres
  simp only [] at hres
  simp only [Core.blocks, AllGe_cons, AllGe_append] at hb
  repeat' split at hres
  all_goals subst hres
  all_goals first
    | (simp at hok; done)
    | (simp_all; done)
    | (pair_subst
       simp_all [Core.blocks, allocArr_fst_eq_some, allocArr_snd_next]
       try omega)

theorem copyParams_blocks (k : Nat) (s : AS) (c nc : Core) (hk : k ≤ s.next) (hb : AllGe k nc.blocks)
    (hp : nc.params = []) (hok : (copyParams s c nc).1 = true) :
    AllGe k (copyParams s c nc).2.1.blocks ∧ s.next ≤ (copyParams s c nc).2.2.next := by
  generalize hres : copyParams s c nc = res at hok ⊢
  unfold copyParams at hres
  simp only [] at hres
  simp only [Core.blocks, AllGe_cons, AllGe_append] at hb
  by_cases hpl : c.params.length > 0
  · rw [if_pos hpl] at hres
    have h1 := alloc_fst_eq_some s (s.sz.par * c.params.length)
    have h2 := alloc_snd_next s (s.sz.par * c.params.length)
    generalize s.alloc (s.sz.par * c.params.length) = r at *
    obtain ⟨o, s1⟩ := r
    cases o with
    | none => simp only [] at hres; subst hres; simp at hok
    | some b =>
      simp only [] at hres h2
      subst hres
      obtain ⟨ht1, hb'⟩ := (h1 b).mp rfl
      rw [ht1] at h2
      simp only [Bool.false_eq_true, if_false] at h2
      obtain ⟨i1, i2⟩ := copyNames_blocks k s1 [] c.params (by omega) (by simp) hok
      refine ⟨?_, Nat.le_trans (by omega) i2⟩
      simp only [Core.blocks, AllGe_cons, AllGe_append, AllGe_toList_some]
      simp_all
  · rw [if_neg hpl] at hres
    subst hres
    simp_all [Core.blocks]

theorem copyCore_blocks (k : Nat) (s : AS) (c : Core) (self : Nat) (hk : k ≤ s.next) (hself : k ≤ self)
    (hok : (copyCore s c self).1 = true) :
    AllGe k (copyCore s c self).2.1.blocks ∧ s.next ≤ (copyCore s c self).2.2.next := by
  unfold copyCore at hok ⊢
  simp only [] at hok ⊢
  have h1 := copyObjData_blocks s c (copyBlank c self)
  have k1 := copyObjData_blank s c (copyBlank c self)
  generalize copyObjData s c (copyBlank c self) = r1 at *
  obtain ⟨ok1, nc1, s1⟩ := r1
  cases ok1 with
  | false => simp at hok
  | true =>
    simp only [Bool.not_true, Bool.false_eq_true, if_false] at hok ⊢ h1 k1
    have hb1 : AllGe k nc1.blocks := by rw [h1.1]; simp [Core.blocks, copyBlank, hself, optBlk]
    have h2 := copyArrays_blocks k s1 c nc1 (by omega) hb1
    have k2 := copyArrays_blank s1 c nc1
    generalize copyArrays s1 c nc1 = r2 at *
    obtain ⟨ok2, nc2, s2⟩ := r2
    cases ok2 with
    | false => simp at hok
    | true =>
      simp only [Bool.not_true, Bool.false_eq_true, if_false] at hok ⊢ h2 k2
      obtain ⟨h2a, h2b⟩ := h2 trivial
      have h3 := copyConArray_blocks k s2 c.mungeC c.fc (by omega)
      generalize copyConArray s2 c.mungeC c.fc = r3 at *
      obtain ⟨ok3, b3, cs3, s3⟩ := r3
      cases ok3 with
      | false => simp at hok
      | true =>
        simp only [Bool.not_true, Bool.false_eq_true, if_false] at hok ⊢ h3
        obtain ⟨h3a, h3b⟩ := h3 trivial
        have h4 := copyConArray_blocks k s3 c.mungeC c.h (by omega)
        generalize copyConArray s3 c.mungeC c.h = r4 at *
        obtain ⟨ok4, b4, cs4, s4⟩ := r4
        cases ok4 with
        | false => simp at hok
        | true =>
          simp only [Bool.not_true, Bool.false_eq_true, if_false] at hok ⊢ h4
          obtain ⟨h4a, h4b⟩ := h4 trivial
          generalize hnc4 : ({ nc2 with fcBlk := b3, fc := cs3, mAlloc := (if b3.isSome = true then c.fc.length else 0), hBlk := b4, h := cs4, pAlloc := (if b4.isSome = true then c.h.length else 0) } : Core) = nc4 at *
          have hp4 : nc4.params = [] := by rw [← hnc4]; show nc2.params = []; rw [k2.1, k1.2.2.2.2.1]; rfl
          have hb4 : AllGe k nc4.blocks := by
            rw [← hnc4]
            simp only [Core.blocks, AllGe_cons, AllGe_append] at h2a h3a h4a ⊢
            simp_all
          obtain ⟨h5a, h5b⟩ := copyParams_blocks k s4 c nc4 (by omega) hb4 hp4 hok
          exact ⟨h5a, by omega⟩

theorem copyDx_blocks (k : Nat) (s : AS) (c nc : Core) (nl ch' : List Core) (hk : k ≤ s.next)
    (hb : AllGe k nc.blocks) (h : (copyDx s c nc nl).2 = some ch') :
    (∃ nc', ch' = nc' :: nl ∧ AllGe k nc'.blocks) ∧ s.next ≤ (copyDx s c nc nl).1.next := by
  generalize hres : copyDx s c nc nl = res at h ⊢
  unfold copyDx at hres
  simp only [Core.blocks, AllGe_cons, AllGe_append] at hb
  repeat' split at hres
  all_goals subst hres
  all_goals first
    | (simp at h; done)
    | (simp only [Option.some.injEq] at h
       subst h
       pair_subst
       refine ⟨⟨_, rfl, ?_⟩, ?_⟩
       · simp_all [Core.blocks, allocArr_fst_eq_some, allocArr_snd_next]
       · simp_all [allocArr_fst_eq_some, allocArr_snd_next])

/-- **every block of a successful copy is fresh** -/
theorem copyChain_blocks (k : Nat) (s : AS) (ch ch' : List Core) (hk : k ≤ s.next)
    (h : (copyChain s ch).2 = some ch') :
    (∀ nc ∈ ch', AllGe k nc.blocks) ∧ s.next ≤ (copyChain s ch).1.next := by
  induction ch generalizing s ch' with
  | nil =>
    simp only [copyChain, Option.some.injEq] at h
    subst h; simp [copyChain]
  | cons c rest ih =>
    rw [copyChain_staged] at h ⊢
    have h1 := alloc_fst_eq_some s s.sz.opt
    have h2 := alloc_snd_next s s.sz.opt
    generalize s.alloc s.sz.opt = r at *
    obtain ⟨o, s1⟩ := r
    cases o with
    | none => simp at h
    | some self =>
      simp only [] at h h2 ⊢
      obtain ⟨ht1, hself⟩ := (h1 self).mp rfl
      rw [ht1] at h2
      simp only [Bool.false_eq_true, if_false] at h2
      have kc := copyCore_blocks k s1 c self (by omega) (by omega)
      generalize copyCore s1 c self = r at *
      obtain ⟨ok, nc, s2⟩ := r
      cases ok with
      | false => simp at h
      | true =>
        simp only [Bool.not_true, Bool.false_eq_true, if_false] at h kc ⊢
        rw [copyChain_rest] at h ⊢
        obtain ⟨kc1, kc2⟩ := kc trivial
        have ih' := ih s2
        generalize copyChain s2 rest = r at *
        obtain ⟨s3, nlo⟩ := r
        cases nlo with
        | none => simp at h
        | some nl =>
          simp only [] at h ih' ⊢
          obtain ⟨i1, i2⟩ := ih' nl (by omega) rfl
          obtain ⟨⟨nc', rfl, hb'⟩, hn⟩ := copyDx_blocks k s3 c nc nl ch' (by omega) kc1 h
          refine ⟨?_, by omega⟩
          intro x hx
          simp only [List.mem_cons] at hx
          rcases hx with rfl | hx
          · exact hb'
          · exact i1 x hx

end Nlopt
