import NloptModel.Model.EschDriver
import NloptModel.Lemmas.EschDrvLemmas
import NloptModel.Lemmas.F64Order
/-!
# ESCH driver (`chevolutionarystrategy`): properties of the control-flow model `EschDrv.run`

All statements are for EVERY configuration, EVERY event list (any length, any values, NaN included unless said otherwise)
and EVERY `Arith`; `consumed A c evs = evs.take (run A c evs).nevals` are the evaluations actually made;
`r.minfMem c = r.minf.getD c.minf0` is what the memory cell `*minf` holds on return.

* T1  `evals_le_maxeval` : `0 < maxeval → nevals ≤ maxeval` (exact, no overshoot); `maxeval_exact`: `ret = 5 → nevals = maxeval`.
* T2  `forced_stop` : first forced event at position k, not returned before → `nevals = k`, `ret = -5`;
      `forced_only_last`, `forced_iff`: no event is ever consumed after a forced one; `ret = -5` iff the last consumed
      event is forced.
* T3  `returned_pair_partial` (unconditional, every result code, even `short`): either the driver never wrote
      (`minf = none`, `x = x0`, no consumed value was below `minf0`) or `(x, minf) = (e.x, some e.f)` for a consumed `e`;
      `returned_pair_of_better`, `returned_pair_mem` (memory view, under `minf0 = +inf`, first event = `(x0, non-NaN)`);
      `returned_pair_full_false`: without the non-NaN hypothesis the full statement is FALSE (success code
      `MAXEVAL_REACHED` with `*minf = +inf` that no evaluation returned).
* T4  `best_no_better` (unconditional, every result code): no consumed event has `f < *minf`;
      `best_is_min`: `minf = some m → m` is a number and `m ≤ e.f` for every consumed non-NaN event.
* T5  `stopval_strict` : `ret = 2 → *minf < stopval` (STRICT; the documented rule is `≤`, see `stopval_equal_not_reached`).
* more: `ret_codes` (only -5, 2, 5: never SUCCESS/FTOL/XTOL), `nevals_pos`, `run_prefix_stable`, `short_antitone`,
  `runs_forever`, `generation_structure` (program counter as a function of `nevals`), `runPop_res` (the result does not
  depend on what `qsort` does), `run_arith_irrelevant`, `invalid_args_dead`.
-/
set_option linter.unusedSimpArgs false
set_option linter.unusedVariables false
namespace Nlopt.DrvEsch
open Nlopt Nlopt.EschDrv Nlopt.F64

/-- some `Arith` (the concrete examples need one; `run` ignores it, `run_arith_irrelevant`) -/
def arithTriv : Arith :=
  { add := fun a _ => a, sub := fun a _ => a, mul := fun a _ => a, div := fun a _ => a, sqrt := id, tanh := id,
    atanh := id, pow := fun a _ => a, log := id, exp := id, ofInt := fun _ => F64.zero, toInt := fun _ => 0 }

/-! ## Order facts -/

theorem not_nan_of_lt_left {a b : F64} (h : lt a b = true) : a.isNaN = false := by
  simp [lt] at h; exact h.1.1
theorem not_nan_of_lt_right {a b : F64} (h : lt a b = true) : b.isNaN = false := by
  simp [lt] at h; exact h.1.2

theorem lt_trans' {a b c : F64} (h1 : lt a b = true) (h2 : lt b c = true) : lt a c = true := by
  simp [lt] at *
  obtain ⟨⟨ha, _⟩, hab⟩ := h1
  obtain ⟨⟨_, hc⟩, hbc⟩ := h2
  exact ⟨⟨ha, hc⟩, by omega⟩

/-- if nothing seen is below `m` and `f < m`, nothing seen is below `f` -/
theorem not_lt_of_not_lt_of_lt {a f m : F64} (h : lt a m = false) (hf : lt f m = true) : lt a f = false := by
  cases h' : lt a f with
  | false => rfl
  | true => rw [lt_trans' h' hf] at h; cases h

theorem key_le_posInf {f : F64} (hf : f.isNaN = false) : f.key ≤ 9218868437227405312 := by
  have hm : f.mag ≤ 9218868437227405312 := by
    have := of_decide_eq_false hf
    simp only [infMag] at this
    omega
  unfold key; split <;> omega

/-- nothing is above `+Inf` -/
theorem lt_posInf_left (s : F64) : lt posInf s = false := by
  have hk : posInf.key = 9218868437227405312 := by decide
  cases hs : s.isNaN with
  | true => simp [lt, hs]
  | false =>
    have := key_le_posInf hs
    simp only [lt, hs, hk, Bool.not_false, Bool.and_true, Bool.and_eq_false_imp, decide_eq_false_iff_not]
    intro _; omega

/-- a number that is not below `+Inf` is `+Inf` (bit-exactly) -/
theorem eq_posInf_of_not_lt {f : F64} (hf : f.isNaN = false) (h : lt f posInf = false) : f = posInf := by
  have hk : posInf.key = 9218868437227405312 := by decide
  have hp : posInf.isNaN = false := by decide
  have hb := toNat_lt f
  have hm : f.mag ≤ 9218868437227405312 := by
    have := of_decide_eq_false hf
    simp only [infMag] at this
    omega
  simp only [lt, hf, hp, hk, Bool.not_false, Bool.true_and, decide_eq_false_iff_not] at h
  apply ext_toNat
  have hpb : posInf.bits.toNat = 9218868437227405312 := by decide
  rw [hpb]
  unfold key sign at h
  unfold mag at hm h
  split at h
  · omega
  · rename_i hs
    have : ¬ (9223372036854775808 ≤ f.bits.toNat) := by simpa using hs
    omega

/-! ## The master invariant -/

/-- `seen` = events consumed so far, `st` = driver state -/
def Inv (c : Cfg) (seen : List Ev) (st : St) : Prop :=
  (∀ e ∈ seen, lt e.f st.minf = false) ∧
  ((st.wrote = false ∧ st.x = c.x0 ∧ st.minf = c.minf0) ∨
   (st.wrote = true ∧ st.minf.isNaN = false ∧ ∃ e ∈ seen, st.x = e.x ∧ st.minf = e.f))

theorem inv_init (c : Cfg) : Inv c [] (init c) := by
  refine ⟨by simp, Or.inl ⟨rfl, rfl, rfl⟩⟩

theorem inv_incumbent {c : Cfg} {seen : List Ev} {st : St} (e : Ev) (h : Inv c seen st) :
    Inv c (seen ++ [e]) (incumbent st e) := by
  obtain ⟨h1, h2⟩ := h
  cases hg : F64.gt st.minf e.f with
  | true =>
    rw [incumbent_better hg]
    have hlt : lt e.f st.minf = true := hg
    refine ⟨?_, Or.inr ⟨rfl, not_nan_of_lt_left hlt, e, by simp, rfl, rfl⟩⟩
    intro a ha
    simp only [List.mem_append, List.mem_singleton] at ha
    rcases ha with ha | rfl
    · exact not_lt_of_not_lt_of_lt (h1 a ha) hlt
    · exact lt_irrefl' _
  | false =>
    rw [incumbent_not_better hg]
    have hlt : lt e.f st.minf = false := hg
    refine ⟨?_, ?_⟩
    · intro a ha
      simp only [List.mem_append, List.mem_singleton] at ha
      rcases ha with ha | rfl
      · exact h1 a ha
      · exact hlt
    · rcases h2 with h2 | ⟨hw, hn, a, ha, hx, hm⟩
      · exact Or.inl h2
      · exact Or.inr ⟨hw, hn, a, by simp [ha], hx, hm⟩

theorem inv_advance {c : Cfg} {seen : List Ev} {st : St} (h : Inv c seen st) : Inv c seen (advance c st) := by
  simpa [Inv] using h

/-- shape of a result: the final state, and for a returned run the code as decided by `check` on the final state and
    the last consumed event -/
def Shape (c : Cfg) (used : List Ev) (r : Res) : Prop :=
  ∃ st, Inv c used st ∧ st.nev = used.length ∧
    (r = mkRes 0 st true ∨
     ∃ code seen e, used = seen ++ [e] ∧ r = mkRes code st false ∧ check c st e = some code)

/-- Master theorem: every run has this shape. -/
theorem run_shape (A : Arith) (c : Cfg) (evs : List Ev) : Shape c (consumed A c evs) (run A c evs) := by
  apply run_ind A (Inv c) (Shape c) (inv_init c)
  · intro seen st e h _ _
    exact inv_advance (inv_incumbent e h)
  · intro seen st e code h hn hc
    exact ⟨incumbent st e, inv_incumbent e h, by simp [hn], Or.inr ⟨code, seen, e, rfl, rfl, hc⟩⟩
  · intro seen st h hn
    exact ⟨st, h, hn, Or.inl rfl⟩

theorem minfMem_mkRes {c : Cfg} {used : List Ev} {st : St} (h : Inv c used st) (code : Int) (b : Bool) :
    (mkRes code st b).minfMem c = st.minf := by
  unfold Res.minfMem
  rcases h.2 with ⟨hw, _, hm⟩ | ⟨hw, _⟩
  · simp [hw, hm]
  · simp [hw]

theorem shape_res {c : Cfg} {used : List Ev} {r : Res} (h : Shape c used r) :
    ∃ st code, Inv c used st ∧ r = mkRes code st r.short := by
  obtain ⟨st, hi, _, h | ⟨code, _, _, _, h, _⟩⟩ := h
  · exact ⟨st, 0, hi, by rw [h]; rfl⟩
  · exact ⟨st, code, hi, by rw [h]; rfl⟩

/-! ## Basic facts -/

/-- `Arith` plays no role: ESCH's control flow only compares. -/
theorem run_arith_irrelevant (A B : Arith) (c : Cfg) (evs : List Ev) : run A c evs = run B c evs := rfl

/-- `NLOPT_INVALID_ARGS` ("populations too small") is dead code. -/
theorem invalid_args_dead (A : Arith) (c : Cfg) (evs : List Ev) : (run A c evs).ret ≠ -2 := by
  obtain ⟨st, _, _, h | ⟨code, seen, e, _, h, hc⟩⟩ := run_shape A c evs
  · rw [h]; simp
  · rw [h]; simp only [mkRes_ret]
    rcases check_codes hc with h | h | h <;> omega

theorem consumed_length (A : Arith) (c : Cfg) (evs : List Ev) :
    (consumed A c evs).length = (run A c evs).nevals := by
  obtain ⟨st, _, hn, h | ⟨code, seen, e, _, h, hc⟩⟩ := run_shape A c evs
  · rw [h]; simpa using hn.symm
  · rw [h]; simpa using hn.symm

theorem nevals_le_length (A : Arith) (c : Cfg) (evs : List Ev) : (run A c evs).nevals ≤ evs.length := by
  rw [← consumed_length]; unfold consumed; simp; omega

/-- result codes: a returned run has FORCED_STOP, MINF_MAX_REACHED or MAXEVAL_REACHED — never SUCCESS, FTOL_REACHED or
    XTOL_REACHED (ftol / xtol are ignored by ESCH); `ret = 0` exactly for the runs that ran out of events -/
theorem ret_codes (A : Arith) (c : Cfg) (evs : List Ev) :
    ((run A c evs).short = true ∧ (run A c evs).ret = 0) ∨
    ((run A c evs).short = false ∧ ((run A c evs).ret = -5 ∨ (run A c evs).ret = 2 ∨ (run A c evs).ret = 5)) := by
  obtain ⟨st, _, _, h | ⟨code, seen, e, _, h, hc⟩⟩ := run_shape A c evs
  · rw [h]; simp
  · rw [h]
    exact Or.inr ⟨rfl, check_codes hc⟩

/-- a run that returns has made at least one evaluation -/
theorem nevals_pos (A : Arith) (c : Cfg) (evs : List Ev) (h : (run A c evs).short = false) :
    1 ≤ (run A c evs).nevals := by
  rw [← consumed_length]
  obtain ⟨st, _, _, h' | ⟨code, seen, e, hu, _, _⟩⟩ := run_shape A c evs
  · rw [h'] at h; simp at h
  · rw [hu]; simp

/-- a run that ran out of events consumed all of them -/
theorem short_nevals (A : Arith) (c : Cfg) (evs : List Ev) (h : (run A c evs).short = true) :
    (run A c evs).nevals = evs.length := by
  obtain ⟨st, hf⟩ := (run_short_iff A c evs).mp h
  have := feed_running_nev hf
  rw [run_eq, hf]; simp [finish, this, init]

/-! ## Prefixes -/

/-- a run that has returned ignores everything after the events it consumed -/
theorem run_prefix_stable (A : Arith) (c : Cfg) (a b : List Ev) (h : (run A c a).short = false) :
    run A c (a ++ b) = run A c a := by
  rw [run_eq, run_eq, feed_append]
  cases hf : feed c (init c) a with
  | running st =>
    have := (run_short_iff A c a).mpr ⟨st, hf⟩
    rw [this] at h; cases h
  | done r => rfl

/-- if a longer list leaves the run unfinished, so does every prefix -/
theorem short_antitone (A : Arith) (c : Cfg) (a b : List Ev) (h : (run A c (a ++ b)).short = true) :
    (run A c a).short = true := by
  cases hs : (run A c a).short with
  | true => rfl
  | false => rw [run_prefix_stable A c a b hs, hs] at h; cases h

/-- the number of evaluations only depends on the consumed prefix: running on exactly the consumed events gives the same
    result -/
theorem run_consumed (A : Arith) (c : Cfg) (evs : List Ev) (h : (run A c evs).short = false) :
    run A c (consumed A c evs) = run A c evs := by
  unfold consumed
  rw [run_eq A c evs] at h ⊢
  rw [run_eq]
  cases hf : feed c (init c) evs with
  | running st => rw [hf] at h; simp [finish] at h
  | done r =>
    have := feed_done_take hf
    have h0 : (init c).nev = 0 := rfl
    rw [h0, Nat.sub_zero] at this
    simp only [finish, this]

/-- the driver returns at the FIRST evaluation at which one of its tests fires: on every strictly shorter prefix of
    the consumed events the run is still going -/
theorem prefix_short (A : Arith) (c : Cfg) (evs : List Ev) (k : Nat) (hk : k < (run A c evs).nevals) :
    (run A c (evs.take k)).short = true := by
  cases hs : (run A c (evs.take k)).short with
  | true => rfl
  | false =>
    exfalso
    have h1 := run_prefix_stable A c (evs.take k) (evs.drop k) hs
    rw [List.take_append_drop] at h1
    have h2 := nevals_le_length A c (evs.take k)
    rw [← h1] at h2
    simp at h2; omega

/-- Which code: decided by the last consumed event and the final `*minf` / evaluation count alone, in the order
    forced stop, stopval (strict), maxeval. -/
theorem ret_spec (A : Arith) (c : Cfg) (evs : List Ev) (h : (run A c evs).short = false) :
    ∃ e, (consumed A c evs).getLast? = some e ∧
      (run A c evs).ret = (if e.forced then -5 else if lt ((run A c evs).minfMem c) c.stopval then 2 else 5) ∧
      (e.forced = false → lt ((run A c evs).minfMem c) c.stopval = false →
        Stop.evals c.maxeval (run A c evs).nevals = true) := by
  obtain ⟨st, hi, _, h' | ⟨code, seen, e, hu, h', hc⟩⟩ := run_shape A c evs
  · rw [h'] at h; simp at h
  · refine ⟨e, by simp [hu], ?_⟩
    rw [h', minfMem_mkRes hi]
    simp only [mkRes_ret, mkRes_nevals]
    unfold check at hc
    cases hf : e.forced with
    | true => simp [hf] at hc ⊢; omega
    | false =>
      simp only [hf, Bool.false_eq_true, if_false] at hc ⊢
      cases hl : lt st.minf c.stopval with
      | true => simp [hl] at hc ⊢; omega
      | false =>
        simp only [hl, Bool.false_eq_true, if_false] at hc ⊢
        cases he : Stop.evals c.maxeval st.nev with
        | true => simp [he] at hc ⊢; omega
        | false => simp [he] at hc

/-! ## T1: evaluation budget (C03) -/

/-- T1.  With `maxeval > 0` the driver never makes more than `maxeval` evaluations (no overshoot). -/
theorem evals_le_maxeval (A : Arith) (c : Cfg) (evs : List Ev) (h : 0 < c.maxeval) :
    ((run A c evs).nevals : Int) ≤ c.maxeval := by
  apply run_ind A (fun _ st => (st.nev : Int) < c.maxeval) (fun _ r => (r.nevals : Int) ≤ c.maxeval)
  · simp [init]; exact h
  · intro seen st e hp _ hc
    have := (check_none hc).2.2
    simp [Stop.evals, h] at this ⊢
    omega
  · intro seen st e code hp _ _
    simp; omega
  · intro seen st hp _
    simp; omega

/-- `MAXEVAL_REACHED` is returned exactly at evaluation number `maxeval`. -/
theorem maxeval_exact (A : Arith) (c : Cfg) (evs : List Ev) (h : (run A c evs).ret = 5) :
    0 < c.maxeval ∧ ((run A c evs).nevals : Int) = c.maxeval := by
  revert h
  apply run_ind A (fun _ st => 0 < c.maxeval → (st.nev : Int) < c.maxeval)
    (fun _ r => r.ret = 5 → 0 < c.maxeval ∧ (r.nevals : Int) = c.maxeval)
  · intro h; simp [init]; exact h
  · intro seen st e hp _ hc h
    have := (check_none hc).2.2
    simp [Stop.evals, h] at this ⊢
    omega
  · intro seen st e code hp _ hc h5
    simp only [mkRes_ret] at h5
    subst h5
    have := (check_eq_five hc).2.2
    simp [Stop.evals] at this ⊢
    have := hp this.1
    omega
  · intro seen st hp _ h; simp at h

/-- the bound of T1 is attained: `maxeval = 2`, two harmless events -/
example : (run arithTriv { maxeval := 2 } [⟨[], F64.one, false⟩, ⟨[], F64.one, false⟩, ⟨[], F64.one, false⟩]).nevals = 2 := by
  decide

/-! ## T2: forced stop (C04) -/

/-- T2.  If the first event with `forced = true` is number `k = pre.length + 1` and the run has not returned on the
    events before it, the driver returns `FORCED_STOP` right there: `nevals = k`. -/
theorem forced_stop (A : Arith) (c : Cfg) (pre post : List Ev) (e : Ev) (he : e.forced = true)
    (hrun : (run A c pre).short = true) :
    (run A c (pre ++ e :: post)).ret = -5 ∧ (run A c (pre ++ e :: post)).nevals = pre.length + 1 ∧
    (run A c (pre ++ e :: post)).short = false := by
  obtain ⟨st, hf⟩ := (run_short_iff A c pre).mp hrun
  have hn := feed_running_nev hf
  rw [run_eq, feed_append, hf]
  simp only [feed, step_of_check_some (check_forced (c := c) (st := incumbent st e) he), finish]
  simp [hn, init]

/-- No evaluation is ever made after one during which the stop was raised: every consumed event but the last is unforced. -/
theorem forced_only_last (A : Arith) (c : Cfg) (evs : List Ev) :
    ∀ e ∈ (consumed A c evs).dropLast, e.forced = false := by
  apply run_ind A (fun seen _ => ∀ e ∈ seen, e.forced = false) (fun used _ => ∀ e ∈ used.dropLast, e.forced = false)
  · simp
  · intro seen st e hp _ hc a ha
    simp only [List.mem_append, List.mem_singleton] at ha
    rcases ha with ha | rfl
    · exact hp a ha
    · exact (check_none hc).1
  · intro seen st e code hp _ _
    simpa using hp
  · intro seen st hp _ a ha
    exact hp a (List.dropLast_subset _ ha)

/-- hence: wherever a forced event sits in the list, at most the events up to and including it are consumed -/
theorem forced_bound (A : Arith) (c : Cfg) (pre post : List Ev) (e : Ev) (he : e.forced = true) :
    (run A c (pre ++ e :: post)).nevals ≤ pre.length + 1 := by
  cases hs : (run A c pre).short with
  | true => rw [(forced_stop A c pre post e he hs).2.1]; omega
  | false =>
    rw [run_prefix_stable A c pre (e :: post) hs]
    have := nevals_le_length A c pre
    omega

/-- `FORCED_STOP` is returned iff the last consumed evaluation raised the stop. -/
theorem forced_iff (A : Arith) (c : Cfg) (evs : List Ev) :
    (run A c evs).ret = -5 ↔
      (run A c evs).short = false ∧ ∃ e, (consumed A c evs).getLast? = some e ∧ e.forced = true := by
  obtain ⟨st, _, _, h | ⟨code, seen, e, hu, h, hc⟩⟩ := run_shape A c evs
  · rw [h]; simp
  · rw [h, hu]
    simp only [mkRes_ret, mkRes_short, List.getLast?_append, List.getLast?_singleton, Option.some_or,
      Option.some.injEq, exists_eq_left', true_and]
    exact check_eq_forced_iff hc

/-- forced stop has priority over stopval and maxeval, but NOT over the incumbent update: the point of the evaluation that
    raised the stop is recorded if it is better -/
example : run arithTriv { maxeval := 1, stopval := F64.one, x0 := [F64.one] } [⟨[F64.zero], F64.zero, true⟩]
    = ⟨-5, 1, [F64.zero], some F64.zero, false⟩ := by decide

/-- non-vacuity of T2: two quiet evaluations, the third raises the stop, a fourth is never made -/
example : run arithTriv {} [⟨[], F64.one, false⟩, ⟨[], F64.zero, false⟩, ⟨[], F64.one, true⟩, ⟨[], F64.one, false⟩]
    = ⟨-5, 3, [], some F64.zero, false⟩ := by decide

/-! ## T3: the returned pair is an evaluated pair (C02) -/

/-- T3, strongest unconditional form (every result code, also unfinished runs): either the driver never wrote its
    outputs — then `x` is the caller's start point, `*minf` its value on entry, and no consumed value was below that —
    or `(x, *minf)` is exactly the point and value of one consumed evaluation. -/
theorem returned_pair_partial (A : Arith) (c : Cfg) (evs : List Ev) :
    ((run A c evs).minf = none ∧ (run A c evs).x = c.x0 ∧ ∀ e ∈ consumed A c evs, lt e.f c.minf0 = false) ∨
    (∃ e ∈ consumed A c evs, (run A c evs).x = e.x ∧ (run A c evs).minf = some e.f) := by
  obtain ⟨st, code, ⟨h1, h2⟩, hr⟩ := shape_res (run_shape A c evs)
  rw [hr]
  rcases h2 with ⟨hw, hx, hm⟩ | ⟨hw, _, e, he, hx, hm⟩
  · left
    refine ⟨by simp [hw], by simp [hx], ?_⟩
    rw [← hm]; exact h1
  · right
    exact ⟨e, he, by simp [hx], by simp [hw, hm]⟩

/-- as soon as one consumed value is below the entry value of `*minf`, the outputs are an evaluated pair -/
theorem returned_pair_of_better (A : Arith) (c : Cfg) (evs : List Ev)
    (h : ∃ e ∈ consumed A c evs, lt e.f c.minf0 = true) :
    ∃ e ∈ consumed A c evs, (run A c evs).x = e.x ∧ (run A c evs).minf = some e.f := by
  rcases returned_pair_partial A c evs with ⟨_, _, hn⟩ | h'
  · obtain ⟨e, he, hl⟩ := h
    rw [hn e he] at hl; cases hl
  · exact h'

/-- T3 in the memory view, as the driver is actually called (`*minf = +Inf` on entry, the first evaluated point is the
    caller's `x0`), when the first value is a number: `(x, *minf)` is the point and value of a consumed evaluation,
    for every result code. -/
theorem returned_pair_mem (A : Arith) (c : Cfg) (e1 : Ev) (es : List Ev)
    (h0 : c.minf0 = posInf) (hx : e1.x = c.x0) (hf : e1.f.isNaN = false) :
    ∃ e ∈ consumed A c (e1 :: es), (run A c (e1 :: es)).x = e.x ∧ (run A c (e1 :: es)).minfMem c = e.f := by
  have hmem : e1 ∈ consumed A c (e1 :: es) := by
    have hpos : 1 ≤ (run A c (e1 :: es)).nevals := by
      cases hs : (run A c (e1 :: es)).short with
      | true => rw [short_nevals A c _ hs]; simp
      | false => exact nevals_pos A c _ hs
    unfold consumed
    obtain ⟨k, hk⟩ : ∃ k, (run A c (e1 :: es)).nevals = k + 1 := ⟨_, (Nat.sub_add_cancel hpos).symm⟩
    rw [hk]; simp
  rcases returned_pair_partial A c (e1 :: es) with ⟨hn, hxx, hall⟩ | ⟨e, he, hxe, hme⟩
  · refine ⟨e1, hmem, by rw [hxx, hx], ?_⟩
    have := hall e1 hmem
    rw [h0] at this
    simp [Res.minfMem, hn, h0, eq_posInf_of_not_lt hf this]
  · exact ⟨e, he, hxe, by simp [Res.minfMem, hme]⟩

/-- T3 in full generality is FALSE for the code as written.  Witness (replayable on the C library): dimension 1,
    population 1, `maxeval = 1`, start point 1.0, an objective that returns NaN.  The driver evaluates x0, `*minf > NaN`
    is false, nothing is recorded, `nlopt_stop_evals` fires: the SUCCESS code `NLOPT_MAXEVAL_REACHED` (5) is returned with
    `*minf = +Inf` (the value `nlopt_optimize_` stored on entry), a value the objective never returned.  (The same
    happens for any `maxeval = k` when all k values are NaN.) -/
theorem returned_pair_full_false :
    ¬ ∀ (A : Arith) (c : Cfg) (evs : List Ev), c.minf0 = posInf → (∃ e es, evs = e :: es ∧ e.x = c.x0) →
        (run A c evs).ret > 0 → (run A c evs).short = false →
        ∃ e ∈ consumed A c evs, (run A c evs).x = e.x ∧ (run A c evs).minfMem c = e.f := by
  intro h
  have := h arithTriv { n := 1, np := 1, no := 1, maxeval := 1, x0 := [F64.one] } [⟨[F64.one], F64.qnan, false⟩]
    rfl ⟨_, _, rfl, rfl⟩ (by decide) (by decide)
  revert this
  decide

/-- the witness, spelled out -/
example : run arithTriv { n := 1, np := 1, no := 1, maxeval := 1, x0 := [F64.one] } [⟨[F64.one], F64.qnan, false⟩]
    = ⟨5, 1, [F64.one], none, false⟩ := by decide

/-- non-vacuity of T3: a returned pair that is an evaluated pair -/
example : run arithTriv { maxeval := 3, x0 := [F64.one] }
      [⟨[F64.one], F64.one, false⟩, ⟨[F64.zero], F64.zero, false⟩, ⟨[F64.negOne], F64.one, false⟩]
    = ⟨5, 3, [F64.zero], some F64.zero, false⟩ := by decide

/-! ## T4: best point (C05) -/

/-- T4, unconditional (every result code, NaN values allowed, also unfinished runs): no consumed evaluation returned a
    value below what `*minf` holds. -/
theorem best_no_better (A : Arith) (c : Cfg) (evs : List Ev) :
    ∀ e ∈ consumed A c evs, lt e.f ((run A c evs).minfMem c) = false := by
  obtain ⟨st, code, hi, hr⟩ := shape_res (run_shape A c evs)
  rw [hr, minfMem_mkRes hi]
  exact hi.1

/-- T4 as a minimum: a written `*minf` is a number, and it is `≤` every consumed value that is a number.
    Together with T3 (`returned_pair_partial`): it is the value of a consumed evaluation at the returned `x`. -/
theorem best_is_min (A : Arith) (c : Cfg) (evs : List Ev) (m : F64) (hm : (run A c evs).minf = some m) :
    m.isNaN = false ∧ ∀ e ∈ consumed A c evs, e.f.isNaN = false → le m e.f = true := by
  have hb := best_no_better A c evs
  obtain ⟨st, code, hi, hr⟩ := shape_res (run_shape A c evs)
  have hmm : (run A c evs).minfMem c = m := by simp [Res.minfMem, hm]
  rw [hmm] at hb
  have hnan : m.isNaN = false := by
    rw [hr] at hm
    rcases hi.2 with ⟨hw, _⟩ | ⟨hw, hn, _⟩
    · simp [hw] at hm
    · simp [hw] at hm; rw [← hm]; exact hn
  exact ⟨hnan, fun e he hf => le_of_not_nan_of_not_lt hf hnan (hb e he)⟩

/-- non-vacuity of T4 (with a NaN and a tie among the values) -/
example : run arithTriv { maxeval := 4 }
      [⟨[F64.one], F64.qnan, false⟩, ⟨[F64.zero], F64.one, false⟩, ⟨[F64.negOne], F64.zero, false⟩,
       ⟨[F64.one], F64.zero, false⟩]
    = ⟨5, 4, [F64.negOne], some F64.zero, false⟩ := by decide

/-! ## T5: stopval (C02) -/

/-- T5.  `MINF_MAX_REACHED` is returned only when `*minf` is STRICTLY below stopval. -/
theorem stopval_strict (A : Arith) (c : Cfg) (evs : List Ev) (h : (run A c evs).ret = 2) :
    lt ((run A c evs).minfMem c) c.stopval = true := by
  obtain ⟨st, hi, _, h' | ⟨code, seen, e, _, h', hc⟩⟩ := run_shape A c evs
  · rw [h'] at h; simp at h
  · rw [h'] at h ⊢
    simp only [mkRes_ret] at h; subst h
    rw [minfMem_mkRes hi]
    exact (check_eq_two hc).2

/-- … and, when the entry value of `*minf` is not itself below stopval (always so for `+Inf`), that `*minf` is a
    written value, i.e. (T3) the value of a consumed evaluation. -/
theorem stopval_some (A : Arith) (c : Cfg) (evs : List Ev) (h0 : lt c.minf0 c.stopval = false)
    (h : (run A c evs).ret = 2) : ∃ m, (run A c evs).minf = some m ∧ lt m c.stopval = true := by
  have hs := stopval_strict A c evs h
  cases hm : (run A c evs).minf with
  | none => simp [Res.minfMem, hm, h0] at hs
  | some m => exact ⟨m, rfl, by simpa [Res.minfMem, hm] using hs⟩

theorem stopval_some_posInf (A : Arith) (c : Cfg) (evs : List Ev) (h0 : c.minf0 = posInf)
    (h : (run A c evs).ret = 2) : ∃ m, (run A c evs).minf = some m ∧ lt m c.stopval = true :=
  stopval_some A c evs (by rw [h0]; exact lt_posInf_left _) h

/-- non-vacuity of T5: stopval 1.0, the second value 0.0 is below it -/
example : run arithTriv { stopval := F64.one } [⟨[F64.one], F64.one, false⟩, ⟨[F64.zero], F64.zero, false⟩, ⟨[], F64.zero, false⟩]
    = ⟨2, 2, [F64.zero], some F64.zero, false⟩ := by decide

/-- Surprising: a value EQUAL to stopval does not stop ESCH (`*minf < minf_max`; `nlopt_stop_f` and the documentation
    say `≤`): with stopval 1.0 the value 1.0 is evaluated and the run continues until maxeval. -/
theorem stopval_equal_not_reached (A : Arith) :
    run A { stopval := F64.one, maxeval := 3 }
      [⟨[F64.one], F64.one, false⟩, ⟨[F64.zero], F64.one, false⟩, ⟨[F64.negOne], F64.one, false⟩]
    = ⟨5, 3, [F64.one], some F64.one, false⟩ := by
  rw [run_arith_irrelevant A arithTriv]; decide

/-! ## Termination -/

/-- ESCH has no convergence test of its own: without maxeval, as long as no evaluation raises the stop and no value (nor
    the entry value of `*minf`) is below stopval, the driver never returns — whatever ftol / xtol the user set. -/
theorem runs_forever (A : Arith) (c : Cfg) (evs : List Ev) (hmax : c.maxeval ≤ 0)
    (h0 : lt c.minf0 c.stopval = false)
    (hev : ∀ e ∈ evs, e.forced = false ∧ lt e.f c.stopval = false) : (run A c evs).short = true := by
  rw [run_short_iff]
  have key := feed_ind (c := c) (fun _ s => lt s.minf c.stopval = false) (fun used _ => ∃ e ∈ used, e ∉ evs)
    (by
      intro seen s e s' hp hs
      obtain ⟨_, rfl⟩ := step_running hs
      simp only [advance_minf]
      exact (check_none (step_running hs).1).2.1)
    (by
      intro seen s e r hp hs
      obtain ⟨code, hc, rfl⟩ := step_done hs
      refine ⟨e, by simp, fun hmem => ?_⟩
      obtain ⟨hf, hl⟩ := hev e hmem
      have hm : lt (incumbent s e).minf c.stopval = false := by
        unfold incumbent; split
        · exact hl
        · exact hp
      unfold check at hc
      simp [hf, hm, Stop.evals] at hc
      omega)
    evs [] (init c) h0
  cases hf : feed c (init c) evs with
  | running st => exact ⟨st, rfl⟩
  | done r =>
    rw [hf] at key
    obtain ⟨pre, e, post, rfl, e', he', hne⟩ := key
    simp only [List.nil_append, List.mem_append, List.mem_singleton] at he'
    exfalso; apply hne
    rcases he' with h | rfl
    · simp [h]
    · simp

/-! ## Generation structure -/

/-- the program counter as a function of the number of evaluations made: the first `np` evaluations are the parents
    (index = count), afterwards evaluation number `np + gen·no + id + 1` is offspring `id` of generation `gen`
    (`gen` sorts have been executed) -/
def PhaseInv (c : Cfg) (st : St) : Prop :=
  match st.phase with
  | .parents id => id = st.nev ∧ st.nev < npEff c ∧ st.gen = 0
  | .offspring id => id < noEff c ∧ st.nev = npEff c + st.gen * noEff c + id

theorem phaseInv_step {c : Cfg} {st : St} (e : Ev) (h : PhaseInv c st) : PhaseInv c (advance c (incumbent st e)) := by
  have hno := noEff_pos c
  have hph : (incumbent st e).phase = st.phase := incumbent_phase st e
  have hg : (incumbent st e).gen = st.gen := incumbent_gen st e
  have hn : (incumbent st e).nev = st.nev + 1 := incumbent_nev st e
  generalize incumbent st e = s1 at *
  unfold PhaseInv at h
  cases hp : st.phase with
  | parents id =>
    rw [hp] at h hph
    simp only at h
    obtain ⟨h1, h2, h3⟩ := h
    unfold advance; rw [hph]; simp only
    by_cases hlt : id + 1 < npEff c
    · rw [if_pos hlt]; simp only [PhaseInv]; omega
    · rw [if_neg hlt]; simp only [PhaseInv]; rw [hg, h3]; simp; omega
  | offspring id =>
    rw [hp] at h hph
    simp only at h
    obtain ⟨h1, h2⟩ := h
    unfold advance; rw [hph]; simp only
    by_cases hlt : id + 1 < noEff c
    · rw [if_pos hlt]; simp only [PhaseInv]; rw [hg]; omega
    · rw [if_neg hlt]; simp only [PhaseInv]; rw [hg, Nat.add_mul]; omega

theorem generation_structure (c : Cfg) (evs : List Ev) (st : St) (h : feed c (init c) evs = .running st) :
    PhaseInv c st := by
  have key := feed_ind (c := c) (fun _ s => PhaseInv c s) (fun _ _ => True)
    (by intro _ s e s' hp hs; obtain ⟨_, rfl⟩ := step_running hs; exact phaseInv_step e hp)
    (by intros; trivial) evs [] (init c)
    (by have := npEff_pos c; simp [PhaseInv, init]; omega)
  rw [h] at key; exact key

/-- … solved for the counter: after `k` evaluations without return, `k < np` means "parent `k` is next, nothing sorted
    yet", otherwise `(k - np) / no` selections (sorts) have been executed and offspring `(k - np) % no` is next -/
theorem generation_count (c : Cfg) (evs : List Ev) (st : St) (h : feed c (init c) evs = .running st) :
    st.nev = evs.length ∧
    ((st.nev < npEff c ∧ st.phase = .parents st.nev ∧ st.gen = 0) ∨
     (npEff c ≤ st.nev ∧ st.phase = .offspring ((st.nev - npEff c) % noEff c) ∧
      st.gen = (st.nev - npEff c) / noEff c)) := by
  have hno := noEff_pos c
  have hn := feed_running_nev h
  have hp := generation_structure c evs st h
  refine ⟨by simpa [init] using hn, ?_⟩
  unfold PhaseInv at hp
  cases hph : st.phase with
  | parents id =>
    rw [hph] at hp; simp only at hp
    obtain ⟨h1, h2, h3⟩ := hp
    exact Or.inl ⟨h2, by rw [h1], h3⟩
  | offspring id =>
    rw [hph] at hp; simp only at hp
    obtain ⟨h1, h2⟩ := hp
    have h3 : st.nev - npEff c = noEff c * st.gen + id := by rw [Nat.mul_comm]; omega
    refine Or.inr ⟨by omega, ?_, ?_⟩
    · rw [h3, Nat.mul_add_mod, Nat.mod_eq_of_lt h1]
    · rw [h3, Nat.mul_add_div (by omega), Nat.div_eq_of_lt h1]; simp

/-! ## Independence of the sort -/

theorem store_base (p : PSt) (e : Ev) : (store p e).base = p.base := by
  unfold store; split <;> rfl

theorem select_base (c : Cfg) (sortO : Nat → List (Option Ind) → List (Option Ind)) (p : PSt) :
    (select c sortO p).base = p.base := by
  unfold select; split
  · rfl
  · split <;> rfl

theorem feedPop_res (c : Cfg) (sortO : Nat → List (Option Ind) → List (Option Ind)) (p : PSt) (evs : List Ev) :
    (feedPop c sortO p evs).res = finish (feed c p.base evs) := by
  induction evs generalizing p with
  | nil => simp [feedPop, feed, POut.res, finish]
  | cons e es ih =>
    unfold feedPop feed
    unfold stepPop step
    simp only [store_base]
    cases hc : check c (incumbent p.base e) e with
    | some code => simp [POut.res, finish]
    | none => simp only []; rw [ih]

/-- The result (code, count, `x`, `*minf`) of the machine that carries both populations and sorts them with an ARBITRARY
    function is the result of `run`: nothing the driver returns depends on `qsort`'s tie order, nor on how it reacts to
    the inconsistent comparison of NaN fitness values. -/
theorem runPop_res (A : Arith) (c : Cfg) (sortO : Nat → List (Option Ind) → List (Option Ind)) (evs : List Ev) :
    (runPop A c sortO evs).1 = run A c evs := by
  rw [run_eq]
  simp only [runPop]
  rw [feedPop_res]; rfl

/-- the populations do matter for nothing else: two oracles give the same result -/
theorem runPop_oracle_irrelevant (A : Arith) (c : Cfg) (s1 s2 : Nat → List (Option Ind) → List (Option Ind))
    (evs : List Ev) : (runPop A c s1 evs).1 = (runPop A c s2 evs).1 := by
  rw [runPop_res, runPop_res]

/-- non-vacuity: np = 2, no = 1, one full generation with a reversing "sort"; the populations are really permuted -/
example : ((runPop arithTriv { np := 2, no := 1 } (fun _ l => l.reverse)
      [⟨[F64.one], F64.one, false⟩, ⟨[F64.zero], F64.zero, false⟩, ⟨[F64.negOne], F64.negOne, false⟩]).2.parents
    = [some ⟨[F64.negOne], F64.negOne⟩, some ⟨[F64.zero], F64.zero⟩]) := by decide

end Nlopt.DrvEsch
