import NloptModel.Generated.Globals
/-!
# C16 — optimizations on distinct objects in different threads do not interfere  (partial)

A Lean model cannot express data races or the C memory model.  What is proved:

* `interleaving_noninterference`: a schedule-level theorem — if every step of thread `i` reads and writes only component `i`
  of the global state (its object, its thread-local generator and clock, its private work space), then for EVERY
  interleaving each thread's component is what its solo run produces.
* its premise for this library is the regenerated table of process-wide writable symbols
  (`Generated/Globals.lean`: `no_hidden_state`, `rng_and_timer_are_tls`, re-derived from `nm`/`readelf` of the fresh build on
  every run): everything writable that is not thread-local is on an allow-list of symbols (`no_hidden_state`), and no source line
  outside their definitions and the documented legacy setters assigns one of those (`allowed_globals_never_written`).
-/
namespace Nlopt.C16

/-- global state = one component per thread -/
def GState (σ : Type) := Nat → σ

def upd {σ : Type} (s : GState σ) (i : Nat) (v : σ) : GState σ := fun j => if j = i then v else s j

/-- executing one step of thread `i`: touches component `i` only -/
def stepAt {σ : Type} (step : Nat → σ → σ) (s : GState σ) (i : Nat) : GState σ := upd s i (step i (s i))

/-- an interleaving is a list of thread ids -/
def runSchedule {σ : Type} (step : Nat → σ → σ) (s : GState σ) (sched : List Nat) : GState σ :=
  sched.foldl (stepAt step) s

def iter {σ : Type} (f : σ → σ) : Nat → σ → σ
  | 0, x => x
  | k + 1, x => iter f k (f x)

/-- **every interleaving**: thread `i` ends in the state its solo run (the same number of its own steps) produces -/
theorem interleaving_noninterference {σ : Type} (step : Nat → σ → σ) (sched : List Nat) (s : GState σ) (i : Nat) :
    runSchedule step s sched i = iter (step i) (sched.count i) (s i) := by
  induction sched generalizing s with
  | nil => rfl
  | cons j rest ih =>
    simp only [runSchedule, List.foldl_cons] at *
    rw [ih]
    by_cases h : j = i
    · subst h
      simp [stepAt, upd, iter]
    · have h' : ¬ (i = j) := fun e => h e.symm
      simp [stepAt, upd, h, h']

/-- two schedules with the same number of steps of thread `i` agree on thread `i` (start-time skews, any thread count) -/
theorem schedules_agree {σ : Type} (step : Nat → σ → σ) (s : GState σ) (s1 s2 : List Nat) (i : Nat)
    (h : s1.count i = s2.count i) : runSchedule step s s1 i = runSchedule step s s2 i := by
  rw [interleaving_noninterference, interleaving_noninterference, h]

/-- the footprint premise, from the build: no unlisted writable global, generator and timer thread-local -/
theorem footprint : Nlopt.Gen.unlistedWritableGlobals = [] ∧ Nlopt.Gen.writesToAllowedGlobals = [] ∧
    (Nlopt.Gen.tlsGlobals.contains "mt" && Nlopt.Gen.tlsGlobals.contains "mti") = true :=
  ⟨Nlopt.Gen.no_hidden_state, Nlopt.Gen.allowed_globals_never_written, Nlopt.Gen.rng_and_timer_are_tls⟩

/-- non-vacuity -/
example : runSchedule (fun i (x : Nat) => x + i + 1) (fun _ => 0) [0, 1, 0, 2, 1, 0] 0 = 3 := by decide

end Nlopt.C16
