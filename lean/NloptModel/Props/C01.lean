import NloptModel.Model.Glue
import NloptModel.Lemmas.F64Order
import NloptModel.Lemmas.WrapLemmas
/-!
# C01 — callbacks are never evaluated outside the bound constraints

What is proved (for every dimension, every box with `lb ≤ ub` — finite, half-infinite, infinite, degenerate —
and EVERY proposal of the numeric core that is not NaN, with no assumption on the arithmetic):

* the comparison clamps that sit directly in front of the user callback at the COBYLA, BOBYQA, bounded-NEWUOA,
  Nelder-Mead / Sbplx and PRAXIS (finite box) sites deliver a point inside the box, and a coordinate with
  `lb = ub` is delivered IEEE-equal to the bound;
* dimension elimination writes the fixed coordinates from `lb` bit for bit (`expand`), for every subset of
  fixed coordinates (`Nlopt.WrapProps`/`WrapLemmas`: `fixedExact_expand`, `elim_equiv`).

What the proposals are (scaled iterates of f2c cores) is not modelled; sites without NLopt glue in front of
the callback (SLSQP, Luksan, StoGO, AGS, DIRECT) are covered by the in-box monitor only — see evidence
`unproved_sites`.
-/
namespace Nlopt.C01
open Nlopt Nlopt.Glue Nlopt.F64

theorem clampElse_inBox {lb ub x : F64} (hb : le lb ub = true) (hx : x.isNaN = false) :
    inBox1 lb ub (clampElse lb ub x) = true := by
  have := clamp_inBox hb hx
  simpa [clampElse, F64.clamp] using this

theorem clampTwo_inBox {lb ub x : F64} (hb : le lb ub = true) (hx : x.isNaN = false) :
    inBox1 lb ub (clampTwo lb ub x) = true := by
  have hlo := not_nan_of_le_left hb
  have hhi := not_nan_of_le_right hb
  unfold clampTwo inBox1
  by_cases h1 : lt x lb = true
  · simp only [h1, if_true]
    by_cases h2 : gt lb ub = true
    · simp [h2, hb, le_refl_of_not_nan hhi]
    · have h2' : gt lb ub = false := by simpa using h2
      simp [h2', hb, le_refl_of_not_nan hlo]
  · have h1' : lt x lb = false := by simpa using h1
    simp only [h1']
    by_cases h2 : gt x ub = true
    · simp [h2, hb, le_refl_of_not_nan hhi]
    · have h2' : gt x ub = false := by simpa using h2
      simp [h2']
      exact ⟨le_of_not_nan_of_not_lt hx hlo h1', le_of_not_nan_of_not_lt hhi hx h2'⟩

/-- a delivered coordinate of a degenerate box is IEEE-equal to the bound -/
theorem clampElse_fixed {b x : F64} (hb : b.isNaN = false) (hx : x.isNaN = false) :
    feq (clampElse b b x) b = true :=
  inBox_degenerate (clampElse_inBox (le_refl_of_not_nan hb) hx)

/-- boxes and proposals as vectors -/
def BoxOK : List F64 → List F64 → Prop
  | l :: lb, u :: ub => le l u = true ∧ BoxOK lb ub
  | [], [] => True
  | _, _ => False

def NoNaN (x : List F64) : Prop := ∀ v ∈ x, v.isNaN = false

/-- every coordinate of `zip3 f lb ub x` is in its interval when `f` lands in the interval -/
theorem zip3_all_inBox (f : F64 → F64 → F64 → F64)
    (hf : ∀ l u v, le l u = true → v.isNaN = false → inBox1 l u (f l u v) = true) :
    ∀ (lb ub x : List F64), BoxOK lb ub → NoNaN x → x.length = lb.length →
      ∀ i (hi : i < (zip3 f lb ub x).length) (hl : i < lb.length) (hu : i < ub.length),
        inBox1 lb[i] ub[i] (zip3 f lb ub x)[i] = true := by
  intro lb
  induction lb with
  | nil => intro ub x _ _ hlen i hi; cases x <;> simp [zip3] at hi hlen
  | cons l lb ih =>
    intro ub x hbox hnan hlen i hi hl hu
    cases ub with
    | nil => simp [BoxOK] at hbox
    | cons u ub =>
      cases x with
      | nil => simp at hlen
      | cons v xs =>
        simp only [zip3] at hi ⊢
        cases i with
        | zero => exact hf l u v hbox.1 (hnan v (by simp))
        | succ j =>
          simp only [List.getElem_cons_succ]
          exact ih ub xs hbox.2 (fun w hw => hnan w (by simp [hw])) (by simpa using hlen) j
            (by simpa using hi) (by simpa using hl) (by simpa using hu)

/-- **COBYLA / BOBYQA / bounded NEWUOA sites**: whatever the core proposes (no NaN), the delivered point is in
    the box in every coordinate -/
theorem clampSite_in_box (lb ub x : List F64) (hbox : BoxOK lb ub) (hnan : NoNaN x) (hlen : x.length = lb.length)
    (i : Nat) (hi : i < (clampSite lb ub x).length) (hl : i < lb.length) (hu : i < ub.length) :
    inBox1 lb[i] ub[i] (clampSite lb ub x)[i] = true :=
  zip3_all_inBox clampElse (fun _ _ _ hb hv => clampElse_inBox hb hv) lb ub x hbox hnan hlen i hi hl hu

/-- **Nelder-Mead `reflectpt`** (two independent ifs) -/
theorem reflect_in_box (lb ub x : List F64) (hbox : BoxOK lb ub) (hnan : NoNaN x) (hlen : x.length = lb.length)
    (i : Nat) (hi : i < (zip3 clampTwo lb ub x).length) (hl : i < lb.length) (hu : i < ub.length) :
    inBox1 lb[i] ub[i] (zip3 clampTwo lb ub x)[i] = true :=
  zip3_all_inBox clampTwo (fun _ _ _ hb hv => clampTwo_inBox hb hv) lb ub x hbox hnan hlen i hi hl hu

/-- **PRAXIS box transform, finite interval**: for EVERY arithmetic (`tanh`, rounding, …) the delivered
    coordinate is inside `[lb, ub]` as soon as the transformed value is not NaN -/
theorem xBound1_finite_in_box (A : Arith) (lb ub t : F64) (hb : le lb ub = true)
    (hfin : lb.isInf = false ∧ ub.isInf = false)
    (hv : (A.add (A.mul (A.add lb ub) half) (A.mul (A.tanh t) (A.mul (A.sub ub lb) half))).isNaN = false) :
    inBox1 lb ub (xBound1 A lb ub t) = true := by
  unfold xBound1
  simp only [hfin.1, hfin.2, Bool.not_false, Bool.and_self, if_true]
  exact clampElse_inBox hb hv

/-- the clamp is the identity on points that already are in the box: the fix does not move legal iterates -/
theorem clampElse_id_in_box {lb ub x : F64} (h : inBox1 lb ub x = true) : clampElse lb ub x = x := by
  simp only [inBox1, Bool.and_eq_true] at h
  have h1 : lt x lb = false := by
    have := h.1; simp [le, lt] at *; omega
  have h2 : gt x ub = false := by
    have := h.2; simp [le, lt, gt] at *; omega
  simp [clampElse, h1, h2]

/-- **fixed coordinates under dimension elimination are passed bit-for-bit equal to the bound** -/
theorem elimdim_fixed_exact (lb ub xr : List F64) : fixedExact lb ub (expand lb ub xr) = true :=
  fixedExact_expand lb ub xr

/-- non-vacuity: a concrete box and proposal (one coordinate below, one inside, one fixed) -/
example : clampSite [F64.zero, F64.zero, F64.one] [F64.one, F64.one, F64.one] [F64.negOne, ⟨0x3FE0000000000000⟩, F64.zero]
    = [F64.zero, ⟨0x3FE0000000000000⟩, F64.one] := by decide

end Nlopt.C01
